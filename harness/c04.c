/* C04 harness: the REAL compressor / transformer / decompressor of the working tree.
 *   dec <hex>        decode a stream with jpeg_read_coefficients (lossless: full decode)
 *   decs <n> <hex>   the same through a suspending data source that reveals n bytes at a time
 *   enc <params>     compress a synthetic image with the libjpeg API, print "<hex>\t<dec line>"
 *   xform <params>   tj3Compress8 + tj3Transform, print "<hex>\t<dec line>"
 * dec line:  ok nc=<k> warn=<n> | w h c c c ... | w h ...     (natural order, real blocks only)
 *            lossless nc=<k> warn=<n> crc=<x>
 *            err <msg_code>
 */
#include <stdio.h>
#include <stdlib.h>
#include <string.h>
#include <setjmp.h>
#define JPEG_INTERNALS
#include "jinclude.h"
#include "jpeglib.h"
#include "jerror.h"
#include "turbojpeg.h"

static jmp_buf jb;
static int last_err;
static void my_exit(j_common_ptr c) { last_err = c->err->msg_code; longjmp(jb, 1); }
static void my_emit(j_common_ptr c, int lvl)
{
  if (lvl < 0) { c->err->num_warnings++; if (getenv("C04_WARN")) { char b[JMSG_LENGTH_MAX]; (*c->err->format_message) (c, b); fprintf(stderr, "warning: %s\n", b); } }
}

static unsigned long long rs;
static unsigned rnd(void) { rs = rs * 6364136223846793005ULL + 1442695040888963407ULL; return (unsigned)(rs >> 33); }

static int hexv(int c) { return c <= '9' ? c - '0' : (c | 32) - 'a' + 10; }
static void put_hex(const unsigned char *b, size_t n)
{
  static const char *hx = "0123456789abcdef"; size_t i;
  for (i = 0; i < n; i++) { putchar(hx[b[i] >> 4]); putchar(hx[b[i] & 15]); }
}

/* A suspending data source: only `avail` bytes of the stream are visible; fill_input_buffer
 * returns FALSE, the caller then makes `chunk` more bytes visible and calls the library again. */
typedef struct { struct jpeg_source_mgr pub; const unsigned char *data; size_t len, avail, skip_left; } susp_src;
static void ss_init(j_decompress_ptr d) { }
static boolean ss_fill(j_decompress_ptr d) { return FALSE; }
static void ss_skip(j_decompress_ptr d, long n)
{
  susp_src *s = (susp_src *)d->src;
  if (n <= 0) return;
  if ((size_t)n <= s->pub.bytes_in_buffer) { s->pub.next_input_byte += n; s->pub.bytes_in_buffer -= n; }
  else { s->skip_left += (size_t)n - s->pub.bytes_in_buffer; s->pub.next_input_byte += s->pub.bytes_in_buffer; s->pub.bytes_in_buffer = 0; }
}
static void ss_term(j_decompress_ptr d) { }
static size_t ss_chunk;
static int ss_feed(j_decompress_ptr d)       /* returns 0 when the whole stream is already visible */
{
  susp_src *s = (susp_src *)d->src; size_t add;
  if (s->avail >= s->len) return 0;
  add = ss_chunk; if (add > s->len - s->avail) add = s->len - s->avail;
  s->avail += add;
  if (s->skip_left) { size_t k = s->skip_left < add ? s->skip_left : add; s->skip_left -= k; s->pub.next_input_byte += k; add -= k; }
  s->pub.bytes_in_buffer += add;
  return 1;
}
#define SUSP_LOOP(call, suspended) \
  for (;;) { if (!(suspended)) break; if (!chunk || !ss_feed(&d)) { printf("err suspended-at-end\n"); jpeg_destroy_decompress(&d); return; } }

/* decode with the real library and print the canonical line; chunk > 0: suspending source */
static void dec_stream_c(unsigned char *buf, size_t len, size_t chunk);
static void dec_stream(unsigned char *buf, size_t len) { dec_stream_c(buf, len, 0); }
static void dec_stream_c(unsigned char *buf, size_t len, size_t chunk)
{
  susp_src ss; int hr;
  struct jpeg_decompress_struct d; struct jpeg_error_mgr e; int ci;
  jvirt_barray_ptr *coefs;
  d.err = jpeg_std_error(&e); e.error_exit = my_exit; e.emit_message = my_emit;
  jpeg_create_decompress(&d);
  if (setjmp(jb)) { printf("err %d\n", last_err); jpeg_destroy_decompress(&d); return; }
  if (chunk) {
    memset(&ss, 0, sizeof(ss)); ss.pub.init_source = ss_init; ss.pub.fill_input_buffer = ss_fill; ss.pub.skip_input_data = ss_skip;
    ss.pub.resync_to_restart = jpeg_resync_to_restart; ss.pub.term_source = ss_term; ss.data = buf; ss.len = len;
    ss.pub.next_input_byte = buf; ss.pub.bytes_in_buffer = 0; ss_chunk = chunk; d.src = &ss.pub;
  } else jpeg_mem_src(&d, buf, (unsigned long)len);
  SUSP_LOOP(hr, (hr = jpeg_read_header(&d, TRUE)) == JPEG_SUSPENDED)
  if (d.master->lossless) {
    unsigned long crc = 0; size_t rowsz; void *row; JDIMENSION y; int same = 1, nc; long *all = NULL; size_t npix;
    d.out_color_space = d.jpeg_color_space;
    for (ci = 0; ci < d.num_components; ci++)
      if (d.comp_info[ci].h_samp_factor != d.max_h_samp_factor || d.comp_info[ci].v_samp_factor != d.max_v_samp_factor) same = 0;
    SUSP_LOOP(hr, !jpeg_start_decompress(&d))
    nc = d.output_components; npix = (size_t)d.output_width * d.output_height;
    if (nc != d.num_components) same = 0;
    rowsz = (size_t)d.output_width * nc * 2;
    row = malloc(rowsz + 16);
    if (same) all = malloc(npix * nc * sizeof(long) + 8);
    for (y = 0; y < d.output_height; y++) {
      size_t i, n = (size_t)d.output_width * nc; long v;
      if (d.data_precision <= 8) { JSAMPROW r = (JSAMPROW)row; SUSP_LOOP(hr, jpeg_read_scanlines(&d, &r, 1) == 0) }
      else if (d.data_precision <= 12) { J12SAMPROW r = (J12SAMPROW)row; SUSP_LOOP(hr, jpeg12_read_scanlines(&d, &r, 1) == 0) }
      else { J16SAMPROW r = (J16SAMPROW)row; SUSP_LOOP(hr, jpeg16_read_scanlines(&d, &r, 1) == 0) }
      for (i = 0; i < n; i++) {
        v = d.data_precision <= 8 ? ((JSAMPROW)row)[i] : d.data_precision <= 12 ? ((J12SAMPROW)row)[i] : ((J16SAMPROW)row)[i];
        crc = crc * 31 + v;
        if (same) all[(i % nc) * npix + (size_t)y * d.output_width + i / nc] = v;
      }
    }
    free(row);
    SUSP_LOOP(hr, !jpeg_finish_decompress(&d))
    if (same) {
      size_t i;
      printf("lossless nc=%d warn=%ld", nc, e.num_warnings);
      for (ci = 0; ci < nc; ci++) {
        printf(" | %u %u", d.output_width, d.output_height);
        for (i = 0; i < npix; i++) printf(" %ld", all[ci * npix + i]);
      }
      putchar('\n');
      free(all);
    } else
      printf("lossless nc=%d warn=%ld crc=%lx\n", d.num_components, e.num_warnings, crc);
    jpeg_destroy_decompress(&d);
    return;
  }
  SUSP_LOOP(hr, (coefs = jpeg_read_coefficients(&d)) == NULL)
  printf("ok nc=%d warn=", d.num_components);
  {
    /* all rows must be fetched before finish; print after collecting the warning count */
    static char *out; static size_t cap; size_t pos = 0;
    for (ci = 0; ci < d.num_components; ci++) {
      jpeg_component_info *c = &d.comp_info[ci]; JDIMENSION r, b; int k;
      size_t need = pos + 64 + (size_t)c->width_in_blocks * c->height_in_blocks * 64 * 8;
      if (need > cap) { cap = need * 2; out = realloc(out, cap); }
      pos += sprintf(out + pos, " | %u %u", c->width_in_blocks, c->height_in_blocks);
      for (r = 0; r < c->height_in_blocks; r++) {
        JBLOCKARRAY rows = (*d.mem->access_virt_barray) ((j_common_ptr)&d, coefs[ci], r, 1, FALSE);
        for (b = 0; b < c->width_in_blocks; b++)
          for (k = 0; k < 64; k++) pos += sprintf(out + pos, " %d", rows[0][b][k]);
      }
    }
    /* the quantization table each component was decoded with (latched at its first scan);
       must be read before jpeg_finish_decompress releases the image pool */
    {
      size_t need = pos + 64 + (size_t)d.num_components * 64 * 8;
      if (need > cap) { cap = need * 2; out = realloc(out, cap); }
      for (ci = 0; ci < d.num_components; ci++) {
        JQUANT_TBL *q = d.comp_info[ci].quant_table; int k;
        if (!q) { pos += sprintf(out + pos, " ; Q none"); break; }
        pos += sprintf(out + pos, " ; Q");
        for (k = 0; k < 64; k++) pos += sprintf(out + pos, " %u", q->quantval[k]);
      }
    }
    SUSP_LOOP(hr, !jpeg_finish_decompress(&d))
    printf("%ld", e.num_warnings);
    fwrite(out, 1, pos, stdout);
    putchar('\n');
  }
  jpeg_destroy_decompress(&d);
}

static int sample_of(int kind, int x, int y, int c, int maxv)
{
  switch (kind) {
  case 0: return rnd() % (maxv + 1);
  case 1: return ((x * 3 + y * 5 + c * 40) * (maxv + 1) / 256) % (maxv + 1);
  case 2: return ((x / 5 + y / 3) & 1) ? (rnd() % (maxv + 1)) : (maxv / 2 + (int)(rnd() % 5) - 2);
  case 3: return (maxv / 3) * (c + 1) % (maxv + 1);
  case 4: return ((x + y) & 1) ? maxv : 0;
  default: { int v = (x * x + y * 7 + c * 99) % 64 + (int)(rnd() % 3); return v * (maxv + 1) / 64 % (maxv + 1); }
  }
}

static void do_enc(char *p)
{
  struct jpeg_compress_struct c; struct jpeg_error_mgr e;
  unsigned char *out = NULL; unsigned long outsz = 0;
  int prec, cs, w, h, nc, hs[10], vs[10], q, fb, opt, ri, rows, mode, script, kind, psv, pt, tmix, qmix, icc, dac, tbl4, cond[12], i, x, y;
  long seed; void *img = NULL; static jpeg_scan_info scans[64];
  prec = strtol(p, &p, 10); cs = strtol(p, &p, 10); w = strtol(p, &p, 10); h = strtol(p, &p, 10);
  nc = strtol(p, &p, 10);
  for (i = 0; i < nc && i < 10; i++) { hs[i] = strtol(p, &p, 10); vs[i] = strtol(p, &p, 10); }
  q = strtol(p, &p, 10); fb = strtol(p, &p, 10); opt = strtol(p, &p, 10); ri = strtol(p, &p, 10);
  rows = strtol(p, &p, 10); mode = strtol(p, &p, 10); script = strtol(p, &p, 10); seed = strtol(p, &p, 10);
  kind = strtol(p, &p, 10); psv = strtol(p, &p, 10); pt = strtol(p, &p, 10); tmix = strtol(p, &p, 10); qmix = strtol(p, &p, 10); icc = strtol(p, &p, 10);
  dac = strtol(p, &p, 10); tbl4 = strtol(p, &p, 10); for (i = 0; i < 12; i++) cond[i] = strtol(p, &p, 10);
  rs = (unsigned long long)seed * 2654435761ULL + 12345;
  c.err = jpeg_std_error(&e); e.error_exit = my_exit; e.emit_message = my_emit;
  jpeg_create_compress(&c);
  if (setjmp(jb)) { printf("encfail %d\n", last_err); jpeg_destroy_compress(&c); free(out); free(img); return; }
  jpeg_mem_dest(&c, &out, &outsz);
  c.image_width = w; c.image_height = h;
  {
    int incomp = nc;
    switch (cs) {
    case 0: c.in_color_space = JCS_GRAYSCALE; incomp = 1; break;
    case 1: case 2: c.in_color_space = JCS_RGB; incomp = 3; break;
    case 3: case 4: c.in_color_space = JCS_CMYK; incomp = 4; break;
    default: c.in_color_space = JCS_UNKNOWN; break;
    }
    c.input_components = incomp;
    c.data_precision = prec;
    jpeg_set_defaults(&c);
    if (cs == 2) jpeg_set_colorspace(&c, JCS_RGB);
    if (cs == 4) jpeg_set_colorspace(&c, JCS_YCCK);
    if (cs == 1 && mode == 4) jpeg_set_colorspace(&c, JCS_RGB);
    for (i = 0; i < c.num_components && i < nc; i++) { c.comp_info[i].h_samp_factor = hs[i]; c.comp_info[i].v_samp_factor = vs[i]; }
    if (mode != 4) jpeg_set_quality(&c, q, fb);
    /* legal table-selector mixes the default parameters never use (Td != Ta, Tq swapped) */
    if (tmix >= 0) for (i = 0; i < c.num_components; i++) {
      c.comp_info[i].dc_tbl_no = (tmix >> i) & 1; c.comp_info[i].ac_tbl_no = (tmix >> (4 + i)) & 1;
    }
    /* arithmetic coding: conditioning destinations 0..3 and non-default DAC parameters (public cinfo fields) */
    if ((mode == 2 || mode == 3) && tbl4 > 0) for (i = 0; i < c.num_components && i < 4; i++) {
      c.comp_info[i].dc_tbl_no = (tbl4 >> (2 * i)) & 3; c.comp_info[i].ac_tbl_no = (tbl4 >> (8 + 2 * i)) & 3;
    }
    if ((mode == 2 || mode == 3) && dac) for (i = 0; i < 4; i++) {
      c.arith_dc_L[i] = (UINT8)cond[3 * i]; c.arith_dc_U[i] = (UINT8)cond[3 * i + 1]; c.arith_ac_K[i] = (UINT8)cond[3 * i + 2];
    }
    if (qmix >= 0 && mode != 4) for (i = 0; i < c.num_components; i++) c.comp_info[i].quant_tbl_no = (qmix >> i) & 1;
    c.optimize_coding = opt;
    if (rows) c.restart_in_rows = ri; else c.restart_interval = ri;
    if (mode == 1 || mode == 3) jpeg_simple_progression(&c);
    if (mode == 2 || mode == 3) c.arith_code = TRUE;
    if (mode == 4) jpeg_enable_lossless(&c, psv, pt);
    if (script && (mode == 1 || mode == 3) && c.num_components <= 4) {
      /* legal progressive scripts other than jpeg_simple_progression's */
      int n = 0, ncmp = c.num_components, ci2;
#define ADD(NC, SS, SE, AH, AL) (scans[n].comps_in_scan = (NC), scans[n].Ss = (SS), scans[n].Se = (SE), scans[n].Ah = (AH), scans[n].Al = (AL), n++)
      if (script == 1) {             /* successive approximation, two refinement levels, uneven bands */
        ADD(ncmp, 0, 0, 0, 2); for (i = 0; i < ncmp; i++) scans[n - 1].component_index[i] = i;
        for (ci2 = 0; ci2 < ncmp; ci2++) { ADD(1, 1, 9, 0, 2); scans[n - 1].component_index[0] = ci2; ADD(1, 10, 63, 0, 1); scans[n - 1].component_index[0] = ci2; }
        for (ci2 = ncmp - 1; ci2 >= 0; ci2--) { ADD(1, 1, 9, 2, 1); scans[n - 1].component_index[0] = ci2; }
        ADD(ncmp, 0, 0, 2, 1); for (i = 0; i < ncmp; i++) scans[n - 1].component_index[i] = i;
        for (ci2 = 0; ci2 < ncmp; ci2++) { ADD(1, 1, 63, 1, 0); scans[n - 1].component_index[0] = ci2; }
        ADD(ncmp, 0, 0, 1, 0); for (i = 0; i < ncmp; i++) scans[n - 1].component_index[i] = i;
      } else {                       /* spectral selection only, DC per component, three bands */
        for (ci2 = 0; ci2 < ncmp; ci2++) { ADD(1, 0, 0, 0, 0); scans[n - 1].component_index[0] = ci2; }
        for (ci2 = 0; ci2 < ncmp; ci2++) {
          ADD(1, 1, 1, 0, 0); scans[n - 1].component_index[0] = ci2;
          ADD(1, 2, 32, 0, 0); scans[n - 1].component_index[0] = ci2;
          ADD(1, 33, 63, 0, 0); scans[n - 1].component_index[0] = ci2;
        }
      }
      c.scan_info = scans; c.num_scans = n;
    }
    if (script && (mode == 0 || mode == 2 || mode == 4) && c.num_components > 1) {
      int n = 0, ncmp = c.num_components;
      if (script == 1) {
        for (i = 0; i < ncmp; i++) { scans[n].comps_in_scan = 1; scans[n].component_index[0] = i; n++; }
      } else {
        scans[0].comps_in_scan = 1; scans[0].component_index[0] = 0; n = 1;
        if (ncmp - 1 <= 4) {
          scans[1].comps_in_scan = ncmp - 1;
          for (i = 1; i < ncmp; i++) scans[1].component_index[i - 1] = i;
          n = 2;
        } else for (i = 1; i < ncmp; i++) { scans[n].comps_in_scan = 1; scans[n].component_index[0] = i; n++; }
      }
      for (i = 0; i < n; i++) {
        if (mode == 4) { scans[i].Ss = psv; scans[i].Se = 0; scans[i].Ah = 0; scans[i].Al = pt; }
        else { scans[i].Ss = 0; scans[i].Se = 63; scans[i].Ah = 0; scans[i].Al = 0; }
      }
      c.scan_info = scans; c.num_scans = n;
    }
    {
      int maxv = (1 << prec) - 1; size_t n = (size_t)w * incomp;
      if (prec <= 8) {
        JSAMPLE *b = img = malloc(n * h);
        for (y = 0; y < h; y++) for (x = 0; x < w; x++) for (i = 0; i < incomp; i++) b[(y * w + x) * incomp + i] = sample_of(kind, x, y, i, maxv);
      } else {
        unsigned short *b = img = malloc(n * h * 2);
        for (y = 0; y < h; y++) for (x = 0; x < w; x++) for (i = 0; i < incomp; i++) b[(y * w + x) * incomp + i] = sample_of(kind, x, y, i, maxv);
      }
      jpeg_start_compress(&c, TRUE);
      if (kind == 2) jpeg_write_marker(&c, JPEG_COM, (const JOCTET *)"verif\xff\x00z", 8);
      if (icc > 0) {             /* APP2 chain: exercises maximal segment lengths */
        JOCTET *prof = malloc(icc); int k;
        for (k = 0; k < icc; k++) prof[k] = (JOCTET)(k % 7 == 0 ? 0xFF : rnd());
        jpeg_write_icc_profile(&c, prof, (unsigned int)icc);
        free(prof);
      }
      if (icc < 0) {             /* COM of the given size (up to the 65533 byte maximum) */
        JOCTET *com = malloc(-icc); int k;
        for (k = 0; k < -icc; k++) com[k] = (JOCTET)(k % 5 == 0 ? 0xFF : rnd());
        jpeg_write_marker(&c, JPEG_COM, com, (unsigned int)(-icc));
        free(com);
      }
      for (y = 0; y < h; y++) {
        if (prec <= 8) { JSAMPROW r = (JSAMPLE *)img + (size_t)y * n; jpeg_write_scanlines(&c, &r, 1); }
        else if (prec <= 12) { J12SAMPROW r = (J12SAMPLE *)img + (size_t)y * n; jpeg12_write_scanlines(&c, &r, 1); }
        else { J16SAMPROW r = (J16SAMPLE *)img + (size_t)y * n; jpeg16_write_scanlines(&c, &r, 1); }
      }
      jpeg_finish_compress(&c);
    }
  }
  jpeg_destroy_compress(&c);
  put_hex(out, outsz); putchar('\t');
  dec_stream(out, outsz);
  free(out); free(img);
}

static void do_xform(char *p)
{
  int subsamp, q, w, h, kind, opt, prog, arith, ri, rows, op, xopts, cx, cy, cw, ch, x, y, i; long seed;
  tjhandle hc = NULL, ht = NULL; unsigned char *rgb = NULL, *jpg = NULL, *dst = NULL; size_t jsz = 0, dsz = 0;
  tjtransform xf;
  subsamp = strtol(p, &p, 10); q = strtol(p, &p, 10); w = strtol(p, &p, 10); h = strtol(p, &p, 10);
  seed = strtol(p, &p, 10); kind = strtol(p, &p, 10); opt = strtol(p, &p, 10); prog = strtol(p, &p, 10);
  arith = strtol(p, &p, 10); ri = strtol(p, &p, 10); rows = strtol(p, &p, 10); op = strtol(p, &p, 10);
  xopts = strtol(p, &p, 10); cx = strtol(p, &p, 10); cy = strtol(p, &p, 10); cw = strtol(p, &p, 10); ch = strtol(p, &p, 10);
  rs = (unsigned long long)seed * 2654435761ULL + 777;
  rgb = malloc((size_t)w * h * 3);
  for (y = 0; y < h; y++) for (x = 0; x < w; x++) for (i = 0; i < 3; i++) rgb[(y * w + x) * 3 + i] = sample_of(kind, x, y, i, 255);
  hc = tj3Init(TJINIT_COMPRESS);
  tj3Set(hc, TJPARAM_SUBSAMP, subsamp); tj3Set(hc, TJPARAM_QUALITY, q);
  if (subsamp == TJSAMP_GRAY) tj3Set(hc, TJPARAM_COLORSPACE, TJCS_GRAY);
  if (tj3Compress8(hc, rgb, w, 0, h, TJPF_RGB, &jpg, &jsz) < 0) { printf("encfail tj %s\n", tj3GetErrorStr(hc)); goto bail; }
  ht = tj3Init(TJINIT_TRANSFORM);
  tj3Set(ht, TJPARAM_OPTIMIZE, opt); tj3Set(ht, TJPARAM_PROGRESSIVE, prog); tj3Set(ht, TJPARAM_ARITHMETIC, arith);
  if (ri) tj3Set(ht, rows ? TJPARAM_RESTARTROWS : TJPARAM_RESTARTBLOCKS, ri);
  memset(&xf, 0, sizeof(xf));
  xf.op = op; xf.options = xopts; xf.r.x = cx; xf.r.y = cy; xf.r.w = cw; xf.r.h = ch;
  if (tj3Transform(ht, jpg, jsz, 1, &dst, &dsz, &xf) < 0) { printf("encfail xf %s\n", tj3GetErrorStr(ht)); goto bail; }
  put_hex(dst, dsz); putchar('\t');
  dec_stream(dst, dsz);
bail:
  if (hc) tj3Destroy(hc); if (ht) tj3Destroy(ht);
  free(rgb); tj3Free(jpg); tj3Free(dst);
}

/* xarith <ri> <hex>: read the coefficients of a stream and write them again with the arithmetic
 * coder (jpeg_write_coefficients, sequential) and the given restart interval; print "<hex>\t<dec line>" */
static void do_xarith(char *p)
{
  struct jpeg_decompress_struct d; struct jpeg_compress_struct c; struct jpeg_error_mgr e1, e2;
  jvirt_barray_ptr *coefs; unsigned char *buf, *out = NULL; unsigned long outsz = 0; size_t len = 0, i; long ri;
  ri = strtol(p, &p, 10); while (*p == ' ') p++;
  while (p[len] && p[len] != '\n' && p[len] != ' ') len++;
  buf = malloc(len / 2 + 1);
  for (i = 0; i + 1 < len; i += 2) buf[i / 2] = (unsigned char)(hexv(p[i]) * 16 + hexv(p[i + 1]));
  d.err = jpeg_std_error(&e1); e1.error_exit = my_exit; e1.emit_message = my_emit;
  c.err = jpeg_std_error(&e2); e2.error_exit = my_exit; e2.emit_message = my_emit;
  jpeg_create_decompress(&d); jpeg_create_compress(&c);
  if (setjmp(jb)) { printf("encfail %d\n", last_err); jpeg_destroy_decompress(&d); jpeg_destroy_compress(&c); free(buf); free(out); return; }
  jpeg_mem_src(&d, buf, (unsigned long)(len / 2));
  jpeg_read_header(&d, TRUE);
  coefs = jpeg_read_coefficients(&d);
  jpeg_mem_dest(&c, &out, &outsz);
  jpeg_copy_critical_parameters(&d, &c);
  c.arith_code = TRUE; c.restart_interval = (unsigned int)ri;
  jpeg_write_coefficients(&c, coefs);
  jpeg_finish_compress(&c);
  jpeg_finish_decompress(&d);
  jpeg_destroy_compress(&c); jpeg_destroy_decompress(&d);
  put_hex(out, outsz); putchar('\t');
  dec_stream(out, outsz);
  free(out); free(buf);
}

int main(void)
{
  char *line = NULL; size_t cap = 0; ssize_t n;
  setvbuf(stdout, NULL, _IOLBF, 0);
  while ((n = getline(&line, &cap, stdin)) > 0) {
    if (!strncmp(line, "dec ", 4)) {
      char *p = line + 4; size_t len = 0, i; unsigned char *buf;
      while (p[len] && p[len] != '\n' && p[len] != ' ') len++;
      buf = malloc(len / 2 + 1);
      for (i = 0; i + 1 < len; i += 2) buf[i / 2] = (unsigned char)(hexv(p[i]) * 16 + hexv(p[i + 1]));
      dec_stream(buf, len / 2);
      free(buf);
    } else if (!strncmp(line, "decs ", 5)) {
      /* decs <chunk> <hex> : decode through the suspending source, <chunk> bytes at a time */
      char *p = line + 5; size_t chunk = strtoul(p, &p, 10), len = 0, i; unsigned char *buf;
      while (*p == ' ') p++;
      while (p[len] && p[len] != '\n' && p[len] != ' ') len++;
      buf = malloc(len / 2 + 1);
      for (i = 0; i + 1 < len; i += 2) buf[i / 2] = (unsigned char)(hexv(p[i]) * 16 + hexv(p[i + 1]));
      dec_stream_c(buf, len / 2, chunk ? chunk : 1);
      free(buf);
    } else if (!strncmp(line, "xarith ", 7)) do_xarith(line + 7);
    else if (!strncmp(line, "enc ", 4)) do_enc(line + 4);
    else if (!strncmp(line, "xform ", 6)) do_xform(line + 6);
    else printf("?\n");
  }
  return 0;
}
