/* hl: the real lossless statistics pass (jclhuff.c encode_mcus_gather) -- see harness/c19sym.c */
#include "c19sym.h"
#include "jclhuff.c"

static jmp_buf jbl;
static int l_err;
static void l_exit(j_common_ptr c) { l_err = c->err->msg_code; longjmp(jbl, 1); }
static void l_emit(j_common_ptr c, int lvl) { }

void c19_hl_line(char *p)
{
  struct jpeg_compress_struct c; struct jpeg_error_mgr e; static jpeg_component_info comp;
  static JDIFF row[1 << 16]; JDIFFROW rows[1]; JDIFFARRAY img[1];
  int n = 0; lhuff_entropy_ptr ent;
  c.err = jpeg_std_error(&e); e.error_exit = l_exit; e.emit_message = l_emit;
  jpeg_create_compress(&c);
  if (setjmp(jbl)) { printf("hl err code=%d\n", l_err); jpeg_destroy_compress(&c); return; }
  for (;;) {
    while (*p == ' ') p++;
    if (*p == 0 || *p == '\n') break;
    { long v = strtol(p, &p, 10); if (n < (1 << 16)) row[n++] = (JDIFF)v; }
  }
  memset(&comp, 0, sizeof(comp));
  comp.component_index = 0; comp.dc_tbl_no = 0; comp.MCU_width = comp.MCU_height = 1;
  c.num_components = 1; c.comp_info = &comp; c.comps_in_scan = 1; c.cur_comp_info[0] = &comp;
  c.blocks_in_MCU = 1; c.MCU_membership[0] = 0; c.restart_interval = 0;
  jinit_lhuff_encoder(&c);
  (*c.entropy->start_pass) (&c, TRUE);
  ent = (lhuff_entropy_ptr)c.entropy;
  rows[0] = row; img[0] = rows;
  (*c.entropy->encode_mcus) (&c, img, 0, 0, (JDIMENSION)n);
  printf("hl"); c19_print_counts(ent->count_ptrs[0]); printf("\n");
  jpeg_destroy_compress(&c);
}
