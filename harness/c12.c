/* C12 harness: histories of TurboJPEG / libjpeg API calls on ONE reused instance,
 * followed by a probe call that is also executed on a FRESH instance carrying the
 * same parameter settings.  The real turbojpeg.c / jdatadst-tj.c of the working tree
 * are compiled into this translation unit (so that the abstract state of the
 * instance -- global_state, marker-reader flags, module pointers, destination
 * record, parameters -- can be read after every call); everything else comes
 * from the static libraries of the same tree.
 *
 * stdin : one history per line (see checks/C12.py for the grammar)
 * stdout: one result line per history (every history runs in a forked child so
 *         that a sanitizer report / crash is attributed to exactly one history)
 */
#define _GNU_SOURCE
#include <stdio.h>
#include <stdlib.h>
#include <string.h>
#include <unistd.h>
#include <sys/wait.h>
#include <sys/types.h>
#include <fcntl.h>

#include "jdatadst-tj.c"
#undef OUTPUT_BUF_SIZE
#include "turbojpeg.c"
/* the memory manager of the tree as well, for its private bookkeeping (total_space_allocated, pool lists) */
#include "jmemmgr.c"
/* the marker reader of the tree, for its private "which markers are saved" settings */
#include "jdmarker.c"
#include "jdmaster.h"
#define C12_NUMPARAM (TJPARAM_SAVEMARKERS + 1)

/* ------------------------------------------------------------------ utils */
static unsigned long long fnv(const void *p, size_t n, unsigned long long h)
{
  const unsigned char *b = (const unsigned char *)p;
  size_t i;
  for (i = 0; i < n; i++) { h ^= b[i]; h *= 1099511628211ULL; }
  return h;
}
#define FNV0 1469598103934665603ULL

static unsigned int prng(unsigned int *s)
{
  *s = *s * 1664525u + 1013904223u;
  return *s >> 8;
}

/* synthetic source image: smooth gradients + a little noise, any precision */
static void fill_pixels(void *buf, int prec, int w, int h, int ps, int seed)
{
  unsigned int s = (unsigned int)seed * 2654435761u + 12345u;
  int maxv = (1 << prec) - 1, x, y, c;
  for (y = 0; y < h; y++)
    for (x = 0; x < w; x++)
      for (c = 0; c < ps; c++) {
        int v = ((x * (3 + c) + y * (5 - c) + seed * 17) * maxv / 97) % (maxv + 1);
        v = (v + (int)(prng(&s) % 9)) % (maxv + 1);
        if (v < 0) v = 0;
        if (prec <= 8) ((unsigned char *)buf)[(y * w + x) * ps + c] = (unsigned char)v;
        else ((unsigned short *)buf)[(y * w + x) * ps + c] = (unsigned short)v;
      }
}

/* ------------------------------------------------------------ JPEG library */
#define NLIB 32
static unsigned char *lib[NLIB];
static size_t libsz[NLIB];
static int nlib = 0;

static void die(const char *m) { fprintf(stderr, "c12 harness: %s\n", m); exit(3); }

static void mk(int id, int prec, int w, int h, int pf, int subsamp, int q, int prog, int arith,
               int lossless, int psv, int pt, int opt, int rblocks, int rrows, int cs, int icc)
{
  tjhandle c = tj3Init(TJINIT_COMPRESS);
  int ps = tjPixelSize[pf];
  void *px = malloc((size_t)w * h * ps * 2);
  unsigned char *jb = NULL;
  size_t sz = 0;
  int rc;
  unsigned char prof[700];
  if (!c || !px) die("library: init");
  fill_pixels(px, prec, w, h, ps, id + 1);
  if (lossless) { tj3Set(c, TJPARAM_LOSSLESS, 1); tj3Set(c, TJPARAM_LOSSLESSPSV, psv); tj3Set(c, TJPARAM_LOSSLESSPT, pt);
                  tj3Set(c, TJPARAM_PRECISION, prec); }
  else { tj3Set(c, TJPARAM_QUALITY, q); tj3Set(c, TJPARAM_SUBSAMP, subsamp); }
  if (prog) tj3Set(c, TJPARAM_PROGRESSIVE, 1);
  if (arith) tj3Set(c, TJPARAM_ARITHMETIC, 1);
  if (opt) tj3Set(c, TJPARAM_OPTIMIZE, 1);
  if (rblocks) tj3Set(c, TJPARAM_RESTARTBLOCKS, rblocks);
  if (rrows) tj3Set(c, TJPARAM_RESTARTROWS, rrows);
  if (cs >= 0) tj3Set(c, TJPARAM_COLORSPACE, cs);
  if (icc) { memset(prof, 0x40 + icc, sizeof(prof)); tj3SetICCProfile(c, prof, (size_t)icc * 100); }
  if (prec <= 8) rc = tj3Compress8(c, (unsigned char *)px, w, 0, h, pf, &jb, &sz);
  else if (prec <= 12) rc = tj3Compress12(c, (short *)px, w, 0, h, pf, &jb, &sz);
  else rc = tj3Compress16(c, (unsigned short *)px, w, 0, h, pf, &jb, &sz);
  if (rc) { fprintf(stderr, "library image %d: %s\n", id, tj3GetErrorStr(c)); die("library image"); }
  tj3Destroy(c);
  free(px);
  lib[id] = jb; libsz[id] = sz;
  if (id >= nlib) nlib = id + 1;
}

struct plain_err { struct jpeg_error_mgr pub; jmp_buf jb; };
static void plain_exit(j_common_ptr c) { longjmp(((struct plain_err *)c->err)->jb, 1); }
static void plain_emit(j_common_ptr c, int lvl) { (void)c; (void)lvl; }

/* tables-only stream (id) and the matching abbreviated image (id+1), libjpeg API */
static void mk_abbrev(int id)
{
  struct jpeg_compress_struct ci;
  struct plain_err je;
  unsigned char *out = NULL, *px;
  unsigned long outsz = 0;
  int w = 32, h = 24, y;
  JSAMPROW row;
  ci.err = jpeg_std_error(&je.pub);
  je.pub.error_exit = plain_exit;
  if (setjmp(je.jb)) die("abbrev");
  jpeg_create_compress(&ci);
  jpeg_mem_dest(&ci, &out, &outsz);
  ci.image_width = w; ci.image_height = h; ci.input_components = 3; ci.in_color_space = JCS_RGB;
  jpeg_set_defaults(&ci);
  jpeg_set_quality(&ci, 60, TRUE);
  jpeg_write_tables(&ci);
  lib[id] = malloc(outsz); memcpy(lib[id], out, outsz); libsz[id] = outsz;
  free(out); out = NULL; outsz = 0;
  jpeg_mem_dest(&ci, &out, &outsz);
  jpeg_start_compress(&ci, FALSE);
  px = malloc(w * h * 3);
  fill_pixels(px, 8, w, h, 3, id + 1);
  for (y = 0; y < h; y++) { row = px + y * w * 3; jpeg_write_scanlines(&ci, &row, 1); }
  jpeg_finish_compress(&ci);
  lib[id + 1] = malloc(outsz); memcpy(lib[id + 1], out, outsz); libsz[id + 1] = outsz;
  free(out); free(px);
  jpeg_destroy_compress(&ci);
  if (id + 2 > nlib) nlib = id + 2;
}

/* copy of library image `src` with a COM and an APP1 segment inserted after SOI */
static void mk_markers(int id, int src)
{
  static const unsigned char seg[] = { 0xFF, 0xFE, 0x00, 0x09, 'c', 'o', 'm', 'm', 'e', 'n', 't',
                                       0xFF, 0xE1, 0x00, 0x08, 'E', 'x', 'i', 'f', 0, 0 };
  size_t n = libsz[src] + sizeof(seg);
  lib[id] = malloc(n);
  memcpy(lib[id], lib[src], 2);
  memcpy(lib[id] + 2, seg, sizeof(seg));
  memcpy(lib[id] + 2 + sizeof(seg), lib[src] + 2, libsz[src] - 2);
  libsz[id] = n;
  if (id >= nlib) nlib = id + 1;
}

/* tables-only stream `src` with marker segments spliced in after SOI: COM, APP1 and (icc) an APP2 ICC_PROFILE chunk */
static void mk_tables_markers(int id, int src, int icc)
{
  unsigned char seg[512];
  size_t n = 0, k;
  static const unsigned char com[] = { 0xFF, 0xFE, 0x00, 0x0A, 't', 'a', 'b', 'l', 'e', 's', '!', '!' };
  static const unsigned char app1[] = { 0xFF, 0xE1, 0x00, 0x08, 'E', 'x', 'i', 'f', 0, 0 };
  memcpy(seg + n, com, sizeof(com)); n += sizeof(com);
  memcpy(seg + n, app1, sizeof(app1)); n += sizeof(app1);
  if (icc) {
    size_t plen = 200, len = 2 + 14 + plen;
    seg[n++] = 0xFF; seg[n++] = 0xE2; seg[n++] = (unsigned char)(len >> 8); seg[n++] = (unsigned char)len;
    memcpy(seg + n, "ICC_PROFILE", 12); n += 12;
    seg[n++] = 1; seg[n++] = 1;
    for (k = 0; k < plen; k++) seg[n++] = (unsigned char)(0x70 + (k & 7));
  }
  lib[id] = malloc(libsz[src] + n);
  memcpy(lib[id], lib[src], 2);
  memcpy(lib[id] + 2, seg, n);
  memcpy(lib[id] + 2 + n, lib[src] + 2, libsz[src] - 2);
  libsz[id] = libsz[src] + n;
  if (id >= nlib) nlib = id + 1;
}

static void build_library(void)
{
  /*  id prec  w   h   pf         subsamp     q  pr ar ll psv pt op rb rr cs icc */
  mk(0,  8,  48, 40, TJPF_RGB,  TJSAMP_444, 80, 0, 0, 0, 1, 0, 0, 0, 0, -1, 0);
  mk(1,  8,  64, 48, TJPF_RGB,  TJSAMP_420, 85, 0, 0, 0, 1, 0, 0, 0, 0, -1, 0);
  mk(2,  8,  37, 29, TJPF_BGRX, TJSAMP_422, 70, 0, 0, 0, 1, 0, 0, 0, 0, -1, 0);
  mk(3,  8,  33, 33, TJPF_GRAY, TJSAMP_GRAY, 75, 0, 0, 0, 1, 0, 0, 0, 0, -1, 0);
  mk(4,  8,  64, 64, TJPF_RGB,  TJSAMP_420, 75, 1, 0, 0, 1, 0, 0, 0, 0, -1, 0);
  mk(5,  8,  40, 40, TJPF_RGB,  TJSAMP_444, 75, 0, 1, 0, 1, 0, 0, 0, 0, -1, 0);
  mk(6,  8,  56, 40, TJPF_RGB,  TJSAMP_420, 75, 1, 1, 0, 1, 0, 0, 0, 0, -1, 0);
  mk(7,  8,  31, 23, TJPF_RGB,  TJSAMP_444, 0,  0, 0, 1, 1, 0, 0, 0, 0, -1, 0);
  mk(8,  8,  29, 31, TJPF_GRAY, TJSAMP_GRAY, 0, 0, 0, 1, 4, 1, 0, 0, 0, -1, 0);
  mk(9,  8,  48, 48, TJPF_RGB,  TJSAMP_420, 90, 0, 0, 0, 1, 0, 1, 0, 0, -1, 0);
  mk(10, 8,  40, 32, TJPF_RGB,  TJSAMP_444, 75, 0, 0, 0, 1, 0, 0, 2, 0, -1, 0);
  mk(11, 8,  48, 32, TJPF_RGB,  TJSAMP_420, 75, 0, 0, 0, 1, 0, 0, 0, 0, -1, 6);
  mk(12, 12, 40, 40, TJPF_RGB,  TJSAMP_420, 80, 0, 0, 0, 1, 0, 0, 0, 0, -1, 0);
  mk(13, 16, 24, 24, TJPF_RGB,  TJSAMP_444, 0,  0, 0, 1, 2, 0, 0, 0, 0, -1, 0);
  mk(14, 12, 24, 20, TJPF_GRAY, TJSAMP_GRAY, 0, 0, 0, 1, 7, 0, 0, 0, 0, -1, 0);
  mk(15, 8,  32, 32, TJPF_CMYK, TJSAMP_444, 75, 0, 0, 0, 1, 0, 0, 0, 0, -1, 0);
  mk(16, 8,  40, 48, TJPF_RGB,  TJSAMP_440, 75, 0, 0, 0, 1, 0, 0, 0, 0, -1, 0);
  mk(17, 8,  64, 32, TJPF_RGB,  TJSAMP_411, 75, 0, 0, 0, 1, 0, 0, 0, 0, -1, 0);
  mk(18, 8,  32, 64, TJPF_RGB,  TJSAMP_441, 75, 0, 0, 0, 1, 0, 0, 0, 0, -1, 0);
  mk(19, 8,  32, 32, TJPF_RGB,  TJSAMP_444, 75, 0, 0, 0, 1, 0, 0, 0, 0, TJCS_RGB, 0);
  mk(20, 8,  128, 96, TJPF_RGB, TJSAMP_420, 95, 0, 0, 0, 1, 0, 0, 0, 0, -1, 0);
  mk(21, 8,  64, 64, TJPF_RGB,  TJSAMP_420, 75, 1, 0, 0, 1, 0, 0, 0, 1, -1, 0);
  mk_abbrev(22);              /* 22 tables-only, 23 abbreviated image */
  mk_markers(24, 1);
  mk(25, 8,  64, 64, TJPF_RGB,  TJSAMP_422, 75, 0, 0, 0, 1, 0, 0, 0, 0, -1, 0);
  mk(26, 8,  64, 64, TJPF_RGB,  TJSAMP_444, 75, 0, 0, 0, 1, 0, 0, 0, 0, -1, 3);
  mk(27, 8,  256, 256, TJPF_RGB, TJSAMP_444, 75, 1, 0, 0, 1, 0, 0, 0, 0, -1, 0);   /* ~400 KB of coefficient arrays */
  mk_tables_markers(28, 22, 1);   /* tables-only + COM + APP1 + APP2/ICC */
  mk_tables_markers(29, 22, 0);   /* tables-only + COM + APP1 */
}

/* parse the marker structure of a stream up to SOS: offsets of marker starts */
static int marker_offsets(const unsigned char *b, size_t n, size_t *off, int maxn, size_t *ecs)
{
  size_t p = 2;
  int k = 0;
  *ecs = n;
  if (n < 4 || b[0] != 0xFF || b[1] != 0xD8) return 0;
  off[k++] = 0;
  while (p + 4 <= n && k < maxn) {
    unsigned len;
    if (b[p] != 0xFF) break;
    off[k++] = p;
    len = (b[p + 2] << 8) | b[p + 3];
    if (b[p + 1] == 0xDA) { *ecs = p + 2 + len; break; }
    p += 2 + len;
  }
  return k;
}

/* jref: "<id>" or "<id>.<kind><a>[.<b>]" ; returns malloc'ed copy */
static unsigned char *get_jpeg(const char *ref, size_t *outsz)
{
  int id = 0, a = 0, b = 0, nm, i;
  char kind = 0;
  unsigned char *buf;
  size_t n, off[64], ecs;
  const char *p = ref;
  if (!strcmp(ref, "F1")) {
    static const unsigned char f1[] = { 0xFF, 0xD8, 0xFF, 0xDB, 0x00, 0x03, 0x00, 0xFF, 0xC5 };
    buf = malloc(sizeof(f1)); memcpy(buf, f1, sizeof(f1)); *outsz = sizeof(f1); return buf;
  }
  id = atoi(p);
  while (*p && *p != '.') p++;
  if (*p == '.') { kind = p[1]; a = atoi(p + 2); p += 2; while (*p && *p != '.') p++; if (*p == '.') b = atoi(p + 1); }
  if (id < 0 || id >= nlib || !lib[id]) id = 0;
  n = libsz[id];
  buf = malloc(n + 16);
  memcpy(buf, lib[id], n);
  nm = marker_offsets(buf, n, off, 64, &ecs);
  switch (kind) {
  case 0: break;
  case 't': if (a >= 1 && (size_t)a < n) n = a; break;             /* truncate to a bytes */
  case 'm': if (nm > 1) { n = off[1 + a % (nm - 1)]; } break;       /* cut right before a marker */
  case 'M': if (nm > 1) { n = off[1 + a % (nm - 1)] + 2 + (b % 3); if (n > libsz[id]) n = libsz[id]; } break; /* cut inside a segment */
  case 'S': {                                                      /* cut in the middle of the data of the a-th COM / APPn segment */
    int cand[64], nc = 0;
    for (i = 0; i < nm; i++)
      if (off[i] + 4 <= n && buf[off[i]] == 0xFF && (buf[off[i] + 1] == 0xFE || (buf[off[i] + 1] & 0xF0) == 0xE0) &&
          ((buf[off[i] + 2] << 8) | buf[off[i] + 3]) >= 6) cand[nc++] = i;
    if (nc) {
      size_t o = off[cand[a % nc]], len = (size_t)((buf[o + 2] << 8) | buf[o + 3]);
      size_t cut = o + 4 + (len - 2) * (size_t)(1 + b % 3) / 4;     /* 1/4, 2/4 or 3/4 of the payload is present */
      if (cut < n) n = cut;
    }
    break; }
  case 'e': if (ecs < n) n = ecs + (n - ecs) * (size_t)(a % 1000) / 1000; break;   /* cut inside entropy data */
  case 'z': if (ecs < n) { size_t s = ecs + (n - ecs) * (size_t)(a % 1000) / 1000, l = 8 + b % 64;   /* garbage inside entropy data */
                           for (i = 0; (size_t)i < l && s + i + 2 < n; i++) buf[s + i] = (unsigned char)(0x35 + 7 * i); } break;
  case 'x': if ((size_t)a < n) buf[a] = (unsigned char)b; break;   /* set one byte */
  case 'k': if (nm > 1) { size_t o = off[1 + a % (nm - 1)]; buf[o + 1] = (unsigned char)b; } break; /* change a marker code */
  case 'r': {                                                      /* remove a whole segment */
    if (nm > 2) {
      int j = 1 + a % (nm - 2);
      size_t o = off[j], e = off[j + 1];
      memmove(buf + o, buf + e, n - e); n -= e - o;
    }
    break; }
  case 'g': for (i = 0; i < 4 && (size_t)(4 + i) < n; i++) buf[2 + i] = (unsigned char)(a + i); break; /* garbage after SOI */
  case 'n': buf[0] = 0x12; break;                                 /* not a JPEG */
  }
  *outsz = n;
  return buf;
}

/* upper bound of the frame dimensions any SOFn-like byte pattern of the stream announces
   (the caller of tj3Decompress*() must size the destination from the header; we over-approximate
   so that corrupt headers can never make the harness itself under-allocate) */
static int dim_bound(const unsigned char *b, size_t n, int *mw, int *mh)
{
  size_t p;
  *mw = 1; *mh = 1;
  for (p = 0; p + 9 <= n; p++)
    if (b[p] == 0xFF && b[p + 1] >= 0xC0 && b[p + 1] <= 0xCF && b[p + 1] != 0xC4 && b[p + 1] != 0xC8 && b[p + 1] != 0xCC) {
      int h = (b[p + 5] << 8) | b[p + 6], w = (b[p + 7] << 8) | b[p + 8];
      if (w > *mw) *mw = w;
      if (h > *mh) *mh = h;
    }
  return ((long long)*mw * *mh <= 1024LL * 1024LL);
}

/* ---------------------------------------------------------- error recording */
static int hook_gs, hook_code, hook_soi, hook_sof, hook_um, hook_calls, hook_isd;
static void hook_error_exit(j_common_ptr cinfo)
{
  hook_calls++;
  hook_gs = cinfo->global_state;
  hook_code = cinfo->err->msg_code;
  hook_isd = cinfo->is_decompressor;
  if (cinfo->is_decompressor) {
    j_decompress_ptr d = (j_decompress_ptr)cinfo;
    hook_soi = d->marker->saw_SOI; hook_sof = d->marker->saw_SOF; hook_um = d->unread_marker;
  }
  my_error_exit(cinfo);
}

static int (*orig_read_markers) (j_decompress_ptr) = NULL;
static void (*orig_reset_marker_reader) (j_decompress_ptr) = NULL;
static void (*orig_start_input_pass) (j_decompress_ptr) = NULL;

static tjhandle new_instance(int type)
{
  tjhandle hnd = tj3Init(type);
  tjinstance *t = (tjinstance *)hnd;
  if (!t) die("tj3Init failed");
  if ((t->init & DECOMPRESS) && !orig_read_markers) {
    orig_read_markers = t->dinfo.marker->read_markers;
    orig_reset_marker_reader = t->dinfo.marker->reset_marker_reader;
    orig_start_input_pass = t->dinfo.inputctl->start_input_pass;
  }
  t->jerr.pub.error_exit = hook_error_exit;
  return hnd;
}

/* accounting drift of a memory manager: total_space_allocated minus what its pool lists really hold
   (the same block sizes free_pool() subtracts); 0 at any time when the bookkeeping is right */
static long mem_drift(struct jpeg_memory_mgr *pub)
{
  my_mem_ptr mem = (my_mem_ptr)pub;
  size_t sum = sizeof(my_memory_mgr);
  int pool;
  if (!mem) return 0;
  for (pool = 0; pool < JPOOL_NUMPOOLS; pool++) {
    small_pool_ptr sp;
    large_pool_ptr lp;
    for (sp = mem->small_list[pool]; sp; sp = sp->next)
      sum += sp->bytes_used + sp->bytes_left + sizeof(small_pool_hdr) + ALIGN_SIZE - 1;
    for (lp = mem->large_list[pool]; lp; lp = lp->next)
      sum += lp->bytes_used + lp->bytes_left + sizeof(large_pool_hdr) + ALIGN_SIZE - 1;
  }
  return (long)mem->total_space_allocated - (long)sum;
}
static long perm_total(struct jpeg_memory_mgr *pub) { return pub ? (long)((my_mem_ptr)pub)->total_space_allocated : 0L; }
static int image_pool_empty(struct jpeg_memory_mgr *pub)
{
  my_mem_ptr mem = (my_mem_ptr)pub;
  return mem->small_list[JPOOL_IMAGE] == NULL && mem->large_list[JPOOL_IMAGE] == NULL &&
         mem->virt_sarray_list == NULL && mem->virt_barray_list == NULL;
}

/* ------------------------------------------------------------ state dump */
static void dump_state(tjinstance *t, char *out, size_t cap)
{
  int n = 0, i;
  if (t->init & COMPRESS) {
    j_compress_ptr c = &t->cinfo;
    my_mem_dest_ptr dest = (my_mem_dest_ptr)c->dest;
    int mask = (c->main != NULL) | ((c->prep != NULL) << 1) | ((c->cconvert != NULL) << 2) |
               ((c->downsample != NULL) << 3) | ((c->fdct != NULL) << 4) | ((c->coef != NULL) << 5) |
               ((c->entropy != NULL) << 6) | ((c->marker != NULL) << 7);
    n += snprintf(out + n, cap - n, "c:%d,%d,%d,%d,%d,%u,%d,%d,%d,%d,%d,%d ", c->global_state, c->scan_info != NULL,
                  c->master ? c->master->lossless : -1, c->arith_code, c->optimize_coding, c->restart_interval,
                  c->restart_in_rows, c->raw_data_in, mask, dest ? dest->newbuffer != NULL : -1,
                  dest ? (dest->newbuffer == NULL || dest->newbuffer == dest->buffer) : -1, c->data_precision);
  } else
    n += snprintf(out + n, cap - n, "c:- ");
  if (t->init & DECOMPRESS) {
    j_decompress_ptr d = &t->dinfo;
    int mask = (d->comp_info != NULL) | ((d->marker_list != NULL) << 1) | ((d->main != NULL) << 2) |
               ((d->coef != NULL) << 3) | ((d->post != NULL) << 4) | ((d->upsample != NULL) << 5) |
               ((d->cconvert != NULL) << 6) | ((d->entropy != NULL) << 7) | ((d->idct != NULL) << 8) |
               ((d->cquantize != NULL) << 9) | ((d->coef_bits != NULL) << 10);
    n += snprintf(out + n, cap - n, "d:%d,%d,%d,%d,%d,%d,%d,%d,%d,%d,%d,%d,%d,%d ", d->global_state, d->marker->saw_SOI, d->marker->saw_SOF,
                  d->unread_marker, d->master->lossless, d->arith_code, d->progressive_mode, mask, d->progress != NULL,
                  (t->tempICCBuf != NULL && t->tempICCSize != 0), ((my_master_ptr)d->master)->using_merged_upsample,
                  d->saw_JFIF_marker, d->saw_Adobe_marker, d->Adobe_transform);
  } else
    n += snprintf(out + n, cap - n, "d:- ");
  n += snprintf(out + n, cap - n, "m:%ld,%d,%ld,%d,%ld,%ld ",
                (t->init & COMPRESS) ? mem_drift(t->cinfo.mem) : 0L, (t->init & COMPRESS) ? image_pool_empty(t->cinfo.mem) : 1,
                (t->init & DECOMPRESS) ? mem_drift(t->dinfo.mem) : 0L, (t->init & DECOMPRESS) ? image_pool_empty(t->dinfo.mem) : 1,
                (t->init & COMPRESS) ? perm_total(t->cinfo.mem) : 0L, (t->init & DECOMPRESS) ? perm_total(t->dinfo.mem) : 0L);
  /* are the marker reader's methods the ones jinit_marker_reader installed? */
  n += snprintf(out + n, cap - n, "k:%d,%d,%d ",
                (t->init & DECOMPRESS) ? (t->dinfo.marker->read_markers == orig_read_markers) : 1,
                (t->init & DECOMPRESS) ? (t->dinfo.marker->reset_marker_reader == orig_reset_marker_reader) : 1,
                (t->init & DECOMPRESS) ? (t->dinfo.inputctl->start_input_pass == orig_start_input_pass) : 1);
  /* sticky jpeg_save_markers() settings: COM, APP2, any other APPn */
  if (t->init & DECOMPRESS) {
    my_marker_ptr mk_ = (my_marker_ptr)t->dinfo.marker;
    int other = 0, a;
    for (a = 0; a < 16; a++) if (a != 2 && mk_->length_limit_APPn[a]) other = 1;
    n += snprintf(out + n, cap - n, "s:%d,%d,%d ", mk_->length_limit_COM != 0, mk_->length_limit_APPn[2] != 0, other);
  } else
    n += snprintf(out + n, cap - n, "s:0,0,0 ");
  n += snprintf(out + n, cap - n, "p:");
  for (i = 0; i < C12_NUMPARAM; i++) n += snprintf(out + n, cap - n, "%d,", tj3Get((tjhandle)t, i));
  n += snprintf(out + n, cap - n, "%d,%d,%d,%d,%d,%d,%d", t->scalingFactor.num, t->scalingFactor.denom, t->croppingRegion.x,
                t->croppingRegion.y, t->croppingRegion.w, t->croppingRegion.h, (int)t->iccSize);
}


/* --------------------------------------------------------- running an op */
struct runctx {
  tjhandle h;
  int type;
  unsigned char *arena;   /* a large caller buffer of which only a declared prefix may be written */
  size_t declared;        /* declared size of the arena for the current call (0 = arena not in use) */
  unsigned char *jbuf;    /* JPEG buffer currently held by the "caller" */
  size_t jcap, jsize;     /* its capacity (when the caller allocated it) / last JPEG size */
};

struct opres {
  int rc;
  char stage[48];
  unsigned long long hash;
  size_t outn;
  int warn;
};

static const char *throw_table[] = {
  "Invalid argument", "has not been initialized", "must be specified", "Image is too large", "Unexplained mismatch",
  "Memory allocation failure", "Could not determine", "Invalid data returned", "wrong state", "Cannot generate YUV",
  "Cannot decode YUV", "3 or fewer components", "Transform is not perfect", "Invalid transform", "Invalid cropping region",
  "To crop this JPEG", "custom filter", "out of range", "not applicable", "read-only", "Invalid parameter",
  "Unsupported scaling", "has not yet been read", "Cannot partially decompress", "is not\ndivisible", "exceeds the",
  "No ICC profile", "more than", "cropping region", NULL
};

static void classify(struct runctx *rc, struct opres *r)
{
  tjinstance *t = (tjinstance *)rc->h;
  r->warn = t->jerr.warning;
  if (r->rc == 0) { strcpy(r->stage, "OK"); return; }
  if (hook_calls) {
    /* a few message codes select the sub-stage in the model */
    const char *cs = hook_code == JERR_CONVERSION_NOTIMPL ? "CONV" : hook_code == JERR_BUFFER_SIZE ? "BUFSZ" :
                     hook_code == JERR_NO_IMAGE ? "NOIMG" : hook_code == JERR_NO_HUFF_TABLE ? "NOHUFF" :
                     hook_code == JERR_NO_QUANT_TABLE ? "NOQUANT" : hook_code == JERR_BAD_STATE ? "BADSTATE" :
                     hook_code == JERR_BAD_HUFF_TABLE ? "BADHUFF" : NULL;
    char num[16];
    snprintf(num, sizeof(num), "%d", hook_code);
    snprintf(r->stage, sizeof(r->stage), "E%c%d.%s.%d%d.%d", hook_isd ? 'd' : 'c', hook_gs, cs ? cs : num, hook_soi, hook_sof, hook_um);
    return;
  }
  {
    const char *m = t->isInstanceError ? t->errStr : errStr;
    int i;
    if (t->jerr.warning && !strstr(m, "(): ")) { strcpy(r->stage, "W"); return; }
    for (i = 0; throw_table[i]; i++)
      if (strstr(m, throw_table[i])) { snprintf(r->stage, sizeof(r->stage), "T%d", i); return; }
    if (t->jerr.warning) { strcpy(r->stage, "W"); return; }
    strcpy(r->stage, "T?");
  }
}

static int pf_of(const char *s) { int v = atoi(s); return (v < 0 || v >= TJ_NUMPF) ? TJPF_RGB : v; }

/* obtain the JPEG destination buffer according to the buffer mode */
#define ARENA_SIZE 400000
static void drop_jbuf(struct runctx *rc)
{
  if (rc->jbuf != rc->arena) tj3Free(rc->jbuf);
  rc->jbuf = NULL;
}
static void prep_jbuf(struct runctx *rc, char mode, size_t big)
{
  unsigned char *nb;
  rc->declared = 0;
  if (mode == 'A' || mode == 'a') {
    /* the same caller buffer (same address) every time; 'A' declares all of it, 'a' only 1 KB of it */
    if (!rc->arena) rc->arena = (unsigned char *)tj3Alloc(ARENA_SIZE);
    drop_jbuf(rc);
    rc->declared = mode == 'A' ? ARENA_SIZE : 1024;
    memset(rc->arena + rc->declared, 0xC3, ARENA_SIZE - rc->declared);
    rc->jbuf = rc->arena; rc->jcap = rc->declared; rc->jsize = rc->declared;
    return;
  }
  if (rc->jbuf == rc->arena && rc->arena) rc->jbuf = NULL;   /* the arena stays ours */
  switch (mode) {
  case 'r':                       /* reuse whatever the caller holds */
    break;
  case 's':                       /* fresh small buffer (allocated before the old one is released) */
    nb = (unsigned char *)tj3Alloc(100);
    tj3Free(rc->jbuf);
    rc->jbuf = nb; rc->jcap = 100; rc->jsize = 100;
    break;
  case 'b':                       /* fresh buffer of worst-case size */
    nb = (unsigned char *)tj3Alloc(big);
    tj3Free(rc->jbuf);
    rc->jbuf = nb; rc->jcap = big; rc->jsize = big;
    break;
  default:                        /* 'n': let the library allocate */
    tj3Free(rc->jbuf);
    rc->jbuf = NULL; rc->jcap = 0; rc->jsize = 0;
    break;
  }
}

#define MAXDIM 256

static void run_op(struct runctx *rc, char **tk, int nt, struct opres *r)
{
  tjhandle h = rc->h;
  tjinstance *t = (tjinstance *)h;
  const char *op = tk[0];
  unsigned long long hash = FNV0;
  r->rc = 0; r->outn = 0; r->hash = 0; r->warn = 0;
  hook_calls = hook_gs = hook_code = hook_soi = hook_sof = hook_um = hook_isd = 0;
#define ARG(i) ((i) < nt ? tk[i] : "0")
#define IARG(i) atoi(ARG(i))
  if (!strcmp(op, "set")) {
    r->rc = tj3Set(h, IARG(1), IARG(2));
  } else if (!strcmp(op, "sf")) {
    tjscalingfactor s; s.num = IARG(1); s.denom = IARG(2);
    r->rc = tj3SetScalingFactor(h, s);
  } else if (!strcmp(op, "crop")) {
    tjregion g; g.x = IARG(1); g.y = IARG(2); g.w = IARG(3); g.h = IARG(4);
    r->rc = tj3SetCroppingRegion(h, g);
  } else if (!strcmp(op, "icc")) {
    int k = IARG(1);
    unsigned char prof[1000];
    memset(prof, 0x20 + k, sizeof(prof));
    r->rc = tj3SetICCProfile(h, k ? prof : NULL, (size_t)k * 100);
  } else if (!strcmp(op, "c") || !strcmp(op, "lc")) {
    /* c <prec> <w> <h> <seed> <pf> <bufmode>      lc <w> <h> <seed> <pf> <subsamp> <qual> <flags> */
    int legacy = op[0] == 'l';
    int prec = legacy ? 8 : IARG(1), w = IARG(2 - legacy), hh = IARG(3 - legacy), seed = IARG(4 - legacy), pf = pf_of(ARG(5 - legacy));
    char mode = legacy ? 'n' : ARG(6)[0];
    int ps = tjPixelSize[pf];
    void *px;
    if (w < 1 || w > MAXDIM) w = 16;
    if (hh < 1 || hh > MAXDIM) hh = 16;
    px = malloc((size_t)w * hh * ps * 2);
    fill_pixels(px, prec <= 8 ? 8 : prec <= 12 ? 12 : 16, w, hh, ps, seed);
    prep_jbuf(rc, mode, tj3JPEGBufSize(w, hh, TJSAMP_444) + 2048);
    if (legacy) {
      unsigned long sz = (unsigned long)rc->jsize;
      r->rc = tjCompress2(h, (unsigned char *)px, w, 0, hh, pf, &rc->jbuf, &sz, IARG(5), IARG(6), IARG(7));
      rc->jsize = sz;
    } else if (prec <= 8)
      r->rc = tj3Compress8(h, (unsigned char *)px, w, 0, hh, pf, &rc->jbuf, &rc->jsize);
    else if (prec <= 12)
      r->rc = tj3Compress12(h, (short *)px, w, 0, hh, pf, &rc->jbuf, &rc->jsize);
    else
      r->rc = tj3Compress16(h, (unsigned short *)px, w, 0, hh, pf, &rc->jbuf, &rc->jsize);
    if (r->rc == 0 && rc->jbuf) { hash = fnv(rc->jbuf, rc->jsize, hash); r->outn = rc->jsize; }
    free(px);
  } else if (!strcmp(op, "cy")) {
    /* cy <w> <h> <seed> <bufmode> : tj3CompressFromYUV8 (uses this->subsamp) */
    int w = IARG(1), hh = IARG(2), seed = IARG(3), ss = t->subsamp;
    char mode = ARG(4)[0];
    size_t ysz, i;
    unsigned char *yuv;
    unsigned int s = seed * 77u + 5u;
    if (w < 1 || w > MAXDIM) w = 16;
    if (hh < 1 || hh > MAXDIM) hh = 16;
    ysz = tj3YUVBufSize(w, 1, hh, (ss >= 0 && ss < TJ_NUMSAMP) ? ss : TJSAMP_444);
    if (ysz == 0) ysz = (size_t)w * hh * 3;
    yuv = malloc(ysz + (size_t)w * hh * 3);
    for (i = 0; i < ysz + (size_t)w * hh * 3; i++) yuv[i] = (unsigned char)((i * 13 + i / 9 + prng(&s) % 5) & 255);
    prep_jbuf(rc, mode, tj3JPEGBufSize(w, hh, TJSAMP_444) + 2048);
    r->rc = tj3CompressFromYUV8(h, yuv, w, 1, hh, &rc->jbuf, &rc->jsize);
    if (r->rc == 0 && rc->jbuf) { hash = fnv(rc->jbuf, rc->jsize, hash); r->outn = rc->jsize; }
    free(yuv);
  } else if (!strcmp(op, "ey")) {
    /* ey <w> <h> <seed> <pf> : tj3EncodeYUV8 */
    int w = IARG(1), hh = IARG(2), seed = IARG(3), pf = pf_of(ARG(4)), ss = t->subsamp;
    int ps = tjPixelSize[pf];
    size_t ysz;
    unsigned char *px, *yuv;
    if (w < 1 || w > MAXDIM) w = 16;
    if (hh < 1 || hh > MAXDIM) hh = 16;
    px = malloc((size_t)w * hh * ps);
    fill_pixels(px, 8, w, hh, ps, seed);
    ysz = (size_t)(w + 64) * (hh + 64) * 3;
    yuv = malloc(ysz);
    memset(yuv, 0xA5, ysz);
    (void)ss;
    r->rc = tj3EncodeYUV8(h, px, w, 0, hh, pf, yuv, 1);
    hash = fnv(yuv, ysz, hash); r->outn = ysz;
    free(px); free(yuv);
  } else if (!strcmp(op, "h") || !strcmp(op, "lh")) {
    size_t n;
    unsigned char *jb = get_jpeg(ARG(1), &n);
    if (op[0] == 'l') {
      int w = -1, hh = -1, ss = -1, cs = -1;
      r->rc = tjDecompressHeader3(h, jb, (unsigned long)n, &w, &hh, &ss, &cs);
      hash = fnv(&w, sizeof(w), hash); hash = fnv(&hh, sizeof(hh), hash); hash = fnv(&ss, sizeof(ss), hash); hash = fnv(&cs, sizeof(cs), hash);
    } else
      r->rc = tj3DecompressHeader(h, jb, n);
    free(jb);
  } else if (!strcmp(op, "d") || !strcmp(op, "ld")) {
    /* d <prec> <jref> <pf>        ld <jref> <pf> <flags> */
    int legacy = op[0] == 'l';
    int prec = legacy ? 8 : IARG(1), pf = pf_of(ARG(3 - legacy));
    size_t n, osz;
    unsigned char *jb = get_jpeg(ARG(2 - legacy), &n);
    unsigned char *out;
    int mw, mh;
    if (!dim_bound(jb, n, &mw, &mh)) { free(jb); r->rc = -98; r->hash = hash; strcpy(r->stage, "SKIP"); return; }
    osz = (size_t)(mw * 2 + 32) * (mh * 2 + 32) * 4 * (prec > 8 ? 2 : 1);
    out = malloc(osz);
    memset(out, 0xA5, osz);
    if (legacy) r->rc = tjDecompress2(h, jb, (unsigned long)n, out, 0, 0, 0, pf, IARG(3));
    else if (prec <= 8) r->rc = tj3Decompress8(h, jb, n, out, 0, pf);
    else if (prec <= 12) r->rc = tj3Decompress12(h, jb, n, (short *)out, 0, pf);
    else r->rc = tj3Decompress16(h, jb, n, (unsigned short *)out, 0, pf);
    hash = fnv(out, osz, hash); r->outn = osz;
    free(out); free(jb);
  } else if (!strcmp(op, "dy")) {
    size_t n, osz;
    unsigned char *jb = get_jpeg(ARG(1), &n);
    unsigned char *out;
    int mw, mh;
    if (!dim_bound(jb, n, &mw, &mh)) { free(jb); r->rc = -98; r->hash = hash; strcpy(r->stage, "SKIP"); return; }
    osz = (size_t)(mw * 2 + 64) * (mh * 2 + 64) * 3;
    out = malloc(osz);
    memset(out, 0xA5, osz);
    r->rc = tj3DecompressToYUV8(h, jb, n, out, 1);
    hash = fnv(out, osz, hash); r->outn = osz;
    free(out); free(jb);
  } else if (!strcmp(op, "ldy")) {
    /* ldy <jref> <flags> : tjDecompressToYUV2 (width = height = 0: unscaled) */
    size_t n, osz;
    unsigned char *jb = get_jpeg(ARG(1), &n);
    unsigned char *out;
    int mw, mh;
    if (!dim_bound(jb, n, &mw, &mh)) { free(jb); r->rc = -98; r->hash = hash; strcpy(r->stage, "SKIP"); return; }
    osz = (size_t)(mw * 2 + 64) * (mh * 2 + 64) * 3;
    out = malloc(osz);
    memset(out, 0xA5, osz);
    r->rc = tjDecompressToYUV2(h, jb, (unsigned long)n, out, 0, 1, 0, IARG(2));
    hash = fnv(out, osz, hash); r->outn = osz;
    free(out); free(jb);
  } else if (!strcmp(op, "dyp")) {
    /* dyp <jref> : tj3DecompressToYUVPlanes8 called directly (planes and strides computed from a header parse of a
       throw-away instance, as an application would) */
    size_t n, osz;
    unsigned char *jb = get_jpeg(ARG(1), &n);
    unsigned char *out, *planes[3];
    int mw, mh, strides[3];
    if (!dim_bound(jb, n, &mw, &mh)) { free(jb); r->rc = -98; r->hash = hash; strcpy(r->stage, "SKIP"); return; }
    osz = (size_t)(mw * 2 + 64) * (mh * 2 + 64) * 3;
    out = malloc(osz);
    memset(out, 0xA5, osz);
    planes[0] = out; planes[1] = out + osz / 3; planes[2] = out + 2 * (osz / 3);
    strides[0] = strides[1] = strides[2] = mw * 2 + 64;
    r->rc = tj3DecompressToYUVPlanes8(h, jb, n, planes, strides);
    hash = fnv(out, osz, hash); r->outn = osz;
    free(out); free(jb);
  } else if (!strcmp(op, "si") || !strcmp(op, "li")) {
    /* si <prec> <w> <h> <seed> <pf> <bmp> : tj3SaveImage*  ;  li <prec> <bmp> <pf> : tj3LoadImage* of a file that a
       throw-away default instance wrote */
    static char path[600];
    const char *dir = getenv("VERIF_BUILD");
    int save = op[0] == 's';
    int prec = IARG(1), bmp = save ? IARG(6) : IARG(2), pf = pf_of(save ? ARG(5) : ARG(3));
    int w = save ? IARG(2) : 23, hh = save ? IARG(3) : 17, seed = save ? IARG(4) : 5, ps;
    void *px;
    if (prec != 8 && prec != 12 && prec != 16) prec = 8;
    if (bmp && prec != 8) bmp = 0;
    if (w < 1 || w > MAXDIM) w = 16;
    if (hh < 1 || hh > MAXDIM) hh = 16;
    if (pf == TJPF_CMYK && bmp) pf = TJPF_RGB;
    ps = tjPixelSize[pf];
    snprintf(path, sizeof(path), "%s/harness/c12tmp-%d.%s", dir ? dir : "/verif/build", (int)getpid(), bmp ? "bmp" : "ppm");
    px = malloc((size_t)w * hh * ps * 2);
    fill_pixels(px, prec, w, hh, ps, seed);
    if (save) {
      FILE *fp;
      if (prec == 8) r->rc = tj3SaveImage8(h, path, (unsigned char *)px, w, 0, hh, pf);
      else if (prec == 12) r->rc = tj3SaveImage12(h, path, (short *)px, w, 0, hh, pf);
      else r->rc = tj3SaveImage16(h, path, (unsigned short *)px, w, 0, hh, pf);
      if ((fp = fopen(path, "rb")) != NULL) {
        static unsigned char fb[1 << 20];
        size_t k = fread(fb, 1, sizeof(fb), fp);
        hash = fnv(fb, k, hash); r->outn = k;
        fclose(fp);
      }
    } else {
      tjhandle tmp = tj3Init(TJINIT_DECOMPRESS);
      int lw = 0, lh = 0, lpf = pf;
      void *img = NULL;
      int wpf = (pf == TJPF_CMYK) ? TJPF_RGB : pf;
      tj3Set(tmp, TJPARAM_PRECISION, prec);
      if (prec == 8) tj3SaveImage8(tmp, path, (unsigned char *)px, w, 0, hh, wpf);
      else if (prec == 12) tj3SaveImage12(tmp, path, (short *)px, w, 0, hh, wpf);
      else tj3SaveImage16(tmp, path, (unsigned short *)px, w, 0, hh, wpf);
      tj3Destroy(tmp);
      if (prec == 8) img = tj3LoadImage8(h, path, &lw, 1, &lh, &lpf);
      else if (prec == 12) img = tj3LoadImage12(h, path, &lw, 1, &lh, &lpf);
      else img = tj3LoadImage16(h, path, &lw, 1, &lh, &lpf);
      r->rc = img ? 0 : -1;
      hash = fnv(&lw, sizeof(lw), hash); hash = fnv(&lh, sizeof(lh), hash); hash = fnv(&lpf, sizeof(lpf), hash);
      if (img) { size_t k = (size_t)lw * lh * tjPixelSize[lpf] * (prec > 8 ? 2 : 1); hash = fnv(img, k, hash); r->outn = k; tj3Free(img); }
    }
    unlink(path);
    free(px);
  } else if (!strcmp(op, "mb")) {
    /* mb <w> : TJPARAM_MAXMEMORY boundary: the largest height (binary search) for which a progressive grayscale
       compression of a <w> x H image still succeeds under the instance's current memory limit */
    int w = IARG(1), lo = 8, hi = 60000;
    unsigned char *px;
    if (w != 8 && w != 16 && w != 24 && w != 32) w = 16;
    px = malloc((size_t)w * hi);
    memset(px, 0x55, (size_t)w * hi);
    tj3Set(h, TJPARAM_PROGRESSIVE, 1);
    while (lo < hi) {
      int mid = (lo + hi + 1) / 2, ok;
      unsigned char *jb = NULL;
      size_t js = 0;
      ok = tj3Compress8(h, px, w, 0, mid, TJPF_GRAY, &jb, &js) == 0;
      tj3Free(jb);
      if (ok) lo = mid; else hi = mid - 1;
    }
    r->rc = 0;
    hash = fnv(&lo, sizeof(lo), hash); r->outn = (size_t)lo;
    free(px);
  } else if (!strcmp(op, "uy")) {
    /* uy <w> <h> <seed> <pf> : tj3DecodeYUV8 (uses this->subsamp) */
    int w = IARG(1), hh = IARG(2), seed = IARG(3), pf = pf_of(ARG(4));
    size_t ysz, osz, i;
    unsigned char *yuv, *out;
    unsigned int s = seed * 31u + 7u;
    if (w > 65500 && w <= 70000 && hh >= 1 && hh <= 2) ;            /* too wide: error inside jpeg_read_header */
    else if (hh > 65500 && hh <= 70000 && w >= 1 && w <= 2) ;
    else {
      if (w < 1 || w > MAXDIM) w = 16;
      if (hh < 1 || hh > MAXDIM) hh = 16;
    }
    ysz = (size_t)(w + 64) * (hh + 64) * 3;
    yuv = malloc(ysz);
    for (i = 0; i < ysz; i++) yuv[i] = (unsigned char)((i * 29 + i / 11 + prng(&s) % 7) & 255);
    osz = (size_t)(w + 32) * (hh + 32) * 4;
    out = malloc(osz);
    memset(out, 0xA5, osz);
    r->rc = tj3DecodeYUV8(h, yuv, 1, out, w, 0, hh, pf);
    hash = fnv(out, osz, hash); r->outn = osz;
    free(yuv); free(out);
  } else if (!strcmp(op, "gi")) {
    unsigned char *p = NULL;
    size_t n = 0;
    r->rc = tj3GetICCProfile(h, &p, &n);
    hash = fnv(&n, sizeof(n), hash);
    if (p) hash = fnv(p, n, hash);
    r->outn = n;
    tj3Free(p);
  } else if (!strcmp(op, "tb")) {
    /* tb <xop> <opts> : tj3TransformBufSize */
    tjtransform x;
    size_t v;
    memset(&x, 0, sizeof(x));
    x.op = IARG(1); x.options = IARG(2);
    v = tj3TransformBufSize(h, &x);
    r->rc = v == 0 ? -1 : 0;
    hash = fnv(&v, sizeof(v), hash); r->outn = v;
  } else if (!strcmp(op, "t") || !strcmp(op, "lt")) {
    /* t <jref> <xop> <opts> <bufmode> [<xop2> <opts2>]    lt <jref> <xop> <opts> <flags> */
    int legacy = op[0] == 'l', ntr = (!legacy && nt >= 7) ? 2 : 1, i;
    size_t n;
    unsigned char *jb = get_jpeg(ARG(1), &n);
    tjtransform x[2];
    unsigned char *bufs[2] = { NULL, NULL };
    size_t sizes[2] = { 0, 0 };
    char mode = legacy ? 'n' : ARG(4)[0];
    memset(x, 0, sizeof(x));
    x[0].op = IARG(2); x[0].options = IARG(3);
    x[1].op = IARG(5); x[1].options = IARG(6);
    for (i = 0; i < 2; i++)
      if (x[i].options & TJXOPT_CROP) { x[i].r.x = 16; x[i].r.y = 16; x[i].r.w = 16; x[i].r.h = 16; }
    prep_jbuf(rc, mode, tj3JPEGBufSize(MAXDIM, MAXDIM, TJSAMP_444) + 4096);
    bufs[0] = rc->jbuf; sizes[0] = rc->jsize;
    if (ntr == 2 && mode == 'b') { bufs[1] = tj3Alloc(rc->jcap); sizes[1] = rc->jcap; }
    if (legacy) {
      unsigned long ls[2];
      ls[0] = (unsigned long)sizes[0]; ls[1] = (unsigned long)sizes[1];
      r->rc = tjTransform(h, jb, (unsigned long)n, 1, bufs, ls, x, IARG(4));
      sizes[0] = ls[0];
    } else
      r->rc = tj3Transform(h, jb, n, ntr, bufs, sizes, x);
    rc->jbuf = bufs[0]; rc->jsize = sizes[0];
    if (r->rc == 0) {
      for (i = 0; i < ntr; i++)
        if (bufs[i] && !(x[i].options & TJXOPT_NOOUTPUT)) { hash = fnv(bufs[i], sizes[i], hash); r->outn += sizes[i]; }
    }
    tj3Free(bufs[1]);
    free(jb);
  } else if (!strcmp(op, "bad")) {
    /* invalid-argument calls */
    int which = IARG(1);
    size_t z = 0;
    unsigned char *nb = NULL, dummy[16] = { 0 };
    switch (which % 8) {
    case 0: r->rc = tj3Compress8(h, NULL, 16, 0, 16, TJPF_RGB, &nb, &z); break;
    case 1: r->rc = tj3Decompress8(h, NULL, 0, dummy, 0, TJPF_RGB); break;
    case 2: r->rc = tj3DecompressHeader(h, dummy, 0); break;
    case 3: r->rc = tj3Transform(h, dummy, 16, 0, NULL, NULL, NULL); break;
    case 4: r->rc = tj3Compress8(h, dummy, 0, 0, -1, TJPF_RGB, &nb, &z); break;
    case 5: r->rc = tj3Decompress8(h, dummy, 16, dummy, 0, 99); break;
    case 6: r->rc = tj3DecompressToYUV8(h, dummy, 16, NULL, 1); break;
    default: r->rc = tj3EncodeYUV8(h, NULL, 16, 0, 16, TJPF_RGB, dummy, 1); break;
    }
  } else {
    r->rc = -99;
  }
  r->hash = hash;
  if (r->rc == -99) strcpy(r->stage, "?");
  else classify(rc, r);
  if (rc->arena && rc->declared) {
    /* nothing beyond the declared size of the caller's buffer may have been written */
    size_t k, bad = 0;
    for (k = rc->declared; k < ARENA_SIZE; k++) if (rc->arena[k] != 0xC3) bad++;
    if (bad) snprintf(r->stage, sizeof(r->stage), "OVERRUN%zu", bad);
    rc->declared = 0;
  }
}

/* ------------------------------------------------- libjpeg API mirror ("L") */
static unsigned long long raw_decode(struct jpeg_decompress_struct *ci, struct plain_err *je, const char *jref,
                                     int fancy, int skip, int skipn, int ocs, int *rcout)
{
  size_t n;
  unsigned char *jb = get_jpeg(jref, &n);
  unsigned char * volatile row = NULL;
  unsigned long long hash = FNV0;
  JSAMPROW rp;
  volatile int stage = 0;
  int mw, mh;
  *rcout = 0;
  if (!dim_bound(jb, n, &mw, &mh)) { free(jb); *rcout = 3; return hash; }
  row = malloc((size_t)mw * 8 * 2 + 64);
  rp = row;
  if (setjmp(je->jb)) {
    *rcout = -(1 + stage);
    jpeg_abort_decompress(ci);
    free(jb); free(row);
    return hash;
  }
  jpeg_mem_src(ci, jb, (unsigned long)n);
  stage = 1;
  jpeg_save_markers(ci, JPEG_COM, 0xFFFF);
  jpeg_save_markers(ci, JPEG_APP0 + 1, 0xFFFF);
  jpeg_save_markers(ci, JPEG_APP0 + 2, 0xFFFF);
  if (jpeg_read_header(ci, FALSE) != JPEG_HEADER_OK) { free(jb); free(row); *rcout = 1; return hash; }
  {
    /* what the application sees of the saved markers of THIS image */
    jpeg_saved_marker_ptr m;
    JOCTET *icc = NULL;
    unsigned int icclen = 0;
    for (m = ci->marker_list; m; m = m->next) {
      hash = fnv(&m->marker, sizeof(m->marker), hash);
      hash = fnv(&m->data_length, sizeof(m->data_length), hash);
      hash = fnv(m->data, m->data_length, hash);
    }
    if (jpeg_read_icc_profile(ci, &icc, &icclen)) { hash = fnv(icc, icclen, hash); free(icc); }
    hash = fnv(&icclen, sizeof(icclen), hash);
  }
  ci->do_fancy_upsampling = fancy;
  if (ocs) ci->out_color_space = JCS_EXT_BGRX;
  if (ci->data_precision != 8 || ci->master->lossless) { jpeg_abort_decompress(ci); free(jb); free(row); *rcout = 2; return hash; }
  stage = 2;
  jpeg_start_decompress(ci);
  stage = 3;
  while (ci->output_scanline < ci->output_height) {
    if (skip && ci->output_scanline == (JDIMENSION)skip) {
      JDIMENSION k = jpeg_skip_scanlines(ci, skipn);
      hash = fnv(&k, sizeof(k), hash);
      if (ci->output_scanline >= ci->output_height) break;
    }
    memset(row, 0x5A, (size_t)mw * 8);
    if (jpeg_read_scanlines(ci, &rp, 1) != 1) break;
    hash = fnv(row, (size_t)ci->output_width * ci->output_components, hash);
  }
  stage = 4;
  jpeg_finish_decompress(ci);
  free(jb); free(row);
  return hash;
}

static unsigned long long raw_encode(struct jpeg_compress_struct *ci, struct plain_err *je, int w, int h, int seed,
                                     int q, int prog, int opt, int arith, int rows, int *rcout)
{
  /* caller-supplied buffer that never has to grow: after an error exit the
     caller of jpeg_mem_dest() cannot know which buffer is current */
  unsigned long outsz = (unsigned long)MAXDIM * MAXDIM * 6 + 65536;
  unsigned char *out = malloc(outsz), *px = malloc((size_t)w * h * 3);
  unsigned long long hash = FNV0;
  volatile int stage = 0;
  int y;
  JSAMPROW row;
  *rcout = 0;
  fill_pixels(px, 8, w, h, 3, seed);
  if (setjmp(je->jb)) {
    *rcout = -(1 + stage);
    jpeg_abort_compress(ci);
    free(out); free(px);
    return hash;
  }
  jpeg_mem_dest(ci, &out, &outsz);
  ci->image_width = w; ci->image_height = h; ci->input_components = 3; ci->in_color_space = JCS_RGB;
  ci->data_precision = 8;
  jpeg_set_defaults(ci);
  jpeg_set_quality(ci, q, TRUE);
  if (prog) jpeg_simple_progression(ci);
  ci->optimize_coding = opt;
  ci->arith_code = arith;
  stage = 1;
  jpeg_start_compress(ci, TRUE);
  stage = 2;
  for (y = 0; y < h && y < rows; y++) { row = px + (size_t)y * w * 3; jpeg_write_scanlines(ci, &row, 1); }
  stage = 3;
  jpeg_finish_compress(ci);      /* too few rows -> JERR_TOO_LITTLE_DATA */
  hash = fnv(out, outsz, hash);
  free(out); free(px);
  return hash;
}

static void run_raw_history(char *line)
{
  /* L d|c ; op ; op ; ... last op is the probe */
  char *ops[64], *tk[16], *sv = NULL, *p;
  int nops = 0, i, nt, isd;
  struct jpeg_decompress_struct du, df;
  struct jpeg_compress_struct cu, cf;
  struct plain_err eu, ef;
  for (p = strtok_r(line, ";", &sv); p && nops < 64; p = strtok_r(NULL, ";", &sv)) ops[nops++] = p;
  if (nops < 2) { printf("X bad-line\n"); return; }
  isd = strstr(ops[0], " d") != NULL;
  if (isd) {
    du.err = jpeg_std_error(&eu.pub); eu.pub.error_exit = plain_exit; eu.pub.emit_message = plain_emit; jpeg_create_decompress(&du);
    df.err = jpeg_std_error(&ef.pub); ef.pub.error_exit = plain_exit; ef.pub.emit_message = plain_emit; jpeg_create_decompress(&df);
  } else {
    cu.err = jpeg_std_error(&eu.pub); eu.pub.error_exit = plain_exit; eu.pub.emit_message = plain_emit; jpeg_create_compress(&cu);
    cf.err = jpeg_std_error(&ef.pub); ef.pub.error_exit = plain_exit; ef.pub.emit_message = plain_emit; jpeg_create_compress(&cf);
  }
  printf("L %d", nops - 1);
  fflush(stdout);
  for (i = 1; i < nops; i++) {
    char *sv2 = NULL;
    int rcode = 0;
    unsigned long long hv;
    nt = 0;
    for (p = strtok_r(ops[i], " \t\r\n", &sv2); p && nt < 16; p = strtok_r(NULL, " \t\r\n", &sv2)) tk[nt++] = p;
    if (nt == 0) { printf(" | rc=-99"); continue; }
#define RA(k) ((k) < nt ? atoi(tk[k]) : 0)
    if (isd) hv = raw_decode(&du, &eu, nt > 1 ? tk[1] : "0", RA(2), RA(3), RA(4), RA(5), &rcode);
    else hv = raw_encode(&cu, &eu, RA(1) > 0 && RA(1) <= MAXDIM ? RA(1) : 16, RA(2) > 0 && RA(2) <= MAXDIM ? RA(2) : 16, RA(3), RA(4) > 0 ? RA(4) : 75, RA(5), RA(6), RA(7), RA(8), &rcode);
    printf(" | rc=%d h=%016llx gs=%d", rcode, hv, isd ? du.global_state : cu.global_state);
    fflush(stdout);
    if (i == nops - 1) {
      int rc2 = 0;
      unsigned long long h2;
      if (isd) h2 = raw_decode(&df, &ef, nt > 1 ? tk[1] : "0", RA(2), RA(3), RA(4), RA(5), &rc2);
      else h2 = raw_encode(&cf, &ef, RA(1) > 0 && RA(1) <= MAXDIM ? RA(1) : 16, RA(2) > 0 && RA(2) <= MAXDIM ? RA(2) : 16, RA(3), RA(4) > 0 ? RA(4) : 75, RA(5), RA(6), RA(7), RA(8), &rc2);
      printf(" | F rc=%d h=%016llx", rc2, h2);
    }
  }
  if (isd) { jpeg_destroy_decompress(&du); jpeg_destroy_decompress(&df); }
  else { jpeg_destroy_compress(&cu); jpeg_destroy_compress(&cf); }
  printf(" | destroyed\n");
}

/* ----------------------------------------------------------- one history */
static void copy_params(tjinstance *u, tjinstance *f)
{
  /* "a freshly created instance with the same settings": every parameter that
     tj3Get() can observe, the scaling factor, the cropping region, and the ICC
     profile to embed */
  f->jerr.stopOnWarning = u->jerr.stopOnWarning;
  f->bottomUp = u->bottomUp; f->noRealloc = u->noRealloc; f->quality = u->quality; f->subsamp = u->subsamp;
  f->jpegWidth = u->jpegWidth; f->jpegHeight = u->jpegHeight; f->precision = u->precision; f->colorspace = u->colorspace;
  f->fastUpsample = u->fastUpsample; f->fastDCT = u->fastDCT; f->optimize = u->optimize; f->progressive = u->progressive;
  f->scanLimit = u->scanLimit; f->arithmetic = u->arithmetic; f->lossless = u->lossless; f->losslessPSV = u->losslessPSV;
  f->losslessPt = u->losslessPt; f->restartIntervalBlocks = u->restartIntervalBlocks; f->restartIntervalRows = u->restartIntervalRows;
  f->xDensity = u->xDensity; f->yDensity = u->yDensity; f->densityUnits = u->densityUnits; f->scalingFactor = u->scalingFactor;
  f->croppingRegion = u->croppingRegion; f->maxMemory = u->maxMemory; f->maxPixels = u->maxPixels; f->saveMarkers = u->saveMarkers;
  if (u->init & COMPRESS) tj3SetICCProfile((tjhandle)f, u->iccBuf, u->iccSize);
}

static void run_history(char *line)
{
  char *ops[64], *tk[16], *sv = NULL, *p;
  int nops = 0, i, nt, type, mismatch = 0, pstart;
  struct runctx u, f;
  struct opres r, rf;
  char st[1024];
  tjinstance *tu, *tf;
  if (line[0] == 'L') { run_raw_history(line); return; }
  for (p = strtok_r(line, ";", &sv); p && nops < 64; p = strtok_r(NULL, ";", &sv)) ops[nops++] = p;
  if (nops < 2) { printf("X bad-line\n"); return; }
  /* ops[0] = "I c|d|t" */
  type = strchr(ops[0], 'c') ? TJINIT_COMPRESS : strchr(ops[0], 'd') ? TJINIT_DECOMPRESS : TJINIT_TRANSFORM;
  memset(&u, 0, sizeof(u)); memset(&f, 0, sizeof(f));
  /* tj3GetICCProfile / tj3TransformBufSize report what the preceding tj3DecompressHeader call
     left: then the probe is that header call followed by the getter, on both instances */
  pstart = nops - 1;
  {
    const char *last = ops[nops - 1] + strspn(ops[nops - 1], " ");
    if (nops >= 3 && (!strncmp(last, "gi", 2) || !strncmp(last, "tb", 2))) {
      const char *prev = ops[nops - 2] + strspn(ops[nops - 2], " ");
      if (!strncmp(prev, "h ", 2) || !strncmp(prev, "lh ", 3)) pstart = nops - 2;
    }
  }
  u.h = new_instance(type); u.type = type;
  tu = (tjinstance *)u.h;
  dump_state(tu, st, sizeof(st));
  printf("R %d | S=%s", nops - 1, st);
  fflush(stdout);
  for (i = 1; i < nops; i++) {
    char *sv2 = NULL;
    char copy[512];
    nt = 0;
    strncpy(copy, ops[i], sizeof(copy) - 1); copy[sizeof(copy) - 1] = 0;
    for (p = strtok_r(ops[i], " \t\r\n", &sv2); p && nt < 16; p = strtok_r(NULL, " \t\r\n", &sv2)) tk[nt++] = p;
    if (nt == 0) { printf(" | rc=-99 st=? h=0 n=0 w=0 S=-"); continue; }
    if (i == pstart) {
      /* probe: fresh instance first gets the settings of the used one as they are NOW */
      f.h = new_instance(type); f.type = type;
      tf = (tjinstance *)f.h;
      copy_params(tu, tf);
    }
    run_op(&u, tk, nt, &r);
    dump_state(tu, st, sizeof(st));
    printf(" | rc=%d st=%s h=%016llx n=%zu w=%d S=%s", r.rc, r.stage, r.hash, r.outn, r.warn, st);
    fflush(stdout);
    if (i >= pstart && i < nops - 1) {
      /* first call of a two-call probe, on the fresh instance */
      nt = 0; sv2 = NULL;
      for (p = strtok_r(copy, " \t\r\n", &sv2); p && nt < 16; p = strtok_r(NULL, " \t\r\n", &sv2)) tk[nt++] = p;
      run_op(&f, tk, nt, &rf);
    }
    if (i == nops - 1) {
      /* re-tokenise the probe for the fresh instance */
      nt = 0; sv2 = NULL;
      for (p = strtok_r(copy, " \t\r\n", &sv2); p && nt < 16; p = strtok_r(NULL, " \t\r\n", &sv2)) tk[nt++] = p;
      /* the probe never reuses a caller buffer ('r' degrades to 'n' on both sides is the
         generator's business); run it */
      run_op(&f, tk, nt, &rf);
      dump_state(tf, st, sizeof(st));
      printf(" | F rc=%d st=%s h=%016llx n=%zu w=%d S=%s", rf.rc, rf.stage, rf.hash, rf.outn, rf.warn, st);
      mismatch = (rf.rc != r.rc) || (rf.hash != r.hash) || (rf.outn != r.outn) || (rf.warn != r.warn) || strcmp(rf.stage, r.stage);
      printf(" | %s", mismatch ? "DIFF" : "SAME");
      fflush(stdout);
      /* after any history both instances must be destroyable */
      if (f.jbuf != f.arena) tj3Free(f.jbuf);
      tj3Free(f.arena);
      tj3Destroy(f.h);
    }
  }
  if (u.jbuf != u.arena) tj3Free(u.jbuf);
  tj3Free(u.arena);
  tj3Destroy(u.h);
  printf(" | destroyed\n");
}

int main(int argc, char **argv)
{
  static char line[8192];
  int nofork = argc > 1 && !strcmp(argv[1], "--nofork");
  setvbuf(stdout, NULL, _IOLBF, 0);
  build_library();
  if (argc > 1 && !strcmp(argv[1], "--lib")) {
    int i;
    for (i = 0; i < nlib; i++) printf("%d %zu\n", i, lib[i] ? libsz[i] : 0);
    return 0;
  }
  while (fgets(line, sizeof(line), stdin)) {
    size_t l = strlen(line);
    while (l && (line[l - 1] == '\n' || line[l - 1] == '\r')) line[--l] = 0;
    if (!l) { printf("X empty\n"); continue; }
    if (nofork) { run_history(line); continue; }
    {
      int pfd[2], status = 0;
      pid_t pid;
      char errbuf[16384];
      size_t en = 0;
      ssize_t k;
      fflush(stdout);
      if (pipe(pfd)) die("pipe");
      pid = fork();
      if (pid < 0) die("fork");
      if (pid == 0) {
        close(pfd[0]);
        dup2(pfd[1], 2);
        close(pfd[1]);
        alarm(20);
        run_history(line);
        fflush(stdout);
        _exit(0);
      }
      close(pfd[1]);
      while ((k = read(pfd[0], errbuf + en, sizeof(errbuf) - 1 - en)) > 0) { en += k; if (en >= sizeof(errbuf) - 1) { char tmp[4096]; while (read(pfd[0], tmp, sizeof(tmp)) > 0) ; break; } }
      errbuf[en] = 0;
      close(pfd[0]);
      waitpid(pid, &status, 0);
      if (!(WIFEXITED(status) && WEXITSTATUS(status) == 0)) {
        /* the child died: finish its line with a canonical description */
        char *s = strstr(errbuf, "SUMMARY: "), *e, *q;
        char what[300] = "";
        if (s) {
          e = strchr(s, '\n'); if (e) *e = 0;
          snprintf(what, sizeof(what), "%s", s + 9);
        } else if ((s = strstr(errbuf, "runtime error: "))) {
          e = strchr(s, '\n'); if (e) *e = 0;
          snprintf(what, sizeof(what), "UBSan %s", s);
        } else if (WIFSIGNALED(status))
          snprintf(what, sizeof(what), "signal %d", WTERMSIG(status));
        else
          snprintf(what, sizeof(what), "exit %d", WEXITSTATUS(status));
        for (q = what; *q; q++) if (*q == '|') *q = '/';
        printf(" | CRASH %s\n", what);
      }
    }
  }
  return 0;
}
