/* C02 kernel harness: runs the REAL predictor / differencing / undifferencing /
 * point-transform kernels of the working tree (static functions of jclossls.c
 * and jdlossls.c, reached by inclusion) on the cases read from stdin and prints
 * one canonical line per case (same format as ml/C02_driver.ml).
 * Built three times: -DBITS_IN_JSAMPLE=8 / 12 / 16 (like the jpeg12/jpeg16
 * object libraries of CMakeLists.txt).
 *
 *   row  prec pt psv first | prev... | cur...      -> d <diffs> | u <undiffs>
 *   und  prec pt psv first | prev... | diffs...    -> u <undiffs>
 *   seq  prec pt psv ri mpr w h | samples (h*w)    -> e <row> ; <row> ...   | err
 *   scale bits prec pt | samples                      -> s <down> | <up>
 */
#include <stdio.h>
#include <stdlib.h>
#include <string.h>
#include <setjmp.h>

#define start_pass_lossless c_start_pass_lossless
#define noscale c_noscale
#include "jclossls.c"
#undef start_pass_lossless
#undef noscale
#undef INITIAL_PREDICTORx
#undef INITIAL_PREDICTOR2
#define start_pass_lossless d_start_pass_lossless
#define noscale d_noscale
#include "jdlossls.c"
#undef start_pass_lossless
#undef noscale

static jmp_buf jb;
static void my_exit(j_common_ptr c) { longjmp(jb, 1); }
static void my_emit(j_common_ptr c, int lvl) { }

static struct jpeg_compress_struct cc;
static struct jpeg_decompress_struct dc;
static struct jpeg_error_mgr ce, de;
static jpeg_lossless_compressor lc;
static jpeg_lossless_decompressor ld;

#define MAXN (1 << 16)
static char line[1 << 21];
static long a1[MAXN], a2[MAXN];
static _JSAMPLE sprev[MAXN], scur[MAXN], stmp[MAXN];
static JDIFF dprev[MAXN], ddiff[MAXN], dund[MAXN];

static int parse_list(char **pp, long *out)
{
  char *p = *pp; int n = 0;
  for (;;) {
    while (*p == ' ') p++;
    if (*p == '|' || *p == 0 || *p == '\n') break;
    out[n++] = strtol(p, &p, 10);
    if (n >= MAXN) break;
  }
  if (*p == '|') p++;
  *pp = p;
  return n;
}

typedef void (*diff_fn_t) (j_compress_ptr, int, _JSAMPROW, _JSAMPROW, JDIFFROW, JDIMENSION);
typedef void (*undiff_fn_t) (j_decompress_ptr, int, JDIFFROW, JDIFFROW, JDIFFROW, JDIMENSION);

static diff_fn_t pick_diff(int first, int psv)
{
  if (first) return jpeg_difference_first_row;
  switch (psv) {
  case 1: return jpeg_difference1; case 2: return jpeg_difference2;
  case 3: return jpeg_difference3; case 4: return jpeg_difference4;
  case 5: return jpeg_difference5; case 6: return jpeg_difference6;
  case 7: return jpeg_difference7;
  }
  return NULL;
}
static undiff_fn_t pick_undiff(int first, int psv)
{
  if (first) return jpeg_undifference_first_row;
  switch (psv) {
  case 1: return jpeg_undifference1; case 2: return jpeg_undifference2;
  case 3: return jpeg_undifference3; case 4: return jpeg_undifference4;
  case 5: return jpeg_undifference5; case 6: return jpeg_undifference6;
  case 7: return jpeg_undifference7;
  }
  return NULL;
}

static void setup(int prec, int pt, int psv, unsigned ri, unsigned mpr)
{
  cc.data_precision = prec; cc.Al = pt; cc.Ss = psv; cc.Se = 0; cc.Ah = 0;
  cc.restart_interval = ri; cc.MCUs_per_row = mpr; cc.num_components = 1;
  dc.data_precision = prec; dc.Al = pt; dc.Ss = psv; dc.Se = 0; dc.Ah = 0;
  dc.restart_interval = ri; dc.MCUs_per_row = mpr; dc.num_components = 1;
}

/* undifference exactly as decompress_data does with v_samp_factor 1: the
 * previous row and the output row are the same storage */
static void run_undiff(int first, int psv, int n, long *prev, int nprev)
{
  int i; undiff_fn_t uf = pick_undiff(first, psv);
  for (i = 0; i < n; i++) dund[i] = i < nprev ? (JDIFF)prev[i] : 0;
  if (n > 0 && uf) (*uf) (&dc, 0, ddiff, dund, dund, (JDIMENSION)n);
  printf("u");
  if (uf) for (i = 0; i < n; i++) printf(" %d", dund[i]);
}

int main(void)
{
  setvbuf(stdout, NULL, _IOLBF, 0);
  memset(&cc, 0, sizeof(cc)); memset(&dc, 0, sizeof(dc));
  cc.err = jpeg_std_error(&ce); ce.error_exit = my_exit; ce.emit_message = my_emit;
  dc.err = jpeg_std_error(&de); de.error_exit = my_exit; de.emit_message = my_emit;
  cc.fdct = (struct jpeg_forward_dct *)&lc;
  dc.idct = (struct jpeg_inverse_dct *)&ld;

  while (fgets(line, sizeof(line), stdin)) {
    char *p = line; char cmd[16]; int k = 0, i;
    while (*p && *p != ' ' && *p != '\n' && k < 15) cmd[k++] = *p++;
    cmd[k] = 0;
    if (!strcmp(cmd, "row") || !strcmp(cmd, "und")) {
      int prec = (int)strtol(p, &p, 10), pt = (int)strtol(p, &p, 10), psv = (int)strtol(p, &p, 10);
      int first = (int)strtol(p, &p, 10), np, n;
      while (*p == ' ') p++;
      if (*p == '|') p++;
      np = parse_list(&p, a1);
      n = parse_list(&p, a2);
      setup(prec, pt, psv, 0, 1);
      if (!strcmp(cmd, "row")) {
        diff_fn_t df = pick_diff(first, psv);
        for (i = 0; i < n; i++) { sprev[i] = (_JSAMPLE)(i < np ? a1[i] : 0); scur[i] = (_JSAMPLE)a2[i]; }
        memset(ddiff, 0, sizeof(JDIFF) * (n + 1));
        if (n > 0 && df) (*df) (&cc, 0, scur, sprev, ddiff, (JDIMENSION)n);
        printf("d");
        for (i = 0; i < n; i++) printf(" %d", ddiff[i]);
        printf(" | ");
      } else {
        for (i = 0; i < n; i++) ddiff[i] = (JDIFF)a2[i];
      }
      run_undiff(first, psv, n, a1, np);
      printf("\n");
    } else if (!strcmp(cmd, "seq")) {
      int prec = (int)strtol(p, &p, 10), pt = (int)strtol(p, &p, 10), psv = (int)strtol(p, &p, 10);
      long ri = strtol(p, &p, 10), mpr = strtol(p, &p, 10);
      int w = (int)strtol(p, &p, 10), h = (int)strtol(p, &p, 10), n, r;
      _JSAMPROW cur = scur, prev = sprev, t;
      while (*p == ' ') p++;
      if (*p == '|') p++;
      n = parse_list(&p, a1);
      if (n != w * h || w <= 0) { printf("?\n"); continue; }
      setup(prec, pt, psv, (unsigned)ri, (unsigned)mpr);
      if (setjmp(jb)) { printf("err\n"); continue; }
      c_start_pass_lossless(&cc);
      memset(sprev, 0, sizeof(_JSAMPLE) * w);
      printf("e");
      for (r = 0; r < h; r++) {
        for (i = 0; i < w; i++) stmp[i] = (_JSAMPLE)a1[r * w + i];
        (*lc.scaler_scale) (&cc, stmp, cur, (JDIMENSION)w);
        (*lc.predict_difference[0]) (&cc, 0, cur, prev, ddiff, (JDIMENSION)w);
        t = cur; cur = prev; prev = t;      /* SWAP_ROWS */
        if (r) printf(" ;");
        for (i = 0; i < w; i++) printf(" %d", ddiff[i]);
      }
      printf("\n");
    } else if (!strcmp(cmd, "scale")) {
      int bits = (int)strtol(p, &p, 10), prec = (int)strtol(p, &p, 10), pt = (int)strtol(p, &p, 10), n;
      (void)bits;
      while (*p == ' ') p++;
      if (*p == '|') p++;
      n = parse_list(&p, a1);
      setup(prec, pt, 1, 0, 1);
      if (setjmp(jb)) { printf("err\n"); continue; }
      c_start_pass_lossless(&cc);
      d_start_pass_lossless(&dc);
      for (i = 0; i < n; i++) stmp[i] = (_JSAMPLE)a1[i];
      if (n > 0) (*lc.scaler_scale) (&cc, stmp, scur, (JDIMENSION)n);
      printf("s");
      for (i = 0; i < n; i++) { printf(" %d", (int)scur[i]); ddiff[i] = (JDIFF)scur[i]; }
      if (n > 0) (*ld.scaler_scale) (&dc, ddiff, sprev, (JDIMENSION)n);
      printf(" |");
      for (i = 0; i < n; i++) printf(" %d", (int)sprev[i]);
      printf("\n");
    } else {
      printf("?\n");
    }
  }
  return 0;
}
