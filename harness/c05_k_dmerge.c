/* C05: merged upsampling of src/jdmerge.c (static) vs the jsimd dispatcher */
#define jinit_merged_upsampler c05_unused_jinit_merged_upsampler
#include "jdmerge.c"
#include "c05_k.h"
#include <string.h>
static struct jpeg_decompress_struct dc;
static struct jpeg_error_mgr derr;
extern unsigned char *c05_tiny_jpeg(unsigned long *len);
void c05_dmerge_init(void)
{
  unsigned long len; unsigned char *jpg = c05_tiny_jpeg(&len);
  dc.err = jpeg_std_error(&derr);
  jpeg_create_decompress(&dc);
  jpeg_mem_src(&dc, jpg, len);
  jpeg_read_header(&dc, TRUE);
  jpeg_start_decompress(&dc);
  dc.upsample = (struct jpeg_upsampler *)
    (*dc.mem->alloc_small) ((j_common_ptr)&dc, JPOOL_PERMANENT, sizeof(my_merged_upsampler));
  memset(dc.upsample, 0, sizeof(my_merged_upsampler));
  build_ycc_rgb_table(&dc);
}
void c05_merged(int simd, int v2, int cs, u8 *y0, u8 *y1, u8 *cb, u8 *cr, u8 *out0, u8 *out1, unsigned width)
{
  JSAMPROW out[2]; JSAMPROW p0[2], p1[1], p2[1]; JSAMPARRAY planes[3];
  out[0] = out0; out[1] = out1; p0[0] = y0; p0[1] = y1; p1[0] = cb; p2[0] = cr;
  planes[0] = p0; planes[1] = p1; planes[2] = p2;
  dc.output_width = width; dc.out_color_space = (J_COLOR_SPACE)cs;
  if (v2) { if (simd) jsimd_h2v2_merged_upsample(&dc, planes, 0, out); else h2v2_merged_upsample(&dc, planes, 0, out); }
  else    { if (simd) jsimd_h2v1_merged_upsample(&dc, planes, 0, out); else h2v1_merged_upsample(&dc, planes, 0, out); }
}
