/* C17 harness: drives the REAL compressor of the working tree with the parameter
 * sets read from stdin, one case per line, and prints one result line per case:
 *     <model-comparable part> # <oracle part>
 * The oracle part is produced by the library's own decompressor on the stream
 * the compressor returned:  len=N eoi=0/1 dec=WxHxC warn=N  |  decerr=<code>
 *
 *   setup W H INCOMP NCOMP PREC LOSSLESS RAW ARITH OPT SMOOTH RI RIR | h,v x10 | script
 *   blk PREC OPT DESTBUF | dcbits16 ; dcvals | acbits16 ; acvals | 64 coefs (natural order)
 *   coef PREC MODE POS VALUE           MODE 0 seq, 1 seq+opt, 2 progressive, 3 arithmetic
 *   qt PREC FORCE DCT DIRECT | 64 values
 *   tjset INIT PARAM VALUE
 *   tjc PREC W H PF SEED | param=value ...
 */
#include <stdio.h>
#include <stdlib.h>
#include <string.h>
#include <setjmp.h>
#include <unistd.h>
#include <signal.h>
#include "jpeglib.h"
#include "jerror.h"
#include "turbojpeg.h"

static jmp_buf jb;
static int last_err;
static char last_msg[JMSG_LENGTH_MAX];
static void my_exit(j_common_ptr c) { last_err = c->err->msg_code; (*c->err->format_message) (c, last_msg); longjmp(jb, 1); }
static void my_emit(j_common_ptr c, int lvl) { if (lvl < 0) c->err->num_warnings++; }
static void my_output(j_common_ptr c) { (void)c; }

static const char *err_name(int code)
{
  static char buf[32];
  switch (code) {
  case JERR_EMPTY_IMAGE: return "EmptyImage";
  case JERR_IMAGE_TOO_BIG: return "ImageTooBig";
  case JERR_WIDTH_OVERFLOW: return "WidthOverflow";
  case JERR_BAD_PRECISION: return "BadPrecision";
  case JERR_COMPONENT_COUNT: return "ComponentCount";
  case JERR_BAD_SAMPLING: return "BadSampling";
  case JERR_BAD_SCAN_SCRIPT: return "BadScanScript";
  case JERR_BAD_PROG_SCRIPT: return "BadProgScript";
  case JERR_MISSING_DATA: return "MissingData";
  case JERR_BAD_MCU_SIZE: return "BadMcuSize";
  case JERR_FRACT_SAMPLE_NOTIMPL: return "FractSample";
  case JERR_CONVERSION_NOTIMPL: return "ConversionNotImpl";
  case JERR_ARITH_NOTIMPL: return "ArithNotImpl";
  case JERR_BAD_DCT_COEF: return "BadDctCoef";
  case JERR_BAD_HUFF_TABLE: return "BadHuffTable";
  case JERR_NO_QUANT_TABLE: return "NoQuantTable";
  case JERR_NO_HUFF_TABLE: return "NoHuffTable";
  case JERR_HUFF_MISSING_CODE: return "MissingCode";
  case JERR_BAD_PROGRESSION: return "BadProgression";
  case JERR_BAD_RESTART: return strncmp(last_msg, "Invalid restart interval", 24) ? "BadRestartWrongText" : "BadRestart";
  case JERR_BAD_STATE: return "BadState";
  case JERR_BAD_J_COLORSPACE: return "BadJColorspace";
  case JERR_BAD_IN_COLORSPACE: return "BadInColorspace";
  case JERR_BAD_LENGTH: return "BadLength";
  case JERR_OUT_OF_MEMORY: return "OutOfMemory";
  default: snprintf(buf, sizeof(buf), "Other%d", code); return buf;
  }
}

/* ---------------------------------------------------------------- destination */
typedef struct {
  struct jpeg_destination_mgr pub;
  unsigned char *data; size_t len, cap;
  unsigned char *buf; size_t bufsize;
} my_dest;
static my_dest dest;

static void dest_append(my_dest *d, size_t n)
{
  if (d->len + n > d->cap) { d->cap = (d->len + n) * 2 + 4096; d->data = realloc(d->data, d->cap); }
  memcpy(d->data + d->len, d->buf, n); d->len += n;
}
static void d_init(j_compress_ptr c) { my_dest *d = (my_dest *)c->dest; d->len = 0; d->pub.next_output_byte = d->buf; d->pub.free_in_buffer = d->bufsize; }
static boolean d_empty(j_compress_ptr c) { my_dest *d = (my_dest *)c->dest; dest_append(d, d->bufsize); d->pub.next_output_byte = d->buf; d->pub.free_in_buffer = d->bufsize; return TRUE; }
/* guard zones behind every alloc_small block (pool slack would hide small overruns) */
#define GUARD 128
static void *(*orig_alloc_small) (j_common_ptr, int, size_t);
static struct { unsigned char *p; size_t n; } guards[2048]; static int nguards, guard_bad, guards_on;
static void *guard_alloc_small(j_common_ptr c, int pool, size_t size)
{
  unsigned char *p = (unsigned char *)(*orig_alloc_small) (c, pool, size + GUARD);
  memset(p + size, 0xA5, GUARD);
  if (pool == JPOOL_IMAGE && nguards < 2048) { guards[nguards].p = p; guards[nguards].n = size; nguards++; }
  return p;
}
static void check_guards(void)
{
  int i; size_t k;
  for (i = 0; i < nguards; i++) for (k = 0; k < GUARD; k++) if (guards[i].p[guards[i].n + k] != 0xA5) { guard_bad++; break; }
  nguards = 0;
}
static void d_term(j_compress_ptr c) { my_dest *d = (my_dest *)c->dest; dest_append(d, d->bufsize - d->pub.free_in_buffer); if (guards_on) check_guards(); }
static void set_dest(j_compress_ptr c, size_t bufsize)
{
  free(dest.buf); dest.bufsize = bufsize; dest.buf = malloc(bufsize);
  dest.pub.init_destination = d_init; dest.pub.empty_output_buffer = d_empty; dest.pub.term_destination = d_term;
  dest.len = 0; c->dest = &dest.pub;
}

/* --------------------------------------------------------------------- oracle */
static unsigned int prng;
static unsigned int rnd(void) { prng = prng * 1664525u + 1013904223u; return prng >> 8; }

/* decode `data` with the library's own decompressor; coefonly: jpeg_read_coefficients */
static void oracle(const unsigned char *data, size_t len, int coefonly, char *out, size_t outsz)
{
  struct jpeg_decompress_struct d; struct jpeg_error_mgr e;
  int eoi = len >= 2 && data[len - 2] == 0xFF && data[len - 1] == 0xD9;
  volatile int n = snprintf(out, outsz, "len=%lu eoi=%d ", (unsigned long)len, eoi);
  void *volatile rowbuf = NULL;
  d.err = jpeg_std_error(&e); e.error_exit = my_exit; e.emit_message = my_emit; e.output_message = my_output;
  jpeg_create_decompress(&d);
  if (setjmp(jb)) {
    snprintf(out + n, outsz - n, "decerr=%s", err_name(last_err));
    jpeg_destroy_decompress(&d); free(rowbuf); return;
  }
  jpeg_mem_src(&d, data, (unsigned long)len);
  jpeg_read_header(&d, TRUE);
  if (coefonly) {
    jpeg_read_coefficients(&d);
  } else {
    d.out_color_space = d.jpeg_color_space;          /* no colour conversion */
    if (d.jpeg_color_space == JCS_YCCK || d.jpeg_color_space == JCS_CMYK || d.jpeg_color_space == JCS_YCbCr ||
        d.jpeg_color_space == JCS_RGB || d.jpeg_color_space == JCS_GRAYSCALE || d.jpeg_color_space == JCS_UNKNOWN)
      ;
    jpeg_start_decompress(&d);
    {
      size_t rowlen = (size_t)d.output_width * d.output_components;
      rowbuf = malloc(rowlen * 2 + 16);
      while (d.output_scanline < d.output_height) {
        if (d.data_precision <= 8) { JSAMPROW r = (JSAMPROW)rowbuf; jpeg_read_scanlines(&d, &r, 1); }
        else if (d.data_precision <= 12) { J12SAMPROW r = (J12SAMPROW)rowbuf; jpeg12_read_scanlines(&d, &r, 1); }
        else { J16SAMPROW r = (J16SAMPROW)rowbuf; jpeg16_read_scanlines(&d, &r, 1); }
      }
    }
  }
  jpeg_finish_decompress(&d);
  snprintf(out + n, outsz - n, "dec=%ux%ux%d warn=%ld scans=%d", d.image_width, d.image_height, d.num_components, e.num_warnings, d.input_scan_number);
  jpeg_destroy_decompress(&d); free(rowbuf);
}

/* ------------------------------------------------------------------- parsing */
static char line[1 << 16];
static char *skip_bar(char *p) { while (*p == ' ') p++; if (*p == '|') p++; return p; }
static long nextl(char **pp) { return strtol(*pp, pp, 10); }

static struct jpeg_compress_struct cc;
static struct jpeg_error_mgr ce;
static jpeg_scan_info scans[64];

static void fresh_compress(void)
{
  memset(&cc, 0, sizeof(cc));
  cc.err = jpeg_std_error(&ce); ce.error_exit = my_exit; ce.emit_message = my_emit; ce.output_message = my_output;
  jpeg_create_compress(&cc);
}

/* feed the whole image (random samples) */
static int raw_lines_mode = 0;
static void feed_image(j_compress_ptr c)
{
  int prec = c->data_precision;
  if (c->raw_data_in) {
    int ci, r; JDIMENSION lines = c->max_v_samp_factor * DCTSIZE;
    void *planes[MAX_COMPONENTS]; void *rows[MAX_COMPONENTS][MAX_SAMP_FACTOR * DCTSIZE];
    void *img[MAX_COMPONENTS];
    for (ci = 0; ci < c->num_components; ci++) {
      jpeg_component_info *cp = &c->comp_info[ci];
      size_t w = (size_t)cp->width_in_blocks * DCTSIZE, nr = cp->v_samp_factor * DCTSIZE, k;
      planes[ci] = malloc(w * nr * 2 + 16);
      for (k = 0; k < w * nr; k++) { if (prec <= 8) ((unsigned char *)planes[ci])[k] = rnd() & 0xFF; else ((short *)planes[ci])[k] = rnd() & ((1 << prec) - 1); }
      for (r = 0; r < (int)nr; r++) rows[ci][r] = (char *)planes[ci] + (size_t)r * w * (prec <= 8 ? 1 : 2);
      img[ci] = rows[ci];
    }
    /* the documented caller loop: offer num_lines (>= one iMCU row), advance by what the library accounts for */
    if (raw_lines_mode == 1) lines *= 2; else if (raw_lines_mode == 2) lines *= 3;
    else if (raw_lines_mode == 3) lines = c->image_height > lines ? c->image_height : lines; else if (raw_lines_mode == 4) lines += 1;
    while (c->next_scanline < c->image_height) {
      JDIMENSION got;
      for (ci = 0; ci < c->num_components; ci++) {      /* fresh samples for every iMCU row */
        jpeg_component_info *cp = &c->comp_info[ci];
        size_t w = (size_t)cp->width_in_blocks * DCTSIZE, nr = cp->v_samp_factor * DCTSIZE, k;
        for (k = 0; k < w * nr; k++) { if (prec <= 8) ((unsigned char *)planes[ci])[k] = rnd() & 0xFF; else ((short *)planes[ci])[k] = rnd() & ((1 << prec) - 1); }
      }
      if (prec <= 8) got = jpeg_write_raw_data(c, (JSAMPIMAGE)img, lines);
      else got = jpeg12_write_raw_data(c, (J12SAMPIMAGE)img, lines);
      if (got == 0) break;
    }
    for (ci = 0; ci < c->num_components; ci++) free(planes[ci]);
  } else {
    size_t rowlen = (size_t)c->image_width * c->input_components, k;
    void *row = malloc(rowlen * 2 + 16);
    int mask = (1 << prec) - 1;
    while (c->next_scanline < c->image_height) {
      if (prec <= 8) { for (k = 0; k < rowlen; k++) ((unsigned char *)row)[k] = rnd() & mask; { JSAMPROW r = row; jpeg_write_scanlines(c, &r, 1); } }
      else if (prec <= 12) { for (k = 0; k < rowlen; k++) ((short *)row)[k] = rnd() & mask; { J12SAMPROW r = row; jpeg12_write_scanlines(c, &r, 1); } }
      else { for (k = 0; k < rowlen; k++) ((unsigned short *)row)[k] = rnd() & mask; { J16SAMPROW r = row; jpeg16_write_scanlines(c, &r, 1); } }
    }
    free(row);
  }
}

static void print_oracle(int coefonly, unsigned w, unsigned h, int nc)
{
  char ob[256];
  oracle(dest.data, dest.len, coefonly, ob, sizeof(ob));
  printf(" # %s exp=%ux%ux%d\n", ob, w, h, nc);
}


/* ------------------------------------------------- exact-sample oracle (lossless) */
/* decode and compare every sample with exp16 (already reduced to what the decoder must return) */
static void oracle_exact(const unsigned char *data, size_t len, const unsigned short *exp16, unsigned w, unsigned h, int nc,
                         char *out, size_t outsz)
{
  struct jpeg_decompress_struct d; struct jpeg_error_mgr e;
  int eoi = len >= 2 && data[len - 2] == 0xFF && data[len - 1] == 0xD9;
  volatile int n = snprintf(out, outsz, "len=%lu eoi=%d ", (unsigned long)len, eoi);
  void *volatile rowbuf = NULL; volatile long nbad = 0;
  d.err = jpeg_std_error(&e); e.error_exit = my_exit; e.emit_message = my_emit; e.output_message = my_output;
  jpeg_create_decompress(&d);
  if (setjmp(jb)) { snprintf(out + n, outsz - n, "decerr=%s", err_name(last_err)); jpeg_destroy_decompress(&d); free(rowbuf); return; }
  jpeg_mem_src(&d, data, (unsigned long)len);
  jpeg_read_header(&d, TRUE);
  d.out_color_space = d.jpeg_color_space;
  jpeg_start_decompress(&d);
  {
    size_t rowlen = (size_t)d.output_width * d.output_components, k;
    rowbuf = malloc(rowlen * 2 + 16);
    while (d.output_scanline < d.output_height) {
      unsigned y = d.output_scanline;
      if (d.data_precision <= 8) { JSAMPROW r = (JSAMPROW)rowbuf; jpeg_read_scanlines(&d, &r, 1); }
      else if (d.data_precision <= 12) { J12SAMPROW r = (J12SAMPROW)rowbuf; jpeg12_read_scanlines(&d, &r, 1); }
      else { J16SAMPROW r = (J16SAMPROW)rowbuf; jpeg16_read_scanlines(&d, &r, 1); }
      if (d.output_width == w && d.output_components == nc && y < h)
        for (k = 0; k < rowlen; k++) {
          unsigned got = d.data_precision <= 8 ? ((unsigned char *)rowbuf)[k] : ((unsigned short *)rowbuf)[k];
          if (got != exp16[(size_t)y * rowlen + k]) nbad++;
        }
    }
  }
  jpeg_finish_decompress(&d);
  snprintf(out + n, outsz - n, "dec=%ux%ux%d warn=%ld scans=%d exact=%d", d.image_width, d.image_height, d.num_components,
           e.num_warnings, d.input_scan_number, nbad == 0);
  jpeg_destroy_decompress(&d); free(rowbuf);
}

/* engineered samples: every difference category, incl. 2^(prec-1) steps (category 16 at 16 bits) */
static void make_samples(unsigned short *img, unsigned w, unsigned h, int nc, int prec, int pattern)
{
  unsigned x, y; int c; unsigned max = (1u << prec) - 1, half = 1u << (prec - 1), acc = 0, k = 0;
  for (y = 0; y < h; y++) for (x = 0; x < w; x++) for (c = 0; c < nc; c++) {
    unsigned v;
    switch (pattern) {
    case 0: v = rnd(); break;
    case 1: v = ((x + y + c) & 1) ? max : 0; break;                       /* +-max */
    case 2: v = (1000 + 3 * y + c) + ((x & 1) ? half : 0); break;          /* +-2^(prec-1) horizontally */
    case 3: v = (x * 7 + y) + ((x % 4 == 3) ? half : 0); break;            /* ramp, every 4th column offset */
    case 4: acc += ((k & 1) ? (unsigned)-(int)(1u << (k % prec)) : (1u << (k % prec))) + (k % 3); k++; v = acc; break; /* every category */
    case 5: v = half; break;                                              /* constant */
    case 6: v = (500 + x + c) + ((y & 1) ? half : 0); break;               /* +-2^(prec-1) vertically */
    case 7: v = ((x / 2 + y) & 1) ? half : 0; break;                       /* 0 / 2^(prec-1) blocks */
    default: v = (x == 0 || y == 0) ? max : ((x + y) & 1 ? half + 1 : 1); break;
    }
    img[((size_t)y * w + x) * nc + c] = (unsigned short)(v & max);
  }
}

/* ll API PREC PSV PT W H NC RI PATTERN SEED : lossless compression of engineered samples */
static void do_ll(char *p)
{
  int api = (int)nextl(&p), prec = (int)nextl(&p), psv = (int)nextl(&p), pt = (int)nextl(&p);
  unsigned W = (unsigned)nextl(&p), H = (unsigned)nextl(&p); int nc = (int)nextl(&p), ri = (int)nextl(&p);
  int pattern = (int)nextl(&p); char ob[300]; size_t n = (size_t)W * H * nc, k;
  unsigned short *img, *expd; unsigned char *img8 = NULL;
  prng = (unsigned)nextl(&p);
  if (prec < 2 || prec > 16 || nc < 1 || nc > 4 || n == 0 || n > (1u << 24)) { printf("skip # -\n"); return; }
  img = malloc(n * 2 + 16); expd = malloc(n * 2 + 16);
  make_samples(img, W, H, nc, prec, pattern);
  for (k = 0; k < n; k++) expd[k] = (pt >= 0 && pt < 16) ? (unsigned short)((img[k] >> pt) << pt) : img[k];
  if (prec <= 8) { img8 = malloc(n + 16); for (k = 0; k < n; k++) img8[k] = (unsigned char)img[k]; }
  if (api == 1) {
    tjhandle h = tj3Init(TJINIT_COMPRESS); unsigned char *jpg = NULL; size_t jsz = 0; int r, pf = nc == 1 ? TJPF_GRAY : nc == 3 ? TJPF_RGB : TJPF_CMYK;
    if (nc == 2) { printf("skip # -\n"); goto done; }
    tj3Set(h, TJPARAM_PRECISION, prec); tj3Set(h, TJPARAM_LOSSLESS, 1);
    r = tj3Set(h, TJPARAM_LOSSLESSPSV, psv) | tj3Set(h, TJPARAM_LOSSLESSPT, pt) | (ri ? tj3Set(h, TJPARAM_RESTARTROWS, ri) : 0);
    if (r == 0) {
      if (prec <= 8) r = tj3Compress8(h, img8, W, 0, H, pf, &jpg, &jsz);
      else if (prec <= 12) r = tj3Compress12(h, (short *)img, W, 0, H, pf, &jpg, &jsz);
      else r = tj3Compress16(h, img, W, 0, H, pf, &jpg, &jsz);
    }
    if (r != 0) printf("any # tjerr\n");
    else { oracle_exact(jpg, jsz, expd, W, H, nc, ob, sizeof(ob)); printf("any # %s exp=%ux%ux%d\n", ob, W, H, nc); }
    tj3Free(jpg); tj3Destroy(h);
  } else {
    fresh_compress();
    if (setjmp(jb)) { printf("err %s # -\n", err_name(last_err)); jpeg_destroy_compress(&cc); goto done; }
    set_dest(&cc, 4096);
    cc.image_width = W; cc.image_height = H; cc.input_components = nc;
    cc.in_color_space = nc == 1 ? JCS_GRAYSCALE : nc == 3 ? JCS_RGB : JCS_UNKNOWN;
    cc.data_precision = prec;
    jpeg_set_defaults(&cc);
    jpeg_enable_lossless(&cc, psv, pt);
    cc.restart_in_rows = ri;
    jpeg_start_compress(&cc, TRUE);
    while (cc.next_scanline < cc.image_height) {
      size_t off = (size_t)cc.next_scanline * W * nc;
      if (prec <= 8) { JSAMPROW r = img8 + off; jpeg_write_scanlines(&cc, &r, 1); }
      else if (prec <= 12) { J12SAMPROW r = (J12SAMPROW)(img + off); jpeg12_write_scanlines(&cc, &r, 1); }
      else { J16SAMPROW r = img + off; jpeg16_write_scanlines(&cc, &r, 1); }
    }
    jpeg_finish_compress(&cc);
    jpeg_destroy_compress(&cc);
    oracle_exact(dest.data, dest.len, expd, W, H, nc, ob, sizeof(ob));
    printf("ok # %s exp=%ux%ux%d\n", ob, W, H, nc);
  }
done:
  free(img); free(expd); free(img8);
}

/* --------------------------------------------- several images on ONE compression object */
static int oracle_bad(const char *ob, unsigned w, unsigned h, int nc)
{
  char want[64];
  snprintf(want, sizeof(want), "dec=%ux%ux%d warn=0 ", w, h, nc);
  return !(strstr(ob, "eoi=1") && strstr(ob, want));
}

/* seq FILLER | CS NC PROG OPT PREC W H ; ...   CS 0 gray, 1 RGB->YCbCr, 2 CMYK, 3 CMYK->YCCK, 4 unknown(NC), 5 RGB->RGB */
static void do_seq(char *p)
{
  int filler = (int)nextl(&p), first = 1; char worst[300] = "", ob[300] = "-"; unsigned ew = 0, eh = 0; int enc = 0, anybad = 0;
  volatile int alive = 1;
  p = skip_bar(p);
  fresh_compress();
  if (setjmp(jb)) { printf("%serr %s # -\n", first ? "" : " ; ", err_name(last_err)); jpeg_destroy_compress(&cc); return; }
  if (filler > 0) (void)(*cc.mem->alloc_small) ((j_common_ptr)&cc, JPOOL_PERMANENT, (size_t)filler);
  for (;;) {
    int cs, nc, prog, opt, prec, i; unsigned W, H;
    while (*p == ' ' || *p == ';') p++;
    if (*p == 0 || *p == '\n') break;
    cs = (int)nextl(&p); nc = (int)nextl(&p); prog = (int)nextl(&p); opt = (int)nextl(&p); prec = (int)nextl(&p);
    W = (unsigned)nextl(&p); H = (unsigned)nextl(&p);
    prng = (unsigned)(cs * 131 + nc * 17 + W);
    if (setjmp(jb)) {       /* an error aborts this image only; the object is re-used */
      printf("%simg err %s", first ? "" : " ; ", err_name(last_err)); first = 0;
      jpeg_abort_compress(&cc);
      continue;
    }
    set_dest(&cc, 4096);
    cc.image_width = W; cc.image_height = H;
    cc.input_components = cs == 0 ? 1 : (cs == 1 || cs == 5) ? 3 : (cs == 2 || cs == 3) ? 4 : nc;
    cc.in_color_space = cs == 0 ? JCS_GRAYSCALE : (cs == 1 || cs == 5) ? JCS_RGB : (cs == 2 || cs == 3) ? JCS_CMYK : JCS_UNKNOWN;
    cc.data_precision = prec;
    jpeg_set_defaults(&cc);
    if (cs == 3) jpeg_set_colorspace(&cc, JCS_YCCK);
    if (cs == 5) jpeg_set_colorspace(&cc, JCS_RGB);
    cc.optimize_coding = (boolean)opt;
    if (prog) jpeg_simple_progression(&cc);
    printf("%simg ns=%d", first ? "" : " ; ", prog ? cc.num_scans : 1); first = 0;
    if (prog) {
      int k;
      for (k = 0; k < cc.num_scans; k++) {
        const jpeg_scan_info *s = &cc.scan_info[k];
        printf(" %d:", s->comps_in_scan);
        for (i = 0; i < s->comps_in_scan && i < MAX_COMPS_IN_SCAN; i++) printf("%s%d", i ? "," : "", s->component_index[i]);
        printf(":%d:%d:%d:%d", s->Ss, s->Se, s->Ah, s->Al);
      }
    }
    jpeg_start_compress(&cc, TRUE);
    feed_image(&cc);
    jpeg_finish_compress(&cc);
    printf(" ok");
    oracle(dest.data, dest.len, 0, ob, sizeof(ob));
    if (oracle_bad(ob, W, H, cc.num_components) && !anybad) { anybad = 1; strcpy(worst, ob); ew = W; eh = H; enc = cc.num_components; }
    if (!anybad) { ew = W; eh = H; enc = cc.num_components; }
  }
  jpeg_destroy_compress(&cc);
  (void)alive;
  if (ob[0] == '-') printf(" # -\n");
  else printf(" # %s exp=%ux%ux%d\n", anybad ? worst : ob, ew, eh, enc);
}

/* tjseq | PREC W H PF SEED params... ; ...  : several images on ONE TurboJPEG handle */
static void do_tjseq(char *p)
{
  tjhandle h = tj3Init(TJINIT_COMPRESS); char worst[300] = "", ob[300] = "-"; int anybad = 0, W = 0, H = 0, eW = 0, eH = 0;
  p = skip_bar(p);
  for (;;) {
    int prec, pf, seed, r; unsigned char *jpg = NULL; size_t jsz = 0, n, k; void *img;
    while (*p == ' ' || *p == ';') p++;
    if (*p == 0 || *p == '\n') break;
    prec = (int)nextl(&p); W = (int)nextl(&p); H = (int)nextl(&p); pf = (int)nextl(&p); seed = (int)nextl(&p);
    for (;;) {
      int par, val;
      while (*p == ' ') p++;
      if (*p == ';' || *p == 0 || *p == '\n') break;
      par = (int)strtol(p, &p, 10); if (*p == '=') p++; val = (int)strtol(p, &p, 10);
      tj3Set(h, par, val);
    }
    prng = (unsigned)seed;
    n = (size_t)W * H * tjPixelSize[pf];
    img = malloc(n * 2 + 16);
    for (k = 0; k < n; k++) { if (prec <= 8) ((unsigned char *)img)[k] = rnd() & ((1 << prec) - 1); else ((unsigned short *)img)[k] = rnd() & ((1 << prec) - 1); }
    if (prec <= 8) r = tj3Compress8(h, img, W, 0, H, pf, &jpg, &jsz);
    else if (prec <= 12) r = tj3Compress12(h, img, W, 0, H, pf, &jpg, &jsz);
    else r = tj3Compress16(h, img, W, 0, H, pf, &jpg, &jsz);
    free(img);
    if (r == 0) {
      oracle(jpg, jsz, 0, ob, sizeof(ob));
      if (!anybad) { eW = W; eH = H; }
      if (!(strstr(ob, "eoi=1") && strstr(ob, "warn=0 ")) && !anybad) { anybad = 1; strcpy(worst, ob); }
    }
    else if (getenv("C17_DEBUG")) fprintf(stderr, "tjseq: %s\n", tj3GetErrorStr(h));
    tj3Free(jpg);
  }
  tj3Destroy(h);
  if (ob[0] == '-') printf("any # tjerr\n");
  else printf("any # %s exp=%dx%dx0\n", anybad ? worst : ob, eW, eH);
}

/* ---------------------------------------------------------------- setup stream */
static int quiet = 0, no_restart = 0, setup_nc, setup_raw, setup_opt; static unsigned setup_w, setup_h;
static struct jpeg_progress_mgr prog; static int pass_seen[256], npass_seen, pass_total;
static void prog_mon(j_common_ptr c)
{
  struct jpeg_progress_mgr *p = c->progress;
  if (npass_seen == 0 || pass_seen[npass_seen - 1] != p->completed_passes) { if (npass_seen < 256) pass_seen[npass_seen++] = p->completed_passes; }
  pass_total = p->total_passes;
}
#define OUT if (!quiet) printf
static int do_setup(char *p)
{
  long W = nextl(&p), H = nextl(&p), incomp = nextl(&p), ncomp = nextl(&p), prec = nextl(&p);
  long lossless = nextl(&p), raw = nextl(&p), arith = nextl(&p), opt = nextl(&p), smooth = nextl(&p);
  long ri = nextl(&p), rir = nextl(&p);
  int hv[MAX_COMPONENTS][2], i, ns = 0; volatile int started = 0;
  p = skip_bar(p);
  for (i = 0; i < MAX_COMPONENTS; i++) { hv[i][0] = (int)strtol(p, &p, 10); if (*p == ',') p++; hv[i][1] = (int)strtol(p, &p, 10); }
  p = skip_bar(p);
  while (*p == ' ') p++;
  if (*p != '-') {
    while (*p && *p != '\n' && ns < 64) {
      jpeg_scan_info *s = &scans[ns];
      s->comps_in_scan = (int)strtol(p, &p, 10); p++;
      for (i = 0; i < MAX_COMPS_IN_SCAN; i++) { s->component_index[i] = (int)strtol(p, &p, 10); if (*p == ',') p++; }
      p++; s->Ss = (int)strtol(p, &p, 10); p++; s->Se = (int)strtol(p, &p, 10); p++; s->Ah = (int)strtol(p, &p, 10); p++; s->Al = (int)strtol(p, &p, 10);
      ns++;
      while (*p == ' ') p++;
    }
  }
  prng = (unsigned)(W * 31 + H * 17 + ncomp);
  fresh_compress();
  if (setjmp(jb)) {
    if (started) { OUT(" ; err %s", err_name(last_err)); } else { OUT("err %s", err_name(last_err)); }
    jpeg_destroy_compress(&cc); return 0;
  }
  set_dest(&cc, 4096);
  /* defaults with a valid component count, then every field written directly */
  cc.image_width = 8; cc.image_height = 8; cc.input_components = 3; cc.in_color_space = JCS_UNKNOWN;
  cc.data_precision = (int)prec;
  jpeg_set_defaults(&cc);
  cc.image_width = (JDIMENSION)W; cc.image_height = (JDIMENSION)H;
  cc.input_components = (int)incomp; cc.num_components = (int)ncomp;
  for (i = 0; i < MAX_COMPONENTS; i++) {
    jpeg_component_info *cp = &cc.comp_info[i];
    memset(cp, 0, sizeof(*cp));
    cp->component_id = i; cp->h_samp_factor = hv[i][0]; cp->v_samp_factor = hv[i][1];
    cp->quant_tbl_no = 0; cp->dc_tbl_no = 0; cp->ac_tbl_no = 0;
  }
  if (lossless) jpeg_enable_lossless(&cc, 1, 0);
  if (ns) { cc.scan_info = scans; cc.num_scans = ns; }
  cc.restart_interval = no_restart ? 0 : (unsigned int)ri; cc.restart_in_rows = no_restart ? 0 : (int)rir;
  cc.raw_data_in = (boolean)raw; cc.arith_code = (boolean)arith; cc.optimize_coding = (boolean)opt;
  cc.smoothing_factor = (int)smooth;
  prog.progress_monitor = prog_mon; npass_seen = 0; pass_total = 0; cc.progress = &prog;
  jpeg_start_compress(&cc, TRUE);
  started = 1; setup_opt = cc.optimize_coding;
  OUT("start %d %d %u |", cc.max_h_samp_factor, cc.max_v_samp_factor, cc.total_iMCU_rows);
  for (i = 0; i < cc.num_components; i++) OUT(" %u,%u", cc.comp_info[i].width_in_blocks, cc.comp_info[i].height_in_blocks);
  OUT(" | %d %u %u %u |", cc.blocks_in_MCU, cc.MCUs_per_row, cc.MCU_rows_in_scan, cc.restart_interval);
  for (i = 0; i < cc.blocks_in_MCU; i++) OUT(" %d", cc.MCU_membership[i]);
  feed_image(&cc);
  jpeg_finish_compress(&cc);
  OUT(" ; ok");
  setup_w = cc.image_width; setup_h = cc.image_height; setup_nc = cc.num_components; setup_raw = cc.raw_data_in;
  jpeg_destroy_compress(&cc);
  return 1;
}


/* coefficient arrays of two streams equal?  1 yes, 0 no, -1 a stream cannot be read */
static int same_coefficients(const unsigned char *a, size_t la, const unsigned char *b, size_t lb)
{
  struct jpeg_decompress_struct d[2]; struct jpeg_error_mgr e[2]; jvirt_barray_ptr *co[2]; volatile int made = 0; int k, ci, res = 1;
  if (setjmp(jb)) { for (k = 0; k < made; k++) jpeg_destroy_decompress(&d[k]); return -1; }
  for (k = 0; k < 2; k++) {
    d[k].err = jpeg_std_error(&e[k]); e[k].error_exit = my_exit; e[k].emit_message = my_emit; e[k].output_message = my_output;
    jpeg_create_decompress(&d[k]); made = k + 1;
    jpeg_mem_src(&d[k], k ? b : a, (unsigned long)(k ? lb : la));
    jpeg_read_header(&d[k], TRUE);
    co[k] = jpeg_read_coefficients(&d[k]);
  }
  if (d[0].num_components != d[1].num_components) res = 0;
  for (ci = 0; res && ci < d[0].num_components; ci++) {
    jpeg_component_info *c0 = &d[0].comp_info[ci], *c1 = &d[1].comp_info[ci]; JDIMENSION r;
    if (c0->width_in_blocks != c1->width_in_blocks || c0->height_in_blocks != c1->height_in_blocks) { res = 0; break; }
    for (r = 0; res && r < c0->height_in_blocks; r++) {
      JBLOCKARRAY r0 = (*d[0].mem->access_virt_barray) ((j_common_ptr)&d[0], co[0][ci], r, 1, FALSE);
      JBLOCKARRAY r1 = (*d[1].mem->access_virt_barray) ((j_common_ptr)&d[1], co[1][ci], r, 1, FALSE);
      if (memcmp(r0[0], r1[0], (size_t)c0->width_in_blocks * sizeof(JBLOCK))) res = 0;
    }
  }
  for (k = 0; k < 2; k++) jpeg_destroy_decompress(&d[k]);
  return res;
}

/* restart interval in force (last DRI, 0 = none) at every SOS of the stream */
static void print_dri(const unsigned char *s, size_t n)
{
  size_t i = 2; unsigned dri = 0; int first = 1;
  printf(" dri=");
  while (i + 3 < n) {
    int m; size_t l;
    if (s[i] != 0xFF) { i++; continue; }
    m = s[i + 1];
    if (m == 0xFF) { i++; continue; }
    if (m == 0xD9) break;
    if (m == 0x00 || (m >= 0xD0 && m <= 0xD7) || m == 0x01) { i += 2; continue; }
    l = ((size_t)s[i + 2] << 8) | s[i + 3];
    if (m == 0xDD && i + 5 < n) dri = ((unsigned)s[i + 4] << 8) | s[i + 5];
    if (m == 0xDA) { printf("%s%u", first ? "" : ",", dri); first = 0; }
    i += 2 + l;
  }
}

/* every marker segment in hex, entropy-coded data as '|'; DHT payloads elided when the tables were computed by the library */
static void print_skeleton(const unsigned char *s, size_t n, int elide_dht)
{
  size_t i = 2, k; int k2;
  printf(" hdr=ffd8");
  while (i + 1 < n) {
    int m; size_t l;
    if (s[i] != 0xFF) break;
    m = s[i + 1];
    if (m == 0xD9) { printf("ffd9"); break; }
    if (i + 3 >= n) break;
    l = ((size_t)s[i + 2] << 8) | s[i + 3];
    if (m == 0xC4 && elide_dht) printf("ffc4%02x..", s[i + 4]);
    else for (k = i; k < i + 2 + l && k < n; k++) printf("%02x", s[k]);
    i += 2 + l;
    if (m == 0xDA) {          /* entropy-coded segment: up to the next marker that is not RSTn / stuffing */
      printf("|");
      while (i + 1 < n && !(s[i] == 0xFF && s[i + 1] != 0x00 && s[i + 1] != 0xFF && !(s[i + 1] >= 0xD0 && s[i + 1] <= 0xD7))) i++;
    }
  }
  printf(" passes=%d:", pass_total);
  for (k2 = 0; k2 < npass_seen; k2++) printf("%s%d", k2 ? "," : "", pass_seen[k2]);
}

/* variant 0: setup.  1: rst = also encode without restarts and compare the coefficients.
   2: raw MODE ... = raw-data input offering MODE-dependent num_lines; reference = one iMCU row per call */
static void do_setup_variant(char *p, int variant)
{
  unsigned char *ref = NULL; size_t reflen = 0; int ok;
  raw_lines_mode = 0; no_restart = 0; quiet = 0;
  if (variant == 2) raw_lines_mode = (int)strtol(p, &p, 10);
  if (variant == 1 || variant == 2) {
    int keep = raw_lines_mode;
    quiet = 1; if (variant == 1) no_restart = 1; else raw_lines_mode = 0;
    if (do_setup(p)) { reflen = dest.len; ref = malloc(reflen + 1); memcpy(ref, dest.data, reflen); }
    quiet = 0; no_restart = 0; raw_lines_mode = keep;
  }
  ok = do_setup(p);
  raw_lines_mode = 0;
  if (!ok) { printf(" # -\n"); free(ref); return; }
  if (variant == 1) print_dri(dest.data, dest.len);
  if (variant == 3) print_skeleton(dest.data, dest.len, setup_opt);
  {
    char ob[256];
    oracle(dest.data, dest.len, setup_raw, ob, sizeof(ob));
    printf(" # %s exp=%ux%ux%d", ob, setup_w, setup_h, setup_nc);
    if (variant == 1 || variant == 2) printf(" same=%d", ref ? same_coefficients(ref, reflen, dest.data, dest.len) : -2);
    printf("\n");
  }
  free(ref);
}

/* ------------------------------------------------------------ coefficient input */
static void parse_tbl(char **pp, JHUFF_TBL *t)
{
  char *p = *pp; int i, n = 0;
  memset(t->bits, 0, sizeof(t->bits)); memset(t->huffval, 0, sizeof(t->huffval));
  for (i = 1; i <= 16; i++) t->bits[i] = (UINT8)strtol(p, &p, 10);
  while (*p == ' ') p++;
  if (*p == ';') p++;
  for (;;) {
    while (*p == ' ') p++;
    if (*p == '|' || *p == 0 || *p == '\n') break;
    { long v = strtol(p, &p, 10); if (n < 256) t->huffval[n++] = (UINT8)v; }
  }
  *pp = p;
}

/* one 8x8 grayscale block through jpeg_write_coefficients */
static void run_coefs(int prec, int mode, int destbuf, JHUFF_TBL *dct, JHUFF_TBL *act, const short *block, int want_scan)
{
  jvirt_barray_ptr arr[1]; volatile int phase = 0;
  fresh_compress();
  if (setjmp(jb)) { printf("err %s # -\n", err_name(last_err)); jpeg_destroy_compress(&cc); return; }
  set_dest(&cc, destbuf);
  cc.image_width = 8; cc.image_height = 8; cc.input_components = 1; cc.in_color_space = JCS_GRAYSCALE;
  cc.data_precision = prec;
  jpeg_set_defaults(&cc);
  if (dct) { *cc.dc_huff_tbl_ptrs[0] = *dct; cc.dc_huff_tbl_ptrs[0]->sent_table = FALSE; }
  if (act) { *cc.ac_huff_tbl_ptrs[0] = *act; cc.ac_huff_tbl_ptrs[0]->sent_table = FALSE; }
  cc.optimize_coding = (mode == 1);
  if (mode == 2) jpeg_simple_progression(&cc);
  if (mode == 3) cc.arith_code = TRUE;
  arr[0] = (*cc.mem->request_virt_barray) ((j_common_ptr)&cc, JPOOL_IMAGE, TRUE, 1, 1, 1);
  jpeg_write_coefficients(&cc, arr);
  {
    JBLOCKARRAY ba = (*cc.mem->access_virt_barray) ((j_common_ptr)&cc, arr[0], 0, 1, TRUE);
    memcpy(ba[0][0], block, sizeof(JBLOCK));
  }
  jpeg_finish_compress(&cc);
  jpeg_destroy_compress(&cc);
  printf("ok");
  if (want_scan) {
    /* entropy-coded segment: after the last SOS header up to the EOI */
    size_t i, sos = 0;
    for (i = 2; i + 3 < dest.len; ) {
      if (dest.data[i] != 0xFF) break;
      { int m = dest.data[i + 1]; size_t l = ((size_t)dest.data[i + 2] << 8) | dest.data[i + 3];
        if (m == 0xDA) { sos = i + 2 + l; break; }
        i += 2 + l; }
    }
    printf(" ");
    if (sos) for (i = sos; i + 2 <= dest.len - 0 && i < dest.len - 2; i++) printf("%02x", dest.data[i]);
  }
  (void)phase;
  print_oracle(0, 8, 8, 1);
}

static void do_blk(char *p)
{
  int prec = (int)nextl(&p), opt = (int)nextl(&p), destbuf = (int)nextl(&p), i;
  JHUFF_TBL dct, act; short block[64];
  p = skip_bar(p); parse_tbl(&p, &dct);
  p = skip_bar(p); parse_tbl(&p, &act);
  p = skip_bar(p);
  for (i = 0; i < 64; i++) block[i] = (short)strtol(p, &p, 10);
  run_coefs(prec, opt ? 1 : 0, destbuf, &dct, &act, block, !opt);
}

static void do_coef(char *p)
{
  int prec = (int)nextl(&p), mode = (int)nextl(&p), pos = (int)nextl(&p), v = (int)nextl(&p);
  short block[64];
  memset(block, 0, sizeof(block));
  block[pos & 63] = (short)v;
  run_coefs(prec, mode, 4096, NULL, NULL, block, 0);
}

/* tn PATH WHICH IDX ARITH OPT MODE : table numbers of a component at and beyond their limits
   PATH 0 compress, 1 jpeg_write_coefficients; WHICH 0 quant_tbl_no, 1 dc_tbl_no, 2 ac_tbl_no;
   MODE 0 sequential, 1 progressive (jpeg_simple_progression), 2 lossless (jpeg_enable_lossless) */
static void do_tn(char *p)
{
  int path = (int)nextl(&p), which = (int)nextl(&p), idx = (int)nextl(&p), arith = (int)nextl(&p), opt = (int)nextl(&p), mode = (int)nextl(&p);
  jvirt_barray_ptr arr[1];
  prng = 77;
  fresh_compress();
  if (setjmp(jb)) { printf("err %s # -\n", err_name(last_err)); jpeg_destroy_compress(&cc); return; }
  set_dest(&cc, 4096);
  cc.image_width = 8; cc.image_height = 8; cc.input_components = 1; cc.in_color_space = JCS_GRAYSCALE;
  jpeg_set_defaults(&cc);
  if (mode == 1) jpeg_simple_progression(&cc);
  if (mode == 2) jpeg_enable_lossless(&cc, 1, 0);
  if (which == 0) cc.comp_info[0].quant_tbl_no = idx; else if (which == 1) cc.comp_info[0].dc_tbl_no = idx; else cc.comp_info[0].ac_tbl_no = idx;
  cc.arith_code = (boolean)arith; cc.optimize_coding = (boolean)opt;
  if (path == 0) { jpeg_start_compress(&cc, TRUE); feed_image(&cc); }
  else {
    arr[0] = (*cc.mem->request_virt_barray) ((j_common_ptr)&cc, JPOOL_IMAGE, TRUE, 1, 1, 1);
    jpeg_write_coefficients(&cc, arr);
  }
  jpeg_finish_compress(&cc);
  jpeg_destroy_compress(&cc);
  printf("ok");
  print_oracle(0, 8, 8, 1);
}

/* wt NC ARITH OPT PROG : jpeg_write_tables, then jpeg_start_compress(write_all_tables = FALSE) on the same object;
   the oracle reads both datastreams with ONE decompression object */
static void skeleton_only(const unsigned char *s, size_t n, int elide_dht)
{
  size_t i = 2, k;
  printf("ffd8");
  while (i + 1 < n) {
    int m; size_t l;
    if (s[i] != 0xFF) break;
    m = s[i + 1];
    if (m == 0xD9) { printf("ffd9"); break; }
    if (i + 3 >= n) break;
    l = ((size_t)s[i + 2] << 8) | s[i + 3];
    if (m == 0xC4 && elide_dht) printf("ffc4%02x..", s[i + 4]);
    else for (k = i; k < i + 2 + l && k < n; k++) printf("%02x", s[k]);
    i += 2 + l;
    if (m == 0xDA) { printf("|"); while (i + 1 < n && !(s[i] == 0xFF && s[i + 1] != 0x00 && s[i + 1] != 0xFF && !(s[i + 1] >= 0xD0 && s[i + 1] <= 0xD7))) i++; }
  }
}
static void do_wt(char *p)
{
  int nc = (int)nextl(&p), arith = (int)nextl(&p), opt = (int)nextl(&p), prog = (int)nextl(&p);
  unsigned char *A = NULL; size_t la = 0; int optim;
  struct jpeg_decompress_struct d; struct jpeg_error_mgr e; void *volatile rowbuf = NULL;
  prng = 5 + nc;
  fresh_compress();
  if (setjmp(jb)) { printf("err %s # -\n", err_name(last_err)); jpeg_destroy_compress(&cc); free(A); return; }
  set_dest(&cc, 4096);
  cc.image_width = 16; cc.image_height = 16; cc.input_components = nc; cc.in_color_space = nc == 1 ? JCS_GRAYSCALE : JCS_RGB;
  jpeg_set_defaults(&cc);
  cc.arith_code = (boolean)arith; cc.optimize_coding = (boolean)opt;
  if (prog) jpeg_simple_progression(&cc);
  jpeg_write_tables(&cc);
  la = dest.len; A = malloc(la + 1); memcpy(A, dest.data, la);
  set_dest(&cc, 4096);
  jpeg_start_compress(&cc, FALSE);
  optim = cc.optimize_coding;
  feed_image(&cc);
  jpeg_finish_compress(&cc);
  jpeg_destroy_compress(&cc);
  printf("ok A="); skeleton_only(A, la, 0); printf(" B="); skeleton_only(dest.data, dest.len, optim);
  /* oracle: tables-only stream, then the abbreviated image, in one decompressor */
  d.err = jpeg_std_error(&e); e.error_exit = my_exit; e.emit_message = my_emit; e.output_message = my_output;
  jpeg_create_decompress(&d);
  if (setjmp(jb)) { printf(" # len=%lu eoi=1 decerr=%s\n", (unsigned long)dest.len, err_name(last_err)); jpeg_destroy_decompress(&d); free(A); free(rowbuf); return; }
  jpeg_mem_src(&d, A, (unsigned long)la);
  { int r = jpeg_read_header(&d, FALSE); if (r != JPEG_HEADER_TABLES_ONLY) { printf(" # len=%lu eoi=0 tablesonly=%d\n", (unsigned long)la, r); jpeg_destroy_decompress(&d); free(A); return; } }
  jpeg_mem_src(&d, dest.data, (unsigned long)dest.len);
  jpeg_read_header(&d, TRUE);
  jpeg_start_decompress(&d);
  rowbuf = malloc((size_t)d.output_width * d.output_components + 16);
  while (d.output_scanline < d.output_height) { JSAMPROW r = (JSAMPROW)rowbuf; jpeg_read_scanlines(&d, &r, 1); }
  jpeg_finish_decompress(&d);
  printf(" # len=%lu eoi=%d dec=%ux%ux%d warn=%ld scans=%d exp=16x16x%d\n", (unsigned long)dest.len,
         dest.len >= 2 && dest.data[dest.len - 2] == 0xFF && dest.data[dest.len - 1] == 0xD9,
         d.image_width, d.image_height, d.num_components, e.num_warnings, d.input_scan_number, nc);
  jpeg_destroy_decompress(&d); free(A); free(rowbuf);
}

/* wm STATE LEN CODE : jpeg_write_marker (STATE 4: jpeg_write_m_header + jpeg_write_m_byte) in different API states
   0 before jpeg_start_compress, 1 right after it, 2 after the first scanline, 3 after jpeg_finish_compress,
   4 piecemeal right after start, 5 after jpeg_write_coefficients */
static void do_wm(char *p)
{
  int state = (int)nextl(&p); unsigned len = (unsigned)nextl(&p); int code = (int)nextl(&p); unsigned k;
  unsigned char *data = malloc(len + 16); jvirt_barray_ptr arr[1]; volatile int wrote = 0;
  static unsigned char rowb[64]; JSAMPROW rp = rowb;
  for (k = 0; k < len; k++) data[k] = (unsigned char)(k * 7 + 1);
  prng = 9;
  fresh_compress();
  if (setjmp(jb)) { printf("err %s # -\n", err_name(last_err)); jpeg_destroy_compress(&cc); free(data); return; }
  set_dest(&cc, 4096);
  cc.image_width = 16; cc.image_height = 16; cc.input_components = 1; cc.in_color_space = JCS_GRAYSCALE;
  jpeg_set_defaults(&cc);
  if (state == 0) jpeg_write_marker(&cc, code, data, len);
  if (state == 5) {
    arr[0] = (*cc.mem->request_virt_barray) ((j_common_ptr)&cc, JPOOL_IMAGE, TRUE, 2, 2, 1);
    jpeg_write_coefficients(&cc, arr);
    jpeg_write_marker(&cc, code, data, len); wrote = 1;
  } else {
    jpeg_start_compress(&cc, TRUE);
    if (state == 1) { jpeg_write_marker(&cc, code, data, len); wrote = 1; }
    if (state == 4) { jpeg_write_m_header(&cc, code, len); for (k = 0; k < len; k++) jpeg_write_m_byte(&cc, data[k]); wrote = 1; }
    memset(rowb, 90, sizeof(rowb));
    jpeg_write_scanlines(&cc, &rp, 1);
    if (state == 2) jpeg_write_marker(&cc, code, data, len);
    while (cc.next_scanline < cc.image_height) jpeg_write_scanlines(&cc, &rp, 1);
  }
  jpeg_finish_compress(&cc);
  if (state == 3) jpeg_write_marker(&cc, code, data, len);
  jpeg_destroy_compress(&cc);
  {
    /* the segment must be in the stream, after SOI/APP0 and before the first DQT/SOF */
    size_t i = 2; int found = 0, before = 1;
    while (i + 3 < dest.len && dest.data[i] == 0xFF) {
      int m = dest.data[i + 1]; size_t l = ((size_t)dest.data[i + 2] << 8) | dest.data[i + 3];
      if (m == 0xDA) break;
      if (m == code && l == (size_t)len + 2 && (len == 0 || !memcmp(dest.data + i + 4, data, len))) { found = 1; break; }
      if (m == 0xDB || (m >= 0xC0 && m <= 0xCF && m != 0xC4 && m != 0xCC)) before = 0;
      i += 2 + l;
    }
    printf("ok m=%d", wrote ? (found && before) : -1);
  }
  free(data);
  print_oracle(0, 16, 16, 1);
}

/* qs QUALITY FORCE LINEAR SCALE : jpeg_set_quality / jpeg_set_linear_quality: the two tables they install */
static void do_qs(char *p)
{
  int quality = (int)nextl(&p), force = (int)nextl(&p), linear = (int)nextl(&p), scale = (int)nextl(&p), i, t;
  static unsigned char rowb[16 * 3]; JSAMPROW rp = rowb;
  prng = 3;
  fresh_compress();
  if (setjmp(jb)) { printf("err %s # -\n", err_name(last_err)); jpeg_destroy_compress(&cc); return; }
  set_dest(&cc, 4096);
  cc.image_width = 16; cc.image_height = 8; cc.input_components = 3; cc.in_color_space = JCS_RGB;
  jpeg_set_defaults(&cc);
  if (linear) jpeg_set_linear_quality(&cc, scale, force); else jpeg_set_quality(&cc, quality, force);
  printf("ok");
  for (t = 0; t < 2; t++) { printf(" t%d=", t); for (i = 0; i < 64; i++) printf("%s%u", i ? "," : "", cc.quant_tbl_ptrs[t]->quantval[i]); }
  jpeg_start_compress(&cc, TRUE);
  while (cc.next_scanline < cc.image_height) { for (i = 0; i < 48; i++) rowb[i] = rnd() & 0xFF; jpeg_write_scanlines(&cc, &rp, 1); }
  jpeg_finish_compress(&cc);
  jpeg_destroy_compress(&cc);
  print_oracle(0, 16, 8, 3);
}

/* cs MODE CS INCOMP LOSSLESS : MODE 0 jpeg_set_colorspace(CS), 1 jpeg_default_colorspace with in_color_space = CS */
static void do_cs(char *p)
{
  int mode = (int)nextl(&p), cs = (int)nextl(&p), incomp = (int)nextl(&p), lossless = (int)nextl(&p), i;
  fresh_compress();
  if (setjmp(jb)) { printf("err %s # -\n", err_name(last_err)); jpeg_destroy_compress(&cc); return; }
  cc.image_width = 8; cc.image_height = 8; cc.input_components = 3; cc.in_color_space = JCS_RGB;
  jpeg_set_defaults(&cc);
  if (lossless) jpeg_enable_lossless(&cc, 1, 0);
  cc.input_components = incomp;
  if (mode == 0) jpeg_set_colorspace(&cc, (J_COLOR_SPACE)cs);
  else { cc.in_color_space = (J_COLOR_SPACE)cs; jpeg_default_colorspace(&cc); }
  printf("ok cs=%d nc=%d jfif=%d adobe=%d |", (int)cc.jpeg_color_space, cc.num_components, cc.write_JFIF_header, cc.write_Adobe_marker);
  for (i = 0; i < cc.num_components; i++) {
    jpeg_component_info *c = &cc.comp_info[i];
    printf(" %d,%d,%d,%d,%d,%d", c->component_id, c->h_samp_factor, c->v_samp_factor, c->quant_tbl_no, c->dc_tbl_no, c->ac_tbl_no);
  }
  printf(" # -\n");
  jpeg_destroy_compress(&cc);
}

/* ref NBX NBY OPT | c0 c1 ... : AC refinement scan over NBX x NBY blocks through jpeg_write_coefficients; block i has
   its first ci AC coefficients (zigzag order) = 2 (already nonzero at the refinement: one correction bit each); ci >= 100
   adds a coefficient of magnitude 1 (newly nonzero) after (ci - 100) such coefficients.  alloc_small is wrapped with
   guard zones, checked before the image pool is released. */
static const int zz_nat[64] = { 0, 1, 8, 16, 9, 2, 3, 10, 17, 24, 32, 25, 18, 11, 4, 5, 12, 19, 26, 33, 40, 48, 41, 34, 27, 20, 13, 6, 7, 14, 21,
  28, 35, 42, 49, 56, 57, 50, 43, 36, 29, 22, 15, 23, 30, 37, 44, 51, 58, 59, 52, 45, 38, 31, 39, 46, 53, 60, 61, 54, 47, 55, 62, 63 };
static void do_ref(char *p)
{
  int nbx = (int)nextl(&p), nby = (int)nextl(&p), opt = (int)nextl(&p), bx, by, k;
  static int counts[4096]; int n = 0; jvirt_barray_ptr arr[1]; static jpeg_scan_info sc[3];
  p = skip_bar(p);
  while (n < 4096) { while (*p == ' ') p++; if (*p == 0 || *p == '\n') break; counts[n++] = (int)strtol(p, &p, 10); }
  guard_bad = 0; nguards = 0;
  fresh_compress();
  if (setjmp(jb)) { guards_on = 0; printf("err %s # -\n", err_name(last_err)); jpeg_destroy_compress(&cc); return; }
  orig_alloc_small = cc.mem->alloc_small; cc.mem->alloc_small = guard_alloc_small; guards_on = 1;
  set_dest(&cc, 4096);
  cc.image_width = nbx * 8; cc.image_height = nby * 8; cc.input_components = 1; cc.in_color_space = JCS_GRAYSCALE;
  jpeg_set_defaults(&cc);
  sc[0].comps_in_scan = 1; sc[0].component_index[0] = 0; sc[0].Ss = 0; sc[0].Se = 0; sc[0].Ah = 0; sc[0].Al = 0;
  sc[1] = sc[0]; sc[1].Ss = 1; sc[1].Se = 63; sc[1].Al = 1;
  sc[2] = sc[1]; sc[2].Ah = 1; sc[2].Al = 0;
  cc.scan_info = sc; cc.num_scans = 3; cc.optimize_coding = (boolean)opt;
  arr[0] = (*cc.mem->request_virt_barray) ((j_common_ptr)&cc, JPOOL_IMAGE, TRUE, nbx, nby, 1);
  jpeg_write_coefficients(&cc, arr);
  for (by = 0; by < nby; by++) {
    JBLOCKARRAY ba = (*cc.mem->access_virt_barray) ((j_common_ptr)&cc, arr[0], by, 1, TRUE);
    for (bx = 0; bx < nbx; bx++) {
      int c = (by * nbx + bx) < n ? counts[by * nbx + bx] : 0, extra = 0;
      if (c >= 100) { c -= 100; extra = 1; }
      if (c > 63) c = 63;
      for (k = 1; k <= c; k++) ba[0][bx][zz_nat[k]] = (JCOEF)((k & 1) ? 2 : -3);
      if (extra && c < 63) ba[0][bx][zz_nat[c + 1]] = 1;
    }
  }
  jpeg_finish_compress(&cc);
  guards_on = 0;
  jpeg_destroy_compress(&cc);
  printf("ok");
  { char ob[256]; oracle(dest.data, dest.len, 0, ob, sizeof(ob)); printf(" # %s exp=%dx%dx1 guard=%d\n", ob, nbx * 8, nby * 8, guard_bad); }
}

/* ------------------------------------------------------------------ quant tables */
static void do_qt(char *p)
{
  int prec = (int)nextl(&p), force = (int)nextl(&p), dct = (int)nextl(&p), direct = (int)nextl(&p), i;
  unsigned int basic[64]; unsigned q[64];
  p = skip_bar(p);
  for (i = 0; i < 64; i++) basic[i] = (unsigned int)strtol(p, &p, 10);
  prng = basic[0] * 7 + basic[63];
  fresh_compress();
  if (setjmp(jb)) { printf("err %s # -\n", err_name(last_err)); jpeg_destroy_compress(&cc); return; }
  set_dest(&cc, 4096);
  cc.image_width = 19; cc.image_height = 11; cc.input_components = 1; cc.in_color_space = JCS_GRAYSCALE;
  cc.data_precision = prec;
  jpeg_set_defaults(&cc);
  cc.dct_method = dct == 0 ? JDCT_ISLOW : dct == 1 ? JDCT_IFAST : JDCT_FLOAT;
  if (direct) { for (i = 0; i < 64; i++) cc.quant_tbl_ptrs[0]->quantval[i] = (UINT16)basic[i]; }
  else jpeg_add_quant_table(&cc, 0, basic, 100, force);
  for (i = 0; i < 64; i++) q[i] = cc.quant_tbl_ptrs[0]->quantval[i];
  jpeg_start_compress(&cc, TRUE);
  feed_image(&cc);
  jpeg_finish_compress(&cc);
  jpeg_destroy_compress(&cc);
  printf("ok q=");
  for (i = 0; i < 64; i++) printf("%s%u", i ? " " : "", q[i]);
  print_oracle(0, 19, 11, 1);
}

/* -------------------------------------------------------------------- TurboJPEG */
static void do_tjset(char *p)
{
  int init = (int)nextl(&p), param = (int)nextl(&p), value = (int)nextl(&p);
  tjhandle h = tj3Init(init == 1 ? TJINIT_COMPRESS : init == 2 ? TJINIT_DECOMPRESS : TJINIT_TRANSFORM);
  int r;
  if (!h) { printf("noinit # -\n"); return; }
  r = tj3Set(h, param, value);
  if (r == 0 && tj3Get(h, param) != value) printf("acc-but-get=%d # -\n", tj3Get(h, param));
  else printf("%s # -\n", r == 0 ? "acc" : "rej");
  tj3Destroy(h);
}

static void do_tjc(char *p)
{
  int prec = (int)nextl(&p), W = (int)nextl(&p), H = (int)nextl(&p), pf = (int)nextl(&p), seed = (int)nextl(&p);
  tjhandle h = tj3Init(TJINIT_COMPRESS);
  unsigned char *jpg = NULL; size_t jsz = 0; int r, nrej = 0; size_t n, k; void *img;
  if (!h) { printf("noinit # -\n"); return; }
  p = skip_bar(p);
  for (;;) {
    int par, val;
    while (*p == ' ') p++;
    if (*p == 0 || *p == '\n') break;
    par = (int)strtol(p, &p, 10); if (*p == '=') p++; val = (int)strtol(p, &p, 10);
    if (tj3Set(h, par, val) != 0) nrej++;
  }
  prng = (unsigned)seed;
  n = (size_t)W * H * tjPixelSize[pf];
  img = malloc(n * 2 + 16);
  for (k = 0; k < n; k++) {
    if (prec <= 8) ((unsigned char *)img)[k] = rnd() & ((1 << prec) - 1);
    else ((unsigned short *)img)[k] = rnd() & ((1 << prec) - 1);
  }
  if (prec <= 8) r = tj3Compress8(h, img, W, 0, H, pf, &jpg, &jsz);
  else if (prec <= 12) r = tj3Compress12(h, img, W, 0, H, pf, &jpg, &jsz);
  else r = tj3Compress16(h, img, W, 0, H, pf, &jpg, &jsz);
  free(img);
  if (r != 0) { printf("rej # tjerr rej=%d\n", nrej); }
  else {
    char ob[256];
    oracle(jpg, jsz, 0, ob, sizeof(ob));
    printf("any # %s exp=%dx%dx0\n", ob, W, H);
  }
  tj3Free(jpg); tj3Destroy(h);
}

int main(void)
{
  setvbuf(stdout, NULL, _IOLBF, 0);
  while (fgets(line, sizeof(line), stdin)) {
    char *p = line; char cmd[16]; int k = 0;
    while (*p && *p != ' ' && *p != '\n' && k < 15) cmd[k++] = *p++;
    cmd[k] = 0;
    alarm(60);                      /* CPU/wall cap per case: a hang kills the process */
    if (!strcmp(cmd, "setup")) do_setup_variant(p, 0);
    else if (!strcmp(cmd, "rst")) do_setup_variant(p, 1);
    else if (!strcmp(cmd, "raw")) do_setup_variant(p, 2);
    else if (!strcmp(cmd, "hdr")) do_setup_variant(p, 3);
    else if (!strcmp(cmd, "tn")) do_tn(p);
    else if (!strcmp(cmd, "wt")) do_wt(p);
    else if (!strcmp(cmd, "qs")) do_qs(p);
    else if (!strcmp(cmd, "ref")) do_ref(p);
    else if (!strcmp(cmd, "cs")) do_cs(p);
    else if (!strcmp(cmd, "wm")) do_wm(p);
    else if (!strcmp(cmd, "blk")) do_blk(p);
    else if (!strcmp(cmd, "coef")) do_coef(p);
    else if (!strcmp(cmd, "qt")) do_qt(p);
    else if (!strcmp(cmd, "tjset")) do_tjset(p);
    else if (!strcmp(cmd, "tjc")) do_tjc(p);
    else if (!strcmp(cmd, "ll")) do_ll(p);
    else if (!strcmp(cmd, "seq")) do_seq(p);
    else if (!strcmp(cmd, "tjseq")) do_tjseq(p);
    else printf("? # -\n");
    alarm(0);
  }
  return 0;
}
