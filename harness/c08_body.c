/* C08 harness body, compiled twice (BITS = 8 and 12) from c08.c.
 * Everything here calls the REAL library of the working tree. */

#if BITS == 8
#define SAMP JSAMPLE
#define JW jpeg_write_scanlines
#define JR jpeg_read_scanlines
#define JS jpeg_skip_scanlines
#define JC jpeg_crop_scanline
#define NM(x) x##8
#else
#define SAMP J12SAMPLE
#define JW jpeg12_write_scanlines
#define JR jpeg12_read_scanlines
#define JS jpeg12_skip_scanlines
#define JC jpeg12_crop_scanline
#define NM(x) x##12
#endif

/* encode the synthetic picture described by e into e->jpg */
static int NM(encode)(struct enc *e)
{
  struct jpeg_compress_struct c; struct jpeg_error_mgr em;
  int nc = e->ncomp, x, y, k, i; unsigned long len = 0; unsigned char *out = NULL;
  SAMP *row = NULL; volatile int ok = 0;
  unsigned long long s = e->pseed * 0x9E3779B97F4A7C15ULL + 12345;
  int bw = (e->W + 7) / 8;
  int *base = (int *)malloc(sizeof(int) * bw * ((e->H + 7) / 8) * nc);
  for (i = 0; i < bw * ((e->H + 7) / 8) * nc; i++) base[i] = (int)(rnd64(&s) % 200) + 20;
  c.err = jpeg_std_error(&em); em.error_exit = my_exit; em.emit_message = my_emit;
  if (setjmp(jb)) { jpeg_destroy_compress(&c); free(row); free(base); free(out); return -1; }
  jpeg_create_compress(&c);
  jpeg_mem_dest(&c, &out, &len);
  c.image_width = e->W; c.image_height = e->H; c.input_components = nc;
  c.in_color_space = nc == 1 ? JCS_GRAYSCALE : nc == 3 ? JCS_RGB : JCS_CMYK;
  jpeg_set_defaults(&c);
  c.data_precision = BITS;
  if (nc == 4) jpeg_set_colorspace(&c, JCS_YCCK);
  jpeg_set_quality(&c, 92, TRUE);
  for (k = 0; k < nc; k++) { c.comp_info[k].h_samp_factor = e->hs[k]; c.comp_info[k].v_samp_factor = e->vs[k]; }
  c.arith_code = e->arith;
  c.restart_interval = e->rst;
  if (e->mode == 1 || (e->mode >= 3 && e->mode <= 5)) jpeg_simple_progression(&c);
  else if (e->mode == 6 || e->mode == 7) {
    /* incomplete progressive scan scripts (block smoothing stays active in the decoder):
       6: DC only with final Al = 1;   7: DC (Al = 0) + AC 1..5 of component 0 with Al = 1 */
    static jpeg_scan_info sj[2];
    sj[0].comps_in_scan = nc; for (k = 0; k < nc; k++) sj[0].component_index[k] = k;
    sj[0].Ss = 0; sj[0].Se = 0; sj[0].Ah = 0; sj[0].Al = e->mode == 6 ? 1 : 0;
    sj[1].comps_in_scan = 1; sj[1].component_index[0] = 0; sj[1].Ss = 1; sj[1].Se = 5; sj[1].Ah = 0; sj[1].Al = 1;
    c.scan_info = sj; c.num_scans = e->mode == 6 ? 1 : 2;
  }
  else if (e->mode == 2 && nc > 1) {
    static jpeg_scan_info si[4];
    for (k = 0; k < nc; k++) { si[k].comps_in_scan = 1; si[k].component_index[0] = k; si[k].Ss = 0; si[k].Se = 63; si[k].Ah = 0; si[k].Al = 0; }
    c.scan_info = si; c.num_scans = nc;
  }
  jpeg_start_compress(&c, TRUE);
  row = (SAMP *)malloc(sizeof(SAMP) * e->W * nc);
  for (y = 0; y < e->H; y++) {
    for (x = 0; x < e->W; x++)
      for (k = 0; k < nc; k++) {
        int v = base[((y / 8) * bw + x / 8) * nc + k] + (int)(rnd64(&s) % 31) - 15 + ((x * 3 + y * 5) & 15);
        if (v < 0) v = 0; if (v > 255) v = 255;
        row[x * nc + k] = (SAMP)(BITS == 8 ? v : v * 16 + (int)(rnd64(&s) & 15));
      }
    { SAMP *rp = row; JW(&c, &rp, 1); }
  }
  jpeg_finish_compress(&c);
  jpeg_destroy_compress(&c);
  free(row); free(base);
  if (e->mode >= 3 && e->mode <= 5) {
    /* truncated progressive file: keep the first (mode - 2) scans, cut before the next SOS (and the DHT
       segments that precede it), append EOI */
    unsigned long i = 2, cut = 0; int scans = 0, keep = e->mode - 2;
    while (i + 4 <= len) {
      unsigned long seg = i; int mk = out[i + 1];
      if (out[i] != 0xFF || mk == 0xD9) break;
      if (mk == 0xDA) {
        if (scans == keep) { cut = seg; break; }
        scans++;
        i += 2 + ((out[i + 2] << 8) | out[i + 3]);
        while (i + 1 < len && !(out[i] == 0xFF && out[i + 1] != 0 && !(out[i + 1] >= 0xD0 && out[i + 1] <= 0xD7))) i++;
      } else if (scans == keep && mk == 0xC4 && scans > 0) { cut = seg; break; }
      else i += 2 + ((out[i + 2] << 8) | out[i + 3]);
    }
    if (cut) { out[cut] = 0xFF; out[cut + 1] = 0xD9; len = cut + 2; }
  }
  e->jpg = out; e->len = len; ok = 1;
  return ok ? 0 : -1;
}

/* configure a decompressor after read_header */
/* start decompression; with s->bscan > 0 in buffered-image mode with an early output pass on scan bscan */
static void NM(start)(struct jpeg_decompress_struct *d, struct dec *s)
{
  if (s->bscan > 0) {
    d->buffered_image = TRUE;
    jpeg_start_decompress(d);
    while (d->input_scan_number <= s->bscan && !jpeg_input_complete(d)) {
      int r = jpeg_consume_input(d);
      if (r == JPEG_REACHED_EOI || r == JPEG_SUSPENDED) break;
    }
    jpeg_start_output(d, s->bscan);
  } else jpeg_start_decompress(d);
}
static void NM(finish)(struct jpeg_decompress_struct *d, struct dec *s)
{
  if (d->buffered_image) jpeg_finish_output(d);
  jpeg_finish_decompress(d);
}

static void NM(configure)(struct jpeg_decompress_struct *d, struct dec *s)
{
  d->scale_num = s->M; d->scale_denom = 8;
  d->do_fancy_upsampling = s->fancy;
  d->dct_method = s->dct == 0 ? JDCT_ISLOW : s->dct == 1 ? JDCT_IFAST : JDCT_FLOAT;
  if (s->quant) { d->quantize_colors = TRUE; d->two_pass_quantize = FALSE; d->dither_mode = JDITHER_NONE; d->desired_number_of_colors = 64; }
  if (s->ocs == 1 && d->num_components == 3) d->out_color_space = JCS_EXT_BGRA;
  else if (s->ocs == 2 && d->num_components == 3 && BITS == 8 && !s->quant) { d->out_color_space = JCS_RGB565; d->dither_mode = JDITHER_NONE; }
  else if (s->ocs == 4 && d->num_components == 3 && BITS == 8 && !s->quant) d->out_color_space = JCS_RGB565;   /* dithered (565D kernels) */
  else if (s->ocs == 3 && d->num_components == 3) d->out_color_space = JCS_GRAYSCALE;
}

static int NM(rowbytes)(struct jpeg_decompress_struct *d)
{
  int comps = d->quantize_colors ? 1 : d->output_components;
  if (d->out_color_space == JCS_RGB565 && !d->quantize_colors) return d->output_width * 2;
  return d->output_width * comps * (int)sizeof(SAMP);
}

/* full decode by a fresh decompressor: fills f->pix, f->W, f->H, f->pxb (bytes per pixel) */
static int NM(fulldecode)(struct enc *e, struct dec *s, struct full *f)
{
  struct jpeg_decompress_struct d; struct jpeg_error_mgr em; unsigned char *volatile pix = NULL;
  d.err = jpeg_std_error(&em); em.error_exit = my_exit; em.emit_message = my_emit;
  if (setjmp(jb)) { jpeg_destroy_decompress(&d); free(pix); return -1; }
  jpeg_create_decompress(&d);
  jpeg_mem_src(&d, e->jpg, e->len);
  jpeg_read_header(&d, TRUE);
  NM(configure)(&d, s);
  NM(start)(&d, s);
  f->W = d.output_width; f->H = d.output_height; f->rowb = NM(rowbytes)(&d);
  f->pxb = f->rowb / (f->W ? f->W : 1);
  pix = (unsigned char *)malloc((size_t)f->rowb * f->H + 16);
  {
    /* every row is decoded into a 16-byte aligned buffer: the dithered RGB565 kernels treat a row pointer that is not
       4-byte aligned differently (and rowb = 2 * W is not always a multiple of 4) */
    unsigned char *tmp = (unsigned char *)malloc((size_t)f->rowb + 16);
    while (d.output_scanline < d.output_height) {
      SAMP *rp = (SAMP *)tmp; JDIMENSION y = d.output_scanline;
      if (JR(&d, &rp, 1) != 1) break;
      memcpy(pix + (size_t)f->rowb * y, tmp, (size_t)f->rowb);
    }
    free(tmp);
  }
  NM(finish)(&d, s);
  jpeg_destroy_decompress(&d);
  f->pix = pix;
  return 0;
}

/* does delivered row r (rb bytes wide, region columns [cx, cx+cw)) equal full row y ? first/last column exempt as told */
static int NM(roweq)(struct full *f, unsigned char *r, int y, int cx, int cw, int ex0, int ex1)
{
  int a = ex0 ? 1 : 0, b = cw - (ex1 ? 1 : 0);
  if (b <= a) return 1;
  return memcmp(r + (size_t)a * f->pxb, f->pix + (size_t)f->rowb * y + (size_t)(cx + a) * f->pxb, (size_t)(b - a) * f->pxb) == 0;
}

/* one partial-decode history through the libjpeg API */
/* "ok dims ..." header of a result line: what the decompressor selected */
static char *NM(header)(struct jpeg_decompress_struct *d, char *o)
{
  my_master_ptr m = (my_master_ptr)d->master;
  int sm = 0, ci, k2;
  o += sprintf(o, "ok dims %d %d M=%d v=%d h=%d ctx=%d mrg=%d ms=%d", d->output_width, d->output_height, d->min_DCT_scaled_size,
               d->max_v_samp_factor, d->max_h_samp_factor, d->upsample->need_context_rows ? 1 : 0, m->using_merged_upsample ? 1 : 0,
               (d->inputctl->has_multiple_scans || d->buffered_image) ? 1 : 0);
  /* is interblock smoothing active?  (jdcoefct.c smoothing_ok(): progressive, DC of every component known,
     some of the first AC coefficients of some component not known to full precision) */
  if (d->progressive_mode && d->coef_bits != NULL && d->do_block_smoothing) {
    int useful = 0;
    sm = 1;
    for (ci = 0; ci < d->num_components; ci++) {
      if (d->comp_info[ci].quant_table == NULL && d->quant_tbl_ptrs[d->comp_info[ci].quant_tbl_no] == NULL) sm = 0;
      if (d->coef_bits[ci][0] < 0) sm = 0;
      for (k2 = 1; k2 <= 9; k2++) if (d->coef_bits[ci][k2] != 0) useful = 1;
    }
    if (!useful) sm = 0;
  }
  o += sprintf(o, " sm=%d", sm);
  return o;
}

/* " | crop x w ow= win ..." : the crop result and the IDCT windows the master currently holds */
static char *NM(cropinfo)(struct jpeg_decompress_struct *d, long x0, long w0, long cw, int W, char *o)
{
  int i;
  o += sprintf(o, " | crop %ld %ld ow=%u win", x0, w0, d->output_width);
  if (cw != (long)W) {
    o += sprintf(o, " %u %u", d->master->first_iMCU_col, d->master->last_iMCU_col);
    for (i = 0; i < d->num_components; i++) o += sprintf(o, " %u %u", d->master->first_MCU_col[i], d->master->last_MCU_col[i]);
  }
  return o;
}

/* run the Read/Skip ops of one output pass and compare every delivered row with the full decode f */
static char *NM(run_ops)(struct jpeg_decompress_struct *dp, struct full *f, long x0, long w0, int ex0, int ex1, char *ops, char *o)
{
#define d (*dp)
  int H = d.output_height, i;
  int rb = NM(rowbytes)(&d);
  int maxn = H + 8;
  /* every row is its own allocation of EXACTLY the row size (malloc alignment = 16 bytes, see the jdcol565 note): the
     ASan build traps on the first byte written past a row; the other builds append GUARD bytes and check them */
#if defined(__SANITIZE_ADDRESS__)
#define GUARD 0
#elif defined(__has_feature)
#if __has_feature(address_sanitizer)
#define GUARD 0
#else
#define GUARD 64
#endif
#else
#define GUARD 64
#endif
  unsigned char **rowmem = (unsigned char **)malloc(sizeof(unsigned char *) * maxn);
  SAMP **rows = (SAMP **)malloc(sizeof(SAMP *) * maxn);
  long overrun = 0;
  int *prov = (int *)malloc(sizeof(int) * (maxn + 4)), *provy = (int *)malloc(sizeof(int) * (maxn + 4));
  int *cls = (int *)malloc(sizeof(int) * (H + 1));
  int nprov = 0, cmin = 1 << 30, cmax = -1;
  char *p = ops;
  for (i = 0; i < maxn; i++) rowmem[i] = (unsigned char *)malloc((size_t)rb + GUARD + (rb + GUARD == 0));
  /* class of a full-decode row = smallest row with the same pixels inside the compared window */
  { int y, t; for (y = 0; y < H; y++) { cls[y] = y; for (t = 0; t < y; t++) if (cls[t] == t && NM(roweq)(f, f->pix + (size_t)f->rowb * y + (size_t)x0 * f->pxb, t, (int)x0, (int)w0, ex0, ex1)) { cls[y] = t; break; } } }
  o += sprintf(o, " | ops");
  while (*p) {
    while (*p == ' ') p++;
    if (*p == 'R') {
      long n = strtol(p + 1, &p, 10); long got = 0; int first = 1;
      o += sprintf(o, " r");
      while (got < n && d.output_scanline < d.output_height) {
        JDIMENSION y0 = d.output_scanline, k; long want = n - got; int j;
        if (want > maxn) want = maxn;
        for (j = 0; j < want; j++) { rows[j] = (SAMP *)rowmem[j]; memset(rowmem[j], 0xA5, (size_t)rb + GUARD); }
        k = JR(&d, (SAMP **)rows, (JDIMENSION)want);
        for (j = 0; j < want; j++) { int g; for (g = 0; g < GUARD; g++) if (rowmem[j][rb + g] != 0xA5) overrun++; }
        o += sprintf(o, "%s%u", first ? "" : "+", k); first = 0;
        for (j = 0; j < (int)k; j++) {
          int y = (int)y0 + j, found = -1, t;
          if (y >= H) found = -1;   /* a row past the bottom: nothing to compare with */
          else if (NM(roweq)(f, (unsigned char *)rows[j], y, (int)x0, (int)w0, ex0, ex1)) found = cls[y];
          else for (t = 0; t < H; t++) if (cls[t] == t && NM(roweq)(f, (unsigned char *)rows[j], t, (int)x0, (int)w0, ex0, ex1)) { found = t; break; }
          if (y < H && found != cls[y]) {   /* which region columns differ from the full decode of row y */
            int a0 = ex0 ? 1 : 0, b0 = (int)w0 - (ex1 ? 1 : 0), c;
            for (c = a0; c < b0; c++)
              if (memcmp((unsigned char *)rows[j] + (size_t)c * f->pxb, f->pix + (size_t)f->rowb * y + (size_t)(x0 + c) * f->pxb, f->pxb)) {
                if (c < cmin) cmin = c; if (c > cmax) cmax = c;
              }
          }
          if (nprov < maxn) { prov[nprov] = found; provy[nprov] = y; nprov++; }
        }
        got += k;
        if (k == 0) break;
      }
      if (first) o += sprintf(o, "-");
      o += sprintf(o, "@%u", d.output_scanline);
    } else if (*p == 'S') {
      long n = strtol(p + 1, &p, 10);
      JDIMENSION k = JS(&d, (JDIMENSION)n);
      o += sprintf(o, " s%u@%u", k, d.output_scanline);
    } else if (*p == '\n' || *p == '\r') p++;
    else if (*p) { o += sprintf(o, " ?"); break; }
    if (o - outbuf > OUTMAX - 8192) break;
  }
  o += sprintf(o, " | prov");
  for (i = 0; i < nprov && o - outbuf < OUTMAX - 4096; i++) o += sprintf(o, " %d", prov[i]);
  {
    int bad = 0;
    for (i = 0; i < nprov; i++) if (provy[i] >= H || prov[i] != cls[provy[i]]) {
      if (!bad) o += sprintf(o, " | px bad");
      if (bad < 4) o += sprintf(o, " y=%d:is=%d", provy[i], prov[i]);
      bad++;
    }
    if (overrun) {
      if (!bad) o += sprintf(o, " | px bad");
      o += sprintf(o, " OVERRUN=%ld(bytes written past the end of a %d-byte output row)", overrun, rb); bad++;
    }
    if (!bad) o += sprintf(o, " | px ok %d", nprov); else o += sprintf(o, " n=%d cols=%d-%d", bad, cmax < 0 ? -1 : (int)cmin, (int)cmax);
    o += sprintf(o, " | dup");
    for (i = 0; i < H && o - outbuf < OUTMAX - 2048; i++) if (cls[i] != i) o += sprintf(o, " %d:%d", i, cls[i]);
  }
  for (i = 0; i < maxn; i++) free(rowmem[i]);
  free(rowmem); free(rows); free(prov); free(provy); free(cls);
#undef GUARD
  return o;
#undef d
}

/* decode the stream once completely on this object (reuse probes) */
static void NM(decode_once)(struct jpeg_decompress_struct *d, struct enc *e)
{
  jpeg_mem_src(d, e->jpg, e->len);
  jpeg_read_header(d, TRUE);
  d->do_fancy_upsampling = TRUE;
  jpeg_start_decompress(d);
  { int rb = NM(rowbytes)(d); SAMP *rp = (SAMP *)malloc(rb + 16);
    while (d->output_scanline < d->output_height) JR(d, &rp, 1);
    free(rp); }
  jpeg_finish_decompress(d);
}

/* one partial-decode history through the libjpeg API */
static void NM(history)(struct enc *e, struct dec *s, struct full *f, long cx, long cw, char *ops, int reuse_first)
{
  struct jpeg_decompress_struct d; struct jpeg_error_mgr em;
  char *volatile o = outbuf;
  d.err = jpeg_std_error(&em); em.error_exit = my_exit; em.emit_message = my_emit;
  if (setjmp(jb)) {
    jpeg_destroy_decompress(&d);
    printf("%s err %d\n", outbuf, last_err); return;
  }
  outbuf[0] = 0;
  jpeg_create_decompress(&d);
  if (reuse_first) NM(decode_once)(&d, e);   /* F5 probe */
  jpeg_mem_src(&d, e->jpg, e->len);
  jpeg_read_header(&d, TRUE);
  NM(configure)(&d, s);
  NM(start)(&d, s);
  {
    int H = d.output_height, W = d.output_width;
    int ex0 = 0, ex1 = 0; long x0 = 0, w0 = W;
    o = NM(header)(&d, o);
    if (W != f->W || H != f->H) o += sprintf(o, " DIMS-DIFFER-FROM-FULL");
    if (cx >= 0) {
      JDIMENSION xo = (JDIMENSION)cx, wo = (JDIMENSION)cw;
      JC(&d, &xo, &wo);
      x0 = xo; w0 = wo;
      o = NM(cropinfo)(&d, x0, w0, cw, W, o);
      /* fancy upsampling: the first/last column of the region may differ; a region of <= 2 columns makes
         jpeg_crop_scanline re-select the plain upsampler (both of its columns are first/last columns) */
      if (d.do_fancy_upsampling && cw != (long)W) { ex0 = x0 > 0 || w0 <= 2; ex1 = x0 + w0 < W || w0 <= 2; }
    } else o += sprintf(o, " | crop -");
    o = NM(run_ops)(&d, f, x0, w0, ex0, ex1, ops, o);
    if (d.output_scanline < d.output_height) jpeg_abort_decompress(&d); else NM(finish)(&d, s);
  }
  jpeg_destroy_decompress(&d);
  printf("%s\n", outbuf);
}

/* buffered-image mode: several output passes, jpeg_crop_scanline once (before the first jpeg_start_output or
   right after it), Read/Skip ops inside every pass.  pass p: scan number pk[p], ops pops[p]; fp[p] = full decode
   by a fresh decompressor in buffered-image mode with an output pass on the same scan.  Result: the passes'
   result segments (same format as an L line) joined by " ## ". */
static void NM(bhistory)(struct enc *e, struct dec *s, int npass, int *pk, char **pops, struct full *fp, long cx, long cw,
                         int when, int reuse_first)
{
  struct jpeg_decompress_struct d; struct jpeg_error_mgr em;
  char *volatile o = outbuf; volatile int cropped = 0; int p;
  volatile long x0 = 0, w0 = 0; volatile int ex0 = 0, ex1 = 0;
  d.err = jpeg_std_error(&em); em.error_exit = my_exit; em.emit_message = my_emit;
  if (setjmp(jb)) {
    jpeg_destroy_decompress(&d);
    printf("%s err %d\n", outbuf, last_err); return;
  }
  outbuf[0] = 0;
  jpeg_create_decompress(&d);
  if (reuse_first) NM(decode_once)(&d, e);
  jpeg_mem_src(&d, e->jpg, e->len);
  jpeg_read_header(&d, TRUE);
  NM(configure)(&d, s);
  d.buffered_image = TRUE;
  jpeg_start_decompress(&d);
  for (p = 0; p < npass; p++) {
    int W, H;
    while (d.input_scan_number <= pk[p] && !jpeg_input_complete(&d)) {
      int r = jpeg_consume_input(&d);
      if (r == JPEG_REACHED_EOI || r == JPEG_SUSPENDED) break;
    }
    W = fp[p].W; H = fp[p].H;
    if (p == 0) { x0 = 0; w0 = W; }
    if (p > 0) o += sprintf(o, " ## ");
    if (!cropped && cx >= 0 && when == 0) {     /* in state DSTATE_BUFIMAGE, before jpeg_start_output */
      JDIMENSION xo = (JDIMENSION)cx, wo = (JDIMENSION)cw;
      JC(&d, &xo, &wo); x0 = xo; w0 = wo; cropped = 1;
    }
    jpeg_start_output(&d, pk[p]);
    if (!cropped && cx >= 0 && when == 1) {
      JDIMENSION xo = (JDIMENSION)cx, wo = (JDIMENSION)cw;
      JC(&d, &xo, &wo); x0 = xo; w0 = wo; cropped = 1;
    }
    {
      int ow = d.output_width;
      d.output_width = W; o = NM(header)(&d, o); d.output_width = ow;   /* dims as the full decode reports them */
    }
    if ((int)d.output_height != H) o += sprintf(o, " DIMS-DIFFER-FROM-FULL");
    if (cropped) {
      o = NM(cropinfo)(&d, x0, w0, cw, W, o);
      if (d.do_fancy_upsampling && cw != (long)W) { ex0 = x0 > 0 || w0 <= 2; ex1 = x0 + w0 < W || w0 <= 2; }
    } else o += sprintf(o, " | crop -");
    o = NM(run_ops)(&d, &fp[p], x0, w0, ex0, ex1, pops[p], o);
    jpeg_finish_output(&d);
  }
  jpeg_destroy_decompress(&d);
  printf("%s\n", outbuf);
}

/* K lines: jpeg_crop_scanline called a SECOND time (libjpeg.txt: "it can call jpeg*_crop_scanline() again with new
   values"): buf = 0 both calls before the first read; buf = 1 buffered-image mode, one call before each of two output
   passes on the complete image.  Reports what each call returned (xoffset width output_width | err) and, for each pass
   that delivers rows, which column offset of the full decode f ALL delivered rows equal (at = -1: none; searched over every
   offset), whether that is the region the call reported (rep) and, for the second call, the first call's region (first). */
static int NM(kmatch)(struct jpeg_decompress_struct *d, struct full *f, unsigned char *rows)
{
  int H = d->output_height, ow = d->output_width, cand, y;
  for (cand = 0; cand + ow <= f->W; cand++) {
    int ok = 1;
    for (y = 0; y < H && ok; y++)
      if (memcmp(rows + (size_t)y * ow * f->pxb, f->pix + (size_t)f->rowb * y + (size_t)cand * f->pxb, (size_t)ow * f->pxb)) ok = 0;
    if (ok) return cand;
  }
  return -1;
}
static void NM(khistory)(struct enc *e, struct dec *s, struct full *f, int buf, long x1, long w1, long x2, long w2)
{
  struct jpeg_decompress_struct d; struct jpeg_error_mgr em;
  char *volatile o = outbuf; unsigned char *volatile rows = NULL;
  d.err = jpeg_std_error(&em); em.error_exit = my_exit; em.emit_message = my_emit;
  if (setjmp(jb)) {
    jpeg_destroy_decompress(&d); free(rows);
    printf("%s err %d\n", outbuf, last_err); return;
  }
  outbuf[0] = 0;
  jpeg_create_decompress(&d);
  jpeg_mem_src(&d, e->jpg, e->len);
  jpeg_read_header(&d, TRUE);
  NM(configure)(&d, s);
  d.buffered_image = buf ? TRUE : FALSE;
  if (buf) { jpeg_start_decompress(&d); while (!jpeg_input_complete(&d)) { int r = jpeg_consume_input(&d); if (r == JPEG_REACHED_EOI || r == JPEG_SUSPENDED) break; } }
  else NM(start)(&d, s);
  o += sprintf(o, "k ow=%u oh=%u", d.output_width, d.output_height);
  rows = (unsigned char *)malloc((size_t)f->rowb * (f->H + 2) + 64);
  {
    int pass; long fx = -1;
    for (pass = 1; pass <= 2; pass++) {
      JDIMENSION xo = (JDIMENSION)(pass == 1 ? x1 : x2), wo = (JDIMENSION)(pass == 1 ? w1 : w2);
      o += sprintf(o, " | c%d", pass);
      JC(&d, &xo, &wo);
      o += sprintf(o, " %u %u %u", xo, wo, d.output_width);
      if (pass == 1) fx = (long)xo;
      if (buf) jpeg_start_output(&d, d.input_scan_number);
      if (buf || pass == 2) {
        int at, ow = d.output_width;
        while (d.output_scanline < d.output_height) {
          SAMP *rp = (SAMP *)(rows + (size_t)d.output_scanline * ow * f->pxb);
          if (JR(&d, &rp, 1) != 1) break;
        }
        at = NM(kmatch)(&d, f, rows);
        o += sprintf(o, " at=%d rep=%d", at, at >= 0 && at == (int)xo && ow == (int)wo);
        if (pass == 2) o += sprintf(o, " first=%d", at >= 0 && at == (int)fx);
        if (buf) jpeg_finish_output(&d);
      }
    }
  }
  if (buf) jpeg_finish_decompress(&d); else NM(finish)(&d, s);
  jpeg_destroy_decompress(&d); free(rows);
  printf("%s\n", outbuf);
}

#undef SAMP
#undef JW
#undef JR
#undef JS
#undef JC
#undef NM
