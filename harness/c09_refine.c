/* C09 unit harness: calls the REAL static decode_mcu_AC_refine() of jdphuff.c (progressive AC refinement
 * scan, newnz_pos[] undo on suspension) on fabricated blocks and bit streams through a suspending source.
 *   r <Ss> <Se> <Al> <eobrun> <nblocks> | b1 .. b16 | v0 v1 .. | <64*nblocks coefficients, zigzag order> | <hex> | s1 s2 ..
 * prints (same line as ml/C09_driver.ml `r`):
 *   R done=<blocks completed> eob=<EOBRUN> bl=<bits_left> gb=<get_buffer hex> um=<unread_marker> consumed=<n> | <coefficients of
 *     all blocks, zigzag order, in their current state (a suspended block shows the dirty content left in the array)>
 */
#include <stdio.h>
#include <stdlib.h>
#include <string.h>
#include <setjmp.h>
#include <stdint.h>
#include "jdphuff.c"

static jmp_buf jb;
static long nwarn;
static void my_exit(j_common_ptr c) { (void)c; longjmp(jb, 1); }
static void my_emit(j_common_ptr c, int lvl) { (void)c; if (lvl < 0) nwarn++; }
static void my_output(j_common_ptr c) { (void)c; }

typedef struct { struct jpeg_source_mgr pub; } ssrc;
static void s_init(j_decompress_ptr c) { (void)c; }
static boolean s_fill(j_decompress_ptr c) { (void)c; return FALSE; }
static void s_skip(j_decompress_ptr c, long n) { (void)c; (void)n; }
static void s_term(j_decompress_ptr c) { (void)c; }

static int hexval(int ch) { return ch <= '9' ? ch - '0' : (ch | 32) - 'a' + 10; }

int main(void)
{
  size_t cap = 1 << 20; char *line = (char *)malloc(cap);
  setvbuf(stdout, NULL, _IOLBF, 0);
  while (fgets(line, (int)cap, stdin)) {
    struct jpeg_decompress_struct c; struct jpeg_error_mgr e; ssrc src; phuff_entropy_ptr ent;
    int Ss, Se, Al, nb, i, k, off = 0, o2, done = 0; long eob; char *p; JHUFF_TBL *ht;
    static JBLOCK blocks[64]; JBLOCKROW mcu[1];
    static unsigned char data[1 << 16], work[1 << 16]; size_t total = 0, delivered = 0; long sizes[4096]; int ns = 0, nx = 0;
    if (sscanf(line, "r %d %d %d %ld %d |%n", &Ss, &Se, &Al, &eob, &nb, &off) < 5 || nb > 64) { printf("?\n"); continue; }
    c.err = jpeg_std_error(&e); e.error_exit = my_exit; e.emit_message = my_emit; e.output_message = my_output; nwarn = 0;
    if (setjmp(jb)) { printf("R err %d\n", e.msg_code); jpeg_destroy_decompress(&c); continue; }
    jpeg_create_decompress(&c);
    p = line + off;
    ht = jpeg_alloc_huff_table((j_common_ptr)&c);
    memset(ht->bits, 0, sizeof(ht->bits)); memset(ht->huffval, 0, sizeof(ht->huffval));
    for (i = 1; i <= 16; i++) { ht->bits[i] = (UINT8)strtol(p, &p, 10); }
    while (*p == ' ') p++; if (*p == '|') p++;
    for (i = 0; i < 256; i++) { char *q; long v = strtol(p, &q, 10); if (q == p) break; ht->huffval[i] = (UINT8)v; p = q; }
    while (*p == ' ') p++; if (*p == '|') p++;
    memset(blocks, 0, sizeof(blocks));
    for (i = 0; i < nb; i++) for (k = 0; k < 64; k++) blocks[i][jpeg_natural_order[k]] = (JCOEF)strtol(p, &p, 10);
    while (*p == ' ') p++; if (*p == '|') p++; while (*p == ' ') p++;
    while (p[0] && p[1] && p[0] != ' ' && p[0] != '|' && p[0] != '\n') { data[total++] = (unsigned char)(hexval(p[0]) * 16 + hexval(p[1])); p += 2; }
    while (*p == ' ') p++; if (*p == '|') p++;
    for (;;) { char *q; long v = strtol(p, &q, 10); if (q == p) break; sizes[ns++] = v; p = q; }
    /* fabricate the state of an AC refinement scan */
    c.ac_huff_tbl_ptrs[0] = ht;
    src.pub.init_source = s_init; src.pub.fill_input_buffer = s_fill; src.pub.skip_input_data = s_skip;
    src.pub.resync_to_restart = jpeg_resync_to_restart; src.pub.term_source = s_term;
    src.pub.next_input_byte = work; src.pub.bytes_in_buffer = 0; c.src = &src.pub;
    ent = (phuff_entropy_ptr)(*c.mem->alloc_small)((j_common_ptr)&c, JPOOL_PERMANENT, sizeof(phuff_entropy_decoder));
    memset(ent, 0, sizeof(*ent));
    c.entropy = (struct jpeg_entropy_decoder *)ent;
    jpeg_make_d_derived_tbl(&c, FALSE, 0, &ent->derived_tbls[0]);
    ent->ac_derived_tbl = ent->derived_tbls[0];
    ent->saved.EOBRUN = (unsigned int)eob; ent->bitstate.bits_left = 0; ent->bitstate.get_buffer = 0;
    ent->pub.insufficient_data = FALSE; ent->restarts_to_go = 0;
    c.Ss = Ss; c.Se = Se; c.Ah = Al + 1; c.Al = Al; c.restart_interval = 0; c.unread_marker = 0;
    c.blocks_in_MCU = 1; c.comps_in_scan = 1;
    /* one decode_mcu call per library call; after a FALSE return the application keeps the unread bytes and appends a chunk */
    for (;;) {
      mcu[0] = &blocks[done];
      if (done < nb && decode_mcu_AC_refine(&c, mcu)) { done++; continue; }
      if (done >= nb) break;
      {
        size_t keep = src.pub.bytes_in_buffer, want;
        if (delivered >= total && nx >= ns) break;               /* nothing more to deliver: stays suspended */
        if (keep && src.pub.next_input_byte != work) memmove(work, src.pub.next_input_byte, keep);
        want = nx < ns ? (size_t)sizes[nx++] : total;
        if (want > total - delivered) want = total - delivered;
        memcpy(work + keep, data + delivered, want); delivered += want;
        src.pub.next_input_byte = work; src.pub.bytes_in_buffer = keep + want;
      }
    }
    printf("R done=%d eob=%u bl=%d gb=%llx um=%d consumed=%lu |", done, ent->saved.EOBRUN, ent->bitstate.bits_left,
           (unsigned long long)ent->bitstate.get_buffer, c.unread_marker, (unsigned long)(delivered - src.pub.bytes_in_buffer));
    for (i = 0; i < nb; i++) for (k = 0; k < 64; k++) printf(" %d", blocks[i][jpeg_natural_order[k]]);
    printf("\n");
    jpeg_destroy_decompress(&c);
  }
  free(line);
  return 0;
}
