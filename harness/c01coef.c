/* C01 coefficient-controller harness: runs the REAL jdcoefct.c consume_data of the working tree (multi-scan files:
 * the library buffers the whole image) and observes, at every decode_mcu call, where each MCU_buffer[blkn] pointer
 * lies inside the component's virtual block array (row, column), by comparing it with the rows returned by
 * access_virt_barray.
 *   coef <hex JPEG> -> "coef il=<interleaved> r=<input_iMCU_row> yo=<yoffset> m=<MCU_col_num> mpr=<MCUs_per_row>
 *                      comps=<ci:h:v:wib:hib,...> | <ci>:<row>:<col> ..."   (first 60 MCUs over all scans), then "coef end".
 * yoffset / MCU_col_num are the call's position in the row-major MCU order of the current iMCU row.
 */
#include <stdio.h>
#include <stdlib.h>
#include <string.h>
#include <setjmp.h>
#define JPEG_INTERNALS
#include "jinclude.h"
#include "jpeglib.h"
#include "jdcoefct.h"

static boolean (*real_decode_mcu) (j_decompress_ptr cinfo, JBLOCKROW *MCU_data);
static int logged, last_scan = -1; static JDIMENSION last_row = (JDIMENSION)-1; static long idx;

static boolean my_decode_mcu(j_decompress_ptr cinfo, JBLOCKROW *MCU_data)
{
  my_coef_ptr coef = (my_coef_ptr)cinfo->coef; int blkn, ci, k;
  if (cinfo->input_scan_number != last_scan || cinfo->input_iMCU_row != last_row) { idx = 0; last_scan = cinfo->input_scan_number; last_row = cinfo->input_iMCU_row; }
  if (logged < 60 && coef->whole_image[0] != NULL) {
    long yo = idx / (long)cinfo->MCUs_per_row, m = idx % (long)cinfo->MCUs_per_row;
    logged++;
    printf("coef il=%d r=%u yo=%ld m=%ld mpr=%u comps=", cinfo->comps_in_scan > 1 ? 1 : 0, cinfo->input_iMCU_row, yo, m, cinfo->MCUs_per_row);
    for (ci = 0; ci < cinfo->comps_in_scan; ci++) {
      jpeg_component_info *cp = cinfo->cur_comp_info[ci];
      printf("%s%d:%d:%d:%u:%u", ci ? "," : "", cp->component_index, cp->h_samp_factor, cp->v_samp_factor, cp->width_in_blocks, cp->height_in_blocks);
    }
    printf(" |");
    for (blkn = 0; blkn < cinfo->blocks_in_MCU; blkn++) {
      jpeg_component_info *cp = cinfo->cur_comp_info[cinfo->MCU_membership[blkn]];
      int comp = cp->component_index, found = 0;
      JDIMENSION row0 = cinfo->input_iMCU_row * cp->v_samp_factor;
      JBLOCKARRAY rows = (*cinfo->mem->access_virt_barray) ((j_common_ptr)cinfo, coef->whole_image[comp], row0, (JDIMENSION)cp->v_samp_factor, TRUE);
      for (k = 0; k < cp->v_samp_factor && !found; k++) {
        long d = (long)(MCU_data[blkn] - rows[k]);
        if (d >= 0 && d < 70000 && (k + 1 >= cp->v_samp_factor || MCU_data[blkn] < rows[k + 1] || rows[k + 1] < rows[k])) { printf(" %d:%u:%ld", comp, row0 + k, d); found = 1; }
      }
      if (!found) printf(" %d:?:?", comp);
    }
    printf("\n");
  }
  idx++;
  return real_decode_mcu(cinfo, MCU_data);
}

struct my_err { struct jpeg_error_mgr pub; jmp_buf jb; };
static void my_exit(j_common_ptr c) { longjmp(((struct my_err *)c->err)->jb, 1); }
static void my_emit(j_common_ptr c, int lvl) { if (lvl < 0) c->err->num_warnings++; }
static int hexv(int c) { return c >= '0' && c <= '9' ? c - '0' : c >= 'a' && c <= 'f' ? c - 'a' + 10 : -1; }
static char line[1 << 20];
static void (*real_start_pass) (j_decompress_ptr cinfo);
static void my_start_pass(j_decompress_ptr cinfo)
{ real_start_pass(cinfo); if (cinfo->entropy->decode_mcu != my_decode_mcu) { real_decode_mcu = cinfo->entropy->decode_mcu; cinfo->entropy->decode_mcu = my_decode_mcu; } }

int main(void)
{
  setvbuf(stdout, NULL, _IOLBF, 0);
  while (fgets(line, sizeof(line), stdin)) {
    struct jpeg_decompress_struct c; struct my_err e; char *p = line + 5; size_t n = 0, i; unsigned char *buf;
    if (strncmp(line, "coef ", 5)) { puts("?"); continue; }
    while (hexv(p[2 * n]) >= 0 && hexv(p[2 * n + 1]) >= 0) n++;
    buf = (unsigned char *)malloc(n ? n : 1);
    for (i = 0; i < n; i++) buf[i] = (unsigned char)(hexv(p[2 * i]) * 16 + hexv(p[2 * i + 1]));
    memset(&c, 0, sizeof(c));
    c.err = jpeg_std_error(&e.pub); e.pub.error_exit = my_exit; e.pub.emit_message = my_emit;
    logged = 0; last_scan = -1; last_row = (JDIMENSION)-1; idx = 0;
    if (setjmp(e.jb)) { puts("coef end error"); jpeg_destroy_decompress(&c); free(buf); continue; }
    jpeg_create_decompress(&c);
    c.mem->max_memory_to_use = 128L * 1024 * 1024;
    jpeg_mem_src(&c, buf, (unsigned long)n);
    if (jpeg_read_header(&c, TRUE) != JPEG_HEADER_OK || c.master->lossless || c.data_precision != 8 ||
        (unsigned long long)c.image_width * c.image_height > (1 << 16)) { puts("coef end skip"); jpeg_destroy_decompress(&c); free(buf); continue; }
    c.buffered_image = TRUE;            /* full-image coefficient buffer: consume_data for every scan */
    jpeg_start_decompress(&c);
    /* the entropy decoder re-installs decode_mcu in every start_pass: hook start_pass */
    real_start_pass = c.entropy->start_pass; c.entropy->start_pass = my_start_pass;
    real_decode_mcu = c.entropy->decode_mcu; c.entropy->decode_mcu = my_decode_mcu;
    while (!jpeg_input_complete(&c) && logged < 60) { if (jpeg_consume_input(&c) == JPEG_SUSPENDED) break; }
    puts("coef end ok");
    jpeg_abort_decompress(&c); jpeg_destroy_decompress(&c); free(buf);
  }
  return 0;
}
