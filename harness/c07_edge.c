/* C07 edge-replication correspondence harness: the REAL static expand_bottom_edge (jcprepct.c) and
 * expand_right_edge (jcsample.c) of the working tree, reached by including both files.
 *   redge <nrows_total> <rowlen> <num_rows> <input_cols> <output_cols> | samples row-major
 *   bedge <nrows_total> <rowlen> <num_cols> <input_rows> <output_rows> | samples row-major
 * -> "redge <samples>" / "bedge <samples>"  (the whole array afterwards)
 */
#include <stdio.h>
#include <stdlib.h>
#include <string.h>
#include "jcprepct.c"
#define expand_right_edge_decl 1
#include "jcsample.c"

int main(void)
{
  char *line = NULL; size_t cap = 0;
  setvbuf(stdout, NULL, _IOLBF, 0);
  while (getline(&line, &cap, stdin) > 0) {
    long a[5]; int i, n = 0, r, c; char *p = line + 6, *e; _JSAMPLE *buf; _JSAMPROW *rows; int right = !strncmp(line, "redge ", 6);
    if (!right && strncmp(line, "bedge ", 6)) { printf("unknown\n"); continue; }
    for (i = 0; i < 5; i++) a[i] = strtol(p, &p, 10);
    while (*p == ' ' || *p == '|') p++;
    if (a[0] < 1 || a[1] < 1 || a[0] * a[1] > 100000) { printf("badcase\n"); continue; }
    buf = calloc(a[0] * a[1], sizeof(_JSAMPLE)); rows = malloc(sizeof(_JSAMPROW) * a[0]);
    for (r = 0; r < a[0]; r++) rows[r] = buf + r * a[1];
    for (;;) { long v = strtol(p, &e, 10); if (e == p) break; if (n < a[0] * a[1]) buf[n++] = (_JSAMPLE)v; p = e; }
    if (right) {
      if (a[2] > a[0] || a[4] > a[1] || a[3] < 1 || a[3] > a[1]) { printf("badcase\n"); free(buf); free(rows); continue; }
      expand_right_edge(rows, (int)a[2], (JDIMENSION)a[3], (JDIMENSION)a[4]);
    } else {
      if (a[2] > a[1] || a[4] > a[0] || a[3] < 1 || a[3] > a[0]) { printf("badcase\n"); free(buf); free(rows); continue; }
      expand_bottom_edge(rows, (JDIMENSION)a[2], (int)a[3], (int)a[4]);
    }
    printf("%s", right ? "redge" : "bedge");
    for (r = 0; r < a[0]; r++) for (c = 0; c < a[1]; c++) printf(" %d", (int)rows[r][c]);
    printf("\n");
    free(buf); free(rows);
  }
  free(line);
  return 0;
}
