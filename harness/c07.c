/* C07 unit-level correspondence harness.  Compiled once per precision
 * (-DBITS_IN_JSAMPLE=12 for the 12-bit build) against the CURRENT working tree; the
 * static functions of jcdctmgr.c are reached by including the file.
 * Runs the REAL flss/compute_reciprocal/start_pass_fdctmgr/quantize/convsamp,
 * jpeg_fdct_islow, jpeg_idct_islow (on a real decompress object whose range-limit
 * table and dct_table were built by jdmaster.c / jddctmgr.c) and, in SIMD builds,
 * jsimd_quantize / jsimd_fdct_islow / the IDCT routine jddctmgr.c selected.
 * One result line per case line (same format as ml/C07_driver.ml):
 *   cfg <bits> <dw> <mw> <simd>
 *   recip <d>                         (8-bit)   d in 1..65535
 *   quant <d> <x1> .. <xn>            (8-bit)   real quantize() with compute_reciprocal(d)
 *   divs <q0> .. <q63>                real start_pass_fdctmgr on that table
 *   fdct <v0> .. <v63>                DCTELEM workspace values
 *   idct <c0> .. <c63> | <q0> .. <q63>
 *   rt <s0> .. <s63> | <q0> .. <q63>  samples -> convsamp,fdct,quantize -> idct; prints workspace | coefs | samples
 *   rlt <lo> <hi>                     IDCT_range_limit(cinfo)[lo..hi]
 *   qsweep <dlo> <dhi> <xmax>         (8-bit, harness only) exhaustive oracle
 */
#include <stdio.h>
#include <stdlib.h>
#include <string.h>
#include <setjmp.h>
#include "jcdctmgr.c"

static jmp_buf jb;
static int last_err;
static void my_exit(j_common_ptr c) { last_err = c->err->msg_code; longjmp(jb, 1); }
static void my_emit(j_common_ptr c, int lvl) { (void)c; (void)lvl; }

static struct jpeg_compress_struct cc;
static struct jpeg_decompress_struct dc;
static struct jpeg_error_mgr ce, de;
static unsigned char *base_jpeg; static unsigned long base_len;

static char *line; static size_t cap;

static int read_ints(char **pp, long *out, int max)
{
  char *p = *pp; int n = 0;
  for (;;) {
    while (*p == ' ') p++;
    if (*p == '|' || *p == 0 || *p == '\n' || n >= max) break;
    char *e; long v = strtol(p, &e, 10);
    if (e == p) break;
    out[n++] = v;
    p = e;
  }
  if (*p == '|') p++;
  *pp = p;
  return n;
}

#if BITS_IN_JSAMPLE == 8
#define WRITE_SCANLINES jpeg_write_scanlines
#else
#define WRITE_SCANLINES jpeg12_write_scanlines
#endif

static void make_base_jpeg(void)
{
  _JSAMPLE row[8]; _JSAMPROW rp = row; int y, i;
  for (i = 0; i < 8; i++) row[i] = (_JSAMPLE)(i * 9);
  jpeg_mem_dest(&cc, &base_jpeg, &base_len);
  cc.image_width = 8; cc.image_height = 8; cc.input_components = 1; cc.in_color_space = JCS_GRAYSCALE;
  jpeg_set_defaults(&cc);
  cc.data_precision = BITS_IN_JSAMPLE;
  cc.dct_method = JDCT_ISLOW;
  jpeg_set_quality(&cc, 75, TRUE);
  jpeg_start_compress(&cc, TRUE);
  for (y = 0; y < 8; y++) WRITE_SCANLINES(&cc, &rp, 1);
  jpeg_finish_compress(&cc);
}

/* real start_pass_fdctmgr for the table q on cc; returns the divisor table */
static DCTELEM *setup_divisors(const long *q)
{
  int i;
  jpeg_abort_compress(&cc);
  cc.image_width = 8; cc.image_height = 8; cc.input_components = 1; cc.in_color_space = JCS_GRAYSCALE;
  jpeg_set_defaults(&cc);
  cc.data_precision = BITS_IN_JSAMPLE;
  cc.dct_method = JDCT_ISLOW;
  for (i = 0; i < DCTSIZE2; i++) cc.quant_tbl_ptrs[0]->quantval[i] = (UINT16)q[i];
  _jinit_forward_dct(&cc);
  start_pass_fdctmgr(&cc);
  return ((my_fdct_ptr)cc.fdct)->divisors[0];
}

/* a real decompress object started on the base stream with quant table q */
static int setup_decomp(const long *q)
{
  int i;
  jpeg_abort_decompress(&dc);
  jpeg_mem_src(&dc, base_jpeg, base_len);
  if (jpeg_read_header(&dc, TRUE) != JPEG_HEADER_OK) return 0;
  for (i = 0; i < DCTSIZE2; i++) dc.quant_tbl_ptrs[0]->quantval[i] = (UINT16)q[i];
  dc.dct_method = JDCT_ISLOW;
  dc.do_fancy_upsampling = FALSE;
  jpeg_start_decompress(&dc);
  return 1;
}

static void run_idct(JCOEF *coef, _JSAMPLE out[64], _JSAMPLE out2[64], int *have2)
{
  _JSAMPROW rows[8]; int i;
  jpeg_component_info *compptr = dc.comp_info;
  for (i = 0; i < 8; i++) rows[i] = out + 8 * i;
  _jpeg_idct_islow(&dc, compptr, coef, rows, 0);
  *have2 = 0;
#if BITS_IN_JSAMPLE == 8
  if (dc.idct->inverse_DCT[0] != NULL && dc.idct->inverse_DCT[0] != _jpeg_idct_islow) {
    for (i = 0; i < 8; i++) rows[i] = out2 + 8 * i;
    (*dc.idct->inverse_DCT[0]) (&dc, compptr, coef, rows, 0);
    *have2 = 1;
  }
#endif
}

int main(int argc, char **argv)
{
  long a[64], b[64], *xs; int n, i, k;
  setvbuf(stdout, NULL, _IOLBF, 0);
  int simd = 0;
#ifdef WITH_SIMD
  simd = 1;
#endif
  if (argc > 1 && !strcmp(argv[1], "--cfg")) {
    printf("cfg %d %d %d %d\n", BITS_IN_JSAMPLE, (int)sizeof(DCTELEM) * 8, (int)sizeof(ISLOW_MULT_TYPE) * 8, simd);
    return 0;
  }
  cc.err = jpeg_std_error(&ce); ce.error_exit = my_exit; ce.emit_message = my_emit;
  dc.err = jpeg_std_error(&de); de.error_exit = my_exit; de.emit_message = my_emit;
  if (setjmp(jb)) { printf("fatal setup error %d\n", last_err); return 2; }
  jpeg_create_compress(&cc);
  jpeg_create_decompress(&dc);
  make_base_jpeg();
  xs = malloc(sizeof(long) * 70000);

  while (getline(&line, &cap, stdin) > 0) {
    char *p = line;
    if (setjmp(jb)) { printf("err %d\n", last_err); continue; }
    if (!strncmp(p, "cfg ", 4)) {
      n = (p += 4, read_ints(&p, a, 4));
      if (n == 4 && a[0] == BITS_IN_JSAMPLE && a[1] == (long)sizeof(DCTELEM) * 8 &&
          a[2] == (long)sizeof(ISLOW_MULT_TYPE) * 8 && a[3] == simd)
        printf("cfg %ld %ld %ld %ld\n", a[0], a[1], a[2], a[3]);
      else
        printf("cfg MISMATCH build is %d %d %d %d\n", BITS_IN_JSAMPLE, (int)sizeof(DCTELEM) * 8, (int)sizeof(ISLOW_MULT_TYPE) * 8, simd);
    }
#if BITS_IN_JSAMPLE == 8
    else if (!strncmp(p, "recip ", 6)) {
      DCTELEM dt[DCTSIZE2 * 4]; int ret;
      p += 6; read_ints(&p, a, 1);
      if ((UINT16)a[0] == 0) { printf("recip trap\n"); continue; }
      memset(dt, 0, sizeof(dt));
      ret = compute_reciprocal((UINT16)a[0], dt);
      printf("recip %d %d %d %d %d\n", ret, (int)dt[0], (int)dt[DCTSIZE2], (int)dt[DCTSIZE2 * 2], (int)dt[DCTSIZE2 * 3]);
    }
    else if (!strncmp(p, "quant ", 6)) {
      DCTELEM dt[DCTSIZE2 * 4], one[4], ws[DCTSIZE2]; JCOEF out[DCTSIZE2], out2[DCTSIZE2]; int ret, do_simd = 0;
      static char buf[1 << 20], buf2[1 << 20]; size_t o = 0, o2 = 0;
      p += 6; read_ints(&p, a, 1); n = read_ints(&p, xs, 70000);
      if ((UINT16)a[0] == 0) { printf("quant trap\n"); continue; }
      { DCTELEM tmp[DCTSIZE2 * 4]; ret = compute_reciprocal((UINT16)a[0], tmp);
        for (k = 0; k < 4; k++) one[k] = tmp[DCTSIZE2 * k]; }
      for (k = 0; k < 4; k++) for (i = 0; i < DCTSIZE2; i++) dt[DCTSIZE2 * k + i] = one[k];
#ifdef WITH_SIMD
      do_simd = ret && jsimd_can_quantize();
#endif
      for (k = 0; k < n; k += DCTSIZE2) {
        for (i = 0; i < DCTSIZE2; i++) ws[i] = (DCTELEM)(k + i < n ? xs[k + i] : 0);
        quantize(out, dt, ws);
#ifdef WITH_SIMD
        if (do_simd) jsimd_quantize(out2, dt, ws);
#endif
        for (i = 0; i < DCTSIZE2 && k + i < n; i++) {
          o += sprintf(buf + o, " %d", (int)out[i]);
          if (do_simd) o2 += sprintf(buf2 + o2, " %d", (int)out2[i]);
        }
      }
      buf[o] = 0; buf2[o2] = 0;
      if (do_simd) printf("quant%s |%s\n", buf, buf2); else printf("quant%s\n", buf);
    }
    else if (!strncmp(p, "qsweep ", 7)) {
      /* exhaustive: quantize() with compute_reciprocal(d) == sign(x)*floor((|x|+d/2)/d) */
      DCTELEM dt[DCTSIZE2 * 4], tmp[DCTSIZE2 * 4], ws[DCTSIZE2]; JCOEF out[DCTSIZE2], out2[DCTSIZE2];
      long d, x, bad = 0, badd = 0, badx = 0, badgot = 0, simdbad = 0; int ret, do_simd = 0;
      p += 7; read_ints(&p, a, 4);
      for (d = a[0]; d <= a[1] && !bad; d += (a[3] > 0 ? a[3] : 1)) {
        ret = compute_reciprocal((UINT16)d, tmp);
        for (k = 0; k < 4; k++) for (i = 0; i < DCTSIZE2; i++) dt[DCTSIZE2 * k + i] = tmp[DCTSIZE2 * k];
#ifdef WITH_SIMD
        do_simd = ret && jsimd_can_quantize();
#endif
        for (x = -a[2]; x <= a[2] && !bad; x += DCTSIZE2) {
          for (i = 0; i < DCTSIZE2; i++) ws[i] = (DCTELEM)(x + i <= a[2] ? x + i : 0);
          quantize(out, dt, ws);
#ifdef WITH_SIMD
          if (do_simd) { jsimd_quantize(out2, dt, ws); if (memcmp(out, out2, sizeof(out))) simdbad++; }
#endif
          for (i = 0; i < DCTSIZE2; i++) {
            long v = ws[i], m = v < 0 ? -v : v, e = (m + d / 2) / d;
            if (v < 0) e = -e;
            if (out[i] != e) { bad = 1; badd = d; badx = v; badgot = out[i]; break; }
          }
        }
      }
      if (bad) printf("qsweep BAD d=%ld x=%ld got=%ld\n", badd, badx, badgot);
      else if (simdbad) printf("qsweep SIMDDIFF %ld\n", simdbad);
      else printf("qsweep ok\n");
    }
#endif
    else if (!strncmp(p, "divs ", 5)) {
      DCTELEM *dt;
      p += 5; n = read_ints(&p, a, 64);
      if (n != 64) { printf("divs badcase\n"); continue; }
      dt = setup_divisors(a);
      printf("divs");
#if BITS_IN_JSAMPLE == 8
      for (i = 0; i < DCTSIZE2 * 4; i++) printf(" %d", (int)dt[i]);
#else
      for (i = 0; i < DCTSIZE2; i++) printf(" %ld", (long)dt[i]);
#endif
      printf("\n");
    }
    else if (!strncmp(p, "fdct ", 5)) {
      DCTELEM ws[DCTSIZE2], ws2[DCTSIZE2]; int same = -1;
      p += 5; n = read_ints(&p, a, 64);
      if (n != 64) { printf("fdct badcase\n"); continue; }
      for (i = 0; i < 64; i++) ws[i] = ws2[i] = (DCTELEM)a[i];
      _jpeg_fdct_islow(ws);
#if defined(WITH_SIMD) && BITS_IN_JSAMPLE == 8
      if (jsimd_can_fdct_islow()) { jsimd_fdct_islow(ws2); same = !memcmp(ws, ws2, sizeof(ws)); }
#endif
      printf("fdct");
      for (i = 0; i < 64; i++) printf(" %ld", (long)ws[i]);
      printf(" | simd=%d\n", same);
    }
    else if (!strncmp(p, "idct ", 5)) {
      JCOEF coef[64]; _JSAMPLE out[64], out2[64]; int have2; ISLOW_MULT_TYPE *mt;
      p += 5; n = read_ints(&p, a, 64); k = read_ints(&p, b, 64);
      if (n != 64 || k != 64 || !setup_decomp(b)) { printf("idct badcase\n"); continue; }
      for (i = 0; i < 64; i++) coef[i] = (JCOEF)a[i];
      run_idct(coef, out, out2, &have2);
      mt = (ISLOW_MULT_TYPE *)dc.comp_info[0].dct_table;
      printf("idct");
      for (i = 0; i < 64; i++) printf(" %d", (int)mt[i]);
      printf(" |");
      for (i = 0; i < 64; i++) printf(" %d", (int)out[i]);
      printf(" | simd=%d\n", have2 ? !memcmp(out, out2, sizeof(out)) : -1);
    }
    else if (!strncmp(p, "rt ", 3)) {
      _JSAMPLE smp[64], out[64], out2[64]; _JSAMPROW rows[8]; DCTELEM ws[64], *dt; JCOEF coef[64], coef2[64]; int have2, same = -1;
      p += 3; n = read_ints(&p, a, 64); k = read_ints(&p, b, 64);
      if (n != 64 || k != 64) { printf("rt badcase\n"); continue; }
      for (i = 0; i < 64; i++) smp[i] = (_JSAMPLE)a[i];
      for (i = 0; i < 8; i++) rows[i] = smp + 8 * i;
      dt = setup_divisors(b);
      convsamp(rows, 0, ws);
      _jpeg_fdct_islow(ws);
      quantize(coef, dt, ws);
#if defined(WITH_SIMD) && BITS_IN_JSAMPLE == 8
      /* the path the library itself takes in this build */
      { my_fdct_ptr f = (my_fdct_ptr)cc.fdct; DCTELEM w2[64];
        (*f->convsamp) (rows, 0, w2); (*f->dct) (w2); (*f->quantize) (coef2, dt, w2);
        same = !memcmp(coef, coef2, sizeof(coef)); }
#endif
      if (!setup_decomp(b)) { printf("rt badcase\n"); continue; }
      run_idct(coef, out, out2, &have2);
      if (have2 && memcmp(out, out2, sizeof(out))) same = 0;
      printf("rt");
      for (i = 0; i < 64; i++) printf(" %ld", (long)ws[i]);
      printf(" |");
      for (i = 0; i < 64; i++) printf(" %d", (int)coef[i]);
      printf(" |");
      for (i = 0; i < 64; i++) printf(" %d", (int)out[i]);
      printf(" | simd=%d\n", same);
    }
    else if (!strncmp(p, "rlt ", 4)) {
      _JSAMPLE *rl;
      p += 4; read_ints(&p, a, 2);
      for (i = 0; i < 64; i++) b[i] = 16;
      if (!setup_decomp(b)) { printf("rlt badcase\n"); continue; }
      rl = IDCT_range_limit(&dc);
      printf("rlt");
      for (k = (int)a[0]; k <= (int)a[1] && k <= RANGE_MASK; k++) printf(" %d", (int)rl[k]);
      printf("\n");
    }
    else printf("unknown\n");
  }
  if (setjmp(jb)) return 0;
  jpeg_destroy_compress(&cc);
  jpeg_destroy_decompress(&dc);
  free(base_jpeg); free(xs); free(line);
  return 0;
}
