/* shared by harness/c19sym*.c: line protocol helpers */
#ifndef C19SYM_H
#define C19SYM_H
#include <stdio.h>
#include <stdlib.h>
#include <string.h>
#include <setjmp.h>
/* parse "<rep?> v0 v1 ... " up to ';' or end of line; returns number of ints read, *pp advanced
 * past the ';'.  A leading "*N" sets *rep = N (default 1). */
static int c19_group(char **pp, long *out, int max, long *rep)
{
  char *p = *pp; int n = 0;
  *rep = 1;
  while (*p == ' ') p++;
  if (*p == '*') { p++; *rep = strtol(p, &p, 10); }
  for (;;) {
    while (*p == ' ') p++;
    if (*p == ';') { p++; break; }
    if (*p == 0 || *p == '\n') break;
    { long v = strtol(p, &p, 10); if (n < max) out[n] = v; n++; }
  }
  *pp = p;
  return n;
}
static void c19_print_counts(const long *c)
{
  int i;
  if (!c) return;
  for (i = 0; i < 257; i++) if (c[i]) printf(" %d:%ld", i, c[i]);
}
void c19_hp_line(char *p);
void c19_hl_line(char *p);
#endif
