/* C14 harness (a): op sequences against the REAL jpeg_memory_mgr of the working tree
 * (src/jmemmgr.c is compiled into this TU so that my_memory_mgr can be inspected;
 * jmemnobs.c and the error manager come from libjpeg.a), with malloc/free wrapped
 * (-Wl,--wrap=malloc,--wrap=free,--wrap=calloc,--wrap=realloc) and a failure plan.
 * Same line protocol as ml/C14_driver.ml. */
#define _GNU_SOURCE
#include <stdio.h>
#include <stdlib.h>
#include <string.h>
#include <setjmp.h>
#include <stdint.h>

#include "jmemmgr.c"

void *__real_malloc(size_t);
void __real_free(void *);
void *__real_calloc(size_t, size_t);
void *__real_realloc(void *, size_t);

/* ------------------------------------------------------------ block table */
typedef struct { void *p; size_t sz; long id; int live; } blk_t;
#define MAXBLK 200000
static blk_t blks[MAXBLK];
static int nblk = 0;
static long next_id = 0;
static long alloc_idx = 0;         /* index of the next allocation call (for the failure plan) */
static long badfree = 0;
static int tracking = 0;

/* failure plan */
static int plan_mode = 0;          /* 0 none, 1 from k, 2 at list */
static long plan_from = 0;
static long plan_at[64];
static int plan_nat = 0;

/* events of the current op */
typedef struct { int kind; size_t sz; long id; } ev_t;   /* kind 0 malloc ok, 1 malloc fail, 2 free */
#define MAXEV 100000
static ev_t evs[MAXEV];
static int nev = 0;

static int should_fail(void)
{
  long k = alloc_idx++;
  int i;
  if (plan_mode == 1) return k >= plan_from;
  if (plan_mode == 2) { for (i = 0; i < plan_nat; i++) if (plan_at[i] == k) return 1; }
  return 0;
}

void *__wrap_malloc(size_t sz)
{
  void *p;
  if (!tracking) return __real_malloc(sz);
  if (should_fail()) {
    if (nev < MAXEV) { evs[nev].kind = 1; evs[nev].sz = sz; evs[nev].id = -1; nev++; }
    return NULL;
  }
  p = __real_malloc(sz ? sz : 1);
  if (!p) { fprintf(stderr, "harness: real malloc(%zu) failed\n", sz); exit(3); }
  if (nblk >= MAXBLK) { fprintf(stderr, "harness: block table full\n"); exit(3); }
  blks[nblk].p = p; blks[nblk].sz = sz; blks[nblk].id = next_id; blks[nblk].live = 1; nblk++;
  if (nev < MAXEV) { evs[nev].kind = 0; evs[nev].sz = sz; evs[nev].id = next_id; nev++; }
  next_id++;
  return p;
}

void *__wrap_calloc(size_t n, size_t s)
{
  void *p;
  if (!tracking) return __real_calloc(n, s);
  p = __wrap_malloc(n * s);
  if (p) memset(p, 0, n * s);
  return p;
}

void *__wrap_realloc(void *q, size_t s)
{
  if (!tracking) return __real_realloc(q, s);
  fprintf(stderr, "harness: unexpected realloc from the memory manager\n");
  exit(3);
}

static int find_blk(void *p)
{
  int i;
  for (i = nblk - 1; i >= 0; i--) if (blks[i].p == p && blks[i].live) return i;
  return -1;
}

void __wrap_free(void *p)
{
  int i;
  if (!tracking) { __real_free(p); return; }
  if (!p) return;
  i = find_blk(p);
  if (i < 0) {            /* free of a block that is not live: never pass it on */
    long id = -1; int j;
    for (j = nblk - 1; j >= 0; j--) if (blks[j].p == p) { id = blks[j].id; break; }
    badfree++;
    if (nev < MAXEV) { evs[nev].kind = 2; evs[nev].sz = 0; evs[nev].id = id; nev++; }
    return;
  }
  blks[i].live = 0;
  if (nev < MAXEV) { evs[nev].kind = 2; evs[nev].sz = 0; evs[nev].id = blks[i].id; nev++; }
  __real_free(p);
}

static long id_of(void *p)
{
  int i = find_blk(p);
  return i < 0 ? -1 : blks[i].id;
}

/* ---------------------------------------------------------- error manager */
static jmp_buf jb;
static int err_code, err_parm;
static void my_error_exit(j_common_ptr cinfo)
{
  err_code = cinfo->err->msg_code;
  err_parm = cinfo->err->msg_parm.i[0];
  longjmp(jb, 1);
}
static void my_emit(j_common_ptr cinfo, int lvl) { (void)cinfo; (void)lvl; }
static void my_output(j_common_ptr cinfo) { (void)cinfo; }

static struct jpeg_compress_struct cinfo;
static struct jpeg_error_mgr jerr;

static char outbuf[1 << 22];
static size_t outlen;
#define OUT(...) do { if (outlen < sizeof(outbuf) - 4096) outlen += snprintf(outbuf + outlen, sizeof(outbuf) - outlen, __VA_ARGS__); } while (0)

static void print_events(void)
{
  int i;
  OUT("[");
  for (i = 0; i < nev; i++) {
    if (i) OUT(" ");
    if (evs[i].kind == 0) OUT("m%zu=%ld", evs[i].sz, evs[i].id);
    else if (evs[i].kind == 1) OUT("m%zu=F", evs[i].sz);
    else OUT("f%ld", evs[i].id);
  }
  OUT("]");
}

static const char *errname(char *buf)
{
  switch (err_code) {
  case JERR_OUT_OF_MEMORY: sprintf(buf, "oom%d", err_parm); return buf;
  case JERR_BAD_POOL_ID: return "badpool";
  case JERR_WIDTH_OVERFLOW: return "width";
  case JERR_NO_BACKING_STORE: return "nobs";
  default: sprintf(buf, "err%d", err_code); return buf;
  }
}

static void do_op(char *s)
{
  char name[32] = "";
  unsigned long long a[4] = { 0, 0, 0, 0 };
  long long sa = 0;
  int n;
  volatile int pool;
  char eb[32];
  const char *res = "ok";
  j_common_ptr ci = (j_common_ptr)&cinfo;

  n = sscanf(s, " %31s %llu %llu %llu %llu", name, &a[0], &a[1], &a[2], &a[3]);
  if (n < 1) { OUT("? ; "); return; }
  if (!strcmp(name, "maxmem") || !strcmp(name, "small") || !strcmp(name, "large") || !strcmp(name, "sarr") ||
      !strcmp(name, "barr") || !strcmp(name, "reqs") || !strcmp(name, "reqb") || !strcmp(name, "freep")) {
    /* first argument may be negative (pool id) */
    sscanf(s, " %*s %lld", &sa);
  }
  pool = (int)sa;
  nev = 0;
  if (!strcmp(name, "prec")) {
    cinfo.data_precision = (int)a[0];
  } else if (!strcmp(name, "init")) {
    if (cinfo.mem != NULL) res = "nomgr";
    else if (setjmp(jb)) res = errname(eb);
    else jinit_memory_mgr(ci);
  } else if (cinfo.mem == NULL) {
    res = "nomgr";
  } else if (setjmp(jb)) {
    res = errname(eb);
  } else if (!strcmp(name, "small")) {
    (*cinfo.mem->alloc_small) (ci, pool, (size_t)a[1]);
  } else if (!strcmp(name, "large")) {
    (*cinfo.mem->alloc_large) (ci, pool, (size_t)a[1]);
  } else if (!strcmp(name, "sarr")) {
    if (a[1] == 0) res = "undef";
    else (*cinfo.mem->alloc_sarray) (ci, pool, (JDIMENSION)a[1], (JDIMENSION)a[2]);
  } else if (!strcmp(name, "barr")) {
    if (a[1] == 0) res = "undef";
    else (*cinfo.mem->alloc_barray) (ci, pool, (JDIMENSION)a[1], (JDIMENSION)a[2]);
  } else if (!strcmp(name, "reqs")) {
    (*cinfo.mem->request_virt_sarray) (ci, pool, FALSE, (JDIMENSION)a[1], (JDIMENSION)a[2], (JDIMENSION)a[3]);
  } else if (!strcmp(name, "reqb")) {
    (*cinfo.mem->request_virt_barray) (ci, pool, FALSE, (JDIMENSION)a[1], (JDIMENSION)a[2], (JDIMENSION)a[3]);
  } else if (!strcmp(name, "real")) {
    (*cinfo.mem->realize_virt_arrays) (ci);
  } else if (!strcmp(name, "freep")) {
    (*cinfo.mem->free_pool) (ci, pool);
  } else if (!strcmp(name, "destroy")) {
    (*cinfo.mem->self_destruct) (ci);
  } else if (!strcmp(name, "maxmem")) {
    cinfo.mem->max_memory_to_use = (long)sa;
  } else {
    res = "?";
  }
  OUT("%s", res);
  print_events();
  if (cinfo.mem) OUT("t=%zu ; ", ((my_mem_ptr)cinfo.mem)->total_space_allocated);
  else OUT("t=- ; ");
}

static void print_pools(const char *tag, small_pool_ptr p)
{
  int first = 1;
  OUT("%s=", tag);
  for (; p != NULL; p = p->next) {
    OUT("%s%ld:%zu:%zu", first ? "" : ",", id_of((void *)p), p->bytes_used, p->bytes_left);
    first = 0;
  }
  OUT(" ");
}

static void summary(void)
{
  int i, nl = 0;
  unsigned long long bytes = 0;
  for (i = 0; i < nblk; i++) if (blks[i].live) { nl++; bytes += blks[i].sz; }
  if (cinfo.mem == NULL) {
    OUT("nomgr live=%d bytes=%llu badfree=%ld", nl, bytes, badfree);
  } else {
    my_mem_ptr mem = (my_mem_ptr)cinfo.mem;
    jvirt_sarray_ptr sp; jvirt_barray_ptr bp; int first;
    print_pools("S0", mem->small_list[0]);
    print_pools("S1", mem->small_list[1]);
    print_pools("L0", (small_pool_ptr)mem->large_list[0]);
    print_pools("L1", (small_pool_ptr)mem->large_list[1]);
    OUT("VS="); first = 1;
    for (sp = mem->virt_sarray_list; sp; sp = sp->next) {
      OUT("%s%u:%u:%u:", first ? "" : ",", sp->samplesperrow, sp->rows_in_array, sp->maxaccess);
      if (sp->mem_buffer) OUT("R%u", sp->rows_in_mem); else OUT("U");
      first = 0;
    }
    OUT(" VB="); first = 1;
    for (bp = mem->virt_barray_list; bp; bp = bp->next) {
      OUT("%s%u:%u:%u:", first ? "" : ",", bp->blocksperrow, bp->rows_in_array, bp->maxaccess);
      if (bp->mem_buffer) OUT("R%u", bp->rows_in_mem); else OUT("U");
      first = 0;
    }
    OUT(" t=%zu maxmem=%ld live=%d bytes=%llu badfree=%ld", mem->total_space_allocated, mem->pub.max_memory_to_use, nl, bytes, badfree);
  }
}

static void do_seq(char *body)
{
  char *bar = strchr(body, '|');
  char *spec, *ops, *tok, *save = NULL;
  int i, nl = 0;
  if (!bar) { puts("?"); return; }
  *bar = 0; spec = body; ops = bar + 1;
  /* failure plan */
  plan_mode = 0; plan_nat = 0;
  {
    char w[16] = ""; int off = 0;
    sscanf(spec, " %15s%n", w, &off);
    if (!strcmp(w, "from")) { plan_mode = 1; plan_from = atol(spec + off); }
    else if (!strcmp(w, "at")) {
      char *q = spec + off, *e;
      plan_mode = 2;
      for (;;) { long v = strtol(q, &e, 10); if (e == q) break; if (plan_nat < 64) plan_at[plan_nat++] = v; q = e; }
    }
  }
  /* fresh object */
  memset(&cinfo, 0, sizeof(cinfo));
  cinfo.err = jpeg_std_error(&jerr);
  jerr.error_exit = my_error_exit;
  jerr.emit_message = my_emit;
  jerr.output_message = my_output;
  cinfo.is_decompressor = FALSE;
  cinfo.data_precision = 8;
  nblk = 0; next_id = 0; alloc_idx = 0; badfree = 0; outlen = 0; outbuf[0] = 0;
  tracking = 1;
  for (tok = strtok_r(ops, ";", &save); tok; tok = strtok_r(NULL, ";", &save)) {
    char *t = tok; while (*t == ' ') t++;
    if (!*t || *t == '\n') continue;
    do_op(tok);
  }
  OUT("|| ");
  summary();
  nev = 0;
  if (cinfo.mem != NULL) {
    if (!setjmp(jb)) (*cinfo.mem->self_destruct) ((j_common_ptr)&cinfo);
  }
  for (i = 0; i < nblk; i++) if (blks[i].live) nl++;
  OUT(" || end live=%d badfree=%ld", nl, badfree);
  tracking = 0;
  for (i = 0; i < nblk; i++) if (blks[i].live) { __real_free(blks[i].p); blks[i].live = 0; }
  puts(outbuf);
}

/* ------------------------------------------------------------------------------------------
 * virtual-array access path with a BACKING STORE: jpeg_open_backing_store is wrapped at link time
 * (-Wl,--wrap=jpeg_open_backing_store); when enabled the harness supplies an in-memory "temp file", so
 * the real realize_virt_arrays takes its backing-store branch and the real access_virt_* / do_*_io swap. */
void __real_jpeg_open_backing_store(j_common_ptr cinfo, backing_store_ptr info, long total_bytes_needed);
static int bs_enabled;
static unsigned char *bs_file; static long bs_size;
static void *bs_rows; static int bs_isb; static long bs_rowbytes;      /* the array under test */
static char bs_log[1 << 16]; static size_t bs_loglen;

static long bs_memidx(void *addr)
{
  long i, n;
  if (bs_isb) { jvirt_barray_ptr b = (jvirt_barray_ptr)bs_rows; n = b->rows_in_mem; for (i = 0; i < n; i++) if ((void *)b->mem_buffer[i] == addr) return i; }
  else { jvirt_sarray_ptr p = (jvirt_sarray_ptr)bs_rows; n = p->rows_in_mem; for (i = 0; i < n; i++) if ((void *)p->mem_buffer[i] == addr) return i; }
  return -1;
}
static void bs_xfer(int writing, void *addr, long off, long cnt)
{
  if (off < 0 || cnt < 0 || off + cnt > bs_size) { fprintf(stderr, "harness: backing-store transfer [%ld,+%ld) outside the file of %ld bytes\n", off, cnt, bs_size); exit(5); }
  if (writing) memcpy(bs_file + off, addr, (size_t)cnt); else memcpy(addr, bs_file + off, (size_t)cnt);
  if (bs_loglen < sizeof(bs_log) - 64)
    bs_loglen += snprintf(bs_log + bs_loglen, sizeof(bs_log) - bs_loglen, "%s%c%ld:%ld:%ld", bs_loglen ? " " : "", writing ? 'W' : 'R',
                          bs_memidx(addr), bs_rowbytes ? off / bs_rowbytes : -1, bs_rowbytes ? cnt / bs_rowbytes : -1);
}
static void bs_read(j_common_ptr c, backing_store_ptr info, void *addr, long off, long cnt) { (void)c; (void)info; bs_xfer(0, addr, off, cnt); }
static void bs_write(j_common_ptr c, backing_store_ptr info, void *addr, long off, long cnt) { (void)c; (void)info; bs_xfer(1, addr, off, cnt); }
static void bs_close(j_common_ptr c, backing_store_ptr info) { (void)c; (void)info; __real_free(bs_file); bs_file = NULL; }
void __wrap_jpeg_open_backing_store(j_common_ptr cinfo, backing_store_ptr info, long total_bytes_needed)
{
  if (!bs_enabled) { __real_jpeg_open_backing_store(cinfo, info, total_bytes_needed); return; }
  info->read_backing_store = bs_read; info->write_backing_store = bs_write; info->close_backing_store = bs_close;
  bs_size = total_bytes_needed; bs_file = (unsigned char *)__real_malloc((size_t)total_bytes_needed + 1);
  memset(bs_file, 0xEE, (size_t)total_bytes_needed + 1);
}

/* vacc <s|b> <prec> <width> <rows> <maxacc> <prezero> <maxmem> | r start num ; w start v v v ; ... */
static void do_vacc(char *body)
{
  char *bar = strchr(body, '|'), kind = 's', *tok, *save = NULL; char eb[32];
  int prec = 8, pz = 0; unsigned long width = 1, rows = 1, maxacc = 1; long maxmem = 0;
  j_common_ptr ci = (j_common_ptr)&cinfo; jvirt_sarray_ptr sp = NULL; jvirt_barray_ptr bp = NULL;
  if (!bar) { puts("?"); return; }
  *bar = 0;
  sscanf(body, " %c %d %lu %lu %lu %d %ld", &kind, &prec, &width, &rows, &maxacc, &pz, &maxmem);
  memset(&cinfo, 0, sizeof(cinfo));
  cinfo.err = jpeg_std_error(&jerr); jerr.error_exit = my_error_exit; jerr.emit_message = my_emit; jerr.output_message = my_output;
  cinfo.is_decompressor = FALSE; cinfo.data_precision = prec;
  nblk = 0; next_id = 0; alloc_idx = 0; badfree = 0; outlen = 0; outbuf[0] = 0; plan_mode = 0; nev = 0; bs_loglen = 0; bs_log[0] = 0;
  tracking = 1; bs_enabled = 1; bs_isb = kind == 'b';
  if (setjmp(jb)) { OUT("setup %s", errname(eb)); goto done; }
  jinit_memory_mgr(ci);
  if (bs_isb) bp = (*cinfo.mem->request_virt_barray) (ci, JPOOL_IMAGE, pz, (JDIMENSION)width, (JDIMENSION)rows, (JDIMENSION)maxacc);
  else sp = (*cinfo.mem->request_virt_sarray) (ci, JPOOL_IMAGE, pz, (JDIMENSION)width, (JDIMENSION)rows, (JDIMENSION)maxacc);
  bs_rows = bs_isb ? (void *)bp : (void *)sp;
  bs_rowbytes = bs_isb ? (long)width * (long)sizeof(JBLOCK) : (long)width * (prec > 8 ? 2 : 1);
  {
    size_t total = ((my_mem_ptr)cinfo.mem)->total_space_allocated;
    cinfo.mem->max_memory_to_use = maxmem;
    (*cinfo.mem->realize_virt_arrays) (ci);
    OUT("geom inmem=%u rpc=%u open=%d total=%zu", bs_isb ? bp->rows_in_mem : sp->rows_in_mem, bs_isb ? bp->rowsperchunk : sp->rowsperchunk,
        bs_isb ? (int)bp->b_s_open : (int)sp->b_s_open, total);
  }
  for (tok = strtok_r(bar + 1, ";", &save); tok; tok = strtok_r(NULL, ";", &save)) {
    char op = 0; unsigned long start = 0, num = 0; int vals[64], nv = 0, off = 0, n2 = 0; char *q;
    volatile int writable;
    if (sscanf(tok, " %c %lu%n", &op, &start, &off) < 2) continue;
    q = tok + off;
    if (op == 'r') { sscanf(q, " %lu", &num); writable = 0; }
    else { while (nv < 64 && sscanf(q, " %d%n", &vals[nv], &n2) == 1) { nv++; q += n2; } num = (unsigned long)nv; writable = 1; }
    bs_loglen = 0; bs_log[0] = 0;
    OUT(" ; ");
    if (setjmp(jb)) {
      OUT("%s", err_code == JERR_BAD_VIRTUAL_ACCESS ? "bad" : err_code == JERR_VIRTUAL_BUG ? "bug" : errname(eb));
    } else {
      unsigned long k; long idx;
      if (bs_isb) {
        JBLOCKARRAY r = (*cinfo.mem->access_virt_barray) (ci, bp, (JDIMENSION)start, (JDIMENSION)num, writable);
        idx = (long)(r - bp->mem_buffer);
        OUT("ok off=%ld", idx);
        if (idx < 0 || idx + (long)num > (long)bp->rows_in_mem) OUT(" OUTSIDE-WINDOW");
        else if (writable) { for (k = 0; k < num; k++) { memset(r[k], 0x77, (size_t)bs_rowbytes); r[k][0][0] = (JCOEF)vals[k]; } }
        else { OUT(" ["); for (k = 0; k < num; k++) OUT("%s%d", k ? " " : "", (int)r[k][0][0]); OUT("]"); }
      } else {
        JSAMPARRAY r = (*cinfo.mem->access_virt_sarray) (ci, sp, (JDIMENSION)start, (JDIMENSION)num, writable);
        idx = (long)(r - sp->mem_buffer);
        OUT("ok off=%ld", idx);
        if (idx < 0 || idx + (long)num > (long)sp->rows_in_mem) OUT(" OUTSIDE-WINDOW");
        else if (writable) { for (k = 0; k < num; k++) { short v = (short)vals[k]; memset(r[k], 0x77, (size_t)bs_rowbytes); memcpy(r[k], &v, 2); } }
        else { OUT(" ["); for (k = 0; k < num; k++) { short v; memcpy(&v, r[k], 2); OUT("%s%d", k ? " " : "", (int)v); } OUT("]"); }
      }
    }
    OUT(" x=[%s]", bs_log);
    if (bs_isb) OUT(" cur=%u undef=%u dirty=%d", bp->cur_start_row, bp->first_undef_row, (int)bp->dirty);
    else OUT(" cur=%u undef=%u dirty=%d", sp->cur_start_row, sp->first_undef_row, (int)sp->dirty);
  }
done:
  if (cinfo.mem != NULL && !setjmp(jb)) (*cinfo.mem->self_destruct) (ci);
  { int i, nl = 0; for (i = 0; i < nblk; i++) if (blks[i].live) nl++; OUT(" || end live=%d badfree=%ld", nl, badfree);
    tracking = 0; for (i = 0; i < nblk; i++) if (blks[i].live) { __real_free(blks[i].p); blks[i].live = 0; } }
  bs_enabled = 0; if (bs_file) { __real_free(bs_file); bs_file = NULL; }
  puts(outbuf);
}

static char line[1 << 20];

int main(void)
{
  setvbuf(stdout, NULL, _IOLBF, 0);
  unsetenv("JPEGMEM");
  while (fgets(line, sizeof(line), stdin)) {
    size_t n = strlen(line);
    while (n && (line[n - 1] == '\n' || line[n - 1] == '\r')) line[--n] = 0;
    if (!strcmp(line, "sizes")) {
#ifdef WITH_SIMD
      int simd = 1;
#else
      int simd = 0;
#endif
      printf("cfg simd=%d align=%zu hdr=%zu max=%ld f0=%zu f1=%zu e0=%zu e1=%zu minslop=%d mgr=%zu sctl=%zu bctl=%zu ptr=%zu block=%zu\n",
             simd, (size_t)ALIGN_SIZE, sizeof(small_pool_hdr), (long)MAX_ALLOC_CHUNK, first_pool_slop[0], first_pool_slop[1],
             extra_pool_slop[0], extra_pool_slop[1], (int)MIN_SLOP, sizeof(my_memory_mgr), sizeof(struct jvirt_sarray_control),
             sizeof(struct jvirt_barray_control), sizeof(JSAMPROW), sizeof(JBLOCK));
    } else if (!strncmp(line, "cfg ", 4)) {
      char mine[512];
#ifdef WITH_SIMD
      int simd = 1;
#else
      int simd = 0;
#endif
      snprintf(mine, sizeof(mine), "cfg simd=%d align=%zu hdr=%zu max=%ld f0=%zu f1=%zu e0=%zu e1=%zu minslop=%d mgr=%zu sctl=%zu bctl=%zu ptr=%zu block=%zu",
             simd, (size_t)ALIGN_SIZE, sizeof(small_pool_hdr), (long)MAX_ALLOC_CHUNK, first_pool_slop[0], first_pool_slop[1],
             extra_pool_slop[0], extra_pool_slop[1], (int)MIN_SLOP, sizeof(my_memory_mgr), sizeof(struct jvirt_sarray_control),
             sizeof(struct jvirt_barray_control), sizeof(JSAMPROW), sizeof(JBLOCK));
      puts(strcmp(mine, line) ? "cfg MISMATCH-harness" : "cfg ok");
    } else if (!strncmp(line, "seq", 3)) {
      do_seq(line + 3);
    } else if (!strncmp(line, "vacc", 4)) {
      do_vacc(line + 4);
    } else {
      puts("?");
    }
  }
  return 0;
}
