/* C02 API harness: lossless round trips through the REAL library of the working
 * tree, both APIs, with the difference arrays observed where the library hands
 * them to / receives them from the entropy coder (function pointers of
 * cinfo->entropy, jpegint.h), so that they can be compared with the extracted
 * model (ml/C02_driver.ml prints the same lines).
 *
 *  api tj prec w h nc ri rmode rval pf bottomup pad scanmode bufimg | psv pt ... | plane0 | plane1 ...
 *      tj3Compress{8,12,16} -> tj3Decompress{8,12,16}; the same stream is also
 *      decoded through jpeg_read_scanlines with the decode_mcus observer.
 *      -> ok ed - ; dd <c0> / <c1> .. ; out <c0> / <c1> ..      | rej | fail <why>
 *  api lj ... same fields ...
 *      jpeg_enable_lossless (+ scan script) + jpeg{,12,16}_write_scanlines with the
 *      encode_mcus observer, then jpeg{,12,16}_read_scanlines with the decode_mcus observer
 *      -> ok ed <..> ; dd <..> ; out <..>
 *  inj prec w h nc ri | psv pt | diffplane0 | ...
 *      the encoder's difference rows are REPLACED by the given ones before the
 *      real entropy encoder sees them (all passes); decoded through the real
 *      decoder -> ok dd <..> ; out <..>
 *  two more header fields after bufimg: sus seed -- the libjpeg decode is fed by a SUSPENDING jpeg_source_mgr:
 *      sus 0 jpeg_mem_src, k > 0 k bytes at a time, -2 pseudo-random chunks 1..64 (seed), -3 one split at byte `seed`,
 *      -1 every split position of the stream (small images)
 *  rmode: 0 none, 1 rows (restart_in_rows / TJPARAM_RESTARTROWS), 2 blocks (restart_interval / TJPARAM_RESTARTBLOCKS)
 *  pf   : tj: TJPF_* ; lj: 0 natural colour space for nc, 1 JCS_UNKNOWN, 2 JCS_EXT_BGR (nc=3), 3 JCS_EXT_XRGB (nc=3)
 *  scanmode (lj): 0 default single scan, 1 explicit single scan, 2 one scan per component (own psv/pt),
 *                 3 scan {0} then scan {1..nc-1}, 4 scans of up to 3 consecutive components (nc up to 10, JCS_UNKNOWN)
 *  bufimg (lj decode): 1 = buffered-image mode (jpeg_consume_input / jpeg_start_output)
 */
#include <stdio.h>
#include <stdlib.h>
#include <string.h>
#include <setjmp.h>
#define JPEG_INTERNALS
#include "jinclude.h"
#include "jpeglib.h"
#include "jerror.h"
#include "turbojpeg.h"

#define MAXC 10
#define MAXPIX (1 << 18)
static char line[1 << 23];
static int plane[MAXC][MAXPIX];     /* input planes (samples or injected differences) */
static int outp[MAXC][MAXPIX], outp2[MAXC][MAXPIX];
static int ed[MAXC][MAXPIX], dd[MAXC][MAXPIX];
static int edn[MAXC], ddn[MAXC], injn[MAXC];
static int inject, hook_problem;
#define RAWMAX 1500
static int rawbuf[RAWMAX], rawn;      /* the destination buffer of tj3Decompress*, element by element (small images) */

static jmp_buf jb;
static int last_err;
static void my_exit(j_common_ptr c) { last_err = c->err->msg_code; longjmp(jb, 1); }
static void my_emit(j_common_ptr c, int lvl) { if (lvl < 0) c->err->num_warnings++; }

/* ------------------------------------------------------------ observers */
static void (*orig_c_start_pass) (j_compress_ptr, boolean);
static JDIMENSION (*orig_encode_mcus) (j_compress_ptr, JDIFFIMAGE, JDIMENSION, JDIMENSION, JDIMENSION);
static JDIMENSION (*orig_decode_mcus) (j_decompress_ptr, JDIFFIMAGE, JDIMENSION, JDIMENSION, JDIMENSION);
static int cur_gather;

static JDIMENSION my_encode_mcus(j_compress_ptr cinfo, JDIFFIMAGE diff_buf, JDIMENSION row,
                                 JDIMENSION col, JDIMENSION n)
{
  int k;
  if (col != 0 || n != cinfo->MCUs_per_row) hook_problem = 1;
  for (k = 0; k < cinfo->comps_in_scan; k++) {
    jpeg_component_info *cp = cinfo->cur_comp_info[k];
    int ci = cp->component_index, w = (int)cp->width_in_blocks, x;
    JDIFFROW r = diff_buf[ci][row];
    if (inject) {
      for (x = 0; x < w; x++) r[x] = plane[ci][injn[ci] + x];
      injn[ci] += w;
    }
    if (!cur_gather) {
      if (edn[ci] + w <= MAXPIX) for (x = 0; x < w; x++) ed[ci][edn[ci] + x] = r[x];
      edn[ci] += w;
    }
  }
  return (*orig_encode_mcus) (cinfo, diff_buf, row, col, n);
}

static void my_c_start_pass(j_compress_ptr cinfo, boolean gather)
{
  int k;
  (*orig_c_start_pass) (cinfo, gather);
  cur_gather = gather;
  orig_encode_mcus = cinfo->entropy->encode_mcus;
  cinfo->entropy->encode_mcus = my_encode_mcus;
  for (k = 0; k < cinfo->comps_in_scan; k++) {
    int ci = cinfo->cur_comp_info[k]->component_index;
    injn[ci] = 0;
    if (!gather) edn[ci] = 0;
  }
}

static void install_c_hooks(j_compress_ptr cinfo)
{
  int ci;
  for (ci = 0; ci < MAXC; ci++) edn[ci] = injn[ci] = 0;
  hook_problem = 0;
  cur_gather = cinfo->optimize_coding;       /* the first pass has already been started */
  orig_c_start_pass = cinfo->entropy->start_pass;
  cinfo->entropy->start_pass = my_c_start_pass;
  orig_encode_mcus = cinfo->entropy->encode_mcus;
  cinfo->entropy->encode_mcus = my_encode_mcus;
}

static JDIMENSION my_decode_mcus(j_decompress_ptr cinfo, JDIFFIMAGE diff_buf, JDIMENSION row,
                                 JDIMENSION col, JDIMENSION n)
{
  JDIMENSION got = (*orig_decode_mcus) (cinfo, diff_buf, row, col, n);
  int k;
  /* with a suspending source a call may complete only the first `got` MCUs; the
   * difference controller resumes at column col + got (jddiffct.c MCU_ctr) */
  if (got > n || col + n != cinfo->MCUs_per_row) hook_problem = 1;
  for (k = 0; k < cinfo->comps_in_scan; k++) {
    jpeg_component_info *cp = cinfo->cur_comp_info[k];
    int ci = cp->component_index, x;
    JDIFFROW r = diff_buf[ci][row];
    if (ddn[ci] + (int)got <= MAXPIX) for (x = 0; x < (int)got; x++) dd[ci][ddn[ci] + x] = r[col + x];
    ddn[ci] += (int)got;
  }
  return got;
}

/* ----------------------------------------------------------- libjpeg API */
static unsigned char *jbuf; static unsigned long jsize;

static int lj_compress(int prec, int w, int h, int nc, int rmode, long rval, int pf, int scanmode,
                       const int *pp)
{
  struct jpeg_compress_struct c; struct jpeg_error_mgr e;
  jpeg_scan_info scans[MAXC]; int ns = 0, ci, x, y, ps = nc, off[MAXC];
  void * volatile rowbuf = NULL;
  jbuf = NULL; jsize = 0;
  c.err = jpeg_std_error(&e); e.error_exit = my_exit; e.emit_message = my_emit;
  if (setjmp(jb)) { jpeg_destroy_compress(&c); free(rowbuf); free(jbuf); jbuf = NULL; return -1; }
  jpeg_create_compress(&c);
  jpeg_mem_dest(&c, &jbuf, &jsize);
  c.image_width = w; c.image_height = h; c.input_components = nc;
  for (ci = 0; ci < nc; ci++) off[ci] = ci;
  if (pf == 1) c.in_color_space = JCS_UNKNOWN;
  else if (pf == 2 && nc == 3) { c.in_color_space = JCS_EXT_BGR; off[0] = 2; off[2] = 0; }
  else if (pf == 3 && nc == 3) { c.in_color_space = JCS_EXT_XRGB; c.input_components = ps = 4; off[0] = 1; off[1] = 2; off[2] = 3; }
  else c.in_color_space = nc == 1 ? JCS_GRAYSCALE : nc == 3 ? JCS_RGB : nc == 4 ? JCS_CMYK : JCS_UNKNOWN;
  c.data_precision = prec;
  jpeg_set_defaults(&c);
  jpeg_enable_lossless(&c, pp[0], pp[1]);
  if (rmode == 1) c.restart_in_rows = (int)rval;
  else if (rmode == 2) c.restart_interval = (unsigned int)rval;
  if (scanmode == 1) {
    scans[0].comps_in_scan = nc; for (ci = 0; ci < nc; ci++) scans[0].component_index[ci] = ci;
    scans[0].Ss = pp[0]; scans[0].Se = 0; scans[0].Ah = 0; scans[0].Al = pp[1]; ns = 1;
  } else if (scanmode == 2) {
    for (ci = 0; ci < nc; ci++) {
      scans[ci].comps_in_scan = 1; scans[ci].component_index[0] = ci;
      scans[ci].Ss = pp[2 * ci]; scans[ci].Se = 0; scans[ci].Ah = 0; scans[ci].Al = pp[2 * ci + 1];
    }
    ns = nc;
  } else if (scanmode == 3 && nc >= 2) {
    scans[0].comps_in_scan = 1; scans[0].component_index[0] = 0;
    scans[0].Ss = pp[0]; scans[0].Se = 0; scans[0].Ah = 0; scans[0].Al = pp[1];
    scans[1].comps_in_scan = nc - 1; for (ci = 1; ci < nc; ci++) scans[1].component_index[ci - 1] = ci;
    scans[1].Ss = pp[2]; scans[1].Se = 0; scans[1].Ah = 0; scans[1].Al = pp[3]; ns = 2;
  }
  else if (scanmode == 4) {
    for (ci = 0; ci < nc; ci += 3) {
      int k, m = nc - ci < 3 ? nc - ci : 3;
      scans[ns].comps_in_scan = m; for (k = 0; k < m; k++) scans[ns].component_index[k] = ci + k;
      scans[ns].Ss = pp[2 * ci]; scans[ns].Se = 0; scans[ns].Ah = 0; scans[ns].Al = pp[2 * ci + 1]; ns++;
    }
  }
  if (ns) { c.scan_info = scans; c.num_scans = ns; }
  jpeg_start_compress(&c, TRUE);
  install_c_hooks(&c);
  rowbuf = malloc((size_t)w * ps * sizeof(unsigned short) + 16);
  for (y = 0; y < h; y++) {
    if (prec <= 8) {
      JSAMPLE *r = (JSAMPLE *)rowbuf; JSAMPROW rp = r;
      memset(r, 0x5A, (size_t)w * ps);
      for (x = 0; x < w; x++) for (ci = 0; ci < nc; ci++) r[x * ps + off[ci]] = (JSAMPLE)(inject ? 0 : plane[ci][y * w + x]);
      jpeg_write_scanlines(&c, &rp, 1);
    } else if (prec <= 12) {
      J12SAMPLE *r = (J12SAMPLE *)rowbuf; J12SAMPROW rp = r;
      memset(r, 0, (size_t)w * ps * 2);
      for (x = 0; x < w; x++) for (ci = 0; ci < nc; ci++) r[x * ps + off[ci]] = (J12SAMPLE)(inject ? 0 : plane[ci][y * w + x]);
      jpeg12_write_scanlines(&c, &rp, 1);
    } else {
      J16SAMPLE *r = (J16SAMPLE *)rowbuf; J16SAMPROW rp = r;
      memset(r, 0x5A, (size_t)w * ps * 2);
      for (x = 0; x < w; x++) for (ci = 0; ci < nc; ci++) r[x * ps + off[ci]] = (J16SAMPLE)(inject ? 0 : plane[ci][y * w + x]);
      jpeg16_write_scanlines(&c, &rp, 1);
    }
  }
  jpeg_finish_compress(&c);
  jpeg_destroy_compress(&c);
  free(rowbuf);
  return 0;
}

/* ---- suspending data source (libjpeg.txt "I/O suspension"): a growing window
 * onto the in-memory stream; fill_input_buffer() returns FALSE, the application
 * "receives" the next chunk and calls the library again. ---- */
typedef struct {
  struct jpeg_source_mgr pub;
  const unsigned char *data;
  size_t size, avail, skip_pending;
  int mode;               /* k > 0: k bytes at a time; -2: pseudo-random 1..64; -3: split at pos, then the rest */
  size_t pos;
  unsigned long long lcg;
  long suspensions;
} chunk_src;
static void cs_init(j_decompress_ptr cinfo) { }
static boolean cs_fill(j_decompress_ptr cinfo) { ((chunk_src *)cinfo->src)->suspensions++; return FALSE; }
static void cs_skip(j_decompress_ptr cinfo, long n)
{
  chunk_src *s = (chunk_src *)cinfo->src;
  if (n <= 0) return;
  if ((size_t)n > s->pub.bytes_in_buffer) { s->skip_pending += (size_t)n - s->pub.bytes_in_buffer; n = (long)s->pub.bytes_in_buffer; }
  s->pub.next_input_byte += n; s->pub.bytes_in_buffer -= (size_t)n;
}
static void cs_term(j_decompress_ptr cinfo) { }
static int cs_feed(chunk_src *s)
{
  size_t n, consumed;
  if (s->avail >= s->size) return 0;
  if (s->mode > 0) n = (size_t)s->mode;
  else if (s->mode == -2) { s->lcg = s->lcg * 6364136223846793005ULL + 1442695040888963407ULL; n = 1 + (size_t)((s->lcg >> 33) % 64); }
  else n = s->avail == 0 ? s->pos : s->size;
  if (n == 0) n = 1;
  if (n > s->size - s->avail) n = s->size - s->avail;
  consumed = (size_t)(s->pub.next_input_byte - s->data);
  s->avail += n;
  s->pub.bytes_in_buffer = s->avail - consumed;
  if (s->skip_pending) {
    size_t k = s->skip_pending < s->pub.bytes_in_buffer ? s->skip_pending : s->pub.bytes_in_buffer;
    s->pub.next_input_byte += k; s->pub.bytes_in_buffer -= k; s->skip_pending -= k;
  }
  return 1;
}
static int sus_mode; static size_t sus_pos; static unsigned long long sus_seed; static long sus_count;

/* decode buf into out[][]; returns 0 ok.  sus_mode 0: jpeg_mem_src, else the suspending source */
static int lj_decode(const unsigned char *buf, unsigned long size, int bufimg, int w, int h, int nc, int prec,
                     int (*out)[MAXPIX])
{
  struct jpeg_decompress_struct d; struct jpeg_error_mgr e; void * volatile rowbuf = NULL;
  static chunk_src cs; int ci, x, y, rc; volatile int hooked = 0;
  for (ci = 0; ci < MAXC; ci++) ddn[ci] = 0;
  d.err = jpeg_std_error(&e); e.error_exit = my_exit; e.emit_message = my_emit;
  if (setjmp(jb)) { sus_count = cs.suspensions; jpeg_destroy_decompress(&d); free(rowbuf); return -1; }
  jpeg_create_decompress(&d);
  if (sus_mode == 0) jpeg_mem_src(&d, buf, size);
  else {
    memset(&cs, 0, sizeof(cs));
    cs.pub.init_source = cs_init; cs.pub.fill_input_buffer = cs_fill; cs.pub.skip_input_data = cs_skip;
    cs.pub.resync_to_restart = jpeg_resync_to_restart; cs.pub.term_source = cs_term;
    cs.data = buf; cs.size = size; cs.mode = sus_mode; cs.pos = sus_pos; cs.lcg = sus_seed;
    cs.pub.next_input_byte = buf; cs.pub.bytes_in_buffer = 0;
    d.src = &cs.pub;
  }
#define FEED() do { if (sus_mode == 0 || !cs_feed(&cs)) { last_err = -5; longjmp(jb, 1); } } while (0)
#define HOOK() do { if (!hooked && d.entropy) { orig_decode_mcus = d.entropy->decode_mcus; \
                    d.entropy->decode_mcus = my_decode_mcus; hooked = 1; } } while (0)
  while (jpeg_read_header(&d, TRUE) == JPEG_SUSPENDED) FEED();
  if ((int)d.image_width != w || (int)d.image_height != h || d.num_components != nc || d.data_precision != prec ||
      !d.master->lossless) { jpeg_destroy_decompress(&d); return -2; }
  if (bufimg || jpeg_has_multiple_scans(&d)) d.buffered_image = TRUE;
  while (!jpeg_start_decompress(&d)) { HOOK(); FEED(); }
  HOOK();
  if (d.output_components != nc) { jpeg_destroy_decompress(&d); return -3; }
  if (d.buffered_image) {
    while ((rc = jpeg_consume_input(&d)) != JPEG_REACHED_EOI) if (rc == JPEG_SUSPENDED) FEED();
    while (!jpeg_start_output(&d, d.input_scan_number)) FEED();
  }
  rowbuf = malloc((size_t)w * nc * sizeof(unsigned short) + 16);
  for (y = 0; y < h; y++) {
    if (prec <= 8) {
      JSAMPLE *r = (JSAMPLE *)rowbuf; JSAMPROW rp = r;
      while (jpeg_read_scanlines(&d, &rp, 1) != 1) FEED();
      for (x = 0; x < w; x++) for (ci = 0; ci < nc; ci++) out[ci][y * w + x] = r[x * nc + ci];
    } else if (prec <= 12) {
      J12SAMPLE *r = (J12SAMPLE *)rowbuf; J12SAMPROW rp = r;
      while (jpeg12_read_scanlines(&d, &rp, 1) != 1) FEED();
      for (x = 0; x < w; x++) for (ci = 0; ci < nc; ci++) out[ci][y * w + x] = r[x * nc + ci];
    } else {
      J16SAMPLE *r = (J16SAMPLE *)rowbuf; J16SAMPROW rp = r;
      while (jpeg16_read_scanlines(&d, &rp, 1) != 1) FEED();
      for (x = 0; x < w; x++) for (ci = 0; ci < nc; ci++) out[ci][y * w + x] = r[x * nc + ci];
    }
  }
  if (d.buffered_image) while (!jpeg_finish_output(&d)) FEED();
  while (!jpeg_finish_decompress(&d)) FEED();
  sus_count = sus_mode ? cs.suspensions : 0;
  if (e.num_warnings) { jpeg_destroy_decompress(&d); free(rowbuf); return -4; }
  jpeg_destroy_decompress(&d);
  free(rowbuf);
  return 0;
}

/* decode according to the suspension schedule of the case:
 *   0 jpeg_mem_src; k > 0 chunks of k bytes; -2 pseudo-random chunks (seed); -3 one split at byte `seed`;
 *   -1 EVERY split position 1..size-1 (small images): each must give the results of the unsuspended decode;
 *      the first differing decode is the one reported */
#define SMALLPIX 4096
static int out0[MAXC][SMALLPIX], dd0[MAXC][SMALLPIX];
static int decode_scheduled(const unsigned char *buf, unsigned long size, int bufimg, int w, int h, int nc, int prec,
                            int (*out)[MAXPIX], int susmode, unsigned long long seed)
{
  int rc, ci, i, n = w * h; size_t p;
  if (susmode != -1 || n > SMALLPIX) {
    sus_mode = susmode == -1 ? 1 : susmode; sus_seed = seed; sus_pos = (size_t)seed;
    rc = lj_decode(buf, size, bufimg, w, h, nc, prec, out);
    sus_mode = 0;
    return rc;
  }
  sus_mode = 0;
  rc = lj_decode(buf, size, bufimg, w, h, nc, prec, out);
  if (rc) return rc;
  for (ci = 0; ci < nc; ci++) for (i = 0; i < n; i++) { out0[ci][i] = out[ci][i]; dd0[ci][i] = dd[ci][i]; }
  for (p = 1; p < size; p++) {
    int differ = 0;
    sus_mode = -3; sus_pos = p;
    rc = lj_decode(buf, size, bufimg, w, h, nc, prec, out);
    sus_mode = 0;
    if (rc) { fprintf(stderr, "split at byte %lu of %lu: decode failed\n", (unsigned long)p, size); return rc; }
    for (ci = 0; ci < nc; ci++) {
      if (ddn[ci] != n) differ = 1;
      for (i = 0; i < n; i++) if (out0[ci][i] != out[ci][i] || dd0[ci][i] != dd[ci][i]) differ = 1;
    }
    if (differ) { fprintf(stderr, "split at byte %lu of %lu: result differs from the unsuspended decode\n", (unsigned long)p, size); return 0; }
  }
  return 0;
}

/* ------------------------------------------------ stream summary (bytes) */
/* For every scan of the stream: the Huffman tables (class 0) defined since the
 * previous scan, and the bytes of the entropy-coded segment exactly as written
 * (stuffed bytes and RSTn markers included), up to the marker that ends it.
 *   " ; tb <id b1..b16 v..> [, <id ..>] / <scan 2> ; ecs <bytes> / <bytes>"            */
static char *summary; static size_t sumlen, sumcap;
static void sum_add(const char *fmt, long v)
{
  if (sumlen + 32 > sumcap) { sumcap = sumcap ? sumcap * 2 : 1 << 16; summary = (char *)realloc(summary, sumcap); }
  sumlen += (size_t)sprintf(summary + sumlen, fmt, v);
}
static void stream_summary(const unsigned char *b, size_t n)
{
  size_t p = 2, i; int pass;
  if (!summary) { sumcap = 1 << 16; summary = (char *)malloc(sumcap); }
  sumlen = 0; summary[0] = 0;
  for (pass = 0; pass < 2; pass++) {
    int nscan = 0, ntb = 0;
    sum_add(pass == 0 ? " ; tb%.0ld" : " ; ecs%.0ld", 0);
    p = 2;
    while (p + 4 <= n && b[p] == 0xFF) {
      int m = b[p + 1]; size_t len = ((size_t)b[p + 2] << 8) | b[p + 3];
      if (m == 0xD9) break;
      if (m == 0xC4) {
        size_t q = p + 4, e = p + 2 + len;
        while (q + 17 <= e) {
          int cnt = 0, k;
          if (pass == 0) { if (ntb++) sum_add(" ,%.0ld", 0); sum_add(" %ld", b[q]); }
          for (k = 1; k <= 16; k++) { cnt += b[q + k]; if (pass == 0) sum_add(" %ld", b[q + k]); }
          if (pass == 0) for (k = 0; k < cnt; k++) sum_add(" %ld", b[q + 17 + k]);
          q += 17 + (size_t)cnt;
        }
      }
      p += 2 + len;
      if (m == 0xDA) {
        size_t q = p;
        while (q + 1 < n && !(b[q] == 0xFF && b[q + 1] != 0 && !(b[q + 1] >= 0xD0 && b[q + 1] <= 0xD7))) q++;
        if (pass == 1) { if (nscan) sum_add(" /%.0ld", 0); for (i = p; i < q; i++) sum_add(" %ld", b[i]); }
        else { sum_add(" /%.0ld", 0); ntb = 0; }
        nscan++;
        p = q;
      }
    }
  }
}

/* ------------------------------------------------------------- TurboJPEG */
static void chan_offsets(int pf, int nc, int *off)
{
  if (nc == 1) off[0] = 0;
  else if (pf == TJPF_CMYK) { off[0] = 0; off[1] = 1; off[2] = 2; off[3] = 3; }
  else { off[0] = tjRedOffset[pf]; off[1] = tjGreenOffset[pf]; off[2] = tjBlueOffset[pf]; }
}

static int tj_roundtrip(int prec, int w, int h, int nc, int rmode, long rval, int pf, int bottomup, int pad,
                        int psv, int pt, unsigned char **jpg, size_t *jpgsize, char *why)
{
  tjhandle hc = NULL, hd = NULL; int ps = tjPixelSize[pf], pitch = w * ps + pad, off[MAXC], x, y, ci, rc = -1;
  size_t n = (size_t)pitch * h; void *src = NULL, *dst = NULL; int es = prec <= 8 ? 1 : 2;
  *jpg = NULL; *jpgsize = 0; why[0] = 0;
  chan_offsets(pf, nc, off);
  src = malloc(n * es + 16); dst = malloc(n * es + 16);
  memset(src, 0x5A, n * es); memset(dst, 0xC3, n * es);
  for (y = 0; y < h; y++) {
    size_t base = (size_t)(bottomup ? h - 1 - y : y) * pitch;
    for (x = 0; x < w; x++) for (ci = 0; ci < nc; ci++) {
      int v = plane[ci][y * w + x]; size_t i = base + (size_t)x * ps + off[ci];
      if (prec <= 8) ((unsigned char *)src)[i] = (unsigned char)v;
      else if (prec <= 12) ((short *)src)[i] = (short)v;
      else ((unsigned short *)src)[i] = (unsigned short)v;
    }
  }
  hc = tj3Init(TJINIT_COMPRESS);
  if (!hc) { strcpy(why, "tj3Init"); goto done; }
  if (tj3Set(hc, TJPARAM_LOSSLESS, 1) || tj3Set(hc, TJPARAM_PRECISION, prec) || tj3Set(hc, TJPARAM_LOSSLESSPSV, psv) ||
      tj3Set(hc, TJPARAM_LOSSLESSPT, pt) || tj3Set(hc, TJPARAM_BOTTOMUP, bottomup)) { rc = 1; goto done; }
  if (rmode == 1 && tj3Set(hc, TJPARAM_RESTARTROWS, (int)rval)) { rc = 1; goto done; }
  if (rmode == 2 && tj3Set(hc, TJPARAM_RESTARTBLOCKS, (int)rval)) { rc = 1; goto done; }
  if (prec <= 8) rc = tj3Compress8(hc, (unsigned char *)src, w, pitch, h, pf, jpg, jpgsize);
  else if (prec <= 12) rc = tj3Compress12(hc, (short *)src, w, pitch, h, pf, jpg, jpgsize);
  else rc = tj3Compress16(hc, (unsigned short *)src, w, pitch, h, pf, jpg, jpgsize);
  if (rc) { rc = 1; goto done; }                           /* compressor refused */
  rc = -1;
  hd = tj3Init(TJINIT_DECOMPRESS);
  if (!hd) { strcpy(why, "tj3Init"); goto done; }
  if (tj3DecompressHeader(hd, *jpg, *jpgsize)) { snprintf(why, 200, "header: %s", tj3GetErrorStr(hd)); goto done; }
  if (tj3Get(hd, TJPARAM_JPEGWIDTH) != w || tj3Get(hd, TJPARAM_JPEGHEIGHT) != h || tj3Get(hd, TJPARAM_PRECISION) != prec ||
      tj3Get(hd, TJPARAM_LOSSLESS) != 1 || tj3Get(hd, TJPARAM_LOSSLESSPSV) != psv || tj3Get(hd, TJPARAM_LOSSLESSPT) != pt) {
    strcpy(why, "header-parameters"); goto done;
  }
  tj3Set(hd, TJPARAM_BOTTOMUP, bottomup);
  if (prec <= 8) rc = tj3Decompress8(hd, *jpg, *jpgsize, (unsigned char *)dst, pitch, pf);
  else if (prec <= 12) rc = tj3Decompress12(hd, *jpg, *jpgsize, (short *)dst, pitch, pf);
  else rc = tj3Decompress16(hd, *jpg, *jpgsize, (unsigned short *)dst, pitch, pf);
  if (rc) { snprintf(why, 200, "decompress: %s", tj3GetErrorStr(hd)); rc = -1; goto done; }
  for (y = 0; y < h; y++) {
    size_t base = (size_t)(bottomup ? h - 1 - y : y) * pitch;
    for (x = 0; x < w; x++) for (ci = 0; ci < nc; ci++) {
      size_t i = base + (size_t)x * ps + off[ci]; int v;
      if (prec <= 8) v = ((unsigned char *)dst)[i];
      else if (prec <= 12) v = ((short *)dst)[i];
      else v = ((unsigned short *)dst)[i];
      outp[ci][y * w + x] = v;
    }
  }
  rawn = -1;
  if (n <= RAWMAX) {
    size_t i;
    for (i = 0; i < n; i++)
      rawbuf[i] = prec <= 8 ? ((unsigned char *)dst)[i] : prec <= 12 ? ((short *)dst)[i] : ((unsigned short *)dst)[i];
    rawn = (int)n;
  }
  rc = 0;
done:
  if (hc) tj3Destroy(hc);
  if (hd) tj3Destroy(hd);
  free(src); free(dst);
  return rc;
}

/* -------------------------------------------------------------- printing */
static void print_group(int (*a)[MAXPIX], int nc, int n)
{
  int ci, i;
  for (ci = 0; ci < nc; ci++) {
    if (ci) printf(" /");
    for (i = 0; i < n; i++) printf(" %d", a[ci][i]);
  }
}

static char *parse_ints(char *p, int *out, int max, int *n)
{
  *n = 0;
  for (;;) {
    while (*p == ' ') p++;
    if (*p == '|' || *p == 0 || *p == '\n') break;
    long v = strtol(p, &p, 10);
    if (*n < max) out[(*n)++] = (int)v;
  }
  if (*p == '|') p++;
  return p;
}

int main(void)
{
  setvbuf(stdout, NULL, _IOLBF, 0);
  while (fgets(line, sizeof(line), stdin)) {
    char *p = line; char cmd[16], kind[16]; int k = 0, hd[16], nh, pp[2 * MAXC + 2], npp, ci, n;
    while (*p && *p != ' ' && *p != '\n' && k < 15) cmd[k++] = *p++;
    cmd[k] = 0; kind[0] = 0;
    if (!strcmp(cmd, "api")) {
      while (*p == ' ') p++;
      k = 0; while (*p && *p != ' ' && *p != '\n' && k < 15) kind[k++] = *p++;
      kind[k] = 0;
    } else if (strcmp(cmd, "inj")) { printf("?\n"); continue; }
    p = parse_ints(p, hd, 16, &nh);
    p = parse_ints(p, pp, 2 * MAXC + 2, &npp);
    {
      int prec = hd[0], w = hd[1], h = hd[2], nc = hd[3];
      int rmode = nh > 5 ? hd[5] : 0, pf = nh > 7 ? hd[7] : 0, bottomup = nh > 8 ? hd[8] : 0, pad = nh > 9 ? hd[9] : 0;
      int scanmode = nh > 10 ? hd[10] : 0, bufimg = nh > 11 ? hd[11] : 0, susmode = nh > 12 ? hd[12] : 0;
      unsigned long long seed = nh > 13 ? (unsigned long long)hd[13] : 0;
      long rval = nh > 6 ? hd[6] : 0;
      int bad = 0;
      if (nh < 5 || nc < 1 || nc > MAXC || w < 1 || h < 1 || (long)w * h > MAXPIX || npp < 2) { printf("?\n"); continue; }
      for (ci = 0; ci < nc; ci++) { p = parse_ints(p, plane[ci], MAXPIX, &n); if (n != w * h) bad = 1; }
      if (bad) { printf("?\n"); continue; }
      while (npp < 2 * nc) { pp[npp] = pp[npp - 2]; npp++; }
      inject = 0; hook_problem = 0;
      if (!strcmp(cmd, "inj")) {
        int rc;
        inject = 1;
        rc = lj_compress(prec, w, h, nc, hd[4] ? 2 : 0, hd[4], nc == 2 ? 1 : 0, 0, pp);
        inject = 0;
        if (rc) { printf("rej %d\n", last_err); continue; }
        rc = lj_decode(jbuf, jsize, 0, w, h, nc, prec, outp);
        free(jbuf); jbuf = NULL;
        if (rc) { printf("fail decode %d %d\n", rc, last_err); continue; }
        if (hook_problem) { printf("fail observer\n"); continue; }
        printf("ok dd"); print_group(dd, nc, w * h); printf(" ; out"); print_group(outp, nc, w * h); printf("\n");
      } else if (!strcmp(kind, "lj")) {
        int rc = lj_compress(prec, w, h, nc, rmode, rval, pf, scanmode, pp);
        if (rc) { printf("rej\n"); continue; }
        stream_summary(jbuf, jsize);
        rc = decode_scheduled(jbuf, jsize, bufimg, w, h, nc, prec, outp, susmode, seed);
        free(jbuf); jbuf = NULL;
        if (rc) { printf("fail decode %d %d (suspension schedule %d, %ld suspensions)\n", rc, last_err, susmode, sus_count); continue; }
        if (hook_problem) { printf("fail observer\n"); continue; }
        for (ci = 0; ci < nc; ci++) if (edn[ci] != w * h || ddn[ci] != w * h) bad = 1;
        if (bad) { printf("fail observer-count\n"); continue; }
        printf("ok ed"); print_group(ed, nc, w * h); printf(" ; dd"); print_group(dd, nc, w * h);
        printf(" ; out"); print_group(outp, nc, w * h); printf("%s ; lz ok\n", summary);
      } else if (!strcmp(kind, "tj")) {
        unsigned char *jpg = NULL; size_t js = 0; char why[256]; int rc, i;
        rc = tj_roundtrip(prec, w, h, nc, rmode, rval, pf, bottomup, pad, pp[0], pp[1], &jpg, &js, why);
        if (rc == 1) { printf("rej\n"); tj3Free(jpg); continue; }
        if (rc) { printf("fail tj %s\n", why); tj3Free(jpg); continue; }
        stream_summary(jpg, js);
        rc = decode_scheduled(jpg, (unsigned long)js, bufimg, w, h, nc, prec, outp2, susmode, seed);
        tj3Free(jpg);
        if (rc) { printf("fail decode %d %d (suspension schedule %d, %ld suspensions)\n", rc, last_err, susmode, sus_count); continue; }
        if (hook_problem) { printf("fail observer\n"); continue; }
        for (ci = 0; ci < nc; ci++) { if (ddn[ci] != w * h) bad = 1; for (i = 0; i < w * h; i++) if (outp[ci][i] != outp2[ci][i]) bad = 2; }
        if (bad == 2 && susmode) {     /* report what the suspended libjpeg decode delivered */
          printf("ok ed - ; dd"); print_group(dd, nc, w * h); printf(" ; out"); print_group(outp2, nc, w * h); printf("%s ; lz ok\n", summary); continue;
        }
        if (bad) { printf("fail %s\n", bad == 1 ? "observer-count" : "tj3Decompress-differs-from-jpeg_read_scanlines"); continue; }
        printf("ok ed - ; dd"); print_group(dd, nc, w * h); printf(" ; out"); print_group(outp, nc, w * h); printf("%s ; lz ok", summary);
        printf(" ; buf");
        if (rawn < 0) printf(" -"); else for (i = 0; i < rawn; i++) printf(" %d", rawbuf[i]);
        printf("\n");
      } else printf("?\n");
    }
  }
  return 0;
}
