/* C07 property-level harness: compress + decompress through the public libjpeg API
 * (8- and 12-bit, gray / RGB stored as RGB / CMYK, 4:4:4, accurate integer DCT) and
 * report, per 8x8 block of every component, the squared error between source and
 * decoded samples, together with the header bytes of the stream (the check parses
 * DQT/SOF itself and recomputes the bound from the tables actually written).
 *
 * case line:
 *   api <bits> <ncomp 1|3|4> <w> <h> <kind> <p1> <seed> <quality|-1> <optimize> <direct> <ntab> [<64 q>]*ntab <tq0> <tq1> <tq2> <tq3>
 *     kind 0 constant p1 (per component: p1, p1/2+3, MAX-p1, p1/3)   1 uniform noise   2 two-level blocks (edges)
 *          3 gradient   4 extremes (0/MAX checker of period p1)   5 smooth field + noise of amplitude p1
 *     ntab tables are installed with jpeg_add_quant_table(scale 100, force_baseline FALSE), or,
 *     when <direct> is 1, by writing quant_tbl_ptrs[t]->quantval[] (values up to 65535)
 * result line:
 *   api ok <hex of the stream up to and including the SOS marker> | c:bx:by:n:sse:maxabs ...
 *   api err <msg_code>
 */
#include <stdio.h>
#include <stdlib.h>
#include <string.h>
#include <setjmp.h>
#include "jpeglib.h"
#include "jerror.h"

static jmp_buf jb;
static int last_err;
static void my_exit(j_common_ptr c) { last_err = c->err->msg_code; longjmp(jb, 1); }
static void my_emit(j_common_ptr c, int lvl) { (void)c; (void)lvl; }

static unsigned long long sm;
static unsigned long long rnd(void)
{
  unsigned long long z = (sm += 0x9E3779B97F4A7C15ULL);
  z = (z ^ (z >> 30)) * 0xBF58476D1CE4E5B9ULL;
  z = (z ^ (z >> 27)) * 0x94D049BB133111EBULL;
  return z ^ (z >> 31);
}

static char *line; static size_t cap;
static long *vals; static int nvals;

static void parse(char *p)
{
  nvals = 0;
  for (;;) {
    char *e; long v;
    while (*p == ' ') p++;
    if (*p == 0 || *p == '\n') break;
    v = strtol(p, &e, 10);
    if (e == p) break;
    if (nvals < 400) vals[nvals++] = v;
    p = e;
  }
}

static int isin(int x) /* coarse integer sine, period 64, amplitude 256 */
{
  static const int q[17] = { 0, 25, 50, 74, 98, 121, 142, 162, 181, 198, 213, 226, 237, 245, 251, 255, 256 };
  int s = 1;
  x &= 63;
  if (x >= 32) { s = -1; x -= 32; }
  if (x > 16) x = 32 - x;
  return s * q[x];
}

int main(void)
{
  struct jpeg_compress_struct cc; struct jpeg_decompress_struct dc; struct jpeg_error_mgr ce, de;
  unsigned short *src = NULL, *dst = NULL;   /* interleaved samples */
  unsigned char *jbuf = NULL; unsigned long jlen = 0;
  setvbuf(stdout, NULL, _IOLBF, 0);
  vals = malloc(sizeof(long) * 400);
  cc.err = jpeg_std_error(&ce); ce.error_exit = my_exit; ce.emit_message = my_emit;
  dc.err = jpeg_std_error(&de); de.error_exit = my_exit; de.emit_message = my_emit;
  jpeg_create_compress(&cc);
  jpeg_create_decompress(&dc);

  while (getline(&line, &cap, stdin) > 0) {
    int bits, nc, w, h, kind, p1, quality, optimize, direct, ntab, i, c, x, y, t, max, k;
    int tq[4];
    if (strncmp(line, "api ", 4)) { printf("unknown\n"); continue; }
    parse(line + 4);
    if (nvals < 11) { printf("api badcase\n"); continue; }
    bits = vals[0]; nc = vals[1]; w = vals[2]; h = vals[3]; kind = vals[4]; p1 = vals[5];
    sm = (unsigned long long)vals[6]; quality = vals[7]; optimize = vals[8]; direct = vals[9]; ntab = vals[10];
    if (nvals != 11 + 64 * ntab + 4 || ntab < 0 || ntab > 4 || (nc != 1 && nc != 3 && nc != 4) ||
        (bits != 8 && bits != 12) || w < 1 || h < 1 || w > 512 || h > 512) { printf("api badcase\n"); continue; }
    for (i = 0; i < 4; i++) tq[i] = vals[11 + 64 * ntab + i];
    max = (1 << bits) - 1;
    free(src); free(dst);
    src = malloc(sizeof(unsigned short) * w * h * nc); dst = calloc(sizeof(unsigned short), w * h * nc);
    /* ---- image ---- */
    {
      int base[4], lo[4], hi[4], ph[4], fx[4], fy[4];
      for (c = 0; c < 4; c++) {
        base[c] = (int)(rnd() % (max + 1)); lo[c] = (int)(rnd() % (max + 1)); hi[c] = (int)(rnd() % (max + 1));
        ph[c] = (int)(rnd() % 64); fx[c] = 1 + (int)(rnd() % 5); fy[c] = 1 + (int)(rnd() % 5);
      }
      for (y = 0; y < h; y++) for (x = 0; x < w; x++) for (c = 0; c < nc; c++) {
        int v = 0;
        switch (kind) {
        case 0: v = c == 0 ? p1 : c == 1 ? p1 / 2 + 3 : c == 2 ? max - p1 : p1 / 3; break;
        case 1: v = (int)(rnd() % (max + 1)); break;
        case 2: v = (((x + ph[c]) / (3 + fx[c])) + ((y + ph[c]) / (2 + fy[c]))) & 1 ? lo[c] : hi[c]; break;
        case 3: v = base[c] + ((x * fx[c] - y * fy[c]) * (max + 1)) / 256; break;
        case 4: v = (((x / (p1 > 0 ? p1 : 1)) + (y / (p1 > 0 ? p1 : 1)) + c) & 1) ? 0 : max; break;
        default: v = (max + 1) / 2 + ((isin(x * fx[c] + ph[c]) + isin(y * fy[c] + 2 * ph[c]) + isin((x + y) * fx[c])) * ((max + 1) / 8)) / 256
                     + (p1 > 0 ? (int)(rnd() % (2 * p1 + 1)) - p1 : 0); break;
        }
        if (v < 0) v = 0;
        if (v > max) v = max;
        src[(y * w + x) * nc + c] = (unsigned short)v;
      }
    }
    if (setjmp(jb)) { printf("api err %d\n", last_err); jpeg_abort_compress(&cc); jpeg_abort_decompress(&dc); continue; }
    /* ---- compress ---- */
    free(jbuf); jbuf = NULL; jlen = 0;
    jpeg_mem_dest(&cc, &jbuf, &jlen);
    cc.image_width = w; cc.image_height = h; cc.input_components = nc;
    cc.in_color_space = nc == 1 ? JCS_GRAYSCALE : nc == 3 ? JCS_RGB : JCS_CMYK;
    cc.data_precision = bits;
    jpeg_set_defaults(&cc);
    cc.data_precision = bits;
    jpeg_set_colorspace(&cc, cc.in_color_space);     /* no colour transform, all sampling factors 1 */
    cc.dct_method = JDCT_ISLOW;
    if (quality >= 0) jpeg_set_quality(&cc, quality, FALSE);
    for (t = 0; t < ntab; t++) {
      unsigned int tbl[64];
      for (i = 0; i < 64; i++) tbl[i] = (unsigned int)vals[11 + 64 * t + i];
      jpeg_add_quant_table(&cc, t, tbl, 100, FALSE);
      if (direct) for (i = 0; i < 64; i++) cc.quant_tbl_ptrs[t]->quantval[i] = (UINT16)tbl[i];
    }
    for (c = 0; c < nc; c++) {
      if (tq[c] >= 0) cc.comp_info[c].quant_tbl_no = tq[c];
      cc.comp_info[c].h_samp_factor = cc.comp_info[c].v_samp_factor = 1;
    }
    cc.optimize_coding = optimize ? TRUE : cc.optimize_coding;
    jpeg_start_compress(&cc, TRUE);
    if (bits == 8) {
      JSAMPLE *row = malloc(w * nc); JSAMPROW rp = row;
      for (y = 0; y < h; y++) {
        for (i = 0; i < w * nc; i++) row[i] = (JSAMPLE)src[y * w * nc + i];
        jpeg_write_scanlines(&cc, &rp, 1);
      }
      free(row);
    } else {
      J12SAMPLE *row = malloc(sizeof(J12SAMPLE) * w * nc); J12SAMPROW rp = row;
      for (y = 0; y < h; y++) {
        for (i = 0; i < w * nc; i++) row[i] = (J12SAMPLE)src[y * w * nc + i];
        jpeg12_write_scanlines(&cc, &rp, 1);
      }
      free(row);
    }
    jpeg_finish_compress(&cc);
    /* ---- decompress ---- */
    jpeg_mem_src(&dc, jbuf, jlen);
    jpeg_read_header(&dc, TRUE);
    dc.out_color_space = dc.jpeg_color_space;
    dc.dct_method = JDCT_ISLOW;
    jpeg_start_decompress(&dc);
    if ((int)dc.output_width != w || (int)dc.output_height != h || dc.output_components != nc || dc.data_precision != bits) {
      printf("api geometry %u %u %d %d\n", dc.output_width, dc.output_height, dc.output_components, dc.data_precision);
      jpeg_abort_decompress(&dc); continue;
    }
    if (bits == 8) {
      JSAMPLE *row = malloc(w * nc); JSAMPROW rp = row;
      while (dc.output_scanline < dc.output_height) {
        y = dc.output_scanline;
        if (jpeg_read_scanlines(&dc, &rp, 1) != 1) break;
        for (i = 0; i < w * nc; i++) dst[y * w * nc + i] = row[i];
      }
      free(row);
    } else {
      J12SAMPLE *row = malloc(sizeof(J12SAMPLE) * w * nc); J12SAMPROW rp = row;
      while (dc.output_scanline < dc.output_height) {
        y = dc.output_scanline;
        if (jpeg12_read_scanlines(&dc, &rp, 1) != 1) break;
        for (i = 0; i < w * nc; i++) dst[y * w * nc + i] = (unsigned short)row[i];
      }
      free(row);
    }
    jpeg_finish_decompress(&dc);
    /* ---- report ---- */
    printf("api ok ");
    printf("%02x%02x", jbuf[0], jbuf[1]);
    for (k = 2; k + 3 < (int)jlen && jbuf[k] == 0xFF; ) {
      int L = (jbuf[k + 2] << 8) | jbuf[k + 3], j;
      if (jbuf[k + 1] == 0xDA) { printf("ffda"); break; }
      for (j = 0; j < L + 2 && k + j < (int)jlen; j++) printf("%02x", jbuf[k + j]);
      k += L + 2;
    }
    printf(" |");
    for (c = 0; c < nc; c++)
      for (y = 0; y < h; y += 8) for (x = 0; x < w; x += 8) {
        long long sse = 0; int n = 0, ma = 0, yy, xx;
        for (yy = y; yy < y + 8 && yy < h; yy++) for (xx = x; xx < x + 8 && xx < w; xx++) {
          int d = (int)dst[(yy * w + xx) * nc + c] - (int)src[(yy * w + xx) * nc + c];
          if (d < 0) d = -d;
          if (d > ma) ma = d;
          sse += (long long)d * d; n++;
        }
        printf(" %d:%d:%d:%d:%lld:%d", c, x / 8, y / 8, n, sse, ma);
      }
    printf("\n");
  }
  if (setjmp(jb)) return 0;
  jpeg_destroy_compress(&cc);
  jpeg_destroy_decompress(&dc);
  free(jbuf); free(src); free(dst); free(vals); free(line);
  return 0;
}
