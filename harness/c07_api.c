/* C07 property-level harness: compress + decompress through the public libjpeg API
 * (8- and 12-bit, gray / RGB stored as RGB / CMYK, 4:4:4, accurate integer DCT) and
 * report, per 8x8 block of every component, the squared error between source and
 * decoded samples, together with the header bytes of each stream (the check parses
 * DQT/SOF itself and recomputes the bound from the tables the decoder holds).
 *
 * api <bits> <ncomp 1|3|4> <w> <h> <kind> <p1> <seed> <quality|-1> <optimize> <direct> <ntab> [<64 q>]*ntab <tq0..tq3>
 *     [<bufsize> <refuse%> <sseed>]
 *     kind 0 constant p1 (per component: p1, p1/2+3, MAX-p1, p1/3)   1 uniform noise   2 two-level blocks (edges)
 *          3 gradient   4 extremes (0/MAX checker of period p1)   5 smooth field + noise of amplitude p1
 *          6 coefficient-support-aimed blocks (every block = exact inverse DCT of a sparse coefficient set): p1 = 0 AC only in
 *            one row r (r cycles over the blocks), 1 only in one column c, 2 only in the last row, 3 only in the last column,
 *            4 DC only, 5 DC + one coefficient (position cycles 1..63)
 *     ntab tables are installed with jpeg_add_quant_table(scale 100, force_baseline FALSE), or,
 *     when <direct> is 1, by writing quant_tbl_ptrs[t]->quantval[] (values up to 65535).
 *     With the three optional fields the stream is written through a SUSPENDING destination manager
 *     (libjpeg.txt "I/O suspension"): buffer of <bufsize> bytes, empty_output_buffer refuses (returns
 *     FALSE) with probability refuse% while scanlines are written; the application then flushes the
 *     bytes up to next_output_byte and re-submits the first unconsumed scanline.
 *   -> api ok <hex of the stream up to and including the SOS marker> | c:bx:by:n:sse:maxabs ... [| susp=<n>]
 *
 * seq <bits> <ncomp> <prelude> <tq0..tq3> <nframes> then per frame
 *     <w> <h> <kind> <p1> <seed> <write_all_tables> <optimize> <nops> then per op
 *       0 <tbl> <64 q>     jpeg_add_quant_table(tbl, q, 100, FALSE)
 *       1 <quality>        jpeg_set_quality(quality, FALSE)
 *       2 <tbl> <64 q>     direct edit of quantval[] + sent_table = FALSE (as libjpeg.txt requires)
 *       3 <tbl> <64 q> <scale>   jpeg_add_quant_table(tbl, q, scale, FALSE)
 *     ONE compression object and ONE decompression object for the whole sequence ("abbreviated
 *     datastreams and multiple images"); prelude 1 = jpeg_write_tables() first, read as a tables-only stream.
 *   -> seq ok <hex> | blocks ; <hex> | blocks ; ...        (prelude: "<hex> |" with no blocks)
 * bimg <bits> <ncomp> <w> <h> <kind> <p1> <seed> <quality|-1> <ntab> [<64 q>]*ntab <tq0..tq3> <script> <mode> <smooth> <dseed>
 *     multi-scan file decoded in BUFFERED-IMAGE mode (libjpeg.txt "Buffered-image mode"):
 *     script 0 jpeg_simple_progression   1 sequential, one scan per component   2 progressive, DC and AC scan per component
 *            3 progressive per component with successive approximation (Al = 1, then refinement scans)
 *     mode 0 display loop for a fast source: while (!jpeg_input_complete) { jpeg_start_output(input_scan_number);
 *              read all rows; jpeg_finish_output }; the last pass of the loop is the image
 *          1 random pacing: some jpeg_consume_input calls, a pass on input_scan_number (complete or abandoned after some
 *              rows), ... ; when input is complete one final full pass
 *          2 an early pass at every scan (abandoned after a random number of rows), then the final pass
 *   -> bimg ok <hex> | blocks of the FINAL pass | same=<final pass == one-shot decode> passes=<n>
 * errors: "api err <code>" / "seq err <code> frame <i>" / "bimg err <code>"
 */
#include <stdio.h>
#include <stdlib.h>
#include <string.h>
#include <setjmp.h>
#include <math.h>
#include "jpeglib.h"
#include "jerror.h"

static jmp_buf jb;
static int last_err;
static void my_exit(j_common_ptr c) { last_err = c->err->msg_code; longjmp(jb, 1); }
static void my_emit(j_common_ptr c, int lvl) { (void)c; (void)lvl; }

static unsigned long long sm;
static unsigned long long rnd(void)
{
  unsigned long long z = (sm += 0x9E3779B97F4A7C15ULL);
  z = (z ^ (z >> 30)) * 0xBF58476D1CE4E5B9ULL;
  z = (z ^ (z >> 27)) * 0x94D049BB133111EBULL;
  return z ^ (z >> 31);
}

static char *line; static size_t cap;
static long *vals; static int nvals;
#define MAXVALS 20000

static void parse(char *p)
{
  nvals = 0;
  for (;;) {
    char *e; long v;
    while (*p == ' ') p++;
    if (*p == 0 || *p == '\n') break;
    v = strtol(p, &e, 10);
    if (e == p) break;
    if (nvals < MAXVALS) vals[nvals++] = v;
    p = e;
  }
}

static int isin(int x) /* coarse integer sine, period 64, amplitude 256 */
{
  static const int q[17] = { 0, 25, 50, 74, 98, 121, 142, 162, 181, 198, 213, 226, 237, 245, 251, 255, 256 };
  int s = 1;
  x &= 63;
  if (x >= 32) { s = -1; x -= 32; }
  if (x > 16) x = 32 - x;
  return s * q[x];
}

static unsigned short *gen_image(int bits, int nc, int w, int h, int kind, int p1, unsigned long long seed)
{
  unsigned short *src = malloc(sizeof(unsigned short) * w * h * nc);
  int base[4], lo[4], hi[4], ph[4], fx[4], fy[4], c, x, y, max = (1 << bits) - 1;
  sm = seed;
  for (c = 0; c < 4; c++) {
    base[c] = (int)(rnd() % (max + 1)); lo[c] = (int)(rnd() % (max + 1)); hi[c] = (int)(rnd() % (max + 1));
    ph[c] = (int)(rnd() % 64); fx[c] = 1 + (int)(rnd() % 5); fy[c] = 1 + (int)(rnd() % 5);
  }
  if (kind == 6) {      /* per 8x8 block: samples = inverse DCT of coefficients with a chosen support */
    int bx, by, u, v2, nbx = (w + 7) / 8, blk = 0; double scale = (max + 1) / 256.0;
    for (c = 0; c < nc; c++) for (by = 0; by * 8 < h; by++) for (bx = 0; bx < nbx; bx++, blk++) {
      double co[8][8]; int r = blk % 8, pos = 1 + blk % 63;
      memset(co, 0, sizeof(co));
      for (u = 0; u < 8; u++) {       /* u = horizontal frequency along the chosen row / vertical along the chosen column */
        double a = ((rnd() % 3) ? 1 : 0) * ((rnd() & 1) ? 1.0 : -1.0) * (20 + (double)(rnd() % 41)) * scale;
        if (p1 == 0 && r > 0) co[r][u] = a;
        else if (p1 == 1 && r > 0) co[u][r] = a;
        else if (p1 == 2) co[7][u] = a;
        else if (p1 == 3) co[u][7] = a;
      }
      if (p1 == 0 || p1 == 2) co[(p1 == 2) ? 7 : (r ? r : 1)][rnd() % 8] = (40 + (double)(rnd() % 21)) * scale;   /* never empty */
      if (p1 == 1 || p1 == 3) co[rnd() % 8][(p1 == 3) ? 7 : (r ? r : 1)] = -(40 + (double)(rnd() % 21)) * scale;
      if (p1 == 5) co[pos / 8][pos % 8] = ((rnd() & 1) ? 1.0 : -1.0) * (60 + (double)(rnd() % 60)) * scale;
      co[0][0] = ((double)(rnd() % 129) - 64.0) * 8.0 * scale * 0.5;      /* DC: block mean within +-32 of mid-grey */
      for (y = 0; y < 8; y++) for (x = 0; x < 8; x++) {
        double sv = 0.0; int px = bx * 8 + x, py = by * 8 + y, iv;
        for (v2 = 0; v2 < 8; v2++) for (u = 0; u < 8; u++) if (co[v2][u] != 0.0)
          sv += co[v2][u] * (v2 ? 0.5 : 0.35355339059327373) * (u ? 0.5 : 0.35355339059327373) *
                cos((2 * y + 1) * v2 * 3.14159265358979323846 / 16) * cos((2 * x + 1) * u * 3.14159265358979323846 / 16);
        iv = (int)floor(sv + (max + 1) / 2 + 0.5);
        if (iv < 0) iv = 0;
        if (iv > max) iv = max;
        if (px < w && py < h) src[(py * w + px) * nc + c] = (unsigned short)iv;
      }
    }
    return src;
  }
  for (y = 0; y < h; y++) for (x = 0; x < w; x++) for (c = 0; c < nc; c++) {
    int v = 0;
    switch (kind) {
    case 0: v = c == 0 ? p1 : c == 1 ? p1 / 2 + 3 : c == 2 ? max - p1 : p1 / 3; break;
    case 1: v = (int)(rnd() % (max + 1)); break;
    case 2: v = (((x + ph[c]) / (3 + fx[c])) + ((y + ph[c]) / (2 + fy[c]))) & 1 ? lo[c] : hi[c]; break;
    case 3: v = base[c] + ((x * fx[c] - y * fy[c]) * (max + 1)) / 256; break;
    case 4: v = (((x / (p1 > 0 ? p1 : 1)) + (y / (p1 > 0 ? p1 : 1)) + c) & 1) ? 0 : max; break;
    default: v = (max + 1) / 2 + ((isin(x * fx[c] + ph[c]) + isin(y * fy[c] + 2 * ph[c]) + isin((x + y) * fx[c])) * ((max + 1) / 8)) / 256
                 + (p1 > 0 ? (int)(rnd() % (2 * p1 + 1)) - p1 : 0); break;
    }
    if (v < 0) v = 0;
    if (v > max) v = max;
    src[(y * w + x) * nc + c] = (unsigned short)v;
  }
  return src;
}

/* ---- suspending destination manager (libjpeg.txt, "I/O suspension") ---- */
typedef struct {
  struct jpeg_destination_mgr pub;
  unsigned char *buf; size_t bufsize;
  unsigned char *out; size_t outlen, outcap;
  int may_suspend, force, refuse, suspensions;
  unsigned long long s;
} susp_dest;

static unsigned long long sd_rnd(susp_dest *d)
{
  unsigned long long z = (d->s += 0x9E3779B97F4A7C15ULL);
  z = (z ^ (z >> 30)) * 0xBF58476D1CE4E5B9ULL;
  z = (z ^ (z >> 27)) * 0x94D049BB133111EBULL;
  return z ^ (z >> 31);
}
static void sd_flush(susp_dest *d)      /* write only the data up to next_output_byte */
{
  size_t n = d->bufsize - d->pub.free_in_buffer;
  if (d->outlen + n > d->outcap) { d->outcap = (d->outlen + n) * 2 + 64; d->out = realloc(d->out, d->outcap); }
  memcpy(d->out + d->outlen, d->buf, n);
  d->outlen += n;
  d->pub.next_output_byte = d->buf;
  d->pub.free_in_buffer = d->bufsize;
}
static void sd_init(j_compress_ptr cinfo) { susp_dest *d = (susp_dest *)cinfo->dest; d->pub.next_output_byte = d->buf; d->pub.free_in_buffer = d->bufsize; }
static boolean sd_empty(j_compress_ptr cinfo)
{
  susp_dest *d = (susp_dest *)cinfo->dest;
  if (d->may_suspend) { d->suspensions++; return FALSE; }   /* suspend: do nothing else */
  d->pub.free_in_buffer = 0;       /* non-suspending behaviour: the whole buffer has been filled */
  sd_flush(d);
  return TRUE;
}
static void sd_term(j_compress_ptr cinfo) { sd_flush((susp_dest *)cinfo->dest); }

/* write all scanlines of src; sd != NULL: suspending protocol */
static void write_image(j_compress_ptr cc, const unsigned short *src, int bits, int w, int h, int nc, susp_dest *sd)
{
  JSAMPLE *row8 = NULL; J12SAMPLE *row12 = NULL; int i, first = 1; long stalls = 0;
  if (bits == 8) row8 = malloc(w * nc); else row12 = malloc(sizeof(J12SAMPLE) * w * nc);
  while (cc->next_scanline < cc->image_height) {
    int y = cc->next_scanline; JDIMENSION n; int was_empty = sd && sd->pub.free_in_buffer == sd->bufsize;
    /* The destination is in suspending mode for a whole jpeg_write_scanlines call or not at all (a refusal after
     * part of an MCU has been accepted would lose the backtracking point).  Not in suspending mode: during the
     * first call (it writes the frame and scan headers, which cannot be suspended), when an empty buffer was not
     * enough for one MCU, and otherwise at random. */
    if (sd) sd->may_suspend = (y > 0 || stalls > 0 ? 1 : 0) && !sd->force && (int)(sd_rnd(sd) % 100) < sd->refuse;
    if (sd && y == 0 && first) { sd->may_suspend = 0; first = 0; }
    if (bits == 8) { JSAMPROW rp = row8; for (i = 0; i < w * nc; i++) row8[i] = (JSAMPLE)src[y * w * nc + i]; n = jpeg_write_scanlines(cc, &rp, 1); }
    else { J12SAMPROW rp = row12; for (i = 0; i < w * nc; i++) row12[i] = (J12SAMPLE)src[y * w * nc + i]; n = jpeg12_write_scanlines(cc, &rp, 1); }
    if (sd) {
      if (n == 0) {                 /* suspended: make room and call again with the same scanline */
        sd->force = was_empty;      /* an empty buffer was not enough for one MCU: do not refuse next time */
        sd_flush(sd);
        if (++stalls > 10000000) break;
      } else sd->force = 0;
    } else if (n == 0) break;
  }
  if (sd) { sd->may_suspend = 0; sd->force = 0; sd_flush(sd); }
  free(row8); free(row12);
}

static void read_image(j_decompress_ptr dc, unsigned short *dst, int bits, int w, int nc)
{
  int i, y;
  if (bits == 8) {
    JSAMPLE *row = malloc(w * nc); JSAMPROW rp = row;
    while (dc->output_scanline < dc->output_height) {
      y = dc->output_scanline;
      if (jpeg_read_scanlines(dc, &rp, 1) != 1) break;
      for (i = 0; i < w * nc; i++) dst[y * w * nc + i] = row[i];
    }
    free(row);
  } else {
    J12SAMPLE *row = malloc(sizeof(J12SAMPLE) * w * nc); J12SAMPROW rp = row;
    while (dc->output_scanline < dc->output_height) {
      y = dc->output_scanline;
      if (jpeg12_read_scanlines(dc, &rp, 1) != 1) break;
      for (i = 0; i < w * nc; i++) dst[y * w * nc + i] = (unsigned short)row[i];
    }
    free(row);
  }
}

static void print_header(const unsigned char *jbuf, unsigned long jlen)
{
  int k;
  if (jlen < 2) return;
  printf("%02x%02x", jbuf[0], jbuf[1]);
  for (k = 2; k + 3 < (int)jlen && jbuf[k] == 0xFF; ) {
    int L = (jbuf[k + 2] << 8) | jbuf[k + 3], j;
    if (jbuf[k + 1] == 0xDA) { printf("ffda"); break; }
    if (jbuf[k + 1] == 0xD9) { printf("ffd9"); break; }
    for (j = 0; j < L + 2 && k + j < (int)jlen; j++) printf("%02x", jbuf[k + j]);
    k += L + 2;
  }
}

static void print_blocks(const unsigned short *src, const unsigned short *dst, int w, int h, int nc)
{
  int c, x, y;
  for (c = 0; c < nc; c++)
    for (y = 0; y < h; y += 8) for (x = 0; x < w; x += 8) {
      long long sse = 0; int n = 0, ma = 0, yy, xx;
      for (yy = y; yy < y + 8 && yy < h; yy++) for (xx = x; xx < x + 8 && xx < w; xx++) {
        int d = (int)dst[(yy * w + xx) * nc + c] - (int)src[(yy * w + xx) * nc + c];
        if (d < 0) d = -d;
        if (d > ma) ma = d;
        sse += (long long)d * d; n++;
      }
      printf(" %d:%d:%d:%d:%lld:%d", c, x / 8, y / 8, n, sse, ma);
    }
}

static struct jpeg_compress_struct cc; static struct jpeg_decompress_struct dc; static struct jpeg_error_mgr ce, de;
static unsigned short *src, *dst; static unsigned char *jbuf; static unsigned long jlen; static susp_dest sd;

static void do_api(void)
{
  int bits, nc, w, h, kind, p1, quality, optimize, direct, ntab, i, c, t, susp = 0;
  int tq[4];
  if (nvals < 11) { printf("api badcase\n"); return; }
  bits = vals[0]; nc = vals[1]; w = vals[2]; h = vals[3]; kind = vals[4]; p1 = vals[5];
  quality = vals[7]; optimize = vals[8]; direct = vals[9]; ntab = vals[10];
  if (ntab < 0 || ntab > 4 || (nvals != 11 + 64 * ntab + 4 && nvals != 11 + 64 * ntab + 7) || (nc != 1 && nc != 3 && nc != 4) ||
      (bits != 8 && bits != 12) || w < 1 || h < 1 || w > 512 || h > 512) { printf("api badcase\n"); return; }
  for (i = 0; i < 4; i++) tq[i] = vals[11 + 64 * ntab + i];
  susp = nvals == 11 + 64 * ntab + 7;
  free(src); free(dst);
  src = gen_image(bits, nc, w, h, kind, p1, (unsigned long long)vals[6]); dst = calloc(sizeof(unsigned short), w * h * nc);
  if (setjmp(jb)) { printf("api err %d\n", last_err); jpeg_abort_compress(&cc); jpeg_abort_decompress(&dc); return; }
  free(jbuf); jbuf = NULL; jlen = 0;
  free(sd.buf); free(sd.out); memset(&sd, 0, sizeof(sd));
  if (susp) {
    sd.bufsize = (size_t)vals[11 + 64 * ntab + 4]; sd.refuse = (int)vals[11 + 64 * ntab + 5]; sd.s = (unsigned long long)vals[11 + 64 * ntab + 6];
    if (sd.bufsize < 16) sd.bufsize = 16;
    sd.buf = malloc(sd.bufsize);
    sd.pub.init_destination = sd_init; sd.pub.empty_output_buffer = sd_empty; sd.pub.term_destination = sd_term;
    cc.dest = &sd.pub;
  } else {
    if (cc.dest == &sd.pub) cc.dest = NULL;
    jpeg_mem_dest(&cc, &jbuf, &jlen);
  }
  cc.image_width = w; cc.image_height = h; cc.input_components = nc;
  cc.in_color_space = nc == 1 ? JCS_GRAYSCALE : nc == 3 ? JCS_RGB : JCS_CMYK;
  cc.data_precision = bits;
  jpeg_set_defaults(&cc);
  cc.data_precision = bits;
  jpeg_set_colorspace(&cc, cc.in_color_space);     /* no colour transform, all sampling factors 1 */
  cc.dct_method = JDCT_ISLOW;
  if (quality >= 0) jpeg_set_quality(&cc, quality, FALSE);
  for (t = 0; t < ntab; t++) {
    unsigned int tbl[64];
    for (i = 0; i < 64; i++) tbl[i] = (unsigned int)vals[11 + 64 * t + i];
    jpeg_add_quant_table(&cc, t, tbl, 100, FALSE);
    if (direct) for (i = 0; i < 64; i++) cc.quant_tbl_ptrs[t]->quantval[i] = (UINT16)tbl[i];
  }
  for (c = 0; c < nc; c++) {
    if (tq[c] >= 0) cc.comp_info[c].quant_tbl_no = tq[c];
    cc.comp_info[c].h_samp_factor = cc.comp_info[c].v_samp_factor = 1;
  }
  cc.optimize_coding = optimize ? TRUE : cc.optimize_coding;
  jpeg_start_compress(&cc, TRUE);
  write_image(&cc, src, bits, w, h, nc, susp ? &sd : NULL);
  jpeg_finish_compress(&cc);
  if (susp) { cc.dest = NULL; }
  {
    const unsigned char *jp = susp ? sd.out : jbuf; unsigned long jl = susp ? (unsigned long)sd.outlen : jlen;
    jpeg_mem_src(&dc, jp, jl);
    jpeg_read_header(&dc, TRUE);
    dc.out_color_space = dc.jpeg_color_space;
    dc.dct_method = JDCT_ISLOW;
    jpeg_start_decompress(&dc);
    if ((int)dc.output_width != w || (int)dc.output_height != h || dc.output_components != nc || dc.data_precision != bits) {
      printf("api geometry %u %u %d %d\n", dc.output_width, dc.output_height, dc.output_components, dc.data_precision);
      jpeg_abort_decompress(&dc); return;
    }
    read_image(&dc, dst, bits, w, nc);
    jpeg_finish_decompress(&dc);
    printf("api ok ");
    print_header(jp, jl);
    printf(" |");
    print_blocks(src, dst, w, h, nc);
    if (susp) printf(" | susp=%d", sd.suspensions);
    printf("\n");
  }
}

static void do_seq(void)
{
  /* fresh objects per case, so that a replayed case has exactly this history */
  struct jpeg_compress_struct sc; struct jpeg_decompress_struct sdc; struct jpeg_error_mgr sce, sde;
  int bits, nc, prelude, nframes, tq[4], f, pos, i, c;
  static char *obuf; static size_t olen; static int frame_no;
  static unsigned short *fsrc, *fdst; static unsigned char *jb_; static unsigned long jl;
  static FILE *mem;
  frame_no = -1; fsrc = fdst = NULL; jb_ = NULL; jl = 0; obuf = NULL; olen = 0;
  if (nvals < 8) { printf("seq badcase\n"); return; }
  bits = vals[0]; nc = vals[1]; prelude = vals[2]; for (i = 0; i < 4; i++) tq[i] = vals[3 + i]; nframes = vals[7];
  if ((bits != 8 && bits != 12) || (nc != 1 && nc != 3 && nc != 4) || nframes < 1 || nframes > 32) { printf("seq badcase\n"); return; }
  sc.err = jpeg_std_error(&sce); sce.error_exit = my_exit; sce.emit_message = my_emit;
  sdc.err = jpeg_std_error(&sde); sde.error_exit = my_exit; sde.emit_message = my_emit;
  mem = open_memstream(&obuf, &olen);
  jpeg_create_compress(&sc);
  jpeg_create_decompress(&sdc);
  if (setjmp(jb)) {
    fclose(mem);
    printf("seq err %d frame %d\n", last_err, frame_no);
    jpeg_destroy_compress(&sc); jpeg_destroy_decompress(&sdc); free(fsrc); free(fdst); free(jb_); free(obuf);
    return;
  }
  pos = 8;
  for (f = 0; f < nframes; f++) {
    int w, h, kind, p1, wat, optimize, nops, o;
    frame_no = f;
    if (pos + 8 > nvals) { last_err = -1; longjmp(jb, 1); }
    w = vals[pos]; h = vals[pos + 1]; kind = vals[pos + 2]; p1 = vals[pos + 3];
    wat = vals[pos + 5]; optimize = vals[pos + 6]; nops = vals[pos + 7];
    free(fsrc); free(fdst);
    fsrc = gen_image(bits, nc, w, h, kind, p1, (unsigned long long)vals[pos + 4]); fdst = calloc(sizeof(unsigned short), w * h * nc);
    pos += 8;
    free(jb_); jb_ = NULL; jl = 0;
    jpeg_mem_dest(&sc, &jb_, &jl);
    sc.image_width = w; sc.image_height = h; sc.input_components = nc;
    sc.in_color_space = nc == 1 ? JCS_GRAYSCALE : nc == 3 ? JCS_RGB : JCS_CMYK;
    if (f == 0) {
      sc.data_precision = bits;
      jpeg_set_defaults(&sc);
      sc.data_precision = bits;
      jpeg_set_colorspace(&sc, sc.in_color_space);
      sc.dct_method = JDCT_ISLOW;
    }
    for (o = 0; o < nops; o++) {
      int m = vals[pos++];
      if (m == 1) { jpeg_set_quality(&sc, (int)vals[pos++], FALSE); }
      else {
        unsigned int tbl[64]; int t = vals[pos++], scale = 100;
        if (pos + 64 > nvals) { last_err = -1; longjmp(jb, 1); }
        for (i = 0; i < 64; i++) tbl[i] = (unsigned int)vals[pos + i];
        pos += 64;
        if (m == 3) scale = vals[pos++];
        if (m == 0 || m == 3 || sc.quant_tbl_ptrs[t] == NULL) jpeg_add_quant_table(&sc, t, tbl, scale, FALSE);
        if (m == 2) {
          for (i = 0; i < 64; i++) sc.quant_tbl_ptrs[t]->quantval[i] = (UINT16)tbl[i];
          sc.quant_tbl_ptrs[t]->sent_table = FALSE;
        }
      }
    }
    if (f == 0)
      for (c = 0; c < nc; c++) {
        sc.comp_info[c].quant_tbl_no = tq[c];
        sc.comp_info[c].h_samp_factor = sc.comp_info[c].v_samp_factor = 1;
      }
    sc.optimize_coding = (optimize || bits == 12) ? TRUE : FALSE;
    if (f == 0 && prelude) {
      jpeg_write_tables(&sc);
      jpeg_mem_src(&sdc, jb_, jl);
      if (jpeg_read_header(&sdc, FALSE) != JPEG_HEADER_TABLES_ONLY) { last_err = -2; longjmp(jb, 1); }
      { int k; fprintf(mem, "%02x%02x", jb_[0], jb_[1]);
        for (k = 2; k + 3 < (int)jl && jb_[k] == 0xFF && jb_[k + 1] != 0xD9; ) { int L = (jb_[k + 2] << 8) | jb_[k + 3], j;
          for (j = 0; j < L + 2 && k + j < (int)jl; j++) fprintf(mem, "%02x", jb_[k + j]); k += L + 2; }
        fprintf(mem, " | ;"); }
      free(jb_); jb_ = NULL; jl = 0;
      jpeg_mem_dest(&sc, &jb_, &jl);
    }
    jpeg_start_compress(&sc, wat ? TRUE : FALSE);
    write_image(&sc, fsrc, bits, w, h, nc, NULL);
    jpeg_finish_compress(&sc);
    jpeg_mem_src(&sdc, jb_, jl);
    jpeg_read_header(&sdc, TRUE);
    sdc.out_color_space = sdc.jpeg_color_space;
    sdc.dct_method = JDCT_ISLOW;
    jpeg_start_decompress(&sdc);
    if ((int)sdc.output_width != w || (int)sdc.output_height != h || sdc.output_components != nc) { last_err = -3; longjmp(jb, 1); }
    read_image(&sdc, fdst, bits, w, nc);
    jpeg_finish_decompress(&sdc);
    /* header + blocks of this frame */
    { int k, x, y; fprintf(mem, " %02x%02x", jb_[0], jb_[1]);
      for (k = 2; k + 3 < (int)jl && jb_[k] == 0xFF; ) { int L = (jb_[k + 2] << 8) | jb_[k + 3], j;
        if (jb_[k + 1] == 0xDA) { fprintf(mem, "ffda"); break; }
        for (j = 0; j < L + 2 && k + j < (int)jl; j++) fprintf(mem, "%02x", jb_[k + j]); k += L + 2; }
      fprintf(mem, " |");
      for (c = 0; c < nc; c++) for (y = 0; y < h; y += 8) for (x = 0; x < w; x += 8) {
        long long sse = 0; int n = 0, ma = 0, yy, xx;
        for (yy = y; yy < y + 8 && yy < h; yy++) for (xx = x; xx < x + 8 && xx < w; xx++) {
          int d = (int)fdst[(yy * w + xx) * nc + c] - (int)fsrc[(yy * w + xx) * nc + c];
          if (d < 0) d = -d;
          if (d > ma) ma = d;
          sse += (long long)d * d; n++;
        }
        fprintf(mem, " %d:%d:%d:%d:%lld:%d", c, x / 8, y / 8, n, sse, ma);
      }
      if (f + 1 < nframes) fprintf(mem, " ;"); }
  }
  fclose(mem);
  printf("seq ok%s%s\n", obuf[0] == ' ' ? "" : " ", obuf);
  jpeg_destroy_compress(&sc); jpeg_destroy_decompress(&sdc); free(fsrc); free(fdst); free(jb_); free(obuf);
}

static void read_rows(j_decompress_ptr d, unsigned short *out, int bits, int w, int nc, int nrows)
{
  int i, y, k = 0;
  JSAMPLE *r8 = malloc(w * nc); J12SAMPLE *r12 = malloc(sizeof(J12SAMPLE) * w * nc);
  while (d->output_scanline < d->output_height && k < nrows) {
    y = d->output_scanline;
    if (bits == 8) { JSAMPROW rp = r8; if (jpeg_read_scanlines(d, &rp, 1) != 1) break; for (i = 0; i < w * nc; i++) out[y * w * nc + i] = r8[i]; }
    else { J12SAMPROW rp = r12; if (jpeg12_read_scanlines(d, &rp, 1) != 1) break; for (i = 0; i < w * nc; i++) out[y * w * nc + i] = (unsigned short)r12[i]; }
    k++;
  }
  free(r8); free(r12);
}

static void do_bimg(void)
{
  static jpeg_scan_info scans[32];
  static unsigned short *ref;
  int bits, nc, w, h, kind, p1, quality, ntab, i, c, t, script, mode, smooth, ns = 0, passes = 0, tq[4], base;
  if (nvals < 9) { printf("bimg badcase\n"); return; }
  bits = vals[0]; nc = vals[1]; w = vals[2]; h = vals[3]; kind = vals[4]; p1 = vals[5]; quality = vals[7]; ntab = vals[8];
  if (ntab < 0 || ntab > 4 || nvals != 9 + 64 * ntab + 8 || (nc != 1 && nc != 3 && nc != 4) || (bits != 8 && bits != 12) ||
      w < 1 || h < 1 || w > 512 || h > 512) { printf("bimg badcase\n"); return; }
  base = 9 + 64 * ntab;
  for (i = 0; i < 4; i++) tq[i] = vals[base + i];
  script = vals[base + 4]; mode = vals[base + 5]; smooth = vals[base + 6];
  free(src); free(dst); free(ref);
  src = gen_image(bits, nc, w, h, kind, p1, (unsigned long long)vals[6]);
  dst = calloc(sizeof(unsigned short), w * h * nc); ref = calloc(sizeof(unsigned short), w * h * nc);
  if (setjmp(jb)) { printf("bimg err %d\n", last_err); jpeg_abort_compress(&cc); jpeg_abort_decompress(&dc); return; }
  free(jbuf); jbuf = NULL; jlen = 0;
  if (cc.dest == &sd.pub) cc.dest = NULL;
  jpeg_mem_dest(&cc, &jbuf, &jlen);
  cc.image_width = w; cc.image_height = h; cc.input_components = nc;
  cc.in_color_space = nc == 1 ? JCS_GRAYSCALE : nc == 3 ? JCS_RGB : JCS_CMYK;
  cc.data_precision = bits;
  jpeg_set_defaults(&cc);
  cc.data_precision = bits;
  jpeg_set_colorspace(&cc, cc.in_color_space);
  cc.dct_method = JDCT_ISLOW;
  if (quality >= 0) jpeg_set_quality(&cc, quality, FALSE);
  for (t = 0; t < ntab; t++) {
    unsigned int tbl[64];
    for (i = 0; i < 64; i++) tbl[i] = (unsigned int)vals[9 + 64 * t + i];
    jpeg_add_quant_table(&cc, t, tbl, 100, FALSE);
  }
  for (c = 0; c < nc; c++) {
    if (tq[c] >= 0) cc.comp_info[c].quant_tbl_no = tq[c];
    cc.comp_info[c].h_samp_factor = cc.comp_info[c].v_samp_factor = 1;
  }
#define SCAN(comp, ss, se, ah, al) do { scans[ns].comps_in_scan = 1; scans[ns].component_index[0] = (comp); \
    scans[ns].Ss = (ss); scans[ns].Se = (se); scans[ns].Ah = (ah); scans[ns].Al = (al); ns++; } while (0)
  if (script == 0) jpeg_simple_progression(&cc);
  else {
    if (script == 1) for (c = 0; c < nc; c++) SCAN(c, 0, 63, 0, 0);
    else if (script == 2) { for (c = 0; c < nc; c++) SCAN(c, 0, 0, 0, 0); for (c = 0; c < nc; c++) SCAN(c, 1, 63, 0, 0); }
    else { for (c = 0; c < nc; c++) SCAN(c, 0, 0, 0, 1); for (c = 0; c < nc; c++) SCAN(c, 1, 63, 0, 1);
           for (c = 0; c < nc; c++) SCAN(c, 0, 0, 1, 0); for (c = 0; c < nc; c++) SCAN(c, 1, 63, 1, 0); }
    cc.scan_info = scans; cc.num_scans = ns;
  }
  jpeg_start_compress(&cc, TRUE);
  write_image(&cc, src, bits, w, h, nc, NULL);
  jpeg_finish_compress(&cc);
  cc.scan_info = NULL; cc.num_scans = 0;
  /* one-shot reference decode */
  jpeg_mem_src(&dc, jbuf, jlen);
  jpeg_read_header(&dc, TRUE);
  dc.out_color_space = dc.jpeg_color_space; dc.dct_method = JDCT_ISLOW;
  jpeg_start_decompress(&dc);
  read_image(&dc, ref, bits, w, nc);
  jpeg_finish_decompress(&dc);
  /* buffered-image decode */
  sm = (unsigned long long)vals[base + 7];
  jpeg_mem_src(&dc, jbuf, jlen);
  jpeg_read_header(&dc, TRUE);
  dc.out_color_space = dc.jpeg_color_space; dc.dct_method = JDCT_ISLOW;
  dc.buffered_image = TRUE;
  dc.do_block_smoothing = smooth ? TRUE : FALSE;
  jpeg_start_decompress(&dc);
  if (mode == 0) {
    while (!jpeg_input_complete(&dc)) {
      jpeg_start_output(&dc, dc.input_scan_number);
      read_rows(&dc, dst, bits, w, nc, h);
      jpeg_finish_output(&dc);
      passes++;
    }
  } else {
    while (!jpeg_input_complete(&dc)) {
      int rows, k, scan0 = dc.input_scan_number;
      if (mode == 1) { k = (int)(rnd() % 12); while (k-- > 0 && jpeg_consume_input(&dc) != JPEG_REACHED_EOI) ; }
      else { while (!jpeg_input_complete(&dc) && dc.input_scan_number == scan0 && passes > 0) if (jpeg_consume_input(&dc) == JPEG_REACHED_EOI) break; }
      if (jpeg_input_complete(&dc)) break;
      jpeg_start_output(&dc, dc.input_scan_number);
      rows = (rnd() % 3 == 0) ? h : (int)(rnd() % (h + 1));
      read_rows(&dc, dst, bits, w, nc, rows);
      jpeg_finish_output(&dc);
      passes++;
    }
  }
  if (mode != 0 || passes == 0) {       /* the final pass, input complete */
    jpeg_start_output(&dc, dc.input_scan_number);
    read_rows(&dc, dst, bits, w, nc, h);
    jpeg_finish_output(&dc);
    passes++;
  }
  jpeg_finish_decompress(&dc);
  printf("bimg ok ");
  print_header(jbuf, jlen);
  printf(" |");
  print_blocks(src, dst, w, h, nc);
  printf(" | same=%d passes=%d\n", !memcmp(dst, ref, sizeof(unsigned short) * w * h * nc), passes);
}

int main(void)
{
  setvbuf(stdout, NULL, _IOLBF, 0);
  vals = malloc(sizeof(long) * MAXVALS);
  cc.err = jpeg_std_error(&ce); ce.error_exit = my_exit; ce.emit_message = my_emit;
  dc.err = jpeg_std_error(&de); de.error_exit = my_exit; de.emit_message = my_emit;
  jpeg_create_compress(&cc);
  jpeg_create_decompress(&dc);
  while (getline(&line, &cap, stdin) > 0) {
    if (!strncmp(line, "api ", 4)) { parse(line + 4); do_api(); }
    else if (!strncmp(line, "seq ", 4)) { parse(line + 4); do_seq(); }
    else if (!strncmp(line, "bimg ", 5)) { parse(line + 5); do_bimg(); }
    else printf("unknown\n");
  }
  if (setjmp(jb)) return 0;
  cc.dest = NULL;
  jpeg_destroy_compress(&cc);
  jpeg_destroy_decompress(&dc);
  free(jbuf); free(src); free(dst); free(vals); free(line); free(sd.buf); free(sd.out);
  return 0;
}
