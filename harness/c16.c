/* C16 harness: runs the REAL header/marker/ICC code of the working tree.
 * One case per input line, one result line per case.  Byte strings are hex, "-" = empty.
 *
 *  jc W H cs samp prec mode psv pt restart jfif wj wa iccpos icchex markers
 *        libjpeg-API compression (jpeg_write_marker / jpeg_write_icc_profile)  -> ok <jpeg hex> | err <code>
 *  tjc pf W H bits icchex k=v,...     TurboJPEG compression (tj3Set, tj3SetICCProfile, tj3CompressN) -> ok <hex> | err <msg>
 *  rd cfg hex                         jpeg_save_markers(cfg); jpeg_read_header; jpeg_read_icc_profile -> canonical header line
 *  tjrd savemarkers hex               tj3DecompressHeader, tj3Get*, tj3GetICCProfile
 *  xf api opt copynone op dsticc hex  tj3Transform | jcopy_markers_setup/execute (jpegtran style) -> ok <hex>
 *  Lines of other kinds (handled by the model driver only) are answered with "-".
 */
#define _GNU_SOURCE
#include <stdio.h>
#include <stdlib.h>
#include <string.h>
#include <setjmp.h>
#include <stdint.h>
#define JPEG_INTERNALS
#include "jinclude.h"
#include "jpeglib.h"
#include "jerror.h"
#include "transupp.h"
#include "turbojpeg.h"

static jmp_buf jb;
static int last_err, n_warn, n_bogus_icc;
static char last_msg[JMSG_LENGTH_MAX];
static void my_exit(j_common_ptr c)
{
  char *q; last_err = c->err->msg_code; (*c->err->format_message) (c, last_msg);
  for (q = last_msg; *q; q++) if (*q == ' ' || *q == '\n') *q = '_';
  longjmp(jb, 1);
}
static void my_emit(j_common_ptr c, int lvl)
{
  if (lvl < 0) { c->err->num_warnings++; n_warn++; if (c->err->msg_code == JWRN_BOGUS_ICC) n_bogus_icc++; }
}
static void my_output(j_common_ptr c) { (void)c; }

/* ------------------------------------------------------------------ utils */
static int hexval(int c) { return c <= '9' ? c - '0' : (c | 32) - 'a' + 10; }
static unsigned char *unhex(const char *s, size_t *n)
{
  size_t l, i; unsigned char *b;
  if (!s || !strcmp(s, "-")) { *n = 0; return (unsigned char *)calloc(1, 1); }
  l = strlen(s) / 2; b = (unsigned char *)malloc(l + 1);
  for (i = 0; i < l; i++) b[i] = (unsigned char)(hexval(s[2 * i]) * 16 + hexval(s[2 * i + 1]));
  *n = l; return b;
}
static void puthex(const unsigned char *b, size_t n)
{
  static const char d[] = "0123456789abcdef"; size_t i; char *o;
  if (n == 0) { fputs("-", stdout); return; }
  o = (char *)malloc(2 * n + 1);
  for (i = 0; i < n; i++) { o[2 * i] = d[b[i] >> 4]; o[2 * i + 1] = d[b[i] & 15]; }
  o[2 * n] = 0; fputs(o, stdout); free(o);
}
static uint64_t fnv(const unsigned char *b, size_t n)
{
  uint64_t h = 0xcbf29ce484222325ULL; size_t i;
  for (i = 0; i < n; i++) { h ^= b[i]; h *= 0x100000001b3ULL; }
  return h;
}
/* split a line into at most max space-separated fields (in place) */
static int split(char *s, char **f, int max)
{
  int n = 0;
  while (*s && n < max) {
    while (*s == ' ') s++;
    if (!*s || *s == '\n') break;
    f[n++] = s;
    while (*s && *s != ' ' && *s != '\n') s++;
    if (*s) *s++ = 0;
  }
  return n;
}

/* ------------------------------------------------------------ libjpeg write */
static void fill_row(void *row, int prec, int W, int nc, int y)
{
  int x, c; unsigned maxv = (1u << prec) - 1;
  for (x = 0; x < W; x++) for (c = 0; c < nc; c++) {
    unsigned v = (unsigned)(x * 37 + y * 101 + c * 59 + ((x * y) & 7) * 911) & maxv;
    if (prec <= 8) ((unsigned char *)row)[x * nc + c] = (unsigned char)v;
    else ((unsigned short *)row)[x * nc + c] = (unsigned short)v;
  }
}

static unsigned char *jc_cur;    /* marker data being written (freed on the error path too) */
static void do_jc(char **f, int nf)
{
  struct jpeg_compress_struct c; struct jpeg_error_mgr je;
  unsigned char *out = NULL; unsigned long outsz = 0;
  unsigned char *icc = NULL; size_t iccn = 0;
  int W, H, prec, psv, pt, restart, iccpos, y, nc, i;
  const char *cs, *samp, *mode, *jfif, *wj, *wa, *markers;
  void *volatile row = NULL;     /* assigned after setjmp, read on the error path */
  if (nf < 16) { puts("err usage"); return; }
  W = atoi(f[1]); H = atoi(f[2]); cs = f[3]; samp = f[4]; prec = atoi(f[5]); mode = f[6];
  psv = atoi(f[7]); pt = atoi(f[8]); restart = atoi(f[9]); jfif = f[10]; wj = f[11]; wa = f[12];
  iccpos = atoi(f[13]); icc = unhex(f[14], &iccn); markers = f[15];
  c.err = jpeg_std_error(&je); je.error_exit = my_exit; je.emit_message = my_emit; je.output_message = my_output;
  if (setjmp(jb)) { printf("err %d %s\n", last_err, last_msg); jpeg_destroy_compress(&c); free(out); free(icc); free((void *)row); free(jc_cur); jc_cur = NULL; return; }
  jpeg_create_compress(&c);
  jpeg_mem_dest(&c, &out, &outsz);
  c.image_width = W; c.image_height = H;
  if (!strcmp(cs, "gray")) { c.input_components = 1; c.in_color_space = JCS_GRAYSCALE; }
  else if (!strcmp(cs, "cmyk") || !strcmp(cs, "ycck")) { c.input_components = 4; c.in_color_space = JCS_CMYK; }
  else if (!strcmp(cs, "yccin")) { c.input_components = 3; c.in_color_space = JCS_YCbCr; }
  else { c.input_components = 3; c.in_color_space = JCS_RGB; }
  nc = c.input_components;
  c.data_precision = prec;
  jpeg_set_defaults(&c);
  if (!strcmp(cs, "rgb")) jpeg_set_colorspace(&c, JCS_RGB);
  if (!strcmp(cs, "ycck")) jpeg_set_colorspace(&c, JCS_YCCK);
  if (strcmp(samp, "-")) {
    const char *p = samp;
    for (i = 0; i < c.num_components && *p; i++) {
      c.comp_info[i].h_samp_factor = (int)strtol(p, (char **)&p, 10); if (*p == 'x') p++;
      c.comp_info[i].v_samp_factor = (int)strtol(p, (char **)&p, 10); if (*p == ',') p++;
    }
  }
  if (strchr(mode, 'p')) jpeg_simple_progression(&c);
  if (strchr(mode, 'a')) c.arith_code = TRUE;
  if (strchr(mode, 'o')) c.optimize_coding = TRUE;
  if (strchr(mode, 'l')) jpeg_enable_lossless(&c, psv, pt);
  c.restart_interval = (unsigned)restart;
  if (strcmp(jfif, "-")) {
    int a, b, u, xd, yd;
    if (sscanf(jfif, "%d.%d.%d.%d.%d", &a, &b, &u, &xd, &yd) == 5) {
      c.JFIF_major_version = (UINT8)a; c.JFIF_minor_version = (UINT8)b; c.density_unit = (UINT8)u;
      c.X_density = (UINT16)xd; c.Y_density = (UINT16)yd;
    }
  }
  if (wj[0] != 'd') c.write_JFIF_header = wj[0] == '1';
  if (wa[0] != 'd') c.write_Adobe_marker = wa[0] == '1';
  jpeg_start_compress(&c, TRUE);
  if (iccn && iccpos == 0) jpeg_write_icc_profile(&c, icc, (unsigned)iccn);
  if (strcmp(markers, "-")) {
    const char *p = markers; int k = 1;
    while (*p) {
      int code = (int)strtol(p, (char **)&p, 10); const char *e; size_t n; unsigned char *d; char *tmp;
      if (*p == ':') p++;
      e = strchr(p, ','); if (!e) e = p + strlen(p);
      tmp = (char *)malloc((size_t)(e - p) + 1); memcpy(tmp, p, (size_t)(e - p)); tmp[e - p] = 0;
      d = unhex(tmp, &n); free(tmp); jc_cur = d;
      if (iccn && iccpos == k) jpeg_write_icc_profile(&c, icc, (unsigned)iccn);
      if (n & 1) {                 /* odd length: exercise the piecemeal API */
        size_t j; jpeg_write_m_header(&c, code, (unsigned)n);
        for (j = 0; j < n; j++) jpeg_write_m_byte(&c, d[j]);
      } else jpeg_write_marker(&c, code, d, (unsigned)n);
      free(d); jc_cur = NULL; k++;
      p = *e ? e + 1 : e;
    }
  }
  if (iccn && iccpos < 0) jpeg_write_icc_profile(&c, icc, (unsigned)iccn);
  row = malloc((size_t)W * nc * 2 + 16);
  for (y = 0; y < H; y++) {
    fill_row((void *)row, c.data_precision, W, nc, y);
    if (c.data_precision <= 8) { JSAMPROW r = (JSAMPROW)row; jpeg_write_scanlines(&c, &r, 1); }
    else if (c.data_precision <= 12) { J12SAMPROW r = (J12SAMPROW)row; jpeg12_write_scanlines(&c, &r, 1); }
    else { J16SAMPROW r = (J16SAMPROW)row; jpeg16_write_scanlines(&c, &r, 1); }
  }
  jpeg_finish_compress(&c);
  fputs("ok ", stdout); puthex(out, outsz); putchar('\n');
  jpeg_destroy_compress(&c); free(out); free(icc); free((void *)row);
}

/* ------------------------------------------------------------- libjpeg read */
/* suspending source manager: fill_input_buffer returns FALSE; the application exposes more of the
   file after each JPEG_SUSPENDED, keeping what the library has not consumed (its last restart point) */
struct susp_src { struct jpeg_source_mgr pub; const unsigned char *base; size_t visible, pending_skip; };
static void s_init(j_decompress_ptr c) { (void)c; }
static boolean s_fill(j_decompress_ptr c) { (void)c; return FALSE; }
static void s_term(j_decompress_ptr c) { (void)c; }
static void s_skip(j_decompress_ptr c, long n)
{
  struct susp_src *s = (struct susp_src *)c->src;
  if (n <= 0) return;
  if ((size_t)n > s->pub.bytes_in_buffer) {
    s->pending_skip += (size_t)n - s->pub.bytes_in_buffer;
    s->pub.next_input_byte += s->pub.bytes_in_buffer; s->pub.bytes_in_buffer = 0;
  } else { s->pub.next_input_byte += n; s->pub.bytes_in_buffer -= (size_t)n; }
}
static void s_extend(struct susp_src *s, size_t upto)
{
  size_t consumed = (size_t)(s->pub.next_input_byte - s->base);
  s->visible = upto; s->pub.bytes_in_buffer = upto - consumed;
  if (s->pending_skip) {
    size_t k = s->pending_skip < s->pub.bytes_in_buffer ? s->pending_skip : s->pub.bytes_in_buffer;
    s->pub.next_input_byte += k; s->pub.bytes_in_buffer -= k; s->pending_skip -= k;
  }
}

/* read the header of buf (one buffer when cuts == NULL, else through the suspending source with the
   visibility schedule cuts[0] < cuts[1] < ... then everything); header line to o, restart-point offsets
   at each suspension to offs.  Returns 0 when a header line was produced. */
static int rd_core(FILE *o, const char *cfg, const unsigned char *buf, size_t n, const size_t *cuts, int ncuts, FILE *offs)
{
  struct jpeg_decompress_struct d; struct jpeg_error_mgr je; struct susp_src src;
  const char *p; int i, rc, ci = 0; jpeg_saved_marker_ptr m;
  JOCTET *icc = NULL; unsigned int icclen = 0; int before;
  d.err = jpeg_std_error(&je); je.error_exit = my_exit; je.emit_message = my_emit; je.output_message = my_output;
  n_warn = n_bogus_icc = 0;
  if (setjmp(jb)) { fprintf(o, "err"); jpeg_destroy_decompress(&d); return 1; }
  jpeg_create_decompress(&d);
  if (!cuts) jpeg_mem_src(&d, buf, (unsigned long)n);
  else {
    memset(&src, 0, sizeof(src));
    src.pub.init_source = s_init; src.pub.fill_input_buffer = s_fill; src.pub.skip_input_data = s_skip;
    src.pub.resync_to_restart = jpeg_resync_to_restart; src.pub.term_source = s_term;
    src.base = buf; src.pub.next_input_byte = buf; src.pub.bytes_in_buffer = 0;
    d.src = &src.pub;
    s_extend(&src, ncuts > 0 ? cuts[0] : n); ci = 1;
  }
  p = cfg;
  if (strcmp(p, "-")) while (*p) {
    int code = (int)strtol(p, (char **)&p, 10); unsigned lim;
    if (*p == ':') p++;
    lim = (unsigned)strtoul(p, (char **)&p, 10);
    if (*p == ',') p++;
    jpeg_save_markers(&d, code, lim);
  }
  while ((rc = jpeg_read_header(&d, TRUE)) == JPEG_SUSPENDED) {
    if (!cuts || src.visible >= n) { fprintf(o, "err suspended-with-all-data"); jpeg_destroy_decompress(&d); return 1; }
    if (offs) fprintf(offs, ".%zu", (size_t)(src.pub.next_input_byte - src.base));
    s_extend(&src, ci < ncuts ? cuts[ci] : n); ci++;
  }
  if (rc != JPEG_HEADER_OK) { fprintf(o, "err"); jpeg_destroy_decompress(&d); return 1; }
  fprintf(o, "hdr %u %u %d flags=%d%d%d ncomp=%d comps=", d.image_width, d.image_height, d.data_precision,
          d.progressive_mode ? 1 : 0, d.master->lossless ? 1 : 0, d.arith_code ? 1 : 0, d.num_components);
  for (i = 0; i < d.num_components; i++)
    fprintf(o, "%s%d.%d.%d.%d", i ? "," : "", d.comp_info[i].component_id, d.comp_info[i].h_samp_factor,
            d.comp_info[i].v_samp_factor, d.comp_info[i].quant_tbl_no);
  fprintf(o, " jfif=%d ver=%d.%d dens=%d.%d.%d adobe=%d tr=%d ri=%u scan=", d.saw_JFIF_marker ? 1 : 0,
          d.saw_JFIF_marker ? d.JFIF_major_version : 1, d.saw_JFIF_marker ? d.JFIF_minor_version : 1,
          d.density_unit, d.X_density, d.Y_density, d.saw_Adobe_marker ? 1 : 0,
          d.saw_Adobe_marker ? d.Adobe_transform : 0, d.restart_interval);
  for (i = 0; i < d.comps_in_scan; i++)
    fprintf(o, "%s%d.%d.%d", i ? "," : "", d.cur_comp_info[i]->component_index, d.cur_comp_info[i]->dc_tbl_no,
            d.cur_comp_info[i]->ac_tbl_no);
  fprintf(o, ";%d;%d;%d;%d cs=%d |", d.Ss, d.Se, d.Ah, d.Al, (int)d.jpeg_color_space);
  for (m = d.marker_list; m; m = m->next)
    fprintf(o, " m %d %u %u %016llx ;", m->marker, m->original_length, m->data_length,
            (unsigned long long)fnv(m->data, m->data_length));
  before = n_bogus_icc;
  if (jpeg_read_icc_profile(&d, &icc, &icclen))
    fprintf(o, " | icc ok %u %016llx", icclen, (unsigned long long)fnv(icc, icclen));
  else fprintf(o, " | icc %s", n_bogus_icc > before ? "bogus" : "absent");
  free(icc);
  jpeg_destroy_decompress(&d);
  return 0;
}

static void do_rd(char **f, int nf)
{
  unsigned char *buf; size_t n;
  if (nf < 3) { puts("err usage"); return; }
  buf = unhex(f[2], &n);
  rd_core(stdout, f[1], buf, n, NULL, 0, NULL);
  putchar('\n');
  free(buf);
}

/* rds cfg spec hex : the same header through the suspending source for many partitions.
   spec = every:<lo>:<hi>  (one cut at each k in lo..hi)  |  pts:<k1+k2+..>/<k1+..>/...
   output: for each partition  <label>=<S|D>:<restart offsets>   (S: same header line as with one buffer),
   then " || <label> <line>" for the first partition that differs */
static void do_rds(char **f, int nf)
{
  unsigned char *buf; size_t n; char *ref = NULL, *cur = NULL, *offs = NULL, *firstbad = NULL; size_t rl = 0, cl = 0, ol = 0;
  FILE *fp; const char *p;
  if (nf < 4) { puts("err usage"); return; }
  buf = unhex(f[3], &n);
  fp = open_memstream(&ref, &rl); rd_core(fp, f[1], buf, n, NULL, 0, NULL); fclose(fp);
  p = f[2];
  if (!strncmp(p, "every:", 6)) {
    size_t lo = strtoul(p + 6, (char **)&p, 10), hi, k; if (*p == ':') p++; hi = strtoul(p, NULL, 10);
    for (k = lo; k <= hi && k < n; k++) {
      FILE *fo;
      fp = open_memstream(&cur, &cl); fo = open_memstream(&offs, &ol);
      rd_core(fp, f[1], buf, n, &k, 1, fo); fclose(fp); fclose(fo);
      printf("%s%zu=%c:%s", k > lo ? " " : "", k, strcmp(cur, ref) ? 'D' : 'S', offs);
      if (strcmp(cur, ref) && !firstbad) { firstbad = (char *)malloc(cl + 64); sprintf(firstbad, " || %zu %s", k, cur); }
      free(cur); free(offs); cur = offs = NULL;
    }
  } else if (!strncmp(p, "pts:", 4)) {
    int first = 1;
    p += 4;
    while (*p) {
      size_t cuts[64]; int nc = 0; const char *label = p; FILE *fo; size_t ll;
      while (*p && *p != '/') { if (nc < 64) cuts[nc++] = strtoul(p, (char **)&p, 10); else strtoul(p, (char **)&p, 10); if (*p == '+') p++; }
      ll = (size_t)(p - label);
      fp = open_memstream(&cur, &cl); fo = open_memstream(&offs, &ol);
      rd_core(fp, f[1], buf, n, cuts, nc, fo); fclose(fp); fclose(fo);
      printf("%s%.*s=%c:%s", first ? "" : " ", (int)ll, label, strcmp(cur, ref) ? 'D' : 'S', offs);
      if (strcmp(cur, ref) && !firstbad) { firstbad = (char *)malloc(cl + ll + 64); sprintf(firstbad, " || %.*s %s", (int)ll, label, cur); }
      free(cur); free(offs); cur = offs = NULL; first = 0;
      if (*p == '/') p++;
    }
  }
  if (firstbad) { fputs(firstbad, stdout); free(firstbad); }
  putchar('\n');
  free(ref); free(buf);
}

/* ---------------------------------------------------------------- TurboJPEG */
static int tjparam(const char *k)
{
  static const struct { const char *n; int p; } t[] = {
    { "subsamp", TJPARAM_SUBSAMP }, { "quality", TJPARAM_QUALITY }, { "cs", TJPARAM_COLORSPACE },
    { "prog", TJPARAM_PROGRESSIVE }, { "arith", TJPARAM_ARITHMETIC }, { "lossless", TJPARAM_LOSSLESS },
    { "psv", TJPARAM_LOSSLESSPSV }, { "pt", TJPARAM_LOSSLESSPT }, { "rblocks", TJPARAM_RESTARTBLOCKS },
    { "rrows", TJPARAM_RESTARTROWS }, { "xd", TJPARAM_XDENSITY }, { "yd", TJPARAM_YDENSITY },
    { "unit", TJPARAM_DENSITYUNITS }, { "prec", TJPARAM_PRECISION }, { "optimize", TJPARAM_OPTIMIZE },
    { "savemarkers", TJPARAM_SAVEMARKERS }, { NULL, 0 } };
  int i;
  for (i = 0; t[i].n; i++) if (!strcmp(t[i].n, k)) return t[i].p;
  return -1;
}

static int apply_params(tjhandle h, const char *ps)
{
  char tmp[64]; const char *p = ps;
  if (!strcmp(ps, "-")) return 0;
  while (*p) {
    const char *e = strchr(p, ','), *q; int id; size_t l;
    if (!e) e = p + strlen(p);
    q = memchr(p, '=', (size_t)(e - p));
    if (!q) return -1;
    l = (size_t)(q - p); if (l >= sizeof(tmp)) return -1;
    memcpy(tmp, p, l); tmp[l] = 0;
    id = tjparam(tmp);
    if (id < 0 || tj3Set(h, id, atoi(q + 1)) < 0) { printf("err set:%s\n", tmp); return -1; }
    p = *e ? e + 1 : e;
  }
  return 0;
}

static void do_tjc(char **f, int nf)
{
  tjhandle h; int pf, W, H, bits, rc = -1, x, y, c, ps; unsigned char *icc; size_t iccn;
  unsigned char *jpg = NULL; size_t jn = 0; void *img;
  if (nf < 7) { puts("err usage"); return; }
  pf = atoi(f[1]); W = atoi(f[2]); H = atoi(f[3]); bits = atoi(f[4]); icc = unhex(f[5], &iccn);
  h = tj3Init(TJINIT_COMPRESS);
  if (!h) { puts("err init"); free(icc); return; }
  if (apply_params(h, f[6]) < 0) { tj3Destroy(h); free(icc); return; }
  if (iccn && tj3SetICCProfile(h, icc, iccn) < 0) { puts("err seticc"); tj3Destroy(h); free(icc); return; }
  ps = tjPixelSize[pf];
  img = malloc((size_t)W * H * ps * 2 + 16);
  {
    int prec = tj3Get(h, TJPARAM_PRECISION); unsigned maxv;
    if (prec < 2 || prec > bits) prec = bits;
    if (!tj3Get(h, TJPARAM_LOSSLESS)) prec = bits;
    maxv = (1u << prec) - 1;
    for (y = 0; y < H; y++) for (x = 0; x < W; x++) for (c = 0; c < ps; c++) {
      unsigned v = (unsigned)(x * 37 + y * 101 + c * 59 + ((x * y) & 7) * 911) & maxv;
      if (bits == 8) ((unsigned char *)img)[(y * W + x) * ps + c] = (unsigned char)v;
      else ((unsigned short *)img)[(y * W + x) * ps + c] = (unsigned short)v;
    }
  }
  if (bits == 8) rc = tj3Compress8(h, (unsigned char *)img, W, 0, H, pf, &jpg, &jn);
  else if (bits == 12) rc = tj3Compress12(h, (short *)img, W, 0, H, pf, &jpg, &jn);
  else rc = tj3Compress16(h, (unsigned short *)img, W, 0, H, pf, &jpg, &jn);
  if (rc < 0) { char e[200]; char *q; strncpy(e, tj3GetErrorStr(h), 199); e[199] = 0; for (q = e; *q; q++) if (*q == ' ' || *q == '\n') *q = '_'; printf("err %s\n", e); }
  else { fputs("ok ", stdout); puthex(jpg, jn); putchar('\n'); }
  tj3Free(jpg); free(img); free(icc); tj3Destroy(h);
}

static void do_tjrd(char **f, int nf)
{
  tjhandle h; unsigned char *buf; size_t n; unsigned char *icc = NULL; size_t iccn = 0; int rc, sm;
  if (nf < 3) { puts("err usage"); return; }
  sm = atoi(f[1]); buf = unhex(f[2], &n);
  h = tj3Init(TJINIT_DECOMPRESS);
  if (sm >= 0 && tj3Set(h, TJPARAM_SAVEMARKERS, sm) < 0) { puts("err set"); tj3Destroy(h); free(buf); return; }
  rc = tj3DecompressHeader(h, buf, n);
  if (rc < 0 && tj3GetErrorCode(h) == TJERR_FATAL) { puts("err"); tj3Destroy(h); free(buf); return; }
  printf("tj %d %d %d sub=%d cs=%d flags=%d%d%d psv=%d pt=%d dens=%d.%d.%d warn=%d", tj3Get(h, TJPARAM_JPEGWIDTH),
         tj3Get(h, TJPARAM_JPEGHEIGHT), tj3Get(h, TJPARAM_PRECISION), tj3Get(h, TJPARAM_SUBSAMP),
         tj3Get(h, TJPARAM_COLORSPACE), tj3Get(h, TJPARAM_PROGRESSIVE), tj3Get(h, TJPARAM_LOSSLESS),
         tj3Get(h, TJPARAM_ARITHMETIC), tj3Get(h, TJPARAM_LOSSLESSPSV), tj3Get(h, TJPARAM_LOSSLESSPT),
         tj3Get(h, TJPARAM_DENSITYUNITS), tj3Get(h, TJPARAM_XDENSITY), tj3Get(h, TJPARAM_YDENSITY), rc < 0 ? 1 : 0);
  if (tj3GetICCProfile(h, &icc, &iccn) == 0 && icc)
    printf(" | icc ok %zu %016llx", iccn, (unsigned long long)fnv(icc, iccn));
  else printf(" | icc absent");
  /* a second call must report that the profile has been handed over */
  { unsigned char *icc2 = NULL; size_t n2 = 0; if (tj3GetICCProfile(h, &icc2, &n2) == 0) { printf(" second-get-succeeded"); tj3Free(icc2); } }
  putchar('\n');
  tj3Free(icc); tj3Destroy(h); free(buf);
}

static void do_xf(char **f, int nf)
{
  unsigned char *src, *dicc; size_t n, diccn; int opt, copynone, op;
  if (nf < 7) { puts("err usage"); return; }
  opt = atoi(f[2]); copynone = atoi(f[3]); op = atoi(f[4]); dicc = unhex(f[5], &diccn); src = unhex(f[6], &n);
  if (!strcmp(f[1], "tj")) {
    tjhandle h = tj3Init(TJINIT_TRANSFORM); tjtransform t; unsigned char *dst = NULL; size_t dn = 0; int rc;
    memset(&t, 0, sizeof(t)); t.op = op; t.options = copynone ? TJXOPT_COPYNONE : 0;
    if (opt >= 0 && tj3Set(h, TJPARAM_SAVEMARKERS, opt) < 0) { puts("err set"); tj3Destroy(h); free(src); free(dicc); return; }
    if (diccn && tj3SetICCProfile(h, dicc, diccn) < 0) { puts("err seticc"); tj3Destroy(h); free(src); free(dicc); return; }
    rc = tj3Transform(h, src, n, 1, &dst, &dn, &t);
    if (rc < 0) puts("err transform"); else { fputs("ok ", stdout); puthex(dst, dn); putchar('\n'); }
    tj3Free(dst); tj3Destroy(h);
  } else {
    struct jpeg_decompress_struct d; struct jpeg_compress_struct c; struct jpeg_error_mgr je, je2;
    unsigned char *out = NULL; unsigned long outsz = 0; jvirt_barray_ptr *coefs;
    d.err = jpeg_std_error(&je); je.error_exit = my_exit; je.emit_message = my_emit; je.output_message = my_output;
    c.err = jpeg_std_error(&je2); je2.error_exit = my_exit; je2.emit_message = my_emit; je2.output_message = my_output;
    if (setjmp(jb)) { printf("err %d\n", last_err); jpeg_destroy_compress(&c); jpeg_destroy_decompress(&d); free(out); free(src); free(dicc); return; }
    jpeg_create_decompress(&d); jpeg_create_compress(&c);
    jpeg_mem_src(&d, src, (unsigned long)n);
    jcopy_markers_setup(&d, (JCOPY_OPTION)opt);
    jpeg_read_header(&d, TRUE);
    coefs = jpeg_read_coefficients(&d);
    jpeg_copy_critical_parameters(&d, &c);
    jpeg_mem_dest(&c, &out, &outsz);
    jpeg_write_coefficients(&c, coefs);
    jcopy_markers_execute(&d, &c, (JCOPY_OPTION)opt);
    if (diccn) jpeg_write_icc_profile(&c, dicc, (unsigned)diccn);
    jpeg_finish_compress(&c);
    jpeg_finish_decompress(&d);
    fputs("ok ", stdout); puthex(out, outsz); putchar('\n');
    jpeg_destroy_compress(&c); jpeg_destroy_decompress(&d); free(out);
  }
  free(src); free(dicc);
}

/* xfh api steps srchex : a HISTORY on one TurboJPEG handle / one jpeg_decompress_struct.
   steps = comma list of  t<opt>.<copynone>  (transform with that copy option)  |  h<savemarkers> (header read) */
static void do_xfh(char **f, int nf)
{
  unsigned char *src; size_t n; const char *p;
  if (nf < 4) { puts("err usage"); return; }
  src = unhex(f[3], &n);
  fputs("ok", stdout);
  if (!strcmp(f[1], "tj")) {
    tjhandle h = tj3Init(TJINIT_TRANSFORM);
    for (p = f[2]; *p; ) {
      if (*p == 't') {
        int opt = (int)strtol(p + 1, (char **)&p, 10), cn = 0; tjtransform t; unsigned char *dst = NULL; size_t dn = 0;
        if (*p == '.') cn = (int)strtol(p + 1, (char **)&p, 10);
        memset(&t, 0, sizeof(t)); t.op = TJXOP_NONE; t.options = cn ? TJXOPT_COPYNONE : 0;
        if (tj3Set(h, TJPARAM_SAVEMARKERS, opt) < 0 || tj3Transform(h, src, n, 1, &dst, &dn, &t) < 0) fputs(" -", stdout);
        else { putchar(' '); puthex(dst, dn); }
        tj3Free(dst);
      } else if (*p == 'h') {
        int sm = (int)strtol(p + 1, (char **)&p, 10);
        tj3Set(h, TJPARAM_SAVEMARKERS, sm);
        tj3DecompressHeader(h, src, n);
      } else break;
      if (*p == ',') p++;
    }
    tj3Destroy(h);
  } else {
    struct jpeg_decompress_struct d; struct jpeg_compress_struct c; struct jpeg_error_mgr je, je2;
    unsigned char *out = NULL; unsigned long outsz = 0; int have_c = 0;
    d.err = jpeg_std_error(&je); je.error_exit = my_exit; je.emit_message = my_emit; je.output_message = my_output;
    c.err = jpeg_std_error(&je2); je2.error_exit = my_exit; je2.emit_message = my_emit; je2.output_message = my_output;
    if (setjmp(jb)) { printf(" err %d\n", last_err); if (have_c) jpeg_destroy_compress(&c); jpeg_destroy_decompress(&d); free(out); free(src); return; }
    jpeg_create_decompress(&d);
    for (p = f[2]; *p; ) {
      if (*p == 't') {
        int opt = (int)strtol(p + 1, (char **)&p, 10); jvirt_barray_ptr *coefs;
        if (*p == '.') strtol(p + 1, (char **)&p, 10);
        jpeg_mem_src(&d, src, (unsigned long)n);
        jcopy_markers_setup(&d, (JCOPY_OPTION)opt);
        jpeg_read_header(&d, TRUE);
        coefs = jpeg_read_coefficients(&d);
        jpeg_create_compress(&c); have_c = 1;
        jpeg_copy_critical_parameters(&d, &c);
        out = NULL; outsz = 0; jpeg_mem_dest(&c, &out, &outsz);
        jpeg_write_coefficients(&c, coefs);
        jcopy_markers_execute(&d, &c, (JCOPY_OPTION)opt);
        jpeg_finish_compress(&c);
        jpeg_destroy_compress(&c); have_c = 0;
        jpeg_finish_decompress(&d);
        putchar(' '); puthex(out, outsz); free(out); out = NULL;
      } else if (*p == 'h') {
        strtol(p + 1, (char **)&p, 10);
        jpeg_mem_src(&d, src, (unsigned long)n);
        jpeg_save_markers(&d, JPEG_APP0 + 2, 0xFFFF);
        jpeg_read_header(&d, TRUE);
        jpeg_abort_decompress(&d);
      } else break;
      if (*p == ',') p++;
    }
    jpeg_destroy_decompress(&d);
  }
  putchar('\n');
  free(src);
}

int main(void)
{
  char *line = NULL; size_t cap = 0; ssize_t len;
  setvbuf(stdout, NULL, _IOLBF, 0);
  while ((len = getline(&line, &cap, stdin)) > 0) {
    char *f[20]; int nf;
    if (len && line[len - 1] == '\n') line[len - 1] = 0;
    nf = split(line, f, 20);
    if (nf == 0) { puts("-"); continue; }
    if (!strcmp(f[0], "jc")) do_jc(f, nf);
    else if (!strcmp(f[0], "tjc")) do_tjc(f, nf);
    else if (!strcmp(f[0], "rd")) do_rd(f, nf);
    else if (!strcmp(f[0], "rds")) do_rds(f, nf);
    else if (!strcmp(f[0], "tjrd")) do_tjrd(f, nf);
    else if (!strcmp(f[0], "xf")) do_xf(f, nf);
    else if (!strcmp(f[0], "xfh")) do_xfh(f, nf);
    else puts("-");
    fflush(stdout);
  }
  free(line);
  return 0;
}
