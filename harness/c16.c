/* C16 harness: runs the REAL header/marker/ICC code of the working tree.
 * One case per input line, one result line per case.  Byte strings are hex, "-" = empty.
 *
 *  jc W H cs samp prec mode psv pt restart jfif wj wa iccpos icchex markers
 *        libjpeg-API compression (jpeg_write_marker / jpeg_write_icc_profile)  -> ok <jpeg hex> | err <code>
 *  tjc pf W H bits icchex k=v,...     TurboJPEG compression (tj3Set, tj3SetICCProfile, tj3CompressN) -> ok <hex> | err <msg>
 *  rd cfg hex                         jpeg_save_markers(cfg); jpeg_read_header; jpeg_read_icc_profile -> canonical header line
 *  tjrd savemarkers hex               tj3DecompressHeader, tj3Get*, tj3GetICCProfile
 *  xf api opt copynone op dsticc hex  tj3Transform | jcopy_markers_setup/execute (jpegtran style) -> ok <hex>
 *  Lines of other kinds (handled by the model driver only) are answered with "-".
 */
#define _GNU_SOURCE
#include <stdio.h>
#include <stdlib.h>
#include <string.h>
#include <setjmp.h>
#include <stdint.h>
#define JPEG_INTERNALS
#include "jinclude.h"
#include "jpeglib.h"
#include "jerror.h"
#include "transupp.h"
#include "turbojpeg.h"

static jmp_buf jb;
static int last_err, n_warn, n_bogus_icc;
static char last_msg[JMSG_LENGTH_MAX];
static void my_exit(j_common_ptr c)
{
  char *q; last_err = c->err->msg_code; (*c->err->format_message) (c, last_msg);
  for (q = last_msg; *q; q++) if (*q == ' ' || *q == '\n') *q = '_';
  longjmp(jb, 1);
}
static char xbuf[4096]; static size_t xlen; static int x_on;    /* JWRN_EXTRANEOUS_DATA (discarded_bytes, marker) in order */
static void my_emit(j_common_ptr c, int lvl)
{
  if (x_on && c->err->msg_code == JWRN_EXTRANEOUS_DATA && xlen + 40 < sizeof(xbuf))
    xlen += (size_t)sprintf(xbuf + xlen, " %d:%d", c->err->msg_parm.i[0], c->err->msg_parm.i[1]);
  if (lvl < 0) { c->err->num_warnings++; n_warn++; if (c->err->msg_code == JWRN_BOGUS_ICC) n_bogus_icc++; }
}
static void my_output(j_common_ptr c) { (void)c; }
static unsigned char *unhex(const char *s, size_t *n);
/* rdt: the APP0/APP14/COM trace and warning messages of the marker reader, in order */
static char trbuf[1 << 16]; static size_t trlen; static int tr_on;
static void tr_emit(j_common_ptr c, int lvl)
{
  const int *p = c->err->msg_parm.i; const char *nm = NULL; int np = 0;
  if (lvl < 0) { c->err->num_warnings++; n_warn++; }
  switch (c->err->msg_code) {
  case JWRN_JFIF_MAJOR: nm = "WarnJfifMajor"; np = 2; break;
  case JTRC_JFIF: nm = "TrJfif"; np = 5; break;
  case JTRC_JFIF_THUMBNAIL: nm = "TrThumb"; np = 2; break;
  case JTRC_JFIF_BADTHUMBNAILSIZE: nm = "TrBadThumbSize"; np = 1; break;
  case JTRC_THUMB_JPEG: nm = "TrThumbJpeg"; np = 1; break;
  case JTRC_THUMB_PALETTE: nm = "TrThumbPalette"; np = 1; break;
  case JTRC_THUMB_RGB: nm = "TrThumbRgb"; np = 1; break;
  case JTRC_JFIF_EXTENSION: nm = "TrJfifExt"; np = 2; break;
  case JTRC_APP0: nm = "TrApp0"; np = 1; break;
  case JTRC_ADOBE: nm = "TrAdobe"; np = 4; break;
  case JTRC_APP14: nm = "TrApp14"; np = 1; break;
  case JTRC_MISC_MARKER: nm = "TrMisc"; np = 2; break;
  default: break;
  }
  if (nm && tr_on && trlen + 120 < sizeof(trbuf)) {
    int k; trlen += (size_t)sprintf(trbuf + trlen, " %s", nm);
    for (k = 0; k < np; k++) trlen += (size_t)sprintf(trbuf + trlen, "%c%d", k ? ',' : ':', p[k]);
  }
}
static void do_rdt(char **f, int nf)
{
  struct jpeg_decompress_struct d; struct jpeg_error_mgr je; unsigned char *buf; size_t n; const char *p;
  if (nf < 3) { puts("err usage"); return; }
  buf = unhex(f[2], &n);
  d.err = jpeg_std_error(&je); je.error_exit = my_exit; je.emit_message = tr_emit; je.output_message = my_output; je.trace_level = 1;
  trlen = 0; trbuf[0] = 0; tr_on = 1;
  if (setjmp(jb)) { printf("err\n"); tr_on = 0; jpeg_destroy_decompress(&d); free(buf); return; }
  jpeg_create_decompress(&d);
  jpeg_mem_src(&d, buf, (unsigned long)n);
  p = f[1];
  if (strcmp(p, "-")) while (*p) {
    int code = (int)strtol(p, (char **)&p, 10); unsigned lim;
    if (*p == ':') p++;
    lim = (unsigned)strtoul(p, (char **)&p, 10);
    if (*p == ',') p++;
    jpeg_save_markers(&d, code, lim);
  }
  jpeg_read_header(&d, TRUE);
  tr_on = 0;
  printf("tr%s\n", trbuf);
  jpeg_destroy_decompress(&d); free(buf);
}

/* ------------------------------------------------------------------ utils */
static int hexval(int c) { return c <= '9' ? c - '0' : (c | 32) - 'a' + 10; }
static unsigned char *unhex(const char *s, size_t *n)
{
  size_t l, i; unsigned char *b;
  if (!s || !strcmp(s, "-")) { *n = 0; return (unsigned char *)calloc(1, 1); }
  l = strlen(s) / 2; b = (unsigned char *)malloc(l + 1);
  for (i = 0; i < l; i++) b[i] = (unsigned char)(hexval(s[2 * i]) * 16 + hexval(s[2 * i + 1]));
  *n = l; return b;
}
static void puthex(const unsigned char *b, size_t n)
{
  static const char d[] = "0123456789abcdef"; size_t i; char *o;
  if (n == 0) { fputs("-", stdout); return; }
  o = (char *)malloc(2 * n + 1);
  for (i = 0; i < n; i++) { o[2 * i] = d[b[i] >> 4]; o[2 * i + 1] = d[b[i] & 15]; }
  o[2 * n] = 0; fputs(o, stdout); free(o);
}
static uint64_t fnv(const unsigned char *b, size_t n)
{
  uint64_t h = 0xcbf29ce484222325ULL; size_t i;
  for (i = 0; i < n; i++) { h ^= b[i]; h *= 0x100000001b3ULL; }
  return h;
}
/* split a line into at most max space-separated fields (in place) */
static int split(char *s, char **f, int max)
{
  int n = 0;
  while (*s && n < max) {
    while (*s == ' ') s++;
    if (!*s || *s == '\n') break;
    f[n++] = s;
    while (*s && *s != ' ' && *s != '\n') s++;
    if (*s) *s++ = 0;
  }
  return n;
}

/* ------------------------------------------------------------ libjpeg write */
static void fill_row(void *row, int prec, int W, int nc, int y)
{
  int x, c; unsigned maxv = (1u << prec) - 1;
  for (x = 0; x < W; x++) for (c = 0; c < nc; c++) {
    unsigned v = (unsigned)(x * 37 + y * 101 + c * 59 + ((x * y) & 7) * 911) & maxv;
    if (prec <= 8) ((unsigned char *)row)[x * nc + c] = (unsigned char)v;
    else ((unsigned short *)row)[x * nc + c] = (unsigned short)v;
  }
}

static unsigned char *jc_cur;    /* marker data being written (freed on the error path too) */
static void do_jc(char **f, int nf)
{
  struct jpeg_compress_struct c; struct jpeg_error_mgr je;
  unsigned char *out = NULL; unsigned long outsz = 0;
  unsigned char *icc = NULL; size_t iccn = 0;
  int W, H, prec, psv, pt, restart, iccpos, y, nc, i;
  const char *cs, *samp, *mode, *jfif, *wj, *wa, *markers;
  void *volatile row = NULL;     /* assigned after setjmp, read on the error path */
  if (nf < 16) { puts("err usage"); return; }
  W = atoi(f[1]); H = atoi(f[2]); cs = f[3]; samp = f[4]; prec = atoi(f[5]); mode = f[6];
  psv = atoi(f[7]); pt = atoi(f[8]); restart = atoi(f[9]); jfif = f[10]; wj = f[11]; wa = f[12];
  iccpos = atoi(f[13]); icc = unhex(f[14], &iccn); markers = f[15];
  c.err = jpeg_std_error(&je); je.error_exit = my_exit; je.emit_message = my_emit; je.output_message = my_output;
  if (setjmp(jb)) { printf("err %d %s\n", last_err, last_msg); jpeg_destroy_compress(&c); free(out); free(icc); free((void *)row); free(jc_cur); jc_cur = NULL; return; }
  jpeg_create_compress(&c);
  jpeg_mem_dest(&c, &out, &outsz);
  c.image_width = W; c.image_height = H;
  if (!strcmp(cs, "gray")) { c.input_components = 1; c.in_color_space = JCS_GRAYSCALE; }
  else if (!strcmp(cs, "cmyk") || !strcmp(cs, "ycck")) { c.input_components = 4; c.in_color_space = JCS_CMYK; }
  else if (!strcmp(cs, "yccin")) { c.input_components = 3; c.in_color_space = JCS_YCbCr; }
  else if (!strcmp(cs, "ycckin")) { c.input_components = 4; c.in_color_space = JCS_YCCK; }
  else if (!strncmp(cs, "unk", 3)) { c.input_components = atoi(cs + 3); c.in_color_space = JCS_UNKNOWN; }
  else { c.input_components = 3; c.in_color_space = JCS_RGB; }
  nc = c.input_components;
  c.data_precision = prec;
  jpeg_set_defaults(&c);
  if (!strcmp(cs, "rgb")) jpeg_set_colorspace(&c, JCS_RGB);
  if (!strcmp(cs, "ycck")) jpeg_set_colorspace(&c, JCS_YCCK);
  if (strcmp(samp, "-")) {
    const char *p = samp;
    for (i = 0; i < c.num_components && *p; i++) {
      c.comp_info[i].h_samp_factor = (int)strtol(p, (char **)&p, 10); if (*p == 'x') p++;
      c.comp_info[i].v_samp_factor = (int)strtol(p, (char **)&p, 10); if (*p == ',') p++;
    }
  }
  if (strchr(mode, 'p')) jpeg_simple_progression(&c);
  if (strchr(mode, 'a')) c.arith_code = TRUE;
  if (strchr(mode, 'o')) c.optimize_coding = TRUE;
  if (strchr(mode, 'l')) jpeg_enable_lossless(&c, psv, pt);
  if (strchr(mode, 'R')) c.restart_in_rows = restart; else c.restart_interval = (unsigned)restart;
  if (strcmp(jfif, "-")) {
    int a, b, u, xd, yd;
    if (sscanf(jfif, "%d.%d.%d.%d.%d", &a, &b, &u, &xd, &yd) == 5) {
      c.JFIF_major_version = (UINT8)a; c.JFIF_minor_version = (UINT8)b; c.density_unit = (UINT8)u;
      c.X_density = (UINT16)xd; c.Y_density = (UINT16)yd;
    }
  }
  if (nf >= 17 && strcmp(f[16], "-")) {            /* component ids i.i.i (kept only in lossy mode: lossless re-derives the colourspace) */
    const char *p2 = f[16]; int k2;
    for (k2 = 0; k2 < c.num_components && *p2; k2++) { c.comp_info[k2].component_id = (int)strtol(p2, (char **)&p2, 10); if (*p2 == '.') p2++; }
  }
  if (wj[0] != 'd') c.write_JFIF_header = wj[0] == '1';
  if (wa[0] != 'd') c.write_Adobe_marker = wa[0] == '1';
  jpeg_start_compress(&c, TRUE);
  if (iccn && iccpos == 0) jpeg_write_icc_profile(&c, icc, (unsigned)iccn);
  if (strcmp(markers, "-")) {
    const char *p = markers; int k = 1;
    while (*p) {
      int code = (int)strtol(p, (char **)&p, 10); const char *e; size_t n; unsigned char *d; char *tmp;
      if (*p == ':') p++;
      e = strchr(p, ','); if (!e) e = p + strlen(p);
      tmp = (char *)malloc((size_t)(e - p) + 1); memcpy(tmp, p, (size_t)(e - p)); tmp[e - p] = 0;
      d = unhex(tmp, &n); free(tmp); jc_cur = d;
      if (iccn && iccpos == k) jpeg_write_icc_profile(&c, icc, (unsigned)iccn);
      if (n & 1) {                 /* odd length: exercise the piecemeal API */
        size_t j; jpeg_write_m_header(&c, code, (unsigned)n);
        for (j = 0; j < n; j++) jpeg_write_m_byte(&c, d[j]);
      } else jpeg_write_marker(&c, code, d, (unsigned)n);
      free(d); jc_cur = NULL; k++;
      p = *e ? e + 1 : e;
    }
  }
  if (iccn && iccpos < 0) jpeg_write_icc_profile(&c, icc, (unsigned)iccn);
  row = malloc((size_t)W * nc * 2 + 16);
  for (y = 0; y < H; y++) {
    fill_row((void *)row, c.data_precision, W, nc, y);
    if (c.data_precision <= 8) { JSAMPROW r = (JSAMPROW)row; jpeg_write_scanlines(&c, &r, 1); }
    else if (c.data_precision <= 12) { J12SAMPROW r = (J12SAMPROW)row; jpeg12_write_scanlines(&c, &r, 1); }
    else { J16SAMPROW r = (J16SAMPROW)row; jpeg16_write_scanlines(&c, &r, 1); }
  }
  jpeg_finish_compress(&c);
  fputs("ok ", stdout); puthex(out, outsz); putchar('\n');
  jpeg_destroy_compress(&c); free(out); free(icc); free((void *)row);
}

/* ------------------------------------------------------------- libjpeg read */
/* suspending source manager: fill_input_buffer returns FALSE; the application exposes more of the
   file after each JPEG_SUSPENDED, keeping what the library has not consumed (its last restart point) */
struct susp_src { struct jpeg_source_mgr pub; const unsigned char *base; size_t visible, pending_skip; };
static void s_init(j_decompress_ptr c) { (void)c; }
static boolean s_fill(j_decompress_ptr c) { (void)c; return FALSE; }
static void s_term(j_decompress_ptr c) { (void)c; }
static void s_skip(j_decompress_ptr c, long n)
{
  struct susp_src *s = (struct susp_src *)c->src;
  if (n <= 0) return;
  if ((size_t)n > s->pub.bytes_in_buffer) {
    s->pending_skip += (size_t)n - s->pub.bytes_in_buffer;
    s->pub.next_input_byte += s->pub.bytes_in_buffer; s->pub.bytes_in_buffer = 0;
  } else { s->pub.next_input_byte += n; s->pub.bytes_in_buffer -= (size_t)n; }
}
static void s_extend(struct susp_src *s, size_t upto)
{
  size_t consumed = (size_t)(s->pub.next_input_byte - s->base);
  s->visible = upto; s->pub.bytes_in_buffer = upto - consumed;
  if (s->pending_skip) {
    size_t k = s->pending_skip < s->pub.bytes_in_buffer ? s->pending_skip : s->pub.bytes_in_buffer;
    s->pub.next_input_byte += k; s->pub.bytes_in_buffer -= k; s->pending_skip -= k;
  }
}

/* read the header of buf (one buffer when cuts == NULL, else through the suspending source with the
   visibility schedule cuts[0] < cuts[1] < ... then everything); header line to o, restart-point offsets
   at each suspension to offs.  Returns 0 when a header line was produced. */
static int rd_core(FILE *o, const char *cfg, const unsigned char *buf, size_t n, const size_t *cuts, int ncuts, FILE *offs)
{
  struct jpeg_decompress_struct d; struct jpeg_error_mgr je; struct susp_src src;
  const char *p; int i, rc, ci = 0; jpeg_saved_marker_ptr m;
  JOCTET *icc = NULL; unsigned int icclen = 0; int before;
  d.err = jpeg_std_error(&je); je.error_exit = my_exit; je.emit_message = my_emit; je.output_message = my_output;
  n_warn = n_bogus_icc = 0;
  if (setjmp(jb)) { fprintf(o, "err"); jpeg_destroy_decompress(&d); return 1; }
  jpeg_create_decompress(&d);
  if (!cuts) jpeg_mem_src(&d, buf, (unsigned long)n);
  else {
    memset(&src, 0, sizeof(src));
    src.pub.init_source = s_init; src.pub.fill_input_buffer = s_fill; src.pub.skip_input_data = s_skip;
    src.pub.resync_to_restart = jpeg_resync_to_restart; src.pub.term_source = s_term;
    src.base = buf; src.pub.next_input_byte = buf; src.pub.bytes_in_buffer = 0;
    d.src = &src.pub;
    s_extend(&src, ncuts > 0 ? cuts[0] : n); ci = 1;
  }
  p = cfg;
  if (strcmp(p, "-")) while (*p) {
    int code = (int)strtol(p, (char **)&p, 10); unsigned lim;
    if (*p == ':') p++;
    lim = (unsigned)strtoul(p, (char **)&p, 10);
    if (*p == ',') p++;
    jpeg_save_markers(&d, code, lim);
  }
  while ((rc = jpeg_read_header(&d, TRUE)) == JPEG_SUSPENDED) {
    if (!cuts || src.visible >= n) { fprintf(o, "err suspended-with-all-data"); jpeg_destroy_decompress(&d); return 1; }
    if (offs) fprintf(offs, ".%zu", (size_t)(src.pub.next_input_byte - src.base));
    s_extend(&src, ci < ncuts ? cuts[ci] : n); ci++;
  }
  if (rc != JPEG_HEADER_OK) { fprintf(o, "err"); jpeg_destroy_decompress(&d); return 1; }
  fprintf(o, "hdr %u %u %d flags=%d%d%d ncomp=%d comps=", d.image_width, d.image_height, d.data_precision,
          d.progressive_mode ? 1 : 0, d.master->lossless ? 1 : 0, d.arith_code ? 1 : 0, d.num_components);
  for (i = 0; i < d.num_components; i++)
    fprintf(o, "%s%d.%d.%d.%d", i ? "," : "", d.comp_info[i].component_id, d.comp_info[i].h_samp_factor,
            d.comp_info[i].v_samp_factor, d.comp_info[i].quant_tbl_no);
  fprintf(o, " jfif=%d ver=%d.%d dens=%d.%d.%d adobe=%d tr=%d ri=%u scan=", d.saw_JFIF_marker ? 1 : 0,
          d.saw_JFIF_marker ? d.JFIF_major_version : 1, d.saw_JFIF_marker ? d.JFIF_minor_version : 1,
          d.density_unit, d.X_density, d.Y_density, d.saw_Adobe_marker ? 1 : 0,
          d.saw_Adobe_marker ? d.Adobe_transform : 0, d.restart_interval);
  for (i = 0; i < d.comps_in_scan; i++)
    fprintf(o, "%s%d.%d.%d", i ? "," : "", d.cur_comp_info[i]->component_index, d.cur_comp_info[i]->dc_tbl_no,
            d.cur_comp_info[i]->ac_tbl_no);
  fprintf(o, ";%d;%d;%d;%d cs=%d |", d.Ss, d.Se, d.Ah, d.Al, (int)d.jpeg_color_space);
  for (m = d.marker_list; m; m = m->next)
    fprintf(o, " m %d %u %u %016llx ;", m->marker, m->original_length, m->data_length,
            (unsigned long long)fnv(m->data, m->data_length));
  before = n_bogus_icc;
  if (jpeg_read_icc_profile(&d, &icc, &icclen))
    fprintf(o, " | icc ok %u %016llx", icclen, (unsigned long long)fnv(icc, icclen));
  else fprintf(o, " | icc %s", n_bogus_icc > before ? "bogus" : "absent");
  free(icc);
  jpeg_destroy_decompress(&d);
  return 0;
}

static void do_rd(char **f, int nf)
{
  unsigned char *buf; size_t n;
  if (nf < 3) { puts("err usage"); return; }
  buf = unhex(f[2], &n);
  rd_core(stdout, f[1], buf, n, NULL, 0, NULL);
  putchar('\n');
  free(buf);
}

/* rdx cfg hex : header line, then what next_marker reported: "x <discarded_bytes>:<unread_marker> ..." */
static void do_rdx(char **f, int nf)
{
  unsigned char *buf; size_t n;
  if (nf < 3) { puts("err usage"); return; }
  buf = unhex(f[2], &n);
  xlen = 0; xbuf[0] = 0; x_on = 1;
  rd_core(stdout, f[1], buf, n, NULL, 0, NULL);
  x_on = 0;
  printf(" || x%s\n", xbuf);
  free(buf);
}

/* rds cfg spec hex : the same header through the suspending source for many partitions.
   spec = every:<lo>:<hi>  (one cut at each k in lo..hi)  |  pts:<k1+k2+..>/<k1+..>/...
   output: for each partition  <label>=<S|D>:<restart offsets>   (S: same header line as with one buffer),
   then " || <label> <line>" for the first partition that differs */
static void do_rds(char **f, int nf)
{
  unsigned char *buf; size_t n; char *ref = NULL, *cur = NULL, *offs = NULL, *firstbad = NULL; size_t rl = 0, cl = 0, ol = 0;
  FILE *fp; const char *p;
  if (nf < 4) { puts("err usage"); return; }
  buf = unhex(f[3], &n);
  fp = open_memstream(&ref, &rl); rd_core(fp, f[1], buf, n, NULL, 0, NULL); fclose(fp);
  p = f[2];
  if (!strncmp(p, "every:", 6)) {
    size_t lo = strtoul(p + 6, (char **)&p, 10), hi, k; if (*p == ':') p++; hi = strtoul(p, NULL, 10);
    for (k = lo; k <= hi && k < n; k++) {
      FILE *fo;
      fp = open_memstream(&cur, &cl); fo = open_memstream(&offs, &ol);
      rd_core(fp, f[1], buf, n, &k, 1, fo); fclose(fp); fclose(fo);
      printf("%s%zu=%c:%s", k > lo ? " " : "", k, strcmp(cur, ref) ? 'D' : 'S', offs);
      if (strcmp(cur, ref) && !firstbad) { firstbad = (char *)malloc(cl + 64); sprintf(firstbad, " || %zu %s", k, cur); }
      free(cur); free(offs); cur = offs = NULL;
    }
  } else if (!strncmp(p, "pts:", 4)) {
    int first = 1;
    p += 4;
    while (*p) {
      size_t cuts[64]; int nc = 0; const char *label = p; FILE *fo; size_t ll;
      while (*p && *p != '/') { if (nc < 64) cuts[nc++] = strtoul(p, (char **)&p, 10); else strtoul(p, (char **)&p, 10); if (*p == '+') p++; }
      ll = (size_t)(p - label);
      fp = open_memstream(&cur, &cl); fo = open_memstream(&offs, &ol);
      rd_core(fp, f[1], buf, n, cuts, nc, fo); fclose(fp); fclose(fo);
      printf("%s%.*s=%c:%s", first ? "" : " ", (int)ll, label, strcmp(cur, ref) ? 'D' : 'S', offs);
      if (strcmp(cur, ref) && !firstbad) { firstbad = (char *)malloc(cl + ll + 64); sprintf(firstbad, " || %.*s %s", (int)ll, label, cur); }
      free(cur); free(offs); cur = offs = NULL; first = 0;
      if (*p == '/') p++;
    }
  }
  if (firstbad) { fputs(firstbad, stdout); free(firstbad); }
  putchar('\n');
  free(ref); free(buf);
}

/* ---------------------------------------------------------------- TurboJPEG */
static int tjparam(const char *k)
{
  static const struct { const char *n; int p; } t[] = {
    { "subsamp", TJPARAM_SUBSAMP }, { "quality", TJPARAM_QUALITY }, { "cs", TJPARAM_COLORSPACE },
    { "prog", TJPARAM_PROGRESSIVE }, { "arith", TJPARAM_ARITHMETIC }, { "lossless", TJPARAM_LOSSLESS },
    { "psv", TJPARAM_LOSSLESSPSV }, { "pt", TJPARAM_LOSSLESSPT }, { "rblocks", TJPARAM_RESTARTBLOCKS },
    { "rrows", TJPARAM_RESTARTROWS }, { "xd", TJPARAM_XDENSITY }, { "yd", TJPARAM_YDENSITY },
    { "unit", TJPARAM_DENSITYUNITS }, { "prec", TJPARAM_PRECISION }, { "optimize", TJPARAM_OPTIMIZE },
    { "savemarkers", TJPARAM_SAVEMARKERS }, { NULL, 0 } };
  int i;
  for (i = 0; t[i].n; i++) if (!strcmp(t[i].n, k)) return t[i].p;
  return -1;
}

static int apply_params(tjhandle h, const char *ps)
{
  char tmp[64]; const char *p = ps;
  if (!strcmp(ps, "-")) return 0;
  while (*p) {
    const char *e = strchr(p, ','), *q; int id; size_t l;
    if (!e) e = p + strlen(p);
    q = memchr(p, '=', (size_t)(e - p));
    if (!q) return -1;
    l = (size_t)(q - p); if (l >= sizeof(tmp)) return -1;
    memcpy(tmp, p, l); tmp[l] = 0;
    id = tjparam(tmp);
    if (id < 0 || tj3Set(h, id, atoi(q + 1)) < 0) { printf("err set:%s\n", tmp); return -1; }
    p = *e ? e + 1 : e;
  }
  return 0;
}

static void do_tjc(char **f, int nf)
{
  tjhandle h; int pf, W, H, bits, rc = -1, x, y, c, ps; unsigned char *icc; size_t iccn;
  unsigned char *jpg = NULL; size_t jn = 0; void *img;
  if (nf < 7) { puts("err usage"); return; }
  pf = atoi(f[1]); W = atoi(f[2]); H = atoi(f[3]); bits = atoi(f[4]); icc = unhex(f[5], &iccn);
  h = tj3Init(TJINIT_COMPRESS);
  if (!h) { puts("err init"); free(icc); return; }
  if (apply_params(h, f[6]) < 0) { tj3Destroy(h); free(icc); return; }
  if (iccn && tj3SetICCProfile(h, icc, iccn) < 0) { puts("err seticc"); tj3Destroy(h); free(icc); return; }
  ps = tjPixelSize[pf];
  img = malloc((size_t)W * H * ps * 2 + 16);
  {
    int prec = tj3Get(h, TJPARAM_PRECISION); unsigned maxv;
    if (prec < 2 || prec > bits) prec = bits;
    if (!tj3Get(h, TJPARAM_LOSSLESS)) prec = bits;
    maxv = (1u << prec) - 1;
    for (y = 0; y < H; y++) for (x = 0; x < W; x++) for (c = 0; c < ps; c++) {
      unsigned v = (unsigned)(x * 37 + y * 101 + c * 59 + ((x * y) & 7) * 911) & maxv;
      if (bits == 8) ((unsigned char *)img)[(y * W + x) * ps + c] = (unsigned char)v;
      else ((unsigned short *)img)[(y * W + x) * ps + c] = (unsigned short)v;
    }
  }
  if (bits == 8) rc = tj3Compress8(h, (unsigned char *)img, W, 0, H, pf, &jpg, &jn);
  else if (bits == 12) rc = tj3Compress12(h, (short *)img, W, 0, H, pf, &jpg, &jn);
  else rc = tj3Compress16(h, (unsigned short *)img, W, 0, H, pf, &jpg, &jn);
  if (rc < 0) { char e[200]; char *q; strncpy(e, tj3GetErrorStr(h), 199); e[199] = 0; for (q = e; *q; q++) if (*q == ' ' || *q == '\n') *q = '_'; printf("err %s\n", e); }
  else { fputs("ok ", stdout); puthex(jpg, jn); putchar('\n'); }
  tj3Free(jpg); free(img); free(icc); tj3Destroy(h);
}

static void do_tjrd(char **f, int nf)
{
  tjhandle h; unsigned char *buf; size_t n; unsigned char *icc = NULL; size_t iccn = 0; int rc, sm;
  if (nf < 3) { puts("err usage"); return; }
  sm = atoi(f[1]); buf = unhex(f[2], &n);
  h = tj3Init(TJINIT_DECOMPRESS);
  if (sm >= 0 && tj3Set(h, TJPARAM_SAVEMARKERS, sm) < 0) { puts("err set"); tj3Destroy(h); free(buf); return; }
  rc = tj3DecompressHeader(h, buf, n);
  if (rc < 0 && tj3GetErrorCode(h) == TJERR_FATAL) { puts("err"); tj3Destroy(h); free(buf); return; }
  printf("tj %d %d %d sub=%d cs=%d flags=%d%d%d psv=%d pt=%d dens=%d.%d.%d warn=%d", tj3Get(h, TJPARAM_JPEGWIDTH),
         tj3Get(h, TJPARAM_JPEGHEIGHT), tj3Get(h, TJPARAM_PRECISION), tj3Get(h, TJPARAM_SUBSAMP),
         tj3Get(h, TJPARAM_COLORSPACE), tj3Get(h, TJPARAM_PROGRESSIVE), tj3Get(h, TJPARAM_LOSSLESS),
         tj3Get(h, TJPARAM_ARITHMETIC), tj3Get(h, TJPARAM_LOSSLESSPSV), tj3Get(h, TJPARAM_LOSSLESSPT),
         tj3Get(h, TJPARAM_DENSITYUNITS), tj3Get(h, TJPARAM_XDENSITY), tj3Get(h, TJPARAM_YDENSITY), rc < 0 ? 1 : 0);
  if (tj3GetICCProfile(h, &icc, &iccn) == 0 && icc)
    printf(" | icc ok %zu %016llx", iccn, (unsigned long long)fnv(icc, iccn));
  else printf(" | icc absent");
  /* a second call must report that the profile has been handed over */
  { unsigned char *icc2 = NULL; size_t n2 = 0; if (tj3GetICCProfile(h, &icc2, &n2) == 0) { printf(" second-get-succeeded"); tj3Free(icc2); } }
  putchar('\n');
  tj3Free(icc); tj3Destroy(h); free(buf);
}

static void do_xf(char **f, int nf)
{
  unsigned char *src, *dicc; size_t n, diccn; int opt, copynone, op;
  if (nf < 7) { puts("err usage"); return; }
  opt = atoi(f[2]); copynone = atoi(f[3]); op = atoi(f[4]); dicc = unhex(f[5], &diccn); src = unhex(f[6], &n);
  if (!strcmp(f[1], "tj")) {
    tjhandle h = tj3Init(TJINIT_TRANSFORM); tjtransform t; unsigned char *dst = NULL; size_t dn = 0; int rc;
    memset(&t, 0, sizeof(t)); t.op = op; t.options = copynone ? TJXOPT_COPYNONE : 0;
    if (opt >= 0 && tj3Set(h, TJPARAM_SAVEMARKERS, opt) < 0) { puts("err set"); tj3Destroy(h); free(src); free(dicc); return; }
    if (diccn && tj3SetICCProfile(h, dicc, diccn) < 0) { puts("err seticc"); tj3Destroy(h); free(src); free(dicc); return; }
    rc = tj3Transform(h, src, n, 1, &dst, &dn, &t);
    if (rc < 0) puts("err transform"); else { fputs("ok ", stdout); puthex(dst, dn); putchar('\n'); }
    tj3Free(dst); tj3Destroy(h);
  } else {
    struct jpeg_decompress_struct d; struct jpeg_compress_struct c; struct jpeg_error_mgr je, je2;
    unsigned char *out = NULL; unsigned long outsz = 0; jvirt_barray_ptr *coefs;
    d.err = jpeg_std_error(&je); je.error_exit = my_exit; je.emit_message = my_emit; je.output_message = my_output;
    c.err = jpeg_std_error(&je2); je2.error_exit = my_exit; je2.emit_message = my_emit; je2.output_message = my_output;
    if (setjmp(jb)) { printf("err %d\n", last_err); jpeg_destroy_compress(&c); jpeg_destroy_decompress(&d); free(out); free(src); free(dicc); return; }
    jpeg_create_decompress(&d); jpeg_create_compress(&c);
    jpeg_mem_src(&d, src, (unsigned long)n);
    jcopy_markers_setup(&d, (JCOPY_OPTION)opt);
    jpeg_read_header(&d, TRUE);
    coefs = jpeg_read_coefficients(&d);
    jpeg_copy_critical_parameters(&d, &c);
    jpeg_mem_dest(&c, &out, &outsz);
    jpeg_write_coefficients(&c, coefs);
    jcopy_markers_execute(&d, &c, (JCOPY_OPTION)opt);
    if (diccn) jpeg_write_icc_profile(&c, dicc, (unsigned)diccn);
    jpeg_finish_compress(&c);
    jpeg_finish_decompress(&d);
    fputs("ok ", stdout); puthex(out, outsz); putchar('\n');
    jpeg_destroy_compress(&c); jpeg_destroy_decompress(&d); free(out);
  }
  free(src); free(dicc);
}

/* xfh api steps srchex : a HISTORY on one TurboJPEG handle / one jpeg_decompress_struct.
   steps = comma list of  t<opt>.<copynone>  (transform with that copy option)  |  h<savemarkers> (header read) */
static void do_xfh(char **f, int nf)
{
  unsigned char *src; size_t n; const char *p;
  if (nf < 4) { puts("err usage"); return; }
  src = unhex(f[3], &n);
  fputs("ok", stdout);
  if (!strcmp(f[1], "tj")) {
    tjhandle h = tj3Init(TJINIT_TRANSFORM);
    for (p = f[2]; *p; ) {
      if (*p == 't') {
        int opt = (int)strtol(p + 1, (char **)&p, 10), cn = 0; tjtransform t; unsigned char *dst = NULL; size_t dn = 0;
        if (*p == '.') cn = (int)strtol(p + 1, (char **)&p, 10);
        memset(&t, 0, sizeof(t)); t.op = TJXOP_NONE; t.options = cn ? TJXOPT_COPYNONE : 0;
        if (tj3Set(h, TJPARAM_SAVEMARKERS, opt) < 0 || tj3Transform(h, src, n, 1, &dst, &dn, &t) < 0) fputs(" -", stdout);
        else { putchar(' '); puthex(dst, dn); }
        tj3Free(dst);
      } else if (*p == 'h') {
        int sm = (int)strtol(p + 1, (char **)&p, 10);
        tj3Set(h, TJPARAM_SAVEMARKERS, sm);
        tj3DecompressHeader(h, src, n);
      } else break;
      if (*p == ',') p++;
    }
    tj3Destroy(h);
  } else {
    struct jpeg_decompress_struct d; struct jpeg_compress_struct c; struct jpeg_error_mgr je, je2;
    unsigned char *out = NULL; unsigned long outsz = 0; int have_c = 0;
    d.err = jpeg_std_error(&je); je.error_exit = my_exit; je.emit_message = my_emit; je.output_message = my_output;
    c.err = jpeg_std_error(&je2); je2.error_exit = my_exit; je2.emit_message = my_emit; je2.output_message = my_output;
    if (setjmp(jb)) { printf(" err %d\n", last_err); if (have_c) jpeg_destroy_compress(&c); jpeg_destroy_decompress(&d); free(out); free(src); return; }
    jpeg_create_decompress(&d);
    for (p = f[2]; *p; ) {
      if (*p == 't') {
        int opt = (int)strtol(p + 1, (char **)&p, 10); jvirt_barray_ptr *coefs;
        if (*p == '.') strtol(p + 1, (char **)&p, 10);
        jpeg_mem_src(&d, src, (unsigned long)n);
        jcopy_markers_setup(&d, (JCOPY_OPTION)opt);
        jpeg_read_header(&d, TRUE);
        coefs = jpeg_read_coefficients(&d);
        jpeg_create_compress(&c); have_c = 1;
        jpeg_copy_critical_parameters(&d, &c);
        out = NULL; outsz = 0; jpeg_mem_dest(&c, &out, &outsz);
        jpeg_write_coefficients(&c, coefs);
        jcopy_markers_execute(&d, &c, (JCOPY_OPTION)opt);
        jpeg_finish_compress(&c);
        jpeg_destroy_compress(&c); have_c = 0;
        jpeg_finish_decompress(&d);
        putchar(' '); puthex(out, outsz); free(out); out = NULL;
      } else if (*p == 'h') {
        strtol(p + 1, (char **)&p, 10);
        jpeg_mem_src(&d, src, (unsigned long)n);
        jpeg_save_markers(&d, JPEG_APP0 + 2, 0xFFFF);
        jpeg_read_header(&d, TRUE);
        jpeg_abort_decompress(&d);
      } else break;
      if (*p == ',') p++;
    }
    jpeg_destroy_decompress(&d);
  }
  putchar('\n');
  free(src);
}

/* rdall cfg hex : the marker-reader state at EVERY SOS of the file (buffered-image mode, jpeg_consume_input):
   scan parameters, restart interval, quantisation / Huffman table slots in force, number of saved markers */
static void put_view(struct jpeg_decompress_struct *d)
{
  int i, k; jpeg_saved_marker_ptr m; int nm = 0;
  printf("view ");
  for (i = 0; i < d->comps_in_scan; i++)
    printf("%s%d.%d.%d", i ? "," : "", d->cur_comp_info[i]->component_index, d->cur_comp_info[i]->dc_tbl_no, d->cur_comp_info[i]->ac_tbl_no);
  printf(";%d;%d;%d;%d ri=%u qt=", d->Ss, d->Se, d->Ah, d->Al, d->restart_interval);
  for (k = 0; k < NUM_QUANT_TBLS; k++) {
    if (d->quant_tbl_ptrs[k]) {
      unsigned char b[2 * DCTSIZE2];
      for (i = 0; i < DCTSIZE2; i++) { b[2 * i] = (unsigned char)(d->quant_tbl_ptrs[k]->quantval[i] >> 8); b[2 * i + 1] = (unsigned char)(d->quant_tbl_ptrs[k]->quantval[i] & 255); }
      printf("%s%016llx", k ? "," : "", (unsigned long long)fnv(b, sizeof(b)));
    } else printf("%s-", k ? "," : "");
  }
  for (i = 0; i < 2; i++) {
    printf(i ? " ac=" : " dc=");
    for (k = 0; k < NUM_HUFF_TBLS; k++) {
      JHUFF_TBL *h = i ? d->ac_huff_tbl_ptrs[k] : d->dc_huff_tbl_ptrs[k];
      if (h) {
        unsigned char b[16 + 256]; int n = 0, j;
        for (j = 1; j <= 16; j++) { b[j - 1] = h->bits[j]; n += h->bits[j]; }
        if (n > 256) n = 256;
        memcpy(b + 16, h->huffval, (size_t)n);
        printf("%s%016llx", k ? "," : "", (unsigned long long)fnv(b, (size_t)(16 + n)));
      } else printf("%s-", k ? "," : "");
    }
  }
  { unsigned char b[3 * NUM_ARITH_TBLS];
    for (k = 0; k < NUM_ARITH_TBLS; k++) { b[k] = d->arith_dc_L[k]; b[NUM_ARITH_TBLS + k] = d->arith_dc_U[k]; b[2 * NUM_ARITH_TBLS + k] = d->arith_ac_K[k]; }
    printf(" ar=%016llx", (unsigned long long)fnv(b, sizeof(b))); }
  for (m = d->marker_list; m; m = m->next) nm++;
  printf(" nm=%d", nm);
}
static void do_rdall(char **f, int nf)
{
  struct jpeg_decompress_struct d; struct jpeg_error_mgr je; unsigned char *buf; size_t n; const char *p; int rc, guard = 0;
  jpeg_saved_marker_ptr m;
  if (nf < 3) { puts("err usage"); return; }
  buf = unhex(f[2], &n);
  d.err = jpeg_std_error(&je); je.error_exit = my_exit; je.emit_message = my_emit; je.output_message = my_output;
  if (setjmp(jb)) { printf(" || err %d %s\n", last_err, last_msg); jpeg_destroy_decompress(&d); free(buf); return; }
  jpeg_create_decompress(&d);
  jpeg_mem_src(&d, buf, (unsigned long)n);
  p = f[1];
  if (strcmp(p, "-")) while (*p) {
    int code = (int)strtol(p, (char **)&p, 10); unsigned lim;
    if (*p == ':') p++;
    lim = (unsigned)strtoul(p, (char **)&p, 10);
    if (*p == ',') p++;
    jpeg_save_markers(&d, code, lim);
  }
  if (jpeg_read_header(&d, TRUE) != JPEG_HEADER_OK) { puts("err header"); jpeg_destroy_decompress(&d); free(buf); return; }
  put_view(&d);                      /* the marker reader's state, before jinit_huff_decoder may add the standard tables */
  d.buffered_image = TRUE;
  jpeg_start_decompress(&d);
  for (;;) {
    rc = jpeg_consume_input(&d);
    if (rc == JPEG_REACHED_SOS) { printf(" | "); put_view(&d); }
    else if (rc == JPEG_REACHED_EOI) break;
    else if (rc == JPEG_SUSPENDED || ++guard > 10000000) { printf(" | stuck"); break; }
  }
  printf(" | end sof=%d%d%d.%d.%u.%u.", d.progressive_mode ? 1 : 0, d.master->lossless ? 1 : 0, d.arith_code ? 1 : 0, d.data_precision,
         d.image_width, d.image_height);
  { int i; for (i = 0; i < d.num_components; i++) printf("%s%d:%d:%d:%d", i ? "," : "", d.comp_info[i].component_id, d.comp_info[i].h_samp_factor,
                                                           d.comp_info[i].v_samp_factor, d.comp_info[i].quant_tbl_no); }
  printf(" ri=%u dens=%d.%d.%d jfif=%d adobe=%d tr=%d |", d.restart_interval, d.density_unit, d.X_density, d.Y_density,
         d.saw_JFIF_marker ? 1 : 0, d.saw_Adobe_marker ? 1 : 0, d.saw_Adobe_marker ? d.Adobe_transform : 0);
  for (m = d.marker_list; m; m = m->next)
    printf(" m %d %u %u %016llx ;", m->marker, m->original_length, m->data_length, (unsigned long long)fnv(m->data, m->data_length));
  putchar('\n');
  jpeg_destroy_decompress(&d); free(buf);
}

/* wst : jpeg_write_marker / jpeg_write_m_header / jpeg_write_icc_profile at every point of the compressor's life:
   result per point: ok | err <JERR code name> */
static const char *errname(int code)
{
  if (code == JERR_BAD_STATE) return "BAD_STATE";
  if (code == JERR_BAD_LENGTH) return "BAD_LENGTH";
  if (code == JERR_BUFFER_SIZE) return "BUFFER_SIZE";
  return "OTHER";
}
static struct jpeg_compress_struct *wst_c;
static int wst_try(int what, int len)
{
  /* returns 0 ok, else the error code; runs inside its own setjmp */
  static unsigned char data[70000];
  jmp_buf save; int rc = 0;
  memcpy(save, jb, sizeof(jmp_buf));
  if (setjmp(jb)) { rc = last_err; }
  else {
    if (what == 0) jpeg_write_marker(wst_c, JPEG_COM, data, (unsigned)len);
    else if (what == 1) { int i; jpeg_write_m_header(wst_c, JPEG_APP0 + 5, (unsigned)len); for (i = 0; i < len; i++) jpeg_write_m_byte(wst_c, data[i]); }
    else jpeg_write_icc_profile(wst_c, len ? data : NULL, (unsigned)len);
  }
  memcpy(jb, save, sizeof(jmp_buf));
  return rc;
}
static void do_wst(char **f, int nf)
{
  /* wst mode what len : mode = s (scanlines) | r (raw data) | c (write_coefficients; needs src hex in f[4]) */
  struct jpeg_compress_struct c; struct jpeg_error_mgr je; unsigned char *out = NULL; unsigned long outsz = 0;
  int what, len, rc, y; unsigned char row[16 * 3]; JSAMPROW rp = row;
  if (nf < 4) { puts("err usage"); return; }
  what = atoi(f[2]); len = atoi(f[3]);
  c.err = jpeg_std_error(&je); je.error_exit = my_exit; je.emit_message = my_emit; je.output_message = my_output;
  if (setjmp(jb)) { printf(" fatal %d\n", last_err); jpeg_destroy_compress(&c); free(out); return; }
  jpeg_create_compress(&c); wst_c = &c;
  jpeg_mem_dest(&c, &out, &outsz);
  c.image_width = 16; c.image_height = 16; c.input_components = 3; c.in_color_space = JCS_RGB;
  jpeg_set_defaults(&c);
  rc = wst_try(what, len); printf("created:gs=%d:%s", c.global_state, rc ? errname(rc) : "ok");
  if (f[1][0] == 'r') c.raw_data_in = TRUE;
  if (f[1][0] == 'r') { c.comp_info[0].h_samp_factor = c.comp_info[0].v_samp_factor = 1; }
  jpeg_start_compress(&c, TRUE);
  rc = wst_try(what, len); printf(" started:gs=%d:%s", c.global_state, rc ? errname(rc) : "ok");
  memset(row, 77, sizeof(row));
  if (f[1][0] == 's') {
    jpeg_write_scanlines(&c, &rp, 1);
    rc = wst_try(what, len); printf(" after1line:gs=%d:%s", c.global_state, rc ? errname(rc) : "ok");
    for (y = 1; y < 16; y++) jpeg_write_scanlines(&c, &rp, 1);
  } else {
    static unsigned char plane[8][16]; JSAMPROW rows[8]; JSAMPARRAY planes[3]; int i;
    for (i = 0; i < 8; i++) rows[i] = plane[i];
    planes[0] = planes[1] = planes[2] = rows;
    jpeg_write_raw_data(&c, planes, 8);
    rc = wst_try(what, len); printf(" afterraw:gs=%d:%s", c.global_state, rc ? errname(rc) : "ok");
    jpeg_write_raw_data(&c, planes, 8);
  }
  jpeg_finish_compress(&c);
  rc = wst_try(what, len); printf(" finished:gs=%d:%s", c.global_state, rc ? errname(rc) : "ok");
  putchar('\n');
  jpeg_destroy_compress(&c); free(out);
}

/* xfm savemarkers flags dsticc srchex : ONE tj3Transform call with n = strlen(flags) transforms;
   flags[i] = '1' means TJXOPT_COPYNONE for transform i */
static void do_xfm(char **f, int nf)
{
  unsigned char *src, *dicc; size_t n, diccn; int opt, nt, i; tjhandle h; tjtransform t[8];
  unsigned char *dst[8]; size_t dn[8];
  if (nf < 5) { puts("err usage"); return; }
  opt = atoi(f[1]); nt = (int)strlen(f[2]); if (nt > 8) nt = 8;
  dicc = unhex(f[3], &diccn); src = unhex(f[4], &n);
  h = tj3Init(TJINIT_TRANSFORM);
  memset(t, 0, sizeof(t)); memset(dst, 0, sizeof(dst)); memset(dn, 0, sizeof(dn));
  for (i = 0; i < nt; i++) { t[i].op = TJXOP_NONE; t[i].options = f[2][i] == '1' ? TJXOPT_COPYNONE : 0; }
  if ((opt >= 0 && tj3Set(h, TJPARAM_SAVEMARKERS, opt) < 0) || (diccn && tj3SetICCProfile(h, dicc, diccn) < 0)) { puts("err set"); goto done; }
  if (nf >= 6 && f[5][0] == 'b') {
    /* caller-allocated buffers of exactly tj3TransformBufSize() bytes, TJPARAM_NOREALLOC */
    size_t bs[8], base;
    if (tj3DecompressHeader(h, src, n) < 0 && tj3GetErrorCode(h) == TJERR_FATAL) { puts("err header"); goto done; }
    base = tj3JPEGBufSize(tj3Get(h, TJPARAM_JPEGWIDTH), tj3Get(h, TJPARAM_JPEGHEIGHT), tj3Get(h, TJPARAM_SUBSAMP));
    tj3Set(h, TJPARAM_NOREALLOC, 1);
    for (i = 0; i < nt; i++) { bs[i] = tj3TransformBufSize(h, &t[i]); dst[i] = (unsigned char *)tj3Alloc(bs[i]); dn[i] = bs[i]; }
    if (tj3Transform(h, src, n, nt, dst, dn, t) < 0) { char e[200]; char *q; strncpy(e, tj3GetErrorStr(h), 199); e[199] = 0; for (q = e; *q; q++) if (*q == ' ') *q = '_'; printf("err transform-noreal %s", e); for (i = 0; i < nt; i++) printf(" bs=%zu:%zu", bs[i], base); putchar('\n'); goto done; }
    fputs("ok", stdout); for (i = 0; i < nt; i++) { putchar(' '); puthex(dst[i], dn[i]); }
    for (i = 0; i < nt; i++) printf(" bs=%zu:%zu", bs[i], base);
    putchar('\n');
  } else if (tj3Transform(h, src, n, nt, dst, dn, t) < 0) puts("err transform");
  else { fputs("ok", stdout); for (i = 0; i < nt; i++) { putchar(' '); puthex(dst[i], dn[i]); } putchar('\n'); }
done:
  for (i = 0; i < nt; i++) tj3Free(dst[i]);
  tj3Destroy(h); free(src); free(dicc);
}

int main(void)
{
  char *line = NULL; size_t cap = 0; ssize_t len;
  setvbuf(stdout, NULL, _IOLBF, 0);
  while ((len = getline(&line, &cap, stdin)) > 0) {
    char *f[20]; int nf;
    if (len && line[len - 1] == '\n') line[len - 1] = 0;
    nf = split(line, f, 20);
    if (nf == 0) { puts("-"); continue; }
    if (!strcmp(f[0], "jc")) do_jc(f, nf);
    else if (!strcmp(f[0], "tjc")) do_tjc(f, nf);
    else if (!strcmp(f[0], "rd")) do_rd(f, nf);
    else if (!strcmp(f[0], "rds")) do_rds(f, nf);
    else if (!strcmp(f[0], "rdx")) do_rdx(f, nf);
    else if (!strcmp(f[0], "tjrd")) do_tjrd(f, nf);
    else if (!strcmp(f[0], "xf")) do_xf(f, nf);
    else if (!strcmp(f[0], "xfh")) do_xfh(f, nf);
    else if (!strcmp(f[0], "xfm")) do_xfm(f, nf);
    else if (!strcmp(f[0], "rdall")) do_rdall(f, nf);
    else if (!strcmp(f[0], "rdt")) do_rdt(f, nf);
    else if (!strcmp(f[0], "wst")) do_wst(f, nf);
    else puts("-");
    fflush(stdout);
  }
  free(line);
  return 0;
}
