/* C09 harness: runs the REAL decoder/encoder of the working tree under different
 * source / destination managers and I/O schedules.
 *
 * Commands (one per line on stdin, one result line each on stdout):
 *   gen <id> <proc> <w> <h> <ncomp> <sub> <quality> <restart> <seed> <jfifmajor> <nmark> {<code> <len>}*
 *        proc: 0 baseline, 1 extended 12-bit, 2 progressive 8-bit, 3 progressive 12-bit,
 *              4 lossless (precision = quality field 2..16, psv=1+seed%7), 5 baseline+garbage/fill bytes,
 *              6 / 7 multi-scan sequential / progressive, components share Q-table slots, DQT spliced between scans
 *        restart: 0 none, >0 restart_interval in MCUs, <0 restart_in_rows = -restart
 *        -> "gen <id> <len> <hex>"
 *   load <id> <hex>                        -> "load <id> <len>"
 *   hdr <id> <savecfg>                     -> canonical header line (same format as ml/C09_driver.ml)
 *   ref <id> <api> <savecfg>               -> "D <digest...>"   whole memory buffer (jpeg_mem_src)
 *   stdio <id> <api> <savecfg>             -> "D ..."           jpeg_stdio_src on fmemopen()
 *   part <id> <api> <savecfg> <bufseed> <n> s1 .. sn   -> "D ..." suspending source, explicit chunk sizes
 *   every <id> <api> <savecfg> <lo> <hi>   -> "E <count> ok" | "E <count> bad <k> | Dref | Dgot"
 *   one <id> <api> <savecfg> <csize>       -> "D ..."  suspending source, constant chunk size
 *   rand <id> <api> <savecfg> <seed> <count> -> "R <count> ok" | "R <count> bad <seed_i> <n> sizes.. | Dref | Dgot"
 *   memdst <proc> <w> <h> <nc> <sub> <q> <restart> <imgseed> <seed> <single>
 *        jpeg_mem_dest: outbuffer NULL vs application-supplied initial buffers (single = 0: sweep of size classes
 *        1..64, around the header size, inside the entropy data, len-1, len, len+1; else that one size)
 *        -> "M <n> ok len=.. hdr=.. hash=.." | "M <i> bad size=.. len=got/ref firstdiff=.. hdr=.."
 *   encs <w> <h> <nc> <sub> <q> <restart> <imgseed> <maxsize> <reps> <seed>   suspending destination (as enc) for EVERY size 2..maxsize, 1
 *        -> "CS <n> ok" | "CS <i> bad size=.. seed=.. res=.."   (replay: enc ... <size> <seed>)
 *   dst <mode> <w> <h> <nc> <sub> <q> <restart> <imgseed> <maxsize> <single>
 *        custom never-refusing destination of EVERY buffer size 1..maxsize plus the sizes that leave 0/1/2 free bytes at an
 *        RSTn marker (mode: 0 baseline 2 progressive 4 lossless 1/3 12-bit, +10 arithmetic); guard bytes behind the buffer
 *        -> "T <n> ok len=.. markers=.. hash=.." | "T <i> bad size=.. len=got/ref firstdiff=.. overrun=.. markers=.."
 *   coef <id>                              -> "S nmcu=.. hash=.. warn=.." coefficients of a single-scan sequential stream,
 *                                             MCU order, zigzag order (same line as ml/C09_driver.ml `s`)
 *   enc <w> <h> <ncomp> <sub> <quality> <restart> <imgseed> <bufsize> <seed>
 *        -> "C ok <len> <hash>" | "C bad <len_ref> <hash_ref> <len_got> <hash_got> <first_diff>"
 *   api: 0 = jpeg_read_header/start_decompress/read_scanlines/finish_decompress
 *        1 = buffered-image mode, canonical schedule (all input first, one output pass)
 *        >= 2 = buffered-image mode, schedule drawn from seed = api
 *        >= 2^28: (c1 << 12 | rows << 4 | reps) + 2^28: c1 consume_input calls, reps early passes of <= rows rows, then final
 *   savecfg: 0 none; 1 save COM+all APPn with limit 0xFFFF; 2 save COM+APPn with limit 9; 3 save only COM limit 70000
 */
#include <stdio.h>
#include <stdlib.h>
#include <string.h>
#include <setjmp.h>
#include <stdint.h>
#define JPEG_INTERNALS
#include "jinclude.h"
#include "jpeglib.h"
#include "jerror.h"

#define MAXS 64
static unsigned char *S[MAXS];
static size_t SL[MAXS];

/* ------------------------------------------------------------------ rng */
static uint64_t rs;
static uint64_t rnd(void)
{
  uint64_t z = (rs += 0x9E3779B97F4A7C15ULL);
  z = (z ^ (z >> 30)) * 0xBF58476D1CE4E5B9ULL;
  z = (z ^ (z >> 27)) * 0x94D049BB133111EBULL;
  return z ^ (z >> 31);
}
static unsigned rb(unsigned n) { return n ? (unsigned)(rnd() % n) : 0; }

static uint64_t fnv(uint64_t h, const void *p, size_t n)
{
  const unsigned char *b = (const unsigned char *)p; size_t i;
  for (i = 0; i < n; i++) { h ^= b[i]; h *= 0x100000001B3ULL; }
  return h;
}
#define FNV0 0xCBF29CE484222325ULL

/* ---------------------------------------------------------------- errors */
struct my_err { struct jpeg_error_mgr pub; jmp_buf jb; int wcount[JMSG_LASTMSGCODE + 1]; };
static void my_exit(j_common_ptr c) { longjmp(((struct my_err *)c->err)->jb, 1); }
static void my_emit(j_common_ptr c, int lvl)
{
  if (lvl < 0) {
    struct my_err *e = (struct my_err *)c->err;
    c->err->num_warnings++;
    if (c->err->msg_code >= 0 && c->err->msg_code <= JMSG_LASTMSGCODE) e->wcount[c->err->msg_code]++;
  }
}
static void my_output(j_common_ptr c) { (void)c; }

/* ------------------------------------------------ suspending source mgr */
typedef struct {
  struct jpeg_source_mgr pub;
  const unsigned char *data; size_t total;   /* the whole stream */
  size_t delivered;                          /* bytes of the stream handed over (or skipped) so far */
  unsigned char *buf; size_t cap;            /* application work buffer */
  size_t skip_pending;                       /* skip_input_data beyond the buffer */
  int eof;                                   /* nothing left to deliver */
  unsigned char eoi[2];
  long fills;
} susp_src;

static void ss_init(j_decompress_ptr c) { (void)c; }
static boolean ss_fill(j_decompress_ptr c)
{
  susp_src *s = (susp_src *)c->src;
  s->fills++;
  if (s->eof && s->pub.bytes_in_buffer == 0) {
    /* as jdatasrc.c: warn and insert a fake EOI */
    WARNMS(c, JWRN_JPEG_EOF);
    s->eoi[0] = 0xFF; s->eoi[1] = JPEG_EOI;
    s->pub.next_input_byte = s->eoi; s->pub.bytes_in_buffer = 2;
    return TRUE;
  }
  return FALSE;   /* suspend: the application refills between library calls */
}
static void ss_skip(j_decompress_ptr c, long n)
{
  susp_src *s = (susp_src *)c->src;
  if (n <= 0) return;
  if ((size_t)n <= s->pub.bytes_in_buffer) {
    s->pub.next_input_byte += n; s->pub.bytes_in_buffer -= (size_t)n;
  } else {
    s->skip_pending += (size_t)n - s->pub.bytes_in_buffer;
    s->pub.next_input_byte += s->pub.bytes_in_buffer; s->pub.bytes_in_buffer = 0;
  }
}
static void ss_term(j_decompress_ptr c) { (void)c; }

/* partition: explicit sizes then "rest in chunks of `tail`" (0 = all the rest at once) */
typedef struct { const long *sizes; int n; int next; long tail; } partition;

/* called after a suspension return: keep the unconsumed bytes, append the next chunk */
static void ss_feed(susp_src *s, partition *p)
{
  size_t keep = s->pub.bytes_in_buffer, want, avail;
  if (keep && s->pub.next_input_byte != s->buf) memmove(s->buf, s->pub.next_input_byte, keep);
  if (p->next < p->n) want = (size_t)p->sizes[p->next++];
  else want = p->tail > 0 ? (size_t)p->tail : s->total;
  avail = s->total - s->delivered;
  if (want > avail) want = avail;
  if (s->skip_pending) {                     /* discard the recorded skip distance first */
    size_t k = s->skip_pending < want ? s->skip_pending : want;
    s->delivered += k; want -= k; s->skip_pending -= k;
  }
  memcpy(s->buf + keep, s->data + s->delivered, want);
  s->delivered += want;
  s->pub.next_input_byte = s->buf; s->pub.bytes_in_buffer = keep + want;
  if (s->delivered >= s->total) s->eof = 1;
}

/* ---------------------------------------------------------------- digest */
typedef struct {
  int ok, errcode;
  unsigned w, h, ow, oh; int nc, onc, cs, prec, prog, arith, ri, jfif, jmaj, jmin, dens, xd, yd, adobe, atr, scans;
  long nwarn; uint64_t whash, mhash, phash, chash; int nmark;
} digest;

static void digest_print(const char *tag, const digest *d)
{
  printf("%s ok=%d err=%d w=%u h=%u ow=%u oh=%u nc=%d onc=%d cs=%d prec=%d prog=%d arith=%d ri=%d jfif=%d.%d.%d.%d.%d.%d adobe=%d.%d scans=%d nwarn=%ld wh=%016llx nmark=%d mh=%016llx comps=%016llx pix=%016llx",
         tag, d->ok, d->errcode, d->w, d->h, d->ow, d->oh, d->nc, d->onc, d->cs, d->prec, d->prog, d->arith, d->ri,
         d->jfif, d->jmaj, d->jmin, d->dens, d->xd, d->yd, d->adobe, d->atr, d->scans, d->nwarn,
         (unsigned long long)d->whash, d->nmark, (unsigned long long)d->mhash, (unsigned long long)d->chash,
         (unsigned long long)d->phash);
}
static int digest_eq(const digest *a, const digest *b) { return memcmp(a, b, sizeof(*a)) == 0; }

static void set_save(j_decompress_ptr c, int savecfg)
{
  int m;
  if (savecfg == 1) {
    jpeg_save_markers(c, JPEG_COM, 0xFFFF);
    for (m = 0; m < 16; m++) jpeg_save_markers(c, JPEG_APP0 + m, 0xFFFF);
  } else if (savecfg == 2) {
    jpeg_save_markers(c, JPEG_COM, 9);
    for (m = 0; m < 16; m++) jpeg_save_markers(c, JPEG_APP0 + m, 9);
  } else if (savecfg == 3) {
    jpeg_save_markers(c, JPEG_COM, 70000);
  }
}

static void header_digest(j_decompress_ptr c, digest *d)
{
  int ci; jpeg_saved_marker_ptr m; uint64_t h = FNV0;
  d->w = c->image_width; d->h = c->image_height; d->nc = c->num_components; d->cs = c->jpeg_color_space;
  d->prec = c->data_precision; d->prog = c->progressive_mode; d->arith = c->arith_code;
  d->jfif = c->saw_JFIF_marker; d->jmaj = c->JFIF_major_version; d->jmin = c->JFIF_minor_version;
  d->dens = c->density_unit; d->xd = c->X_density; d->yd = c->Y_density;
  d->adobe = c->saw_Adobe_marker; d->atr = c->Adobe_transform;
  for (ci = 0; ci < c->num_components; ci++) {
    int v[4]; v[0] = c->comp_info[ci].component_id; v[1] = c->comp_info[ci].h_samp_factor;
    v[2] = c->comp_info[ci].v_samp_factor; v[3] = c->comp_info[ci].quant_tbl_no;
    h = fnv(h, v, sizeof(v));
  }
  d->chash = h;
  h = FNV0; d->nmark = 0;
  for (m = c->marker_list; m; m = m->next) {
    unsigned v[3]; v[0] = m->marker; v[1] = m->original_length; v[2] = m->data_length;
    h = fnv(h, v, sizeof(v)); h = fnv(h, m->data, m->data_length); d->nmark++;
  }
  d->mhash = h;
}

static void final_digest(j_decompress_ptr c, struct my_err *e, digest *d)
{
  d->nwarn = c->err->num_warnings;
  d->whash = fnv(FNV0, e->wcount, sizeof(e->wcount));
  d->ri = c->restart_interval;
  d->scans = c->input_scan_number;
}

/* read scanlines of the current output pass into the pixel hash */
static JDIMENSION read_rows(j_decompress_ptr c, void *rowbuf, int maxrows)
{
  if (c->data_precision <= 8) {
    JSAMPROW rows[4]; int i; size_t stride = (size_t)c->output_width * c->output_components;
    for (i = 0; i < maxrows; i++) rows[i] = (JSAMPROW)rowbuf + i * stride;
    return jpeg_read_scanlines(c, rows, maxrows);
  } else if (c->data_precision <= 12) {
    J12SAMPROW rows[4]; int i; size_t stride = (size_t)c->output_width * c->output_components;
    for (i = 0; i < maxrows; i++) rows[i] = (J12SAMPROW)rowbuf + i * stride;
    return jpeg12_read_scanlines(c, rows, maxrows);
  } else {
    J16SAMPROW rows[4]; int i; size_t stride = (size_t)c->output_width * c->output_components;
    for (i = 0; i < maxrows; i++) rows[i] = (J16SAMPROW)rowbuf + i * stride;
    return jpeg16_read_scanlines(c, rows, maxrows);
  }
}
static size_t sample_size(j_decompress_ptr c) { return c->data_precision <= 8 ? 1 : 2; }

/* The decode under test.
 * src_kind: 0 jpeg_mem_src, 1 jpeg_stdio_src(fmemopen), 2 suspending source with partition `pt` */
static void decode(int id, int api, int savecfg, int src_kind, partition *pt, digest *d)
{
  struct jpeg_decompress_struct c; struct my_err e; susp_src ss; FILE *volatile f = NULL;
  unsigned char *volatile workbuf = NULL; void *volatile rowbuf = NULL;
  uint64_t ph = FNV0; long guard = 0; uint64_t saved_rs = rs;
  uint64_t live = 0; int have_live = 0;   /* a complete pass started INSIDE the last scan that ended with the input complete */
  memset(d, 0, sizeof(*d)); memset(&ss, 0, sizeof(ss));
  c.err = jpeg_std_error(&e.pub); e.pub.error_exit = my_exit; e.pub.emit_message = my_emit; e.pub.output_message = my_output;
  memset(e.wcount, 0, sizeof(e.wcount));
  if (setjmp(e.jb)) {
    d->ok = 0; d->errcode = e.pub.msg_code;
    jpeg_destroy_decompress(&c); if (f) fclose(f); free(workbuf); free(rowbuf); rs = saved_rs; return;
  }
  jpeg_create_decompress(&c);
  if (src_kind == 0) jpeg_mem_src(&c, S[id], (unsigned long)SL[id]);
  else if (src_kind == 1) { f = fmemopen(S[id], SL[id], "rb"); jpeg_stdio_src(&c, f); }
  else {
    workbuf = (unsigned char *)malloc(SL[id] + 16);
    ss.pub.init_source = ss_init; ss.pub.fill_input_buffer = ss_fill; ss.pub.skip_input_data = ss_skip;
    ss.pub.resync_to_restart = jpeg_resync_to_restart; ss.pub.term_source = ss_term;
    ss.pub.next_input_byte = workbuf; ss.pub.bytes_in_buffer = 0;
    ss.data = S[id]; ss.total = SL[id]; ss.buf = workbuf; ss.cap = SL[id] + 16;
    c.src = &ss.pub;
  }
#define GUARD() do { if (++guard > 40000000L) { d->ok = 0; d->errcode = -77; longjmp(e.jb, 1); } } while (0)
#define FEED() do { GUARD(); if (src_kind == 2) ss_feed(&ss, pt); } while (0)
  set_save(&c, savecfg);
  while (jpeg_read_header(&c, TRUE) == JPEG_SUSPENDED) FEED();
  if (c.master->lossless) c.out_color_space = c.jpeg_color_space;   /* no colour conversion in lossless mode */
  if (api == 0) {
    while (!jpeg_start_decompress(&c)) FEED();
    rowbuf = malloc((size_t)c.output_width * c.output_components * sample_size(&c) * 4 + 16);
    d->ow = c.output_width; d->oh = c.output_height; d->onc = c.output_components;
    while (c.output_scanline < c.output_height) {
      JDIMENSION n = read_rows(&c, rowbuf, 1 + (int)(c.output_scanline % 3));
      if (n == 0) { FEED(); continue; }
      ph = fnv(ph, rowbuf, (size_t)n * c.output_width * c.output_components * sample_size(&c));
    }
    header_digest(&c, d);
    while (!jpeg_finish_decompress(&c)) FEED();
  } else {
    /* buffered-image mode.  api == 1: canonical; otherwise a schedule drawn from rs = api */
    int final_pass = 0;
    rs = (uint64_t)api * 7919ULL + 12345ULL;
    c.buffered_image = TRUE;
    while (!jpeg_start_decompress(&c)) FEED();
    rowbuf = malloc((size_t)c.output_width * c.output_components * sample_size(&c) * 4 + 16);
    d->ow = c.output_width; d->oh = c.output_height; d->onc = c.output_components;
    if (api == 1) {
      for (;;) { int r = jpeg_consume_input(&c); if (r == JPEG_REACHED_EOI) break; if (r == JPEG_SUSPENDED) FEED(); }
    }
    if (api >= (1 << 28)) {
      /* deterministic family: c1 successful jpeg_consume_input calls, then `reps` early output passes that
       * read at most `rows` rows each (255 = all; 0 = abandoned at once), then all input, then the final pass */
      int c1 = (api >> 12) & 0xFFFF, rows = (api >> 4) & 0xFF, reps = api & 15, i;
      while (c1 > 0 && !jpeg_input_complete(&c)) { if (jpeg_consume_input(&c) == JPEG_SUSPENDED) FEED(); else c1--; }
      for (i = 0; i < reps && !jpeg_input_complete(&c); i++) {
        uint64_t eh = FNV0;
        while (!jpeg_start_output(&c, c.input_scan_number)) FEED();      /* the documented display loop */
        while (c.output_scanline < c.output_height && (rows == 255 || (int)c.output_scanline < rows)) {
          if (read_rows(&c, rowbuf, 1) == 0) FEED();
          else eh = fnv(eh, rowbuf, (size_t)c.output_width * c.output_components * sample_size(&c));
        }
        while (!jpeg_finish_output(&c)) FEED();
        if (c.output_scanline == c.output_height && jpeg_input_complete(&c) && c.output_scan_number == c.input_scan_number) {
          live = eh; have_live = 1;
        }
      }
      for (;;) { int r = jpeg_consume_input(&c); if (r == JPEG_REACHED_EOI) break; if (r == JPEG_SUSPENDED) FEED(); }
      api = 1;   /* the rest is the canonical final pass */
    }
    for (;;) {
      int stop_early, k, on_current;
      /* optional input consumption before the pass */
      if (api != 1) {
        k = (int)rb(40);
        while (k-- > 0 && !jpeg_input_complete(&c)) { if (jpeg_consume_input(&c) == JPEG_SUSPENDED) FEED(); }
      }
      final_pass = jpeg_input_complete(&c);
      while (!jpeg_start_output(&c, api == 1 || rb(4) ? c.input_scan_number : 1 + (int)rb(c.input_scan_number + 1))) FEED();
      on_current = (c.output_scan_number == c.input_scan_number);
      /* a non-final pass may be abandoned before all rows are read */
      stop_early = (!final_pass && api != 1 && rb(3) == 0) ? (int)rb(c.output_height + 1) : -1;
      ph = FNV0;
      while (c.output_scanline < c.output_height) {
        JDIMENSION n;
        if (stop_early >= 0 && (int)c.output_scanline >= stop_early) break;
        if (api != 1 && rb(3) == 0) {
          k = (int)rb(6);
          while (k-- > 0 && !jpeg_input_complete(&c)) { if (jpeg_consume_input(&c) == JPEG_SUSPENDED) FEED(); }
        }
        n = read_rows(&c, rowbuf, 1 + (int)(c.output_scanline % 3));
        if (n == 0) { FEED(); continue; }
        ph = fnv(ph, rowbuf, (size_t)n * c.output_width * c.output_components * sample_size(&c));
      }
      /* was the input complete when this pass STARTED?  only then it is the final pass */
      while (!jpeg_finish_output(&c)) FEED();
      if (getenv("C09_DEBUG")) fprintf(stderr, "pass scan=%d final=%d rows=%u stop=%d hash=%016llx inscan=%d\n", c.output_scan_number, final_pass, c.output_scanline, stop_early, (unsigned long long)ph, c.input_scan_number);
      if (final_pass) break;
      if (on_current && c.output_scanline == c.output_height && jpeg_input_complete(&c) &&
          c.output_scan_number == c.input_scan_number) { live = ph; have_live = 1; }
    }
    header_digest(&c, d);
    while (!jpeg_finish_decompress(&c)) FEED();
  }
  d->ok = 1; d->phash = ph;
  /* such a pass has shown every row with the data of the last scan: it must be the final image */
  if (have_live && live != ph) { d->ok = 2; d->errcode = -88; }
  final_digest(&c, &e, d);
  jpeg_destroy_decompress(&c);
  if (f) fclose(f);
  free(workbuf); free(rowbuf);
  rs = saved_rs;
}

/* ------------------------------------------------------------ generator */
static void make_image(unsigned char *img16, int w, int h, int nc, int prec, uint64_t seed)
{
  /* smooth gradients + texture + noise so that every Huffman symbol class occurs */
  uint16_t *p = (uint16_t *)img16; int x, y, c; int maxv = (1 << prec) - 1;
  uint64_t save = rs; rs = seed;
  int fx = 1 + (int)rb(5), fy = 1 + (int)rb(5), noise = (int)rb(4);
  for (y = 0; y < h; y++) for (x = 0; x < w; x++) for (c = 0; c < nc; c++) {
    long v = ((long)x * fx * maxv) / (w + 1) + ((long)y * fy * maxv) / (h + 1) + c * (maxv / 5);
    if (((x / 4) + (y / 4)) & 1) v += maxv / 3;
    if (noise) v += (long)rb((unsigned)(maxv >> (4 - noise)) + 1);
    if (noise == 3 && rb(7) == 0) v = rb(2) ? maxv : 0;
    p[((size_t)y * w + x) * nc + c] = (uint16_t)(v % (maxv + 1));
  }
  rs = save;
}

static void set_sampling(j_compress_ptr c, int nc, int sub)
{
  if (nc == 1) {
    /* one component: several MCU rows per iMCU row when v_samp_factor > 1 (sub: 0 = 1x1, 1 = 1x2, 2 = 1x4, 3 = 2x2, 4 = 2x4) */
    static const int gh[5] = { 1, 1, 1, 2, 2 }, gv[5] = { 1, 2, 4, 2, 4 };
    c->comp_info[0].h_samp_factor = gh[sub % 5]; c->comp_info[0].v_samp_factor = gv[sub % 5];
    return;
  }
  if (nc < 3) return;
  /* sub: 0 = 1x1, 1 = 2x1, 2 = 2x2, 3 = 1x2, 4 = 4x1 */
  static const int hs[5] = { 1, 2, 2, 1, 4 }, vs[5] = { 1, 1, 2, 2, 1 };
  int i;
  c->comp_info[0].h_samp_factor = hs[sub % 5]; c->comp_info[0].v_samp_factor = vs[sub % 5];
  for (i = 1; i < nc; i++) { c->comp_info[i].h_samp_factor = 1; c->comp_info[i].v_samp_factor = 1; }
  if (nc == 4) { c->comp_info[3].h_samp_factor = hs[sub % 5]; c->comp_info[3].v_samp_factor = vs[sub % 5]; }
}

static int write_rows(j_compress_ptr c, unsigned char *img16, int w, int nc, int prec, JDIMENSION start, int n, unsigned char *tmp)
{
  uint16_t *p = (uint16_t *)img16; int i; size_t stride = (size_t)w * nc, k;
  if (prec <= 8) {
    JSAMPROW rows[8];
    for (i = 0; i < n; i++) { rows[i] = tmp + i * stride; for (k = 0; k < stride; k++) rows[i][k] = (JSAMPLE)p[(start + i) * stride + k]; }
    return (int)jpeg_write_scanlines(c, rows, n);
  } else if (prec <= 12) {
    J12SAMPROW rows[8];
    for (i = 0; i < n; i++) rows[i] = (J12SAMPROW)(p + (start + i) * stride);
    return (int)jpeg12_write_scanlines(c, rows, n);
  } else {
    J16SAMPROW rows[8];
    for (i = 0; i < n; i++) rows[i] = (J16SAMPROW)(p + (start + i) * stride);
    return (int)jpeg16_write_scanlines(c, rows, n);
  }
}

static void setup_compress(j_compress_ptr c, int proc, int w, int h, int nc, int sub, int quality, int restart, uint64_t seed)
{
  c->image_width = w; c->image_height = h; c->input_components = nc;
  c->in_color_space = nc == 1 ? JCS_GRAYSCALE : nc == 3 ? JCS_RGB : JCS_CMYK;
  if (proc == 1 || proc == 3) c->data_precision = 12;
  else if (proc == 4) c->data_precision = quality;
  else c->data_precision = 8;
  jpeg_set_defaults(c);
  if (proc == 4) {
    jpeg_enable_lossless(c, 1 + (int)(seed % 7), (int)((seed / 7) % (unsigned)(c->data_precision > 2 ? 2 : 1)));
  } else {
    jpeg_set_quality(c, quality, TRUE);
    set_sampling(c, nc, sub);
    if (proc == 2 || proc == 3) jpeg_simple_progression(c);
  }
  if (restart > 0) c->restart_interval = restart;
  else if (restart < 0) c->restart_in_rows = -restart;
  if ((proc == 6 || proc == 7) && nc == 3) {
    /* multi-scan streams whose components share quantization-table slots (a DQT is spliced between
     * the scans afterwards): 6 = sequential, 7 = progressive with per-component DC scans */
    static const jpeg_scan_info seqA[3] = { { 1, { 0 }, 0, 63, 0, 0 }, { 1, { 1 }, 0, 63, 0, 0 }, { 1, { 2 }, 0, 63, 0, 0 } };
    static const jpeg_scan_info seqB[2] = { { 1, { 0 }, 0, 63, 0, 0 }, { 2, { 1, 2 }, 0, 63, 0, 0 } };
    static const jpeg_scan_info seqC[3] = { { 1, { 2 }, 0, 63, 0, 0 }, { 1, { 0 }, 0, 63, 0, 0 }, { 1, { 1 }, 0, 63, 0, 0 } };
    static const jpeg_scan_info prgA[6] = { { 1, { 0 }, 0, 0, 0, 0 }, { 1, { 1 }, 0, 0, 0, 0 }, { 1, { 2 }, 0, 0, 0, 0 },
                                            { 1, { 0 }, 1, 63, 0, 0 }, { 1, { 1 }, 1, 63, 0, 0 }, { 1, { 2 }, 1, 63, 0, 0 } };
    static const jpeg_scan_info prgB[7] = { { 1, { 0 }, 0, 0, 0, 1 }, { 1, { 0 }, 1, 63, 0, 0 }, { 1, { 1 }, 0, 0, 0, 1 },
                                            { 1, { 2 }, 0, 0, 0, 1 }, { 1, { 1 }, 1, 63, 0, 0 }, { 1, { 2 }, 1, 63, 0, 0 },
                                            { 3, { 0, 1, 2 }, 0, 0, 1, 0 } };
    unsigned v = (unsigned)((seed / 3) % 3);
    if (seed % 3 != 1) { c->comp_info[1].quant_tbl_no = 0; c->comp_info[2].quant_tbl_no = 0; }   /* all on slot 0 */
    if (proc == 6) {
      if (v == 0) { c->scan_info = seqA; c->num_scans = 3; }
      else if (v == 1) { c->scan_info = seqB; c->num_scans = 2; }
      else { c->scan_info = seqC; c->num_scans = 3; }
    } else {
      if (v == 0) { c->scan_info = prgA; c->num_scans = 6; } else { c->scan_info = prgB; c->num_scans = 7; }
    }
  }
}

/* offset of the n-th SOS marker (n from 1) of a stream, 0 if there is none */
static size_t find_sos(const unsigned char *p, size_t size, int n)
{
  size_t pos = 2; int seen = 0;
  while (pos + 4 <= size) {
    unsigned m; size_t len;
    if (p[pos] != 0xFF) return 0;
    m = p[pos + 1];
    if (m == 0xFF) { pos++; continue; }
    if (m == 0xD9) return 0;
    len = ((size_t)p[pos + 2] << 8) | p[pos + 3];
    if (m == 0xDA) {
      if (++seen == n) return pos;
      pos += 2 + len;
      while (pos + 1 < size) {          /* skip entropy-coded data */
        if (p[pos] == 0xFF && p[pos + 1] != 0x00 && p[pos + 1] != 0xFF && !(p[pos + 1] >= 0xD0 && p[pos + 1] <= 0xD7)) break;
        pos++;
      }
      continue;
    }
    pos += 2 + len;
  }
  return 0;
}

/* insert "DQT slot := table drawn from rs" in front of the n-th SOS; returns the new buffer */
static unsigned char *splice_dqt(unsigned char *jpg, size_t *size, int n, int slot)
{
  size_t at = find_sos(jpg, *size, n), i; unsigned char *out; unsigned base, spread;
  if (at == 0) return jpg;
  out = (unsigned char *)malloc(*size + 69);
  memcpy(out, jpg, at);
  out[at] = 0xFF; out[at + 1] = 0xDB; out[at + 2] = 0; out[at + 3] = 67; out[at + 4] = (unsigned char)slot;
  base = 1 + rb(120); spread = 1 + rb(100);
  for (i = 0; i < 64; i++) out[at + 5 + i] = (unsigned char)(base + rb(spread));
  memcpy(out + at + 69, jpg + at, *size - at);
  *size += 69; free(jpg);
  return out;
}

static size_t generate(int id, int proc, int w, int h, int nc, int sub, int quality, int restart, uint64_t seed,
                       int jfifmajor, int nmark, int *mcode, long *mlen)
{
  struct jpeg_compress_struct c; struct my_err e; unsigned char *out = NULL; unsigned long outsize = 0;
  int prec = (proc == 1 || proc == 3) ? 12 : proc == 4 ? quality : 8; int i;
  unsigned char *img = (unsigned char *)malloc((size_t)w * h * nc * 2 + 16);
  unsigned char *tmp = (unsigned char *)malloc((size_t)w * nc * 8 + 16);
  make_image(img, w, h, nc, prec, seed);
  c.err = jpeg_std_error(&e.pub); e.pub.error_exit = my_exit; e.pub.emit_message = my_emit; e.pub.output_message = my_output;
  if (setjmp(e.jb)) { { char b[JMSG_LENGTH_MAX]; (*e.pub.format_message)((j_common_ptr)&c, b); fprintf(stderr, "generate: error %d %s\n", e.pub.msg_code, b); } jpeg_destroy_compress(&c); free(img); free(tmp); free(out); free(S[id]); S[id] = NULL; SL[id] = 0; return 0; }
  jpeg_create_compress(&c);
  jpeg_mem_dest(&c, &out, &outsize);
  setup_compress(&c, proc == 5 ? 0 : proc, w, h, nc, sub, quality, restart, seed);
  if (jfifmajor > 0) { c.write_JFIF_header = TRUE; c.JFIF_major_version = (UINT8)jfifmajor; }
  jpeg_start_compress(&c, TRUE);
  for (i = 0; i < nmark; i++) {
    long k, n = mlen[i]; unsigned char *m = (unsigned char *)malloc((size_t)n + 1);
    uint64_t save = rs; rs = seed + 77 * (uint64_t)i;
    for (k = 0; k < n; k++) m[k] = (unsigned char)rb(256);
    if (mcode[i] == 0xEE && n >= 12 && (seed & 1)) { memcpy(m, "Adobe", 5); m[11] = 1 + (unsigned char)(seed % 2); }
    if (mcode[i] == 0xE0 && n >= 14 && (seed & 2)) { memcpy(m, "JFIF", 5); m[5] = 1; m[6] = 2; m[12] = 0; m[13] = 0; }
    rs = save;
    jpeg_write_marker(&c, mcode[i], m, (unsigned)n);
    free(m);
  }
  while (c.next_scanline < c.image_height) {
    int n = 1 + (int)(c.next_scanline % 4);
    if (c.next_scanline + n > c.image_height) n = (int)(c.image_height - c.next_scanline);
    write_rows(&c, img, w, nc, prec, c.next_scanline, n, tmp);
  }
  jpeg_finish_compress(&c);
  jpeg_destroy_compress(&c);
  free(img); free(tmp);
  free(S[id]);
  if (proc == 5) {
    /* tolerated irregularities: fill bytes (extra FF) before markers, garbage before a marker */
    unsigned char *o = (unsigned char *)malloc(outsize * 2 + 64); size_t n = 0, k = 2; uint64_t save = rs; rs = seed;
    o[n++] = out[0]; o[n++] = out[1];
    while (k + 4 <= outsize && out[k] == 0xFF && out[k + 1] != 0xDA) {
      size_t seglen = ((size_t)out[k + 2] << 8) + out[k + 3];
      unsigned r = rb(4), j;
      if (r == 1) for (j = 0; j < 1 + rb(3); j++) o[n++] = 0xFF;            /* legal fill bytes */
      if (r == 2) { unsigned g = 1 + rb(3); for (j = 0; j < g; j++) o[n++] = (unsigned char)rb(255); }   /* garbage */
      if (r == 3) { o[n++] = 0xFF; o[n++] = 0x00; }                         /* stray stuffed FF */
      memcpy(o + n, out + k, seglen + 2); n += seglen + 2; k += seglen + 2;
    }
    memcpy(o + n, out + k, outsize - k); n += outsize - k;
    rs = save; free(out); S[id] = o; SL[id] = n;
  } else if (proc == 6 || proc == 7) {
    /* redefine a shared slot between the scans of different components (one or two DQT segments) */
    size_t n = outsize; uint64_t save = rs; int nsos = 0, k, cnt;
    while (find_sos(out, n, nsos + 1)) nsos++;
    rs = seed ^ 0x5DEECE66DULL; cnt = 1 + (int)rb(2);
    for (k = 0; k < cnt && nsos >= 2; k++)
      out = splice_dqt(out, &n, 2 + (int)rb((unsigned)nsos - 1), (seed % 3 == 1) ? 1 : 0);
    rs = save; S[id] = out; SL[id] = n;
  } else { S[id] = out; SL[id] = outsize; }
  return SL[id];
}

/* -------------------------------------------- canonical header line (hdr) */
static void print_hdr(int id, int savecfg)
{
  struct jpeg_decompress_struct c; struct my_err e; int ci, i, t; jpeg_saved_marker_ptr m;
  c.err = jpeg_std_error(&e.pub); e.pub.error_exit = my_exit; e.pub.emit_message = my_emit; e.pub.output_message = my_output;
  memset(e.wcount, 0, sizeof(e.wcount));
  if (setjmp(e.jb)) { printf("H err %d\n", e.pub.msg_code); jpeg_destroy_decompress(&c); return; }
  jpeg_create_decompress(&c);
  jpeg_mem_src(&c, S[id], (unsigned long)SL[id]);
  set_save(&c, savecfg);
  jpeg_read_header(&c, TRUE);
  printf("H %u %u %d %d %d %d %d", c.image_width, c.image_height, c.data_precision, c.num_components,
         c.progressive_mode, c.master->lossless, c.arith_code);
  printf(" ri %u |", c.restart_interval);
  for (ci = 0; ci < c.num_components; ci++)
    printf(" %d:%d:%d:%d", c.comp_info[ci].component_id, c.comp_info[ci].h_samp_factor, c.comp_info[ci].v_samp_factor, c.comp_info[ci].quant_tbl_no);
  printf(" | scan %d %d %d %d %d", c.comps_in_scan, c.Ss, c.Se, c.Ah, c.Al);
  for (i = 0; i < c.comps_in_scan; i++)
    printf(" %d:%d:%d", c.cur_comp_info[i]->component_index, c.cur_comp_info[i]->dc_tbl_no, c.cur_comp_info[i]->ac_tbl_no);
  printf(" | q");
  for (t = 0; t < NUM_QUANT_TBLS; t++) if (c.quant_tbl_ptrs[t]) {
    printf(" %d:", t); for (i = 0; i < DCTSIZE2; i++) printf("%s%d", i ? "," : "", c.quant_tbl_ptrs[t]->quantval[i]);
  }
  printf(" | dht");
  for (t = 0; t < 2 * NUM_HUFF_TBLS; t++) {
    JHUFF_TBL *ht = t < NUM_HUFF_TBLS ? c.dc_huff_tbl_ptrs[t] : c.ac_huff_tbl_ptrs[t - NUM_HUFF_TBLS];
    if (ht) {
      int cnt = 0; printf(" %d:", t);
      for (i = 1; i <= 16; i++) { printf("%s%d", i > 1 ? "," : "", ht->bits[i]); cnt += ht->bits[i]; }
      printf(":"); for (i = 0; i < 256; i++) printf("%s%d", i ? "," : "", ht->huffval[i]);
    }
  }
  printf(" | jfif %d %d %d %d %d %d | adobe %d %d | warn %ld | mk", c.saw_JFIF_marker, c.JFIF_major_version, c.JFIF_minor_version,
         c.density_unit, c.X_density, c.Y_density, c.saw_Adobe_marker, c.Adobe_transform,
         (long)(e.wcount[JWRN_JFIF_MAJOR] + e.wcount[JWRN_EXTRANEOUS_DATA]));   /* warnings of the marker reader only */
  for (m = c.marker_list; m; m = m->next)
    printf(" %d:%u:%u:%016llx", m->marker, m->original_length, m->data_length, (unsigned long long)fnv(FNV0, m->data, m->data_length));
  printf(" | consumed %lu | scans %d\n", (unsigned long)(SL[id] - c.src->bytes_in_buffer), c.input_scan_number);
  jpeg_destroy_decompress(&c);
}

/* ------------------------------------ coefficients of the first scan (coef) */
static void print_coefs(int id)
{
  struct jpeg_decompress_struct c; struct my_err e; jvirt_barray_ptr *arr; uint64_t h = FNV0; long nmcu = 0;
  c.err = jpeg_std_error(&e.pub); e.pub.error_exit = my_exit; e.pub.emit_message = my_emit; e.pub.output_message = my_output;
  memset(e.wcount, 0, sizeof(e.wcount));
  if (setjmp(e.jb)) { printf("S err %d\n", e.pub.msg_code); jpeg_destroy_decompress(&c); return; }
  jpeg_create_decompress(&c);
  jpeg_mem_src(&c, S[id], (unsigned long)SL[id]);
  jpeg_read_header(&c, TRUE);
  arr = jpeg_read_coefficients(&c);
  {
    int hmax = c.max_h_samp_factor, vmax = c.max_v_samp_factor, ci, x, y, k;
    if (c.num_components == 1) {
      jpeg_component_info *cp = &c.comp_info[0]; JDIMENSION r, col;
      for (r = 0; r < cp->height_in_blocks; r++) {
        JBLOCKARRAY ba = (*c.mem->access_virt_barray)((j_common_ptr)&c, arr[0], r, 1, FALSE);
        for (col = 0; col < cp->width_in_blocks; col++) {
          for (k = 0; k < 64; k++) { int32_t v = ba[0][col][jpeg_natural_order[k]]; h = fnv(h, &v, 4); }
          nmcu++;
        }
      }
    } else {
      JDIMENSION mrows = (c.image_height + 8 * vmax - 1) / (8 * vmax), mcols = (c.image_width + 8 * hmax - 1) / (8 * hmax), mr, mc;
      for (mr = 0; mr < mrows; mr++) for (mc = 0; mc < mcols; mc++) {
        for (ci = 0; ci < c.num_components; ci++) {
          jpeg_component_info *cp = &c.comp_info[ci];
          for (y = 0; y < cp->v_samp_factor; y++) {
            JBLOCKARRAY ba = (*c.mem->access_virt_barray)((j_common_ptr)&c, arr[ci], mr * cp->v_samp_factor + y, 1, FALSE);
            for (x = 0; x < cp->h_samp_factor; x++)
              for (k = 0; k < 64; k++) { int32_t v = ba[0][mc * cp->h_samp_factor + x][jpeg_natural_order[k]]; h = fnv(h, &v, 4); }
          }
        }
        nmcu++;
      }
    }
  }
  printf("S nmcu=%ld hash=%016llx warn=%ld\n", nmcu, (unsigned long long)h, c.err->num_warnings);
  jpeg_finish_decompress(&c);
  jpeg_destroy_decompress(&c);
}

/* --------------------------------------------------- suspending encoder */
typedef struct {
  struct jpeg_destination_mgr pub;
  unsigned char *buf; size_t n;          /* work buffer of n bytes */
  unsigned char *sink; size_t len, cap;  /* everything written out */
  int may_refuse;                        /* only inside jpeg_write_scanlines */
  int refused;                           /* the last empty_output_buffer call refused */
  long refusals, accepts;
} susp_dst;

static void sink_put(susp_dst *d, const unsigned char *p, size_t n)
{
  if (d->len + n > d->cap) { d->cap = (d->len + n) * 2 + 1024; d->sink = (unsigned char *)realloc(d->sink, d->cap); }
  memcpy(d->sink + d->len, p, n); d->len += n;
}
static void sd_init(j_compress_ptr c) { susp_dst *d = (susp_dst *)c->dest; d->pub.next_output_byte = d->buf; d->pub.free_in_buffer = d->n; }
static boolean sd_empty(j_compress_ptr c)
{
  susp_dst *d = (susp_dst *)c->dest;
  /* The restart point is in the current buffer iff the library has moved next_output_byte since the
   * buffer was installed (libjpeg.txt, multiple-buffer management): only then refusing is legal. */
  if (d->may_refuse && d->pub.next_output_byte != d->buf && rb(3) != 0) { d->refused = 1; d->refusals++; return FALSE; }
  sink_put(d, d->buf, d->n);             /* write the ENTIRE buffer, as jdatadst.c */
  d->pub.next_output_byte = d->buf; d->pub.free_in_buffer = d->n; d->accepts++;
  return TRUE;
}
static void sd_term(j_compress_ptr c)
{
  susp_dst *d = (susp_dst *)c->dest;
  sink_put(d, d->buf, d->n - d->pub.free_in_buffer);
}
/* application side, between library calls: write the data up to next_output_byte, reset */
static void sd_flush(susp_dst *d)
{
  sink_put(d, d->buf, (size_t)(d->pub.next_output_byte - d->buf));
  d->pub.next_output_byte = d->buf; d->pub.free_in_buffer = d->n;
}

/* returns 1 = identical, 0 = bytes differ, -1 = library error; quiet = no output line */
static int encode_case(int w, int h, int nc, int sub, int quality, int restart, uint64_t imgseed, size_t bufsize, uint64_t seed, int quiet)
{
  int result = -1;
  unsigned char *img = (unsigned char *)malloc((size_t)w * h * nc * 2 + 16);
  unsigned char *tmp = (unsigned char *)malloc((size_t)w * nc * 8 + 16);
  unsigned char *ref = NULL; unsigned long reflen = 0; susp_dst sd; int pass;
  make_image(img, w, h, nc, 8, imgseed);
  memset(&sd, 0, sizeof(sd));
  for (pass = 0; pass < 2; pass++) {
    struct jpeg_compress_struct c; struct my_err e; long guard = 0;
    c.err = jpeg_std_error(&e.pub); e.pub.error_exit = my_exit; e.pub.emit_message = my_emit; e.pub.output_message = my_output;
    if (setjmp(e.jb)) { if (!quiet) printf("C err %d pass %d\n", e.pub.msg_code, pass); jpeg_destroy_compress(&c); goto out; }
    jpeg_create_compress(&c);
    if (pass == 0) jpeg_mem_dest(&c, &ref, &reflen);
    else {
      sd.buf = (unsigned char *)malloc(bufsize); sd.n = bufsize;
      sd.pub.init_destination = sd_init; sd.pub.empty_output_buffer = sd_empty; sd.pub.term_destination = sd_term;
      c.dest = &sd.pub; rs = seed;
    }
    setup_compress(&c, 0, w, h, nc, sub, quality, restart, imgseed);
    c.optimize_coding = FALSE;
    jpeg_start_compress(&c, TRUE);
    /* frame and scan headers are written by the first jpeg_write_scanlines call and can not be
     * suspended (libjpeg.txt): let them out with a call that passes no rows */
    write_rows(&c, img, w, nc, 8, 0, 0, tmp);
    while (c.next_scanline < c.image_height) {
      int n = 1 + (pass ? (int)rb(8) : 3), got;
      if (c.next_scanline + n > c.image_height) n = (int)(c.image_height - c.next_scanline);
      if (pass) { sd.may_refuse = 1; sd.refused = 0; }
      got = write_rows(&c, img, w, nc, 8, c.next_scanline, n, tmp);
      if (pass) {
        sd.may_refuse = 0;
        /* documented protocol: after a suspension make room (write data up to next_output_byte, reset);
         * the application may also do so voluntarily between calls */
        if (sd.refused || rb(5) == 0) sd_flush(&sd);
        if (++guard > 50000000L) { if (!quiet) printf("C err -77 livelock\n"); jpeg_destroy_compress(&c); goto out; }
      }
      (void)got;
    }
    jpeg_finish_compress(&c);
    jpeg_destroy_compress(&c);
  }
  if (reflen == sd.len && memcmp(ref, sd.sink, reflen) == 0) {
    result = 1;
    if (!quiet) printf("C ok %lu %016llx refusals=%ld accepts=%ld\n", reflen, (unsigned long long)fnv(FNV0, ref, reflen), sd.refusals, sd.accepts);
  } else {
    result = 0;
    size_t k = 0; while (k < reflen && k < sd.len && ref[k] == sd.sink[k]) k++;
    if (!quiet) printf("C bad %lu %016llx %lu %016llx %lu refusals=%ld accepts=%ld\n", reflen, (unsigned long long)fnv(FNV0, ref, reflen),
           (unsigned long)sd.len, (unsigned long long)fnv(FNV0, sd.sink, sd.len), (unsigned long)k, sd.refusals, sd.accepts);
  }
out:
  free(img); free(tmp); free(ref); free(sd.buf); free(sd.sink);
  return result;
}

/* ------------------------------------------ jpeg_mem_dest with application-supplied buffers */
static unsigned char *memdst_once(int proc, int w, int h, int nc, int sub, int quality, int restart, uint64_t imgseed,
                                  unsigned char *img, unsigned char *tmp, long initsize, unsigned long *len, size_t *hdr)
{
  struct jpeg_compress_struct c; struct my_err e; unsigned char *appbuf = NULL, *out = NULL; unsigned long outsize = 0;
  unsigned char *res = NULL; int prec = (proc == 1 || proc == 3) ? 12 : proc == 4 ? quality : 8;
  c.err = jpeg_std_error(&e.pub); e.pub.error_exit = my_exit; e.pub.emit_message = my_emit; e.pub.output_message = my_output;
  if (setjmp(e.jb)) { jpeg_destroy_compress(&c); if (out != appbuf) free(out); free(appbuf); *len = 0; return NULL; }
  jpeg_create_compress(&c);
  if (initsize > 0) { appbuf = (unsigned char *)malloc((size_t)initsize); memset(appbuf, 0xA5, (size_t)initsize); out = appbuf; outsize = (unsigned long)initsize; }
  jpeg_mem_dest(&c, &out, &outsize);
  setup_compress(&c, proc, w, h, nc, sub, quality, restart, imgseed);
  jpeg_start_compress(&c, TRUE);
  while (c.next_scanline < c.image_height) {
    int n = 1 + (int)(c.next_scanline % 4);
    if (c.next_scanline + n > c.image_height) n = (int)(c.image_height - c.next_scanline);
    write_rows(&c, img, w, nc, prec, c.next_scanline, n, tmp);
  }
  jpeg_finish_compress(&c);
  jpeg_destroy_compress(&c);
  res = (unsigned char *)malloc(outsize + 1); memcpy(res, out, outsize); *len = outsize;
  if (hdr) { size_t at = find_sos(res, outsize, 1); *hdr = at ? at + 2 + (((size_t)res[at + 2] << 8) | res[at + 3]) : 0; }
  if (out != appbuf) free(out);
  free(appbuf);
  return res;
}

/* single = 0: sweep the size classes; else only that initial size */
static void memdst_case(int proc, int w, int h, int nc, int sub, int quality, int restart, uint64_t imgseed, uint64_t seed, long single)
{
  int prec = (proc == 1 || proc == 3) ? 12 : proc == 4 ? quality : 8; long sizes[400]; int ns = 0, i; long k;
  unsigned char *img = (unsigned char *)malloc((size_t)w * h * nc * 2 + 16), *tmp = (unsigned char *)malloc((size_t)w * nc * 8 + 16);
  unsigned char *ref, *got; unsigned long L = 0, gl = 0; size_t H = 0; uint64_t save = rs;
  make_image(img, w, h, nc, prec, imgseed);
  ref = memdst_once(proc, w, h, nc, sub, quality, restart, imgseed, img, tmp, 0, &L, &H);     /* outbuffer = NULL */
  if (!ref) { printf("M err\n"); free(img); free(tmp); return; }
  if (single > 0) sizes[ns++] = single;
  else {
    rs = seed;
    for (k = 1; k <= 64; k += 1 + (long)rb(6)) sizes[ns++] = k;                       /* tiny */
    for (k = (long)H - 4; k <= (long)H + 40; k += 1 + (long)rb(3)) if (k > 0) sizes[ns++] = k;   /* around the headers */
    for (i = 0; i < 40; i++) sizes[ns++] = (long)H + 1 + (long)rb((unsigned)(L > H + 2 ? L - H - 1 : 1));   /* inside the entropy data */
    for (k = 128; k < (long)L; k *= 2) sizes[ns++] = k;
    sizes[ns++] = (long)L - 1; sizes[ns++] = (long)L; sizes[ns++] = (long)L + 1; sizes[ns++] = 2 * (long)L + 7;
  }
  rs = save;
  for (i = 0; i < ns; i++) {
    size_t d = 0; int bad;
    if (sizes[i] <= 0) continue;
    got = memdst_once(proc, w, h, nc, sub, quality, restart, imgseed, img, tmp, sizes[i], &gl, NULL);
    bad = !got || gl != L || memcmp(got, ref, L) != 0;
    if (bad) {
      while (got && d < L && d < gl && got[d] == ref[d]) d++;
      printf("M %d bad size=%ld len=%lu/%lu firstdiff=%lu hdr=%lu\n", i + 1, sizes[i], gl, L, (unsigned long)d, (unsigned long)H);
      free(got); free(ref); free(img); free(tmp); return;
    }
    free(got);
  }
  printf("M %d ok len=%lu hdr=%lu hash=%016llx\n", ns, L, (unsigned long)H, (unsigned long long)fnv(FNV0, ref, L));
  free(ref); free(img); free(tmp);
}

/* ------------------------- every destination buffer size, never refusing (all entropy encoders, restart markers) */
typedef struct { struct jpeg_destination_mgr pub; unsigned char *buf; size_t n; unsigned char *sink; size_t len, cap; } plain_dst;
static void pd_put(plain_dst *d, const unsigned char *p, size_t n)
{
  if (d->len + n > d->cap) { d->cap = (d->len + n) * 2 + 1024; d->sink = (unsigned char *)realloc(d->sink, d->cap); }
  memcpy(d->sink + d->len, p, n); d->len += n;
}
static void pd_init(j_compress_ptr c) { plain_dst *d = (plain_dst *)c->dest; d->pub.next_output_byte = d->buf; d->pub.free_in_buffer = d->n; }
static boolean pd_empty(j_compress_ptr c)
{
  plain_dst *d = (plain_dst *)c->dest;
  pd_put(d, d->buf, d->n);                 /* the ENTIRE buffer, ignoring next_output_byte / free_in_buffer */
  d->pub.next_output_byte = d->buf; d->pub.free_in_buffer = d->n;
  return TRUE;
}
static void pd_term(j_compress_ptr c) { plain_dst *d = (plain_dst *)c->dest; if (d->pub.free_in_buffer <= d->n) pd_put(d, d->buf, d->n - d->pub.free_in_buffer); }

/* mode: 0 baseline, 1 12-bit, 2 progressive, 3 progressive 12-bit, 4 lossless; +10 = arithmetic coding.  bufsize 0 = jpeg_mem_dest reference.
 * returns malloc'ed output; *bad: 1 = library wrote outside the buffer / inconsistent free_in_buffer */
static unsigned char *dst_once(int mode, int w, int h, int nc, int sub, int quality, int restart, uint64_t imgseed,
                               unsigned char *img, unsigned char *tmp, size_t bufsize, unsigned long *len, int *bad)
{
  struct jpeg_compress_struct c; struct my_err e; plain_dst pd; unsigned char *out = NULL; unsigned long outsize = 0;
  int proc = mode % 10, prec = (proc == 1 || proc == 3) ? 12 : proc == 4 ? quality : 8; size_t k;
  memset(&pd, 0, sizeof(pd)); *bad = 0;
  c.err = jpeg_std_error(&e.pub); e.pub.error_exit = my_exit; e.pub.emit_message = my_emit; e.pub.output_message = my_output;
  if (setjmp(e.jb)) { jpeg_destroy_compress(&c); free(out); free(pd.buf); free(pd.sink); *len = 0; *bad = 2; return NULL; }
  jpeg_create_compress(&c);
  if (bufsize == 0) jpeg_mem_dest(&c, &out, &outsize);
  else {
    pd.buf = (unsigned char *)malloc(bufsize + 32); memset(pd.buf, 0xA5, bufsize + 32); pd.n = bufsize;
    pd.pub.init_destination = pd_init; pd.pub.empty_output_buffer = pd_empty; pd.pub.term_destination = pd_term; c.dest = &pd.pub;
  }
  setup_compress(&c, proc, w, h, nc, sub, quality, restart, imgseed);
  if (mode >= 10) c.arith_code = TRUE;
  jpeg_start_compress(&c, TRUE);
  while (c.next_scanline < c.image_height) {
    int n = 1 + (int)(c.next_scanline % 4);
    if (c.next_scanline + n > c.image_height) n = (int)(c.image_height - c.next_scanline);
    write_rows(&c, img, w, nc, prec, c.next_scanline, n, tmp);
  }
  jpeg_finish_compress(&c);
  if (bufsize) {
    if (pd.pub.free_in_buffer > pd.n) *bad = 1;
    for (k = 0; k < 32; k++) if (pd.buf[bufsize + k] != 0xA5) *bad = 1;
  }
  jpeg_destroy_compress(&c);
  if (bufsize == 0) { *len = outsize; return out; }
  free(pd.buf); *len = (unsigned long)pd.len; return pd.sink;
}

/* single = 0: all sizes 1..maxsz plus the sizes that leave exactly 0 / 1 / 2 free bytes at some RSTn marker of the reference */
static void dst_case(int mode, int w, int h, int nc, int sub, int quality, int restart, uint64_t imgseed, long maxsz, long single)
{
  int proc = mode % 10, prec = (proc == 1 || proc == 3) ? 12 : proc == 4 ? quality : 8, bad = 0, i, ns = 0; long k;
  unsigned char *img = (unsigned char *)malloc((size_t)w * h * nc * 2 + 16), *tmp = (unsigned char *)malloc((size_t)w * nc * 8 + 16);
  unsigned char *ref, *got; unsigned long L = 0, gl = 0; static long sizes[8192]; long nmark = 0;
  make_image(img, w, h, nc, prec, imgseed);
  ref = dst_once(mode, w, h, nc, sub, quality, restart, imgseed, img, tmp, 0, &L, &bad);
  if (!ref) { printf("T err\n"); free(img); free(tmp); return; }
  if (single > 0) sizes[ns++] = single;
  else {
    for (k = 2; k <= maxsz && ns < 8000; k++) sizes[ns++] = k;     /* size 1 last: an overrun there may crash the process */
    for (k = 2; k + 1 < (long)L; k++) if (ref[k] == 0xFF && ref[k + 1] >= 0xD0 && ref[k + 1] <= 0xD7) {
      long d; nmark++;
      /* buffer size s leaves (s - m mod s) free bytes at marker offset m: free 1 <=> s | m+1, free 2 <=> s | m+2, full <=> s | m */
      for (d = 0; d <= 2 && ns < 8000; d++) { long m = k + d, s2; if (m > maxsz) sizes[ns++] = m; s2 = m / 2; if (m % 2 == 0 && s2 > maxsz && ns < 8000) sizes[ns++] = s2; }
    }
  }
  if (single <= 0 && ns < 8000) sizes[ns++] = 1;
  for (i = 0; i < ns; i++) {
    got = dst_once(mode, w, h, nc, sub, quality, restart, imgseed, img, tmp, (size_t)sizes[i], &gl, &bad);
    if (bad || !got || gl != L || memcmp(got, ref, L) != 0) {
      size_t d = 0; while (got && d < L && d < gl && got[d] == ref[d]) d++;
      printf("T %d bad size=%ld len=%lu/%lu firstdiff=%lu overrun=%d markers=%ld\n", i + 1, sizes[i], gl, L, (unsigned long)d, bad, nmark);
      free(got); free(ref); free(img); free(tmp); return;
    }
    free(got);
  }
  printf("T %d ok len=%lu markers=%ld hash=%016llx\n", ns, L, nmark, (unsigned long long)fnv(FNV0, ref, L));
  free(ref); free(img); free(tmp);
}

/* ------------------------------------------------------------------ main */
static int hexval(int ch) { return ch <= '9' ? ch - '0' : (ch | 32) - 'a' + 10; }

static void random_partition(long *sizes, int *n, size_t total, uint64_t seed)
{
  /* mixtures: tiny chunks, medium chunks, a few empty chunks, big jumps */
  uint64_t save = rs; size_t pos = 0; int k = 0; unsigned style;
  rs = seed; style = rb(5);
  while (pos < total && k < 60000) {
    long s;
    switch (style) {
    case 0: s = 1 + rb(3); break;
    case 1: s = rb(40); break;
    case 2: s = rb(8) == 0 ? (long)rb(2000) : (long)rb(6); break;
    case 3: s = 1 + rb(700); break;
    default: s = rb(10) == 0 ? 0 : (long)(1 + rb(1 + (unsigned)(total / 7))); break;
    }
    sizes[k++] = s; pos += (size_t)s;
  }
  *n = k; rs = save;
}

int main(void)
{
  size_t cap = 1 << 22; char *line = (char *)malloc(cap); long *sizes = (long *)malloc(sizeof(long) * 70000);
  setvbuf(stdout, NULL, _IOLBF, 0);
  while (fgets(line, (int)cap, stdin)) {
    char cmd[16]; int off = 0;
    if (sscanf(line, "%15s%n", cmd, &off) != 1) { printf("?\n"); continue; }
    if (!strcmp(cmd, "gen")) {
      int id, proc, w, h, nc, sub, q, rst, jm, nm, i, o2; unsigned long long seed; int mcode[16]; long mlen[16]; char *p = line + off; size_t n, k;
      sscanf(p, "%d %d %d %d %d %d %d %d %llu %d %d%n", &id, &proc, &w, &h, &nc, &sub, &q, &rst, &seed, &jm, &nm, &o2); p += o2;
      for (i = 0; i < nm && i < 16; i++) { sscanf(p, "%i %ld%n", &mcode[i], &mlen[i], &o2); p += o2; }
      n = generate(id, proc, w, h, nc, sub, q, rst, seed, jm, nm, mcode, mlen);
      printf("gen %d %lu ", id, (unsigned long)n);
      for (k = 0; k < n; k++) printf("%02x", S[id][k]);
      printf("\n");
    } else if (!strcmp(cmd, "load")) {
      int id, o2; char *p = line + off; size_t n = 0;
      sscanf(p, "%d%n", &id, &o2); p += o2; while (*p == ' ') p++;
      free(S[id]); S[id] = (unsigned char *)malloc(strlen(p) / 2 + 16);
      while (p[0] && p[1] && p[0] != '\n') { S[id][n++] = (unsigned char)(hexval(p[0]) * 16 + hexval(p[1])); p += 2; }
      SL[id] = n; printf("load %d %lu\n", id, (unsigned long)n);
    } else if (!strcmp(cmd, "hdr")) {
      int id, sv; sscanf(line + off, "%d %d", &id, &sv); print_hdr(id, sv);
    } else if (!strcmp(cmd, "coef")) {
      int id; sscanf(line + off, "%d", &id); print_coefs(id);
    } else if (!strcmp(cmd, "ref") || !strcmp(cmd, "stdio")) {
      int id, api, sv; digest d; sscanf(line + off, "%d %d %d", &id, &api, &sv);
      decode(id, api, sv, cmd[0] == 'r' ? 0 : 1, NULL, &d); digest_print("D", &d); printf("\n");
    } else if (!strcmp(cmd, "part")) {
      int id, api, sv, n, i, o2; unsigned long long bs; char *p = line + off; digest d; partition pt;
      sscanf(p, "%d %d %d %llu %d%n", &id, &api, &sv, &bs, &n, &o2); p += o2;
      for (i = 0; i < n; i++) { sscanf(p, "%ld%n", &sizes[i], &o2); p += o2; }
      pt.sizes = sizes; pt.n = n; pt.next = 0; pt.tail = 0;
      decode(id, api, sv, 2, &pt, &d); digest_print("D", &d); printf("\n");
    } else if (!strcmp(cmd, "one")) {
      int id, api, sv; long cs; digest d; partition pt;
      sscanf(line + off, "%d %d %d %ld", &id, &api, &sv, &cs);
      pt.sizes = sizes; pt.n = 0; pt.next = 0; pt.tail = cs;
      decode(id, api, sv, 2, &pt, &d); digest_print("D", &d); printf("\n");
    } else if (!strcmp(cmd, "every")) {
      int id, api, sv; long lo, hi, k, cnt = 0; digest r, d; partition pt; int bad = 0;
      sscanf(line + off, "%d %d %d %ld %ld", &id, &api, &sv, &lo, &hi);
      decode(id, api, sv, 0, NULL, &r);
      if (hi > (long)SL[id]) hi = (long)SL[id];
      for (k = lo; k <= hi && !bad; k++) {
        sizes[0] = k; pt.sizes = sizes; pt.n = 1; pt.next = 0; pt.tail = 0;
        decode(id, api, sv, 2, &pt, &d); cnt++;
        if (!digest_eq(&r, &d)) { bad = 1; printf("E %ld bad %ld | ", cnt, k); digest_print("D", &r); printf(" | "); digest_print("D", &d); printf("\n"); }
      }
      if (!bad) { printf("E %ld ok | ", cnt); digest_print("D", &r); printf("\n"); }
    } else if (!strcmp(cmd, "rand")) {
      int id, api, sv, n, i; unsigned long long seed; long count, k; digest r, d; partition pt; int bad = 0;
      sscanf(line + off, "%d %d %d %llu %ld", &id, &api, &sv, &seed, &count);
      decode(id, api, sv, 0, NULL, &r);
      for (k = 0; k < count && !bad; k++) {
        random_partition(sizes, &n, SL[id], seed + (uint64_t)k);
        pt.sizes = sizes; pt.n = n; pt.next = 0; pt.tail = 0;
        decode(id, api, sv, 2, &pt, &d);
        if (!digest_eq(&r, &d)) {
          bad = 1; printf("R %ld bad %llu %d", k + 1, seed + (unsigned long long)k, n);
          for (i = 0; i < n; i++) printf(" %ld", sizes[i]);
          printf(" | "); digest_print("D", &r); printf(" | "); digest_print("D", &d); printf("\n");
        }
      }
      if (!bad) { printf("R %ld ok | ", count); digest_print("D", &r); printf("\n"); }
    } else if (!strcmp(cmd, "encs")) {
      /* suspending destination, EVERY buffer size 2..maxsz (then 1), `reps` refusal schedules each */
      int w, h, nc, sub, q, rst, reps, r2, bad = 0; unsigned long long iseed, seed; long maxsz, sz, cnt = 0;
      sscanf(line + off, "%d %d %d %d %d %d %llu %ld %d %llu", &w, &h, &nc, &sub, &q, &rst, &iseed, &maxsz, &reps, &seed);
      for (sz = 2; sz <= maxsz + 1 && !bad; sz++) {
        long bs = sz <= maxsz ? sz : 1;
        for (r2 = 0; r2 < reps && !bad; r2++) {
          unsigned long long sd = seed + (unsigned long long)bs * 1315423911ULL + (unsigned long long)r2;
          int res = encode_case(w, h, nc, sub, q, rst, iseed, (size_t)bs, sd, 1); cnt++;
          if (res != 1) { bad = 1; printf("CS %ld bad size=%ld seed=%llu res=%d\n", cnt, bs, sd, res); }
        }
      }
      if (!bad) printf("CS %ld ok\n", cnt);
    } else if (!strcmp(cmd, "dst")) {
      int mode, w, h, nc, sub, q, rst; unsigned long long iseed; long maxsz, single;
      sscanf(line + off, "%d %d %d %d %d %d %d %llu %ld %ld", &mode, &w, &h, &nc, &sub, &q, &rst, &iseed, &maxsz, &single);
      dst_case(mode, w, h, nc, sub, q, rst, iseed, maxsz, single);
    } else if (!strcmp(cmd, "memdst")) {
      int proc, w, h, nc, sub, q, rst; unsigned long long iseed, seed; long single;
      sscanf(line + off, "%d %d %d %d %d %d %d %llu %llu %ld", &proc, &w, &h, &nc, &sub, &q, &rst, &iseed, &seed, &single);
      memdst_case(proc, w, h, nc, sub, q, rst, iseed, seed, single);
    } else if (!strcmp(cmd, "enc")) {
      int w, h, nc, sub, q, rst; unsigned long long iseed, seed; unsigned long bs;
      sscanf(line + off, "%d %d %d %d %d %d %llu %lu %llu", &w, &h, &nc, &sub, &q, &rst, &iseed, &bs, &seed);
      encode_case(w, h, nc, sub, q, rst, iseed, bs, seed, 0);
    } else printf("?\n");
  }
  { int i; for (i = 0; i < MAXS; i++) free(S[i]); }
  free(line); free(sizes);
  return 0;
}
