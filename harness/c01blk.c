/* C01 block harness: runs the REAL decode_mcu_slow of the working tree (reached by
 * including jdhuff.c) on one 8x8 block.
 *   blk <dc bits1..16> | <dc vals> | <ac bits1..16> | <ac vals> | <hex entropy bytes (no FF)>
 * prints "blk c0 .. c63" (the coefficient block, natural order).  The block lives in an
 * exact-size heap allocation, so a store outside it is an ASan report; the entropy
 * bytes are followed by the memory source's fake EOI, i.e. by zero bits.
 */
#include <stdio.h>
#include <stdlib.h>
#include <string.h>
#include <setjmp.h>
#include "jdhuff.c"

static jmp_buf jb;
static void my_exit(j_common_ptr c) { longjmp(jb, 1); }
static void my_emit(j_common_ptr c, int lvl) { if (lvl < 0) c->err->num_warnings++; }

static char line[1 << 18];

static char *parse_tbl(char *p, JHUFF_TBL *t)
{
  int i, n = 0;
  memset(t, 0, sizeof(*t));
  for (i = 1; i <= 16; i++) t->bits[i] = (UINT8)strtol(p, &p, 10);
  while (*p == ' ') p++;
  if (*p == '|') p++;
  for (;;) {
    while (*p == ' ') p++;
    if (*p == '|' || *p == 0 || *p == '\n') break;
    { long v = strtol(p, &p, 10); if (n < 256) t->huffval[n++] = (UINT8)v; }
  }
  if (*p == '|') p++;
  return p;
}
static int hexv(int c) { return c >= '0' && c <= '9' ? c - '0' : c >= 'a' && c <= 'f' ? c - 'a' + 10 : -1; }

int main(void)
{
  setvbuf(stdout, NULL, _IOLBF, 0);
  while (fgets(line, sizeof(line), stdin)) {
    struct jpeg_decompress_struct c; struct jpeg_error_mgr e; JHUFF_TBL dct, act; jpeg_component_info comp;
    char *p = line + 3; unsigned char *data; size_t n = 0; JBLOCK *blk; JBLOCKROW rows[1]; int i, ok, fast = 0;
    if (!strncmp(line, "fblk", 4)) { fast = 1; p = line + 4; }
    else if (strncmp(line, "blk", 3)) { puts("?"); continue; }
    p = parse_tbl(p, &dct);
    p = parse_tbl(p, &act);
    while (*p == ' ') p++;
    data = (unsigned char *)malloc(strlen(p) / 2 + 1);
    while (hexv(p[0]) >= 0 && hexv(p[1]) >= 0) { data[n++] = (unsigned char)(hexv(p[0]) * 16 + hexv(p[1])); p += 2; }
    { unsigned char *d2 = (unsigned char *)malloc(n ? n : 1); memcpy(d2, data, n); free(data); data = d2; }
    memset(&c, 0, sizeof(c));
    c.err = jpeg_std_error(&e); e.error_exit = my_exit; e.emit_message = my_emit;
    blk = (JBLOCK *)malloc(sizeof(JBLOCK));
    if (setjmp(jb)) { puts("blk badtable"); jpeg_destroy_decompress(&c); free(data); free(blk); continue; }
    jpeg_create_decompress(&c);
    c.dc_huff_tbl_ptrs[0] = &dct; c.ac_huff_tbl_ptrs[0] = &act;
    memset(&comp, 0, sizeof(comp));
    comp.component_index = 0; comp.dc_tbl_no = 0; comp.ac_tbl_no = 0; comp.component_needed = TRUE;
    comp._DCT_scaled_size = DCTSIZE; comp.h_samp_factor = comp.v_samp_factor = 1;
    c.comp_info = &comp; c.num_components = 1; c.comps_in_scan = 1; c.cur_comp_info[0] = &comp;
    c.blocks_in_MCU = 1; c.MCU_membership[0] = 0; c.Ss = 0; c.Se = DCTSIZE2 - 1; c.Ah = c.Al = 0; c.restart_interval = 0;
    if (n) { jpeg_mem_src(&c, data, (unsigned long)n); }
    else { static unsigned char z[1] = { 0 }; jpeg_mem_src(&c, z, 1); c.src->bytes_in_buffer = 0; }
    jinit_huff_decoder(&c);
    (*c.entropy->start_pass) (&c);
    memset(blk, 0, sizeof(JBLOCK));
    rows[0] = blk;
    ok = (*c.entropy->decode_mcu) (&c, rows);
    if (!ok) puts(fast ? "fblk susp" : "blk susp");
    else if (fast) {
      /* the whole decode_mcu: fast path when >= BUFSIZE bytes are available; report where it stopped */
      huff_entropy_ptr ent = (huff_entropy_ptr)c.entropy;
      printf("fblk"); for (i = 0; i < DCTSIZE2; i++) printf(" %d", (int)(*blk)[i]);
      if (c.unread_marker == 0 && !ent->pub.insufficient_data)
        printf(" pos=%ld bits=%d", (long)(c.src->next_input_byte - data), ent->bitstate.bits_left);
      else printf(" slow");
      printf("\n");
    }
    else { printf("blk"); for (i = 0; i < DCTSIZE2; i++) printf(" %d", (int)(*blk)[i]); printf("\n"); }
    /* the tables are on our stack: do not let jpeg_destroy look at them */
    c.dc_huff_tbl_ptrs[0] = c.ac_huff_tbl_ptrs[0] = NULL; c.comp_info = NULL;
    jpeg_destroy_decompress(&c); free(data); free(blk);
  }
  return 0;
}
