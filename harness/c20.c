/* C20 harness: runs the REAL planar-YUV size functions and unified-buffer / per-plane
 * functions of the working tree.  One result line per input line.
 *
 * size-function lines (same protocol as ml/C20_driver.ml):
 *   pw c w s | ph c h s | bs w a h s | ps c w stride h s
 *   pwr c s lo hi | phr c s lo hi | bsr s a h wlo whi | psr s c stride h wlo whi
 *   sc dim num denom | tbl | gs yh yv bh bv rh rv
 * behavioural lines (property-level oracles, results judged by checks/C20.py):
 *   layenc w a h s  o0 s0 pw0 ph0  o1 s1 pw1 ph1  o2 s2 pw2 ph2  total
 *        tj3EncodeYUV8 of a solid colour into a canary-filled buffer; every byte must be
 *        either a plane sample at the expected place or an untouched canary.
 *   errs fn w a h s     unified function fn (0 CompressFromYUV8, 1 EncodeYUV8, 3 DecodeYUV8) with
 *        out-of-range geometry: must fail cleanly (prints rc).
 *   rawfp w h s sfi   rows/columns each jpeg_read_raw_data call writes (also ml/C20_driver.ml, from generated library facts)
 *   fp enc|dtp stridesNULL st0 st1 st2 w h s sfi   written-byte footprint of a per-plane function (also ml/C20_driver.ml)
 *   seq seed a n (w h s q sfi hdr) x n   legacy (TurboJPEG 2.x) entry points on reused handles, see do_seq
 *   cmp seed w h s q sfi a pf ex0 ex1 ex2 flags [fam script]
 *        composition clauses on a random JPEG (see do_compose).  Without fam: source = tj3Compress8 output.
 *        With fam/script: source built through the libjpeg API with the sampling factors FAM[fam] (standard,
 *        non-standard but denoting level s by ratio, or denoting no level) and scan script `script`
 *        (0 sequential, 1 DC only, 2 DC only Al=1, 3 DC + coarse Y AC, 4 partial bands per component,
 *        5 all sent but final Al=1, 6 random incomplete script with refinements, 7 jpeg_simple_progression).
 */
#include <stdio.h>
#include <stdlib.h>
#include <string.h>
#include <limits.h>
#include <setjmp.h>
#include "turbojpeg.h"
#include "jpeglib.h"

#define GUARD 64
#define PADV(v, p) (((v) + (p) - 1) / (p) * (p))

static char line[1 << 16];
static unsigned long long rs;
static unsigned long long rnd(void)
{
  unsigned long long z;
  rs += 0x9E3779B97F4A7C15ULL; z = rs;
  z = (z ^ (z >> 30)) * 0xBF58476D1CE4E5B9ULL; z = (z ^ (z >> 27)) * 0x94D049BB133111EBULL;
  return z ^ (z >> 31);
}
static unsigned char canary(size_t pos) { return (unsigned char)(0xA0 + (pos % 13)); }

/* a buffer with GUARD canary bytes on both sides and canary fill inside */
typedef struct { unsigned char *base, *p; size_t n; } cbuf;
static cbuf cb_new(size_t n)
{
  cbuf b; size_t i;
  b.n = n; b.base = (unsigned char *)malloc(n + 2 * GUARD);
  if (!b.base) { fprintf(stderr, "oom\n"); exit(3); }
  b.p = b.base + GUARD;
  for (i = 0; i < n + 2 * GUARD; i++) b.base[i] = canary(i);
  return b;
}
static int cb_guards_ok(cbuf *b)
{
  size_t i;
  for (i = 0; i < GUARD; i++) if (b->base[i] != canary(i)) return 0;
  for (i = GUARD + b->n; i < b->n + 2 * GUARD; i++) if (b->base[i] != canary(i)) return 0;
  return 1;
}
/* is byte at offset off (relative to p) still the canary? */
static int cb_untouched(cbuf *b, size_t off) { return b->p[off] == canary(off + GUARD); }
static void cb_free(cbuf *b) { free(b->base); b->base = b->p = NULL; }

/* ---------------------------------------------------------------- raw-data reference decode */
struct my_err { struct jpeg_error_mgr pub; jmp_buf jb; };
static void my_exit(j_common_ptr c) { longjmp(((struct my_err *)c->err)->jb, 1); }
static void my_emit(j_common_ptr c, int lvl) { (void)c; (void)lvl; }

typedef struct { int nc; int w[3], h[3], dh[3]; unsigned char *d[3]; int outw, outh; int dss[3], minss; } rawimg;
/* w,h: allocated extent; dh: rows libjpeg really produces (height_in_blocks * scaled block size): the last iMCU row
   holds only last_row_height block rows, the rows below them are never written */
static void raw_free(rawimg *r) { int i; for (i = 0; i < 3; i++) { free(r->d[i]); r->d[i] = NULL; } }

#if JPEG_LIB_VERSION >= 70
#define DSS(c) ((c)->DCT_h_scaled_size)
#define MINDSS(ci) ((ci)->min_DCT_h_scaled_size)
#else
#define DSS(c) ((c)->DCT_scaled_size)
#define MINDSS(ci) ((ci)->min_DCT_scaled_size)
#endif

static int raw_decode(const unsigned char *jpg, size_t n, int num, int denom, int fastdct, rawimg *out)
{
  struct jpeg_decompress_struct d; struct my_err e; int i, k;
  JSAMPROW *rows[3] = { NULL, NULL, NULL }; JSAMPARRAY data[3];
  memset(out, 0, sizeof(*out));
  d.err = jpeg_std_error(&e.pub); e.pub.error_exit = my_exit; e.pub.emit_message = my_emit;
  if (setjmp(e.jb)) { jpeg_destroy_decompress(&d); for (i = 0; i < 3; i++) free(rows[i]); raw_free(out); return -1; }
  jpeg_create_decompress(&d);
  jpeg_mem_src(&d, (unsigned char *)jpg, (unsigned long)n);
  jpeg_read_header(&d, TRUE);
  d.scale_num = num; d.scale_denom = denom; d.raw_data_out = TRUE;
  d.dct_method = fastdct ? JDCT_FASTEST : JDCT_ISLOW; d.do_fancy_upsampling = FALSE;
  jpeg_start_decompress(&d);
  out->nc = d.num_components; out->outw = d.output_width; out->outh = d.output_height; out->minss = MINDSS(&d);
  for (i = 0; i < d.num_components && i < 3; i++) {
    jpeg_component_info *c = &d.comp_info[i];
    int rh = c->v_samp_factor * DSS(c);
    out->dss[i] = DSS(c);
    out->w[i] = c->width_in_blocks * DSS(c);
    out->h[i] = rh * d.total_iMCU_rows;
    out->dh[i] = c->height_in_blocks * DSS(c);
    out->d[i] = (unsigned char *)calloc((size_t)out->w[i] * out->h[i] + 1, 1);
    rows[i] = (JSAMPROW *)malloc(sizeof(JSAMPROW) * out->h[i]);
    for (k = 0; k < out->h[i]; k++) rows[i][k] = out->d[i] + (size_t)k * out->w[i];
  }
  k = 0;
  while (d.output_scanline < d.output_height) {
    for (i = 0; i < d.num_components && i < 3; i++)
      data[i] = rows[i] + (size_t)k * d.comp_info[i].v_samp_factor * DSS(&d.comp_info[i]);
    jpeg_read_raw_data(&d, data, d.max_v_samp_factor * MINDSS(&d));
    k++;
  }
  jpeg_finish_decompress(&d);
  jpeg_destroy_decompress(&d);
  for (i = 0; i < 3; i++) free(rows[i]);
  return 0;
}


/* ---------------------------------------------------------------- sources built through the libjpeg API */
/* sampling-factor families: TJSAMP level they denote by ratio (-1: not recognised by the TurboJPEG API), Y hxv, Cb hxv, Cr hxv */
static const struct { int level, yh, yv, bh, bv, rh, rv; } FAM[] = {
  { TJSAMP_444, 1, 1, 1, 1, 1, 1 }, { TJSAMP_422, 2, 1, 1, 1, 1, 1 }, { TJSAMP_420, 2, 2, 1, 1, 1, 1 }, { TJSAMP_GRAY, 1, 1, 0, 0, 0, 0 },
  { TJSAMP_440, 1, 2, 1, 1, 1, 1 }, { TJSAMP_411, 4, 1, 1, 1, 1, 1 }, { TJSAMP_441, 1, 4, 1, 1, 1, 1 },
  { TJSAMP_422, 2, 2, 1, 2, 1, 2 },   /* 7: 4:2:2 written as 2x2,1x2,1x2 */
  { TJSAMP_440, 2, 2, 2, 1, 2, 1 },   /* 8: 4:4:0 written as 2x2,2x1,2x1 */
  { TJSAMP_444, 2, 1, 2, 1, 2, 1 }, { TJSAMP_444, 1, 2, 1, 2, 1, 2 }, { TJSAMP_444, 3, 1, 3, 1, 3, 1 }, { TJSAMP_444, 1, 3, 1, 3, 1, 3 },
  { -1, 4, 2, 1, 2, 1, 2 },           /* 13: 4:1:1 ratio, not recognised */
  { -1, 4, 2, 2, 1, 2, 1 },           /* 14: 4:2:0 ratio, not recognised */
  { -1, 2, 2, 2, 2, 2, 2 },           /* 15: 4:4:4 ratio with 4 blocks per component, not recognised */
  { -1, 2, 1, 1, 1, 2, 1 },           /* 16: Cb and Cr differ */
  { -1, 2, 2, 1, 2, 1, 1 }            /* 17 */
};
#define NFAM ((int)(sizeof(FAM) / sizeof(FAM[0])))
static jpeg_scan_info g_scans[64]; static int g_nscans = 0;   /* scan script of the current custom source (0: sequential) */

static void add_scan(int ncomp, int c0, int Ss, int Se, int Ah, int Al)
{
  jpeg_scan_info *sc = &g_scans[g_nscans++]; int k;
  memset(sc, 0, sizeof(*sc));
  sc->comps_in_scan = ncomp;
  for (k = 0; k < ncomp; k++) sc->component_index[k] = c0 + k;
  sc->Ss = Ss; sc->Se = Se; sc->Ah = Ah; sc->Al = Al;
}
/* progressive scan scripts; most of them leave coefficients unsent or at reduced precision */
static void make_script(int script, int nc, int interleave_ok)
{
  int c, dcal;
  g_nscans = 0;
  if (script == 0) {                                         /* sequential; one scan per component when an MCU would be too big */
    if (!interleave_ok) for (c = 0; c < nc; c++) add_scan(1, c, 0, 63, 0, 0);
    return;
  }
  dcal = (script == 2 || script == 5) ? 1 : (script == 6 ? (int)(rnd() % 3) : 0);
  if (interleave_ok && !(script == 6 && (rnd() & 1))) add_scan(nc, 0, 0, 0, 0, dcal);
  else for (c = 0; c < nc; c++) add_scan(1, c, 0, 0, 0, dcal);
  switch (script) {
  case 1: case 2: break;                                     /* DC only (2: never refined, final Al = 1) */
  case 3: add_scan(1, 0, 1, 63, 0, 2); break;                /* coarse Y AC, no chroma AC */
  case 4: add_scan(1, 0, 1, 5, 0, 0); if (nc > 1) add_scan(1, 1, 1, 2, 0, 1); break;   /* partial bands, per component */
  case 5:                                                    /* DC refined, every AC sent but final Al = 1 */
    if (interleave_ok) add_scan(nc, 0, 0, 0, 1, 0); else for (c = 0; c < nc; c++) add_scan(1, c, 0, 0, 1, 0);
    for (c = 0; c < nc; c++) add_scan(1, c, 1, 63, 0, 1);
    break;
  case 6:                                                    /* random */
    if (dcal > 0 && (rnd() & 1)) {
      int a;
      for (a = dcal; a > 0; a--) { if (interleave_ok) add_scan(nc, 0, 0, 0, a, a - 1); else for (c = 0; c < nc; c++) add_scan(1, c, 0, 0, a, a - 1); if (rnd() % 3 == 0) break; }
    }
    for (c = 0; c < nc; c++) {
      int ss = 1;
      while (ss <= 63 && g_nscans < 50) {
        int se = ss + (int)(rnd() % 12), al = (int)(rnd() % 3), send = (rnd() % 4) != 0;
        if (se > 63 || rnd() % 5 == 0) se = 63;
        if (send) { add_scan(1, c, ss, se, 0, al); if (al > 0 && (rnd() & 1)) add_scan(1, c, ss, se, al, al - 1); }
        ss = se + 1;
        if (rnd() % 4 == 0) break;                           /* the rest of this component is never sent */
      }
    }
    break;
  default: break;
  }
}

static int build_custom(const unsigned char *rgb, int w, int h, int fam, int script, int q, unsigned char **jpegBuf, size_t *jpegSize)
{
  struct jpeg_compress_struct c; struct my_err e; unsigned long len = 0; int y, nc = FAM[fam].level == TJSAMP_GRAY ? 1 : 3, blocks;
  *jpegBuf = NULL;
  c.err = jpeg_std_error(&e.pub); e.pub.error_exit = my_exit; e.pub.emit_message = my_emit;
  jpeg_create_compress(&c);
  if (setjmp(e.jb)) { jpeg_destroy_compress(&c); free(*jpegBuf); *jpegBuf = NULL; return -1; }
  jpeg_mem_dest(&c, jpegBuf, &len);
  c.image_width = w; c.image_height = h; c.input_components = 3; c.in_color_space = JCS_RGB;
  jpeg_set_defaults(&c);
  jpeg_set_colorspace(&c, nc == 1 ? JCS_GRAYSCALE : JCS_YCbCr);
  jpeg_set_quality(&c, q, TRUE);
  c.comp_info[0].h_samp_factor = FAM[fam].yh; c.comp_info[0].v_samp_factor = FAM[fam].yv;
  if (nc == 3) {
    c.comp_info[1].h_samp_factor = FAM[fam].bh; c.comp_info[1].v_samp_factor = FAM[fam].bv;
    c.comp_info[2].h_samp_factor = FAM[fam].rh; c.comp_info[2].v_samp_factor = FAM[fam].rv;
  }
  blocks = FAM[fam].yh * FAM[fam].yv + (nc == 3 ? FAM[fam].bh * FAM[fam].bv + FAM[fam].rh * FAM[fam].rv : 0);
  if (script == 7 && blocks > C_MAX_BLOCKS_IN_MCU) script = 5;
  if (script == 7) { jpeg_simple_progression(&c); g_nscans = 0; }
  else {
    make_script(script, nc, blocks <= C_MAX_BLOCKS_IN_MCU);
    if (g_nscans) { c.scan_info = g_scans; c.num_scans = g_nscans; }
  }
  jpeg_start_compress(&c, TRUE);
  for (y = 0; y < h; y++) { JSAMPROW r = (JSAMPROW)(rgb + (size_t)y * w * 3); jpeg_write_scanlines(&c, &r, 1); }
  jpeg_finish_compress(&c);
  jpeg_destroy_compress(&c);
  *jpegSize = len;
  return 0;
}

/* component ci of a JPEG re-wrapped, coefficient for coefficient, as a single-component
 * (grayscale) JPEG: an independent reference for "this component alone, scaled by the IDCT". */
static int extract_component(const unsigned char *jpg, size_t n, int ci, unsigned char **outbuf, unsigned long *outlen)
{
  struct jpeg_decompress_struct s; struct jpeg_compress_struct c; struct my_err es;
  jvirt_barray_ptr *coefs; JQUANT_TBL *q;
  *outbuf = NULL; *outlen = 0;
  s.err = jpeg_std_error(&es.pub); es.pub.error_exit = my_exit; es.pub.emit_message = my_emit;
  c.err = &es.pub;
  jpeg_create_decompress(&s); jpeg_create_compress(&c);
  if (setjmp(es.jb)) { jpeg_destroy_compress(&c); jpeg_destroy_decompress(&s); free(*outbuf); *outbuf = NULL; return -1; }
  jpeg_mem_src(&s, (unsigned char *)jpg, (unsigned long)n);
  jpeg_read_header(&s, TRUE);
  coefs = jpeg_read_coefficients(&s);
  jpeg_mem_dest(&c, outbuf, outlen);
  c.image_width = (JDIMENSION)(((long)s.image_width * s.comp_info[ci].h_samp_factor + s.max_h_samp_factor - 1) / s.max_h_samp_factor);
  c.image_height = (JDIMENSION)(((long)s.image_height * s.comp_info[ci].v_samp_factor + s.max_v_samp_factor - 1) / s.max_v_samp_factor);
  c.input_components = 1; c.in_color_space = JCS_GRAYSCALE;
  jpeg_set_defaults(&c);
  q = s.quant_tbl_ptrs[s.comp_info[ci].quant_tbl_no];
  if (!c.quant_tbl_ptrs[0]) c.quant_tbl_ptrs[0] = jpeg_alloc_quant_table((j_common_ptr)&c);
  memcpy(c.quant_tbl_ptrs[0]->quantval, q->quantval, sizeof(q->quantval));
  c.quant_tbl_ptrs[0]->sent_table = FALSE;
  c.comp_info[0].quant_tbl_no = 0;
  c.optimize_coding = TRUE;
  if (g_nscans) {
    /* keep this component's share of the source's scan script: the same coefficients stay unsent / coarse, so the
       decoder takes the same block-smoothing decisions as for the original */
    static jpeg_scan_info proj[64]; int k, j, np = 0;
    for (k = 0; k < g_nscans; k++)
      for (j = 0; j < g_scans[k].comps_in_scan; j++)
        if (g_scans[k].component_index[j] == ci) {
          proj[np] = g_scans[k]; proj[np].comps_in_scan = 1; proj[np].component_index[0] = 0; np++;
        }
    c.scan_info = proj; c.num_scans = np;
  }
  jpeg_write_coefficients(&c, &coefs[ci]);
  jpeg_finish_compress(&c);
  jpeg_destroy_compress(&c);
  jpeg_finish_decompress(&s);
  jpeg_destroy_decompress(&s);
  return 0;
}

/* ---------------------------------------------------------------- compose */
static void gen_image(unsigned char *rgb, int w, int h, int ps, int pitch, int kind)
{
  int x, y, c;
  int bx = 1 + (int)(rnd() % 12), by = 1 + (int)(rnd() % 12), amp = (int)(rnd() % 80);
  unsigned char base[4][3]; int k;
  for (k = 0; k < 4; k++) for (c = 0; c < 3; c++) base[k][c] = (unsigned char)rnd();
  for (y = 0; y < h; y++)
    for (x = 0; x < w; x++)
      for (c = 0; c < ps; c++) {
        int v;
        if (kind == 0) v = (int)(rnd() & 255);                                   /* noise */
        else if (kind == 1) v = base[((x / bx) + (y / by)) & 3][c % 3];           /* blocks */
        else v = (x * 255 / (w > 1 ? w - 1 : 1) * (c + 1) / 3 + y * 3 + base[0][c % 3]) & 255;  /* gradient */
        if (kind != 0 && amp) v += (int)(rnd() % (amp + 1)) - amp / 2;
        rgb[(size_t)y * pitch + x * ps + c] = (unsigned char)(v < 0 ? 0 : v > 255 ? 255 : v);
      }
}

#define FAILF(...) do { if (!failed) { failed = 1; snprintf(why, sizeof(why), __VA_ARGS__); } } while (0)

static void do_compose(char *p)
{
  unsigned long long seed; int w, h, s, q, sfi, a, pf, ex[3], flags, fam = -1, script = 0, nargs;
  int failed = 0; char why[512] = ""; char info[512] = "";
  tjhandle hc = NULL, hd = NULL, hd2 = NULL; unsigned char *jpg = NULL; size_t jsz = 0;
  unsigned char *rgb = NULL; int nsf = 0; tjscalingfactor *sfs, sf;
  int i, r, c, nc, sw, sh, pw[3], ph[3], st[3], uoff[3], ust[3], pst[3], dw[3], dh[3];
  size_t usz, psz[3];
  cbuf U = { 0 }, P[3] = { { 0 }, { 0 }, { 0 } }, D1 = { 0 }, D2 = { 0 }, D3 = { 0 }, E = { 0 }, EP[3] = { { 0 }, { 0 }, { 0 } };
  unsigned char *planes[3]; const unsigned char *cplanes[3]; int strides[3];
  rawimg raw; int fastdct, fastups, prog, kind, psz_px, pitch;
  unsigned char *j1 = NULL, *j2 = NULL; size_t n1 = 0, n2 = 0;
  int decode_cmp = 0, raw_chroma_via_gray = 0;

  memset(&raw, 0, sizeof(raw));
  nargs = sscanf(p, "%llu %d %d %d %d %d %d %d %d %d %d %d %d %d", &seed, &w, &h, &s, &q, &sfi, &a, &pf, &ex[0], &ex[1], &ex[2], &flags, &fam, &script);
  if (nargs != 12 && nargs != 14) { printf("cmp badline\n"); return; }
  if (nargs == 12) fam = -1;
  if (fam >= NFAM) { printf("cmp badfam\n"); return; }
  g_nscans = 0;
  rs = seed;
  prog = flags & 1; fastdct = (flags >> 1) & 1; fastups = (flags >> 2) & 1; kind = (flags >> 3) % 3;
  nc = (s == TJSAMP_GRAY) ? 1 : 3;
  sfs = tj3GetScalingFactors(&nsf);
  if (sfi < 0 || sfi >= nsf) { printf("cmp badsf\n"); return; }
  sf = sfs[sfi];

  /* ---- source JPEG ---- */
  rgb = (unsigned char *)malloc((size_t)w * h * 3);
  gen_image(rgb, w, h, 3, w * 3, kind);
  hc = tj3Init(TJINIT_COMPRESS); hd = tj3Init(TJINIT_DECOMPRESS); hd2 = tj3Init(TJINIT_DECOMPRESS);
  tj3Set(hc, TJPARAM_SUBSAMP, s); tj3Set(hc, TJPARAM_QUALITY, q); tj3Set(hc, TJPARAM_PROGRESSIVE, prog);
  if (fam < 0) {
    if (tj3Compress8(hc, rgb, w, 0, h, TJPF_RGB, &jpg, &jsz) < 0) { printf("cmp compress-failed %s\n", tj3GetErrorStr(hc)); goto done; }
  } else {
    if (build_custom(rgb, w, h, fam, script, q, &jpg, &jsz) < 0) { printf("cmp custom-source-failed fam=%d script=%d\n", fam, script); goto done; }
    if (FAM[fam].level < 0) {
      /* sampling factors that denote no TJSAMP level: the planar functions must refuse, touching nothing */
      cbuf X = cb_new(4096); size_t k; int rc1, rc2, bad = 0; unsigned char *pl[3]; int zs[3] = { 0, 0, 0 };
      tj3DecompressHeader(hd, jpg, jsz);
      pl[0] = X.p; pl[1] = X.p + 1024; pl[2] = X.p + 2048;
      rc1 = tj3DecompressToYUV8(hd, jpg, jsz, X.p, a);
      rc2 = tj3DecompressToYUVPlanes8(hd, jpg, jsz, pl, zs);
      for (k = 0; k < 4096; k++) if (!cb_untouched(&X, k)) bad = 1;
      if (tj3Get(hd, TJPARAM_SUBSAMP) != TJSAMP_UNKNOWN) printf("cmp FAIL unmapped sampling factors reported as level %d ; fam=%d\n", tj3Get(hd, TJPARAM_SUBSAMP), fam);
      else if (rc1 != -1 || rc2 != -1 || bad || !cb_guards_ok(&X)) printf("cmp FAIL unmapped sampling factors not refused cleanly: rc=%d,%d written=%d ; fam=%d\n", rc1, rc2, bad, fam);
      else printf("cmp ok unmapped fam=%d\n", fam);
      cb_free(&X);
      goto done;
    }
  }

  /* ---- geometry from the API ---- */
  if (tj3DecompressHeader(hd, jpg, jsz) < 0) { FAILF("header: %s", tj3GetErrorStr(hd)); goto report; }
  if (tj3Get(hd, TJPARAM_SUBSAMP) != s) { FAILF("subsamp read back %d != %d", tj3Get(hd, TJPARAM_SUBSAMP), s); goto report; }
  tj3SetScalingFactor(hd, sf); tj3Set(hd, TJPARAM_FASTDCT, fastdct); tj3Set(hd, TJPARAM_FASTUPSAMPLE, fastups);
  sw = TJSCALED(w, sf); sh = TJSCALED(h, sf);
  usz = tj3YUVBufSize(sw, a, sh, s);
  for (i = 0; i < 3; i++) {
    pw[i] = tj3YUVPlaneWidth(i, sw, s); ph[i] = tj3YUVPlaneHeight(i, sh, s);
    ust[i] = i < nc ? PADV(pw[i], a) : 0;
    pst[i] = i < nc ? (ex[i] < 0 ? pw[i] : pw[i] + ex[i]) : 0;
    strides[i] = i < nc ? (ex[i] < 0 ? 0 : pst[i]) : 0;
    psz[i] = i < nc ? tj3YUVPlaneSize(i, sw, strides[i], sh, s) : 0;
  }
  uoff[0] = 0; uoff[1] = ust[0] * ph[0]; uoff[2] = uoff[1] + ust[1] * ph[1];
  snprintf(info, sizeof(info), "sw=%d sh=%d usz=%zu pw=%d,%d,%d ph=%d,%d,%d psz=%zu,%zu,%zu", sw, sh, usz,
           pw[0], pw[1], pw[2], ph[0], ph[1], ph[2], psz[0], psz[1], psz[2]);
  if (usz == 0) { FAILF("tj3YUVBufSize returned 0"); goto report; }
  for (i = 0; i < nc; i++)
    if (psz[i] != (size_t)pst[i] * (ph[i] - 1) + pw[i]) FAILF("tj3YUVPlaneSize(%d)=%zu != stride*(ph-1)+pw", i, psz[i]);
  if (failed) goto report;

  /* reference raw decode first: it also tells which rows/columns of a plane libjpeg defines (dw x dh);
     the remaining padding rows/columns of a plane are copied from a scratch buffer and are unspecified */
  if (raw_decode(jpg, jsz, sf.num, sf.denom, fastdct, &raw) < 0) { FAILF("reference raw decode failed"); goto report; }
  if (raw.outw != sw || raw.outh != sh) { FAILF("TJSCALED dims %dx%d != libjpeg output dims %dx%d", sw, sh, raw.outw, raw.outh); goto report; }
  for (i = 0; i < nc; i++) {
    /* when libjpeg upsamples a component in the IDCT its raw extent is larger; the planar extent is in min-size units */
    int bw = raw.w[i] / raw.dss[i] * raw.minss, bh = raw.dh[i] / raw.dss[i] * raw.minss;
    dw[i] = pw[i] < bw ? pw[i] : bw; dh[i] = ph[i] < bh ? ph[i] : bh;
  }
  if (dw[0] < sw || dh[0] < sh) { FAILF("defined luma region %dx%d smaller than the image %dx%d", dw[0], dh[0], sw, sh); goto report; }

  /* ---- clause A: tj3DecompressToYUV8 == tj3DecompressToYUVPlanes8 at the documented offsets ---- */
  U = cb_new(usz);
  if (tj3DecompressToYUV8(hd, jpg, jsz, U.p, a) < 0) { FAILF("tj3DecompressToYUV8: %s", tj3GetErrorStr(hd)); goto report; }
  if (!cb_guards_ok(&U)) FAILF("tj3DecompressToYUV8 wrote outside the tj3YUVBufSize buffer");
  for (i = 0; i < 3; i++) {
    P[i] = cb_new(i < nc ? psz[i] : 1);
    planes[i] = i < nc ? P[i].p : NULL;
  }
  if (tj3DecompressToYUVPlanes8(hd, jpg, jsz, planes, strides) < 0) { FAILF("tj3DecompressToYUVPlanes8: %s", tj3GetErrorStr(hd)); goto report; }
  for (i = 0; i < nc && !failed; i++) {
    if (!cb_guards_ok(&P[i])) FAILF("tj3DecompressToYUVPlanes8 wrote outside plane %d of tj3YUVPlaneSize bytes", i);
    for (r = 0; r < ph[i] && !failed; r++) {
      for (c = 0; c < dw[i] && r < dh[i]; c++)
        if (P[i].p[(size_t)r * pst[i] + c] != U.p[(size_t)uoff[i] + (size_t)r * ust[i] + c]) {
          FAILF("unified != planes: plane %d row %d col %d: %d vs %d", i, r, c, U.p[(size_t)uoff[i] + (size_t)r * ust[i] + c], P[i].p[(size_t)r * pst[i] + c]); break;
        }
      for (c = pw[i]; c < ust[i] && !failed; c++)
        if (!cb_untouched(&U, (size_t)uoff[i] + (size_t)r * ust[i] + c)) FAILF("unified buffer: alignment padding of plane %d row %d col %d was written", i, r, c);
      for (c = pw[i]; c < pst[i] && r < ph[i] - 1 && !failed; c++)
        if (!cb_untouched(&P[i], (size_t)r * pst[i] + c)) FAILF("plane %d: stride padding row %d col %d was written", i, r, c);
    }
  }
  if ((size_t)uoff[nc - 1] + (size_t)ust[nc - 1] * ph[nc - 1] != usz) FAILF("offsets+sizes do not add up to tj3YUVBufSize");
  if (failed) goto report;

  /* ---- clause B: planes == jpeg_read_raw_data of the same JPEG, cropped to the plane size ---- */
  for (i = 0; i < nc && !failed; i++) {
    rawimg g; rawimg *ref = &raw; int ri = i, cw, chh;
    memset(&g, 0, sizeof(g));
    if (raw.dss[i] != raw.minss) {
      /* libjpeg upsamples this component inside the IDCT (4:2:0 + downscaling); the planar output keeps it
         subsampled.  Reference: the component alone, as a grayscale JPEG, decoded at the same scale. */
      unsigned char *gj = NULL; unsigned long gl = 0;
      raw_chroma_via_gray = 1;
      if (extract_component(jpg, jsz, i, &gj, &gl) < 0 || raw_decode(gj, gl, sf.num, sf.denom, fastdct, &g) < 0) {
        free(gj); FAILF("component-extraction reference failed for plane %d", i); break;
      }
      free(gj); ref = &g; ri = 0;
    }
    cw = dw[i] < ref->w[ri] ? dw[i] : ref->w[ri]; chh = dh[i] < ref->dh[ri] ? dh[i] : ref->dh[ri];
    if (cw != dw[i] || chh != dh[i]) FAILF("reference for plane %d is %dx%d, smaller than the defined region %dx%d", i, ref->w[ri], ref->dh[ri], dw[i], dh[i]);
    for (r = 0; r < chh && !failed; r++)
      for (c = 0; c < cw; c++)
        if (P[i].p[(size_t)r * pst[i] + c] != ref->d[ri][(size_t)r * ref->w[ri] + c]) {
          FAILF("plane %d != raw data%s at row %d col %d: %d vs %d (plane %dx%d raw %dx%d)", i, ref == &g ? " (gray-extracted component)" : "",
                r, c, P[i].p[(size_t)r * pst[i] + c], ref->d[ri][(size_t)r * ref->w[ri] + c], pw[i], ph[i], ref->w[ri], ref->h[ri]); break;
        }
    raw_free(&g);
  }
  if (failed) goto report;

  /* ---- clause C: tj3DecodeYUV8(planes) == tj3DecodeYUVPlanes8 == tj3Decompress8 with fast upsampling ---- */
  psz_px = tjPixelSize[pf]; pitch = sw * psz_px + (int)(rnd() % 3) * 5;
  D1 = cb_new((size_t)pitch * sh); D2 = cb_new((size_t)pitch * sh); D3 = cb_new((size_t)pitch * sh);
  tj3Set(hd2, TJPARAM_SUBSAMP, s); tj3Set(hd2, TJPARAM_FASTDCT, fastdct);
  if (tj3DecodeYUV8(hd2, U.p, a, D1.p, sw, pitch, sh, pf) < 0) { FAILF("tj3DecodeYUV8: %s", tj3GetErrorStr(hd2)); goto report; }
  for (i = 0; i < 3; i++) cplanes[i] = planes[i];
  if (tj3DecodeYUVPlanes8(hd2, cplanes, strides, D3.p, sw, pitch, sh, pf) < 0) { FAILF("tj3DecodeYUVPlanes8: %s", tj3GetErrorStr(hd2)); goto report; }
  if (!cb_guards_ok(&D1) || !cb_guards_ok(&D3)) FAILF("tj3DecodeYUV*8 wrote outside the pixel buffer");
  for (r = 0; r < sh && !failed; r++) {
    if (memcmp(D1.p + (size_t)r * pitch, D3.p + (size_t)r * pitch, (size_t)sw * psz_px)) FAILF("tj3DecodeYUV8 != tj3DecodeYUVPlanes8 in row %d", r);
    for (c = sw * psz_px; c < pitch && r < sh - 1 && !failed; c++)
      if (!cb_untouched(&D1, (size_t)r * pitch + c)) FAILF("tj3DecodeYUV8 wrote pitch padding row %d", r);
  }
  /* the direct path upsamples a component inside the IDCT when libjpeg chooses so (raw_chroma_via_gray):
     then the two pipelines are different by design and the clause does not apply */
  decode_cmp = !raw_chroma_via_gray;
  if (decode_cmp && !failed) {
    tj3Set(hd, TJPARAM_FASTUPSAMPLE, 1);
    if (tj3Decompress8(hd, jpg, jsz, D2.p, pitch, pf) < 0) { FAILF("tj3Decompress8: %s", tj3GetErrorStr(hd)); goto report; }
    for (r = 0; r < sh && !failed; r++)
      for (c = 0; c < sw * psz_px; c++)
        if (D1.p[(size_t)r * pitch + c] != D2.p[(size_t)r * pitch + c]) {
          FAILF("tj3DecodeYUV8(planes) != tj3Decompress8(FASTUPSAMPLE) at row %d byte %d: %d vs %d", r, c, D1.p[(size_t)r * pitch + c], D2.p[(size_t)r * pitch + c]); break;
        }
  }
  if (failed) goto report;

  /* ---- clause D: tj3EncodeYUV8 == tj3EncodeYUVPlanes8; tj3CompressFromYUV8 == tj3CompressFromYUVPlanes8 ---- */
  {
    int epw[3], eph[3], eust[3], eoff[3], epst[3], estr[3]; size_t eusz = tj3YUVBufSize(w, a, h, s), epsz[3];
    unsigned char *eplanes[3]; const unsigned char *ceplanes[3];
    int spf = (pf == TJPF_GRAY || pf == TJPF_CMYK) ? TJPF_RGB : pf; int sps = tjPixelSize[spf], spitch = w * sps + (int)(rnd() % 3) * 3;
    unsigned char *src = (unsigned char *)malloc((size_t)spitch * h);
    gen_image(src, w, h, sps, spitch, kind);
    for (i = 0; i < 3; i++) {
      epw[i] = tj3YUVPlaneWidth(i, w, s); eph[i] = tj3YUVPlaneHeight(i, h, s);
      eust[i] = i < nc ? PADV(epw[i], a) : 0;
      epst[i] = i < nc ? (ex[i] < 0 ? epw[i] : epw[i] + ex[i]) : 0;
      estr[i] = i < nc ? (ex[i] < 0 ? 0 : epst[i]) : 0;
      epsz[i] = i < nc ? tj3YUVPlaneSize(i, w, estr[i], h, s) : 0;
    }
    eoff[0] = 0; eoff[1] = eust[0] * eph[0]; eoff[2] = eoff[1] + eust[1] * eph[1];
    E = cb_new(eusz);
    if (tj3EncodeYUV8(hc, src, w, spitch, h, spf, E.p, a) < 0) FAILF("tj3EncodeYUV8: %s", tj3GetErrorStr(hc));
    for (i = 0; i < 3; i++) { EP[i] = cb_new(i < nc ? epsz[i] : 1); eplanes[i] = i < nc ? EP[i].p : NULL; ceplanes[i] = eplanes[i]; }
    if (!failed && tj3EncodeYUVPlanes8(hc, src, w, spitch, h, spf, eplanes, estr) < 0) FAILF("tj3EncodeYUVPlanes8: %s", tj3GetErrorStr(hc));
    if (!failed && !cb_guards_ok(&E)) FAILF("tj3EncodeYUV8 wrote outside the tj3YUVBufSize buffer");
    for (i = 0; i < nc && !failed; i++) {
      if (!cb_guards_ok(&EP[i])) FAILF("tj3EncodeYUVPlanes8 wrote outside plane %d", i);
      for (r = 0; r < eph[i] && !failed; r++) {
        for (c = 0; c < epw[i]; c++)
          if (EP[i].p[(size_t)r * epst[i] + c] != E.p[(size_t)eoff[i] + (size_t)r * eust[i] + c]) { FAILF("encode: unified != planes: plane %d row %d col %d", i, r, c); break; }
        for (c = epw[i]; c < eust[i] && !failed; c++)
          if (!cb_untouched(&E, (size_t)eoff[i] + (size_t)r * eust[i] + c)) FAILF("encode: alignment padding of plane %d row %d col %d was written", i, r, c);
        for (c = epw[i]; c < epst[i] && r < eph[i] - 1 && !failed; c++)
          if (!cb_untouched(&EP[i], (size_t)r * epst[i] + c)) FAILF("encode: stride padding of plane %d row %d was written", i, r);
      }
    }
    if (!failed) {
      if (tj3CompressFromYUV8(hc, E.p, w, a, h, &j1, &n1) < 0) FAILF("tj3CompressFromYUV8: %s", tj3GetErrorStr(hc));
      else if (tj3CompressFromYUVPlanes8(hc, ceplanes, w, estr, h, &j2, &n2) < 0) FAILF("tj3CompressFromYUVPlanes8: %s", tj3GetErrorStr(hc));
      else if (n1 != n2 || memcmp(j1, j2, n1)) FAILF("tj3CompressFromYUV8 != tj3CompressFromYUVPlanes8 (%zu vs %zu bytes)", n1, n2);
    }
    free(src);
  }

report:
  if (failed) printf("cmp FAIL %s ; %s fastdct=%d prog=%d sf=%d/%d fam=%d script=%d\n", why, info, fastdct, prog, sf.num, sf.denom, fam, script);
  else printf("cmp ok %s dec=%d gray=%d\n", info, decode_cmp, raw_chroma_via_gray);
done:
  raw_free(&raw);
  cb_free(&U); cb_free(&D1); cb_free(&D2); cb_free(&D3); cb_free(&E);
  for (i = 0; i < 3; i++) { cb_free(&P[i]); cb_free(&EP[i]); }
  tj3Free(jpg); tj3Free(j1); tj3Free(j2); free(rgb);
  if (hc) tj3Destroy(hc); if (hd) tj3Destroy(hd); if (hd2) tj3Destroy(hd2);
}

/* ---------------------------------------------------------------- layenc */
static void do_layenc(char *p)
{
  int w, h, a, s, o[3], st[3], pw[3], ph[3], i, r, c, nc; long long total; size_t api, n, k;
  unsigned char *rgb; cbuf B; tjhandle hc; static unsigned char *mark; unsigned char val[3]; int bad = 0; char why[200] = "";
  if (sscanf(p, "%d %d %d %d %d %d %d %d %d %d %d %d %d %d %d %d %lld", &w, &a, &h, &s, &o[0], &st[0], &pw[0], &ph[0],
             &o[1], &st[1], &pw[1], &ph[1], &o[2], &st[2], &pw[2], &ph[2], &total) != 17) { printf("layenc badline\n"); return; }
  nc = s == TJSAMP_GRAY ? 1 : 3;
  api = tj3YUVBufSize(w, a, h, s);
  n = api > (size_t)total ? api : (size_t)total;
  B = cb_new(n);
  rgb = (unsigned char *)malloc((size_t)w * h * 3);
  for (k = 0; k < (size_t)w * h; k++) { rgb[3 * k] = 200; rgb[3 * k + 1] = 40; rgb[3 * k + 2] = 90; }
  hc = tj3Init(TJINIT_COMPRESS); tj3Set(hc, TJPARAM_SUBSAMP, s);
  if (tj3EncodeYUV8(hc, rgb, w, 0, h, TJPF_RGB, B.p, a) < 0) { printf("layenc error %s\n", tj3GetErrorStr(hc)); goto out; }
  /* Y, U, V of the solid colour: read them from where the expected layout says each plane starts */
  mark = (unsigned char *)calloc(n + 1, 1);
  for (i = 0; i < nc; i++) {
    val[i] = B.p[o[i]];
    for (r = 0; r < ph[i]; r++) for (c = 0; c < pw[i]; c++) {
      size_t off = (size_t)o[i] + (size_t)r * st[i] + c;
      if (off >= n) { bad = 1; snprintf(why, sizeof(why), "expected sample outside buffer"); goto rep; }
      mark[off] = 1;
      if (B.p[off] != val[i]) { bad = 1; snprintf(why, sizeof(why), "plane %d row %d col %d holds %d, expected constant %d", i, r, c, B.p[off], val[i]); goto rep; }
    }
  }
  if (nc == 3 && (val[0] == val[1] || val[1] == val[2] || val[0] == val[2])) { bad = 1; snprintf(why, sizeof(why), "planes not distinguishable"); }
  for (k = 0; k < n && !bad; k++)
    if (!mark[k] && !cb_untouched(&B, k)) { bad = 1; snprintf(why, sizeof(why), "byte %zu outside every expected plane was written", k); }
  if (!bad && !cb_guards_ok(&B)) { bad = 1; snprintf(why, sizeof(why), "guard bytes overwritten"); }
  if (!bad && api != (size_t)total) { bad = 1; snprintf(why, sizeof(why), "tj3YUVBufSize=%zu expected %lld", api, total); }
rep:
  if (bad) printf("layenc FAIL %s\n", why); else printf("layenc ok\n");
  free(mark);
out:
  free(rgb); cb_free(&B); tj3Destroy(hc);
}

/* unified functions on geometry they must reject: no crash, no sanitizer report, rc -1 */
static void do_errs(char *p)
{
  int fn, w, a, h, s, rc = 0; static unsigned char small[4096], out[4096]; tjhandle hh; unsigned char *jb = NULL; size_t js = 0;
  if (sscanf(p, "%d %d %d %d %d", &fn, &w, &a, &h, &s) != 5) { printf("errs badline\n"); return; }
  hh = tj3Init(fn == 3 ? TJINIT_DECOMPRESS : TJINIT_COMPRESS);
  if (s >= 0) tj3Set(hh, TJPARAM_SUBSAMP, s);
  tj3Set(hh, TJPARAM_QUALITY, 75);
  if (fn == 0) rc = tj3CompressFromYUV8(hh, small, w, a, h, &jb, &js);
  else if (fn == 1) rc = tj3EncodeYUV8(hh, small, w, 0, h, TJPF_GRAY, out, a);
  else if (fn == 3) rc = tj3DecodeYUV8(hh, small, a, out, w, 0, h, TJPF_GRAY);
  printf("errs %d\n", rc);
  tj3Free(jb); tj3Destroy(hh);
}


/* ---------------------------------------------------------------- seq: TurboJPEG 2.x entry points in multi-image sequences
 * seq seed a n  (w h s q sfi hdr) x n
 * One legacy decompressor and one legacy compressor (tjInitDecompress / tjInitCompress) are reused for the images
 * 1..n, whose subsampling and dimensions change (A, B, A', ...).  For every image each legacy unified-buffer /
 * per-plane call must give the result of the tj3 function on a FRESH instance, i.e. the documented layout of the
 * CURRENT image.  hdr: 0 no header call on the reused handle, 1 tjDecompressHeader3 first, 2 tj3DecompressHeader first. */
typedef struct { int nc, pw[3], ph[3], ust[3], uoff[3]; size_t usz; } geom;
static int geom_of(int w, int a, int h, int s, geom *g)
{
  int i;
  g->nc = s == TJSAMP_GRAY ? 1 : 3; g->usz = tj3YUVBufSize(w, a, h, s);
  for (i = 0; i < 3; i++) { g->pw[i] = tj3YUVPlaneWidth(i, w, s); g->ph[i] = tj3YUVPlaneHeight(i, h, s); g->ust[i] = i < g->nc ? PADV(g->pw[i], a) : 0; }
  g->uoff[0] = 0; g->uoff[1] = g->ust[0] * g->ph[0]; g->uoff[2] = g->uoff[1] + g->ust[1] * g->ph[1];
  return g->usz != 0;
}
/* unified buffer B (canary-filled before the call) must hold exactly the planes of reference R (same geometry g) */
static int same_unified(cbuf *B, const unsigned char *R, geom *g, char *why, size_t wn, const char *what)
{
  int i, r, c; size_t k; static unsigned char *mark; 
  if (!cb_guards_ok(B)) { snprintf(why, wn, "%s wrote outside the buffer of tjBufSizeYUV2 bytes", what); return 0; }
  mark = (unsigned char *)calloc(g->usz + 1, 1);
  for (i = 0; i < g->nc; i++) for (r = 0; r < g->ph[i]; r++) for (c = 0; c < g->pw[i]; c++) {
    size_t off = (size_t)g->uoff[i] + (size_t)r * g->ust[i] + c;
    mark[off] = 1;
    if (B->p[off] != R[off]) { snprintf(why, wn, "%s: plane %d row %d col %d is %d, fresh tj3 instance gives %d", what, i, r, c, B->p[off], R[off]); free(mark); return 0; }
  }
  for (k = 0; k < g->usz; k++) if (!mark[k] && !cb_untouched(B, k)) { snprintf(why, wn, "%s wrote byte %zu outside every plane of the current image", what, k); free(mark); return 0; }
  free(mark);
  return 1;
}
static int same_planes(cbuf *P, int *pst, const unsigned char *R, geom *g, char *why, size_t wn, const char *what)
{
  int i, r, c;
  for (i = 0; i < g->nc; i++) {
    if (!cb_guards_ok(&P[i])) { snprintf(why, wn, "%s wrote outside plane %d", what, i); return 0; }
    for (r = 0; r < g->ph[i]; r++) {
      for (c = 0; c < g->pw[i]; c++)
        if (P[i].p[(size_t)r * pst[i] + c] != R[(size_t)g->uoff[i] + (size_t)r * g->ust[i] + c]) {
          snprintf(why, wn, "%s: plane %d row %d col %d is %d, fresh tj3 instance gives %d", what, i, r, c, P[i].p[(size_t)r * pst[i] + c], R[(size_t)g->uoff[i] + (size_t)r * g->ust[i] + c]); return 0;
        }
      for (c = g->pw[i]; c < pst[i] && r < g->ph[i] - 1; c++)
        if (!cb_untouched(&P[i], (size_t)r * pst[i] + c)) { snprintf(why, wn, "%s wrote stride padding of plane %d row %d", what, i, r); return 0; }
    }
  }
  return 1;
}

static void do_seq(char *p)
{
  unsigned long long seed; int a, n, k, used = 0, nsf = 0; tjscalingfactor *sfs = tj3GetScalingFactors(&nsf);
  tjhandle hD = tjInitDecompress(), hC = tjInitCompress(); char why[400] = ""; int failed = 0; char trace[256] = "";
  if (sscanf(p, "%llu %d %d%n", &seed, &a, &n, &used) != 3 || n < 1 || n > 6) { printf("seq badline\n"); goto out; }
  p += used; rs = seed;
  for (k = 0; k < n && !failed; k++) {
    int w, h, s, q, sfi, hdr, i, sw, sh, dw, dh, ci, pf, pitch, order[4], fl, ex[3], pst[3], strides[3];
    unsigned char *rgb = NULL, *jpg = NULL, *jb1 = NULL, *jb2 = NULL, *planes[3]; const unsigned char *cplanes[3]; size_t jsz = 0, n2 = 0; unsigned long n1 = 0;
    tjhandle fc = NULL, fd = NULL; geom g, g4, ge; cbuf RU = { 0 }, RU4 = { 0 }, L = { 0 }, P[3] = { { 0 }, { 0 }, { 0 } }, RE = { 0 }, D1 = { 0 }, D2 = { 0 };
    if (sscanf(p, "%d %d %d %d %d %d%n", &w, &h, &s, &q, &sfi, &hdr, &used) != 6 || sfi < 0 || sfi >= nsf) { printf("seq badline\n"); goto out; }
    p += used;
    snprintf(trace + strlen(trace), sizeof(trace) - strlen(trace), " [%dx%d s%d hdr%d]", w, h, s, hdr);
#define SFAIL(...) do { failed = 1; snprintf(why, sizeof(why), __VA_ARGS__); goto next; } while (0)
    rgb = (unsigned char *)malloc((size_t)w * h * 3); gen_image(rgb, w, h, 3, w * 3, (int)(rnd() % 3));
    fc = tj3Init(TJINIT_COMPRESS); fd = tj3Init(TJINIT_DECOMPRESS);
    tj3Set(fc, TJPARAM_SUBSAMP, s); tj3Set(fc, TJPARAM_QUALITY, q); tj3Set(fc, TJPARAM_FASTDCT, q < 96);
    if (tj3Compress8(fc, rgb, w, 0, h, TJPF_RGB, &jpg, &jsz) < 0) SFAIL("setup: tj3Compress8 failed");
    /* the factor the 2.x functions choose for the requested size: first of the table that fits */
    dw = TJSCALED(w, sfs[sfi]); dh = TJSCALED(h, sfs[sfi]);
    for (ci = 0; ci < nsf; ci++) if (TJSCALED(w, sfs[ci]) <= dw && TJSCALED(h, sfs[ci]) <= dh) break;
    sw = TJSCALED(w, sfs[ci]); sh = TJSCALED(h, sfs[ci]);
    fl = (rnd() & 1) ? TJFLAG_FASTDCT : 0;
    if (!geom_of(sw, a, sh, s, &g) || !geom_of(w, 4, h, s, &g4) || !geom_of(w, a, h, s, &ge)) SFAIL("setup: size functions returned 0");
    /* legacy size functions == tj3 size functions */
    if (tjBufSizeYUV2(sw, a, sh, s) != (unsigned long)g.usz) SFAIL("tjBufSizeYUV2 != tj3YUVBufSize");
    for (i = 0; i < g.nc; i++) {
      if (tjPlaneWidth(i, sw, s) != g.pw[i] || tjPlaneHeight(i, sh, s) != g.ph[i]) SFAIL("tjPlaneWidth/Height != tj3YUVPlaneWidth/Height (plane %d)", i);
      ex[i] = (int)(rnd() % 4) == 0 ? -1 : (int)(rnd() % 20);
      pst[i] = ex[i] < 0 ? g.pw[i] : g.pw[i] + ex[i]; strides[i] = ex[i] < 0 ? 0 : pst[i];
      if (tjPlaneSizeYUV(i, sw, strides[i], sh, s) != (unsigned long)tj3YUVPlaneSize(i, sw, strides[i], sh, s)) SFAIL("tjPlaneSizeYUV != tj3YUVPlaneSize (plane %d)", i);
    }
    for (i = g.nc; i < 3; i++) { pst[i] = strides[i] = 0; }
    /* references from fresh tj3 instances */
    RU = cb_new(g.usz); RU4 = cb_new(g4.usz);
    tj3SetScalingFactor(fd, sfs[ci]); tj3Set(fd, TJPARAM_FASTDCT, !!fl);
    if (tj3DecompressToYUV8(fd, jpg, jsz, RU.p, a) < 0) SFAIL("setup: reference tj3DecompressToYUV8 failed: %s", tj3GetErrorStr(fd));
    tj3SetScalingFactor(fd, TJUNSCALED); tj3Set(fd, TJPARAM_FASTDCT, 0);   /* tjDecompressToYUV is called without TJFLAG_FASTDCT */
    if (tj3DecompressToYUV8(fd, jpg, jsz, RU4.p, 4) < 0) SFAIL("setup: reference tj3DecompressToYUV8 (1/1, align 4) failed");
    /* the reused legacy decompressor */
    if (hdr == 1) { int hw, hh, hs, hcs; if (tjDecompressHeader3(hD, jpg, (unsigned long)jsz, &hw, &hh, &hs, &hcs) < 0 || hw != w || hh != h || hs != s) SFAIL("tjDecompressHeader3 reports %dx%d level %d", hw, hh, hs); }
    else if (hdr == 2) { if (tj3DecompressHeader(hD, jpg, jsz) < 0) SFAIL("tj3DecompressHeader on the reused handle failed"); }
    for (i = 0; i < 4; i++) order[i] = i;
    for (i = 3; i > 0; i--) { int j = (int)(rnd() % (i + 1)), t = order[i]; order[i] = order[j]; order[j] = t; }
    for (i = 0; i < 4 && !failed; i++) {
      switch (order[i]) {
      case 0:
        L = cb_new(g.usz);
        if (tjDecompressToYUV2(hD, jpg, (unsigned long)jsz, L.p, dw, a, dh, fl) < 0) SFAIL("tjDecompressToYUV2 failed: %s", tjGetErrorStr2(hD));
        if (!same_unified(&L, RU.p, &g, why, sizeof(why), "tjDecompressToYUV2")) { failed = 1; goto next; }
        cb_free(&L); break;
      case 1: {
        int j;
        for (j = 0; j < 3; j++) { P[j] = cb_new(j < g.nc ? (size_t)pst[j] * (g.ph[j] - 1) + g.pw[j] : 1); planes[j] = j < g.nc ? P[j].p : NULL; }
        if (tjDecompressToYUVPlanes(hD, jpg, (unsigned long)jsz, planes, dw, strides, dh, fl) < 0) SFAIL("tjDecompressToYUVPlanes failed: %s", tjGetErrorStr2(hD));
        if (!same_planes(P, pst, RU.p, &g, why, sizeof(why), "tjDecompressToYUVPlanes")) { failed = 1; goto next; }
        for (j = 0; j < 3; j++) cb_free(&P[j]);
        break; }
      case 2:
        L = cb_new(g4.usz);
        if (tjDecompressToYUV(hD, jpg, (unsigned long)jsz, L.p, 0) < 0) SFAIL("tjDecompressToYUV failed: %s", tjGetErrorStr2(hD));
        if (!same_unified(&L, RU4.p, &g4, why, sizeof(why), "tjDecompressToYUV")) { failed = 1; goto next; }
        cb_free(&L); break;
      case 3:
        L = cb_new(g4.usz);
        if (tjDecompress(hD, jpg, (unsigned long)jsz, L.p, 0, 0, 0, 3, TJ_YUV) < 0) SFAIL("tjDecompress(TJ_YUV) failed: %s", tjGetErrorStr2(hD));
        if (!same_unified(&L, RU4.p, &g4, why, sizeof(why), "tjDecompress(TJ_YUV)")) { failed = 1; goto next; }
        cb_free(&L); break;
      }
    }
    /* decode the planes: legacy on the reused handle vs tj3 on a fresh one */
    pf = (int)(rnd() % 11); pitch = sw * tjPixelSize[pf] + (int)(rnd() % 3) * 4;
    D1 = cb_new((size_t)pitch * sh); D2 = cb_new((size_t)pitch * sh);
    tj3Set(fd, TJPARAM_SUBSAMP, s);
    if (tj3DecodeYUV8(fd, RU.p, a, D2.p, sw, pitch, sh, pf) < 0) SFAIL("setup: reference tj3DecodeYUV8 failed");
    if (tjDecodeYUV(hD, RU.p, a, s, D1.p, sw, pitch, sh, pf, 0) < 0) SFAIL("tjDecodeYUV failed: %s", tjGetErrorStr2(hD));
    if (!cb_guards_ok(&D1) || memcmp(D1.p, D2.p, (size_t)pitch * (sh - 1) + (size_t)sw * tjPixelSize[pf])) SFAIL("tjDecodeYUV != tj3DecodeYUV8 of a fresh instance");
    cb_free(&D1); D1 = cb_new((size_t)pitch * sh);
    for (i = 0; i < 3; i++) cplanes[i] = i < g.nc ? RU.p + g.uoff[i] : NULL;
    if (tjDecodeYUVPlanes(hD, cplanes, g.ust, s, D1.p, sw, pitch, sh, pf, 0) < 0) SFAIL("tjDecodeYUVPlanes failed: %s", tjGetErrorStr2(hD));
    if (!cb_guards_ok(&D1) || memcmp(D1.p, D2.p, (size_t)pitch * (sh - 1) + (size_t)sw * tjPixelSize[pf])) SFAIL("tjDecodeYUVPlanes != tj3DecodeYUV8 of a fresh instance");
    /* the reused legacy compressor */
    RE = cb_new(ge.usz);
    if (tj3EncodeYUV8(fc, rgb, w, 0, h, TJPF_RGB, RE.p, a) < 0) SFAIL("setup: reference tj3EncodeYUV8 failed");
    L = cb_new(ge.usz);
    if (tjEncodeYUV3(hC, rgb, w, 0, h, TJPF_RGB, L.p, a, s, 0) < 0) SFAIL("tjEncodeYUV3 failed: %s", tjGetErrorStr2(hC));
    if (!same_unified(&L, RE.p, &ge, why, sizeof(why), "tjEncodeYUV3")) { failed = 1; goto next; }
    cb_free(&L);
    { int j, est[3], estr[3];
      for (j = 0; j < 3; j++) { est[j] = j < ge.nc ? ge.pw[j] + (ex[j] < 0 ? 0 : ex[j]) : 0; estr[j] = j < ge.nc ? (ex[j] < 0 ? 0 : est[j]) : 0;
        P[j] = cb_new(j < ge.nc ? (size_t)est[j] * (ge.ph[j] - 1) + ge.pw[j] : 1); planes[j] = j < ge.nc ? P[j].p : NULL; cplanes[j] = planes[j]; }
      if (tjEncodeYUVPlanes(hC, rgb, w, 0, h, TJPF_RGB, planes, estr, s, 0) < 0) SFAIL("tjEncodeYUVPlanes failed: %s", tjGetErrorStr2(hC));
      if (!same_planes(P, est, RE.p, &ge, why, sizeof(why), "tjEncodeYUVPlanes")) { failed = 1; goto next; }
      if (tj3CompressFromYUV8(fc, RE.p, w, a, h, &jb2, &n2) < 0) SFAIL("setup: reference tj3CompressFromYUV8 failed");
      if (tjCompressFromYUV(hC, RE.p, w, a, h, s, &jb1, &n1, q, 0) < 0) SFAIL("tjCompressFromYUV failed: %s", tjGetErrorStr2(hC));
      if (n1 != n2 || memcmp(jb1, jb2, n2)) SFAIL("tjCompressFromYUV != tj3CompressFromYUV8 of a fresh instance (%lu vs %zu bytes)", n1, n2);
      tj3Free(jb1); jb1 = NULL; n1 = 0;
      if (tjCompressFromYUVPlanes(hC, cplanes, w, estr, h, s, &jb1, &n1, q, 0) < 0) SFAIL("tjCompressFromYUVPlanes failed: %s", tjGetErrorStr2(hC));
      if (n1 != n2 || memcmp(jb1, jb2, n2)) SFAIL("tjCompressFromYUVPlanes != tj3CompressFromYUV8 of a fresh instance (%lu vs %zu bytes)", n1, n2);
    }
next:
    if (failed) { size_t l = strlen(why); snprintf(why + l, sizeof(why) - l, " (image %d of the sequence)", k + 1); }
    cb_free(&RU); cb_free(&RU4); cb_free(&L); cb_free(&RE); cb_free(&D1); cb_free(&D2);
    for (i = 0; i < 3; i++) cb_free(&P[i]);
    tj3Free(jpg); tj3Free(jb1); tj3Free(jb2); free(rgb);
    if (fc) tj3Destroy(fc); if (fd) tj3Destroy(fd);
  }
  if (failed) printf("seq FAIL %s ;%s\n", why, trace); else printf("seq ok%s\n", trace);
out:
  tjDestroy(hD); tjDestroy(hC);
}

/* ---------------------------------------------------------------- fp: footprint of the bytes a per-plane function writes
 * fp enc|dtp stridesNULL st0 st1 st2 w h s sfi
 * Each plane is a buffer of exactly |e|*(ph-1)+pw bytes (e = effective row step) between guards, the plane pointer at
 * its lowest or (negative stride) highest row.  The call is made twice with two canary fills that differ everywhere; a
 * byte counts as written when it differs from the canary in either run.  Output per plane: number of written bytes,
 * lowest and highest offset relative to the plane pointer, hash of the sorted offsets (same as ml/C20_driver.ml). */
static unsigned char canary2(size_t pos) { return (unsigned char)(0x35 + (pos % 11)); }
static void do_fp(char *p)
{
  char fn[8]; int snull, st[3], w, h, s, sfi, nsf = 0, i, run, nc, sw, sh, pw[3], ph[3], e[3]; tjscalingfactor *sfs = tj3GetScalingFactors(&nsf);
  unsigned char *buf[3][2] = { { 0 } }, *rgb = NULL, *jpg = NULL, *planes[3]; size_t sz[3] = { 0, 0, 0 }, jsz = 0, k; tjhandle hc = NULL, hd = NULL;
  int strides[3], rc = 0, bad = 0; char out[600]; size_t ol = 0;
  if (sscanf(p, "%7s %d %d %d %d %d %d %d %d", fn, &snull, &st[0], &st[1], &st[2], &w, &h, &s, &sfi) != 9 || sfi < 0 || sfi >= nsf) { printf("fp badline\n"); return; }
  nc = s == TJSAMP_GRAY ? 1 : 3;
  rgb = (unsigned char *)malloc((size_t)w * h * 3); rs = 12345 + w * 131 + h; gen_image(rgb, w, h, 3, w * 3, 1);
  hc = tj3Init(TJINIT_COMPRESS); hd = tj3Init(TJINIT_DECOMPRESS);
  tj3Set(hc, TJPARAM_SUBSAMP, s); tj3Set(hc, TJPARAM_QUALITY, 80);
  if (!strcmp(fn, "dtp")) {
    if (tj3Compress8(hc, rgb, w, 0, h, TJPF_RGB, &jpg, &jsz) < 0) { printf("fp setup-failed\n"); goto out; }
    sw = TJSCALED(w, sfs[sfi]); sh = TJSCALED(h, sfs[sfi]); tj3SetScalingFactor(hd, sfs[sfi]);
  } else { sw = w; sh = h; }
  for (i = 0; i < 3; i++) {
    pw[i] = tj3YUVPlaneWidth(i, sw, s); ph[i] = tj3YUVPlaneHeight(i, sh, s);
    e[i] = (!snull && st[i] != 0) ? st[i] : pw[i]; strides[i] = st[i];
    if (i < nc) { sz[i] = (size_t)abs(e[i]) * (ph[i] - 1) + pw[i]; if (sz[i] != tj3YUVPlaneSize(i, sw, snull ? 0 : st[i], sh, s)) bad = 1; }
  }
  for (run = 0; run < 2 && rc == 0; run++) {
    for (i = 0; i < 3; i++) {
      planes[i] = NULL;
      if (i >= nc) continue;
      buf[i][run] = (unsigned char *)malloc(sz[i] + 2 * GUARD);
      for (k = 0; k < sz[i] + 2 * GUARD; k++) buf[i][run][k] = run ? canary2(k) : canary(k);
      planes[i] = buf[i][run] + GUARD + (e[i] < 0 ? (size_t)(-e[i]) * (ph[i] - 1) : 0);
    }
    if (!strcmp(fn, "enc")) rc = tj3EncodeYUVPlanes8(hc, rgb, w, 0, h, TJPF_RGB, planes, snull ? NULL : strides);
    else rc = tj3DecompressToYUVPlanes8(hd, jpg, jsz, planes, snull ? NULL : strides);
  }
  if (rc < 0) { printf("fp call-failed %s\n", tj3GetErrorStr(!strcmp(fn, "enc") ? hc : hd)); goto out; }
  ol += snprintf(out + ol, sizeof(out) - ol, "fp %s", fn);
  for (i = 0; i < nc; i++) {
    long long base = GUARD + (e[i] < 0 ? (long long)(-e[i]) * (ph[i] - 1) : 0), lo = 0, hi = 0, n = 0; unsigned long long hsh = 7;
    for (k = 0; k < sz[i] + 2 * GUARD; k++) {
      int wr = buf[i][0][k] != canary(k) || buf[i][1][k] != canary2(k);
      if (!wr) continue;
      if (k < GUARD || k >= GUARD + sz[i]) bad = 2;
      if (!n) lo = (long long)k - base;
      hi = (long long)k - base; n++;
      hsh = (hsh * 1000003ULL + (unsigned long long)((long long)k - base + (1LL << 40))) % 2147483629ULL;
    }
    ol += snprintf(out + ol, sizeof(out) - ol, " | %lld %lld %lld %llu", n, lo, hi, hsh);
  }
  if (!strcmp(fn, "dtp")) {
    /* what libjpeg derives for this JPEG and scaling factor */
    struct jpeg_decompress_struct d; struct my_err er; int tmp = 0;
    d.err = jpeg_std_error(&er.pub); er.pub.error_exit = my_exit; er.pub.emit_message = my_emit;
    jpeg_create_decompress(&d);
    if (!setjmp(er.jb)) {
      jpeg_mem_src(&d, jpg, (unsigned long)jsz); jpeg_read_header(&d, TRUE);
      d.scale_num = sfs[sfi].num; d.scale_denom = sfs[sfi].denom; jpeg_calc_output_dimensions(&d);
      ol += snprintf(out + ol, sizeof(out) - ol, " | lj");
      for (i = 0; i < d.num_components; i++) {
        int dct = 8 * sfs[sfi].num / sfs[sfi].denom;
        ol += snprintf(out + ol, sizeof(out) - ol, " %u %u", d.comp_info[i].width_in_blocks, d.comp_info[i].height_in_blocks);
        if ((int)d.comp_info[i].width_in_blocks * dct != pw[i] || (int)d.comp_info[i].height_in_blocks * dct != ph[i]) tmp = 1;
      }
      ol += snprintf(out + ol, sizeof(out) - ol, " %u %u %s", d.output_width, d.output_height, tmp ? "tmp" : "direct");
    }
    jpeg_destroy_decompress(&d);
  }
  if (bad == 1) printf("fp FAIL tj3YUVPlaneSize differs from |stride|*(ph-1)+pw\n");
  else if (bad == 2) printf("fp FAIL a byte outside the tj3YUVPlaneSize extent of a plane was written ; %s\n", out);
  else printf("%s\n", out);
out:
  for (i = 0; i < 3; i++) { free(buf[i][0]); free(buf[i][1]); }
  free(rgb); tj3Free(jpg); tj3Destroy(hc); tj3Destroy(hd);
}

/* ---------------------------------------------------------------- rawfp: row/column footprint of jpeg_read_raw_data calls
 * rawfp w h s sfi : decode a JPEG of that geometry in raw-data mode into over-sized canary buffers (twice, two fills) and
 * report output size, scaled block size, number of calls, and per component blocks, columns written and rows written by
 * each call (same line as ml/C20_driver.ml prints from the generated library statements). */
static void do_rawfp(char *p)
{
  int w, h, s, sfi, nsf = 0, i, k, run, ncalls = 0; tjscalingfactor *sfs = tj3GetScalingFactors(&nsf);
  unsigned char *rgb = NULL, *jpg = NULL; size_t jsz = 0; tjhandle hc = NULL; char out[4000]; size_t ol = 0;
  static int rowsw[3][64], colsw[3]; int wib[3], hib[3], outw = 0, outh = 0, mind = 0, nc = 0, bad = 0;
  if (sscanf(p, "%d %d %d %d", &w, &h, &s, &sfi) != 4 || sfi < 0 || sfi >= nsf) { printf("rawfp badline\n"); return; }
  rgb = (unsigned char *)malloc((size_t)w * h * 3); rs = 777 + w * 31 + h; gen_image(rgb, w, h, 3, w * 3, 0);
  hc = tj3Init(TJINIT_COMPRESS); tj3Set(hc, TJPARAM_SUBSAMP, s); tj3Set(hc, TJPARAM_QUALITY, 90);
  if (tj3Compress8(hc, rgb, w, 0, h, TJPF_RGB, &jpg, &jsz) < 0) { printf("rawfp setup-failed\n"); goto out; }
  memset(rowsw, 0, sizeof(rowsw)); memset(colsw, 0, sizeof(colsw));
  for (run = 0; run < 2; run++) {
    struct jpeg_decompress_struct d; struct my_err e; unsigned char *buf[3] = { 0, 0, 0 }; JSAMPROW *rows[3] = { 0, 0, 0 }; JSAMPARRAY data[3];
    int bw[3], bh[3];
    d.err = jpeg_std_error(&e.pub); e.pub.error_exit = my_exit; e.pub.emit_message = my_emit;
    jpeg_create_decompress(&d);
    if (setjmp(e.jb)) { jpeg_destroy_decompress(&d); printf("rawfp library-error\n"); for (i = 0; i < 3; i++) { free(buf[i]); free(rows[i]); } goto out; }
    jpeg_mem_src(&d, jpg, (unsigned long)jsz); jpeg_read_header(&d, TRUE);
    d.scale_num = sfs[sfi].num; d.scale_denom = sfs[sfi].denom; d.raw_data_out = TRUE; d.dct_method = JDCT_ISLOW;
    jpeg_start_decompress(&d);
    nc = d.num_components; outw = d.output_width; outh = d.output_height; mind = MINDSS(&d);
    for (i = 0; i < nc; i++) {
      jpeg_component_info *c = &d.comp_info[i];
      if (DSS(c) != MINDSS(&d)) bad = 1;
      wib[i] = c->width_in_blocks; hib[i] = c->height_in_blocks;
      bw[i] = c->width_in_blocks * DSS(c) + 16; bh[i] = c->v_samp_factor * DSS(c) + 8;
      buf[i] = (unsigned char *)malloc((size_t)bw[i] * bh[i]); rows[i] = (JSAMPROW *)malloc(sizeof(JSAMPROW) * bh[i]);
      for (k = 0; k < bh[i]; k++) rows[i][k] = buf[i] + (size_t)k * bw[i];
      data[i] = rows[i];
    }
    ncalls = 0;
    while (d.output_scanline < d.output_height && !bad) {
      for (i = 0; i < nc; i++) { size_t q; for (q = 0; q < (size_t)bw[i] * bh[i]; q++) buf[i][q] = run ? canary2(q) : canary(q); }
      if (jpeg_read_raw_data(&d, data, d.max_v_samp_factor * MINDSS(&d)) == 0) { bad = 2; break; }
      for (i = 0; i < nc; i++) {
        int r, c;
        for (r = 0; r < bh[i]; r++) for (c = 0; c < bw[i]; c++) {
          size_t q = (size_t)r * bw[i] + c;
          if (buf[i][q] != (run ? canary2(q) : canary(q))) {
            if (ncalls < 64 && r + 1 > rowsw[i][ncalls]) rowsw[i][ncalls] = r + 1;
            if (c + 1 > colsw[i]) colsw[i] = c + 1;
          }
        }
      }
      ncalls++;
    }
    if (!bad) jpeg_finish_decompress(&d); else jpeg_abort_decompress(&d);
    jpeg_destroy_decompress(&d);
    for (i = 0; i < 3; i++) { free(buf[i]); free(rows[i]); }
  }
  if (bad == 1) { printf("rawfp skip component upsampled in the IDCT\n"); goto out; }
  if (bad) { printf("rawfp suspended\n"); goto out; }
  ol += snprintf(out + ol, sizeof(out) - ol, "rawfp %d %d %d %d", outw, outh, mind, ncalls);
  for (i = 0; i < nc; i++) {
    ol += snprintf(out + ol, sizeof(out) - ol, " | %d %d %d", wib[i], hib[i], colsw[i]);
    for (k = 0; k < ncalls && k < 64; k++) ol += snprintf(out + ol, sizeof(out) - ol, "%s%d", k ? "," : " ", rowsw[i][k]);
  }
  printf("%s\n", out);
out:
  free(rgb); tj3Free(jpg); tj3Destroy(hc);
}

/* gs yh yv bh bv rh rv: level reported by the TurboJPEG API for a YCbCr JPEG with these sampling factors */
static void do_gs(char *p)
{
  int f[6], k, maxv = 1, blocks; struct jpeg_compress_struct c; struct my_err e; unsigned char *jb = NULL; unsigned long len = 0;
  static JSAMPLE zero[512]; static JSAMPROW rows[64]; JSAMPARRAY data[3]; tjhandle hd;
  if (sscanf(p, "%d %d %d %d %d %d", &f[0], &f[1], &f[2], &f[3], &f[4], &f[5]) != 6) { printf("gs badline\n"); return; }
  for (k = 0; k < 64; k++) rows[k] = zero;
  c.err = jpeg_std_error(&e.pub); e.pub.error_exit = my_exit; e.pub.emit_message = my_emit;
  jpeg_create_compress(&c);
  if (setjmp(e.jb)) { jpeg_destroy_compress(&c); free(jb); printf("gs nobuild\n"); return; }
  jpeg_mem_dest(&c, &jb, &len);
  c.image_width = 8; c.image_height = 8; c.input_components = 3; c.in_color_space = JCS_YCbCr;
  jpeg_set_defaults(&c);
  c.raw_data_in = TRUE;
  for (k = 0; k < 3; k++) { c.comp_info[k].h_samp_factor = f[2 * k]; c.comp_info[k].v_samp_factor = f[2 * k + 1]; if (f[2 * k + 1] > maxv) maxv = f[2 * k + 1]; }
  blocks = f[0] * f[1] + f[2] * f[3] + f[4] * f[5];
  g_nscans = 0;
  if (blocks > C_MAX_BLOCKS_IN_MCU) { for (k = 0; k < 3; k++) add_scan(1, k, 0, 63, 0, 0); c.scan_info = g_scans; c.num_scans = g_nscans; }
  jpeg_start_compress(&c, TRUE);
  for (k = 0; k < 3; k++) data[k] = rows;
  while (c.next_scanline < c.image_height) jpeg_write_raw_data(&c, data, maxv * DCTSIZE);
  jpeg_finish_compress(&c);
  jpeg_destroy_compress(&c);
  g_nscans = 0;
  hd = tj3Init(TJINIT_DECOMPRESS);
  if (tj3DecompressHeader(hd, jb, len) < 0) printf("gs header-error\n");
  else printf("gs %d\n", tj3Get(hd, TJPARAM_SUBSAMP));
  tj3Destroy(hd); free(jb);
}

int main(void)
{
  setvbuf(stdout, NULL, _IOLBF, 0);
  while (fgets(line, sizeof(line), stdin)) {
    char cmd[16]; int k = 0; char *p = line; long v[8]; int n = 0;
    while (*p && *p != ' ' && *p != '\n' && k < 15) cmd[k++] = *p++;
    cmd[k] = 0;
    if (!strcmp(cmd, "cmp")) { do_compose(p); continue; }
    if (!strcmp(cmd, "layenc")) { do_layenc(p); continue; }
    if (!strcmp(cmd, "errs")) { do_errs(p); continue; }
    if (!strcmp(cmd, "gs")) { do_gs(p); continue; }
    if (!strcmp(cmd, "seq")) { do_seq(p); continue; }
    if (!strcmp(cmd, "fp")) { do_fp(p); continue; }
    if (!strcmp(cmd, "rawfp")) { do_rawfp(p); continue; }
    { char *q = p; while (n < 8) { char *e; long x = strtol(q, &e, 10); if (e == q) break; v[n++] = x; q = e; } }
    if (!strcmp(cmd, "pw") && n == 3) printf("pw %d\n", tj3YUVPlaneWidth((int)v[0], (int)v[1], (int)v[2]));
    else if (!strcmp(cmd, "ph") && n == 3) printf("ph %d\n", tj3YUVPlaneHeight((int)v[0], (int)v[1], (int)v[2]));
    else if (!strcmp(cmd, "bs") && n == 4) printf("bs %zu\n", tj3YUVBufSize((int)v[0], (int)v[1], (int)v[2], (int)v[3]));
    else if (!strcmp(cmd, "ps") && n == 5) printf("ps %zu\n", tj3YUVPlaneSize((int)v[0], (int)v[1], (int)v[2], (int)v[3], (int)v[4]));
    else if (!strcmp(cmd, "pwr") && n == 4) { long x; printf("pwr"); for (x = v[2]; x <= v[3]; x++) printf(" %d", tj3YUVPlaneWidth((int)v[0], (int)x, (int)v[1])); printf("\n"); }
    else if (!strcmp(cmd, "phr") && n == 4) { long x; printf("phr"); for (x = v[2]; x <= v[3]; x++) printf(" %d", tj3YUVPlaneHeight((int)v[0], (int)x, (int)v[1])); printf("\n"); }
    else if (!strcmp(cmd, "bsr") && n == 5) { long x; printf("bsr"); for (x = v[3]; x <= v[4]; x++) printf(" %zu", tj3YUVBufSize((int)x, (int)v[1], (int)v[2], (int)v[0])); printf("\n"); }
    else if (!strcmp(cmd, "psr") && n == 6) { long x; printf("psr"); for (x = v[4]; x <= v[5]; x++) printf(" %zu", tj3YUVPlaneSize((int)v[1], (int)x, (int)v[2], (int)v[3], (int)v[0])); printf("\n"); }
    else if (!strcmp(cmd, "sc") && n == 3) { tjscalingfactor f; f.num = (int)v[1]; f.denom = (int)v[2]; printf("sc %d\n", TJSCALED((int)v[0], f)); }
    else if (!strcmp(cmd, "tbl")) {
      int i, nsf = 0; tjscalingfactor *f = tj3GetScalingFactors(&nsf);
      printf("tbl"); for (i = 0; i < TJ_NUMSAMP; i++) printf(" %d", tjMCUWidth[i]);
      printf(" |"); for (i = 0; i < TJ_NUMSAMP; i++) printf(" %d", tjMCUHeight[i]);
      printf(" |"); for (i = 0; i < nsf; i++) printf(" %d/%d", f[i].num, f[i].denom);
      printf("\n");
    }
    else printf("?\n");
  }
  return 0;
}
