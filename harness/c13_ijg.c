/* C13 harness, second translation unit: src/jdatadst.c of the working tree (jpeg_mem_dest
 * and its empty/term methods) compiled with its allocator calls routed to the traced heap. */
#include <stdio.h>
#include <stdlib.h>
#include <string.h>
#include "c13_heap.h"
#define JPEG_INTERNALS
#include "jinclude.h"
#include "jpeglib.h"
#include "jerror.h"
#define malloc(n) dm_malloc_lib(n)
#define free(p) dm_free_lib(p)
#define memcpy(d, s, n) dm_memcpy_lib(d, s, n)
#include "jdatadst.c"
