/* C14 harness (b)+(c): fault-injection catalogue over the TurboJPEG and libjpeg API
 * entry points, and the configured limits.  malloc/calloc/realloc/free of every
 * library object are wrapped at link time; the k-th allocation (or all from k, or
 * a pair) fails.  A scenario behaves like a correct application: it checks every
 * return value, frees every buffer the library handed out (tj3Free / free) and
 * destroys the instance.  Afterwards the number of live library blocks must be 0.
 *
 *   argv[1] = scratch directory (for the image files of load/save scenarios)
 *   stdin : list | run <name> <none|at|from|pair> <k1> <k2> | limit ...
 */
#define _GNU_SOURCE
#include <stdio.h>
#include <stdlib.h>
#include <string.h>
#include <setjmp.h>
#include <stdint.h>
#include <unistd.h>
#include <dlfcn.h>
#include "turbojpeg.h"
#include "jpeglib.h"
#include "jerror.h"

void *__real_malloc(size_t);
void __real_free(void *);
void *__real_calloc(size_t, size_t);
void *__real_realloc(void *, size_t);

/* --------------------------------------------------------------- allocator */
typedef struct { void *p; size_t sz; long idx; int app; } blk_t;
#define MAXBLK 65536
static blk_t blks[MAXBLK];
static int nblk;
static long alloc_idx, badfree, peak, cur, stolen, badptr;
static volatile int in_app;    /* the application (harness) itself is allocating / freeing */
static int tracking;
static int plan_mode;            /* 0 none, 1 at k1, 2 from k1, 3 pair k1,k2 */
static long plan_k1, plan_k2;
static size_t biggest;
static void site(void *ra);

/* direct (non-pool) allocation calls per calling function (dladdr on the return address; linked with -rdynamic) */
static struct { const char *name; int n; } sites[64]; static int nsites;
static void site(void *ra)
{
  Dl_info di; const char *nm = "?"; int i;
  if (dladdr(ra, &di) && di.dli_sname) nm = di.dli_sname;
  for (i = 0; i < nsites; i++) if (!strcmp(sites[i].name, nm)) { sites[i].n++; return; }
  if (nsites < 64) { sites[nsites].name = nm; sites[nsites].n = 1; nsites++; }
}

static int should_fail(void)
{
  long k = alloc_idx++;
  switch (plan_mode) {
  case 1: return k == plan_k1;
  case 2: return k >= plan_k1;
  case 3: return k == plan_k1 || k == plan_k2;
  }
  return 0;
}

static void note(void *p, size_t sz)
{
  if (nblk >= MAXBLK) { fprintf(stderr, "harness: block table full\n"); _exit(3); }
  blks[nblk].p = p; blks[nblk].sz = sz; blks[nblk].idx = alloc_idx - 1; blks[nblk].app = in_app; nblk++;
  cur += (long)sz; if (cur > peak) peak = cur;
  if (sz > biggest) biggest = sz;
}

static int forget(void *p)
{
  int i;
  for (i = nblk - 1; i >= 0; i--)
    if (blks[i].p == p) { cur -= (long)blks[i].sz; blks[i] = blks[nblk - 1]; nblk--; return 1; }
  return 0;
}

void *__wrap_malloc(size_t sz)
{
  void *p;
  if (!tracking) return __real_malloc(sz);
  if (in_app) { p = __real_malloc(sz ? sz : 1); if (p) note(p, sz); return p; }   /* the application's own buffers never fail */
  site(__builtin_return_address(0));
  if (should_fail()) return NULL;
  if (sz > ((size_t)1 << 31)) return NULL;          /* never really grab > 2 GB */
  p = __real_malloc(sz ? sz : 1);
  if (p) note(p, sz);
  return p;
}

void *__wrap_calloc(size_t n, size_t s)
{
  void *p;
  if (!tracking) return __real_calloc(n, s);
  site(__builtin_return_address(0));
  if (should_fail()) return NULL;
  if (n && s > ((size_t)1 << 31) / n) return NULL;
  p = __real_calloc(n ? n : 1, s ? s : 1);
  if (p) note(p, n * s);
  return p;
}

void *__wrap_realloc(void *q, size_t s)
{
  void *p;
  if (!tracking) return __real_realloc(q, s);
  site(__builtin_return_address(0));
  if (should_fail()) return NULL;                    /* a failing realloc leaves the old block allocated */
  if (q && !forget(q)) { badfree++; return NULL; }
  p = __real_realloc(q, s ? s : 1);
  if (p) note(p, s);
  return p;
}

static int blk_index(void *p)
{
  int i;
  for (i = nblk - 1; i >= 0; i--) if (blks[i].p == p) return i;
  return -1;
}

void __wrap_free(void *p)
{
  int i;
  if (!tracking) { __real_free(p); return; }
  if (!p) return;
  i = blk_index(p);
  if (i >= 0 && blks[i].app && !in_app) { stolen++; return; }   /* the LIBRARY frees a block the application owns: counted, not executed */
  if (!forget(p)) { badfree++; return; }     /* double / invalid free: counted, not executed */
  __real_free(p);
}

int __real_posix_memalign(void **, size_t, size_t);
void *__real_aligned_alloc(size_t, size_t);
char *__real_strdup(const char *);
int __wrap_posix_memalign(void **out, size_t al, size_t sz)
{
  int r;
  if (!tracking) return __real_posix_memalign(out, al, sz);
  site(__builtin_return_address(0));
  if (should_fail()) return 12 /* ENOMEM */;
  r = __real_posix_memalign(out, al, sz ? sz : 1);
  if (!r) note(*out, sz);
  return r;
}
void *__wrap_aligned_alloc(size_t al, size_t sz)
{
  void *p;
  if (!tracking) return __real_aligned_alloc(al, sz);
  site(__builtin_return_address(0));
  if (should_fail()) return NULL;
  p = __real_aligned_alloc(al, sz ? sz : al);
  if (p) note(p, sz);
  return p;
}
char *__wrap_strdup(const char *x)
{
  char *p;
  if (!tracking) return __real_strdup(x);
  site(__builtin_return_address(0));
  if (should_fail()) return NULL;
  p = __real_strdup(x);
  if (p) note(p, strlen(x) + 1);
  return p;
}

/* ownership bookkeeping of the application side */
static void adopt(void *p) { int i = p ? blk_index(p) : -1; if (i >= 0) blks[i].app = 1; }     /* handed over to the application */
static void lend(void *p) { int i = p ? blk_index(p) : -1; if (i >= 0) blks[i].app = 0; }      /* passed back, library may realloc */
static int ptr_ok(void *p) { if (!p || blk_index(p) >= 0) return 1; badptr++; return 0; }    /* NULL or a live block */
static void use_ptr(void *p) { if (p && ptr_ok(p)) ((volatile unsigned char *)p)[0] ^= 0x5a; } /* write through it */
static void app_free(void *p) { if (!ptr_ok(p)) return; in_app = 1; free(p); in_app = 0; }
static void app_tjfree(void *p) { if (!ptr_ok(p)) return; in_app = 1; tj3Free(p); in_app = 0; }
static void *app_alloc(size_t n) { void *p; in_app = 1; p = tj3Alloc(n); in_app = 0; return p; }
static void *app_malloc(size_t n) { void *p; in_app = 1; p = malloc(n); in_app = 0; return p; }

/* ------------------------------------------------------------ test images */
#define IW 53
#define IH 37
static unsigned char rgb8[IW * IH * 3], gray8[IW * IH], cmyk8[IW * IH * 4];
static short rgb12[IW * IH * 3];
static unsigned short rgb16[IW * IH * 3];
static unsigned char icc[700];
#define BW 96
#define BH 96
static unsigned char big8[BW * BH * 3];
static char scratch[900];

typedef struct { unsigned char *buf; size_t size; } jpg_t;
static jpg_t J420, J444P, JGRAYA, J422O, JLL8, J12, JLL12, JLL16, JICC, J440, JBIG, JPROGN[8], JCMYK;
static unsigned char *yuv420;          /* YUV image of the 8-bit test picture */
static size_t yuv420size;

static unsigned int rnd_state = 12345;
static unsigned int rnd(void) { rnd_state = rnd_state * 1103515245u + 12345u; return (rnd_state >> 16) & 0x7fff; }

static void make_images(void)
{
  int x, y, c;
  for (y = 0; y < IH; y++)
    for (x = 0; x < IW; x++) {
      for (c = 0; c < 3; c++) {
        int v = (x * (5 + c) + y * (3 + 2 * c) + (int)(rnd() % 24)) & 255;
        rgb8[(y * IW + x) * 3 + c] = (unsigned char)v;
        rgb12[(y * IW + x) * 3 + c] = (short)((v * 16 + (int)(rnd() % 16)) & 4095);
        rgb16[(y * IW + x) * 3 + c] = (unsigned short)((v * 256 + (int)(rnd() % 256)) & 65535);
      }
      gray8[y * IW + x] = (unsigned char)((x * 4 + y * 7) & 255);
      for (c = 0; c < 4; c++) cmyk8[(y * IW + x) * 4 + c] = (unsigned char)((x * 3 + y * c) & 255);
    }
  for (x = 0; x < (int)sizeof(icc); x++) icc[x] = (unsigned char)(x * 7 + 1);
  for (x = 0; x < BW * BH * 3; x++) big8[x] = (unsigned char)(rnd() & 255);
}

typedef struct {
  int prec, subsamp, lossless, prog, arith, opt, quality, pf, restart, icc, noRealloc, w, h;
} cparm;

/* compress with the given parameters; returns 0 ok / -1 API error.  *out is owned by the caller (tj3Free). */
static int do_compress(const cparm *p, unsigned char **out, size_t *outsize, char *msg)
{
  tjhandle h = tj3Init(TJINIT_COMPRESS);
  int rc = -1;
  int w = p->w ? p->w : IW, hh = p->h ? p->h : IH;
  if (!h) { snprintf(msg, 200, "%s", tj3GetErrorStr(NULL)); return -1; }
  if (tj3Set(h, TJPARAM_SUBSAMP, p->subsamp) < 0) goto bail;
  if (p->lossless) { if (tj3Set(h, TJPARAM_LOSSLESS, 1) < 0) goto bail; if (tj3Set(h, TJPARAM_LOSSLESSPSV, 3) < 0) goto bail; }
  else if (tj3Set(h, TJPARAM_QUALITY, p->quality ? p->quality : 80) < 0) goto bail;
  if (p->prog && tj3Set(h, TJPARAM_PROGRESSIVE, 1) < 0) goto bail;
  if (p->arith && tj3Set(h, TJPARAM_ARITHMETIC, 1) < 0) goto bail;
  if (p->opt && tj3Set(h, TJPARAM_OPTIMIZE, 1) < 0) goto bail;
  if (p->restart && tj3Set(h, TJPARAM_RESTARTROWS, p->restart) < 0) goto bail;
  if (p->prec != 8 && p->prec != 12 && p->prec != 16 && tj3Set(h, TJPARAM_PRECISION, p->prec) < 0) goto bail;
  if (p->icc && tj3SetICCProfile(h, icc, sizeof(icc)) < 0) goto bail;
  if (p->noRealloc) {
    size_t sz = tj3JPEGBufSize(w, hh, p->subsamp);
    if (tj3Set(h, TJPARAM_NOREALLOC, 1) < 0) goto bail;
    if (p->icc) sz += sizeof(icc) + 200;
    *out = (unsigned char *)tj3Alloc(sz);
    if (!*out) { snprintf(msg, 200, "tj3Alloc failed"); goto bail2; }
    *outsize = sz;
  }
  if (p->prec <= 8) {
    const unsigned char *src = p->w == BW ? big8 : p->pf == TJPF_GRAY ? gray8 : p->pf == TJPF_CMYK ? cmyk8 : rgb8;
    rc = tj3Compress8(h, src, w, 0, hh, p->pf, out, outsize);
  } else if (p->prec <= 12) rc = tj3Compress12(h, rgb12, w, 0, hh, p->pf, out, outsize);
  else rc = tj3Compress16(h, rgb16, w, 0, hh, p->pf, out, outsize);
bail:
  if (rc < 0) snprintf(msg, 200, "%s", tj3GetErrorStr(h));
bail2:
  tj3Destroy(h);
  return rc;
}

static void prep_big(void) { }
static void must(int ok, const char *what) { if (!ok) { fprintf(stderr, "harness setup failed: %s\n", what); _exit(4); } }

static void prep(jpg_t *j, cparm p)
{
  char msg[256] = "";
  j->buf = NULL; j->size = 0;
  must(do_compress(&p, &j->buf, &j->size, msg) == 0, msg);
}

static const cparm C_420 = { 8, TJSAMP_420, 0, 0, 0, 0, 80, TJPF_RGB, 0, 0, 0, 0, 0 };
static const cparm C_444P = { 8, TJSAMP_444, 0, 1, 0, 0, 85, TJPF_RGB, 0, 0, 0, 0, 0 };
static const cparm C_GRAYA = { 8, TJSAMP_GRAY, 0, 0, 1, 0, 75, TJPF_GRAY, 0, 0, 0, 0, 0 };
static const cparm C_422O = { 8, TJSAMP_422, 0, 0, 0, 1, 90, TJPF_RGB, 2, 0, 0, 0, 0 };
static const cparm C_LL8 = { 8, TJSAMP_444, 1, 0, 0, 0, 0, TJPF_RGB, 0, 0, 0, 0, 0 };
static const cparm C_12 = { 12, TJSAMP_420, 0, 0, 0, 0, 80, TJPF_RGB, 0, 0, 0, 0, 0 };
static const cparm C_12P = { 12, TJSAMP_444, 0, 1, 0, 1, 80, TJPF_RGB, 0, 0, 0, 0, 0 };
static const cparm C_LL12 = { 12, TJSAMP_444, 1, 0, 0, 0, 0, TJPF_RGB, 0, 0, 0, 0, 0 };
static const cparm C_LL16 = { 16, TJSAMP_444, 1, 0, 0, 0, 0, TJPF_RGB, 0, 0, 0, 0, 0 };
static const cparm C_ICC = { 8, TJSAMP_420, 0, 0, 0, 0, 80, TJPF_RGB, 0, 1, 0, 0, 0 };
static const cparm C_440 = { 8, TJSAMP_440, 0, 0, 0, 0, 80, TJPF_RGB, 0, 0, 0, 0, 0 };
static const cparm C_NOREALLOC = { 8, TJSAMP_420, 0, 0, 0, 0, 80, TJPF_RGB, 0, 1, 1, 0, 0 };
static const cparm C_CMYK = { 8, TJSAMP_444, 0, 0, 0, 0, 80, TJPF_CMYK, 0, 0, 0, 0, 0 };
static const cparm C_PROGARITH = { 8, TJSAMP_420, 0, 1, 1, 0, 80, TJPF_RGB, 0, 0, 0, 0, 0 };
static const cparm C_BIG = { 8, TJSAMP_444, 0, 0, 0, 0, 100, TJPF_RGB, 0, 0, 0, BW, BH };
static const cparm C_LL10 = { 10, TJSAMP_444, 1, 0, 0, 0, 0, TJPF_RGB, 0, 0, 0, 0, 0 };

static char msgbuf[512];
#define FAIL(h) do { snprintf(msgbuf, sizeof(msgbuf), "%s", tj3GetErrorStr(h)); rc = -1; goto bail; } while (0)

/* ---------------------------------------------------------------- scenarios */
static int s_init(int t) { tjhandle h = tj3Init(t); if (!h) { snprintf(msgbuf, sizeof(msgbuf), "%s", tj3GetErrorStr(NULL)); return -1; } tj3Destroy(h); return 0; }
static int s_init_c(void) { return s_init(TJINIT_COMPRESS); }
static int s_init_d(void) { return s_init(TJINIT_DECOMPRESS); }
static int s_init_t(void) { return s_init(TJINIT_TRANSFORM); }

static int s_comp(const cparm *p)
{
  unsigned char *out = NULL; size_t n = 0;
  int rc = do_compress(p, &out, &n, msgbuf);
  tj3Free(out);
  return rc;
}
#define SCOMP(name, parm) static int name(void) { return s_comp(&parm); }
SCOMP(s_comp8_420, C_420) SCOMP(s_comp8_444_prog, C_444P) SCOMP(s_comp8_gray_arith, C_GRAYA) SCOMP(s_comp8_422_opt, C_422O)
SCOMP(s_comp8_ll, C_LL8) SCOMP(s_comp12_420, C_12) SCOMP(s_comp12_prog_opt, C_12P) SCOMP(s_comp12_ll, C_LL12) SCOMP(s_comp16_ll, C_LL16)
SCOMP(s_comp8_icc, C_ICC) SCOMP(s_comp8_norealloc_icc, C_NOREALLOC) SCOMP(s_comp8_cmyk, C_CMYK) SCOMP(s_comp8_prog_arith, C_PROGARITH)
SCOMP(s_comp10_ll, C_LL10) SCOMP(s_comp8_big_grow, C_BIG)

/* two compressions with different settings on one instance, library-grown buffer reused */
static int s_comp8_twice(void)
{
  tjhandle h = tj3Init(TJINIT_COMPRESS);
  unsigned char *out = NULL; size_t n = 0; int rc = 0;
  if (!h) { snprintf(msgbuf, sizeof(msgbuf), "%s", tj3GetErrorStr(NULL)); return -1; }
  if (tj3Set(h, TJPARAM_SUBSAMP, TJSAMP_420) < 0 || tj3Set(h, TJPARAM_QUALITY, 95) < 0) FAIL(h);
  if (tj3Compress8(h, rgb8, IW, 0, IH, TJPF_RGB, &out, &n) < 0) FAIL(h);
  if (tj3Set(h, TJPARAM_SUBSAMP, TJSAMP_444) < 0 || tj3Set(h, TJPARAM_PROGRESSIVE, 1) < 0) FAIL(h);
  if (tj3Compress8(h, rgb8, IW, 0, IH, TJPF_RGB, &out, &n) < 0) FAIL(h);
bail:
  tj3Free(out);
  tj3Destroy(h);
  return rc;
}

static int s_encyuv(void)
{
  tjhandle h = tj3Init(TJINIT_COMPRESS);
  unsigned char *yuv = NULL; int rc = 0; size_t sz;
  if (!h) { snprintf(msgbuf, sizeof(msgbuf), "%s", tj3GetErrorStr(NULL)); return -1; }
  if (tj3Set(h, TJPARAM_SUBSAMP, TJSAMP_420) < 0) FAIL(h);
  sz = tj3YUVBufSize(IW, 4, IH, TJSAMP_420);
  yuv = (unsigned char *)tj3Alloc(sz);
  if (!yuv) { snprintf(msgbuf, sizeof(msgbuf), "tj3Alloc failed"); rc = -1; goto bail; }
  if (tj3EncodeYUV8(h, rgb8, IW, 0, IH, TJPF_RGB, yuv, 4) < 0) FAIL(h);
bail:
  tj3Free(yuv);
  tj3Destroy(h);
  return rc;
}

static int s_compyuv(void)
{
  tjhandle h = tj3Init(TJINIT_COMPRESS);
  unsigned char *out = NULL; size_t n = 0; int rc = 0;
  if (!h) { snprintf(msgbuf, sizeof(msgbuf), "%s", tj3GetErrorStr(NULL)); return -1; }
  if (tj3Set(h, TJPARAM_SUBSAMP, TJSAMP_420) < 0 || tj3Set(h, TJPARAM_QUALITY, 80) < 0) FAIL(h);
  if (tj3CompressFromYUV8(h, yuv420, IW, 4, IH, &out, &n) < 0) FAIL(h);
bail:
  tj3Free(out);
  tj3Destroy(h);
  return rc;
}

typedef struct { const jpg_t *j; int prec, pf, scaleNum, scaleDenom, crop, fast, scanlimit, maxmem, header_only, icc, bottomup; } dparm;

static int s_dec(const dparm *p)
{
  tjhandle h = tj3Init(TJINIT_DECOMPRESS);
  int rc = 0, w, hh, ps = tjPixelSize[p->pf];
  void *dst = NULL; unsigned char *ic = NULL; size_t icn = 0;
  tjscalingfactor sf = { p->scaleNum ? p->scaleNum : 1, p->scaleDenom ? p->scaleDenom : 1 };
  if (!h) { snprintf(msgbuf, sizeof(msgbuf), "%s", tj3GetErrorStr(NULL)); return -1; }
  if (p->fast && (tj3Set(h, TJPARAM_FASTUPSAMPLE, 1) < 0 || tj3Set(h, TJPARAM_FASTDCT, 1) < 0)) FAIL(h);
  if (p->scanlimit && tj3Set(h, TJPARAM_SCANLIMIT, p->scanlimit) < 0) FAIL(h);
  if (p->maxmem && tj3Set(h, TJPARAM_MAXMEMORY, p->maxmem) < 0) FAIL(h);
  if (p->bottomup && tj3Set(h, TJPARAM_BOTTOMUP, 1) < 0) FAIL(h);
  if (tj3DecompressHeader(h, p->j->buf, p->j->size) < 0) FAIL(h);
  if (p->icc) { if (tj3GetICCProfile(h, &ic, &icn) < 0) FAIL(h); }
  if (p->header_only) goto bail;
  if (tj3SetScalingFactor(h, sf) < 0) FAIL(h);
  w = TJSCALED(tj3Get(h, TJPARAM_JPEGWIDTH), sf); hh = TJSCALED(tj3Get(h, TJPARAM_JPEGHEIGHT), sf);
  if (p->crop) {
    tjregion r = { 16, 8, 24, 16 };
    if (sf.denom == 2) { r.x = 8; r.y = 4; r.w = 16; r.h = 10; }
    if (tj3SetCroppingRegion(h, r) < 0) FAIL(h);
    w = r.w; hh = r.h;
  }
  dst = tj3Alloc((size_t)w * hh * ps * (p->prec > 8 ? 2 : 1));
  if (!dst) { snprintf(msgbuf, sizeof(msgbuf), "tj3Alloc failed"); rc = -1; goto bail; }
  if (p->prec <= 8) { if (tj3Decompress8(h, p->j->buf, p->j->size, (unsigned char *)dst, 0, p->pf) < 0) FAIL(h); }
  else if (p->prec <= 12) { if (tj3Decompress12(h, p->j->buf, p->j->size, (short *)dst, 0, p->pf) < 0) FAIL(h); }
  else { if (tj3Decompress16(h, p->j->buf, p->j->size, (unsigned short *)dst, 0, p->pf) < 0) FAIL(h); }
bail:
  tj3Free(ic);
  tj3Free(dst);
  tj3Destroy(h);
  return rc;
}
#define SDEC(name, ...) static int name(void) { dparm p = { __VA_ARGS__ }; return s_dec(&p); }
SDEC(s_dec8_420, &J420, 8, TJPF_RGB, 0, 0, 0, 0, 0, 0, 0, 0, 0)
SDEC(s_dec8_420_fast_bgrx, &J420, 8, TJPF_BGRX, 0, 0, 0, 1, 0, 0, 0, 0, 1)
SDEC(s_dec8_scale_half, &J420, 8, TJPF_RGB, 1, 2, 0, 0, 0, 0, 0, 0, 0)
SDEC(s_dec8_scale_3_8, &J444P, 8, TJPF_RGBA, 3, 8, 0, 0, 0, 0, 0, 0, 0)
SDEC(s_dec8_scale_2x, &J422O, 8, TJPF_RGB, 2, 1, 0, 0, 0, 0, 0, 0, 0)
SDEC(s_dec8_crop, &J420, 8, TJPF_RGB, 0, 0, 1, 0, 0, 0, 0, 0, 0)
SDEC(s_dec8_crop_scale, &J444P, 8, TJPF_RGB, 1, 2, 1, 0, 0, 0, 0, 0, 0)
SDEC(s_dec8_prog_scanlimit, &J444P, 8, TJPF_RGB, 0, 0, 0, 0, 100, 0, 0, 0, 0)
SDEC(s_dec8_prog_maxmem, &J444P, 8, TJPF_RGB, 0, 0, 0, 0, 0, 64, 0, 0, 0)
SDEC(s_dec8_gray_arith, &JGRAYA, 8, TJPF_GRAY, 0, 0, 0, 0, 0, 0, 0, 0, 0)
SDEC(s_dec8_gray_to_rgb, &JGRAYA, 8, TJPF_RGB, 0, 0, 0, 0, 0, 0, 0, 0, 0)
SDEC(s_dec8_422_restart, &J422O, 8, TJPF_BGR, 0, 0, 0, 0, 0, 0, 0, 0, 0)
SDEC(s_dec8_440, &J440, 8, TJPF_RGB, 0, 0, 0, 0, 0, 0, 0, 0, 0)
SDEC(s_dec8_cmyk, &JCMYK, 8, TJPF_CMYK, 0, 0, 0, 0, 0, 0, 0, 0, 0)
SDEC(s_dec8_ll, &JLL8, 8, TJPF_RGB, 0, 0, 0, 0, 0, 0, 0, 0, 0)
SDEC(s_dec12, &J12, 12, TJPF_RGB, 0, 0, 0, 0, 0, 0, 0, 0, 0)
SDEC(s_dec12_scale, &J12, 12, TJPF_RGB, 1, 4, 0, 0, 0, 0, 0, 0, 0)
SDEC(s_dec12_ll, &JLL12, 12, TJPF_RGB, 0, 0, 0, 0, 0, 0, 0, 0, 0)
SDEC(s_dec16_ll, &JLL16, 16, TJPF_RGB, 0, 0, 0, 0, 0, 0, 0, 0, 0)
SDEC(s_dec_header, &J420, 8, TJPF_RGB, 0, 0, 0, 0, 0, 0, 1, 0, 0)
SDEC(s_dec_icc, &JICC, 8, TJPF_RGB, 0, 0, 0, 0, 0, 0, 0, 1, 0)
SDEC(s_dec_icc_header, &JICC, 8, TJPF_RGB, 0, 0, 0, 0, 0, 0, 1, 1, 0)

static int s_dec2yuv(void)
{
  tjhandle h = tj3Init(TJINIT_DECOMPRESS);
  unsigned char *yuv = NULL; int rc = 0;
  if (!h) { snprintf(msgbuf, sizeof(msgbuf), "%s", tj3GetErrorStr(NULL)); return -1; }
  if (tj3DecompressHeader(h, J420.buf, J420.size) < 0) FAIL(h);
  yuv = (unsigned char *)tj3Alloc(tj3YUVBufSize(IW, 4, IH, TJSAMP_420));
  if (!yuv) { snprintf(msgbuf, sizeof(msgbuf), "tj3Alloc failed"); rc = -1; goto bail; }
  if (tj3DecompressToYUV8(h, J420.buf, J420.size, yuv, 4) < 0) FAIL(h);
bail:
  tj3Free(yuv);
  tj3Destroy(h);
  return rc;
}

static int s_dec2yuv_scaled_422(void)
{
  tjhandle h = tj3Init(TJINIT_DECOMPRESS);
  unsigned char *yuv = NULL; int rc = 0;
  tjscalingfactor sf = { 1, 2 };
  if (!h) { snprintf(msgbuf, sizeof(msgbuf), "%s", tj3GetErrorStr(NULL)); return -1; }
  if (tj3DecompressHeader(h, J422O.buf, J422O.size) < 0) FAIL(h);
  if (tj3SetScalingFactor(h, sf) < 0) FAIL(h);
  yuv = (unsigned char *)tj3Alloc(tj3YUVBufSize(TJSCALED(IW, sf), 1, TJSCALED(IH, sf), TJSAMP_422));
  if (!yuv) { snprintf(msgbuf, sizeof(msgbuf), "tj3Alloc failed"); rc = -1; goto bail; }
  if (tj3DecompressToYUV8(h, J422O.buf, J422O.size, yuv, 1) < 0) FAIL(h);
bail:
  tj3Free(yuv);
  tj3Destroy(h);
  return rc;
}

static int s_decodeyuv(void)
{
  tjhandle h = tj3Init(TJINIT_DECOMPRESS);
  unsigned char *dst = NULL; int rc = 0;
  if (!h) { snprintf(msgbuf, sizeof(msgbuf), "%s", tj3GetErrorStr(NULL)); return -1; }
  if (tj3Set(h, TJPARAM_SUBSAMP, TJSAMP_420) < 0) FAIL(h);
  dst = (unsigned char *)tj3Alloc(IW * IH * 4);
  if (!dst) { snprintf(msgbuf, sizeof(msgbuf), "tj3Alloc failed"); rc = -1; goto bail; }
  if (tj3DecodeYUV8(h, yuv420, 4, dst, IW, 0, IH, TJPF_RGBX) < 0) FAIL(h);
bail:
  tj3Free(dst);
  tj3Destroy(h);
  return rc;
}

typedef struct { const jpg_t *j; int n; int op[2]; int options[2]; int crop; int presize; int icc; int noRealloc; } xparm;

static int s_xform(const xparm *p)
{
  tjhandle h = tj3Init(TJINIT_TRANSFORM);
  unsigned char *dst[2] = { NULL, NULL }; size_t dn[2] = { 0, 0 };
  tjtransform t[2]; int rc = 0, i;
  if (!h) { snprintf(msgbuf, sizeof(msgbuf), "%s", tj3GetErrorStr(NULL)); return -1; }
  memset(t, 0, sizeof(t));
  for (i = 0; i < p->n; i++) {
    t[i].op = p->op[i]; t[i].options = p->options[i];
    if (p->crop && i == 0) { t[i].r.x = 16; t[i].r.y = 16; t[i].r.w = 16; t[i].r.h = 16; t[i].options |= TJXOPT_CROP; }
  }
  if (p->icc && tj3SetICCProfile(h, icc, sizeof(icc)) < 0) FAIL(h);
  if (p->noRealloc) {
    if (tj3Set(h, TJPARAM_NOREALLOC, 1) < 0) FAIL(h);
    if (tj3DecompressHeader(h, p->j->buf, p->j->size) < 0) FAIL(h);
    for (i = 0; i < p->n; i++) {
      dn[i] = tj3TransformBufSize(h, &t[i]);
      if (dn[i] == 0) FAIL(h);
      dst[i] = (unsigned char *)tj3Alloc(dn[i]);
      if (!dst[i]) { snprintf(msgbuf, sizeof(msgbuf), "tj3Alloc failed"); rc = -1; goto bail; }
    }
  }
  if (tj3Transform(h, p->j->buf, p->j->size, p->n, dst, dn, t) < 0) FAIL(h);
bail:
  tj3Free(dst[0]); tj3Free(dst[1]);
  tj3Destroy(h);
  return rc;
}
#define SX(name, ...) static int name(void) { xparm p = { __VA_ARGS__ }; return s_xform(&p); }
SX(s_xform_none, &J420, 1, { TJXOP_NONE, 0 }, { 0, 0 }, 0, 0, 0, 0)
SX(s_xform_rot90_crop, &J420, 1, { TJXOP_ROT90, 0 }, { TJXOPT_TRIM, 0 }, 1, 0, 0, 0)
SX(s_xform_hflip_perfect, &J444P, 1, { TJXOP_HFLIP, 0 }, { TJXOPT_PERFECT, 0 }, 0, 0, 0, 0)
SX(s_xform_gray_prog, &J420, 1, { TJXOP_TRANSPOSE, 0 }, { TJXOPT_GRAY | TJXOPT_PROGRESSIVE, 0 }, 0, 0, 0, 0)
SX(s_xform_arith_copynone, &J422O, 1, { TJXOP_ROT180, 0 }, { TJXOPT_ARITHMETIC | TJXOPT_COPYNONE | TJXOPT_TRIM, 0 }, 0, 0, 0, 0)
SX(s_xform_optimize, &JGRAYA, 1, { TJXOP_VFLIP, 0 }, { TJXOPT_OPTIMIZE | TJXOPT_TRIM, 0 }, 0, 0, 0, 0)
SX(s_xform_multi, &J420, 2, { TJXOP_ROT270, TJXOP_TRANSVERSE }, { TJXOPT_TRIM, TJXOPT_TRIM | TJXOPT_PROGRESSIVE }, 1, 0, 0, 0)
SX(s_xform_nooutput, &J420, 1, { TJXOP_ROT90, 0 }, { TJXOPT_NOOUTPUT | TJXOPT_TRIM, 0 }, 0, 0, 0, 0)
SX(s_xform_icc_norealloc, &JICC, 1, { TJXOP_NONE, 0 }, { 0, 0 }, 0, 0, 1, 1)
SX(s_xform_12bit, &J12, 1, { TJXOP_ROT90, 0 }, { TJXOPT_TRIM, 0 }, 0, 0, 0, 0)
SX(s_xform_lossless_src, &JLL8, 1, { TJXOP_NONE, 0 }, { 0, 0 }, 0, 0, 0, 0)

static char f_junk[1024], f_trunc[1024];
static char f_ppm8[1024], f_pgm8[1024], f_bmp8[1024], f_ppm12[1024], f_ppm16[1024], f_out[1024], f_huge[1024], f_ppm_lim[1024], f_bmp_lim[1024];

static int s_load8(const char *fn, int pfwant)
{
  tjhandle h = tj3Init(TJINIT_COMPRESS);
  int w = 0, hh = 0, pf = pfwant, rc = 0; unsigned char *img = NULL;
  if (!h) { snprintf(msgbuf, sizeof(msgbuf), "%s", tj3GetErrorStr(NULL)); return -1; }
  img = tj3LoadImage8(h, fn, &w, 4, &hh, &pf);
  if (!img) FAIL(h);
bail:
  tj3Free(img);
  tj3Destroy(h);
  return rc;
}
static int s_load8_ppm(void) { return s_load8(f_ppm8, TJPF_RGB); }
static int s_load8_ppm_cmyk(void) { return s_load8(f_ppm8, TJPF_CMYK); }
static int s_load8_pgm_unknown(void) { return s_load8(f_pgm8, TJPF_UNKNOWN); }
static int s_load8_bmp(void) { return s_load8(f_bmp8, TJPF_BGRX); }

static int s_load12_ppm(void)
{
  tjhandle h = tj3Init(TJINIT_COMPRESS);
  int w = 0, hh = 0, pf = TJPF_RGB, rc = 0; short *img = NULL;
  if (!h) { snprintf(msgbuf, sizeof(msgbuf), "%s", tj3GetErrorStr(NULL)); return -1; }
  img = tj3LoadImage12(h, f_ppm12, &w, 1, &hh, &pf);
  if (!img) FAIL(h);
bail:
  tj3Free(img);
  tj3Destroy(h);
  return rc;
}
static int s_load16_ppm(void)
{
  tjhandle h = tj3Init(TJINIT_COMPRESS);
  int w = 0, hh = 0, pf = TJPF_RGB, rc = 0; unsigned short *img = NULL;
  if (!h) { snprintf(msgbuf, sizeof(msgbuf), "%s", tj3GetErrorStr(NULL)); return -1; }
  img = tj3LoadImage16(h, f_ppm16, &w, 1, &hh, &pf);
  if (!img) FAIL(h);
bail:
  tj3Free(img);
  tj3Destroy(h);
  return rc;
}
static int s_save(int prec, int bmp)
{
  tjhandle h = tj3Init(TJINIT_DECOMPRESS);
  int rc = 0; char fn[1100];
  if (!h) { snprintf(msgbuf, sizeof(msgbuf), "%s", tj3GetErrorStr(NULL)); return -1; }
  snprintf(fn, sizeof(fn), "%s.%s", f_out, bmp ? "bmp" : "ppm");
  if (prec == 8) { if (tj3SaveImage8(h, fn, rgb8, IW, 0, IH, TJPF_RGB) < 0) FAIL(h); }
  else if (prec == 12) { if (tj3SaveImage12(h, fn, rgb12, IW, 0, IH, TJPF_RGB) < 0) FAIL(h); }
  else { if (tj3SaveImage16(h, fn, rgb16, IW, 0, IH, TJPF_RGB) < 0) FAIL(h); }
bail:
  tj3Destroy(h);
  return rc;
}
static int s_save8_ppm(void) { return s_save(8, 0); }
static int s_save8_bmp(void) { return s_save(8, 1); }
static int s_save12_ppm(void) { return s_save(12, 0); }
static int s_save16_ppm(void) { return s_save(16, 0); }

/* ------------------------------------------------------------- libjpeg API */
struct my_err { struct jpeg_error_mgr pub; jmp_buf jb; };
static void lj_exit(j_common_ptr c)
{
  struct my_err *e = (struct my_err *)c->err;
  (*c->err->format_message) (c, msgbuf);
  longjmp(e->jb, 1);
}
static void lj_emit(j_common_ptr c, int l) { (void)c; (void)l; }

/* compress into a caller-provided buffer that is large enough (no growth) or into a
   library-allocated one (grow != 0; the image is chosen so that the 4096-byte initial
   buffer has to grow twice) */
static unsigned char *lj_out; static unsigned long lj_n;
static int lj_comp(int grow, int prog, int opt, int arith, int icc_on, int prec12)
{
  struct jpeg_compress_struct ci; struct my_err je;
  static unsigned char fixed[1 << 17];
  volatile int rc = 0; volatile int dest_set = 0;
  int w = grow ? BW : IW, h = grow ? BH : IH;
  lj_out = grow ? NULL : fixed; lj_n = grow ? 0 : sizeof(fixed);
  memset(&ci, 0, sizeof(ci));
  ci.err = jpeg_std_error(&je.pub); je.pub.error_exit = lj_exit; je.pub.emit_message = lj_emit;
  /* as in example.c the handler destroys the object whatever failed; like turbojpeg.c it first asks
     the memory destination manager for the current buffer (jdatadst.c: "surrounding application
     must deal with any cleanup that should happen even for error exit") */
  if (setjmp(je.jb)) { rc = -1; if (dest_set) (*ci.dest->term_destination) (&ci); goto done; }
  jpeg_create_compress(&ci);
  jpeg_mem_dest(&ci, &lj_out, &lj_n); dest_set = 1;
  ci.image_width = w; ci.image_height = h; ci.input_components = 3; ci.in_color_space = JCS_RGB;
  if (prec12) ci.data_precision = 12;
  jpeg_set_defaults(&ci);
  jpeg_set_quality(&ci, grow ? 100 : 80, TRUE);
  if (prog) jpeg_simple_progression(&ci);
  ci.optimize_coding = opt; ci.arith_code = arith;
  if (grow) { ci.comp_info[0].h_samp_factor = 1; ci.comp_info[0].v_samp_factor = 1; }
  jpeg_start_compress(&ci, TRUE);
  if (icc_on) jpeg_write_icc_profile(&ci, icc, sizeof(icc));
  while (ci.next_scanline < ci.image_height) {
    if (prec12) { J12SAMPROW row = (J12SAMPROW)&rgb12[ci.next_scanline * IW * 3]; jpeg12_write_scanlines(&ci, &row, 1); }
    else { JSAMPROW row = grow ? &big8[ci.next_scanline * BW * 3] : &rgb8[ci.next_scanline * IW * 3]; jpeg_write_scanlines(&ci, &row, 1); }
  }
  jpeg_finish_compress(&ci);
done:
  jpeg_destroy_compress(&ci);
  /* the application owns whatever jpeg_mem_dest left in *outbuffer */
  if (grow) free(lj_out);
  return rc;
}
static int s_lj_comp(void) { return lj_comp(0, 0, 0, 0, 0, 0); }
static int s_lj_comp_prog_opt_icc(void) { return lj_comp(0, 1, 1, 0, 1, 0); }
static int s_lj_comp_arith(void) { return lj_comp(0, 0, 0, 1, 0, 0); }
static int s_lj_comp12(void) { return lj_comp(0, 0, 0, 0, 0, 1); }
static int s_lj_comp_libbuf(void) { return lj_comp(1, 0, 0, 0, 0, 0); }

static int lj_dec(const jpg_t *j, int buffered, int quant, int iccread, int scale_denom)
{
  struct jpeg_decompress_struct di; struct my_err je;
  JOCTET * volatile iccp = NULL; unsigned int iccn = 0;
  volatile int rc = 0; volatile int created = 0;
  static unsigned char rowbuf[IW * 4 * 4];
  JSAMPROW row = rowbuf;
  memset(&di, 0, sizeof(di));
  di.err = jpeg_std_error(&je.pub); je.pub.error_exit = lj_exit; je.pub.emit_message = lj_emit;
  if (setjmp(je.jb)) { rc = -1; goto done; }
  jpeg_create_decompress(&di); created = 1;
  jpeg_mem_src(&di, j->buf, (unsigned long)j->size);
  if (iccread) jpeg_save_markers(&di, JPEG_APP0 + 2, 0xFFFF);
  jpeg_read_header(&di, TRUE);
  if (iccread) { JOCTET *q = NULL; jpeg_read_icc_profile(&di, &q, &iccn); iccp = q; }
  if (scale_denom) { di.scale_num = 1; di.scale_denom = scale_denom; }
  if (quant) { di.quantize_colors = TRUE; di.desired_number_of_colors = 64; di.two_pass_quantize = (quant == 2); di.dither_mode = quant == 2 ? JDITHER_FS : JDITHER_ORDERED; }
  if (buffered) {
    di.buffered_image = TRUE;
    jpeg_start_decompress(&di);
    while (!jpeg_input_complete(&di)) {
      jpeg_start_output(&di, di.input_scan_number);
      while (di.output_scanline < di.output_height) jpeg_read_scanlines(&di, &row, 1);
      jpeg_finish_output(&di);
    }
  } else {
    jpeg_start_decompress(&di);
    while (di.output_scanline < di.output_height) jpeg_read_scanlines(&di, &row, 1);
  }
  jpeg_finish_decompress(&di);
done:
  jpeg_destroy_decompress(&di);
  free((void *)iccp);
  return rc;
}
static int s_lj_dec(void) { return lj_dec(&J420, 0, 0, 0, 0); }
static int s_lj_dec_icc(void) { return lj_dec(&JICC, 0, 0, 1, 0); }
static int s_lj_dec_buffered_prog(void) { return lj_dec(&J444P, 1, 0, 0, 0); }
static int s_lj_dec_quant1(void) { return lj_dec(&J420, 0, 1, 0, 2); }
static int s_lj_dec_quant2(void) { return lj_dec(&J444P, 0, 2, 0, 0); }

/* transcode with the libjpeg coefficient API */
static int s_lj_coef(void)
{
  struct jpeg_decompress_struct di; struct jpeg_compress_struct ci; struct my_err je;
  static unsigned char fixed[1 << 17];
  unsigned char *out = fixed; unsigned long n = sizeof(fixed);
  volatile int rc = 0; volatile int cd = 0, cc = 0;
  jvirt_barray_ptr *coefs;
  memset(&di, 0, sizeof(di)); memset(&ci, 0, sizeof(ci));
  di.err = jpeg_std_error(&je.pub); je.pub.error_exit = lj_exit; je.pub.emit_message = lj_emit;
  ci.err = &je.pub;
  if (setjmp(je.jb)) { rc = -1; goto done; }
  jpeg_create_decompress(&di); cd = 1;
  jpeg_create_compress(&ci); cc = 1;
  jpeg_mem_src(&di, J420.buf, (unsigned long)J420.size);
  jpeg_read_header(&di, TRUE);
  coefs = jpeg_read_coefficients(&di);
  jpeg_copy_critical_parameters(&di, &ci);
  ci.optimize_coding = TRUE;
  jpeg_mem_dest(&ci, &out, &n);
  jpeg_write_coefficients(&ci, coefs);
  jpeg_finish_compress(&ci);
  jpeg_finish_decompress(&di);
done:
  jpeg_destroy_compress(&ci);
  jpeg_destroy_decompress(&di);
  return rc;
}

/* abort + reuse of one libjpeg decompress object on two images */
static int s_lj_dec_reuse(void)
{
  struct jpeg_decompress_struct di; struct my_err je;
  volatile int rc = 0; volatile int created = 0; volatile int round = 0;
  static unsigned char rowbuf[IW * 4 * 4];
  JSAMPROW row = rowbuf;
  memset(&di, 0, sizeof(di));
  di.err = jpeg_std_error(&je.pub); je.pub.error_exit = lj_exit; je.pub.emit_message = lj_emit;
  if (setjmp(je.jb)) { rc = -1; goto done; }
  jpeg_create_decompress(&di); created = 1;
  for (round = 0; round < 2; round++) {
    const jpg_t *j = round ? &J444P : &J420;
    jpeg_mem_src(&di, j->buf, (unsigned long)j->size);
    jpeg_read_header(&di, TRUE);
    jpeg_start_decompress(&di);
    while (di.output_scanline < di.output_height / 2) jpeg_read_scanlines(&di, &row, 1);
    jpeg_abort_decompress(&di);
  }
done:
  jpeg_destroy_decompress(&di);
  return rc;
}


/* ====================================================================== */
/* (b) failed calls that do NOT longjmp, (c) sequences on one object        */
static const char *scn_arg = "";          /* parameter string of the running family scenario */
static unsigned char bigicc[10000];

#define NOHANDLE() do { snprintf(msgbuf, sizeof(msgbuf), "%s", tj3GetErrorStr(NULL)); return -1; } while (0)
#define UNEXPECTED(what) do { snprintf(msgbuf, sizeof(msgbuf), "EXPECTED ERROR NOT REPORTED: %s", what); rc = 2; goto bail; } while (0)

static int filt_fail_tid, filt_fail_after, filt_calls;
static int my_filter(short *coeffs, tjregion a, tjregion pl, int comp, int tid, tjtransform *t)
{
  (void)coeffs; (void)a; (void)pl; (void)comp; (void)t;
  if (tid == filt_fail_tid && filt_calls++ >= filt_fail_after) return -1;
  return 0;
}

/* arg "n fail later icc buf": n transforms; the custom filter of transform #fail returns -1 (at its first call or, later=1,
   at its 4th); icc=1: a 10000-byte ICC profile makes the headers outgrow the initial 4096-byte buffer;
   buf 0 = library-owned (NULL), 1 = caller-owned worst-case buffers + TJPARAM_NOREALLOC, 2 = caller-supplied 100-byte
   buffers (reallocation allowed; the caller's own buffer stays the caller's).  After the failed call every dstBufs[i]
   must be NULL or a live block: it is written through and freed; then the instance is used again and destroyed. */
static int s_xf_filt(void)
{
  int n = 1, fail = 0, later = 0, icc_on = 0, buf = 0;
  tjhandle h; unsigned char *dst[2] = { NULL, NULL }, *own[2] = { NULL, NULL }; size_t dn[2] = { 0, 0 };
  tjtransform t[2]; int rc = 0, i, r;
  sscanf(scn_arg, "%d %d %d %d %d", &n, &fail, &later, &icc_on, &buf);
  h = tj3Init(TJINIT_TRANSFORM);
  if (!h) NOHANDLE();
  memset(t, 0, sizeof(t));
  for (i = 0; i < n; i++) { t[i].op = i ? TJXOP_VFLIP : TJXOP_NONE; t[i].options = TJXOPT_TRIM; t[i].customFilter = my_filter; }
  filt_fail_tid = fail; filt_fail_after = later ? 3 : 0; filt_calls = 0;
  if (icc_on && tj3SetICCProfile(h, bigicc, sizeof(bigicc)) < 0) FAIL(h);
  if (buf == 1) {
    if (tj3Set(h, TJPARAM_NOREALLOC, 1) < 0) FAIL(h);
    if (tj3DecompressHeader(h, J420.buf, J420.size) < 0) FAIL(h);
    for (i = 0; i < n; i++) {
      dn[i] = tj3TransformBufSize(h, &t[i]);
      if (dn[i] == 0) FAIL(h);
      own[i] = dst[i] = (unsigned char *)app_alloc(dn[i]);
    }
  } else if (buf == 2) {
    for (i = 0; i < n; i++) { own[i] = dst[i] = (unsigned char *)app_alloc(100); dn[i] = 100; }
  }
  r = tj3Transform(h, J420.buf, J420.size, n, dst, dn, t);
  for (i = 0; i < 2; i++) {            /* whatever happened: the caller owns dstBufs[i] now */
    use_ptr(dst[i]);
    if (dst[i] != own[i]) { adopt(dst[i]); app_tjfree(dst[i]); }
    app_tjfree(own[i]);
    dst[i] = own[i] = NULL; dn[i] = 0;
  }
  if (r < 0 && fail < 0) FAIL(h);
  if (r == 0 && fail >= 0 && fail < n) UNEXPECTED("custom filter returned -1 but tj3Transform succeeded");
  if (r < 0 && !strstr(tj3GetErrorStr(h), "custom filter")) FAIL(h);        /* some injected failure came first */
  /* the instance must still work */
  if (buf == 1 && tj3Set(h, TJPARAM_NOREALLOC, 0) < 0) FAIL(h);
  t[0].customFilter = NULL;
  r = tj3Transform(h, J420.buf, J420.size, 1, dst, dn, t);
  use_ptr(dst[0]); adopt(dst[0]); app_tjfree(dst[0]); dst[0] = NULL;
  if (r < 0) FAIL(h);
bail:
  tj3Destroy(h);
  return rc;
}

/* arg = name of a failing call that ends in THROW (plain goto bailout, no longjmp) after resources were acquired; afterwards
   the instance is used successfully and destroyed */
static int s_err(void)
{
  const char *k = scn_arg;
  int isx = !strncmp(k, "xform", 5), isc = !strncmp(k, "comp", 4) || !strncmp(k, "encyuv", 6) || !strncmp(k, "load", 4);
  tjhandle h = tj3Init(isx ? TJINIT_TRANSFORM : isc ? TJINIT_COMPRESS : TJINIT_DECOMPRESS);
  int rc = 0, r = 0, w = 0, hh = 0, pf = TJPF_RGB;
  unsigned char *out = NULL, *dstb = NULL, *img = NULL; size_t on = 0;
  unsigned char *xd[1] = { NULL }; size_t xn[1] = { 0 }; tjtransform t; const char *want = "";
  if (!h) NOHANDLE();
  memset(&t, 0, sizeof(t));
  dstb = (unsigned char *)app_alloc((size_t)BW * BH * 4 + 4096);
  if (!strcmp(k, "comp_nosubsamp")) { r = tj3Compress8(h, rgb8, IW, 0, IH, TJPF_RGB, &out, &on); want = "must be specified"; }
  else if (!strcmp(k, "comp_16_lossy")) {
    if (tj3Set(h, TJPARAM_SUBSAMP, TJSAMP_444) < 0 || tj3Set(h, TJPARAM_QUALITY, 80) < 0) FAIL(h);
    r = tj3Compress16(h, rgb16, IW, 0, IH, TJPF_RGB, &out, &on); want = "";
  } else if (!strcmp(k, "comp_after_ok_then_bad")) {
    /* a good image into a library buffer, then a failing call that is handed the same buffer */
    if (tj3Set(h, TJPARAM_SUBSAMP, TJSAMP_444) < 0 || tj3Set(h, TJPARAM_QUALITY, 80) < 0) FAIL(h);
    if (tj3Compress8(h, rgb8, IW, 0, IH, TJPF_RGB, &out, &on) < 0) FAIL(h);
    r = tj3Compress16(h, rgb16, IW, 0, IH, TJPF_RGB, &out, &on); want = "";
  } else if (!strcmp(k, "encyuv_cmyk")) {
    if (tj3Set(h, TJPARAM_SUBSAMP, TJSAMP_420) < 0) FAIL(h);
    r = tj3EncodeYUV8(h, cmyk8, IW, 0, IH, TJPF_CMYK, dstb, 4); want = "CMYK";
  } else if (!strcmp(k, "dec_maxpixels")) {
    if (tj3Set(h, TJPARAM_MAXPIXELS, 10) < 0) FAIL(h);
    r = tj3Decompress8(h, J420.buf, J420.size, dstb, 0, TJPF_RGB); want = "too large";
    if (tj3Set(h, TJPARAM_MAXPIXELS, 0) < 0) FAIL(h);
  } else if (!strcmp(k, "dec_crop_other_image")) {
    /* cropping region valid for the 96x96 image, then a 53x37 image is decompressed */
    tjregion cr = { 0, 40, 48, 50 };
    prep_big();
    if (tj3DecompressHeader(h, JBIG.buf, JBIG.size) < 0) FAIL(h);
    if (tj3SetCroppingRegion(h, cr) < 0) FAIL(h);
    r = tj3Decompress8(h, J444P.buf, J444P.size, dstb, 0, TJPF_RGB); want = "ropping region";
    { tjregion none = { 0, 0, 0, 0 }; if (tj3SetCroppingRegion(h, none) < 0) FAIL(h); }
  } else if (!strcmp(k, "dec_lossless_crop")) {
    tjregion cr = { 8, 0, 16, 16 };
    if (tj3DecompressHeader(h, JLL8.buf, JLL8.size) < 0) FAIL(h);
    r = tj3SetCroppingRegion(h, cr); want = "lossless";
  } else if (!strcmp(k, "dec_badscale")) {
    tjscalingfactor sf = { 3, 7 };
    r = tj3SetScalingFactor(h, sf); want = "scaling factor";
  } else if (!strcmp(k, "dec2yuv_cmyk")) { r = tj3DecompressToYUV8(h, JCMYK.buf, JCMYK.size, dstb, 4); want = "3 or fewer components"; }
  else if (!strcmp(k, "dec2yuv_maxpixels")) {
    if (tj3Set(h, TJPARAM_MAXPIXELS, 10) < 0) FAIL(h);
    r = tj3DecompressToYUV8(h, J420.buf, J420.size, dstb, 4); want = "too large";
    if (tj3Set(h, TJPARAM_MAXPIXELS, 0) < 0) FAIL(h);
  } else if (!strcmp(k, "decodeyuv_cmyk")) {
    if (tj3Set(h, TJPARAM_SUBSAMP, TJSAMP_420) < 0) FAIL(h);
    r = tj3DecodeYUV8(h, yuv420, 4, dstb, IW, 0, IH, TJPF_CMYK); want = "CMYK";
  } else if (!strcmp(k, "geticc_none")) {
    unsigned char *ic = NULL; size_t icn = 0;
    if (tj3DecompressHeader(h, J420.buf, J420.size) < 0) FAIL(h);
    r = tj3GetICCProfile(h, &ic, &icn); use_ptr(ic); adopt(ic); app_tjfree(ic);
    want = ""; if (r == 0 && (ic != NULL || icn != 0)) UNEXPECTED("ICC profile returned for an image without one");
    r = -1;
  } else if (!strcmp(k, "header_garbage")) {
    static const unsigned char junk[64] = { 0xFF, 0xD8, 0xFF, 0xC0, 0, 4, 1, 2, 3 };
    r = tj3DecompressHeader(h, junk, sizeof(junk)); want = "";
  } else if (!strcmp(k, "xform_badop")) { t.op = 99; r = tj3Transform(h, J420.buf, J420.size, 1, xd, xn, &t); want = "Invalid transform operation"; t.op = 0; }
  else if (!strcmp(k, "xform_badcrop")) { t.options = TJXOPT_CROP; t.r.x = -8; t.r.w = 8; t.r.h = 8; r = tj3Transform(h, J420.buf, J420.size, 1, xd, xn, &t); want = "Invalid cropping region"; }
  else if (!strcmp(k, "xform_cropalign")) { t.options = TJXOPT_CROP; t.r.x = 5; t.r.y = 3; t.r.w = 8; t.r.h = 8; r = tj3Transform(h, J420.buf, J420.size, 1, xd, xn, &t); want = "multiple of"; }
  else if (!strcmp(k, "xform_cropexceeds")) { t.options = TJXOPT_CROP; t.r.x = 48; t.r.y = 32; t.r.w = 32; t.r.h = 32; r = tj3Transform(h, J420.buf, J420.size, 1, xd, xn, &t); want = ""; }
  else if (!strcmp(k, "xform_maxpixels")) {
    if (tj3Set(h, TJPARAM_MAXPIXELS, 10) < 0) FAIL(h);
    r = tj3Transform(h, J420.buf, J420.size, 1, xd, xn, &t); want = "too large";
    if (tj3Set(h, TJPARAM_MAXPIXELS, 0) < 0) FAIL(h);
  } else if (!strcmp(k, "xform_notperfect_second")) {
    /* two transforms, the second one is not perfect: THROW after the first workspace was requested */
    tjtransform tt[2]; unsigned char *d2[2] = { NULL, NULL }; size_t n2[2] = { 0, 0 };
    memset(tt, 0, sizeof(tt)); tt[1].op = TJXOP_HFLIP; tt[1].options = TJXOPT_PERFECT;
    r = tj3Transform(h, J420.buf, J420.size, 2, d2, n2, tt); want = "not perfect";
    use_ptr(d2[0]); use_ptr(d2[1]); adopt(d2[0]); adopt(d2[1]); app_tjfree(d2[0]); app_tjfree(d2[1]);
  } else if (!strcmp(k, "load_nofile")) { img = tj3LoadImage8(h, "/nonexistent/c14.ppm", &w, 1, &hh, &pf); r = img ? 0 : -1; want = "open input file"; }
  else if (!strcmp(k, "load_badalign")) { img = tj3LoadImage8(h, f_ppm8, &w, 3, &hh, &pf); r = img ? 0 : -1; want = "power of 2"; }
  else if (!strcmp(k, "load_unsupported")) { img = tj3LoadImage8(h, f_junk, &w, 1, &hh, &pf); r = img ? 0 : -1; want = "nsupported file type"; }
  else if (!strcmp(k, "load_truncated")) { img = tj3LoadImage8(h, f_trunc, &w, 1, &hh, &pf); r = img ? 0 : -1; want = ""; }
  else if (!strcmp(k, "save_badpath")) { r = tj3SaveImage8(h, "/nonexistent/dir/out.ppm", rgb8, IW, 0, IH, TJPF_RGB); want = "open output file"; }
  else { snprintf(msgbuf, sizeof(msgbuf), "unknown err scenario %s", k); rc = 3; goto bail; }
  /* the caller owns whatever the failed call left in its output pointers */
  use_ptr(out); use_ptr(xd[0]); use_ptr(img);
  if (r == 0 && strcmp(k, "load_truncated")) UNEXPECTED(k);
  if (r < 0 && want[0] && !strstr(tj3GetErrorStr(h), want)) FAIL(h);       /* an injected failure came first */
  adopt(img); app_tjfree(img); img = NULL;
  adopt(xd[0]); app_tjfree(xd[0]); xd[0] = NULL; xn[0] = 0;
  /* follow-up: the instance still works, with the buffer the failed call may have left */
  if (isx) {
    memset(&t, 0, sizeof(t));
    if (tj3Transform(h, J420.buf, J420.size, 1, xd, xn, &t) < 0) FAIL(h);
    use_ptr(xd[0]);
  } else if (isc) {
    if (tj3Set(h, TJPARAM_SUBSAMP, TJSAMP_420) < 0 || tj3Set(h, TJPARAM_QUALITY, 70) < 0) FAIL(h);
    lend(out);
    if (tj3Compress8(h, rgb8, IW, 0, IH, TJPF_RGB, &out, &on) < 0) FAIL(h);
    use_ptr(out);
  } else {
    if (tj3Decompress8(h, J420.buf, J420.size, dstb, 0, TJPF_RGB) < 0) FAIL(h);
  }
bail:
  adopt(out); app_tjfree(out); adopt(xd[0]); app_tjfree(xd[0]); adopt(img); app_tjfree(img);
  app_tjfree(dstb);
  tj3Destroy(h);
  return rc;
}

/* the ICC profile of one instance is set, replaced by a larger and a smaller one, used, cleared */
static int s_icc_replace(void)
{
  tjhandle h = tj3Init(TJINIT_COMPRESS); unsigned char *out = NULL; size_t n = 0; int rc = 0;
  if (!h) NOHANDLE();
  if (tj3SetICCProfile(h, icc, 300) < 0) FAIL(h);
  if (tj3SetICCProfile(h, bigicc, sizeof(bigicc)) < 0) FAIL(h);
  if (tj3SetICCProfile(h, icc, sizeof(icc)) < 0) FAIL(h);
  if (tj3Set(h, TJPARAM_SUBSAMP, TJSAMP_420) < 0 || tj3Set(h, TJPARAM_QUALITY, 80) < 0) FAIL(h);
  if (tj3Compress8(h, rgb8, IW, 0, IH, TJPF_RGB, &out, &n) < 0) FAIL(h);
  if (tj3SetICCProfile(h, NULL, 0) < 0) FAIL(h);
  if (tj3SetICCProfile(h, bigicc, 5000) < 0) FAIL(h);
bail:
  tj3Free(out);
  tj3Destroy(h);
  return rc;
}
static int s_icc_replace_xform(void)
{
  tjhandle h = tj3Init(TJINIT_TRANSFORM); unsigned char *d[1] = { NULL }; size_t n[1] = { 0 }; tjtransform t; int rc = 0;
  if (!h) NOHANDLE();
  memset(&t, 0, sizeof(t));
  if (tj3SetICCProfile(h, bigicc, 6000) < 0) FAIL(h);
  if (tj3Transform(h, J420.buf, J420.size, 1, d, n, &t) < 0) FAIL(h);
  if (tj3SetICCProfile(h, bigicc, sizeof(bigicc)) < 0) FAIL(h);
  if (tj3SetICCProfile(h, icc, 100) < 0) FAIL(h);
bail:
  tj3Free(d[0]);
  tj3Destroy(h);
  return rc;
}

/* (c) libjpeg API: several images through ONE compression object with jpeg_mem_dest.  arg = pairs of characters:
   L library-allocated buffer (NULL), S / M caller-supplied 100 / 4096 bytes (outgrown), B caller-supplied 128 KB (enough);
   f the application frees the result before the next image, k it keeps all results until the end. */
static unsigned char *sq_out, *sq_own; static unsigned long sq_n;
static unsigned char *sq_kept[32]; static int sq_nkept;
static void sq_settle(int keep)
{
  if (sq_out != sq_own) adopt(sq_out);       /* a buffer the library allocated is handed over with the result */
  use_ptr(sq_out); use_ptr(sq_own);
  if (keep) {
    if (sq_out && sq_out != sq_own && sq_nkept < 32) sq_kept[sq_nkept++] = sq_out;
    if (sq_own && sq_nkept < 32) sq_kept[sq_nkept++] = sq_own;
  } else {
    if (sq_out != sq_own) app_free(sq_out);
    app_free(sq_own);
  }
  sq_out = sq_own = NULL; sq_n = 0;
}
static int s_lj_seq(void)
{
  struct jpeg_compress_struct ci; struct my_err je;
  volatile int rc = 0, dest_set = 0, img = 0; int i;
  const char *pat = scn_arg;
  sq_out = sq_own = NULL; sq_n = 0; sq_nkept = 0;
  memset(&ci, 0, sizeof(ci));
  ci.err = jpeg_std_error(&je.pub); je.pub.error_exit = lj_exit; je.pub.emit_message = lj_emit;
  if (setjmp(je.jb)) { rc = -1; if (dest_set) (*ci.dest->term_destination) (&ci); goto done; }
  jpeg_create_compress(&ci);
  for (img = 0; pat[2 * img] && pat[2 * img + 1]; img++) {
    char mode = pat[2 * img];
    unsigned long sz = mode == 'S' ? 100 : mode == 'M' ? 4096 : mode == 'B' ? (1 << 17) : 0;
    if (sz) { sq_own = (unsigned char *)app_malloc(sz); sq_out = sq_own; sq_n = sz; }
    jpeg_mem_dest(&ci, &sq_out, &sq_n); dest_set = 1;
    ci.image_width = BW; ci.image_height = BH; ci.input_components = 3; ci.in_color_space = JCS_RGB;
    jpeg_set_defaults(&ci);
    jpeg_set_quality(&ci, img & 1 ? 95 : 100, TRUE);
    jpeg_start_compress(&ci, TRUE);
    while (ci.next_scanline < ci.image_height) { JSAMPROW row = &big8[ci.next_scanline * BW * 3]; jpeg_write_scanlines(&ci, &row, 1); }
    jpeg_finish_compress(&ci); dest_set = 0;
    if (sq_n < 1000) { snprintf(msgbuf, sizeof(msgbuf), "implausible JPEG size %lu", sq_n); rc = 2; }
    sq_settle(pat[2 * img + 1] == 'k');
  }
done:
  sq_settle(0);
  for (i = 0; i < sq_nkept; i++) app_free(sq_kept[i]);
  sq_nkept = 0;
  jpeg_destroy_compress(&ci);
  return rc;
}

/* the same with the TurboJPEG API on one compression instance: L NULL buffer, S caller-supplied 100-byte buffer
   (reallocation allowed), N worst-case caller buffer + TJPARAM_NOREALLOC, R the previous result is passed in again */
static int s_tj_seq(void)
{
  tjhandle h = tj3Init(TJINIT_COMPRESS);
  const char *pat = scn_arg; int rc = 0, img, i;
  unsigned char *prev = NULL; size_t prevn = 0;
  sq_nkept = 0;
  if (!h) NOHANDLE();
  if (tj3Set(h, TJPARAM_SUBSAMP, TJSAMP_444) < 0) FAIL(h);
  for (img = 0; pat[2 * img] && pat[2 * img + 1]; img++) {
    char mode = pat[2 * img]; int keep = pat[2 * img + 1] == 'k', r;
    unsigned char *own = NULL, *out = NULL; size_t on = 0;
    if (tj3Set(h, TJPARAM_QUALITY, img & 1 ? 90 : 100) < 0) FAIL(h);
    if (tj3Set(h, TJPARAM_NOREALLOC, mode == 'N') < 0) FAIL(h);
    if (mode == 'S') { own = out = (unsigned char *)app_alloc(100); on = 100; }
    else if (mode == 'N') { on = tj3JPEGBufSize(BW, BH, TJSAMP_444); own = out = (unsigned char *)app_alloc(on); }
    else if (mode == 'R' && prev) {
      /* the previous result goes back to the library, which may reallocate it */
      for (i = 0; i < sq_nkept; i++) if (sq_kept[i] == prev) sq_kept[i] = sq_kept[--sq_nkept];
      out = prev; on = prevn; lend(out); prev = NULL;
    }
    r = tj3Compress8(h, big8, BW, 0, BH, TJPF_RGB, &out, &on);
    if (out != own) adopt(out);
    use_ptr(out); use_ptr(own);
    if (keep && r == 0) {
      if (out && out != own && sq_nkept < 32) sq_kept[sq_nkept++] = out;
      if (own && sq_nkept < 32) sq_kept[sq_nkept++] = own;
      prev = out; prevn = on;
    } else {
      if (out != own) app_tjfree(out);
      app_tjfree(own);
      prev = NULL;
    }
    if (r < 0) FAIL(h);
  }
bail:
  for (i = 0; i < sq_nkept; i++) app_tjfree(sq_kept[i]);
  sq_nkept = 0;
  tj3Destroy(h);
  return rc;
}

typedef struct { const char *name; int (*fn)(void); const char *arg; } scn_t;
#define S(x) { #x, s_##x, "" }
#define F(nm, fn, arg) { nm, fn, arg }
static const scn_t scns[] = {
  S(init_c), S(init_d), S(init_t),
  S(comp8_420), S(comp8_444_prog), S(comp8_gray_arith), S(comp8_422_opt), S(comp8_ll), S(comp12_420), S(comp12_prog_opt),
  S(comp12_ll), S(comp16_ll), S(comp10_ll), S(comp8_icc), S(comp8_norealloc_icc), S(comp8_cmyk), S(comp8_prog_arith), S(comp8_twice), S(comp8_big_grow),
  S(encyuv), S(compyuv),
  S(dec8_420), S(dec8_420_fast_bgrx), S(dec8_scale_half), S(dec8_scale_3_8), S(dec8_scale_2x), S(dec8_crop), S(dec8_crop_scale),
  S(dec8_prog_scanlimit), S(dec8_prog_maxmem), S(dec8_gray_arith), S(dec8_gray_to_rgb), S(dec8_422_restart), S(dec8_440), S(dec8_cmyk),
  S(dec8_ll), S(dec12), S(dec12_scale), S(dec12_ll), S(dec16_ll), S(dec_header), S(dec_icc), S(dec_icc_header),
  S(dec2yuv), S(dec2yuv_scaled_422), S(decodeyuv),
  S(xform_none), S(xform_rot90_crop), S(xform_hflip_perfect), S(xform_gray_prog), S(xform_arith_copynone), S(xform_optimize),
  S(xform_multi), S(xform_nooutput), S(xform_icc_norealloc), S(xform_12bit), S(xform_lossless_src),
  S(load8_ppm), S(load8_ppm_cmyk), S(load8_pgm_unknown), S(load8_bmp), S(load12_ppm), S(load16_ppm),
  S(save8_ppm), S(save8_bmp), S(save12_ppm), S(save16_ppm),
  S(lj_comp), S(lj_comp_prog_opt_icc), S(lj_comp_arith), S(lj_comp12), S(lj_comp_libbuf),
  S(lj_dec), S(lj_dec_icc), S(lj_dec_buffered_prog), S(lj_dec_quant1), S(lj_dec_quant2), S(lj_coef), S(lj_dec_reuse),
  /* custom filter returning -1: "n fail later icc buf" */
  F("xf_filt_1f0_small_lib", s_xf_filt, "1 0 0 0 0"), F("xf_filt_1f0_icc_lib", s_xf_filt, "1 0 0 1 0"), F("xf_filt_1f0late_icc_lib", s_xf_filt, "1 0 1 1 0"),
  F("xf_filt_1f0_small_noreal", s_xf_filt, "1 0 0 0 1"), F("xf_filt_1f0_icc_noreal", s_xf_filt, "1 0 0 1 1"),
  F("xf_filt_1f0_small_own", s_xf_filt, "1 0 0 0 2"), F("xf_filt_1f0_icc_own", s_xf_filt, "1 0 1 1 2"),
  F("xf_filt_2f0_icc_lib", s_xf_filt, "2 0 0 1 0"), F("xf_filt_2f1_icc_lib", s_xf_filt, "2 1 0 1 0"), F("xf_filt_2f1late_small_lib", s_xf_filt, "2 1 1 0 0"),
  F("xf_filt_2f1_icc_noreal", s_xf_filt, "2 1 0 1 1"), F("xf_filt_2f1_icc_own", s_xf_filt, "2 1 0 1 2"), F("xf_filt_2f0_small_own", s_xf_filt, "2 0 0 0 2"),
  F("xf_filt_2none_icc_lib", s_xf_filt, "2 -1 0 1 0"), F("xf_filt_1none_icc_own", s_xf_filt, "1 -1 0 1 2"),
  S(icc_replace), S(icc_replace_xform),
  /* THROW paths */
  F("err_comp_nosubsamp", s_err, "comp_nosubsamp"), F("err_comp_16_lossy", s_err, "comp_16_lossy"), F("err_comp_after_ok_then_bad", s_err, "comp_after_ok_then_bad"),
  F("err_encyuv_cmyk", s_err, "encyuv_cmyk"), F("err_dec_maxpixels", s_err, "dec_maxpixels"), F("err_dec_crop_other_image", s_err, "dec_crop_other_image"),
  F("err_dec_lossless_crop", s_err, "dec_lossless_crop"), F("err_dec_badscale", s_err, "dec_badscale"), F("err_dec2yuv_cmyk", s_err, "dec2yuv_cmyk"),
  F("err_dec2yuv_maxpixels", s_err, "dec2yuv_maxpixels"), F("err_decodeyuv_cmyk", s_err, "decodeyuv_cmyk"), F("err_geticc_none", s_err, "geticc_none"),
  F("err_header_garbage", s_err, "header_garbage"), F("err_xform_badop", s_err, "xform_badop"), F("err_xform_badcrop", s_err, "xform_badcrop"),
  F("err_xform_cropalign", s_err, "xform_cropalign"), F("err_xform_cropexceeds", s_err, "xform_cropexceeds"), F("err_xform_maxpixels", s_err, "xform_maxpixels"),
  F("err_xform_notperfect_second", s_err, "xform_notperfect_second"), F("err_load_nofile", s_err, "load_nofile"), F("err_load_badalign", s_err, "load_badalign"),
  F("err_load_unsupported", s_err, "load_unsupported"), F("err_load_truncated", s_err, "load_truncated"), F("err_save_badpath", s_err, "save_badpath"),
  /* one libjpeg compression object, several images */
  F("lj_seq_LfLf", s_lj_seq, "LfLf"), F("lj_seq_LkLk", s_lj_seq, "LkLk"), F("lj_seq_LfSf", s_lj_seq, "LfSf"), F("lj_seq_LkSf", s_lj_seq, "LkSf"),
  F("lj_seq_LfSk", s_lj_seq, "LfSk"), F("lj_seq_LkSk", s_lj_seq, "LkSk"), F("lj_seq_LfBf", s_lj_seq, "LfBf"), F("lj_seq_LkBk", s_lj_seq, "LkBk"),
  F("lj_seq_SfLf", s_lj_seq, "SfLf"), F("lj_seq_SkLk", s_lj_seq, "SkLk"), F("lj_seq_SfSf", s_lj_seq, "SfSf"), F("lj_seq_SkSk", s_lj_seq, "SkSk"),
  F("lj_seq_SfBf", s_lj_seq, "SfBf"), F("lj_seq_BfSf", s_lj_seq, "BfSf"), F("lj_seq_BkLk", s_lj_seq, "BkLk"), F("lj_seq_BfBf", s_lj_seq, "BfBf"),
  F("lj_seq_LfMf", s_lj_seq, "LfMf"), F("lj_seq_LkMk", s_lj_seq, "LkMk"), F("lj_seq_MfMf", s_lj_seq, "MfMf"), F("lj_seq_MkLf", s_lj_seq, "MkLf"),
  F("lj_seq_LfSfLf", s_lj_seq, "LfSfLf"), F("lj_seq_LkSkLk", s_lj_seq, "LkSkLk"), F("lj_seq_SkLkSf", s_lj_seq, "SkLkSf"), F("lj_seq_LkLkSfBk", s_lj_seq, "LkLkSfBk"),
  F("lj_seq_BfSfSfLf", s_lj_seq, "BfSfSfLf"), F("lj_seq_LfLkMkSk", s_lj_seq, "LfLkMkSk"),
  /* one TurboJPEG compression instance, several images */
  F("tj_seq_LfLf", s_tj_seq, "LfLf"), F("tj_seq_LkRf", s_tj_seq, "LkRf"), F("tj_seq_LkRkRf", s_tj_seq, "LkRkRf"), F("tj_seq_LfSf", s_tj_seq, "LfSf"),
  F("tj_seq_LkSk", s_tj_seq, "LkSk"), F("tj_seq_SfLf", s_tj_seq, "SfLf"), F("tj_seq_SkRf", s_tj_seq, "SkRf"), F("tj_seq_LfNf", s_tj_seq, "LfNf"),
  F("tj_seq_LkNkLk", s_tj_seq, "LkNkLk"), F("tj_seq_NfSfLf", s_tj_seq, "NfSfLf"), F("tj_seq_LkSkNkRf", s_tj_seq, "LkSkNkRf"),
};
#define NSCN ((int)(sizeof(scns) / sizeof(scns[0])))

static void run_scn(const scn_t *s, const char *mode, long k1, long k2)
{
  int rc, i; long leakbytes = 0; char firstleak[64] = "";
  plan_mode = !strcmp(mode, "at") ? 1 : !strcmp(mode, "from") ? 2 : !strcmp(mode, "pair") ? 3 : 0;
  plan_k1 = k1; plan_k2 = k2;
  nblk = 0; alloc_idx = 0; badfree = 0; peak = 0; cur = 0; biggest = 0; msgbuf[0] = 0; stolen = 0; badptr = 0; in_app = 0; nsites = 0;
  printf("begin %s %s %ld %ld\n", s->name, mode, k1, k2);
  scn_arg = s->arg;
  tracking = 1;
  rc = s->fn();
  tracking = 0;
  for (i = 0; i < nblk; i++) leakbytes += (long)blks[i].sz;
  if (nblk) snprintf(firstleak, sizeof(firstleak), "%ld:%zu", blks[0].idx, blks[0].sz);
  for (i = 0; msgbuf[i]; i++) if (msgbuf[i] == '\n' || msgbuf[i] == '|') msgbuf[i] = ' ';
  printf("result %s %s %ld %ld rc=%d n=%ld live=%d leakbytes=%ld firstleak=%s badfree=%ld peak=%ld stolen=%ld badptr=%ld | %s\n",
         s->name, mode, k1, k2, rc, alloc_idx, nblk, leakbytes, nblk ? firstleak : "-", badfree, peak, stolen, badptr, msgbuf);
  if (plan_mode == 0) {
    printf("sites %s", s->name);
    for (i = 0; i < nsites; i++) printf(" %s=%d", sites[i].name, sites[i].n);
    printf("\n");
  }
  for (i = 0; i < nblk; i++) __real_free(blks[i].p);
  nblk = 0;
}

/* ------------------------------------------------------------------ limits */
static void wr(const char *fn, const void *p, size_t n) { FILE *f = fopen(fn, "wb"); must(f != NULL, fn); must(fwrite(p, 1, n, f) == n, fn); fclose(f); }

/* limit pix <w> <h> <maxpixels> <api>: compress a gray w x h image, then apply the API with TJPARAM_MAXPIXELS */
static void limit_pix(int w, int h, int lim, const char *api)
{
  tjhandle hc = tj3Init(TJINIT_COMPRESS), hd = NULL;
  unsigned char *src = (unsigned char *)__real_calloc((size_t)w * h, 1), *jb = NULL, *dst = NULL, *xo = NULL; size_t jn = 0, xn = 0;
  int rc = -2, i; const char *why = "";
  must(hc && src, "limit setup");
  for (i = 0; i < w * h; i++) src[i] = (unsigned char)(i * 7);
  must(tj3Set(hc, TJPARAM_SUBSAMP, TJSAMP_GRAY) == 0 && tj3Set(hc, TJPARAM_QUALITY, 50) == 0, "limit params");
  must(tj3Compress8(hc, src, w, 0, h, TJPF_GRAY, &jb, &jn) == 0, "limit compress");
  hd = tj3Init(!strcmp(api, "transform") ? TJINIT_TRANSFORM : TJINIT_DECOMPRESS);
  must(hd != NULL, "limit init");
  must(tj3Set(hd, TJPARAM_MAXPIXELS, lim) == 0, "set maxpixels");
  dst = (unsigned char *)__real_malloc((size_t)w * h * 3 + 64);
  if (!strcmp(api, "decompress8")) rc = tj3Decompress8(hd, jb, jn, dst, 0, TJPF_GRAY);
  else if (!strcmp(api, "toyuv")) rc = tj3DecompressToYUV8(hd, jb, jn, dst, 1);
  else if (!strcmp(api, "transform")) { tjtransform t; memset(&t, 0, sizeof(t)); rc = tj3Transform(hd, jb, jn, 1, &xo, &xn, &t); }
  else if (!strcmp(api, "header")) rc = tj3DecompressHeader(hd, jb, jn);
  why = rc < 0 ? tj3GetErrorStr(hd) : "";
  printf("limit pix %d %d %d %s rc=%d | %s\n", w, h, lim, api, rc, why);
  tj3Free(xo); tj3Free(jb); __real_free(dst); __real_free(src);
  tj3Destroy(hc); tj3Destroy(hd);
}

/* limit load <file-kind> <w> <h> <maxpixels>: tj3LoadImage8 of a PPM/BMP whose header says w x h */
static void limit_load(const char *kind, long w, long h, int lim)
{
  tjhandle hc = tj3Init(TJINIT_COMPRESS);
  int ww = 0, hh = 0, pf = TJPF_UNKNOWN; unsigned char *img; char fn[1100];
  must(hc != NULL, "limit init");
  must(tj3Set(hc, TJPARAM_MAXPIXELS, lim) == 0, "set maxpixels");
  if (!strcmp(kind, "ppm")) {
    FILE *f; long i, nbytes = (w * h <= 4096) ? w * h : 4096;
    snprintf(fn, sizeof(fn), "%s", f_ppm_lim);
    f = fopen(fn, "wb"); must(f != NULL, fn);
    fprintf(f, "P5\n%ld %ld\n255\n", w, h);
    for (i = 0; i < nbytes; i++) fputc((int)(i & 255), f);
    fclose(f);
  } else {
    unsigned char hdr[54]; FILE *f; long i, rowb = ((w * 3 + 3) / 4) * 4, nbytes;
    memset(hdr, 0, sizeof(hdr));
    hdr[0] = 'B'; hdr[1] = 'M'; hdr[10] = 54; hdr[14] = 40;
    hdr[18] = (unsigned char)w; hdr[19] = (unsigned char)(w >> 8); hdr[20] = (unsigned char)(w >> 16); hdr[21] = (unsigned char)(w >> 24);
    hdr[22] = (unsigned char)h; hdr[23] = (unsigned char)(h >> 8); hdr[24] = (unsigned char)(h >> 16); hdr[25] = (unsigned char)(h >> 24);
    hdr[26] = 1; hdr[28] = 24;
    nbytes = (rowb * h <= 65536) ? rowb * h : 65536;
    snprintf(fn, sizeof(fn), "%s", f_bmp_lim);
    f = fopen(fn, "wb"); must(f != NULL, fn);
    fwrite(hdr, 1, 54, f);
    for (i = 0; i < nbytes; i++) fputc((int)(i & 255), f);
    fclose(f);
  }
  tracking = 1; nblk = 0; alloc_idx = 0; plan_mode = 0; biggest = 0;
  img = tj3LoadImage8(hc, fn, &ww, 1, &hh, &pf);
  tracking = 0;
  printf("limit load %s %ld %ld %d rc=%d biggest=%zu | %s\n", kind, w, h, lim, img ? 0 : -1, biggest, img ? "" : tj3GetErrorStr(hc));
  tracking = 1; tj3Free(img); tj3Destroy(hc); tracking = 0;
}

/* limit loadv <fmt> <prec> <w> <h> <maxpixels>: tj3LoadImage8/12/16 of a COMPLETE w x h image file;
   fmt: bmp12 bmp40 bmp64 bmp108 bmp124 (BITMAPCOREHEADER / INFOHEADER / OS/2 2.x / V4 / V5), p2 p3 p5 p6 */
static void put16(FILE *f, unsigned v) { fputc(v & 255, f); fputc((v >> 8) & 255, f); }
static void put32(FILE *f, unsigned long v) { put16(f, v & 65535); put16(f, (v >> 16) & 65535); }
static void limit_loadv(const char *fmt, int prec, long w, long h, int lim)
{
  char fn[1100]; FILE *f; long x, y; int rc, ww = 0, hh = 0, pf = TJPF_UNKNOWN; void *img = NULL; tjhandle hc;
  snprintf(fn, sizeof(fn), "%s/limv.%s", scratch, fmt[0] == 'b' ? "bmp" : "pnm");
  f = fopen(fn, "wb"); must(f != NULL, fn);
  if (fmt[0] == 'b') {
    unsigned hs = (unsigned)atoi(fmt + 3); long rowb = ((w * 3 + 3) / 4) * 4;
    fputc('B', f); fputc('M', f); put32(f, 14 + hs + rowb * h); put32(f, 0); put32(f, 14 + hs);
    put32(f, hs);
    if (hs == 12) { put16(f, (unsigned)w); put16(f, (unsigned)h); put16(f, 1); put16(f, 24); }
    else {
      unsigned k;
      put32(f, (unsigned long)w); put32(f, (unsigned long)h); put16(f, 1); put16(f, 24); put32(f, 0); put32(f, rowb * h);
      put32(f, 0); put32(f, 0); put32(f, 0); put32(f, 0);
      for (k = 40; k < hs; k++) fputc(0, f);
    }
    for (y = 0; y < h; y++) for (x = 0; x < rowb; x++) fputc((int)((x * 3 + y) & 255), f);
  } else {
    int t = fmt[1] - '0', comps = (t == 3 || t == 6) ? 3 : 1, maxval = prec == 8 ? 255 : prec == 12 ? 4095 : 65535;
    fprintf(f, "P%d\n%ld %ld\n%d\n", t, w, h, maxval);
    for (y = 0; y < h; y++) for (x = 0; x < w * comps; x++) {
      int v = (int)((x * 7 + y * 3) % (maxval + 1));
      if (t <= 3) fprintf(f, "%d ", v);
      else if (maxval > 255) { fputc(v >> 8, f); fputc(v & 255, f); }
      else fputc(v, f);
    }
  }
  fclose(f);
  hc = tj3Init(TJINIT_COMPRESS); must(hc != NULL, "limit init");
  must(tj3Set(hc, TJPARAM_MAXPIXELS, lim) == 0, "set maxpixels");
  if (prec != 8) must(tj3Set(hc, TJPARAM_PRECISION, prec) == 0, "set precision");
  tracking = 1; nblk = 0; alloc_idx = 0; plan_mode = 0; in_app = 0;
  if (prec == 8) img = tj3LoadImage8(hc, fn, &ww, 1, &hh, &pf);
  else if (prec == 12) img = tj3LoadImage12(hc, fn, &ww, 1, &hh, &pf);
  else img = tj3LoadImage16(hc, fn, &ww, 1, &hh, &pf);
  rc = img ? 0 : -1;
  printf("limit loadv %s %d %ld %ld %d rc=%d got=%dx%d | %s\n", fmt, prec, w, h, lim, rc, ww, hh, img ? "" : tj3GetErrorStr(hc));
  tj3Free(img); tj3Destroy(hc); tracking = 0;
  { int i; for (i = 0; i < nblk; i++) __real_free(blks[i].p); nblk = 0; }
}

/* limit rd <gif|tga> <w> <h> <maxpixels>: the cjpeg readers that are not part of libturbojpeg, through start_input */
int c14_gif_start(const char *fn, unsigned long lim, char *msg, unsigned *w, unsigned *h);
int c14_tga_start(const char *fn, unsigned long lim, char *msg, unsigned *w, unsigned *h);
static void limit_rd(const char *fmt, long w, long h, long lim)
{
  char fn[1100], msg[256] = ""; FILE *f; long i; int rc; unsigned gw = 0, gh = 0;
  snprintf(fn, sizeof(fn), "%s/limr.%s", scratch, fmt);
  f = fopen(fn, "wb"); must(f != NULL, fn);
  if (!strcmp(fmt, "gif")) {
    fwrite("GIF87a", 1, 6, f); put16(f, (unsigned)w); put16(f, (unsigned)h); fputc(0x80, f); fputc(0, f); fputc(0, f);
    for (i = 0; i < 6; i++) fputc((int)(i * 40), f);                      /* 2-entry global colour map */
    fputc(0x2C, f); put16(f, 0); put16(f, 0); put16(f, (unsigned)w); put16(f, (unsigned)h); fputc(0, f);
    fputc(2, f); fputc(2, f); fputc(0x4C, f); fputc(0x01, f); fputc(0, f); fputc(0x3B, f);
  } else {
    fputc(0, f); fputc(0, f); fputc(2, f); for (i = 0; i < 5; i++) fputc(0, f); put16(f, 0); put16(f, 0);
    put16(f, (unsigned)w); put16(f, (unsigned)h); fputc(24, f); fputc(0x20, f);
    for (i = 0; i < 64; i++) fputc((int)i, f);
  }
  fclose(f);
  rc = !strcmp(fmt, "gif") ? c14_gif_start(fn, (unsigned long)lim, msg, &gw, &gh) : c14_tga_start(fn, (unsigned long)lim, msg, &gw, &gh);
  for (i = 0; msg[i]; i++) if (msg[i] == '\n' || msg[i] == '|') msg[i] = ' ';
  printf("limit rd %s %ld %ld %ld rc=%d got=%ux%u | %s\n", fmt, w, h, lim, rc, gw, gh, msg);
}

/* limit scan <index-of-progressive-jpeg> <scanlimit>: JPROGN[i] has a known number of scans */
static int count_scans(const jpg_t *j)
{
  size_t i; int n = 0;
  for (i = 0; i + 1 < j->size; i++) if (j->buf[i] == 0xFF && j->buf[i + 1] == 0xDA) n++;
  return n;
}
static void limit_scan(int idx, int lim, const char *api)
{
  tjhandle hd = tj3Init(!strcmp(api, "transform") ? TJINIT_TRANSFORM : TJINIT_DECOMPRESS);
  const jpg_t *j = &JPROGN[idx];
  unsigned char *dst = (unsigned char *)__real_malloc(IW * IH * 4 + 64), *xo = NULL; size_t xn = 0; int rc;
  must(hd != NULL && dst != NULL, "limit init");
  must(tj3Set(hd, TJPARAM_SCANLIMIT, lim) == 0, "set scanlimit");
  if (!strcmp(api, "transform")) { tjtransform t; memset(&t, 0, sizeof(t)); rc = tj3Transform(hd, j->buf, j->size, 1, &xo, &xn, &t); }
  else if (!strcmp(api, "toyuv")) rc = tj3DecompressToYUV8(hd, j->buf, j->size, dst, 1);
  else rc = tj3Decompress8(hd, j->buf, j->size, dst, 0, TJPF_RGB);
  printf("limit scan %d %d %s scans=%d rc=%d | %s\n", idx, lim, api, count_scans(j), rc, rc < 0 ? tj3GetErrorStr(hd) : "");
  tj3Free(xo); __real_free(dst); tj3Destroy(hd);
}

/* limit mem <megabytes> <w> <h> <api>: progressive w x h image, TJPARAM_MAXMEMORY */
static void limit_mem(int mb, int w, int h, const char *api)
{
  tjhandle hc = tj3Init(TJINIT_COMPRESS), hd = NULL;
  unsigned char *src = (unsigned char *)__real_calloc((size_t)w * h, 3), *jb = NULL, *dst = NULL, *xo = NULL; size_t jn = 0, xn = 0;
  int rc = -2, i;
  must(hc && src, "limit setup");
  for (i = 0; i < w * h * 3; i++) src[i] = (unsigned char)((i * 13) >> 3);
  must(tj3Set(hc, TJPARAM_SUBSAMP, TJSAMP_444) == 0 && tj3Set(hc, TJPARAM_QUALITY, 30) == 0 && tj3Set(hc, TJPARAM_PROGRESSIVE, 1) == 0, "limit params");
  if (!strcmp(api, "compress")) {
    /* progressive compression needs a full-image coefficient buffer */
    must(tj3Set(hc, TJPARAM_MAXMEMORY, mb) == 0, "set maxmemory");
    tracking = 1; nblk = 0; alloc_idx = 0; plan_mode = 0; peak = 0; cur = 0;
    rc = tj3Compress8(hc, src, w, 0, h, TJPF_RGB, &jb, &jn);
    tracking = 0;
    printf("limit mem %d %d %d %s rc=%d peak=%ld | %s\n", mb, w, h, api, rc, peak, rc < 0 ? tj3GetErrorStr(hc) : "");
    tracking = 1; tj3Free(jb); tj3Destroy(hc); tracking = 0; __real_free(src);
    return;
  }
  must(tj3Compress8(hc, src, w, 0, h, TJPF_RGB, &jb, &jn) == 0, "limit compress");
  hd = tj3Init(!strcmp(api, "transform") ? TJINIT_TRANSFORM : TJINIT_DECOMPRESS);
  must(hd != NULL, "limit init");
  must(tj3Set(hd, TJPARAM_MAXMEMORY, mb) == 0, "set maxmemory");
  dst = (unsigned char *)__real_malloc((size_t)w * h * 3 + 64);
  tracking = 1; nblk = 0; alloc_idx = 0; plan_mode = 0; peak = 0; cur = 0;
  if (!strcmp(api, "transform")) { tjtransform t; memset(&t, 0, sizeof(t)); rc = tj3Transform(hd, jb, jn, 1, &xo, &xn, &t); }
  else rc = tj3Decompress8(hd, jb, jn, dst, 0, TJPF_RGB);
  tracking = 0;
  printf("limit mem %d %d %d %s rc=%d peak=%ld | %s\n", mb, w, h, api, rc, peak, rc < 0 ? tj3GetErrorStr(hd) : "");
  tracking = 1; tj3Free(xo); tj3Destroy(hd); tracking = 0;
  tj3Free(jb); __real_free(dst); __real_free(src); tj3Destroy(hc);
}

/* ---- wide images: the NON-virtual allocations alone reach a small memory limit ---- */
typedef struct { int w, h, subsamp; unsigned char *jpg; size_t n; unsigned char *pix; } wide_t;
static wide_t wides[8]; static int nwides;
static wide_t *get_wide(int w, int h, int subsamp)
{
  int i; wide_t *x; tjhandle hc; size_t k;
  for (i = 0; i < nwides; i++) if (wides[i].w == w && wides[i].h == h && wides[i].subsamp == subsamp) return &wides[i];
  must(nwides < 8, "too many wide images");
  x = &wides[nwides++]; x->w = w; x->h = h; x->subsamp = subsamp; x->jpg = NULL; x->n = 0;
  x->pix = (unsigned char *)__real_malloc((size_t)w * h * 3);
  must(x->pix != NULL, "wide pixels");
  for (k = 0; k < (size_t)w * h * 3; k++) x->pix[k] = (unsigned char)((k * 7 + (k >> 9)) & 255);
  hc = tj3Init(TJINIT_COMPRESS); must(hc != NULL, "wide init");
  must(tj3Set(hc, TJPARAM_SUBSAMP, subsamp) == 0 && tj3Set(hc, TJPARAM_QUALITY, 20) == 0 && tj3Set(hc, TJPARAM_PROGRESSIVE, 1) == 0, "wide params");
  must(tj3Compress8(hc, x->pix, w, 0, h, TJPF_RGB, &x->jpg, &x->n) == 0, "wide compress");
  tj3Destroy(hc);
  return x;
}

/* shims around the real jpeg_memory_mgr methods of one libjpeg object: record every virtual-array request and check,
   when realize_virt_arrays returns normally under a limit M, that what it had to realize fits
   max(M - total allocated before, one access height of every array)  (theorem C14_max_memory_honoured) */
static struct {
  jvirt_sarray_ptr (*req_s) (j_common_ptr, int, boolean, JDIMENSION, JDIMENSION, JDIMENSION);
  jvirt_barray_ptr (*req_b) (j_common_ptr, int, boolean, JDIMENSION, JDIMENSION, JDIMENSION);
  void (*realize) (j_common_ptr);
  double need, minneed;            /* of the arrays requested since the last realize call */
  long long r_need, r_min, r_tbefore; int r_calls, r_ok, viol;
  int stop_after_realize; jmp_buf *stop;
  int sample_size;
} vm;
static jvirt_sarray_ptr shim_req_s(j_common_ptr c, int pool, boolean pz, JDIMENSION w, JDIMENSION rows, JDIMENSION acc)
{
  vm.need += (double)rows * w * vm.sample_size; vm.minneed += (double)acc * w * vm.sample_size;
  return vm.req_s(c, pool, pz, w, rows, acc);
}
static jvirt_barray_ptr shim_req_b(j_common_ptr c, int pool, boolean pz, JDIMENSION w, JDIMENSION rows, JDIMENSION acc)
{
  vm.need += (double)rows * w * sizeof(JBLOCK); vm.minneed += (double)acc * w * sizeof(JBLOCK);
  return vm.req_b(c, pool, pz, w, rows, acc);
}
static void shim_realize(j_common_ptr c)
{
  long long tb = cur, M = c->mem->max_memory_to_use, avail = M > tb ? M - tb : 0, need = (long long)vm.need, mn = (long long)vm.minneed;
  if (need > 0 && vm.r_calls == 0) { vm.r_need = need; vm.r_min = mn; vm.r_tbefore = tb; }
  if (need > 0) vm.r_calls++;
  vm.realize(c);                                  /* longjmps on error */
  if (need > 0) vm.r_ok++;
  if (M > 0 && need > (avail > mn ? avail : mn)) vm.viol++;
  vm.need = vm.minneed = 0;
  if (vm.stop_after_realize && need > 0) longjmp(*vm.stop, 2);
}
static void vm_install(j_common_ptr c, int sample_size, jmp_buf *stop, int stop_after)
{
  memset(&vm, 0, sizeof(vm));
  vm.req_s = c->mem->request_virt_sarray; vm.req_b = c->mem->request_virt_barray; vm.realize = c->mem->realize_virt_arrays;
  c->mem->request_virt_sarray = shim_req_s; c->mem->request_virt_barray = shim_req_b; c->mem->realize_virt_arrays = shim_realize;
  vm.sample_size = sample_size; vm.stop = stop; vm.stop_after_realize = stop_after;
}

/* limit vmem <kind> <w> <h> <subsamp 420|444> <M bytes> <full 0|1>: libjpeg API with max_memory_to_use = M.
   kind dec = decompress a progressive JPEG, coef = jpeg_read_coefficients, comp = progressive compression.
   full=0: stop as soon as realize_virt_arrays has succeeded (the answer is known then) */
static void limit_vmem(const char *kind, int w, int h, int ss, long long M, int full)
{
  wide_t *x = get_wide(w, h, ss == 444 ? TJSAMP_444 : TJSAMP_420);
  struct my_err je; volatile int rc = 0; int sj;
  static unsigned char *rowbuf; static unsigned char *outb; static unsigned long outn;
  msgbuf[0] = 0;
  nblk = 0; alloc_idx = 0; plan_mode = 0; peak = 0; cur = 0; badfree = 0; in_app = 0;
  if (!rowbuf) rowbuf = (unsigned char *)__real_malloc(70000 * 4 * 2);
  if (!outb) { outn = 64 << 20; outb = (unsigned char *)__real_malloc(outn); }
  tracking = 1;
  if (!strcmp(kind, "comp")) {
    struct jpeg_compress_struct ci; unsigned char *ob = outb; unsigned long on = outn;
    memset(&ci, 0, sizeof(ci));
    ci.err = jpeg_std_error(&je.pub); je.pub.error_exit = lj_exit; je.pub.emit_message = lj_emit;
    if ((sj = setjmp(je.jb)) != 0) { rc = sj == 2 ? 0 : -1; }
    else {
      jpeg_create_compress(&ci);
      vm_install((j_common_ptr)&ci, 1, &je.jb, !full);
      ci.mem->max_memory_to_use = (long)M;
      jpeg_mem_dest(&ci, &ob, &on);           /* caller-supplied buffer: every tracked block belongs to the memory manager */
      ci.image_width = w; ci.image_height = h; ci.input_components = 3; ci.in_color_space = JCS_RGB;
      jpeg_set_defaults(&ci); jpeg_set_quality(&ci, 20, TRUE);
      if (ss == 444) { ci.comp_info[0].h_samp_factor = 1; ci.comp_info[0].v_samp_factor = 1; }
      jpeg_simple_progression(&ci);
      jpeg_start_compress(&ci, TRUE);
      while (ci.next_scanline < ci.image_height) { JSAMPROW row = &x->pix[(size_t)ci.next_scanline * w * 3]; jpeg_write_scanlines(&ci, &row, 1); }
      jpeg_finish_compress(&ci);
    }
    jpeg_destroy_compress(&ci);
  } else {
    struct jpeg_decompress_struct di; JSAMPROW row = rowbuf;
    memset(&di, 0, sizeof(di));
    di.err = jpeg_std_error(&je.pub); je.pub.error_exit = lj_exit; je.pub.emit_message = lj_emit;
    if ((sj = setjmp(je.jb)) != 0) { rc = sj == 2 ? 0 : -1; }
    else {
      jpeg_create_decompress(&di);
      vm_install((j_common_ptr)&di, 1, &je.jb, !full);
      di.mem->max_memory_to_use = (long)M;
      jpeg_mem_src(&di, x->jpg, (unsigned long)x->n);
      jpeg_read_header(&di, TRUE);
      if (!strcmp(kind, "coef")) { (void)jpeg_read_coefficients(&di); }
      else {
        jpeg_start_decompress(&di);
        while (di.output_scanline < di.output_height) jpeg_read_scanlines(&di, &row, 1);
      }
      jpeg_finish_decompress(&di);
    }
    jpeg_destroy_decompress(&di);
  }
  tracking = 0;
  { int i; for (i = 0; msgbuf[i]; i++) if (msgbuf[i] == '\n' || msgbuf[i] == '|') msgbuf[i] = ' '; }
  printf("limit vmem %s %d %d %d %lld %d rc=%d need=%lld minneed=%lld tbefore=%lld realize_calls=%d ok=%d boundviol=%d peak=%ld live=%d | %s\n",
         kind, w, h, ss, M, full, rc, vm.r_need, vm.r_min, vm.r_tbefore, vm.r_calls, vm.r_ok, vm.viol, peak, nblk, rc < 0 ? msgbuf : "");
  { int i; for (i = 0; i < nblk; i++) __real_free(blks[i].p); nblk = 0; }
}

/* limit wmem <mb> <w> <h> <subsamp> <api>: the same images through TurboJPEG with TJPARAM_MAXMEMORY */
static void limit_wmem(int mb, int w, int h, int ss, const char *api)
{
  wide_t *x = get_wide(w, h, ss == 444 ? TJSAMP_444 : TJSAMP_420);
  tjhandle hd; unsigned char *xo = NULL, *jb = NULL; size_t xn = 0, jn = 0; int rc; static unsigned char *dst;
  if (!dst) dst = (unsigned char *)__real_malloc((size_t)70000 * 256 * 3);
  must(dst != NULL, "wmem dst");
  hd = tj3Init(!strcmp(api, "transform") ? TJINIT_TRANSFORM : !strcmp(api, "compress") ? TJINIT_COMPRESS : TJINIT_DECOMPRESS);
  must(hd != NULL, "wmem init");
  must(tj3Set(hd, TJPARAM_MAXMEMORY, mb) == 0, "set maxmemory");
  nblk = 0; alloc_idx = 0; plan_mode = 0; peak = 0; cur = 0; in_app = 0;
  tracking = 1;
  if (!strcmp(api, "transform")) { tjtransform t; memset(&t, 0, sizeof(t)); rc = tj3Transform(hd, x->jpg, x->n, 1, &xo, &xn, &t); }
  else if (!strcmp(api, "compress")) {
    rc = (tj3Set(hd, TJPARAM_SUBSAMP, ss == 444 ? TJSAMP_444 : TJSAMP_420) == 0 && tj3Set(hd, TJPARAM_QUALITY, 20) == 0 &&
          tj3Set(hd, TJPARAM_PROGRESSIVE, 1) == 0) ? tj3Compress8(hd, x->pix, w, 0, h, TJPF_RGB, &jb, &jn) : -1;
  } else rc = tj3Decompress8(hd, x->jpg, x->n, dst, 0, TJPF_RGB);
  tracking = 0;
  printf("limit wmem %d %d %d %d %s rc=%d peak=%ld | %s\n", mb, w, h, ss, api, rc, peak, rc < 0 ? tj3GetErrorStr(hd) : "");
  tracking = 1; tj3Free(xo); tj3Free(jb); tj3Destroy(hd); tracking = 0;
  { int i; for (i = 0; i < nblk; i++) __real_free(blks[i].p); nblk = 0; }
}

/* progressive JPEGs with 1..n scans, built with the libjpeg API and a custom scan script */
static void make_progn(void)
{
  int k;
  for (k = 0; k < 8; k++) {
    struct jpeg_compress_struct ci; struct jpeg_error_mgr je;
    static jpeg_scan_info si[16];
    unsigned char *out = NULL; unsigned long n = 0; int ns = 0, i;
    ci.err = jpeg_std_error(&je);
    jpeg_create_compress(&ci);
    jpeg_mem_dest(&ci, &out, &n);
    ci.image_width = IW; ci.image_height = IH; ci.input_components = 1; ci.in_color_space = JCS_GRAYSCALE;
    jpeg_set_defaults(&ci);
    /* gray progressive: DC first, then AC bands 1..63 split into k+1 spectral bands */
    memset(si, 0, sizeof(si));
    si[ns].comps_in_scan = 1; si[ns].component_index[0] = 0; si[ns].Ss = 0; si[ns].Se = 0; ns++;
    for (i = 0; i <= k; i++) {
      int lo = 1 + i * 63 / (k + 1), hi = (i + 1) * 63 / (k + 1);
      si[ns].comps_in_scan = 1; si[ns].component_index[0] = 0; si[ns].Ss = lo; si[ns].Se = hi; ns++;
    }
    ci.scan_info = si; ci.num_scans = ns;
    jpeg_start_compress(&ci, TRUE);
    while (ci.next_scanline < ci.image_height) { JSAMPROW row = &gray8[ci.next_scanline * IW]; jpeg_write_scanlines(&ci, &row, 1); }
    jpeg_finish_compress(&ci);
    jpeg_destroy_compress(&ci);
    JPROGN[k].buf = out; JPROGN[k].size = n;
    must(count_scans(&JPROGN[k]) == k + 2, "scan count of generated progressive image");
  }
}

static void setup(const char *dir)
{
  char hdr[64]; size_t i; unsigned char *tmp;
  make_images();
  prep(&J420, C_420); prep(&J444P, C_444P); prep(&JGRAYA, C_GRAYA); prep(&J422O, C_422O); prep(&JLL8, C_LL8);
  prep(&J12, C_12); prep(&JLL12, C_LL12); prep(&JLL16, C_LL16); prep(&JICC, C_ICC); prep(&J440, C_440); prep(&JCMYK, C_CMYK);
  prep(&JBIG, C_BIG);
  make_progn();
  for (i = 0; i < sizeof(bigicc); i++) bigicc[i] = (unsigned char)(i * 13 + 5);
  { tjhandle h = tj3Init(TJINIT_COMPRESS); must(h != NULL, "init");
    must(tj3Set(h, TJPARAM_SUBSAMP, TJSAMP_420) == 0, "subsamp");
    yuv420size = tj3YUVBufSize(IW, 4, IH, TJSAMP_420); yuv420 = (unsigned char *)__real_malloc(yuv420size);
    must(tj3EncodeYUV8(h, rgb8, IW, 0, IH, TJPF_RGB, yuv420, 4) == 0, "encodeyuv"); tj3Destroy(h); }
  snprintf(f_ppm8, sizeof(f_ppm8), "%s/in8.ppm", dir); snprintf(f_pgm8, sizeof(f_pgm8), "%s/in8.pgm", dir);
  snprintf(f_bmp8, sizeof(f_bmp8), "%s/in8.bmp", dir); snprintf(f_ppm12, sizeof(f_ppm12), "%s/in12.ppm", dir);
  snprintf(f_ppm16, sizeof(f_ppm16), "%s/in16.ppm", dir); snprintf(f_out, sizeof(f_out), "%s/out", dir);
  snprintf(f_junk, sizeof(f_junk), "%s/junk.xyz", dir); snprintf(f_trunc, sizeof(f_trunc), "%s/trunc.ppm", dir);
  wr(f_junk, "XYZ this is not an image file\n", 30);
  wr(f_trunc, "P6\n40 30\n255\n0123456789", 21);
  snprintf(f_ppm_lim, sizeof(f_ppm_lim), "%s/lim.pgm", dir); snprintf(f_bmp_lim, sizeof(f_bmp_lim), "%s/lim.bmp", dir);
  { tjhandle h = tj3Init(TJINIT_DECOMPRESS); must(h != NULL, "init");
    must(tj3SaveImage8(h, f_ppm8, rgb8, IW, 0, IH, TJPF_RGB) == 0, "save ppm");
    must(tj3SaveImage8(h, f_pgm8, gray8, IW, 0, IH, TJPF_GRAY) == 0, "save pgm");
    must(tj3SaveImage8(h, f_bmp8, rgb8, IW, 0, IH, TJPF_RGB) == 0, "save bmp");
    must(tj3SaveImage12(h, f_ppm12, rgb12, IW, 0, IH, TJPF_RGB) == 0, "save ppm12");
    must(tj3SaveImage16(h, f_ppm16, rgb16, IW, 0, IH, TJPF_RGB) == 0, "save ppm16");
    tj3Destroy(h); }
  (void)hdr; (void)i; (void)tmp;
}

static char line[4096];

int main(int argc, char **argv)
{
  int i;
  setvbuf(stdout, NULL, _IOLBF, 0);
  unsetenv("JPEGMEM");
  if (argc < 2) { fprintf(stderr, "usage: c14_fi <scratch-dir>\n"); return 2; }
  snprintf(scratch, sizeof(scratch), "%s", argv[1]);
  setup(scratch);
  while (fgets(line, sizeof(line), stdin)) {
    char cmd[32] = "", a[64] = "", b[64] = "", c[64] = ""; long k1 = 0, k2 = 0;
    if (sscanf(line, "%31s", cmd) < 1) continue;
    if (!strcmp(cmd, "list")) {
      for (i = 0; i < NSCN; i++) {
        const char *n = scns[i].name; char t = '-', inner = '-';
        if (!strncmp(n, "init_", 5)) t = n[5];
        else if (!strncmp(n, "comp", 4) || !strcmp(n, "encyuv")) t = 'c';
        else if (!strncmp(n, "dec", 3)) t = 'd';
        else if (!strncmp(n, "xform", 5)) t = 't';
        else if (!strncmp(n, "xf_filt", 7) || !strncmp(n, "err_xform", 9) || !strcmp(n, "icc_replace_xform")) t = 't';
        else if (!strcmp(n, "icc_replace")) t = 'c';
        else if (!strncmp(n, "tj_seq", 6) || !strncmp(n, "err_comp", 8) || !strncmp(n, "err_encyuv", 10)) t = 'c';
        else if (!strncmp(n, "err_load", 8)) { t = 'c'; inner = 'c'; }
        else if (!strncmp(n, "err_save", 8)) { t = 'd'; inner = 'd'; }
        else if (!strncmp(n, "err_", 4)) t = 'd';
        else if (!strncmp(n, "load", 4)) { t = 'c'; inner = 'c'; }
        else if (!strncmp(n, "save", 4)) { t = 'd'; inner = 'd'; }
        { char a[64]; int q; snprintf(a, sizeof(a), "%s", scns[i].arg[0] ? scns[i].arg : "-"); for (q = 0; a[q]; q++) if (a[q] == ' ') a[q] = ','; printf("scn %s %c %c %s\n", n, t, inner, a); }
      }
      printf("endlist\n");
    } else if (!strcmp(cmd, "run")) {
      const scn_t *s = NULL;
      sscanf(line, "%*s %63s %63s %ld %ld", a, b, &k1, &k2);
      for (i = 0; i < NSCN; i++) if (!strcmp(scns[i].name, a)) s = &scns[i];
      if (!s) { printf("result %s ? unknown-scenario\n", a); continue; }
      run_scn(s, b, k1, k2);
    } else if (!strcmp(cmd, "limit")) {
      long x = 0, y = 0, z = 0;
      sscanf(line, "%*s %63s", a);
      if (!strcmp(a, "pix")) { sscanf(line, "%*s %*s %ld %ld %ld %63s", &x, &y, &z, b); limit_pix((int)x, (int)y, (int)z, b); }
      else if (!strcmp(a, "load")) { sscanf(line, "%*s %*s %63s %ld %ld %ld", b, &x, &y, &z); limit_load(b, x, y, (int)z); }
      else if (!strcmp(a, "loadv")) { long pr = 8; sscanf(line, "%*s %*s %63s %ld %ld %ld %ld", b, &pr, &x, &y, &z); limit_loadv(b, (int)pr, x, y, (int)z); }
      else if (!strcmp(a, "rd")) { sscanf(line, "%*s %*s %63s %ld %ld %ld", b, &x, &y, &z); limit_rd(b, x, y, z); }
      else if (!strcmp(a, "scan")) { sscanf(line, "%*s %*s %ld %ld %63s", &x, &y, b); limit_scan((int)x, (int)y, b); }
      else if (!strcmp(a, "mem")) { sscanf(line, "%*s %*s %ld %ld %ld %63s", &x, &y, &z, b); limit_mem((int)x, (int)y, (int)z, b); }
      else if (!strcmp(a, "vmem")) { long ss = 420, full = 0; long long M = 0; sscanf(line, "%*s %*s %63s %ld %ld %ld %lld %ld", b, &x, &y, &ss, &M, &full); limit_vmem(b, (int)x, (int)y, (int)ss, M, (int)full); }
      else if (!strcmp(a, "wmem")) { long ss = 420; sscanf(line, "%*s %*s %ld %ld %ld %ld %63s", &x, &y, &z, &ss, b); limit_wmem((int)x, (int)y, (int)z, (int)ss, b); }
      else printf("limit ?\n");
      (void)c;
    } else printf("?\n");
  }
  return 0;
}
