/* C14 harness (b)+(c): fault-injection catalogue over the TurboJPEG and libjpeg API
 * entry points, and the configured limits.  malloc/calloc/realloc/free of every
 * library object are wrapped at link time; the k-th allocation (or all from k, or
 * a pair) fails.  A scenario behaves like a correct application: it checks every
 * return value, frees every buffer the library handed out (tj3Free / free) and
 * destroys the instance.  Afterwards the number of live library blocks must be 0.
 *
 *   argv[1] = scratch directory (for the image files of load/save scenarios)
 *   stdin : list | run <name> <none|at|from|pair> <k1> <k2> | limit ...
 */
#define _GNU_SOURCE
#include <stdio.h>
#include <stdlib.h>
#include <string.h>
#include <setjmp.h>
#include <stdint.h>
#include <unistd.h>
#include "turbojpeg.h"
#include "jpeglib.h"
#include "jerror.h"

void *__real_malloc(size_t);
void __real_free(void *);
void *__real_calloc(size_t, size_t);
void *__real_realloc(void *, size_t);

/* --------------------------------------------------------------- allocator */
typedef struct { void *p; size_t sz; long idx; } blk_t;
#define MAXBLK 65536
static blk_t blks[MAXBLK];
static int nblk;
static long alloc_idx, badfree, peak, cur;
static int tracking;
static int plan_mode;            /* 0 none, 1 at k1, 2 from k1, 3 pair k1,k2 */
static long plan_k1, plan_k2;
static size_t biggest;

static int should_fail(void)
{
  long k = alloc_idx++;
  switch (plan_mode) {
  case 1: return k == plan_k1;
  case 2: return k >= plan_k1;
  case 3: return k == plan_k1 || k == plan_k2;
  }
  return 0;
}

static void note(void *p, size_t sz)
{
  if (nblk >= MAXBLK) { fprintf(stderr, "harness: block table full\n"); _exit(3); }
  blks[nblk].p = p; blks[nblk].sz = sz; blks[nblk].idx = alloc_idx - 1; nblk++;
  cur += (long)sz; if (cur > peak) peak = cur;
  if (sz > biggest) biggest = sz;
}

static int forget(void *p)
{
  int i;
  for (i = nblk - 1; i >= 0; i--)
    if (blks[i].p == p) { cur -= (long)blks[i].sz; blks[i] = blks[nblk - 1]; nblk--; return 1; }
  return 0;
}

void *__wrap_malloc(size_t sz)
{
  void *p;
  if (!tracking) return __real_malloc(sz);
  if (should_fail()) return NULL;
  if (sz > ((size_t)1 << 31)) return NULL;          /* never really grab > 2 GB */
  p = __real_malloc(sz ? sz : 1);
  if (p) note(p, sz);
  return p;
}

void *__wrap_calloc(size_t n, size_t s)
{
  void *p;
  if (!tracking) return __real_calloc(n, s);
  if (should_fail()) return NULL;
  if (n && s > ((size_t)1 << 31) / n) return NULL;
  p = __real_calloc(n ? n : 1, s ? s : 1);
  if (p) note(p, n * s);
  return p;
}

void *__wrap_realloc(void *q, size_t s)
{
  void *p;
  if (!tracking) return __real_realloc(q, s);
  if (should_fail()) return NULL;
  if (q && !forget(q)) { badfree++; return NULL; }
  p = __real_realloc(q, s ? s : 1);
  if (p) note(p, s);
  return p;
}

void __wrap_free(void *p)
{
  if (!tracking) { __real_free(p); return; }
  if (!p) return;
  if (!forget(p)) { badfree++; return; }     /* double / invalid free: counted, not executed */
  __real_free(p);
}

/* ------------------------------------------------------------ test images */
#define IW 53
#define IH 37
static unsigned char rgb8[IW * IH * 3], gray8[IW * IH], cmyk8[IW * IH * 4];
static short rgb12[IW * IH * 3];
static unsigned short rgb16[IW * IH * 3];
static unsigned char icc[700];
#define BW 96
#define BH 96
static unsigned char big8[BW * BH * 3];
static char scratch[900];

typedef struct { unsigned char *buf; size_t size; } jpg_t;
static jpg_t J420, J444P, JGRAYA, J422O, JLL8, J12, JLL12, JLL16, JICC, J440, JBIG, JPROGN[8], JCMYK;
static unsigned char *yuv420;          /* YUV image of the 8-bit test picture */
static size_t yuv420size;

static unsigned int rnd_state = 12345;
static unsigned int rnd(void) { rnd_state = rnd_state * 1103515245u + 12345u; return (rnd_state >> 16) & 0x7fff; }

static void make_images(void)
{
  int x, y, c;
  for (y = 0; y < IH; y++)
    for (x = 0; x < IW; x++) {
      for (c = 0; c < 3; c++) {
        int v = (x * (5 + c) + y * (3 + 2 * c) + (int)(rnd() % 24)) & 255;
        rgb8[(y * IW + x) * 3 + c] = (unsigned char)v;
        rgb12[(y * IW + x) * 3 + c] = (short)((v * 16 + (int)(rnd() % 16)) & 4095);
        rgb16[(y * IW + x) * 3 + c] = (unsigned short)((v * 256 + (int)(rnd() % 256)) & 65535);
      }
      gray8[y * IW + x] = (unsigned char)((x * 4 + y * 7) & 255);
      for (c = 0; c < 4; c++) cmyk8[(y * IW + x) * 4 + c] = (unsigned char)((x * 3 + y * c) & 255);
    }
  for (x = 0; x < (int)sizeof(icc); x++) icc[x] = (unsigned char)(x * 7 + 1);
  for (x = 0; x < BW * BH * 3; x++) big8[x] = (unsigned char)(rnd() & 255);
}

typedef struct {
  int prec, subsamp, lossless, prog, arith, opt, quality, pf, restart, icc, noRealloc, w, h;
} cparm;

/* compress with the given parameters; returns 0 ok / -1 API error.  *out is owned by the caller (tj3Free). */
static int do_compress(const cparm *p, unsigned char **out, size_t *outsize, char *msg)
{
  tjhandle h = tj3Init(TJINIT_COMPRESS);
  int rc = -1;
  int w = p->w ? p->w : IW, hh = p->h ? p->h : IH;
  if (!h) { snprintf(msg, 200, "%s", tj3GetErrorStr(NULL)); return -1; }
  if (tj3Set(h, TJPARAM_SUBSAMP, p->subsamp) < 0) goto bail;
  if (p->lossless) { if (tj3Set(h, TJPARAM_LOSSLESS, 1) < 0) goto bail; if (tj3Set(h, TJPARAM_LOSSLESSPSV, 3) < 0) goto bail; }
  else if (tj3Set(h, TJPARAM_QUALITY, p->quality ? p->quality : 80) < 0) goto bail;
  if (p->prog && tj3Set(h, TJPARAM_PROGRESSIVE, 1) < 0) goto bail;
  if (p->arith && tj3Set(h, TJPARAM_ARITHMETIC, 1) < 0) goto bail;
  if (p->opt && tj3Set(h, TJPARAM_OPTIMIZE, 1) < 0) goto bail;
  if (p->restart && tj3Set(h, TJPARAM_RESTARTROWS, p->restart) < 0) goto bail;
  if (p->prec != 8 && p->prec != 12 && p->prec != 16 && tj3Set(h, TJPARAM_PRECISION, p->prec) < 0) goto bail;
  if (p->icc && tj3SetICCProfile(h, icc, sizeof(icc)) < 0) goto bail;
  if (p->noRealloc) {
    size_t sz = tj3JPEGBufSize(w, hh, p->subsamp);
    if (tj3Set(h, TJPARAM_NOREALLOC, 1) < 0) goto bail;
    if (p->icc) sz += sizeof(icc) + 200;
    *out = (unsigned char *)tj3Alloc(sz);
    if (!*out) { snprintf(msg, 200, "tj3Alloc failed"); goto bail2; }
    *outsize = sz;
  }
  if (p->prec <= 8) {
    const unsigned char *src = p->w == BW ? big8 : p->pf == TJPF_GRAY ? gray8 : p->pf == TJPF_CMYK ? cmyk8 : rgb8;
    rc = tj3Compress8(h, src, w, 0, hh, p->pf, out, outsize);
  } else if (p->prec <= 12) rc = tj3Compress12(h, rgb12, w, 0, hh, p->pf, out, outsize);
  else rc = tj3Compress16(h, rgb16, w, 0, hh, p->pf, out, outsize);
bail:
  if (rc < 0) snprintf(msg, 200, "%s", tj3GetErrorStr(h));
bail2:
  tj3Destroy(h);
  return rc;
}

static void must(int ok, const char *what) { if (!ok) { fprintf(stderr, "harness setup failed: %s\n", what); _exit(4); } }

static void prep(jpg_t *j, cparm p)
{
  char msg[256] = "";
  j->buf = NULL; j->size = 0;
  must(do_compress(&p, &j->buf, &j->size, msg) == 0, msg);
}

static const cparm C_420 = { 8, TJSAMP_420, 0, 0, 0, 0, 80, TJPF_RGB, 0, 0, 0, 0, 0 };
static const cparm C_444P = { 8, TJSAMP_444, 0, 1, 0, 0, 85, TJPF_RGB, 0, 0, 0, 0, 0 };
static const cparm C_GRAYA = { 8, TJSAMP_GRAY, 0, 0, 1, 0, 75, TJPF_GRAY, 0, 0, 0, 0, 0 };
static const cparm C_422O = { 8, TJSAMP_422, 0, 0, 0, 1, 90, TJPF_RGB, 2, 0, 0, 0, 0 };
static const cparm C_LL8 = { 8, TJSAMP_444, 1, 0, 0, 0, 0, TJPF_RGB, 0, 0, 0, 0, 0 };
static const cparm C_12 = { 12, TJSAMP_420, 0, 0, 0, 0, 80, TJPF_RGB, 0, 0, 0, 0, 0 };
static const cparm C_12P = { 12, TJSAMP_444, 0, 1, 0, 1, 80, TJPF_RGB, 0, 0, 0, 0, 0 };
static const cparm C_LL12 = { 12, TJSAMP_444, 1, 0, 0, 0, 0, TJPF_RGB, 0, 0, 0, 0, 0 };
static const cparm C_LL16 = { 16, TJSAMP_444, 1, 0, 0, 0, 0, TJPF_RGB, 0, 0, 0, 0, 0 };
static const cparm C_ICC = { 8, TJSAMP_420, 0, 0, 0, 0, 80, TJPF_RGB, 0, 1, 0, 0, 0 };
static const cparm C_440 = { 8, TJSAMP_440, 0, 0, 0, 0, 80, TJPF_RGB, 0, 0, 0, 0, 0 };
static const cparm C_NOREALLOC = { 8, TJSAMP_420, 0, 0, 0, 0, 80, TJPF_RGB, 0, 1, 1, 0, 0 };
static const cparm C_CMYK = { 8, TJSAMP_444, 0, 0, 0, 0, 80, TJPF_CMYK, 0, 0, 0, 0, 0 };
static const cparm C_PROGARITH = { 8, TJSAMP_420, 0, 1, 1, 0, 80, TJPF_RGB, 0, 0, 0, 0, 0 };
static const cparm C_BIG = { 8, TJSAMP_444, 0, 0, 0, 0, 100, TJPF_RGB, 0, 0, 0, BW, BH };
static const cparm C_LL10 = { 10, TJSAMP_444, 1, 0, 0, 0, 0, TJPF_RGB, 0, 0, 0, 0, 0 };

static char msgbuf[512];
#define FAIL(h) do { snprintf(msgbuf, sizeof(msgbuf), "%s", tj3GetErrorStr(h)); rc = -1; goto bail; } while (0)

/* ---------------------------------------------------------------- scenarios */
static int s_init(int t) { tjhandle h = tj3Init(t); if (!h) { snprintf(msgbuf, sizeof(msgbuf), "%s", tj3GetErrorStr(NULL)); return -1; } tj3Destroy(h); return 0; }
static int s_init_c(void) { return s_init(TJINIT_COMPRESS); }
static int s_init_d(void) { return s_init(TJINIT_DECOMPRESS); }
static int s_init_t(void) { return s_init(TJINIT_TRANSFORM); }

static int s_comp(const cparm *p)
{
  unsigned char *out = NULL; size_t n = 0;
  int rc = do_compress(p, &out, &n, msgbuf);
  tj3Free(out);
  return rc;
}
#define SCOMP(name, parm) static int name(void) { return s_comp(&parm); }
SCOMP(s_comp8_420, C_420) SCOMP(s_comp8_444_prog, C_444P) SCOMP(s_comp8_gray_arith, C_GRAYA) SCOMP(s_comp8_422_opt, C_422O)
SCOMP(s_comp8_ll, C_LL8) SCOMP(s_comp12_420, C_12) SCOMP(s_comp12_prog_opt, C_12P) SCOMP(s_comp12_ll, C_LL12) SCOMP(s_comp16_ll, C_LL16)
SCOMP(s_comp8_icc, C_ICC) SCOMP(s_comp8_norealloc_icc, C_NOREALLOC) SCOMP(s_comp8_cmyk, C_CMYK) SCOMP(s_comp8_prog_arith, C_PROGARITH)
SCOMP(s_comp10_ll, C_LL10) SCOMP(s_comp8_big_grow, C_BIG)

/* two compressions with different settings on one instance, library-grown buffer reused */
static int s_comp8_twice(void)
{
  tjhandle h = tj3Init(TJINIT_COMPRESS);
  unsigned char *out = NULL; size_t n = 0; int rc = 0;
  if (!h) { snprintf(msgbuf, sizeof(msgbuf), "%s", tj3GetErrorStr(NULL)); return -1; }
  if (tj3Set(h, TJPARAM_SUBSAMP, TJSAMP_420) < 0 || tj3Set(h, TJPARAM_QUALITY, 95) < 0) FAIL(h);
  if (tj3Compress8(h, rgb8, IW, 0, IH, TJPF_RGB, &out, &n) < 0) FAIL(h);
  if (tj3Set(h, TJPARAM_SUBSAMP, TJSAMP_444) < 0 || tj3Set(h, TJPARAM_PROGRESSIVE, 1) < 0) FAIL(h);
  if (tj3Compress8(h, rgb8, IW, 0, IH, TJPF_RGB, &out, &n) < 0) FAIL(h);
bail:
  tj3Free(out);
  tj3Destroy(h);
  return rc;
}

static int s_encyuv(void)
{
  tjhandle h = tj3Init(TJINIT_COMPRESS);
  unsigned char *yuv = NULL; int rc = 0; size_t sz;
  if (!h) { snprintf(msgbuf, sizeof(msgbuf), "%s", tj3GetErrorStr(NULL)); return -1; }
  if (tj3Set(h, TJPARAM_SUBSAMP, TJSAMP_420) < 0) FAIL(h);
  sz = tj3YUVBufSize(IW, 4, IH, TJSAMP_420);
  yuv = (unsigned char *)tj3Alloc(sz);
  if (!yuv) { snprintf(msgbuf, sizeof(msgbuf), "tj3Alloc failed"); rc = -1; goto bail; }
  if (tj3EncodeYUV8(h, rgb8, IW, 0, IH, TJPF_RGB, yuv, 4) < 0) FAIL(h);
bail:
  tj3Free(yuv);
  tj3Destroy(h);
  return rc;
}

static int s_compyuv(void)
{
  tjhandle h = tj3Init(TJINIT_COMPRESS);
  unsigned char *out = NULL; size_t n = 0; int rc = 0;
  if (!h) { snprintf(msgbuf, sizeof(msgbuf), "%s", tj3GetErrorStr(NULL)); return -1; }
  if (tj3Set(h, TJPARAM_SUBSAMP, TJSAMP_420) < 0 || tj3Set(h, TJPARAM_QUALITY, 80) < 0) FAIL(h);
  if (tj3CompressFromYUV8(h, yuv420, IW, 4, IH, &out, &n) < 0) FAIL(h);
bail:
  tj3Free(out);
  tj3Destroy(h);
  return rc;
}

typedef struct { const jpg_t *j; int prec, pf, scaleNum, scaleDenom, crop, fast, scanlimit, maxmem, header_only, icc, bottomup; } dparm;

static int s_dec(const dparm *p)
{
  tjhandle h = tj3Init(TJINIT_DECOMPRESS);
  int rc = 0, w, hh, ps = tjPixelSize[p->pf];
  void *dst = NULL; unsigned char *ic = NULL; size_t icn = 0;
  tjscalingfactor sf = { p->scaleNum ? p->scaleNum : 1, p->scaleDenom ? p->scaleDenom : 1 };
  if (!h) { snprintf(msgbuf, sizeof(msgbuf), "%s", tj3GetErrorStr(NULL)); return -1; }
  if (p->fast && (tj3Set(h, TJPARAM_FASTUPSAMPLE, 1) < 0 || tj3Set(h, TJPARAM_FASTDCT, 1) < 0)) FAIL(h);
  if (p->scanlimit && tj3Set(h, TJPARAM_SCANLIMIT, p->scanlimit) < 0) FAIL(h);
  if (p->maxmem && tj3Set(h, TJPARAM_MAXMEMORY, p->maxmem) < 0) FAIL(h);
  if (p->bottomup && tj3Set(h, TJPARAM_BOTTOMUP, 1) < 0) FAIL(h);
  if (tj3DecompressHeader(h, p->j->buf, p->j->size) < 0) FAIL(h);
  if (p->icc) { if (tj3GetICCProfile(h, &ic, &icn) < 0) FAIL(h); }
  if (p->header_only) goto bail;
  if (tj3SetScalingFactor(h, sf) < 0) FAIL(h);
  w = TJSCALED(tj3Get(h, TJPARAM_JPEGWIDTH), sf); hh = TJSCALED(tj3Get(h, TJPARAM_JPEGHEIGHT), sf);
  if (p->crop) {
    tjregion r = { 16, 8, 24, 16 };
    if (sf.denom == 2) { r.x = 8; r.y = 4; r.w = 16; r.h = 10; }
    if (tj3SetCroppingRegion(h, r) < 0) FAIL(h);
    w = r.w; hh = r.h;
  }
  dst = tj3Alloc((size_t)w * hh * ps * (p->prec > 8 ? 2 : 1));
  if (!dst) { snprintf(msgbuf, sizeof(msgbuf), "tj3Alloc failed"); rc = -1; goto bail; }
  if (p->prec <= 8) { if (tj3Decompress8(h, p->j->buf, p->j->size, (unsigned char *)dst, 0, p->pf) < 0) FAIL(h); }
  else if (p->prec <= 12) { if (tj3Decompress12(h, p->j->buf, p->j->size, (short *)dst, 0, p->pf) < 0) FAIL(h); }
  else { if (tj3Decompress16(h, p->j->buf, p->j->size, (unsigned short *)dst, 0, p->pf) < 0) FAIL(h); }
bail:
  tj3Free(ic);
  tj3Free(dst);
  tj3Destroy(h);
  return rc;
}
#define SDEC(name, ...) static int name(void) { dparm p = { __VA_ARGS__ }; return s_dec(&p); }
SDEC(s_dec8_420, &J420, 8, TJPF_RGB, 0, 0, 0, 0, 0, 0, 0, 0, 0)
SDEC(s_dec8_420_fast_bgrx, &J420, 8, TJPF_BGRX, 0, 0, 0, 1, 0, 0, 0, 0, 1)
SDEC(s_dec8_scale_half, &J420, 8, TJPF_RGB, 1, 2, 0, 0, 0, 0, 0, 0, 0)
SDEC(s_dec8_scale_3_8, &J444P, 8, TJPF_RGBA, 3, 8, 0, 0, 0, 0, 0, 0, 0)
SDEC(s_dec8_scale_2x, &J422O, 8, TJPF_RGB, 2, 1, 0, 0, 0, 0, 0, 0, 0)
SDEC(s_dec8_crop, &J420, 8, TJPF_RGB, 0, 0, 1, 0, 0, 0, 0, 0, 0)
SDEC(s_dec8_crop_scale, &J444P, 8, TJPF_RGB, 1, 2, 1, 0, 0, 0, 0, 0, 0)
SDEC(s_dec8_prog_scanlimit, &J444P, 8, TJPF_RGB, 0, 0, 0, 0, 100, 0, 0, 0, 0)
SDEC(s_dec8_prog_maxmem, &J444P, 8, TJPF_RGB, 0, 0, 0, 0, 0, 64, 0, 0, 0)
SDEC(s_dec8_gray_arith, &JGRAYA, 8, TJPF_GRAY, 0, 0, 0, 0, 0, 0, 0, 0, 0)
SDEC(s_dec8_gray_to_rgb, &JGRAYA, 8, TJPF_RGB, 0, 0, 0, 0, 0, 0, 0, 0, 0)
SDEC(s_dec8_422_restart, &J422O, 8, TJPF_BGR, 0, 0, 0, 0, 0, 0, 0, 0, 0)
SDEC(s_dec8_440, &J440, 8, TJPF_RGB, 0, 0, 0, 0, 0, 0, 0, 0, 0)
SDEC(s_dec8_cmyk, &JCMYK, 8, TJPF_CMYK, 0, 0, 0, 0, 0, 0, 0, 0, 0)
SDEC(s_dec8_ll, &JLL8, 8, TJPF_RGB, 0, 0, 0, 0, 0, 0, 0, 0, 0)
SDEC(s_dec12, &J12, 12, TJPF_RGB, 0, 0, 0, 0, 0, 0, 0, 0, 0)
SDEC(s_dec12_scale, &J12, 12, TJPF_RGB, 1, 4, 0, 0, 0, 0, 0, 0, 0)
SDEC(s_dec12_ll, &JLL12, 12, TJPF_RGB, 0, 0, 0, 0, 0, 0, 0, 0, 0)
SDEC(s_dec16_ll, &JLL16, 16, TJPF_RGB, 0, 0, 0, 0, 0, 0, 0, 0, 0)
SDEC(s_dec_header, &J420, 8, TJPF_RGB, 0, 0, 0, 0, 0, 0, 1, 0, 0)
SDEC(s_dec_icc, &JICC, 8, TJPF_RGB, 0, 0, 0, 0, 0, 0, 0, 1, 0)
SDEC(s_dec_icc_header, &JICC, 8, TJPF_RGB, 0, 0, 0, 0, 0, 0, 1, 1, 0)

static int s_dec2yuv(void)
{
  tjhandle h = tj3Init(TJINIT_DECOMPRESS);
  unsigned char *yuv = NULL; int rc = 0;
  if (!h) { snprintf(msgbuf, sizeof(msgbuf), "%s", tj3GetErrorStr(NULL)); return -1; }
  if (tj3DecompressHeader(h, J420.buf, J420.size) < 0) FAIL(h);
  yuv = (unsigned char *)tj3Alloc(tj3YUVBufSize(IW, 4, IH, TJSAMP_420));
  if (!yuv) { snprintf(msgbuf, sizeof(msgbuf), "tj3Alloc failed"); rc = -1; goto bail; }
  if (tj3DecompressToYUV8(h, J420.buf, J420.size, yuv, 4) < 0) FAIL(h);
bail:
  tj3Free(yuv);
  tj3Destroy(h);
  return rc;
}

static int s_dec2yuv_scaled_422(void)
{
  tjhandle h = tj3Init(TJINIT_DECOMPRESS);
  unsigned char *yuv = NULL; int rc = 0;
  tjscalingfactor sf = { 1, 2 };
  if (!h) { snprintf(msgbuf, sizeof(msgbuf), "%s", tj3GetErrorStr(NULL)); return -1; }
  if (tj3DecompressHeader(h, J422O.buf, J422O.size) < 0) FAIL(h);
  if (tj3SetScalingFactor(h, sf) < 0) FAIL(h);
  yuv = (unsigned char *)tj3Alloc(tj3YUVBufSize(TJSCALED(IW, sf), 1, TJSCALED(IH, sf), TJSAMP_422));
  if (!yuv) { snprintf(msgbuf, sizeof(msgbuf), "tj3Alloc failed"); rc = -1; goto bail; }
  if (tj3DecompressToYUV8(h, J422O.buf, J422O.size, yuv, 1) < 0) FAIL(h);
bail:
  tj3Free(yuv);
  tj3Destroy(h);
  return rc;
}

static int s_decodeyuv(void)
{
  tjhandle h = tj3Init(TJINIT_DECOMPRESS);
  unsigned char *dst = NULL; int rc = 0;
  if (!h) { snprintf(msgbuf, sizeof(msgbuf), "%s", tj3GetErrorStr(NULL)); return -1; }
  if (tj3Set(h, TJPARAM_SUBSAMP, TJSAMP_420) < 0) FAIL(h);
  dst = (unsigned char *)tj3Alloc(IW * IH * 4);
  if (!dst) { snprintf(msgbuf, sizeof(msgbuf), "tj3Alloc failed"); rc = -1; goto bail; }
  if (tj3DecodeYUV8(h, yuv420, 4, dst, IW, 0, IH, TJPF_RGBX) < 0) FAIL(h);
bail:
  tj3Free(dst);
  tj3Destroy(h);
  return rc;
}

typedef struct { const jpg_t *j; int n; int op[2]; int options[2]; int crop; int presize; int icc; int noRealloc; } xparm;

static int s_xform(const xparm *p)
{
  tjhandle h = tj3Init(TJINIT_TRANSFORM);
  unsigned char *dst[2] = { NULL, NULL }; size_t dn[2] = { 0, 0 };
  tjtransform t[2]; int rc = 0, i;
  if (!h) { snprintf(msgbuf, sizeof(msgbuf), "%s", tj3GetErrorStr(NULL)); return -1; }
  memset(t, 0, sizeof(t));
  for (i = 0; i < p->n; i++) {
    t[i].op = p->op[i]; t[i].options = p->options[i];
    if (p->crop && i == 0) { t[i].r.x = 16; t[i].r.y = 16; t[i].r.w = 16; t[i].r.h = 16; t[i].options |= TJXOPT_CROP; }
  }
  if (p->icc && tj3SetICCProfile(h, icc, sizeof(icc)) < 0) FAIL(h);
  if (p->noRealloc) {
    if (tj3Set(h, TJPARAM_NOREALLOC, 1) < 0) FAIL(h);
    if (tj3DecompressHeader(h, p->j->buf, p->j->size) < 0) FAIL(h);
    for (i = 0; i < p->n; i++) {
      dn[i] = tj3TransformBufSize(h, &t[i]);
      if (dn[i] == 0) FAIL(h);
      dst[i] = (unsigned char *)tj3Alloc(dn[i]);
      if (!dst[i]) { snprintf(msgbuf, sizeof(msgbuf), "tj3Alloc failed"); rc = -1; goto bail; }
    }
  }
  if (tj3Transform(h, p->j->buf, p->j->size, p->n, dst, dn, t) < 0) FAIL(h);
bail:
  tj3Free(dst[0]); tj3Free(dst[1]);
  tj3Destroy(h);
  return rc;
}
#define SX(name, ...) static int name(void) { xparm p = { __VA_ARGS__ }; return s_xform(&p); }
SX(s_xform_none, &J420, 1, { TJXOP_NONE, 0 }, { 0, 0 }, 0, 0, 0, 0)
SX(s_xform_rot90_crop, &J420, 1, { TJXOP_ROT90, 0 }, { TJXOPT_TRIM, 0 }, 1, 0, 0, 0)
SX(s_xform_hflip_perfect, &J444P, 1, { TJXOP_HFLIP, 0 }, { TJXOPT_PERFECT, 0 }, 0, 0, 0, 0)
SX(s_xform_gray_prog, &J420, 1, { TJXOP_TRANSPOSE, 0 }, { TJXOPT_GRAY | TJXOPT_PROGRESSIVE, 0 }, 0, 0, 0, 0)
SX(s_xform_arith_copynone, &J422O, 1, { TJXOP_ROT180, 0 }, { TJXOPT_ARITHMETIC | TJXOPT_COPYNONE | TJXOPT_TRIM, 0 }, 0, 0, 0, 0)
SX(s_xform_optimize, &JGRAYA, 1, { TJXOP_VFLIP, 0 }, { TJXOPT_OPTIMIZE | TJXOPT_TRIM, 0 }, 0, 0, 0, 0)
SX(s_xform_multi, &J420, 2, { TJXOP_ROT270, TJXOP_TRANSVERSE }, { TJXOPT_TRIM, TJXOPT_TRIM | TJXOPT_PROGRESSIVE }, 1, 0, 0, 0)
SX(s_xform_nooutput, &J420, 1, { TJXOP_ROT90, 0 }, { TJXOPT_NOOUTPUT | TJXOPT_TRIM, 0 }, 0, 0, 0, 0)
SX(s_xform_icc_norealloc, &JICC, 1, { TJXOP_NONE, 0 }, { 0, 0 }, 0, 0, 1, 1)
SX(s_xform_12bit, &J12, 1, { TJXOP_ROT90, 0 }, { TJXOPT_TRIM, 0 }, 0, 0, 0, 0)
SX(s_xform_lossless_src, &JLL8, 1, { TJXOP_NONE, 0 }, { 0, 0 }, 0, 0, 0, 0)

static char f_ppm8[1024], f_pgm8[1024], f_bmp8[1024], f_ppm12[1024], f_ppm16[1024], f_out[1024], f_huge[1024], f_ppm_lim[1024], f_bmp_lim[1024];

static int s_load8(const char *fn, int pfwant)
{
  tjhandle h = tj3Init(TJINIT_COMPRESS);
  int w = 0, hh = 0, pf = pfwant, rc = 0; unsigned char *img = NULL;
  if (!h) { snprintf(msgbuf, sizeof(msgbuf), "%s", tj3GetErrorStr(NULL)); return -1; }
  img = tj3LoadImage8(h, fn, &w, 4, &hh, &pf);
  if (!img) FAIL(h);
bail:
  tj3Free(img);
  tj3Destroy(h);
  return rc;
}
static int s_load8_ppm(void) { return s_load8(f_ppm8, TJPF_RGB); }
static int s_load8_ppm_cmyk(void) { return s_load8(f_ppm8, TJPF_CMYK); }
static int s_load8_pgm_unknown(void) { return s_load8(f_pgm8, TJPF_UNKNOWN); }
static int s_load8_bmp(void) { return s_load8(f_bmp8, TJPF_BGRX); }

static int s_load12_ppm(void)
{
  tjhandle h = tj3Init(TJINIT_COMPRESS);
  int w = 0, hh = 0, pf = TJPF_RGB, rc = 0; short *img = NULL;
  if (!h) { snprintf(msgbuf, sizeof(msgbuf), "%s", tj3GetErrorStr(NULL)); return -1; }
  img = tj3LoadImage12(h, f_ppm12, &w, 1, &hh, &pf);
  if (!img) FAIL(h);
bail:
  tj3Free(img);
  tj3Destroy(h);
  return rc;
}
static int s_load16_ppm(void)
{
  tjhandle h = tj3Init(TJINIT_COMPRESS);
  int w = 0, hh = 0, pf = TJPF_RGB, rc = 0; unsigned short *img = NULL;
  if (!h) { snprintf(msgbuf, sizeof(msgbuf), "%s", tj3GetErrorStr(NULL)); return -1; }
  img = tj3LoadImage16(h, f_ppm16, &w, 1, &hh, &pf);
  if (!img) FAIL(h);
bail:
  tj3Free(img);
  tj3Destroy(h);
  return rc;
}
static int s_save(int prec, int bmp)
{
  tjhandle h = tj3Init(TJINIT_DECOMPRESS);
  int rc = 0; char fn[1100];
  if (!h) { snprintf(msgbuf, sizeof(msgbuf), "%s", tj3GetErrorStr(NULL)); return -1; }
  snprintf(fn, sizeof(fn), "%s.%s", f_out, bmp ? "bmp" : "ppm");
  if (prec == 8) { if (tj3SaveImage8(h, fn, rgb8, IW, 0, IH, TJPF_RGB) < 0) FAIL(h); }
  else if (prec == 12) { if (tj3SaveImage12(h, fn, rgb12, IW, 0, IH, TJPF_RGB) < 0) FAIL(h); }
  else { if (tj3SaveImage16(h, fn, rgb16, IW, 0, IH, TJPF_RGB) < 0) FAIL(h); }
bail:
  tj3Destroy(h);
  return rc;
}
static int s_save8_ppm(void) { return s_save(8, 0); }
static int s_save8_bmp(void) { return s_save(8, 1); }
static int s_save12_ppm(void) { return s_save(12, 0); }
static int s_save16_ppm(void) { return s_save(16, 0); }

/* ------------------------------------------------------------- libjpeg API */
struct my_err { struct jpeg_error_mgr pub; jmp_buf jb; };
static void lj_exit(j_common_ptr c)
{
  struct my_err *e = (struct my_err *)c->err;
  (*c->err->format_message) (c, msgbuf);
  longjmp(e->jb, 1);
}
static void lj_emit(j_common_ptr c, int l) { (void)c; (void)l; }

/* compress into a caller-provided buffer that is large enough (no growth) or into a
   library-allocated one (grow != 0; the image is chosen so that the 4096-byte initial
   buffer has to grow twice) */
static unsigned char *lj_out; static unsigned long lj_n;
static int lj_comp(int grow, int prog, int opt, int arith, int icc_on, int prec12)
{
  struct jpeg_compress_struct ci; struct my_err je;
  static unsigned char fixed[1 << 17];
  volatile int rc = 0; volatile int dest_set = 0;
  int w = grow ? BW : IW, h = grow ? BH : IH;
  lj_out = grow ? NULL : fixed; lj_n = grow ? 0 : sizeof(fixed);
  memset(&ci, 0, sizeof(ci));
  ci.err = jpeg_std_error(&je.pub); je.pub.error_exit = lj_exit; je.pub.emit_message = lj_emit;
  /* as in example.c the handler destroys the object whatever failed; like turbojpeg.c it first asks
     the memory destination manager for the current buffer (jdatadst.c: "surrounding application
     must deal with any cleanup that should happen even for error exit") */
  if (setjmp(je.jb)) { rc = -1; if (dest_set) (*ci.dest->term_destination) (&ci); goto done; }
  jpeg_create_compress(&ci);
  jpeg_mem_dest(&ci, &lj_out, &lj_n); dest_set = 1;
  ci.image_width = w; ci.image_height = h; ci.input_components = 3; ci.in_color_space = JCS_RGB;
  if (prec12) ci.data_precision = 12;
  jpeg_set_defaults(&ci);
  jpeg_set_quality(&ci, grow ? 100 : 80, TRUE);
  if (prog) jpeg_simple_progression(&ci);
  ci.optimize_coding = opt; ci.arith_code = arith;
  if (grow) { ci.comp_info[0].h_samp_factor = 1; ci.comp_info[0].v_samp_factor = 1; }
  jpeg_start_compress(&ci, TRUE);
  if (icc_on) jpeg_write_icc_profile(&ci, icc, sizeof(icc));
  while (ci.next_scanline < ci.image_height) {
    if (prec12) { J12SAMPROW row = (J12SAMPROW)&rgb12[ci.next_scanline * IW * 3]; jpeg12_write_scanlines(&ci, &row, 1); }
    else { JSAMPROW row = grow ? &big8[ci.next_scanline * BW * 3] : &rgb8[ci.next_scanline * IW * 3]; jpeg_write_scanlines(&ci, &row, 1); }
  }
  jpeg_finish_compress(&ci);
done:
  jpeg_destroy_compress(&ci);
  /* the application owns whatever jpeg_mem_dest left in *outbuffer */
  if (grow) free(lj_out);
  return rc;
}
static int s_lj_comp(void) { return lj_comp(0, 0, 0, 0, 0, 0); }
static int s_lj_comp_prog_opt_icc(void) { return lj_comp(0, 1, 1, 0, 1, 0); }
static int s_lj_comp_arith(void) { return lj_comp(0, 0, 0, 1, 0, 0); }
static int s_lj_comp12(void) { return lj_comp(0, 0, 0, 0, 0, 1); }
static int s_lj_comp_libbuf(void) { return lj_comp(1, 0, 0, 0, 0, 0); }

static int lj_dec(const jpg_t *j, int buffered, int quant, int iccread, int scale_denom)
{
  struct jpeg_decompress_struct di; struct my_err je;
  JOCTET * volatile iccp = NULL; unsigned int iccn = 0;
  volatile int rc = 0; volatile int created = 0;
  static unsigned char rowbuf[IW * 4 * 4];
  JSAMPROW row = rowbuf;
  memset(&di, 0, sizeof(di));
  di.err = jpeg_std_error(&je.pub); je.pub.error_exit = lj_exit; je.pub.emit_message = lj_emit;
  if (setjmp(je.jb)) { rc = -1; goto done; }
  jpeg_create_decompress(&di); created = 1;
  jpeg_mem_src(&di, j->buf, (unsigned long)j->size);
  if (iccread) jpeg_save_markers(&di, JPEG_APP0 + 2, 0xFFFF);
  jpeg_read_header(&di, TRUE);
  if (iccread) { JOCTET *q = NULL; jpeg_read_icc_profile(&di, &q, &iccn); iccp = q; }
  if (scale_denom) { di.scale_num = 1; di.scale_denom = scale_denom; }
  if (quant) { di.quantize_colors = TRUE; di.desired_number_of_colors = 64; di.two_pass_quantize = (quant == 2); di.dither_mode = quant == 2 ? JDITHER_FS : JDITHER_ORDERED; }
  if (buffered) {
    di.buffered_image = TRUE;
    jpeg_start_decompress(&di);
    while (!jpeg_input_complete(&di)) {
      jpeg_start_output(&di, di.input_scan_number);
      while (di.output_scanline < di.output_height) jpeg_read_scanlines(&di, &row, 1);
      jpeg_finish_output(&di);
    }
  } else {
    jpeg_start_decompress(&di);
    while (di.output_scanline < di.output_height) jpeg_read_scanlines(&di, &row, 1);
  }
  jpeg_finish_decompress(&di);
done:
  jpeg_destroy_decompress(&di);
  free((void *)iccp);
  return rc;
}
static int s_lj_dec(void) { return lj_dec(&J420, 0, 0, 0, 0); }
static int s_lj_dec_icc(void) { return lj_dec(&JICC, 0, 0, 1, 0); }
static int s_lj_dec_buffered_prog(void) { return lj_dec(&J444P, 1, 0, 0, 0); }
static int s_lj_dec_quant1(void) { return lj_dec(&J420, 0, 1, 0, 2); }
static int s_lj_dec_quant2(void) { return lj_dec(&J444P, 0, 2, 0, 0); }

/* transcode with the libjpeg coefficient API */
static int s_lj_coef(void)
{
  struct jpeg_decompress_struct di; struct jpeg_compress_struct ci; struct my_err je;
  static unsigned char fixed[1 << 17];
  unsigned char *out = fixed; unsigned long n = sizeof(fixed);
  volatile int rc = 0; volatile int cd = 0, cc = 0;
  jvirt_barray_ptr *coefs;
  memset(&di, 0, sizeof(di)); memset(&ci, 0, sizeof(ci));
  di.err = jpeg_std_error(&je.pub); je.pub.error_exit = lj_exit; je.pub.emit_message = lj_emit;
  ci.err = &je.pub;
  if (setjmp(je.jb)) { rc = -1; goto done; }
  jpeg_create_decompress(&di); cd = 1;
  jpeg_create_compress(&ci); cc = 1;
  jpeg_mem_src(&di, J420.buf, (unsigned long)J420.size);
  jpeg_read_header(&di, TRUE);
  coefs = jpeg_read_coefficients(&di);
  jpeg_copy_critical_parameters(&di, &ci);
  ci.optimize_coding = TRUE;
  jpeg_mem_dest(&ci, &out, &n);
  jpeg_write_coefficients(&ci, coefs);
  jpeg_finish_compress(&ci);
  jpeg_finish_decompress(&di);
done:
  jpeg_destroy_compress(&ci);
  jpeg_destroy_decompress(&di);
  return rc;
}

/* abort + reuse of one libjpeg decompress object on two images */
static int s_lj_dec_reuse(void)
{
  struct jpeg_decompress_struct di; struct my_err je;
  volatile int rc = 0; volatile int created = 0; volatile int round = 0;
  static unsigned char rowbuf[IW * 4 * 4];
  JSAMPROW row = rowbuf;
  memset(&di, 0, sizeof(di));
  di.err = jpeg_std_error(&je.pub); je.pub.error_exit = lj_exit; je.pub.emit_message = lj_emit;
  if (setjmp(je.jb)) { rc = -1; goto done; }
  jpeg_create_decompress(&di); created = 1;
  for (round = 0; round < 2; round++) {
    const jpg_t *j = round ? &J444P : &J420;
    jpeg_mem_src(&di, j->buf, (unsigned long)j->size);
    jpeg_read_header(&di, TRUE);
    jpeg_start_decompress(&di);
    while (di.output_scanline < di.output_height / 2) jpeg_read_scanlines(&di, &row, 1);
    jpeg_abort_decompress(&di);
  }
done:
  jpeg_destroy_decompress(&di);
  return rc;
}

typedef struct { const char *name; int (*fn)(void); } scn_t;
#define S(x) { #x, s_##x }
static const scn_t scns[] = {
  S(init_c), S(init_d), S(init_t),
  S(comp8_420), S(comp8_444_prog), S(comp8_gray_arith), S(comp8_422_opt), S(comp8_ll), S(comp12_420), S(comp12_prog_opt),
  S(comp12_ll), S(comp16_ll), S(comp10_ll), S(comp8_icc), S(comp8_norealloc_icc), S(comp8_cmyk), S(comp8_prog_arith), S(comp8_twice), S(comp8_big_grow),
  S(encyuv), S(compyuv),
  S(dec8_420), S(dec8_420_fast_bgrx), S(dec8_scale_half), S(dec8_scale_3_8), S(dec8_scale_2x), S(dec8_crop), S(dec8_crop_scale),
  S(dec8_prog_scanlimit), S(dec8_prog_maxmem), S(dec8_gray_arith), S(dec8_gray_to_rgb), S(dec8_422_restart), S(dec8_440), S(dec8_cmyk),
  S(dec8_ll), S(dec12), S(dec12_scale), S(dec12_ll), S(dec16_ll), S(dec_header), S(dec_icc), S(dec_icc_header),
  S(dec2yuv), S(dec2yuv_scaled_422), S(decodeyuv),
  S(xform_none), S(xform_rot90_crop), S(xform_hflip_perfect), S(xform_gray_prog), S(xform_arith_copynone), S(xform_optimize),
  S(xform_multi), S(xform_nooutput), S(xform_icc_norealloc), S(xform_12bit), S(xform_lossless_src),
  S(load8_ppm), S(load8_ppm_cmyk), S(load8_pgm_unknown), S(load8_bmp), S(load12_ppm), S(load16_ppm),
  S(save8_ppm), S(save8_bmp), S(save12_ppm), S(save16_ppm),
  S(lj_comp), S(lj_comp_prog_opt_icc), S(lj_comp_arith), S(lj_comp12), S(lj_comp_libbuf),
  S(lj_dec), S(lj_dec_icc), S(lj_dec_buffered_prog), S(lj_dec_quant1), S(lj_dec_quant2), S(lj_coef), S(lj_dec_reuse),
};
#define NSCN ((int)(sizeof(scns) / sizeof(scns[0])))

static void run_scn(const scn_t *s, const char *mode, long k1, long k2)
{
  int rc, i; long leakbytes = 0; char firstleak[64] = "";
  plan_mode = !strcmp(mode, "at") ? 1 : !strcmp(mode, "from") ? 2 : !strcmp(mode, "pair") ? 3 : 0;
  plan_k1 = k1; plan_k2 = k2;
  nblk = 0; alloc_idx = 0; badfree = 0; peak = 0; cur = 0; biggest = 0; msgbuf[0] = 0;
  printf("begin %s %s %ld %ld\n", s->name, mode, k1, k2);
  tracking = 1;
  rc = s->fn();
  tracking = 0;
  for (i = 0; i < nblk; i++) leakbytes += (long)blks[i].sz;
  if (nblk) snprintf(firstleak, sizeof(firstleak), "%ld:%zu", blks[0].idx, blks[0].sz);
  for (i = 0; msgbuf[i]; i++) if (msgbuf[i] == '\n' || msgbuf[i] == '|') msgbuf[i] = ' ';
  printf("result %s %s %ld %ld rc=%d n=%ld live=%d leakbytes=%ld firstleak=%s badfree=%ld peak=%ld | %s\n",
         s->name, mode, k1, k2, rc, alloc_idx, nblk, leakbytes, nblk ? firstleak : "-", badfree, peak, msgbuf);
  for (i = 0; i < nblk; i++) __real_free(blks[i].p);
  nblk = 0;
}

/* ------------------------------------------------------------------ limits */
static void wr(const char *fn, const void *p, size_t n) { FILE *f = fopen(fn, "wb"); must(f != NULL, fn); must(fwrite(p, 1, n, f) == n, fn); fclose(f); }

/* limit pix <w> <h> <maxpixels> <api>: compress a gray w x h image, then apply the API with TJPARAM_MAXPIXELS */
static void limit_pix(int w, int h, int lim, const char *api)
{
  tjhandle hc = tj3Init(TJINIT_COMPRESS), hd = NULL;
  unsigned char *src = (unsigned char *)__real_calloc((size_t)w * h, 1), *jb = NULL, *dst = NULL, *xo = NULL; size_t jn = 0, xn = 0;
  int rc = -2, i; const char *why = "";
  must(hc && src, "limit setup");
  for (i = 0; i < w * h; i++) src[i] = (unsigned char)(i * 7);
  must(tj3Set(hc, TJPARAM_SUBSAMP, TJSAMP_GRAY) == 0 && tj3Set(hc, TJPARAM_QUALITY, 50) == 0, "limit params");
  must(tj3Compress8(hc, src, w, 0, h, TJPF_GRAY, &jb, &jn) == 0, "limit compress");
  hd = tj3Init(!strcmp(api, "transform") ? TJINIT_TRANSFORM : TJINIT_DECOMPRESS);
  must(hd != NULL, "limit init");
  must(tj3Set(hd, TJPARAM_MAXPIXELS, lim) == 0, "set maxpixels");
  dst = (unsigned char *)__real_malloc((size_t)w * h * 3 + 64);
  if (!strcmp(api, "decompress8")) rc = tj3Decompress8(hd, jb, jn, dst, 0, TJPF_GRAY);
  else if (!strcmp(api, "toyuv")) rc = tj3DecompressToYUV8(hd, jb, jn, dst, 1);
  else if (!strcmp(api, "transform")) { tjtransform t; memset(&t, 0, sizeof(t)); rc = tj3Transform(hd, jb, jn, 1, &xo, &xn, &t); }
  else if (!strcmp(api, "header")) rc = tj3DecompressHeader(hd, jb, jn);
  why = rc < 0 ? tj3GetErrorStr(hd) : "";
  printf("limit pix %d %d %d %s rc=%d | %s\n", w, h, lim, api, rc, why);
  tj3Free(xo); tj3Free(jb); __real_free(dst); __real_free(src);
  tj3Destroy(hc); tj3Destroy(hd);
}

/* limit load <file-kind> <w> <h> <maxpixels>: tj3LoadImage8 of a PPM/BMP whose header says w x h */
static void limit_load(const char *kind, long w, long h, int lim)
{
  tjhandle hc = tj3Init(TJINIT_COMPRESS);
  int ww = 0, hh = 0, pf = TJPF_UNKNOWN; unsigned char *img; char fn[1100];
  must(hc != NULL, "limit init");
  must(tj3Set(hc, TJPARAM_MAXPIXELS, lim) == 0, "set maxpixels");
  if (!strcmp(kind, "ppm")) {
    FILE *f; long i, nbytes = (w * h <= 4096) ? w * h : 4096;
    snprintf(fn, sizeof(fn), "%s", f_ppm_lim);
    f = fopen(fn, "wb"); must(f != NULL, fn);
    fprintf(f, "P5\n%ld %ld\n255\n", w, h);
    for (i = 0; i < nbytes; i++) fputc((int)(i & 255), f);
    fclose(f);
  } else {
    unsigned char hdr[54]; FILE *f; long i, rowb = ((w * 3 + 3) / 4) * 4, nbytes;
    memset(hdr, 0, sizeof(hdr));
    hdr[0] = 'B'; hdr[1] = 'M'; hdr[10] = 54; hdr[14] = 40;
    hdr[18] = (unsigned char)w; hdr[19] = (unsigned char)(w >> 8); hdr[20] = (unsigned char)(w >> 16); hdr[21] = (unsigned char)(w >> 24);
    hdr[22] = (unsigned char)h; hdr[23] = (unsigned char)(h >> 8); hdr[24] = (unsigned char)(h >> 16); hdr[25] = (unsigned char)(h >> 24);
    hdr[26] = 1; hdr[28] = 24;
    nbytes = (rowb * h <= 65536) ? rowb * h : 65536;
    snprintf(fn, sizeof(fn), "%s", f_bmp_lim);
    f = fopen(fn, "wb"); must(f != NULL, fn);
    fwrite(hdr, 1, 54, f);
    for (i = 0; i < nbytes; i++) fputc((int)(i & 255), f);
    fclose(f);
  }
  tracking = 1; nblk = 0; alloc_idx = 0; plan_mode = 0; biggest = 0;
  img = tj3LoadImage8(hc, fn, &ww, 1, &hh, &pf);
  tracking = 0;
  printf("limit load %s %ld %ld %d rc=%d biggest=%zu | %s\n", kind, w, h, lim, img ? 0 : -1, biggest, img ? "" : tj3GetErrorStr(hc));
  tracking = 1; tj3Free(img); tj3Destroy(hc); tracking = 0;
}

/* limit scan <index-of-progressive-jpeg> <scanlimit>: JPROGN[i] has a known number of scans */
static int count_scans(const jpg_t *j)
{
  size_t i; int n = 0;
  for (i = 0; i + 1 < j->size; i++) if (j->buf[i] == 0xFF && j->buf[i + 1] == 0xDA) n++;
  return n;
}
static void limit_scan(int idx, int lim, const char *api)
{
  tjhandle hd = tj3Init(!strcmp(api, "transform") ? TJINIT_TRANSFORM : TJINIT_DECOMPRESS);
  const jpg_t *j = &JPROGN[idx];
  unsigned char *dst = (unsigned char *)__real_malloc(IW * IH * 4 + 64), *xo = NULL; size_t xn = 0; int rc;
  must(hd != NULL && dst != NULL, "limit init");
  must(tj3Set(hd, TJPARAM_SCANLIMIT, lim) == 0, "set scanlimit");
  if (!strcmp(api, "transform")) { tjtransform t; memset(&t, 0, sizeof(t)); rc = tj3Transform(hd, j->buf, j->size, 1, &xo, &xn, &t); }
  else if (!strcmp(api, "toyuv")) rc = tj3DecompressToYUV8(hd, j->buf, j->size, dst, 1);
  else rc = tj3Decompress8(hd, j->buf, j->size, dst, 0, TJPF_RGB);
  printf("limit scan %d %d %s scans=%d rc=%d | %s\n", idx, lim, api, count_scans(j), rc, rc < 0 ? tj3GetErrorStr(hd) : "");
  tj3Free(xo); __real_free(dst); tj3Destroy(hd);
}

/* limit mem <megabytes> <w> <h> <api>: progressive w x h image, TJPARAM_MAXMEMORY */
static void limit_mem(int mb, int w, int h, const char *api)
{
  tjhandle hc = tj3Init(TJINIT_COMPRESS), hd = NULL;
  unsigned char *src = (unsigned char *)__real_calloc((size_t)w * h, 3), *jb = NULL, *dst = NULL, *xo = NULL; size_t jn = 0, xn = 0;
  int rc = -2, i;
  must(hc && src, "limit setup");
  for (i = 0; i < w * h * 3; i++) src[i] = (unsigned char)((i * 13) >> 3);
  must(tj3Set(hc, TJPARAM_SUBSAMP, TJSAMP_444) == 0 && tj3Set(hc, TJPARAM_QUALITY, 30) == 0 && tj3Set(hc, TJPARAM_PROGRESSIVE, 1) == 0, "limit params");
  if (!strcmp(api, "compress")) {
    /* progressive compression needs a full-image coefficient buffer */
    must(tj3Set(hc, TJPARAM_MAXMEMORY, mb) == 0, "set maxmemory");
    tracking = 1; nblk = 0; alloc_idx = 0; plan_mode = 0; peak = 0; cur = 0;
    rc = tj3Compress8(hc, src, w, 0, h, TJPF_RGB, &jb, &jn);
    tracking = 0;
    printf("limit mem %d %d %d %s rc=%d peak=%ld | %s\n", mb, w, h, api, rc, peak, rc < 0 ? tj3GetErrorStr(hc) : "");
    tracking = 1; tj3Free(jb); tj3Destroy(hc); tracking = 0; __real_free(src);
    return;
  }
  must(tj3Compress8(hc, src, w, 0, h, TJPF_RGB, &jb, &jn) == 0, "limit compress");
  hd = tj3Init(!strcmp(api, "transform") ? TJINIT_TRANSFORM : TJINIT_DECOMPRESS);
  must(hd != NULL, "limit init");
  must(tj3Set(hd, TJPARAM_MAXMEMORY, mb) == 0, "set maxmemory");
  dst = (unsigned char *)__real_malloc((size_t)w * h * 3 + 64);
  tracking = 1; nblk = 0; alloc_idx = 0; plan_mode = 0; peak = 0; cur = 0;
  if (!strcmp(api, "transform")) { tjtransform t; memset(&t, 0, sizeof(t)); rc = tj3Transform(hd, jb, jn, 1, &xo, &xn, &t); }
  else rc = tj3Decompress8(hd, jb, jn, dst, 0, TJPF_RGB);
  tracking = 0;
  printf("limit mem %d %d %d %s rc=%d peak=%ld | %s\n", mb, w, h, api, rc, peak, rc < 0 ? tj3GetErrorStr(hd) : "");
  tracking = 1; tj3Free(xo); tj3Destroy(hd); tracking = 0;
  tj3Free(jb); __real_free(dst); __real_free(src); tj3Destroy(hc);
}

/* progressive JPEGs with 1..n scans, built with the libjpeg API and a custom scan script */
static void make_progn(void)
{
  int k;
  for (k = 0; k < 8; k++) {
    struct jpeg_compress_struct ci; struct jpeg_error_mgr je;
    static jpeg_scan_info si[16];
    unsigned char *out = NULL; unsigned long n = 0; int ns = 0, i;
    ci.err = jpeg_std_error(&je);
    jpeg_create_compress(&ci);
    jpeg_mem_dest(&ci, &out, &n);
    ci.image_width = IW; ci.image_height = IH; ci.input_components = 1; ci.in_color_space = JCS_GRAYSCALE;
    jpeg_set_defaults(&ci);
    /* gray progressive: DC first, then AC bands 1..63 split into k+1 spectral bands */
    memset(si, 0, sizeof(si));
    si[ns].comps_in_scan = 1; si[ns].component_index[0] = 0; si[ns].Ss = 0; si[ns].Se = 0; ns++;
    for (i = 0; i <= k; i++) {
      int lo = 1 + i * 63 / (k + 1), hi = (i + 1) * 63 / (k + 1);
      si[ns].comps_in_scan = 1; si[ns].component_index[0] = 0; si[ns].Ss = lo; si[ns].Se = hi; ns++;
    }
    ci.scan_info = si; ci.num_scans = ns;
    jpeg_start_compress(&ci, TRUE);
    while (ci.next_scanline < ci.image_height) { JSAMPROW row = &gray8[ci.next_scanline * IW]; jpeg_write_scanlines(&ci, &row, 1); }
    jpeg_finish_compress(&ci);
    jpeg_destroy_compress(&ci);
    JPROGN[k].buf = out; JPROGN[k].size = n;
    must(count_scans(&JPROGN[k]) == k + 2, "scan count of generated progressive image");
  }
}

static void setup(const char *dir)
{
  char hdr[64]; size_t i; unsigned char *tmp;
  make_images();
  prep(&J420, C_420); prep(&J444P, C_444P); prep(&JGRAYA, C_GRAYA); prep(&J422O, C_422O); prep(&JLL8, C_LL8);
  prep(&J12, C_12); prep(&JLL12, C_LL12); prep(&JLL16, C_LL16); prep(&JICC, C_ICC); prep(&J440, C_440); prep(&JCMYK, C_CMYK);
  make_progn();
  { tjhandle h = tj3Init(TJINIT_COMPRESS); must(h != NULL, "init");
    must(tj3Set(h, TJPARAM_SUBSAMP, TJSAMP_420) == 0, "subsamp");
    yuv420size = tj3YUVBufSize(IW, 4, IH, TJSAMP_420); yuv420 = (unsigned char *)__real_malloc(yuv420size);
    must(tj3EncodeYUV8(h, rgb8, IW, 0, IH, TJPF_RGB, yuv420, 4) == 0, "encodeyuv"); tj3Destroy(h); }
  snprintf(f_ppm8, sizeof(f_ppm8), "%s/in8.ppm", dir); snprintf(f_pgm8, sizeof(f_pgm8), "%s/in8.pgm", dir);
  snprintf(f_bmp8, sizeof(f_bmp8), "%s/in8.bmp", dir); snprintf(f_ppm12, sizeof(f_ppm12), "%s/in12.ppm", dir);
  snprintf(f_ppm16, sizeof(f_ppm16), "%s/in16.ppm", dir); snprintf(f_out, sizeof(f_out), "%s/out", dir);
  snprintf(f_ppm_lim, sizeof(f_ppm_lim), "%s/lim.pgm", dir); snprintf(f_bmp_lim, sizeof(f_bmp_lim), "%s/lim.bmp", dir);
  { tjhandle h = tj3Init(TJINIT_DECOMPRESS); must(h != NULL, "init");
    must(tj3SaveImage8(h, f_ppm8, rgb8, IW, 0, IH, TJPF_RGB) == 0, "save ppm");
    must(tj3SaveImage8(h, f_pgm8, gray8, IW, 0, IH, TJPF_GRAY) == 0, "save pgm");
    must(tj3SaveImage8(h, f_bmp8, rgb8, IW, 0, IH, TJPF_RGB) == 0, "save bmp");
    must(tj3SaveImage12(h, f_ppm12, rgb12, IW, 0, IH, TJPF_RGB) == 0, "save ppm12");
    must(tj3SaveImage16(h, f_ppm16, rgb16, IW, 0, IH, TJPF_RGB) == 0, "save ppm16");
    tj3Destroy(h); }
  (void)hdr; (void)i; (void)tmp;
}

static char line[4096];

int main(int argc, char **argv)
{
  int i;
  setvbuf(stdout, NULL, _IOLBF, 0);
  unsetenv("JPEGMEM");
  if (argc < 2) { fprintf(stderr, "usage: c14_fi <scratch-dir>\n"); return 2; }
  snprintf(scratch, sizeof(scratch), "%s", argv[1]);
  setup(scratch);
  while (fgets(line, sizeof(line), stdin)) {
    char cmd[32] = "", a[64] = "", b[64] = "", c[64] = ""; long k1 = 0, k2 = 0;
    if (sscanf(line, "%31s", cmd) < 1) continue;
    if (!strcmp(cmd, "list")) {
      for (i = 0; i < NSCN; i++) {
        const char *n = scns[i].name; char t = '-', inner = '-';
        if (!strncmp(n, "init_", 5)) t = n[5];
        else if (!strncmp(n, "comp", 4) || !strcmp(n, "encyuv")) t = 'c';
        else if (!strncmp(n, "dec", 3)) t = 'd';
        else if (!strncmp(n, "xform", 5)) t = 't';
        else if (!strncmp(n, "load", 4)) { t = 'c'; inner = 'c'; }
        else if (!strncmp(n, "save", 4)) { t = 'd'; inner = 'd'; }
        printf("scn %s %c %c\n", n, t, inner);
      }
      printf("endlist\n");
    } else if (!strcmp(cmd, "run")) {
      const scn_t *s = NULL;
      sscanf(line, "%*s %63s %63s %ld %ld", a, b, &k1, &k2);
      for (i = 0; i < NSCN; i++) if (!strcmp(scns[i].name, a)) s = &scns[i];
      if (!s) { printf("result %s ? unknown-scenario\n", a); continue; }
      run_scn(s, b, k1, k2);
    } else if (!strcmp(cmd, "limit")) {
      long x = 0, y = 0, z = 0;
      sscanf(line, "%*s %63s", a);
      if (!strcmp(a, "pix")) { sscanf(line, "%*s %*s %ld %ld %ld %63s", &x, &y, &z, b); limit_pix((int)x, (int)y, (int)z, b); }
      else if (!strcmp(a, "load")) { sscanf(line, "%*s %*s %63s %ld %ld %ld", b, &x, &y, &z); limit_load(b, x, y, (int)z); }
      else if (!strcmp(a, "scan")) { sscanf(line, "%*s %*s %ld %ld %63s", &x, &y, b); limit_scan((int)x, (int)y, b); }
      else if (!strcmp(a, "mem")) { sscanf(line, "%*s %*s %ld %ld %ld %63s", &x, &y, &z, b); limit_mem((int)x, (int)y, (int)z, b); }
      else printf("limit ?\n");
      (void)c;
    } else printf("?\n");
  }
  return 0;
}
