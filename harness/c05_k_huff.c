/* C05: Huffman encoding of one block: the static C encode_one_block() and the static SIMD wrapper
 * encode_one_block_simd() (pre-check + jsimd_huff_encode_one_block) of src/jchuff.c */
#define jinit_huff_encoder c05_unused_jinit_huff_encoder
#define jpeg_make_c_derived_tbl c05_unused_jpeg_make_c_derived_tbl
#define jpeg_gen_optimal_table c05_unused_jpeg_gen_optimal_table
#include "jchuff.c"
#include "c05_k.h"
#include <string.h>
/* returns the number of bytes written to out; *buf / *free_bits are the bit-buffer state in and out */
int c05_huff(int simd, short *block, int last_dc, const unsigned *dc_co, const unsigned char *dc_si,
             const unsigned *ac_co, const unsigned char *ac_si, unsigned long long *buf, int *free_bits, u8 *out)
{
  static struct jpeg_compress_struct cc; static struct jpeg_error_mgr err; static c_derived_tbl dt, at; working_state st;
  int i;
  memset(&cc, 0, sizeof(cc)); cc.err = jpeg_std_error(&err); cc.data_precision = 8;
  for (i = 0; i < 256; i++) { dt.ehufco[i] = dc_co[i]; dt.ehufsi[i] = (char)dc_si[i]; at.ehufco[i] = ac_co[i]; at.ehufsi[i] = (char)ac_si[i]; }
  memset(&st, 0, sizeof(st));
  st.next_output_byte = out; st.free_in_buffer = 4096; st.cinfo = &cc;
  st.cur.put_buffer.c = *buf; st.cur.free_bits = *free_bits;
#ifdef WITH_SIMD
  st.simd = simd;
  if (simd) encode_one_block_simd(&st, block, last_dc, &dt, &at); else
#endif
  encode_one_block(&st, block, last_dc, &dt, &at);
  *buf = st.cur.put_buffer.c; *free_bits = st.cur.free_bits;
  return (int)(st.next_output_byte - out);
}
int c05_can_huff(void) { return jsimd_can_huff_encode_one_block(); }
