/* C14: reach the GIF reader of cjpeg (src/rdgif.c, not part of libturbojpeg) through its cdjpeg entry point */
#define GIF_SUPPORTED
#include "rdgif.c"
#include <setjmp.h>
struct c14_err { struct jpeg_error_mgr pub; jmp_buf jb; char msg[JMSG_LENGTH_MAX]; };
static void c14_exit(j_common_ptr c) { struct c14_err *e = (struct c14_err *)c->err; (*c->err->format_message) (c, e->msg); longjmp(e->jb, 1); }
static void c14_emit(j_common_ptr c, int l) { (void)c; (void)l; }
/* returns 0 when start_input accepted the image, -1 on error (message in msg) */
int c14_gif_start(const char *fn, unsigned long lim, char *msg, unsigned *w, unsigned *h)
{
  struct jpeg_compress_struct ci; struct c14_err je; cjpeg_source_ptr src; FILE *f = fopen(fn, "rb");
  volatile int rc = 0;
  if (!f) { strcpy(msg, "cannot open"); return -2; }
  memset(&ci, 0, sizeof(ci));
  ci.err = jpeg_std_error(&je.pub); je.pub.error_exit = c14_exit; je.pub.emit_message = c14_emit;
  je.pub.addon_message_table = NULL; msg[0] = 0;
  if (setjmp(je.jb)) { rc = -1; strncpy(msg, je.msg, 199); msg[199] = 0; }
  else {
    jpeg_create_compress(&ci);
    ci.in_color_space = JCS_RGB; jpeg_set_defaults(&ci);
    src = jinit_read_gif(&ci); src->input_file = f; src->max_pixels = (JDIMENSION)lim;
    (*src->start_input) (&ci, src);
    *w = ci.image_width; *h = ci.image_height;
  }
  jpeg_destroy_compress(&ci); fclose(f);
  return rc;
}
