/* C19 behavioural tie of coq/model/HuffSym.v: runs the REAL statistics-gathering
 * code of the working tree on the cases read from stdin, one result line per
 * case (same format as ml/C19_driver.ml):
 *   hs <prec> ; <last_dc> c0 .. c63 ; [*N] <last_dc> c0 .. c63 ; ...
 *        jchuff.c htest_one_block on every block (coefficients in zig-zag order,
 *        placed at block[jpeg_natural_order[k]]); counts accumulate
 *        -> "hs dc s:c .. | ac s:c .." or "hs err" (ERREXIT guard fired)
 *   hp <prec> <Ss> <Se> <Ah> <Al> <restart_interval> ; [*N] c0 .. c63 ; ...
 *        jcphuff.c gather pass, one block per MCU (harness/c19sym_p.c)
 *   hl d0 d1 ...      jclhuff.c encode_mcus_gather on one row of differences (c19sym_l.c)
 */
#include "c19sym.h"
#include "jchuff.c"

static jmp_buf jb;
static int last_err;
static void my_exit(j_common_ptr c) { last_err = c->err->msg_code; longjmp(jb, 1); }
static void my_emit(j_common_ptr c, int lvl) { }
static char *line; static size_t cap;

int main(void)
{
  static struct jpeg_compress_struct c; static struct jpeg_error_mgr e;
  setvbuf(stdout, NULL, _IOLBF, 0);
  c.err = jpeg_std_error(&e); e.error_exit = my_exit; e.emit_message = my_emit;
  jpeg_create_compress(&c);
  while (getline(&line, &cap, stdin) > 0) {
    char *p = line; char cmd[8]; int k = 0;
    while (*p && *p != ' ' && *p != '\n' && k < 7) cmd[k++] = *p++;
    cmd[k] = 0;
    if (!strcmp(cmd, "hs")) {
      static long dcc[1024], acc[1024]; /* the library's arrays have 257 entries; larger here so that an out-of-class index is seen, not lost */ long v[80], rep; int n, bad = 0;
      memset(dcc, 0, sizeof(dcc)); memset(acc, 0, sizeof(acc));
      n = c19_group(&p, v, 80, &rep);
      c.data_precision = (int)v[0];
      if (setjmp(jb)) { if (last_err == JERR_BAD_DCT_COEF) printf("hs err\n"); else printf("hs err code=%d\n", last_err); continue; }
      for (;;) {
        JCOEF blk[64]; int i; long r;
        n = c19_group(&p, v, 80, &rep);
        if (n == 0) break;
        if (n != 65) { bad = 1; break; }
        for (i = 0; i < 64; i++) blk[jpeg_natural_order[i]] = (JCOEF)v[1 + i];
        for (r = 0; r < rep; r++) htest_one_block(&c, blk, (int)v[0], dcc, acc);
      }
      if (bad) { printf("?\n"); continue; }
      { int i; printf("hs dc"); for (i = 0; i < 1024; i++) if (dcc[i]) printf(" %d:%ld", i, dcc[i]);
        printf(" | ac"); for (i = 0; i < 1024; i++) if (acc[i]) printf(" %d:%ld", i, acc[i]); printf("\n"); }
    } else if (!strcmp(cmd, "hp")) {
      c19_hp_line(p);
    } else if (!strcmp(cmd, "hl")) {
      c19_hl_line(p);
    } else printf("?\n");
  }
  return 0;
}
