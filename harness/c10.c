/* C10 harness: pixel layout / row order / pitch independence, on the REAL code of the
 * working tree.  One case per input line, one result line per case.
 *
 * Kernel cases (compared with the extracted Coq model, ml/C10_driver.ml):
 *   k <op> <bits> <cs> <w> <h> <pitch> <bottomup> | list | list ...
 *     op = c2y c2g c2r : the compressor's colour converter (jinit_color_converter of the
 *                        library, i.e. jccolor.c/jccolext.c or its SIMD replacement) run on
 *                        buffer <list 1> through row pointers bottomup?(h-1-i)*pitch:i*pitch
 *                        -> "ok plane0 | plane1 | plane2"
 *     op = y2c g2c r2c y2g r2g : the decompressor's colour deconverter (jdcolor.c/jdcolext.c or
 *                        SIMD) run on planes <list 1..3> writing into buffer <last list>
 *                        -> "ok buffer"
 *     op = c2k k2c      : cmyk_ycck_convert (jccolor.c) / ycck_cmyk_convert (jdcolor.c), cs = JCS_CMYK
 *     op = y5 r5 g5 [d] : the six RGB565 converters of jdcol565.c (d = ordered dither); <bottomup> field =
 *                        bu | mis<<1 | rows_per_call<<3 | first_scanline<<6 (mis = output address modulo 4)
 *     op = m15 m25 [d]  : merged upsampling to RGB565 (jdmrg565.c), same <bottomup> field
 *     op = m1 m2        : merged upsampling h2v1 / h2v2 (jdmerge.c/jdmrgext.c or SIMD)
 * API cases (property oracle, judged by checks/C10.py; independent of the model):
 *   enc <bits> <w> <h> <subsamp> <qual> <cspace> <lossless> <psv> <pt> <prec> <flags> <seed> <kind>
 *        the same picture in every pixel format x pitch padding x row order through
 *        tj3Compress{8,12,16} and through jpeg_write_scanlines with JCS_EXT_*:
 *        -> "enc tj:<variant>=<len>.<hash> ... lj:... gray:... cmyk:..."
 *   dec  same parameters: one JPEG decompressed to every pixel format x pitch x order
 *        -> "dec tj:<variant>=<rgbhash>.<badalpha>.<touched> ... gray:... rawy=... cmyk:..."
 * The positions of R,G,B,A in each format are the DOCUMENTED ones (turbojpeg.h /
 * jpeglib.h comments), hard-coded below, not the library's tables.
 */
#include <stdio.h>
#include <stdlib.h>
#include <string.h>
#include <setjmp.h>
#include <stdint.h>
#define JPEG_INTERNALS
#include "jinclude.h"
#include "jpeglib.h"
#include "turbojpeg.h"

/* ------------------------------------------------------------------ documented layouts */
typedef struct { const char *name; int id; int r, g, b, a, ps; } fmt_t;
static const fmt_t TJF[10] = {
  { "RGB", TJPF_RGB, 0, 1, 2, -1, 3 },  { "BGR", TJPF_BGR, 2, 1, 0, -1, 3 },
  { "RGBX", TJPF_RGBX, 0, 1, 2, -1, 4 }, { "BGRX", TJPF_BGRX, 2, 1, 0, -1, 4 },
  { "XBGR", TJPF_XBGR, 3, 2, 1, -1, 4 }, { "XRGB", TJPF_XRGB, 1, 2, 3, -1, 4 },
  { "RGBA", TJPF_RGBA, 0, 1, 2, 3, 4 },  { "BGRA", TJPF_BGRA, 2, 1, 0, 3, 4 },
  { "ABGR", TJPF_ABGR, 3, 2, 1, 0, 4 },  { "ARGB", TJPF_ARGB, 1, 2, 3, 0, 4 } };
static const fmt_t LJF[11] = {
  { "JRGB", JCS_RGB, 0, 1, 2, -1, 3 },
  { "JEXT_RGB", JCS_EXT_RGB, 0, 1, 2, -1, 3 },   { "JEXT_RGBX", JCS_EXT_RGBX, 0, 1, 2, -1, 4 },
  { "JEXT_BGR", JCS_EXT_BGR, 2, 1, 0, -1, 3 },   { "JEXT_BGRX", JCS_EXT_BGRX, 2, 1, 0, -1, 4 },
  { "JEXT_XBGR", JCS_EXT_XBGR, 3, 2, 1, -1, 4 }, { "JEXT_XRGB", JCS_EXT_XRGB, 1, 2, 3, -1, 4 },
  { "JEXT_RGBA", JCS_EXT_RGBA, 0, 1, 2, 3, 4 },  { "JEXT_BGRA", JCS_EXT_BGRA, 2, 1, 0, 3, 4 },
  { "JEXT_ABGR", JCS_EXT_ABGR, 3, 2, 1, 0, 4 },  { "JEXT_ARGB", JCS_EXT_ARGB, 1, 2, 3, 0, 4 } };
static const int PADS[4] = { 0, 1, 5, 32 };

/* ------------------------------------------------------------------ helpers */
static uint64_t sm_state;
static uint64_t sm_next(void)
{
  uint64_t z = (sm_state += 0x9E3779B97F4A7C15ULL);
  z = (z ^ (z >> 30)) * 0xBF58476D1CE4E5B9ULL;
  z = (z ^ (z >> 27)) * 0x94D049BB133111EBULL;
  return z ^ (z >> 31);
}
static int sm_below(int n) { return n > 0 ? (int)(sm_next() % (uint64_t)n) : 0; }

static int ssz(int bits) { return bits == 8 ? 1 : 2; }
static int gets_(const void *b, int bits, size_t i)
{
  if (bits == 8) return ((const unsigned char *)b)[i];
  if (bits == 12) return ((const short *)b)[i];
  return ((const unsigned short *)b)[i];
}
static void puts_(void *b, int bits, size_t i, int v)
{
  if (bits == 8) ((unsigned char *)b)[i] = (unsigned char)v;
  else if (bits == 12) ((short *)b)[i] = (short)v;
  else ((unsigned short *)b)[i] = (unsigned short)v;
}
static uint64_t fnv(uint64_t h, const void *p, size_t n)
{
  const unsigned char *c = p; size_t i;
  for (i = 0; i < n; i++) { h ^= c[i]; h *= 0x100000001B3ULL; }
  return h;
}
#define FNV0 0xCBF29CE484222325ULL
static uint64_t fnv_int(uint64_t h, int v) { return fnv(h, &v, sizeof(v)); }

static jmp_buf jb;
static int last_err;
static void my_exit(j_common_ptr c) { last_err = c->err->msg_code; longjmp(jb, 1); }
static void my_emit(j_common_ptr c, int lvl) { if (lvl < 0) c->err->num_warnings++; }
static void my_out(j_common_ptr c) { }
static struct jpeg_error_mgr *mkerr(struct jpeg_error_mgr *e)
{
  jpeg_std_error(e); e->error_exit = my_exit; e->emit_message = my_emit; e->output_message = my_out;
  return e;
}

#define MAXLINE (1 << 22)
static char *line;
static int *nums;   /* parsed integers of all lists, concatenated */
static int list_off[16], list_len[16], nlists;

static void parse_lists(char *p)
{
  int n = 0;
  nlists = 0;
  while (*p) {
    while (*p == ' ') p++;
    if (*p == '|') { p++; continue; }
    if (*p == 0 || *p == '\n') break;
    list_off[nlists] = n;
    while (*p && *p != '|' && *p != '\n') {
      char *q;
      long v = strtol(p, &q, 10);
      if (q == p) { p++; continue; }
      nums[n++] = (int)v; p = q;
      while (*p == ' ') p++;
    }
    list_len[nlists] = n - list_off[nlists];
    nlists++;
    if (nlists >= 16) break;
  }
}

/* ------------------------------------------------------------------ a small JPEG of given geometry */
static unsigned char *make_jpeg(int bits, int w, int h, int jcs, int hs, int vs, unsigned long *len)
{
  struct jpeg_compress_struct c; struct jpeg_error_mgr e;
  unsigned char *out = NULL; void *row = NULL;
  int y, nc = (jcs == JCS_GRAYSCALE) ? 1 : (jcs == JCS_YCCK || jcs == JCS_CMYK) ? 4 : 3;
  *len = 0;
  c.err = mkerr(&e);
  if (setjmp(jb)) { jpeg_destroy_compress(&c); free(row); free(out); return NULL; }
  jpeg_create_compress(&c);
  jpeg_mem_dest(&c, &out, len);
  c.image_width = w; c.image_height = h; c.input_components = nc;
  c.in_color_space = (nc == 1) ? JCS_GRAYSCALE : (nc == 4) ? JCS_CMYK : JCS_RGB;
  c.data_precision = bits;
  jpeg_set_defaults(&c);
  c.data_precision = bits;
  if (bits == 16) jpeg_enable_lossless(&c, 1, 0);
  else {
    jpeg_set_colorspace(&c, (J_COLOR_SPACE)jcs);
    c.comp_info[0].h_samp_factor = hs; c.comp_info[0].v_samp_factor = vs;
  }
  jpeg_start_compress(&c, TRUE);
  row = calloc((size_t)w * nc + 8, 2);
  for (y = 0; y < h; y++) {
    if (bits == 8) { JSAMPROW r = row; jpeg_write_scanlines(&c, &r, 1); }
    else if (bits == 12) { J12SAMPROW r = row; jpeg12_write_scanlines(&c, &r, 1); }
    else { J16SAMPROW r = row; jpeg16_write_scanlines(&c, &r, 1); }
  }
  jpeg_finish_compress(&c);
  jpeg_destroy_compress(&c);
  free(row);
  return out;
}

/* plane rows as the library allocates them (alloc_sarray): every row starts on a 32-byte boundary and is padded to a
   multiple of 32 bytes (+ one more vector), because the SSE2 kernels use aligned loads/stores on the planar side */
static size_t row_stride(int w, int bits) { return ((size_t)w * ssz(bits) + 31) / 32 * 32 + 64; }
static void *plane_alloc(int w, int rows, int bits) { size_t n = row_stride(w, bits) * (size_t)(rows + 1); void *p = aligned_alloc(32, n); memset(p, 0, n); return p; }

/* ------------------------------------------------------------------ kernel cases */
static void print_list(const char *sep, const void *b, int bits, size_t n)
{
  size_t i;
  fputs(sep, stdout);
  for (i = 0; i < n; i++) printf(i ? " %d" : "%d", gets_(b, bits, i));
}

static void kernel_compress(const char *op, int bits, int cs, int w, int h, int pitch, int bu)
{
  struct jpeg_compress_struct c; struct jpeg_error_mgr e;
  int n = list_len[0], i, ci, ncomp;
  void *buf = NULL, *planes[4] = { NULL, NULL, NULL, NULL };
  void **inrows = NULL; void **prow[4] = { NULL, NULL, NULL, NULL }; void ***img = NULL;
  int jcs = !strcmp(op, "c2y") ? JCS_YCbCr : !strcmp(op, "c2g") ? JCS_GRAYSCALE : !strcmp(op, "c2k") ? JCS_YCCK : JCS_RGB;
  c.err = mkerr(&e);
  if (setjmp(jb)) { printf("err %d\n", last_err); goto done; }
  jpeg_create_compress(&c);
  buf = malloc((size_t)(n + 64) * 2);
  for (i = 0; i < n; i++) puts_(buf, bits, i, nums[list_off[0] + i]);
  c.image_width = w; c.image_height = h;
  c.in_color_space = (J_COLOR_SPACE)cs;
  c.input_components = (cs == JCS_RGB || cs == JCS_EXT_RGB || cs == JCS_EXT_BGR) ? 3 : 4;   /* JCS_CMYK: 4 */
  jpeg_set_defaults(&c);
  c.data_precision = bits;
  if (bits == 16) jpeg_enable_lossless(&c, 1, 0);
  jpeg_set_colorspace(&c, (J_COLOR_SPACE)jcs);
  c.data_precision = bits;
  ncomp = c.num_components;
  if (bits == 8) jinit_color_converter(&c);
  else if (bits == 12) j12init_color_converter(&c);
  else j16init_color_converter(&c);
  (*c.cconvert->start_pass) (&c);
  inrows = malloc(sizeof(void *) * (h + 1));
  for (i = 0; i < h; i++)
    inrows[i] = (char *)buf + (size_t)(bu ? (h - i - 1) : i) * pitch * ssz(bits);
  img = malloc(sizeof(void **) * 4);
  for (ci = 0; ci < 4; ci++) {
    planes[ci] = plane_alloc(w, h, bits);
    prow[ci] = malloc(sizeof(void *) * (h + 1));
    for (i = 0; i < h; i++) prow[ci][i] = (char *)planes[ci] + (size_t)i * row_stride(w, bits);
    img[ci] = prow[ci];
  }
  if (bits == 8) (*c.cconvert->color_convert) (&c, (JSAMPARRAY)inrows, (JSAMPIMAGE)img, 0, h);
  else if (bits == 12) (*c.cconvert->color_convert_12) (&c, (J12SAMPARRAY)inrows, (J12SAMPIMAGE)img, 0, h);
  else (*c.cconvert->color_convert_16) (&c, (J16SAMPARRAY)inrows, (J16SAMPIMAGE)img, 0, h);
  fputs("ok", stdout);
  for (ci = 0; ci < ncomp; ci++) {
    fputs(ci ? " |" : "", stdout);
    for (i = 0; i < h; i++) print_list(" ", prow[ci][i], bits, (size_t)w);
  }
  fputs("\n", stdout);
done:
  jpeg_destroy_compress(&c);
  free(buf); free(inrows); free(img);
  for (ci = 0; ci < 4; ci++) { free(planes[ci]); free(prow[ci]); }
}

static void kernel_decompress(const char *op, int bits, int cs, int w, int h, int pitch, int bu)
{
  struct jpeg_decompress_struct d; struct jpeg_error_mgr e;
  unsigned char *jpg = NULL; unsigned long jlen = 0;
  int merged = (op[0] == 'm'), v2 = (op[0] == 'm' && op[1] == '2');
  int is565 = (op[1] == '5' || (op[0] == 'm' && op[2] == '5'));
  int jcs = (!strcmp(op, "g2c") || op[0] == 'g') ? JCS_GRAYSCALE : (!strcmp(op, "r2c") || !strcmp(op, "r2g") || (is565 && op[0] == 'r')) ? JCS_RGB :
            !strcmp(op, "k2c") ? JCS_YCCK : JCS_YCbCr;
  int nin = (jcs == JCS_GRAYSCALE) ? 1 : (jcs == JCS_YCCK) ? 4 : 3, ci, i, n;
  int mis = is565 ? (bu >> 1) & 3 : 0, chunk = is565 ? (bu >> 3) & 7 : 0, scan0 = is565 ? (bu >> 6) & 3 : 0;
  void *pl[4] = { NULL, NULL, NULL, NULL }; void **prow[4] = { NULL, NULL, NULL, NULL }; void ***img = NULL;
  void *rawbuf = NULL;
  void *buf = NULL; void **outrows = NULL;
  int cw = merged ? (w + 1) / 2 : w, chh = v2 ? (h + 1) / 2 : h;
  d.err = mkerr(&e);
  jpg = make_jpeg(bits, w, h, jcs, merged ? 2 : 1, v2 ? 2 : 1, &jlen);
  if (!jpg) { printf("err mkjpeg %d\n", last_err); return; }
  if (setjmp(jb)) { printf("err %d\n", last_err); goto done; }
  jpeg_create_decompress(&d);
  jpeg_mem_src(&d, jpg, jlen);
  jpeg_read_header(&d, TRUE);
  d.out_color_space = (J_COLOR_SPACE)cs;
  d.do_fancy_upsampling = merged ? FALSE : TRUE;
  if (is565) { d.dither_mode = (op[strlen(op) - 1] == 'd') ? JDITHER_ORDERED : JDITHER_NONE; bu &= 1; }
  jpeg_start_decompress(&d);
  if (nlists != nin + 1) { printf("err lists %d\n", nlists); goto done; }
  img = malloc(sizeof(void **) * 4);
  for (ci = 0; ci < 4; ci++) {
    int pw = (ci == 0) ? w : cw, ph = (ci == 0) ? h : chh, k = 0;
    if (!merged) { pw = w; ph = h; }
    pl[ci] = plane_alloc(pw, ph + 2, bits);
    prow[ci] = malloc(sizeof(void *) * (ph + 3));
    for (i = 0; i < ph + 2; i++) prow[ci][i] = (char *)pl[ci] + (size_t)i * row_stride(pw, bits);
    if (ci < nin)
      for (k = 0; k < list_len[ci] && k < pw * ph; k++) puts_(prow[ci][k / pw], bits, k % pw, nums[list_off[ci] + k]);
    img[ci] = prow[ci];
  }
  n = list_len[nin];
  rawbuf = aligned_alloc(16, (((size_t)(n + 64) * 2 + 16) + 15) / 16 * 16);
  if (!rawbuf) { printf("err alloc\n"); goto done; }
  buf = (char *)rawbuf + mis;      /* RGB565: address of the output buffer modulo 4 */
  for (i = 0; i < n; i++) puts_(buf, bits, i, nums[list_off[nin] + i]);
  outrows = malloc(sizeof(void *) * (h + 2));
  for (i = 0; i < h; i++)
    outrows[i] = (char *)buf + (size_t)(bu ? (h - i - 1) : i) * pitch * ssz(bits);
  if (merged) {
    JDIMENSION in_ctr = 0, out_ctr = 0; int guard = 0;
    if (d.cconvert != NULL && d.upsample == NULL) { printf("err nomerge\n"); goto done; }
    while ((int)out_ctr < h && guard++ < 4 * h + 8) {
      if (is565) d.output_scanline = (JDIMENSION)(scan0 + out_ctr);   /* as between jpeg_read_scanlines calls */
      if (bits == 8)
        (*d.upsample->upsample) (&d, (JSAMPIMAGE)img, &in_ctr, (JDIMENSION)chh, (JSAMPARRAY)outrows, &out_ctr, (JDIMENSION)h);
      else
        (*d.upsample->upsample_12) (&d, (J12SAMPIMAGE)img, &in_ctr, (JDIMENSION)chh, (J12SAMPARRAY)outrows, &out_ctr, (JDIMENSION)h);
    }
    d.output_scanline = 0;
  } else if (is565) {
    int r0;
    if (chunk == 0) chunk = h;
    for (r0 = 0; r0 < h; r0 += chunk) {      /* one color_convert call per `chunk` rows, as jpeg_read_scanlines would */
      d.output_scanline = (JDIMENSION)(scan0 + r0);
      (*d.cconvert->color_convert) (&d, (JSAMPIMAGE)img, (JDIMENSION)r0, (JSAMPARRAY)outrows + r0, (h - r0 < chunk) ? h - r0 : chunk);
    }
    d.output_scanline = 0;
  } else {
    if (bits == 8) (*d.cconvert->color_convert) (&d, (JSAMPIMAGE)img, 0, (JSAMPARRAY)outrows, h);
    else if (bits == 12) (*d.cconvert->color_convert_12) (&d, (J12SAMPIMAGE)img, 0, (J12SAMPARRAY)outrows, h);
    else (*d.cconvert->color_convert_16) (&d, (J16SAMPIMAGE)img, 0, (J16SAMPARRAY)outrows, h);
  }
  fputs("ok", stdout);
  print_list(" ", buf, bits, n);
  fputs("\n", stdout);
done:
  jpeg_destroy_decompress(&d);
  free(jpg); free(rawbuf); free(outrows); free(img);
  for (ci = 0; ci < 4; ci++) { free(pl[ci]); free(prow[ci]); }
}

/* ------------------------------------------------------------------ API cases */
typedef struct {
  int bits, w, h, subsamp, qual, cspace, lossless, psv, pt, prec, flags, kind;
  uint64_t seed;
} par_t;

static int maxval(const par_t *p) { return (1 << (p->lossless ? p->prec : p->bits)) - 1; }

/* canonical picture: w*h*4 ints (r,g,b,k) */
static int *make_picture(const par_t *p)
{
  int *pic = malloc(sizeof(int) * 4 * (size_t)p->w * p->h), x, y, c, mv = maxval(p);
  int base[4], few[8][4], i;
  sm_state = p->seed;
  for (c = 0; c < 4; c++) base[c] = sm_below(mv + 1);
  for (i = 0; i < 8; i++) for (c = 0; c < 4; c++) few[i][c] = sm_below(4) ? sm_below(mv + 1) : (sm_below(2) ? mv : 0);
  for (y = 0; y < p->h; y++)
    for (x = 0; x < p->w; x++) {
      int *q = pic + 4 * ((size_t)y * p->w + x);
      for (c = 0; c < 4; c++) {
        int v;
        switch (p->kind) {
        case 0: v = sm_below(mv + 1); break;                                       /* noise */
        case 1: v = (int)(((long)(x * (c + 1) + y * (3 - c)) * mv) / (p->w + p->h) / 3) + sm_below(mv / 16 + 1); break;
        case 2: v = sm_below(3) == 0 ? 0 : (sm_below(2) ? mv : mv - sm_below(2)); break;  /* extremes */
        case 3: v = base[c]; break;                                               /* flat */
        default: v = -1; break;
        }
        if (v > mv) v = mv;
        q[c] = v;
      }
      if (p->kind >= 4) { int k = sm_below(8); for (c = 0; c < 4; c++) q[c] = few[k][c]; }
    }
  return pic;
}

static void tj_set_common(tjhandle t, const par_t *p)
{
  tj3Set(t, TJPARAM_QUALITY, p->qual);
  tj3Set(t, TJPARAM_SUBSAMP, p->subsamp);
  if (p->cspace >= 0) tj3Set(t, TJPARAM_COLORSPACE, p->cspace);
  tj3Set(t, TJPARAM_FASTDCT, p->flags & 1);
  tj3Set(t, TJPARAM_PROGRESSIVE, (p->flags >> 1) & 1);
  tj3Set(t, TJPARAM_ARITHMETIC, (p->flags >> 2) & 1);
  tj3Set(t, TJPARAM_OPTIMIZE, (p->flags >> 3) & 1);
  if (p->lossless) {
    tj3Set(t, TJPARAM_LOSSLESS, 1);
    tj3Set(t, TJPARAM_LOSSLESSPSV, p->psv);
    tj3Set(t, TJPARAM_LOSSLESSPT, p->pt);
    tj3Set(t, TJPARAM_PRECISION, p->prec);
  }
}

static const char *tjerr(tjhandle t)
{
  static char b[200]; char *q;
  snprintf(b, sizeof(b), "%s", tj3GetErrorStr(t));
  for (q = b; *q; q++) if (*q == ' ' || *q == '=' || *q == ':' || *q == '\n') *q = '_';
  return b;
}

static int tj_compress(tjhandle t, int bits, const void *src, int w, int pitch, int h, int pf,
                       unsigned char **jb_, size_t *js)
{
  if (bits == 8) return tj3Compress8(t, src, w, pitch, h, pf, jb_, js);
  if (bits == 12) return tj3Compress12(t, src, w, pitch, h, pf, jb_, js);
  return tj3Compress16(t, src, w, pitch, h, pf, jb_, js);
}
static int tj_decompress(tjhandle t, int bits, const unsigned char *j, size_t n, void *dst, int pitch, int pf)
{
  if (bits == 8) return tj3Decompress8(t, j, n, dst, pitch, pf);
  if (bits == 12) return tj3Decompress12(t, j, n, dst, pitch, pf);
  return tj3Decompress16(t, j, n, dst, pitch, pf);
}

/* fill n samples with junk derived from the current PRNG state */
static void junk(void *buf, int bits, size_t n)
{
  size_t i;
  for (i = 0; i < n; i++) {
    uint64_t r = sm_next();
    puts_(buf, bits, i, bits == 8 ? (int)(r & 0xFF) : (int)(r & 0xFFFF));
  }
}

/* place picture channels (nch of them at offsets off[]) into buf */
static void place(void *buf, int bits, const int *pic, int w, int h, int pitch, int bu, int ps,
                  const int *off, int nch)
{
  int x, y, c;
  for (y = 0; y < h; y++) {
    size_t rowstart = (size_t)(bu ? h - 1 - y : y) * pitch;
    for (x = 0; x < w; x++)
      for (c = 0; c < nch; c++)
        puts_(buf, bits, rowstart + (size_t)x * ps + off[c], pic[4 * ((size_t)y * w + x) + c]);
  }
}

static void lj_set_common(struct jpeg_compress_struct *c, const par_t *p)
{
  static const int HS[7] = { 1, 2, 2, 1, 1, 4, 1 }, VS[7] = { 1, 1, 2, 1, 2, 1, 4 };
  c->data_precision = p->lossless ? p->prec : p->bits;
  jpeg_set_defaults(c);
  c->data_precision = p->lossless ? p->prec : p->bits;
  if (p->lossless) { jpeg_enable_lossless(c, p->psv, p->pt); return; }
  jpeg_set_quality(c, p->qual, TRUE);
  c->dct_method = (p->flags & 1) ? JDCT_FASTEST : JDCT_ISLOW;
  if (p->cspace == TJCS_RGB) jpeg_set_colorspace(c, JCS_RGB);
  else if (p->cspace == TJCS_GRAY || p->subsamp == TJSAMP_GRAY) jpeg_set_colorspace(c, JCS_GRAYSCALE);
  else jpeg_set_colorspace(c, JCS_YCbCr);
  if (c->data_precision == 8) c->optimize_coding = (p->flags >> 3) & 1;
  if ((p->flags >> 1) & 1) jpeg_simple_progression(c);
  c->arith_code = (p->flags >> 2) & 1;
  if (c->num_components == 3) {
    c->comp_info[0].h_samp_factor = HS[p->subsamp]; c->comp_info[0].v_samp_factor = VS[p->subsamp];
  }
}

static void do_enc(const par_t *p)
{
  int *pic = make_picture(p);
  tjhandle t = tj3Init(TJINIT_COMPRESS);
  int f, pi, bu, w = p->w, h = p->h, bits = p->bits;
  uint64_t vseed = p->seed ^ 0x5DEECE66DULL;
  fputs("enc", stdout);
  tj_set_common(t, p);
  /* TurboJPEG API: 10 formats (+GRAY, CMYK) x 4 paddings x 2 row orders */
  for (f = 0; f < 12; f++) {
    int ps, off[4], nch, pf; const char *grp, *name;
    if (f < 10) { ps = TJF[f].ps; off[0] = TJF[f].r; off[1] = TJF[f].g; off[2] = TJF[f].b; nch = 3; pf = TJF[f].id; grp = "tj"; name = TJF[f].name; }
    else if (f == 10) { ps = 1; off[0] = 0; nch = 1; pf = TJPF_GRAY; grp = "gray"; name = "GRAY"; }
    else { ps = 4; off[0] = 0; off[1] = 1; off[2] = 2; off[3] = 3; nch = 4; pf = TJPF_CMYK; grp = "cmyk"; name = "CMYK"; }
    if (f == 11 && p->cspace >= 0 && p->cspace != TJCS_CMYK && p->cspace != TJCS_YCCK) continue;
    if (f < 10 && p->cspace >= TJCS_CMYK) continue;
    if (f == 10 && p->cspace >= 0 && p->cspace != TJCS_GRAY) continue;
    if (f == 10 && !p->lossless && p->cspace < 0 && p->subsamp != TJSAMP_GRAY) continue;
    for (pi = 0; pi < 4; pi++)
      for (bu = 0; bu < 2; bu++) {
        int pitch = w * ps + PADS[pi];
        size_t n = (size_t)pitch * h;
        void *buf = malloc((n + 8) * 2);
        unsigned char *jbuf = NULL; size_t js = 0; int rc;
        sm_state = vseed++;
        junk(buf, bits, n);
        place(buf, bits, pic, w, h, pitch, bu, ps, off, nch);
        tj3Set(t, TJPARAM_BOTTOMUP, bu);
        rc = tj_compress(t, bits, buf, w, pitch, h, pf, &jbuf, &js);
        if (rc) printf(" %s:%s+%d%s=ERR(%s)", grp, name, PADS[pi], bu ? "bu" : "td", tjerr(t));
        else printf(" %s:%s+%d%s=%lu.%016llx", grp, name, PADS[pi], bu ? "bu" : "td", (unsigned long)js,
                    (unsigned long long)fnv(FNV0, jbuf, js));
        tj3Free(jbuf);
        free(buf);
      }
  }
  tj3Destroy(t);
  /* libjpeg API: 11 colour spaces x (contiguous rows | scattered row pointers) */
  for (f = 0; f < 11; f++) {
    int var;
    for (var = 0; var < 2; var++) {
      struct jpeg_compress_struct c; struct jpeg_error_mgr e;
      unsigned char *out = NULL; unsigned long olen = 0;
      int ps = LJF[f].ps, stride = w * ps + (var ? 7 : 0), i;
      size_t n = (size_t)stride * h;
      void *buf = malloc((n + 8) * 2);
      void **rows = malloc(sizeof(void *) * (h + 1));
      int *perm = malloc(sizeof(int) * (h + 1));
      sm_state = vseed++;
      junk(buf, bits, n);
      for (i = 0; i < h; i++) perm[i] = i;
      if (var) for (i = h - 1; i > 0; i--) { int j = sm_below(i + 1), tt = perm[i]; perm[i] = perm[j]; perm[j] = tt; }
      for (i = 0; i < h; i++) {
        int x;
        rows[i] = (char *)buf + (size_t)perm[i] * stride * ssz(bits);
        for (x = 0; x < w; x++) {
          puts_(rows[i], bits, (size_t)x * ps + LJF[f].r, pic[4 * ((size_t)i * w + x) + 0]);
          puts_(rows[i], bits, (size_t)x * ps + LJF[f].g, pic[4 * ((size_t)i * w + x) + 1]);
          puts_(rows[i], bits, (size_t)x * ps + LJF[f].b, pic[4 * ((size_t)i * w + x) + 2]);
        }
      }
      c.err = mkerr(&e);
      if (setjmp(jb)) {
        printf(" lj:%s.%d=ERR(%d)", LJF[f].name, var, last_err);
      } else {
        jpeg_create_compress(&c);
        jpeg_mem_dest(&c, &out, &olen);
        c.image_width = w; c.image_height = h; c.input_components = ps;
        c.in_color_space = (J_COLOR_SPACE)LJF[f].id;
        lj_set_common(&c, p);
        jpeg_start_compress(&c, TRUE);
        while (c.next_scanline < c.image_height) {
          int nr = var ? 1 + sm_below(3) : h;
          if (bits == 8) jpeg_write_scanlines(&c, (JSAMPARRAY)rows + c.next_scanline, nr);
          else if (bits == 12) jpeg12_write_scanlines(&c, (J12SAMPARRAY)rows + c.next_scanline, nr);
          else jpeg16_write_scanlines(&c, (J16SAMPARRAY)rows + c.next_scanline, nr);
        }
        jpeg_finish_compress(&c);
        printf(" lj:%s.%d=%lu.%016llx", LJF[f].name, var, olen, (unsigned long long)fnv(FNV0, out, olen));
      }
      jpeg_destroy_compress(&c);
      free(out); free(buf); free(rows); free(perm);
    }
  }
  fputs("\n", stdout);
  free(pic);
}

/* hash of the (r,g,b[,k]) channels found at the documented positions; counts alpha samples
   different from amax and samples outside the w*ps extent of each row that changed */
static void judge(const void *buf, const void *orig, int bits, int w, int h, int pitch, int bu,
                  int ps, const int *off, int nch, int aoff, int amax, size_t total,
                  uint64_t *hash, int *badalpha, int *touched)
{
  int x, y, c; size_t i;
  unsigned char *inside = calloc(total + 1, 1);
  uint64_t hh = FNV0;
  *badalpha = 0; *touched = 0;
  for (y = 0; y < h; y++) {
    size_t rowstart = (size_t)(bu ? h - 1 - y : y) * pitch;
    for (x = 0; x < w; x++) {
      for (c = 0; c < nch; c++) hh = fnv_int(hh, gets_(buf, bits, rowstart + (size_t)x * ps + off[c]));
      if (aoff >= 0 && gets_(buf, bits, rowstart + (size_t)x * ps + aoff) != amax) (*badalpha)++;
    }
    for (i = 0; i < (size_t)w * ps; i++) inside[rowstart + i] = 1;
  }
  for (i = 0; i < total; i++)
    if (!inside[i] && gets_(buf, bits, i) != gets_(orig, bits, i)) (*touched)++;
  free(inside);
  *hash = hh;
}

static void do_dec(const par_t *p)
{
  int *pic = make_picture(p);
  int bits = p->bits, w = p->w, h = p->h, f, pi, bu, ow, oh, nsf = 0, sfi = (p->flags >> 8) & 15;
  tjhandle t = tj3Init(TJINIT_COMPRESS), d;
  unsigned char *jpg = NULL, *jpg4 = NULL; size_t jlen = 0, jlen4 = 0;
  uint64_t vseed = p->seed ^ 0xA5A5A5A5ULL;
  tjscalingfactor *sfs = tj3GetScalingFactors(&nsf), sf = { 1, 1 };
  static const int off3[3] = { 0, 1, 2 }, off4[4] = { 0, 1, 2, 3 };
  int amax = (1 << bits) - 1;
  void *src;
  fputs("dec", stdout);
  tj_set_common(t, p);
  /* source JPEGs: colour (from TJPF_RGB) and 4-component (from TJPF_CMYK) */
  src = malloc(((size_t)w * h * 4 + 8) * 2);
  place(src, bits, pic, w, h, w * 3, 0, 3, off3, 3);
  if (tj_compress(t, bits, src, w, 0, h, TJPF_RGB, &jpg, &jlen)) { printf(" ERRsrc(%s)\n", tjerr(t)); goto done; }
  if (p->cspace < 0 || p->lossless) {
    place(src, bits, pic, w, h, w * 4, 0, 4, off4, 4);
    if (tj_compress(t, bits, src, w, 0, h, TJPF_CMYK, &jpg4, &jlen4)) { tj3Free(jpg4); jpg4 = NULL; jlen4 = 0; }
  }
  if (!p->lossless && sfi > 0 && sfi < nsf) sf = sfs[sfi];
  ow = TJSCALED(w, sf); oh = TJSCALED(h, sf);
  d = tj3Init(TJINIT_DECOMPRESS);
  for (f = 0; f < 12; f++) {
    int ps, off[4], nch, pf, aoff = -1; const char *grp, *name;
    const unsigned char *j = jpg; size_t jl = jlen;
    if (f < 10) { ps = TJF[f].ps; off[0] = TJF[f].r; off[1] = TJF[f].g; off[2] = TJF[f].b; nch = 3; pf = TJF[f].id; aoff = TJF[f].a; grp = "tj"; name = TJF[f].name; }
    else if (f == 10) { ps = 1; off[0] = 0; nch = 1; pf = TJPF_GRAY; grp = "gray"; name = "GRAY"; }
    else { ps = 4; off[0] = 0; off[1] = 1; off[2] = 2; off[3] = 3; nch = 4; pf = TJPF_CMYK; grp = "cmyk"; name = "CMYK"; j = jpg4; jl = jlen4; }
    if (f == 11 && !jpg4) continue;
    if (f == 10 && p->lossless) continue;   /* lossless colour -> gray is refused by the library */
    tj3DecompressHeader(d, j, jl);
    tj3Set(d, TJPARAM_FASTDCT, p->flags & 1);
    tj3Set(d, TJPARAM_FASTUPSAMPLE, (p->flags >> 4) & 1);
    if (!p->lossless) tj3SetScalingFactor(d, sf);
    for (pi = 0; pi < 4; pi++)
      for (bu = 0; bu < 2; bu++) {
        int pitch = ow * ps + PADS[pi], rc, ba, tc;
        size_t n = (size_t)pitch * oh;
        void *buf = malloc((n + 8) * 2), *orig = malloc((n + 8) * 2);
        uint64_t hh;
        sm_state = vseed++;
        junk(buf, bits, n);
        memcpy(orig, buf, n * ssz(bits));
        tj3Set(d, TJPARAM_BOTTOMUP, bu);
        rc = tj_decompress(d, bits, j, jl, buf, pitch, pf);
        if (rc) printf(" %s:%s+%d%s=ERR(%s)", grp, name, PADS[pi], bu ? "bu" : "td", tjerr(d));
        else {
          judge(buf, orig, bits, ow, oh, pitch, bu, ps, off, nch, aoff, amax, n, &hh, &ba, &tc);
          printf(" %s:%s+%d%s=%016llx.%d.%d", grp, name, PADS[pi], bu ? "bu" : "td", (unsigned long long)hh, ba, tc);
        }
        free(buf); free(orig);
      }
  }
  /* cropping region x scaling x pitch: pitch 0 means (width of the REGION) * pixelSize.  Exact-size expectation: the rows of the
     region are found at stride cw*ps, everything after cw*ps*ch samples of a large prefilled buffer stays untouched */
  if (!p->lossless && bits != 16) {
    int sub = tj3Get(d, TJPARAM_SUBSAMP), imcu, nx, cx, cw, cy, chh, k;
    tj3DecompressHeader(d, jpg, jlen);
    sub = tj3Get(d, TJPARAM_SUBSAMP);
    tj3SetScalingFactor(d, sf);
    imcu = (sub >= 0) ? TJSCALED(tjMCUWidth[sub], sf) : 0;
    sm_state = vseed++;
    nx = imcu > 0 ? (ow - 1) / imcu : 0;
    cx = imcu * sm_below(nx + 1);
    cw = 1 + sm_below(ow - cx);
    if (cw == ow - cx && cx == 0 && ow > 1) cw = ow - 1;      /* make it a proper sub-region */
    cy = sm_below(oh); chh = 1 + sm_below(oh - cy);
    if (imcu > 0 && cw >= 1) {
      tjregion reg; static const int CPF[3] = { 0, 3, 9 };     /* RGB, BGRX, ABGR */
      reg.x = cx; reg.y = cy; reg.w = cw; reg.h = chh;
      tj3Set(d, TJPARAM_FASTDCT, p->flags & 1);
      tj3Set(d, TJPARAM_FASTUPSAMPLE, (p->flags >> 4) & 1);
      if (tj3SetCroppingRegion(d, reg)) printf(" crop:set=ERR(%s)", tjerr(d));
      else for (k = 0; k < 3; k++) {
        const fmt_t *F = &TJF[CPF[k]]; int off[3], var;
        off[0] = F->r; off[1] = F->g; off[2] = F->b;
        for (var = 0; var < 4; var++) {    /* 0: explicit pitch cw*ps; 1: pitch 0; 2: pitch 0 bottom-up; 3: explicit pitch + 7 */
          int bu = (var == 2), reqpitch = (var == 0) ? cw * F->ps : (var == 3) ? cw * F->ps + 7 : 0;
          int effpitch = reqpitch ? reqpitch : cw * F->ps, rc, ba, tc;
          size_t n = (size_t)(ow * F->ps + 16) * (oh + 2) + 64;
          void *buf = malloc((n + 8) * 2), *orig = malloc((n + 8) * 2); uint64_t hh;
          junk(buf, bits, n);
          memcpy(orig, buf, n * ssz(bits));
          tj3Set(d, TJPARAM_BOTTOMUP, bu);
          rc = tj_decompress(d, bits, jpg, jlen, buf, reqpitch, F->id);
          if (rc) printf(" crop:%s.v%d=ERR(%s)", F->name, var, tjerr(d));
          else {
            judge(buf, orig, bits, cw, chh, effpitch, bu, F->ps, off, 3, F->a, amax, n, &hh, &ba, &tc);
            printf(" crop:%s.v%d=%016llx.%d.%d", F->name, var, (unsigned long long)hh, ba, tc);
          }
          free(buf); free(orig);
        }
      }
      { tjregion none = { 0, 0, 0, 0 }; tj3SetCroppingRegion(d, none); }
    }
    tj3Set(d, TJPARAM_BOTTOMUP, 0);
  }
  if (!p->lossless && p->cspace == TJCS_RGB) {
    /* JPEG stored as RGB: its luminance is the documented fixed-point Y of the decoded R,G,B */
    void *rgb = malloc(((size_t)ow * oh * 3 + 8) * 2);
    uint64_t hh = FNV0; int x;
    tj3DecompressHeader(d, jpg, jlen);
    tj3Set(d, TJPARAM_FASTDCT, p->flags & 1);
    tj3Set(d, TJPARAM_FASTUPSAMPLE, (p->flags >> 4) & 1);
    tj3SetScalingFactor(d, sf);
    tj3Set(d, TJPARAM_BOTTOMUP, 0);
    if (tj_decompress(d, bits, jpg, jlen, rgb, 0, TJPF_RGB)) printf(" gray:lumaOfRGB=ERR(%s)", tjerr(d));
    else {
      for (x = 0; x < ow * oh; x++) {
        long r = gets_(rgb, bits, (size_t)x * 3), g = gets_(rgb, bits, (size_t)x * 3 + 1), b = gets_(rgb, bits, (size_t)x * 3 + 2);
        hh = fnv_int(hh, (int)((19595L * r + 38470L * g + 7471L * b + 32768L) >> 16));
      }
      printf(" gray:lumaOfRGB=%016llx.0.0", (unsigned long long)hh);
    }
    free(rgb);
  }
  tj3Destroy(d);
  /* libjpeg API: 11 colour spaces into scattered rows; raw-data Y; JCS_GRAYSCALE output */
  for (f = 0; f < 13; f++) {
    static const fmt_t GRAYF = { "JGRAY", JCS_GRAYSCALE, 0, 0, 0, -1, 1 };
    struct jpeg_decompress_struct dd; struct jpeg_error_mgr e;
    int raw = (f == 11), gout = (f == 12);
    const fmt_t F = gout ? GRAYF : LJF[f < 11 ? f : 0];
    int ps = raw ? 1 : F.ps, stride, i;
    if (gout && p->lossless) continue;
    void *buf = NULL, *orig = NULL; void **rows = NULL; int *perm = NULL;
    void *planes[4] = { 0, 0, 0, 0 }; void **prow[4] = { 0, 0, 0, 0 };
    if (raw && (p->lossless || p->cspace == TJCS_RGB || sfi != 0)) continue;
    dd.err = mkerr(&e);
    if (setjmp(jb)) {
      printf(" lj:%s=ERR(%d)", raw ? "rawY" : F.name, last_err);
    } else {
      jpeg_create_decompress(&dd);
      jpeg_mem_src(&dd, jpg, (unsigned long)jlen);
      jpeg_read_header(&dd, TRUE);
      dd.dct_method = (p->flags & 1) ? JDCT_FASTEST : JDCT_ISLOW;
      dd.do_fancy_upsampling = !((p->flags >> 4) & 1);
      if (!p->lossless) { dd.scale_num = sf.num; dd.scale_denom = sf.denom; }
      if (raw) dd.raw_data_out = TRUE; else dd.out_color_space = (J_COLOR_SPACE)F.id;
      jpeg_start_decompress(&dd);
      if (raw) {
        int ci, rg = dd.max_v_samp_factor * dd.min_DCT_scaled_size;
        uint64_t hh = FNV0; int x, y;
        size_t pw = (size_t)dd.comp_info[0].width_in_blocks * DCTSIZE * 4 + 64;
        void ***img = malloc(sizeof(void **) * 4);
        int tot = (int)dd.output_height + 2 * rg + 16;
        for (ci = 0; ci < dd.num_components; ci++) {
          planes[ci] = calloc(pw * tot, 2);
          prow[ci] = malloc(sizeof(void *) * tot);
          for (i = 0; i < tot; i++) prow[ci][i] = (char *)planes[ci] + (size_t)i * pw * ssz(bits);
        }
        while (dd.output_scanline < dd.output_height) {
          for (ci = 0; ci < dd.num_components; ci++)
            img[ci] = prow[ci] + (dd.output_scanline / rg) * (dd.comp_info[ci].v_samp_factor * dd.comp_info[ci].DCT_scaled_size);
          if (bits == 8) jpeg_read_raw_data(&dd, (JSAMPIMAGE)img, rg);
          else jpeg12_read_raw_data(&dd, (J12SAMPIMAGE)img, rg);
        }
        for (y = 0; y < (int)dd.output_height; y++)
          for (x = 0; x < (int)dd.output_width; x++) hh = fnv_int(hh, gets_(prow[0][y], bits, x));
        printf(" gray:rawY=%016llx.0.0", (unsigned long long)hh);
        free(img);
      } else {
        int x, y, ba = 0, tc = 0; uint64_t hh = FNV0; size_t n, k;
        unsigned char *inside;
        stride = (int)dd.output_width * ps + 9;
        n = (size_t)stride * dd.output_height;
        buf = malloc((n + 8) * 2); orig = malloc((n + 8) * 2);
        rows = malloc(sizeof(void *) * (dd.output_height + 1));
        perm = malloc(sizeof(int) * (dd.output_height + 1));
        sm_state = vseed++;
        junk(buf, bits, n);
        memcpy(orig, buf, n * ssz(bits));
        for (i = 0; i < (int)dd.output_height; i++) perm[i] = i;
        for (i = (int)dd.output_height - 1; i > 0; i--) { int jj = sm_below(i + 1), tt = perm[i]; perm[i] = perm[jj]; perm[jj] = tt; }
        for (i = 0; i < (int)dd.output_height; i++) rows[i] = (char *)buf + (size_t)perm[i] * stride * ssz(bits);
        while (dd.output_scanline < dd.output_height) {
          int nr = 1 + sm_below(4);
          if (bits == 8) jpeg_read_scanlines(&dd, (JSAMPARRAY)rows + dd.output_scanline, nr);
          else if (bits == 12) jpeg12_read_scanlines(&dd, (J12SAMPARRAY)rows + dd.output_scanline, nr);
          else jpeg16_read_scanlines(&dd, (J16SAMPARRAY)rows + dd.output_scanline, nr);
        }
        inside = calloc(n + 1, 1);
        for (y = 0; y < (int)dd.output_height; y++) {
          size_t rs = (size_t)perm[y] * stride;
          for (x = 0; x < (int)dd.output_width; x++) {
            hh = fnv_int(hh, gets_(buf, bits, rs + (size_t)x * ps + F.r));
            if (!gout) {
              hh = fnv_int(hh, gets_(buf, bits, rs + (size_t)x * ps + F.g));
              hh = fnv_int(hh, gets_(buf, bits, rs + (size_t)x * ps + F.b));
            }
            if (F.a >= 0 && gets_(buf, bits, rs + (size_t)x * ps + F.a) != amax) ba++;
          }
          for (k = 0; k < (size_t)dd.output_width * ps; k++) inside[rs + k] = 1;
        }
        for (k = 0; k < n; k++) if (!inside[k] && gets_(buf, bits, k) != gets_(orig, bits, k)) tc++;
        free(inside);
        printf(" %s:%s=%016llx.%d.%d", gout ? "gray" : "tj", F.name, (unsigned long long)hh, ba, tc);
      }
      jpeg_finish_decompress(&dd);
    }
    jpeg_destroy_decompress(&dd);
    free(buf); free(orig); free(rows); free(perm);
    for (i = 0; i < 4; i++) { free(planes[i]); free(prow[i]); }
  }
  /* libjpeg API, JCS_RGB565 without dithering: row pointers at 0 / 2 modulo 4, 1..3 scanlines per call, several pitches;
     every variant must give the 5-6-5 packing of the same JPEG decoded to JCS_RGB and touch nothing else */
  if (bits == 8 && !p->lossless) {
    static const int V565[7][3] = { { 0, 1, 0 }, { 2, 1, 0 }, { 2, 2, 0 }, { 2, 3, 2 }, { 0, 2, 6 }, { 2, 8, 32 }, { 0, 3, 2 } };
    int v;
    for (v = -1; v < 7; v++) {
      struct jpeg_decompress_struct dd; struct jpeg_error_mgr e;
      void *raw = NULL; unsigned char *buf = NULL, *orig = NULL; JSAMPROW *rows = NULL;
      dd.err = mkerr(&e);
      if (setjmp(jb)) {
        printf(" p565:v%d=ERR(%d)", v, last_err);
      } else {
        int mis = v < 0 ? 0 : V565[v][0], lines = v < 0 ? 1 : V565[v][1], pad = v < 0 ? 0 : V565[v][2];
        int ps = v < 0 ? 3 : 2, pitch, x, y, tc = 0; size_t n, k; uint64_t hh = FNV0;
        jpeg_create_decompress(&dd);
        jpeg_mem_src(&dd, jpg, (unsigned long)jlen);
        jpeg_read_header(&dd, TRUE);
        dd.dct_method = (p->flags & 1) ? JDCT_FASTEST : JDCT_ISLOW;
        dd.do_fancy_upsampling = !((p->flags >> 4) & 1);
        dd.scale_num = sf.num; dd.scale_denom = sf.denom;
        dd.out_color_space = v < 0 ? JCS_RGB : JCS_RGB565;
        dd.dither_mode = JDITHER_NONE;
        jpeg_start_decompress(&dd);
        pitch = (int)dd.output_width * ps + pad;
        n = (size_t)pitch * dd.output_height;
        raw = aligned_alloc(16, (n + 64 + 15) / 16 * 16);
        buf = (unsigned char *)raw + mis; orig = malloc(n + 8);
        rows = malloc(sizeof(JSAMPROW) * (dd.output_height + 1));
        sm_state = vseed++;
        junk(buf, 8, n);
        memcpy(orig, buf, n);
        for (y = 0; y < (int)dd.output_height; y++) rows[y] = buf + (size_t)y * pitch;
        while (dd.output_scanline < dd.output_height) jpeg_read_scanlines(&dd, rows + dd.output_scanline, lines);
        for (y = 0; y < (int)dd.output_height; y++) {
          for (x = 0; x < (int)dd.output_width; x++) {
            int px;
            if (v < 0) { int r = rows[y][3 * x], g = rows[y][3 * x + 1], b = rows[y][3 * x + 2]; px = ((r << 8) & 0xF800) | ((g << 3) & 0x7E0) | (b >> 3); }
            else px = rows[y][2 * x] | (rows[y][2 * x + 1] << 8);
            hh = fnv_int(hh, px);
          }
          for (k = (size_t)dd.output_width * ps; k < (size_t)pitch; k++) if (rows[y][k] != orig[(size_t)y * pitch + k]) tc++;
        }
        if (v < 0) printf(" p565:packedRGB=%016llx.0.0", (unsigned long long)hh);
        else printf(" p565:a%dl%dp%d=%016llx.0.%d", mis, lines, pad, (unsigned long long)hh, tc);
        jpeg_finish_decompress(&dd);
      }
      jpeg_destroy_decompress(&dd);
      free(raw); free(orig); free(rows);
    }
  }
  fputs("\n", stdout);
done:
  tj3Destroy(t);
  tj3Free(jpg); tj3Free(jpg4);
  free(src); free(pic);
}

/* ------------------------------------------------------------------ legacy TurboJPEG 1.x/2.x entry points, call SEQUENCES on one handle
 * leg <w> <h> <subsamp> <qual> <seed> <kind> <nsteps> <step>...
 *   step = entry | bu<<4 | fastups<<5 | fastdct<<6 | accdct<<7 | norealloc<<8 | prog<<9 | fmt<<10 | pad<<14 | xop<<16 | usexf<<19
 *   entry: 0 tjCompress2 1 tjDecompress2 2 tjEncodeYUV3 3 tjDecodeYUV 4 tjCompressFromYUV 5 tjDecompressToYUV2 6 tjTransform
 * every call's result is printed next to the tj3 result of a FRESH instance for the same picture, row order and options:
 *   " s<i>:<entry>:<flags>=<legacy>/<tj3>"                                                                          */
static const char *ENTRY[7] = { "tjCompress2", "tjDecompress2", "tjEncodeYUV3", "tjDecodeYUV", "tjCompressFromYUV",
                                "tjDecompressToYUV2", "tjTransform" };
static void do_legacy(char *args)
{
  par_t p; int nsteps = 0, used = 0, i; unsigned long long seed;
  tjhandle hc, hd, ht, r;
  unsigned char *jpg0 = NULL, *yuv0 = NULL, *src3; size_t jlen0 = 0, yuvsz;
  int *pic; static const int off3[3] = { 0, 1, 2 };
  const int align = 4;
  memset(&p, 0, sizeof(p));
  if (sscanf(args, "%d %d %d %d %llu %d %d %n", &p.w, &p.h, &p.subsamp, &p.qual, &seed, &p.kind, &nsteps, &used) < 7) { puts("err parse"); return; }
  args += used;
  p.bits = 8; p.prec = 8; p.seed = seed; p.cspace = -1;
  pic = make_picture(&p);
  fputs("leg", stdout);
  /* shared inputs: a JPEG and a YUV image of the picture, made by fresh tj3 instances */
  src3 = malloc((size_t)p.w * p.h * 3 + 8);
  place(src3, 8, pic, p.w, p.h, p.w * 3, 0, 3, off3, 3);
  r = tj3Init(TJINIT_COMPRESS);
  tj3Set(r, TJPARAM_QUALITY, p.qual); tj3Set(r, TJPARAM_SUBSAMP, p.subsamp);
  if (tj3Compress8(r, src3, p.w, 0, p.h, TJPF_RGB, &jpg0, &jlen0)) { printf(" ERRsrc(%s)\n", tjerr(r)); tj3Destroy(r); free(src3); free(pic); return; }
  yuvsz = tj3YUVBufSize(p.w, align, p.h, p.subsamp);
  yuv0 = malloc(yuvsz + 8);
  if (tj3EncodeYUV8(r, src3, p.w, 0, p.h, TJPF_RGB, yuv0, align)) { printf(" ERRyuv(%s)\n", tjerr(r)); tj3Destroy(r); free(src3); free(pic); return; }
  tj3Destroy(r);
  hc = tjInitCompress(); hd = tjInitDecompress(); ht = tjInitTransform();
  for (i = 0; i < nsteps; i++) {
    long st = strtol(args, &args, 10);
    int entry = st & 15, bu = (st >> 4) & 1, fups = (st >> 5) & 1, fdct = (st >> 6) & 1, adct = (st >> 7) & 1,
        nore = (st >> 8) & 1, prog = (st >> 9) & 1, f = (st >> 10) & 15, pi = (st >> 14) & 3, xop = (st >> 16) & 7,
        usexf = (st >> 19) & 1;
    int flags = (bu ? TJFLAG_BOTTOMUP : 0) | (fups ? TJFLAG_FASTUPSAMPLE : 0) | (fdct ? TJFLAG_FASTDCT : 0) |
                (adct ? TJFLAG_ACCURATEDCT : 0) | (nore ? TJFLAG_NOREALLOC : 0) | (prog ? TJFLAG_PROGRESSIVE : 0);
    int cfast = !(p.qual >= 96 || adct);
    tjhandle hdec = usexf ? ht : hd;
    int ps, off[4], nch, pf, pitch; size_t n;
    void *buf, *orig;
    uint64_t ha = 0, hb = 0; int ta = 0, ba = 0, tb = 0, rc1 = 0, rc2 = 0;
    char e1[200] = "", e2[200] = "";
    if (entry > 6) entry = 0;
    if (f > 10 || ((entry == 0 || entry == 2) && f == 10)) f = f % 10;
    if (f < 10) { ps = TJF[f].ps; off[0] = TJF[f].r; off[1] = TJF[f].g; off[2] = TJF[f].b; nch = 3; pf = TJF[f].id; }
    else { ps = 1; off[0] = 0; nch = 1; pf = TJPF_GRAY; }
    pitch = p.w * ps + PADS[pi];
    n = (size_t)pitch * p.h;
    buf = malloc(n + 64); orig = malloc(n + 64);
    sm_state = seed + 977 * (uint64_t)(i + 1);
    junk(buf, 8, n);
    memcpy(orig, buf, n);
    r = tj3Init(entry == 0 || entry == 2 || entry == 4 ? TJINIT_COMPRESS : entry == 6 ? TJINIT_TRANSFORM : TJINIT_DECOMPRESS);
    tj3Set(r, TJPARAM_QUALITY, p.qual); tj3Set(r, TJPARAM_SUBSAMP, p.subsamp);
    tj3Set(r, TJPARAM_PROGRESSIVE, prog); tj3Set(r, TJPARAM_FASTUPSAMPLE, fups);
    switch (entry) {
    case 0: case 4: {
      unsigned char *j1 = NULL, *j2 = NULL; unsigned long s1 = 0; size_t s2 = 0;
      if (nore) { s1 = tjBufSize(p.w, p.h, p.subsamp); j1 = tjAlloc((int)s1); }
      tj3Set(r, TJPARAM_FASTDCT, cfast); tj3Set(r, TJPARAM_BOTTOMUP, bu);
      if (entry == 0) {
        place(buf, 8, pic, p.w, p.h, pitch, bu, ps, off, nch);
        rc1 = tjCompress2(hc, buf, p.w, pitch, p.h, pf, &j1, &s1, p.subsamp, p.qual, flags);
        if (rc1) snprintf(e1, sizeof(e1), "%s", tjerr(hc));
        rc2 = tj3Compress8(r, buf, p.w, pitch, p.h, pf, &j2, &s2);
      } else {
        rc1 = tjCompressFromYUV(hc, yuv0, p.w, align, p.h, p.subsamp, &j1, &s1, p.qual, flags);
        if (rc1) snprintf(e1, sizeof(e1), "%s", tjerr(hc));
        rc2 = tj3CompressFromYUV8(r, yuv0, p.w, align, p.h, &j2, &s2);
      }
      if (rc2) snprintf(e2, sizeof(e2), "%s", tjerr(r));
      if (!rc1) ha = fnv(fnv_int(FNV0, (int)s1), j1, s1);
      if (!rc2) hb = fnv(fnv_int(FNV0, (int)s2), j2, s2);
      tjFree(j1); tj3Free(j2);
      break; }
    case 1: case 3: {
      void *b2 = malloc((size_t)p.w * ps * p.h + 64);
      tj3Set(r, TJPARAM_FASTDCT, fdct); tj3Set(r, TJPARAM_BOTTOMUP, 0);
      if (entry == 1) {
        rc1 = tjDecompress2(hdec, jpg0, (unsigned long)jlen0, buf, p.w, pitch, p.h, pf, flags);
        if (rc1) snprintf(e1, sizeof(e1), "%s", tjerr(hdec));
        rc2 = tj3Decompress8(r, jpg0, jlen0, b2, 0, pf);
      } else {
        rc1 = tjDecodeYUV(hdec, yuv0, align, p.subsamp, buf, p.w, pitch, p.h, pf, flags);
        if (rc1) snprintf(e1, sizeof(e1), "%s", tjerr(hdec));
        rc2 = tj3DecodeYUV8(r, yuv0, align, b2, p.w, 0, p.h, pf);
      }
      if (rc2) snprintf(e2, sizeof(e2), "%s", tjerr(r));
      if (!rc1) judge(buf, orig, 8, p.w, p.h, pitch, bu, ps, off, nch, -1, 255, n, &ha, &ba, &ta);
      if (!rc2) judge(b2, b2, 8, p.w, p.h, p.w * ps, 0, ps, off, nch, -1, 255, (size_t)p.w * ps * p.h, &hb, &ba, &tb);
      free(b2);
      break; }
    case 2: case 5: {
      unsigned char *y1 = calloc(yuvsz + 8, 1), *y2 = calloc(yuvsz + 8, 1);
      tj3Set(r, TJPARAM_FASTDCT, fdct); tj3Set(r, TJPARAM_BOTTOMUP, bu);
      if (entry == 2) {
        place(buf, 8, pic, p.w, p.h, pitch, bu, ps, off, nch);
        rc1 = tjEncodeYUV3(hc, buf, p.w, pitch, p.h, pf, y1, align, p.subsamp, flags);
        if (rc1) snprintf(e1, sizeof(e1), "%s", tjerr(hc));
        rc2 = tj3EncodeYUV8(r, buf, p.w, pitch, p.h, pf, y2, align);
      } else {
        rc1 = tjDecompressToYUV2(hdec, jpg0, (unsigned long)jlen0, y1, p.w, align, p.h, flags);
        if (rc1) snprintf(e1, sizeof(e1), "%s", tjerr(hdec));
        rc2 = tj3DecompressToYUV8(r, jpg0, jlen0, y2, align);
      }
      if (rc2) snprintf(e2, sizeof(e2), "%s", tjerr(r));
      if (!rc1) ha = fnv(FNV0, y1, yuvsz);
      if (!rc2) hb = fnv(FNV0, y2, yuvsz);
      free(y1); free(y2);
      break; }
    default: {
      unsigned char *d1 = NULL, *d2 = NULL; unsigned long s1 = 0; size_t s2 = 0;
      tjtransform x1, x2;
      memset(&x1, 0, sizeof(x1)); x1.op = xop; x1.options = TJXOPT_TRIM; x2 = x1;
      if (nore) { s1 = tjBufSize(p.w > p.h ? p.w : p.h, p.w > p.h ? p.w : p.h, p.subsamp) + 4096; d1 = tjAlloc((int)s1); }
      tj3Set(r, TJPARAM_BOTTOMUP, 0);
      rc1 = tjTransform(ht, jpg0, (unsigned long)jlen0, 1, &d1, &s1, &x1, flags);
      if (rc1) snprintf(e1, sizeof(e1), "%s", tjerr(ht));
      rc2 = tj3Transform(r, jpg0, jlen0, 1, &d2, &s2, &x2);
      if (rc2) snprintf(e2, sizeof(e2), "%s", tjerr(r));
      if (!rc1) ha = fnv(fnv_int(FNV0, (int)s1), d1, s1);
      if (!rc2) hb = fnv(fnv_int(FNV0, (int)s2), d2, s2);
      tjFree(d1); tj3Free(d2);
      break; }
    }
    printf(" s%d:%s:%d=", i, ENTRY[entry], flags);
    if (rc1) printf("ERR(%s)", e1); else printf("%016llx.%d", (unsigned long long)ha, ta);
    if (rc2) printf("/ERR(%s)", e2); else printf("/%016llx.%d", (unsigned long long)hb, tb);
    tj3Destroy(r);
    free(buf); free(orig);
  }
  fputs("\n", stdout);
  tjDestroy(hc); tjDestroy(hd); tjDestroy(ht);
  tj3Free(jpg0); free(yuv0); free(src3); free(pic);
}

int main(void)
{
  setvbuf(stdout, NULL, _IOLBF, 0);
  line = malloc(MAXLINE);
  nums = malloc(sizeof(int) * (MAXLINE / 2));
  while (fgets(line, MAXLINE, stdin)) {
    if (line[0] == 'k') {
      char op[8]; int bits, cs, w, h, pitch, bu, used = 0;
      if (sscanf(line, "k %7s %d %d %d %d %d %d %n", op, &bits, &cs, &w, &h, &pitch, &bu, &used) < 7) { puts("err parse"); continue; }
      parse_lists(line + used);
      if (op[0] == 'c') kernel_compress(op, bits, cs, w, h, pitch, bu);
      else kernel_decompress(op, bits, cs, w, h, pitch, bu);
    } else if (!strncmp(line, "enc ", 4) || !strncmp(line, "dec ", 4)) {
      par_t p; unsigned long long seed;
      if (sscanf(line + 4, "%d %d %d %d %d %d %d %d %d %d %d %llu %d", &p.bits, &p.w, &p.h, &p.subsamp, &p.qual,
                 &p.cspace, &p.lossless, &p.psv, &p.pt, &p.prec, &p.flags, &seed, &p.kind) != 13) { puts("err parse"); continue; }
      p.seed = seed;
      if (line[0] == 'e') do_enc(&p); else do_dec(&p);
    } else if (!strncmp(line, "leg ", 4)) do_legacy(line + 4);
    else puts("err unknown");
  }
  return 0;
}
