/* C05: downsampling of src/jcsample.c (static) vs the jsimd dispatcher */
#define jinit_downsampler c05_unused_jinit_downsampler
#include "jcsample.c"
#include "c05_k.h"
#include <string.h>
void c05_down(int simd, int v2, unsigned image_width, unsigned width_in_blocks, u8 *row0, u8 *row1, u8 *out)
{
  static struct jpeg_compress_struct cc; static struct jpeg_comp_master master; static jpeg_component_info comp;
  JSAMPROW in[2]; JSAMPROW o[1];
  memset(&cc, 0, sizeof(cc)); memset(&master, 0, sizeof(master)); memset(&comp, 0, sizeof(comp));
  cc.master = &master; master.lossless = FALSE;
  cc.image_width = image_width; cc.max_v_samp_factor = v2 ? 2 : 1;
  comp.width_in_blocks = width_in_blocks; comp.v_samp_factor = 1;
  in[0] = row0; in[1] = row1; o[0] = out;
  if (v2) { if (simd) jsimd_h2v2_downsample(&cc, &comp, in, o); else h2v2_downsample(&cc, &comp, in, o); }
  else    { if (simd) jsimd_h2v1_downsample(&cc, &comp, in, o); else h2v1_downsample(&cc, &comp, in, o); }
}

void c05_down_rows(int simd, int v2, unsigned image_width, unsigned width_in_blocks, int vs, u8 **in, u8 **out)
{
  static struct jpeg_compress_struct cc; static struct jpeg_comp_master master; static jpeg_component_info comp;
  memset(&cc, 0, sizeof(cc)); memset(&master, 0, sizeof(master)); memset(&comp, 0, sizeof(comp));
  cc.master = &master; master.lossless = FALSE;
  cc.image_width = image_width; cc.max_v_samp_factor = v2 ? 2 * vs : vs;
  comp.width_in_blocks = width_in_blocks; comp.v_samp_factor = vs;
  if (v2) { if (simd) jsimd_h2v2_downsample(&cc, &comp, in, out); else h2v2_downsample(&cc, &comp, in, out); }
  else    { if (simd) jsimd_h2v1_downsample(&cc, &comp, in, out); else h2v1_downsample(&cc, &comp, in, out); }
}
