/* C05: upsampling of src/jdsample.c (static) vs the jsimd dispatcher */
#define jinit_upsampler c05_unused_jinit_upsampler
#include "jdsample.c"
#include "c05_k.h"
#include <string.h>
void c05_fancy(int simd, int v2, unsigned w, u8 *above, u8 *cur, u8 *below, u8 *out0, u8 *out1)
{
  static struct jpeg_decompress_struct dc; static jpeg_component_info comp;
  JSAMPROW in[3]; JSAMPROW o[2]; JSAMPARRAY op = o;
  memset(&dc, 0, sizeof(dc)); memset(&comp, 0, sizeof(comp));
  comp.downsampled_width = w; dc.max_v_samp_factor = v2 ? 2 : 1;
  in[0] = above; in[1] = cur; in[2] = below; o[0] = out0; o[1] = out1;
  if (v2) { if (simd) jsimd_h2v2_fancy_upsample(&dc, &comp, in + 1, &op); else h2v2_fancy_upsample(&dc, &comp, in + 1, &op); }
  else    { if (simd) jsimd_h2v1_fancy_upsample(&dc, &comp, in + 1, &op); else h2v1_fancy_upsample(&dc, &comp, in + 1, &op); }
}
void c05_plain(int simd, int v2, unsigned outw, u8 *inrow, u8 *out0, u8 *out1)
{
  static struct jpeg_decompress_struct dc; static jpeg_component_info comp;
  JSAMPROW in[1]; JSAMPROW o[2]; JSAMPARRAY op = o;
  memset(&dc, 0, sizeof(dc)); memset(&comp, 0, sizeof(comp));
  dc.output_width = outw; dc.max_v_samp_factor = v2 ? 2 : 1;
  in[0] = inrow; o[0] = out0; o[1] = out1;
  if (v2) { if (simd) jsimd_h2v2_upsample(&dc, &comp, in, &op); else h2v2_upsample(&dc, &comp, in, &op); }
  else    { if (simd) jsimd_h2v1_upsample(&dc, &comp, in, &op); else h2v1_upsample(&dc, &comp, in, &op); }
}

void c05_fancy_rows(int simd, int v2, unsigned w, int max_v, u8 **in, u8 **out)
{
  static struct jpeg_decompress_struct dc; static jpeg_component_info comp; JSAMPARRAY op = out;
  memset(&dc, 0, sizeof(dc)); memset(&comp, 0, sizeof(comp));
  comp.downsampled_width = w; dc.max_v_samp_factor = max_v;
  if (v2) { if (simd) jsimd_h2v2_fancy_upsample(&dc, &comp, in, &op); else h2v2_fancy_upsample(&dc, &comp, in, &op); }
  else    { if (simd) jsimd_h2v1_fancy_upsample(&dc, &comp, in, &op); else h2v1_fancy_upsample(&dc, &comp, in, &op); }
}
void c05_plain_rows(int simd, int v2, unsigned outw, int max_v, u8 **in, u8 **out)
{
  static struct jpeg_decompress_struct dc; static jpeg_component_info comp; JSAMPARRAY op = out;
  memset(&dc, 0, sizeof(dc)); memset(&comp, 0, sizeof(comp));
  dc.output_width = outw; dc.max_v_samp_factor = max_v;
  if (v2) { if (simd) jsimd_h2v2_upsample(&dc, &comp, in, &op); else h2v2_upsample(&dc, &comp, in, &op); }
  else    { if (simd) jsimd_h2v1_upsample(&dc, &comp, in, &op); else h2v1_upsample(&dc, &comp, in, &op); }
}
