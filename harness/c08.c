/* C08 harness: partial decompression (crop / skip / read histories) of the REAL
 * library of the working tree, compared against a full decode by a FRESH
 * decompressor with the same settings.  One case per stdin line, one canonical
 * result line per case (same format as ml/C08_driver.ml up to " | px").
 *
 *  L <W> <H> <samp> <mode> <arith> <prec> <rst> <pseed> | <M> <fancy> <dct> <quant> <ocs> | <cx> <cw> | <ops>
 *  F  ... same as L: same history on a decompress object that first decoded the stream with fancy upsampling (F5 probe)
 *  B <enc> | <dec> | <cx> <cw> <when> | <scan> <ops> ; <scan> <ops> ; ...   buffered-image mode, one jpeg_crop_scanline
 *    (when = 0: in state DSTATE_BUFIMAGE before the first jpeg_start_output, 1: right after it), several output passes
 *  C  ... same as B on a decompress object that first decoded the stream completely (reuse probe)
 *  K <enc> | <dec> | <buf> <x1> <w1> <x2> <w2>   jpeg_crop_scanline called twice (buf = 1: one call per output pass)
 *  T <W> <H> <samp> <mode> <arith> <prec> <rst> <pseed> | <sfidx> <fastups> <fastdct> <pf> [<bottomup> <pad>] | <x> <y> <w> <h>
 *    samp = digits h0 v0 h1 v1 ...; mode 0 baseline, 1 progressive, 2 sequential non-interleaved,
 *           3/4/5 progressive file truncated after 1/2/3 scans, 6 DC-only script with final Al = 1,
 *           7 DC + AC 1..5 (Al = 1) of component 0 only   (3..7: block smoothing is active in the decoder)
 *    the decoder settings take an optional 6th number: buffered-image mode, early output pass on that scan
 *    ops  = R<n> (read until n rows were delivered or the bottom is reached) / S<n> (jpeg_skip_scanlines(n))
 */
#include <stdio.h>
#include <stdlib.h>
#include <string.h>
#include <setjmp.h>
#include <unistd.h>
#define JPEG_INTERNALS
#include "jinclude.h"
#include "jpeglib.h"
#include "jdmaster.h"
#include "turbojpeg.h"

static jmp_buf jb;
static int last_err;
static void my_exit(j_common_ptr c) { last_err = c->err->msg_code; longjmp(jb, 1); }
static void my_emit(j_common_ptr c, int lvl) { if (lvl < 0) c->err->num_warnings++; }
static unsigned long long rnd64(unsigned long long *s)
{
  unsigned long long z = (*s += 0x9E3779B97F4A7C15ULL);
  z = (z ^ (z >> 30)) * 0xBF58476D1CE4E5B9ULL; z = (z ^ (z >> 27)) * 0x94D049BB133111EBULL; return z ^ (z >> 31);
}

struct enc { int W, H, ncomp, hs[4], vs[4], mode, arith, prec, rst; unsigned long long pseed; unsigned char *jpg; unsigned long len; char key[256]; };
struct dec { int M, fancy, dct, quant, ocs, bscan; };
struct full { int W, H, rowb, pxb; unsigned char *pix; char key[320]; };

#define OUTMAX (1 << 18)
static char outbuf[OUTMAX];
static char line[1 << 16];

#define BITS 8
#include "c08_body.c"
#undef BITS
#define BITS 12
#include "c08_body.c"
#undef BITS

static struct enc E; static struct full F;

static int get_enc(char *hdr)
{
  char samp[32]; int n, k; struct enc e; memset(&e, 0, sizeof(e));
  if (sscanf(hdr, "%d %d %31s %d %d %d %d %llu", &e.W, &e.H, samp, &e.mode, &e.arith, &e.prec, &e.rst, &e.pseed) != 8) return -2;
  n = (int)strlen(samp) / 2; if (n != 1 && n != 3 && n != 4) return -2;
  e.ncomp = n;
  for (k = 0; k < n; k++) { e.hs[k] = samp[2 * k] - '0'; e.vs[k] = samp[2 * k + 1] - '0'; }
  snprintf(e.key, sizeof(e.key), "%d %d %s %d %d %d %d %llu", e.W, e.H, samp, e.mode, e.arith, e.prec, e.rst, e.pseed);
  if (E.jpg && strcmp(E.key, e.key) == 0) return 0;
  free(E.jpg); E.jpg = NULL; E.key[0] = 0; F.key[0] = 0;
  if ((e.prec == 8 ? encode8(&e) : encode12(&e)) != 0) return -1;
  E = e;
  return 0;
}

static int get_full(struct dec *s)
{
  char key[320];
  snprintf(key, sizeof(key), "%s|%d %d %d %d %d %d", E.key, s->M, s->fancy, s->dct, s->quant, s->ocs, s->bscan);
  if (F.pix && strcmp(F.key, key) == 0) return 0;
  free(F.pix); F.pix = NULL; F.key[0] = 0;
  if ((E.prec == 8 ? fulldecode8(&E, s, &F) : fulldecode12(&E, s, &F)) != 0) return -1;
  strcpy(F.key, key);
  return 0;
}

static const int pfs[] = { TJPF_RGB, TJPF_BGRX, TJPF_GRAY, TJPF_RGBA, TJPF_CMYK };

static void tj_case(char *a, char *b)
{
  int sfi, fu, fd, pfi, bu = 0, pad = 0, x, y, w, h, nsf, rc, pf, ps, sw, sh, prec = E.prec;
  tjscalingfactor *sfs = tj3GetScalingFactors(&nsf), sf;
  tjhandle t1 = NULL, t2 = NULL; unsigned char *fullp = NULL, *area = NULL; char *o = outbuf;
  tjregion reg;
  if (sscanf(a, "%d %d %d %d %d %d", &sfi, &fu, &fd, &pfi, &bu, &pad) < 4 || sscanf(b, "%d %d %d %d", &x, &y, &w, &h) != 4) { printf("bad-case\n"); return; }
  sf = sfs[((sfi % nsf) + nsf) % nsf];
  pf = pfs[pfi % 5]; if (E.ncomp == 4) pf = TJPF_CMYK; else if (pf == TJPF_CMYK) pf = TJPF_RGB;
  ps = tjPixelSize[pf] * (prec == 8 ? 1 : 2);
  t1 = tj3Init(TJINIT_DECOMPRESS); t2 = tj3Init(TJINIT_DECOMPRESS);
  tj3Set(t1, TJPARAM_FASTUPSAMPLE, fu); tj3Set(t1, TJPARAM_FASTDCT, fd);
  tj3Set(t2, TJPARAM_FASTUPSAMPLE, fu); tj3Set(t2, TJPARAM_FASTDCT, fd);
  tj3Set(t2, TJPARAM_BOTTOMUP, bu ? 1 : 0);      /* the reference t1 is always top-down */
  if (tj3DecompressHeader(t1, E.jpg, E.len) || tj3DecompressHeader(t2, E.jpg, E.len)) { printf("tj header-error %s\n", tj3GetErrorStr(t1)); goto done; }
  o += sprintf(o, "tj sub=%d sf=%d/%d", tj3Get(t1, TJPARAM_SUBSAMP), sf.num, sf.denom);
  if (tj3SetScalingFactor(t1, sf) || tj3SetScalingFactor(t2, sf)) { printf("%s sf-error\n", outbuf); goto done; }
  sw = TJSCALED(E.W, sf); sh = TJSCALED(E.H, sf);
  fullp = (unsigned char *)malloc((size_t)sw * sh * ps + 64);
  rc = prec == 8 ? tj3Decompress8(t1, E.jpg, E.len, fullp, 0, pf) : tj3Decompress12(t1, E.jpg, E.len, (short *)fullp, 0, pf);
  o += sprintf(o, " dims %d %d full=%d", sw, sh, rc);
  reg.x = x; reg.y = y; reg.w = w; reg.h = h;
  rc = tj3SetCroppingRegion(t2, reg);
  o += sprintf(o, " set=%d", rc);
  if (rc == 0) {
    int rw = w == 0 ? sw - x : w, rh = h == 0 ? sh - y : h, i, bad = 0, by = -1, cmin = 1 << 30, cmax = -1;
    /* fancy upsampling: first/last column of a cropped region may differ (a region of <= 2 columns consists of them) */
    int ex0 = !fu && rw != sw && (x > 0 || rw <= 2), ex1 = !fu && rw != sw && (x + rw < sw || rw <= 2);
    size_t rowbytes, pitchb, extent, before, after, k; int pitch_samples; unsigned char *dst; long outside = 0;
    if (x == 0 && y == 0 && w == 0 && h == 0) { rw = sw; rh = sh; }
    /* destination: pitch = row + padding; the documented extent is pitch * h bytes.  It sits inside a guard area that
       is large enough for rows misplaced by up to the full image height, before and after it. */
    rowbytes = (size_t)rw * ps;
    pitch_samples = rw * tjPixelSize[pf] + (pad > 0 ? pad : 0);
    pitchb = (size_t)pitch_samples * (prec == 8 ? 1 : 2);
    extent = pitchb * rh;
    before = pitchb * (sh + 2) + 64; after = pitchb * (sh + 2) + 64;
    area = (unsigned char *)malloc(before + extent + after);
    memset(area, 0x5A, before + extent + after);
    dst = area + before;
    rc = prec == 8 ? tj3Decompress8(t2, E.jpg, E.len, dst, pad > 0 ? pitch_samples : 0, pf)
                   : tj3Decompress12(t2, E.jpg, E.len, (short *)dst, pad > 0 ? pitch_samples : 0, pf);
    o += sprintf(o, " dec=%d", rc);
    if (rc == 0) {
      for (i = 0; i < rh; i++) {
        /* documented order: buffer row i is region row i, or region row h-1-i when bottom-up */
        int src = bu ? rh - 1 - i : i;
        unsigned char *got = dst + (size_t)i * pitchb, *want = fullp + ((size_t)(y + src) * sw + x) * ps;
        int a0 = ex0 ? 1 : 0, b0 = rw - (ex1 ? 1 : 0);
        if (b0 > a0 && memcmp(got + (size_t)a0 * ps, want + (size_t)a0 * ps, (size_t)(b0 - a0) * ps)) {
          int c; bad++; if (by < 0) by = i;
          for (c = a0; c < b0; c++)
            if (memcmp(got + (size_t)c * ps, want + (size_t)c * ps, ps)) { if (c < cmin) cmin = c; if (c > cmax) cmax = c; }
        }
        /* the padding of the row stays untouched */
        for (k = rowbytes; k < pitchb; k++) if (got[k] != 0x5A) outside++;
      }
      for (k = 0; k < before; k++) if (area[k] != 0x5A) outside++;
      for (k = 0; k < after; k++) if (area[before + extent + k] != 0x5A) outside++;
      if (bad || outside) o += sprintf(o, " | px bad row=%d n=%d cols=%d-%d outside=%ld", by, bad, cmax < 0 ? -1 : cmin, cmax, outside);
      else o += sprintf(o, " | px ok %d", rh);
    } else o += sprintf(o, " | px none (%s)", tj3GetErrorStr(t2));
  } else o += sprintf(o, " | px none");
  printf("%s\n", outbuf);
done:
  free(fullp); free(area);
  if (t1) tj3Destroy(t1); if (t2) tj3Destroy(t2);
}

int main(void)
{
  setvbuf(stdout, NULL, _IOLBF, 0);
  while (fgets(line, sizeof(line), stdin)) {
    char *f[5]; int nf = 0, r; char *p = line; char kind = line[0];
    alarm(4);    /* a hang of the library on this case kills the process; the check resumes after it */
    size_t L = strlen(line); while (L && (line[L - 1] == '\n' || line[L - 1] == '\r')) line[--L] = 0;
    if (L < 3) { printf("bad-case\n"); continue; }
    p = line + 2; f[nf++] = p;
    while (*p && nf < 5) { if (*p == '|') { *p = 0; f[nf++] = p + 1; } p++; }
    r = get_enc(f[0]);
    if (r == -2) { printf("bad-case\n"); continue; }
    if (r == -1) { printf("enc-err %d\n", last_err); continue; }
    if (kind == 'T') {
      if (nf < 3) { printf("bad-case\n"); continue; }
      tj_case(f[1], f[2]);
    } else if (kind == 'K') {
      struct dec s; int buf; long x1, w1, x2, w2; int nd; s.bscan = 0;
      nd = nf >= 3 ? sscanf(f[1], "%d %d %d %d %d", &s.M, &s.fancy, &s.dct, &s.quant, &s.ocs) : 0;
      if (nf < 3 || nd < 5 || sscanf(f[2], "%d %ld %ld %ld %ld", &buf, &x1, &w1, &x2, &w2) != 5) { printf("bad-case\n"); continue; }
      s.fancy = 0; s.quant = 0;
      if (get_full(&s) != 0) { printf("full-err %d\n", last_err); continue; }
      if (E.prec == 8) khistory8(&E, &s, &F, buf, x1, w1, x2, w2); else khistory12(&E, &s, &F, buf, x1, w1, x2, w2);
    } else if (kind == 'B' || kind == 'C') {
      struct dec s; long cx, cw; int when = 0, nd, np = 0, pk[4]; char *pops[4]; static struct full FP[4]; int q, bad = 0; char *pp;
      s.bscan = 0;
      nd = nf >= 4 ? sscanf(f[1], "%d %d %d %d %d %d", &s.M, &s.fancy, &s.dct, &s.quant, &s.ocs, &s.bscan) : 0;
      if (nf < 4 || nd < 5 || sscanf(f[2], "%ld %ld %d", &cx, &cw, &when) < 2) { printf("bad-case\n"); continue; }
      pp = f[3];
      while (pp && *pp && np < 4) {
        char *semi = strchr(pp, ';'); char *endp;
        if (semi) *semi = 0;
        pk[np] = (int)strtol(pp, &endp, 10); pops[np] = endp; np++;
        pp = semi ? semi + 1 : NULL;
      }
      for (q = 0; q < np; q++) {      /* reference: fresh decompressor, buffered-image mode, output pass on the same scan */
        struct dec s2 = s; s2.bscan = pk[q] > 0 ? pk[q] : 1; pk[q] = s2.bscan;
        free(FP[q].pix); FP[q].pix = NULL;
        if ((E.prec == 8 ? fulldecode8(&E, &s2, &FP[q]) : fulldecode12(&E, &s2, &FP[q])) != 0) bad = 1;
      }
      if (bad || np == 0) { printf("full-err %d\n", last_err); continue; }
      if (E.prec == 8) bhistory8(&E, &s, np, pk, pops, FP, cx, cw, when, kind == 'C');
      else bhistory12(&E, &s, np, pk, pops, FP, cx, cw, when, kind == 'C');
    } else {
      struct dec s; long cx, cw;
      int nd; s.bscan = 0;
      nd = sscanf(f[1], "%d %d %d %d %d %d", &s.M, &s.fancy, &s.dct, &s.quant, &s.ocs, &s.bscan);
      if (nf < 4 || nd < 5 || sscanf(f[2], "%ld %ld", &cx, &cw) != 2) { printf("bad-case\n"); continue; }
      if (get_full(&s) != 0) { printf("full-err %d\n", last_err); continue; }
      if (E.prec == 8) history8(&E, &s, &F, cx, cw, f[3], kind == 'F'); else history12(&E, &s, &F, cx, cw, f[3], kind == 'F');
    }
  }
  return 0;
}
