/* C05 harness: SIMD and scalar code paths give bit-identical results.
 *
 *   c05 codec            stdin: one codec case per line; the library runs with whatever
 *                        JSIMD_FORCE* environment the process was started under (the check
 *                        starts it three times: JSIMD_FORCENONE=1, JSIMD_FORCESSE2=1, default)
 *                        and prints hashes of the JPEG bytes and of every decoded image.
 *   c05 kernel           stdin: one kernel case per line; prints "S <simd result> | C <c result>"
 *                        where S comes from the jsimd_* dispatcher (SSE2 or AVX2 according to
 *                        the environment) and C from the static C function of src/*.c.
 *
 * codec case:   e <w> <h> <subsamp> <pf> <quality> <flags> <kind> <seed> <off>
 *   flags bit0 fastdct, bit1 progressive, bit2 optimize, bit3 arithmetic, bit4 restart
 * kernel cases: see kernel_line().
 */
#include <stdio.h>
#include <stdlib.h>
#include <string.h>
#include <stdint.h>
#include <stdarg.h>
#define JPEG_INTERNALS
#include "jinclude.h"
#include "jpeglib.h"
#include "jsimd.h"
#include "jdct.h"
#include "jsimddct.h"
#include "turbojpeg.h"
#include "c05_k.h"

static uint64_t rng_s;
static uint64_t rnd(void)
{
  uint64_t z = (rng_s += 0x9E3779B97F4A7C15ULL);
  z = (z ^ (z >> 30)) * 0xBF58476D1CE4E5B9ULL; z = (z ^ (z >> 27)) * 0x94D049BB133111EBULL;
  return z ^ (z >> 31);
}
static uint64_t fnv(uint64_t h, const void *p, size_t n)
{
  const unsigned char *b = p; size_t i;
  for (i = 0; i < n; i++) { h ^= b[i]; h *= 0x100000001B3ULL; }
  return h;
}
#define FNV0 0xCBF29CE484222325ULL
static void *amalloc(size_t n) { void *p = NULL; if (posix_memalign(&p, 64, n + 128)) exit(3); memset(p, 0, n + 128); return p; }

/* a small baseline JPEG so that a started decompressor (range-limit table) exists */
unsigned char *c05_tiny_jpeg(unsigned long *len)
{
  static unsigned char *buf; static unsigned long blen;
  if (!buf) {
    struct jpeg_compress_struct c; struct jpeg_error_mgr e; unsigned char row[16 * 3]; JSAMPROW r[1]; int i;
    c.err = jpeg_std_error(&e); jpeg_create_compress(&c); jpeg_mem_dest(&c, &buf, &blen);
    c.image_width = 16; c.image_height = 16; c.input_components = 3; c.in_color_space = JCS_RGB;
    jpeg_set_defaults(&c); jpeg_start_compress(&c, TRUE);
    for (i = 0; i < 48; i++) row[i] = (unsigned char)(i * 5);
    r[0] = row; for (i = 0; i < 16; i++) jpeg_write_scanlines(&c, r, 1);
    jpeg_finish_compress(&c); jpeg_destroy_compress(&c);
  }
  *len = blen; return buf;
}

/* ------------------------------------------------------------------ codec */
static void fill_image(unsigned char *p, int w, int h, int ps, int kind, uint64_t seed)
{
  int x, y, c; rng_s = seed;
  for (y = 0; y < h; y++) for (x = 0; x < w; x++) for (c = 0; c < ps; c++) {
    unsigned v;
    switch (kind) {
    case 0: v = (unsigned)rnd(); break;                                   /* noise */
    case 1: v = (unsigned)(x * 7 + y * 13 + c * 50 + (rnd() & 7)); break; /* gradient + dither */
    case 2: v = ((x ^ y) & 1) ? 255 : 0; break;                           /* checkerboard extremes */
    case 3: v = 255; break;
    case 4: v = 0; break;
    case 5: v = ((x / 3 + y / 2) & 1) ? 250 + (rnd() % 6) : (rnd() % 6); break; /* hard edges */
    case 7: v = 112 + (unsigned)(rnd() & 31); break;                     /* low contrast noise */
    case 8: v = 112 + ((x * 3 + y * 5 + c * 7) & 31); break;              /* low contrast gradient */
    case 9: { unsigned lo = (unsigned)(seed % 64), hi = lo + 128 + (unsigned)((seed >> 8) % (128 - lo)); v = ((y / 2) & 1) ? hi : lo; } break;  /* 2-on/2-off horizontal stripes, contrast >= 128, every channel equal */
    case 10: { unsigned lo = (unsigned)(seed % 100), hi = 255 - (unsigned)((seed >> 8) % 28); int r8 = y & 7; v = (r8 < 2 || r8 > 5) ? hi : lo; } break;  /* rows {0,1,6,7} vs {2..5} of each block */
    default: v = (unsigned)((x * x + y * c) >> 2); break;
    }
    p[((size_t)y * w + x) * ps + c] = (unsigned char)v;
  }
}
static const int scal_num[] = { 1, 2, 1, 1, 3, 3, 1, 5, 7, 15 };
static const int scal_den[] = { 1, 1, 2, 4, 8, 4, 8, 8, 8, 8 };

static void codec_line(char *line)
{
  int w, h, ss, pf, q, flags, kind, off; unsigned long long seed;
  tjhandle hc, hd; unsigned char *src, *jpg = NULL; size_t jsize = 0; int ps, rc, i;
  if (sscanf(line, "e %d %d %d %d %d %d %d %llu %d", &w, &h, &ss, &pf, &q, &flags, &kind, &seed, &off) != 9) { puts("?"); return; }
  ps = tjPixelSize[pf];
  src = (unsigned char *)amalloc((size_t)w * h * ps + 64) + off;
  fill_image(src, w, h, ps, kind, seed);
  hc = tj3Init(TJINIT_COMPRESS);
  tj3Set(hc, TJPARAM_QUALITY, q); tj3Set(hc, TJPARAM_SUBSAMP, ss);
  tj3Set(hc, TJPARAM_FASTDCT, flags & 1); tj3Set(hc, TJPARAM_PROGRESSIVE, (flags >> 1) & 1);
  tj3Set(hc, TJPARAM_OPTIMIZE, (flags >> 2) & 1); tj3Set(hc, TJPARAM_ARITHMETIC, (flags >> 3) & 1);
  if (flags & 16) tj3Set(hc, TJPARAM_RESTARTROWS, 1);
  rc = tj3Compress8(hc, src, w, 0, h, pf, &jpg, &jsize);
  if (rc != 0) { printf("enc-error %s\n", tj3GetErrorStr(hc)); tj3Destroy(hc); free(src - off); return; }
  printf("enc %zu %016llx", jsize, (unsigned long long)fnv(FNV0, jpg, jsize));
  tj3Destroy(hc);
  /* decode the JPEG in several configurations */
  hd = tj3Init(TJINIT_DECOMPRESS);
  for (i = 0; i < 6; i++) {
    int dpf, fastup, fastdct, sc, dw, dh; tjscalingfactor sf; unsigned char *dst; uint64_t hsh;
    rng_s = seed * 31 + i;
    dpf = (i == 0) ? pf : (int)(rnd() % TJ_NUMPF);
    if (pf == TJPF_CMYK) dpf = TJPF_CMYK; else if (dpf == TJPF_CMYK) dpf = TJPF_RGB;
    if (pf == TJPF_GRAY && 0) dpf = TJPF_GRAY;
    fastup = (i & 1); fastdct = (i >> 1) & 1; sc = (i < 4) ? 0 : (int)(rnd() % 10);
    sf.num = scal_num[sc]; sf.denom = scal_den[sc];
    tj3Set(hd, TJPARAM_FASTUPSAMPLE, fastup); tj3Set(hd, TJPARAM_FASTDCT, fastdct);
    if (tj3DecompressHeader(hd, jpg, jsize) != 0) { printf(" dec-hdr-error"); break; }
    if (tj3SetScalingFactor(hd, sf) != 0) { sf.num = sf.denom = 1; tj3SetScalingFactor(hd, sf); }
    dw = TJSCALED(w, sf); dh = TJSCALED(h, sf);
    dst = (unsigned char *)amalloc((size_t)dw * dh * tjPixelSize[dpf] + 64) + ((off * 7 + i) & 31);
    rc = tj3Decompress8(hd, jpg, jsize, dst, 0, dpf);
    hsh = fnv(FNV0, dst, (size_t)dw * dh * tjPixelSize[dpf]);
    if (dpf == TJPF_RGBX || dpf == TJPF_BGRX || dpf == TJPF_XBGR || dpf == TJPF_XRGB) {
      /* the X byte is documented as undefined: hash the colour bytes only */
      size_t k, n = (size_t)dw * dh; hsh = FNV0;
      for (k = 0; k < n; k++) {
        unsigned char t[3]; t[0] = dst[k * 4 + tjRedOffset[dpf]]; t[1] = dst[k * 4 + tjGreenOffset[dpf]]; t[2] = dst[k * 4 + tjBlueOffset[dpf]];
        hsh = fnv(hsh, t, 3);
      }
    }
    printf(" d%d:%d:%d%d:%d/%d:%s%016llx", i, dpf, fastup, fastdct, sf.num, sf.denom, rc ? "ERR" : "", (unsigned long long)hsh);
    free(dst - ((off * 7 + i) & 31));
  }
  /* planar YUV decode (no colour conversion, no upsampling) */
  {
    int ssd = tj3Get(hd, TJPARAM_SUBSAMP);
    if (ssd >= 0 && tj3DecompressHeader(hd, jpg, jsize) == 0) {
      size_t n = tj3YUVBufSize(w, 1, h, ssd); unsigned char *yuv = amalloc(n + 64);
      tjscalingfactor one = { 1, 1 }; tj3SetScalingFactor(hd, one);
      rc = tj3DecompressToYUV8(hd, jpg, jsize, yuv, 1);
      printf(" yuv:%s%016llx", rc ? "ERR" : "", (unsigned long long)fnv(FNV0, yuv, n));
      free(yuv);
    }
  }
  tj3Destroy(hd); tj3Free(jpg); free(src - off);
  putchar('\n');
}

/* p <w> <h> <subsamp> <kind> <seed> <qpatch> : encode at quality 100 (accurate DCT), overwrite every
   quantisation value in the DQT segments by qpatch (the stream stays a legal baseline JPEG whose
   dequantised coefficients exceed what a forward DCT of 8-bit samples produces), decode */
static void patched_line(char *line)
{
  int w, h, ss, kind, qp, fast; unsigned long long seed; tjhandle hc, hd; unsigned char *src, *jpg = NULL, *dst; size_t n = 0, i;
  if (sscanf(line, "p %d %d %d %d %llu %d", &w, &h, &ss, &kind, &seed, &qp) != 6) { puts("?"); return; }
  src = amalloc((size_t)w * h * 3); fill_image(src, w, h, 3, kind, seed);
  hc = tj3Init(TJINIT_COMPRESS); tj3Set(hc, TJPARAM_QUALITY, 100); tj3Set(hc, TJPARAM_SUBSAMP, ss);
  if (tj3Compress8(hc, src, w, 0, h, TJPF_RGB, &jpg, &n) != 0) { puts("enc-error"); return; }
  tj3Destroy(hc);
  printf("enc %zu %016llx", n, (unsigned long long)fnv(FNV0, jpg, n));
  for (i = 0; i + 4 < n; i++) if (jpg[i] == 0xFF && jpg[i + 1] == 0xDB) {
    int len = (jpg[i + 2] << 8) | jpg[i + 3], k;
    for (k = 5; k < len + 2 && k < 5 + 64; k++) jpg[i + k] = (unsigned char)qp;
    i += len;
  } else if (jpg[i] == 0xFF && jpg[i + 1] == 0xDA) break;
  dst = amalloc((size_t)w * h * 3);
  hd = tj3Init(TJINIT_DECOMPRESS);
  for (fast = 0; fast < 2; fast++) {
    int rc; tj3Set(hd, TJPARAM_FASTDCT, fast);
    rc = tj3Decompress8(hd, jpg, n, dst, 0, TJPF_RGB);
    printf(" x%d:%s%016llx", fast, rc ? "ERR" : "", (unsigned long long)fnv(FNV0, dst, (size_t)w * h * 3));
  }
  tj3Destroy(hd); tj3Free(jpg); free(src); free(dst); putchar('\n');
}

/* j <w> <h> <quality> <fastdct> <kind> <seed> <ncomp> h0 v0 [h1 v1 h2 v2] : libjpeg API with explicit
   sampling factors (ncomp 3: RGB -> YCbCr; ncomp 1/2: JCS_UNKNOWN, no colour conversion); decoded with
   fancy and with plain upsampling */
#include <setjmp.h>
static jmp_buf jerr_jb;
static void jerr_exit(j_common_ptr c) { longjmp(jerr_jb, 1); }
static void libjpeg_line(char *line)
{
  int w, h, q, fast, kind, nc, hv[6] = { 1, 1, 1, 1, 1, 1 }, n, i, fancy; unsigned long long seed;
  struct jpeg_compress_struct c; struct jpeg_decompress_struct d; struct jpeg_error_mgr e;
  unsigned char *src, *jpg = NULL, *dst; unsigned long jlen = 0; JSAMPROW row;
  n = sscanf(line, "j %d %d %d %d %d %llu %d %d %d %d %d %d %d", &w, &h, &q, &fast, &kind, &seed, &nc, hv, hv + 1, hv + 2, hv + 3, hv + 4, hv + 5);
  if (n < 9 || nc < 1 || nc > 3) { puts("?"); return; }
  src = amalloc((size_t)w * h * nc); fill_image(src, w, h, nc, kind, seed);
  c.err = jpeg_std_error(&e); e.error_exit = jerr_exit;
  if (setjmp(jerr_jb)) { printf("enc-error %d\n", e.msg_code); jpeg_destroy_compress(&c); free(src); return; }
  jpeg_create_compress(&c); jpeg_mem_dest(&c, &jpg, &jlen);
  c.image_width = w; c.image_height = h; c.input_components = nc; c.in_color_space = nc == 3 ? JCS_RGB : JCS_UNKNOWN;
  jpeg_set_defaults(&c); jpeg_set_quality(&c, q, TRUE); c.dct_method = fast ? JDCT_IFAST : JDCT_ISLOW;
  for (i = 0; i < nc; i++) { c.comp_info[i].h_samp_factor = hv[2 * i]; c.comp_info[i].v_samp_factor = hv[2 * i + 1]; }
  jpeg_start_compress(&c, TRUE);
  while (c.next_scanline < c.image_height) { row = src + (size_t)c.next_scanline * w * nc; jpeg_write_scanlines(&c, &row, 1); }
  jpeg_finish_compress(&c); jpeg_destroy_compress(&c);
  printf("enc %lu %016llx", jlen, (unsigned long long)fnv(FNV0, jpg, jlen));
  dst = amalloc((size_t)w * h * 4);
  for (fancy = 1; fancy >= 0; fancy--) {
    d.err = jpeg_std_error(&e); e.error_exit = jerr_exit;
    if (setjmp(jerr_jb)) { printf(" f%d:ERR%d", fancy, e.msg_code); jpeg_destroy_decompress(&d); continue; }
    jpeg_create_decompress(&d); jpeg_mem_src(&d, jpg, jlen); jpeg_read_header(&d, TRUE);
    d.dct_method = fast ? JDCT_IFAST : JDCT_ISLOW; d.do_fancy_upsampling = fancy;
    jpeg_start_decompress(&d);
    memset(dst, 0, (size_t)w * h * 4);
    while (d.output_scanline < d.output_height) { row = dst + (size_t)d.output_scanline * d.output_width * d.output_components; jpeg_read_scanlines(&d, &row, 1); }
    printf(" f%d:%016llx", fancy, (unsigned long long)fnv(FNV0, dst, (size_t)d.output_width * d.output_height * d.output_components));
    jpeg_finish_decompress(&d); jpeg_destroy_decompress(&d);
  }
  free(jpg); free(src); free(dst); putchar('\n');
}

/* s <w> <h> <q> <fancy> <kind> <seed> <ocs> <cropx> <cropw> h0 v0 h1 v1 h2 v2 | op op ...
   a decompression HISTORY through the libjpeg API: optional jpeg_crop_scanline(cropx, cropw), then ops
   rN = read N scanlines (one at a time), sN = jpeg_skip_scanlines(N); the rest of the image is read at the end.
   Prints a hash per read op.  The three SIMD levels must deliver identical rows for the same history. */
static void history_line(char *line)
{
  int w, h, q, fancy, kind, ocs, cropx, cropw, hv[6], n, i, pos = 0; unsigned long long seed;
  struct jpeg_compress_struct c; struct jpeg_decompress_struct d; struct jpeg_error_mgr e;
  unsigned char *src, *jpg = NULL, *rowbuf; unsigned long jlen = 0; JSAMPROW row; char *p;
  n = sscanf(line, "s %d %d %d %d %d %llu %d %d %d %d %d %d %d %d %d%n", &w, &h, &q, &fancy, &kind, &seed, &ocs, &cropx, &cropw,
             hv, hv + 1, hv + 2, hv + 3, hv + 4, hv + 5, &pos);
  if (n < 15) { puts("?"); return; }
  p = strchr(line, '|'); if (!p) { puts("?"); return; } p++;
  src = amalloc((size_t)w * h * 3); fill_image(src, w, h, 3, kind, seed);
  c.err = jpeg_std_error(&e); e.error_exit = jerr_exit;
  if (setjmp(jerr_jb)) { printf("enc-error %d\n", e.msg_code); jpeg_destroy_compress(&c); free(src); return; }
  jpeg_create_compress(&c); jpeg_mem_dest(&c, &jpg, &jlen);
  c.image_width = w; c.image_height = h; c.input_components = 3; c.in_color_space = JCS_RGB;
  jpeg_set_defaults(&c); jpeg_set_quality(&c, q, TRUE);
  for (i = 0; i < 3; i++) { c.comp_info[i].h_samp_factor = hv[2 * i]; c.comp_info[i].v_samp_factor = hv[2 * i + 1]; }
  jpeg_start_compress(&c, TRUE);
  while (c.next_scanline < c.image_height) { row = src + (size_t)c.next_scanline * w * 3; jpeg_write_scanlines(&c, &row, 1); }
  jpeg_finish_compress(&c); jpeg_destroy_compress(&c);
  printf("enc %lu %016llx", jlen, (unsigned long long)fnv(FNV0, jpg, jlen));
  rowbuf = amalloc((size_t)w * 4 + 64);
  d.err = jpeg_std_error(&e); e.error_exit = jerr_exit;
  if (setjmp(jerr_jb)) { printf(" dec-error%d\n", e.msg_code); jpeg_destroy_decompress(&d); free(jpg); free(src); free(rowbuf); return; }
  jpeg_create_decompress(&d); jpeg_mem_src(&d, jpg, jlen); jpeg_read_header(&d, TRUE);
  d.do_fancy_upsampling = fancy; d.out_color_space = (J_COLOR_SPACE)ocs; d.dct_method = JDCT_ISLOW;
  jpeg_start_decompress(&d);
  if (cropw > 0) { JDIMENSION xo = cropx, cw = cropw; jpeg_crop_scanline(&d, &xo, &cw); printf(" crop%u+%u", xo, cw); }
  for (;;) {
    char op; int cnt, adv = 0; uint64_t hsh = FNV0; unsigned start = d.output_scanline;
    while (*p == ' ') p++;
    if (sscanf(p, "%c%d%n", &op, &cnt, &adv) < 2 || (op != 'r' && op != 's')) { op = 'r'; cnt = 1 << 20; adv = 0; }
    p += adv;
    if (d.output_scanline >= d.output_height) break;
    if (op == 's') { unsigned got = jpeg_skip_scanlines(&d, cnt); printf(" s@%u:%u", start, got); }
    else {
      int k; for (k = 0; k < cnt && d.output_scanline < d.output_height; k++) {
        memset(rowbuf, 0, (size_t)w * 4); row = rowbuf; jpeg_read_scanlines(&d, &row, 1);
        hsh = fnv(hsh, rowbuf, (size_t)d.output_width * d.output_components);
      }
      printf(" r@%ux%u:%016llx", start, d.output_scanline - start, (unsigned long long)hsh);
    }
    if (adv == 0) break;
  }
  printf(" warnings:%ld", e.num_warnings);     /* > 0: the entropy decoder lost sync (jpeg_skip_scanlines hazards, property C08) */
  jpeg_finish_decompress(&d); jpeg_destroy_decompress(&d);
  free(jpg); free(src); free(rowbuf); putchar('\n');
}

/* ------------------------------------------------------------------ kernel */
static int cs_ps(int cs)
{
  switch (cs) { case JCS_EXT_RGB: case JCS_EXT_BGR: case JCS_RGB: return 3; default: return 4; }
}
static void cs_offsets(int cs, int *r, int *g, int *b)
{
  switch (cs) {
  case JCS_EXT_RGB: case JCS_RGB: case JCS_EXT_RGBX: case JCS_EXT_RGBA: *r = 0; *g = 1; *b = 2; break;
  case JCS_EXT_BGR: case JCS_EXT_BGRX: case JCS_EXT_BGRA: *r = 2; *g = 1; *b = 0; break;
  case JCS_EXT_XBGR: case JCS_EXT_ABGR: *r = 3; *g = 2; *b = 1; break;
  default: *r = 1; *g = 2; *b = 3; break;      /* XRGB, ARGB */
  }
}
static long nextnum(char **p, int *ok)
{
  char *e; long v;
  while (**p == ' ') (*p)++;
  if (**p == '|') { *ok = 0; return 0; }
  v = strtol(*p, &e, 10); if (e == *p) { *ok = 0; return 0; }
  *p = e; *ok = 1; return v;
}
static int readlist(char **p, u8 *dst, int max)
{
  int n = 0, ok; for (;;) { long v = nextnum(p, &ok); if (!ok) break; if (n < max) dst[n++] = (u8)v; }
  while (**p == ' ') (*p)++; if (**p == '|') (*p)++;
  return n;
}
static void pr_bytes(const u8 *b, int n) { int i; for (i = 0; i < n; i++) printf(" %d", b[i]); }

#define MAXW 4096
static u8 *B[16];          /* aligned scratch rows */
static u8 *RW(int i, int k) { return B[i] + (size_t)k * 4096; }
static void rows_init(void) { int i; for (i = 0; i < 16; i++) B[i] = amalloc(MAXW * 8); }

struct bulkres { uint64_t hs, hc; long n; char diff[256]; };
static void bulk_cmp(struct bulkres *r, const void *s, const void *c, size_t n, const char *fmt, ...)
{
  r->hs = fnv(r->hs, s, n); r->hc = fnv(r->hc, c, n); r->n++;
  if (!r->diff[0] && memcmp(s, c, n)) {
    va_list ap; size_t k = 0; const u8 *a = s, *b = c; int l;
    while (a[k] == b[k]) k++;
    va_start(ap, fmt); l = vsnprintf(r->diff, 200, fmt, ap); va_end(ap);
    snprintf(r->diff + l, 255 - l, " byte=%zu simd=%d c=%d", k, a[k], b[k]);
  }
}
static void bulk_out(struct bulkres *r)
{
  printf("S %016llx %ld | C %016llx %ld", (unsigned long long)r->hs, r->n, (unsigned long long)r->hc, r->n);
  if (r->diff[0]) printf(" ; first_diff %s", r->diff);
  putchar('\n');
}

static const int all_cs[] = { JCS_EXT_RGB, JCS_EXT_RGBX, JCS_EXT_BGR, JCS_EXT_BGRX, JCS_EXT_XBGR, JCS_EXT_XRGB,
                              JCS_EXT_RGBA, JCS_EXT_BGRA, JCS_EXT_ABGR, JCS_EXT_ARGB, JCS_RGB };
static const int ext_y[] = { 0, 1, 2, 16, 127, 128, 129, 235, 253, 254, 255 };

static struct jpeg_decompress_struct idc; static struct jpeg_error_mgr iderr;

static void bulk(char *p)
{
  char what[32]; long a = 0, b2 = 0, c2 = 0; struct bulkres r; int n;
  memset(&r, 0, sizeof(r)); r.hs = r.hc = FNV0;
  n = sscanf(p, "%31s %ld %ld %ld", what, &a, &b2, &c2);
  if (n < 1) { puts("?"); return; }
  if (!strcmp(what, "yccrgb")) {          /* a = cs, b2 = output offset: all 65536 (cb,cr) x extreme and 5 random Y */
    int cs = (int)a, off = (int)b2, ps = cs_ps(cs), cb, yi; u8 ys[16]; int ny = 11;
    memcpy(ys, ext_y, 0); for (yi = 0; yi < 11; yi++) ys[yi] = (u8)ext_y[yi];
    rng_s = (uint64_t)c2; for (; ny < 16; ny++) ys[ny] = (u8)rnd();
    for (yi = 0; yi < ny; yi++) for (cb = 0; cb < 256; cb++) {
      int cr; for (cr = 0; cr < 256; cr++) { B[0][cr] = ys[yi]; B[1][cr] = (u8)cb; B[2][cr] = (u8)cr; }
      memset(B[4], 0x55, 1200); memset(B[5], 0x55, 1200);
      c05_ycc_rgb(1, cs, B[0], B[1], B[2], B[4] + off, 256);
      c05_ycc_rgb(0, cs, B[0], B[1], B[2], B[5] + off, 256);
      if (ps == 4 && (cs == JCS_EXT_RGBX || cs == JCS_EXT_BGRX || cs == JCS_EXT_XBGR || cs == JCS_EXT_XRGB)) {
        int k, ro, go, bo; cs_offsets(cs, &ro, &go, &bo);     /* X byte undefined: neutralise */
        for (k = 0; k < 256; k++) { int xo = 6 - ro - go - bo; B[4][off + k * 4 + xo] = 0; B[5][off + k * 4 + xo] = 0; }
      }
      bulk_cmp(&r, B[4], B[5], 1200, "kernel=ycc_rgb cs=%d off=%d y=%d cb=%d cr=(index of pixel)", cs, off, ys[yi], cb);
    }
  } else if (!strcmp(what, "rgbycc") || !strcmp(what, "rgbgray")) {   /* a = cs, b2 = input offset, c2 = seed */
    int cs = (int)a, off = (int)b2, ps = cs_ps(cs), it, gray = what[3] == 'g';
    rng_s = (uint64_t)c2;
    for (it = 0; it < 260; it++) {      /* 256 random rows of 256 pixels + extremes */
      int w = 256, k; u8 *in = B[0] + off;
      for (k = 0; k < w * ps; k++) in[k] = (it < 256) ? (u8)rnd() : (u8)((it & 1) ? ((k / ps + it) & 1 ? 255 : 0) : (k % ps == (it >> 1) % ps ? 255 : 0));
      memset(B[4], 0x55, 3 * 512); memset(B[5], 0x55, 3 * 512);
      if (gray) { c05_rgb_gray(1, cs, in, B[4], w); c05_rgb_gray(0, cs, in, B[5], w); }
      else { c05_rgb_ycc(1, cs, in, B[4], B[4] + 512, B[4] + 1024, w); c05_rgb_ycc(0, cs, in, B[5], B[5] + 512, B[5] + 1024, w); }
      bulk_cmp(&r, B[4], B[5], 3 * 512, "kernel=%s cs=%d off=%d row=%d (plane byte index = plane*512 + pixel)", what, cs, off, it);
    }
  } else if (!strcmp(what, "colourw")) {  /* a = cs, c2 = seed : widths 1..100 x offsets 0..31, rgb->ycc and ycc->rgb and gray */
    int cs = (int)a, ps = cs_ps(cs), w, off;
    rng_s = (uint64_t)c2;
    for (w = 1; w <= 100; w++) for (off = 0; off < 32; off++) {
      int k; u8 *in = B[0] + off;
      for (k = 0; k < w * ps; k++) in[k] = (u8)rnd();
      memset(B[4], 0x55, 3 * 512); memset(B[5], 0x55, 3 * 512);
      c05_rgb_ycc(1, cs, in, B[4], B[4] + 512, B[4] + 1024, w); c05_rgb_ycc(0, cs, in, B[5], B[5] + 512, B[5] + 1024, w);
      /* only the first w bytes of each plane are defined */
      for (k = 0; k < 3; k++) bulk_cmp(&r, B[4] + 512 * k, B[5] + 512 * k, w, "kernel=rgb_ycc cs=%d width=%d in_off=%d plane=%d", cs, w, off, k);
      c05_rgb_gray(1, cs, in, B[4], w); c05_rgb_gray(0, cs, in, B[5], w);
      bulk_cmp(&r, B[4], B[5], w, "kernel=rgb_gray cs=%d width=%d in_off=%d", cs, w, off);
      for (k = 0; k < w; k++) { B[1][k] = (u8)rnd(); B[2][k] = (u8)rnd(); B[3][k] = (u8)rnd(); }
      memset(B[6], 0x55, 1024); memset(B[7], 0x55, 1024);
      c05_ycc_rgb(1, cs, B[1], B[2], B[3], B[6] + off, w); c05_ycc_rgb(0, cs, B[1], B[2], B[3], B[7] + off, w);
      if (ps == 4 && (cs == JCS_EXT_RGBX || cs == JCS_EXT_BGRX || cs == JCS_EXT_XBGR || cs == JCS_EXT_XRGB)) {
        int ro, go, bo; cs_offsets(cs, &ro, &go, &bo);
        for (k = 0; k < w; k++) { int xo = 6 - ro - go - bo; B[6][off + k * 4 + xo] = 0; B[7][off + k * 4 + xo] = 0; }
      }
      /* bytes after the row must be untouched as well */
      bulk_cmp(&r, B[6], B[7], 1024, "kernel=ycc_rgb cs=%d width=%d out_off=%d", cs, w, off);
    }
  } else if (!strcmp(what, "merged")) {   /* a = cs, b2 = v2, c2 = seed : widths 1..100 x out offsets 0..31 */
    int cs = (int)a, v2 = (int)b2, ps = cs_ps(cs), w, off;
    rng_s = (uint64_t)c2;
    for (w = 1; w <= 100; w++) for (off = 0; off < 32; off += (w % 5 == 0 ? 1 : 7)) {
      int k;
      for (k = 0; k < w + 1; k++) { B[0][k] = (u8)rnd(); B[1][k] = (u8)rnd(); }
      for (k = 0; k < (w + 1) / 2; k++) { B[2][k] = (u8)rnd(); B[3][k] = (u8)rnd(); }
      if (w % 9 == 0) for (k = 0; k < (w + 1) / 2; k++) { B[2][k] = (k & 1) ? 255 : 0; B[3][k] = (k & 2) ? 255 : 0; }
      memset(B[4], 0x55, 2048); memset(B[5], 0x55, 2048);
      if (v2 == 2) {       /* both output rows are the same buffer */
        c05_merged(1, 1, cs, B[0], B[1], B[2], B[3], B[4] + off, B[4] + off, w);
        c05_merged(0, 1, cs, B[0], B[1], B[2], B[3], B[5] + off, B[5] + off, w);
      } else {
      c05_merged(1, v2, cs, B[0], B[1], B[2], B[3], B[4] + off, B[4] + 1024 + off, w);
      c05_merged(0, v2, cs, B[0], B[1], B[2], B[3], B[5] + off, B[5] + 1024 + off, w);
      }
      if (ps == 4 && (cs == JCS_EXT_RGBX || cs == JCS_EXT_BGRX || cs == JCS_EXT_XBGR || cs == JCS_EXT_XRGB)) {
        int ro, go, bo; cs_offsets(cs, &ro, &go, &bo);
        for (k = 0; k < w; k++) { int xo = 6 - ro - go - bo; B[4][off + k * 4 + xo] = 0; B[5][off + k * 4 + xo] = 0; B[4][1024 + off + k * 4 + xo] = 0; B[5][1024 + off + k * 4 + xo] = 0; }
      }
      bulk_cmp(&r, B[4] + off, B[5] + off, (size_t)w * ps, "kernel=h2v%d_merged%s cs=%d width=%d out_off=%d row=0", v2 ? 2 : 1, v2 == 2 ? " (aliased output rows)" : "", cs, w, off);
      if (v2 == 1) bulk_cmp(&r, B[4] + 1024 + off, B[5] + 1024 + off, (size_t)w * ps, "kernel=h2v2_merged cs=%d width=%d out_off=%d row=1", cs, w, off);
    }
  } else if (!strcmp(what, "down")) {     /* a = v2, c2 = seed : image widths 1..300 */
    int v2 = (int)a, iw, rep;
    rng_s = (uint64_t)c2;
    for (iw = 1; iw <= 300; iw++) for (rep = 0; rep < 3; rep++) {
      /* output_cols = width_in_blocks*8 where the component is ceil(iw/2) wide, plus sometimes one extra block */
      unsigned wib = ((iw + 1) / 2 + 7) / 8 + (rep == 2 ? 1 : 0); int k;
      for (k = 0; k < MAXW; k++) { u8 v = (rep == 1) ? (u8)((k & 1) ? 255 : 254) : (u8)rnd(); B[0][k] = B[2][k] = v; v = (rep == 1) ? 255 : (u8)rnd(); B[1][k] = B[3][k] = v; }
      memset(B[4], 0x55, 1024); memset(B[5], 0x55, 1024);
      c05_down(1, v2, iw, wib, B[0], B[1], B[4]); c05_down(0, v2, iw, wib, B[2], B[3], B[5]);
      bulk_cmp(&r, B[4], B[5], wib * 8, "kernel=h2v%d_downsample image_width=%d width_in_blocks=%u pattern=%d", v2 ? 2 : 1, iw, wib, rep);
    }
  } else if (!strcmp(what, "fancy")) {    /* a = v2, c2 = seed : widths 3..300 (the C gate is downsampled_width > 2) */
    int v2 = (int)a, w, rep;
    rng_s = (uint64_t)c2;
    for (w = 3; w <= 300; w++) for (rep = 0; rep < 3; rep++) {
      int k;
      for (k = 0; k < MAXW; k++) {
        u8 v0 = (u8)rnd(), v1 = (u8)rnd(), v2_ = (u8)rnd();
        if (rep == 1) { v0 = (k & 1) ? 255 : 0; v1 = (k & 2) ? 255 : 0; v2_ = 255; }
        B[0][k] = B[8][k] = v0; B[1][k] = B[9][k] = v1; B[2][k] = B[10][k] = v2_;
      }
      memset(B[4], 0x55, 2048); memset(B[5], 0x55, 2048); memset(B[6], 0x55, 2048); memset(B[7], 0x55, 2048);
      c05_fancy(1, v2, w, B[0], B[1], B[2], B[4], B[5]); c05_fancy(0, v2, w, B[8], B[9], B[10], B[6], B[7]);
      bulk_cmp(&r, B[4], B[6], 2 * w, "kernel=h2v%d_fancy_upsample downsampled_width=%d pattern=%d outrow=0", v2 ? 2 : 1, w, rep);
      if (v2) bulk_cmp(&r, B[5], B[7], 2 * w, "kernel=h2v2_fancy_upsample downsampled_width=%d pattern=%d outrow=1", w, rep);
    }
  } else if (!strcmp(what, "plain")) {    /* a = v2 : output widths 1..300 */
    int v2 = (int)a, w;
    rng_s = (uint64_t)c2;
    for (w = 1; w <= 300; w++) {
      int k; for (k = 0; k < MAXW; k++) B[0][k] = (u8)rnd();
      memset(B[4], 0x55, 1024); memset(B[5], 0x55, 1024); memset(B[6], 0x55, 1024); memset(B[7], 0x55, 1024);
      c05_plain(1, v2, w, B[0], B[4], B[5]); c05_plain(0, v2, w, B[0], B[6], B[7]);
      bulk_cmp(&r, B[4], B[6], w, "kernel=h2v%d_upsample output_width=%d outrow=0", v2 ? 2 : 1, w);
      if (v2) bulk_cmp(&r, B[5], B[7], w, "kernel=h2v2_upsample output_width=%d outrow=1", w);
    }
  } else if (!strcmp(what, "rowsup")) {   /* a = fancy, b2 = v2, c2 = seed : whole row groups, max_v_samp_factor 1..4 */
    int fancy = (int)a, v2 = (int)b2, max_v, wi; static const int ws[] = { 3, 4, 15, 16, 17, 31, 32, 33, 35, 64, 65, 70, 100, 129 };
    rng_s = (uint64_t)c2;
    for (max_v = 1; max_v <= 4; max_v++) for (wi = 0; wi < 14; wi++) {
      int w = ws[wi], nin = v2 ? (max_v + 1) / 2 : max_v, nout = v2 ? 2 * nin : max_v, k, j, outw = fancy ? 2 * w : w;
      u8 *is[8], *ic[8], *os[4], *oc[4];
      for (k = 0; k < nin + 2; k++) { is[k] = RW(0, k); ic[k] = RW(1, k); for (j = 0; j < 4096; j++) is[k][j] = ic[k][j] = (u8)rnd(); }
      for (k = 0; k < 4; k++) { os[k] = RW(2, k); oc[k] = RW(3, k); memset(os[k], 0x55, 4096); memset(oc[k], 0x55, 4096); }
      if (fancy) { c05_fancy_rows(1, v2, w, max_v, is + 1, os); c05_fancy_rows(0, v2, w, max_v, ic + 1, oc); }
      else { c05_plain_rows(1, v2, w, max_v, is + 1, os); c05_plain_rows(0, v2, w, max_v, ic + 1, oc); }
      for (k = 0; k < 4; k++)      /* rows the C code does not write must stay untouched by the kernel too */
        bulk_cmp(&r, os[k], oc[k], k < nout ? (size_t)outw : 64, "kernel=h2v%d_%supsample max_v_samp_factor=%d width=%d output_row=%d (of %d written by the C code)",
                 v2 ? 2 : 1, fancy ? "fancy_" : "", max_v, w, k, nout);
    }
  } else if (!strcmp(what, "rowsdown")) { /* a = v2, c2 = seed : v_samp_factor 1..4 rows per call */
    int v2 = (int)a, vs, iwi; static const int iws[] = { 1, 2, 15, 16, 17, 31, 33, 63, 64, 65, 100, 130, 257 };
    rng_s = (uint64_t)c2;
    for (vs = 1; vs <= 4; vs++) for (iwi = 0; iwi < 13; iwi++) {
      int iw = iws[iwi], nin = v2 ? 2 * vs : vs, k, j; unsigned wib = ((iw + 1) / 2 + 7) / 8;
      u8 *is[8], *ic[8], *os[4], *oc[4];
      for (k = 0; k < nin; k++) { is[k] = RW(0, k); ic[k] = RW(1, k); for (j = 0; j < 4096; j++) is[k][j] = ic[k][j] = (u8)rnd(); }
      for (k = 0; k < 4; k++) { os[k] = RW(2, k); oc[k] = RW(3, k); memset(os[k], 0x55, 4096); memset(oc[k], 0x55, 4096); }
      c05_down_rows(1, v2, iw, wib, vs, is, os); c05_down_rows(0, v2, iw, wib, vs, ic, oc);
      for (k = 0; k < 4; k++)
        bulk_cmp(&r, os[k], oc[k], k < vs ? wib * 8 : 64, "kernel=h2v%d_downsample v_samp_factor=%d image_width=%d output_row=%d", v2 ? 2 : 1, vs, iw, k);
    }
  } else if (!strcmp(what, "rowscolour")) { /* a = cs, c2 = seed : num_rows 1..4 */
    int cs = (int)a, ps = cs_ps(cs), nr, wi; static const int ws[] = { 1, 7, 16, 17, 33, 64, 70 };
    rng_s = (uint64_t)c2;
    for (nr = 1; nr <= 4; nr++) for (wi = 0; wi < 7; wi++) {
      int w = ws[wi], k, j, g; u8 *in[4], *ys[4], *cbs[4], *crs[4], *yc[4], *cbc[4], *crc[4], *o1[4], *o2[4];
      for (k = 0; k < 4; k++) { in[k] = RW(0, k) + (k * 5 & 31); for (j = 0; j < w * ps; j++) in[k][j] = (u8)rnd();
        ys[k] = RW(1, k); cbs[k] = RW(2, k); crs[k] = RW(3, k); yc[k] = RW(4, k); cbc[k] = RW(5, k); crc[k] = RW(6, k); o1[k] = RW(7, k) + (k * 3 & 31); o2[k] = RW(8, k) + (k * 3 & 31); }
      for (g = 0; g < 2; g++) {
        for (k = 0; k < 4; k++) { memset(ys[k], 0x55, 512); memset(cbs[k], 0x55, 512); memset(crs[k], 0x55, 512); memset(yc[k], 0x55, 512); memset(cbc[k], 0x55, 512); memset(crc[k], 0x55, 512); }
        c05_rgb_ycc_rows(1, cs, in, ys, cbs, crs, w, nr, g); c05_rgb_ycc_rows(0, cs, in, yc, cbc, crc, w, nr, g);
        for (k = 0; k < 4; k++) { size_t n = k < nr ? (size_t)w : 64;
          bulk_cmp(&r, ys[k], yc[k], n, "kernel=rgb_%s cs=%d width=%d num_rows=%d row=%d plane=Y", g ? "gray" : "ycc", cs, w, nr, k);
          if (!g) { bulk_cmp(&r, cbs[k], cbc[k], n, "kernel=rgb_ycc cs=%d width=%d num_rows=%d row=%d plane=Cb", cs, w, nr, k);
                    bulk_cmp(&r, crs[k], crc[k], n, "kernel=rgb_ycc cs=%d width=%d num_rows=%d row=%d plane=Cr", cs, w, nr, k); } }
      }
      for (k = 0; k < 4; k++) { for (j = 0; j < w; j++) { ys[k][j] = (u8)rnd(); cbs[k][j] = (u8)rnd(); crs[k][j] = (u8)rnd(); } memset(o1[k], 0x55, 512); memset(o2[k], 0x55, 512); }
      c05_ycc_rgb_rows(1, cs, ys, cbs, crs, o1, w, nr); c05_ycc_rgb_rows(0, cs, ys, cbs, crs, o2, w, nr);
      if (ps == 4 && (cs == JCS_EXT_RGBX || cs == JCS_EXT_BGRX || cs == JCS_EXT_XBGR || cs == JCS_EXT_XRGB)) {
        int ro, go, bo; cs_offsets(cs, &ro, &go, &bo);
        for (k = 0; k < nr; k++) for (j = 0; j < w; j++) { int xo = 6 - ro - go - bo; o1[k][j * 4 + xo] = 0; o2[k][j * 4 + xo] = 0; }
      }
      for (k = 0; k < 4; k++) bulk_cmp(&r, o1[k], o2[k], k < nr ? (size_t)w * ps : 64, "kernel=ycc_rgb cs=%d width=%d num_rows=%d row=%d", cs, w, nr, k);
    }
  } else if (!strcmp(what, "phuff")) {    /* a = 0 AC-first / 1 AC-refine prepare, c2 = seed : all Ss, Se, Al 0..13 x block families */
    extern const int jpeg_natural_order[]; int it; short *blk = (short *)B[0];
    unsigned short *vs = (unsigned short *)B[1], *vc = (unsigned short *)B[2]; unsigned long long cs[4], cc[4];
    rng_s = (uint64_t)c2;
    for (it = 0; it < 30000; it++) {
      int k, Ss = 1 + (int)(rnd() % 63), Se = Ss + (int)(rnd() % (64 - Ss)), Sl = Se - Ss + 1, Al = (int)(rnd() % 14), fam = it % 5; size_t bs[4] = { 0, 0, 0, 0 }, bc[4] = { 0, 0, 0, 0 }; int es = 0, ec = 0;
      for (k = 0; k < 64; k++) {
        int v = fam == 0 ? (int)(rnd() % 2047) - 1023 : fam == 1 ? ((rnd() & 3) ? 0 : (int)(rnd() % 65535) - 32767) : fam == 2 ? (int)(rnd() % 5) - 2 :
                fam == 3 ? ((rnd() & 1) ? (1 << Al) : -(1 << Al)) + (int)(rnd() % 3) - 1 : (int)(rnd() % 65535) - 32767;
        blk[k] = (short)v;
      }
      memset(vs, 0, 512); memset(vc, 0, 512);
      if (a == 0) { c05_phuff_first(1, blk, jpeg_natural_order + Ss, Sl, Al, vs, bs); c05_phuff_first(0, blk, jpeg_natural_order + Ss, Sl, Al, vc, bc); }
      else { es = c05_phuff_refine(1, blk, jpeg_natural_order + Ss, Sl, Al, vs, bs); ec = c05_phuff_refine(0, blk, jpeg_natural_order + Ss, Sl, Al, vc, bc); }
      /* canonical view: only what the encoders read -- entries at set zerobits; sign bits under the zerobits mask */
      for (k = 0; k < 64; k++) {
        if (!((bs[0] >> k) & 1)) { vs[k] = 0; if (a == 0) vs[k + 64] = 0; }
        if (!((bc[0] >> k) & 1)) { vc[k] = 0; if (a == 0) vc[k + 64] = 0; }
      }
      cs[0] = bs[0]; cc[0] = bc[0]; cs[1] = a ? (bs[1] & bs[0]) : 0; cc[1] = a ? (bc[1] & bc[0]) : 0; cs[2] = es; cc[2] = ec; cs[3] = cc[3] = 0;
      bulk_cmp(&r, vs, vc, 256, "kernel=encode_mcu_AC_%s_prepare Ss=%d Se=%d Al=%d family=%d values (byte/2 = k)", a ? "refine" : "first", Ss, Se, Al, fam);
      bulk_cmp(&r, cs, cc, 32, "kernel=encode_mcu_AC_%s_prepare Ss=%d Se=%d Al=%d family=%d (bytes 0-7 zerobits, 8-15 signbits&zerobits, 16-23 EOB)", a ? "refine" : "first", Ss, Se, Al, fam);
    }
  } else if (!strcmp(what, "quant")) {    /* divisors a..b2, all coefficients -32767..32767 step c2 (1 = exhaustive) */
    long d; short *dt = (short *)B[0], *ws = (short *)B[1], *o1 = (short *)B[2], *o2 = (short *)B[3];
    long step = c2 > 0 ? c2 : 1;
    for (d = a; d <= b2; d++) {
      int ret = 1, k; long x;
      for (k = 0; k < 64; k++) ret &= c05_recip((unsigned)d, dt, k);
      if (!ret) { r.n++; continue; }     /* the library uses the C quantiser for this table */
      for (x = -32767; x <= 32767; x += 64 * step) {
        for (k = 0; k < 64; k++) { long v = x + k * step; ws[k] = (short)(v > 32767 ? 32767 : v); }
        c05_quant(1, o1, dt, ws); c05_quant(0, o2, dt, ws);
        bulk_cmp(&r, o1, o2, 128, "kernel=quantize divisor=%ld coefficients=%ld..(step %ld) (byte/2 = index)", d, x, step);
      }
    }
  } else if (!strcmp(what, "convsamp")) {
    int it; u8 *rows[8]; short *o1 = (short *)B[2], *o2 = (short *)B[3];
    rng_s = (uint64_t)c2;
    for (it = 0; it < 2000; it++) {
      int k, sc = (int)(rnd() % 64) * 8; for (k = 0; k < 8; k++) { int j; rows[k] = B[4] + k * 1024 + (rnd() & 31); for (j = 0; j < 600; j++) rows[k][j] = (it & 1) ? (u8)rnd() : (u8)(((j + k) & 1) * 255); }
      c05_convsamp(1, rows, sc, o1); c05_convsamp(0, rows, sc, o2);
      bulk_cmp(&r, o1, o2, 128, "kernel=convsamp start_col=%d iteration=%d", sc, it);
    }
  } else if (!strcmp(what, "fdct")) {     /* a: 0 islow 1 ifast ; sample-derived input (value-128, range -128..127) */
    int it; short *d1 = (short *)B[0], *d2 = (short *)B[1];
    rng_s = (uint64_t)c2;
    for (it = 0; it < 20000; it++) {
      int k, mode = it % 5;
      for (k = 0; k < 64; k++) {
        int v;
        switch (mode) { case 0: v = (int)(rnd() & 255) - 128; break; case 1: v = (rnd() & 1) ? 127 : -128; break;
          case 2: v = ((k + it) & 1) ? 127 : -128; break; case 3: v = ((k >> 3) + (k & 7) + it) % 256 - 128; break; default: v = (it & 64) ? 127 : -128; }
        d1[k] = d2[k] = (short)v;
      }
      if (mode == 0 && (it & 1)) for (k = 0; k < 64; k++) d1[k] = d2[k] = (short)((((k & 7) / 3 + (k >> 3) / 2 + it) & 1) ? 122 + (int)(rnd() % 6) : -128 + (int)(rnd() % 6));
      if (b2 == 1) for (k = 0; k < 64; k++) d1[k] = d2[k] = (short)(d1[k] / 8);     /* low amplitude: |sample - 128| <= 16 */
      if (b2 == 2) { short lv[8]; for (k = 0; k < 8; k++) lv[k] = (short)((it % 3 == 0) ? ((rnd() & 1) ? 127 : -128) : (int)(rnd() & 255) - 128);
        if (it % 5 == 0) for (k = 0; k < 8; k++) lv[k] = (short)(((k / 2 + it) & 1) ? 127 : -128);
        for (k = 0; k < 64; k++) d1[k] = d2[k] = lv[k >> 3]; }                       /* constant rows, any contrast */
      if (a == 0) { jsimd_fdct_islow(d1); jpeg_fdct_islow(d2); } else { jsimd_fdct_ifast(d1); jpeg_fdct_ifast(d2); }
      bulk_cmp(&r, d1, d2, 128, "kernel=fdct_%s amplitude=%s block=%d pattern=%d (byte/2 = coefficient index)", a ? "ifast" : "islow", b2 == 1 ? "low" : b2 == 2 ? "constant-rows" : "full", it, mode);
    }
  } else if (!strcmp(what, "idct")) {     /* a: 0 islow 1 ifast 2 4x4 3 2x2 ; b2: 0 = blocks a real encoder produces, 1 = arbitrary coefficients */
    static const short aanscales[64] = {
      16384, 22725, 21407, 19266, 16384, 12873,  8867,  4520, 22725, 31521, 29692, 26722, 22725, 17855, 12299,  6270,
      21407, 29692, 27969, 25172, 21407, 16819, 11585,  5906, 19266, 26722, 25172, 22654, 19266, 15137, 10426,  5315,
      16384, 22725, 21407, 19266, 16384, 12873,  8867,  4520, 12873, 17855, 16819, 15137, 12873, 10114,  6967,  3552,
       8867, 12299, 11585, 10426,  8867,  6967,  4799,  2446,  4520,  6270,  5906,  5315,  4520,  3552,  2446,  1247 };
    int it; short *coef = (short *)B[0]; short *qt = (short *)B[1]; short *ws = (short *)B[8]; jpeg_component_info comp; JSAMPROW o1[8], o2[8]; int k;
    memset(&comp, 0, sizeof(comp)); comp.dct_table = qt;
    for (k = 0; k < 8; k++) { o1[k] = B[2] + k * 64; o2[k] = B[3] + k * 64; }
    rng_s = (uint64_t)c2;
    for (it = 0; it < 20000; it++) {
      int mode = it % 6, qmax = (it % 7 == 0) ? 255 : (it % 7 == 1 ? 1 : 40);
      for (k = 0; k < 64; k++) {
        int v, qv = 1 + (int)(rnd() % qmax);
        switch (mode) { case 0: v = (int)(rnd() & 255) - 128; break; case 1: v = (rnd() & 1) ? 127 : -128; break;
          case 2: v = ((k + it) & 1) ? 127 : -128; break; case 3: v = ((k >> 3) * 9 + (k & 7) * 5 + it) % 256 - 128; break;
          case 4: v = (it & 64) ? 127 : -128; break; default: v = (((k >> 3) > 3) ^ ((k & 7) > (it & 7))) ? 120 + (int)(rnd() % 8) : -128 + (int)(rnd() % 8); }
        if (b2 == 2) { v /= 8; if (qv > 16) qv = 1 + qv % 16; }
        if (b2 == 3) { v = ((((k >> 3) / 2 + it) & 1) ? 127 - (int)(it % 7) : -128 + (int)(it % 5)); if (it & 1) v = (((k >> 3) * 37 + it * 11) % 256) - 128; }
        ws[k] = (short)v; coef[k] = (short)qv;      /* coef temporarily holds the quantisation value */
      }
      if (b2 != 1) {
        jpeg_fdct_islow(ws);                        /* output scaled by 8 */
        for (k = 0; k < 64; k++) { int qv = coef[k], d = qv * 8, t = ws[k]; int qd = t < 0 ? -((-t + d / 2) / d) : (t + d / 2) / d;
          qt[k] = (short)(a == 1 ? (short)(((long)qv * aanscales[k] + (1 << 11)) >> 12) : qv); coef[k] = (short)qd; }
      } else {
        for (k = 0; k < 64; k++) { int qv = coef[k]; qt[k] = (short)(a == 1 ? (short)(((long)qv * aanscales[k] + (1 << 11)) >> 12) : qv);
          coef[k] = (short)((int)(rnd() % 2047) - 1023); if (it % 3 == 0 && k > 5) coef[k] = 0; }
      }
      memset(B[2], 0x55, 512); memset(B[3], 0x55, 512);
      switch ((int)a) {
      case 0: jsimd_idct_islow(&idc, &comp, coef, o1, 0); jpeg_idct_islow(&idc, &comp, coef, o2, 0); break;
      case 1: jsimd_idct_ifast(&idc, &comp, coef, o1, 0); jpeg_idct_ifast(&idc, &comp, coef, o2, 0); break;
      case 2: jsimd_idct_4x4(&idc, &comp, coef, o1, 0); jpeg_idct_4x4(&idc, &comp, coef, o2, 0); break;
      default: jsimd_idct_2x2(&idc, &comp, coef, o1, 0); jpeg_idct_2x2(&idc, &comp, coef, o2, 0); break;
      }
      bulk_cmp(&r, B[2], B[3], 512, "kernel=idct_%s class=%ld block=%d pattern=%d qmax=%d (byte = row*64+col)",
               a == 0 ? "islow" : a == 1 ? "ifast" : a == 2 ? "4x4" : "2x2", b2, it, mode, qmax);
    }
  } else { puts("?"); return; }
  bulk_out(&r);
}

static void kernel_line(char *line)
{
  char *p = line; char cmd[16]; int n = 0, i, k;
  if (sscanf(p, "%15s%n", cmd, &n) != 1) { puts("?"); return; }
  p += n;
  if (!strcmp(cmd, "bulk")) { bulk(p); return; }
  if (!strcmp(cmd, "rgbycc") || !strcmp(cmd, "rgbgray") || !strcmp(cmd, "yccrgb")) {
    /* <cs> <off> <n> v v v ... (n triples) */
    int ok, cs = (int)nextnum(&p, &ok), off = (int)nextnum(&p, &ok), np = (int)nextnum(&p, &ok), ps = cs_ps(cs), ro, go, bo, s;
    static u8 tr[3 * MAXW];
    if (np > MAXW / 4) { puts("?"); return; }
    cs_offsets(cs, &ro, &go, &bo);
    readlist(&p, tr, 3 * np);
    for (s = 1; s >= 0; s--) {
      printf(s ? "S" : " | C");
      if (cmd[0] == 'r') {
        u8 *in = B[0] + off; memset(in, 0x5a, (size_t)np * ps);
        for (i = 0; i < np; i++) { in[i * ps + ro] = tr[3 * i]; in[i * ps + go] = tr[3 * i + 1]; in[i * ps + bo] = tr[3 * i + 2]; }
        if (cmd[3] == 'y') { c05_rgb_ycc(s, cs, in, B[4], B[5], B[6], np); for (i = 0; i < np; i++) printf(" %d %d %d", B[4][i], B[5][i], B[6][i]); }
        else { c05_rgb_gray(s, cs, in, B[4], np); pr_bytes(B[4], np); }
      } else {
        u8 *out = B[4] + off;
        for (i = 0; i < np; i++) { B[0][i] = tr[3 * i]; B[1][i] = tr[3 * i + 1]; B[2][i] = tr[3 * i + 2]; }
        c05_ycc_rgb(s, cs, B[0], B[1], B[2], out, np);
        for (i = 0; i < np; i++) printf(" %d %d %d", out[i * ps + ro], out[i * ps + go], out[i * ps + bo]);
      }
    }
    putchar('\n');
  } else if (!strcmp(cmd, "merged")) {
    /* <v2> <cs> <off> <w> y0.. | y1.. | cb.. | cr.. */
    int ok, v2 = (int)nextnum(&p, &ok), cs = (int)nextnum(&p, &ok), off = (int)nextnum(&p, &ok), w = (int)nextnum(&p, &ok), ps = cs_ps(cs), ro, go, bo, s;
    cs_offsets(cs, &ro, &go, &bo);
    if (w > MAXW / 4) { puts("?"); return; }
    while (*p == ' ') p++; if (*p == '|') p++;
    readlist(&p, B[0], MAXW); readlist(&p, B[1], MAXW); readlist(&p, B[2], MAXW); readlist(&p, B[3], MAXW);
    for (s = 1; s >= 0; s--) {
      u8 *o0 = B[4] + off, *o1 = (v2 == 2) ? o0 : B[5] + off;      /* v2 == 2: aliased output rows, as jpeg_skip_scanlines() passes them */
      printf(s ? "S" : " | C");
      c05_merged(s, v2 != 0, cs, B[0], B[1], B[2], B[3], o0, o1, w);
      for (i = 0; i < w; i++) printf(" %d %d %d", o0[i * ps + ro], o0[i * ps + go], o0[i * ps + bo]);
      if (v2 == 1) for (i = 0; i < w; i++) printf(" %d %d %d", o1[i * ps + ro], o1[i * ps + go], o1[i * ps + bo]);
    }
    putchar('\n');
  } else if (!strcmp(cmd, "down")) {
    /* <v2> <iw> <wib> : row0 bytes | row1 bytes   (each list is the whole row buffer) */
    int ok, v2 = (int)nextnum(&p, &ok), iw = (int)nextnum(&p, &ok), wib = (int)nextnum(&p, &ok), s, n0, n1;
    static u8 r0[MAXW], r1[MAXW];
    while (*p == ' ') p++; if (*p == '|') p++;
    n0 = readlist(&p, r0, MAXW); n1 = readlist(&p, r1, MAXW);
    for (s = 1; s >= 0; s--) {
      memset(B[0], 0, MAXW); memset(B[1], 0, MAXW); memcpy(B[0], r0, n0); memcpy(B[1], r1, n1);
      printf(s ? "S" : " | C");
      c05_down(s, v2, iw, wib, B[0], B[1], B[4]); pr_bytes(B[4], wib * 8);
    }
    putchar('\n');
  } else if (!strcmp(cmd, "fancy")) {
    /* <v2> <w> : above | cur | below   (whole row buffers, at least roundup(w,32) bytes) */
    int ok, v2 = (int)nextnum(&p, &ok), w = (int)nextnum(&p, &ok), s, n0, n1, n2;
    static u8 r0[MAXW], r1[MAXW], r2[MAXW];
    while (*p == ' ') p++; if (*p == '|') p++;
    n0 = readlist(&p, r0, MAXW); n1 = readlist(&p, r1, MAXW); n2 = readlist(&p, r2, MAXW);
    for (s = 1; s >= 0; s--) {
      memcpy(B[0], r0, n0); memcpy(B[1], r1, n1); memcpy(B[2], r2, n2);
      printf(s ? "S" : " | C");
      c05_fancy(s, v2, w, B[0], B[1], B[2], B[4], B[5]); pr_bytes(B[4], 2 * w); if (v2) pr_bytes(B[5], 2 * w);
    }
    putchar('\n');
  } else if (!strcmp(cmd, "quant")) {
    /* <d> x x x ... (up to 64 coefficients) */
    int ok, d = (int)nextnum(&p, &ok), s, ret = 1, nx = 0; short *dt = (short *)B[0], *ws = (short *)B[1], *o = (short *)B[2];
    memset(ws, 0, 128);
    for (;;) { long v = nextnum(&p, &ok); if (!ok) break; if (nx < 64) ws[nx++] = (short)v; }
    for (k = 0; k < 64; k++) ret &= c05_recip((unsigned)d, dt, k);
    for (s = 1; s >= 0; s--) {
      printf(s ? "S" : " | C");
      printf(" %d %d %d %d %d :", ret, (unsigned short)dt[0], (unsigned short)dt[64], (unsigned short)dt[128], dt[192]);
      c05_quant(s, o, dt, ws); for (i = 0; i < nx; i++) printf(" %d", o[i]);
    }
    putchar('\n');
  } else if (!strcmp(cmd, "plaing") || !strcmp(cmd, "fancyg") || !strcmp(cmd, "downg")) {
    /* plaing <v2> <outw> <max_v> | in rows...      fancyg <v2> <w> <max_v> | row -1 | rows.. | row n
       downg <v2> <iw> <wib> <vs> | in rows...   : prints every output row the C code writes, in order */
    int ok, v2 = (int)nextnum(&p, &ok), w = (int)nextnum(&p, &ok), a3 = (int)nextnum(&p, &ok), a4 = cmd[0] == 'd' ? (int)nextnum(&p, &ok) : 0;
    static u8 rr[8][MAXW]; int nr[8], nrows = 0, s; u8 *in[8], *out[4];
    while (*p == ' ') p++; if (*p == '|') p++;
    while (nrows < 8 && *p && *p != '\n') { nr[nrows] = readlist(&p, rr[nrows], MAXW); nrows++; while (*p == ' ') p++; }
    for (s = 1; s >= 0; s--) {
      int nout, outw;
      for (k = 0; k < 8; k++) { in[k] = RW(0, k); memset(in[k], 0, 4096); if (k < nrows) memcpy(in[k], rr[k], nr[k]); }
      for (k = 0; k < 4; k++) { out[k] = RW(2, k); memset(out[k], 0x55, 4096); }
      printf(s ? "S" : " | C");
      if (cmd[0] == 'p') { c05_plain_rows(s, v2, w, a3, in, out); nout = v2 ? 2 * ((a3 + 1) / 2) : a3; outw = w; }
      else if (cmd[0] == 'f') { c05_fancy_rows(s, v2, w, a3, in + 1, out); nout = v2 ? 2 * ((a3 + 1) / 2) : a3; outw = 2 * w; }
      else { c05_down_rows(s, v2, w, a3, a4, in, out); nout = a4; outw = a3 * 8; }
      for (k = 0; k < nout && k < 4; k++) pr_bytes(out[k], outw);
    }
    putchar('\n');
  } else if (!strcmp(cmd, "idctfst") || !strcmp(cmd, "idctint") || !strcmp(cmd, "fdctint") || !strcmp(cmd, "idct4x4") || !strcmp(cmd, "idct2x2")) {
    /* idctfst/idctint: 64 coefficients | 64 multipliers (dct_table entries)   fdctint: 64 level-shifted samples */
    int ok, s; short *cf = (short *)B[0], *qt = (short *)B[1]; static short in[64], qq[64]; jpeg_component_info comp; JSAMPROW o[8];
    for (i = 0; i < 64; i++) in[i] = (short)nextnum(&p, &ok);
    while (*p == ' ') p++; if (*p == '|') p++;
    for (i = 0; i < 64; i++) qq[i] = (short)nextnum(&p, &ok);
    memset(&comp, 0, sizeof(comp)); comp.dct_table = qt;
    for (s = 1; s >= 0; s--) {
      memcpy(cf, in, 128); memcpy(qt, qq, 128); memset(B[2], 0x55, 512);
      for (k = 0; k < 8; k++) o[k] = B[2] + k * 64;
      printf(s ? "S" : " | C");
      if (cmd[0] == 'f') { if (s) jsimd_fdct_islow(cf); else jpeg_fdct_islow(cf); for (i = 0; i < 64; i++) printf(" %d", cf[i]); }
      else {
        int n = 8;
        if (cmd[4] == 'f') { if (s) jsimd_idct_ifast(&idc, &comp, cf, o, 0); else jpeg_idct_ifast(&idc, &comp, cf, o, 0); }
        else if (cmd[4] == '4') { n = 4; if (s) jsimd_idct_4x4(&idc, &comp, cf, o, 0); else jpeg_idct_4x4(&idc, &comp, cf, o, 0); }
        else if (cmd[4] == '2') { n = 2; if (s) jsimd_idct_2x2(&idc, &comp, cf, o, 0); else jpeg_idct_2x2(&idc, &comp, cf, o, 0); }
        else { if (s) jsimd_idct_islow(&idc, &comp, cf, o, 0); else jpeg_idct_islow(&idc, &comp, cf, o, 0); }
        for (k = 0; k < n; k++) pr_bytes(o[k], n);
      }
    }
    putchar('\n');
  } else if (!strcmp(cmd, "huff")) {
    /* huff <seed> <ones> <last_dc> <put_buffer> <free_bits> b0 .. b63 : tables si(s) = 1 + (7 s + seed) mod 16,
       co(s) = ones ? 2^si - 1 : (2654435761 s + 97 seed) mod 2^32 mod 2^si */
    static unsigned dco[256], aco[256]; static unsigned char dsi[256], asi[256]; short *blk = (short *)B[0]; int ok, s;
    long seed = nextnum(&p, &ok), ones = nextnum(&p, &ok), last_dc = nextnum(&p, &ok); unsigned long long b0; int fb0; char *e;
    while (*p == ' ') p++; b0 = strtoull(p, &e, 10); p = e; fb0 = (int)nextnum(&p, &ok);
    for (i = 0; i < 64; i++) blk[i] = (short)nextnum(&p, &ok);
    for (i = 0; i < 256; i++) {
      unsigned si = 1 + (unsigned)((7L * i + seed) % 16), sj = 1 + (unsigned)((7L * i + seed + 5) % 16);
      unsigned long long c1 = (2654435761ULL * i + 97ULL * seed) & 0xFFFFFFFFULL, c2 = (2654435761ULL * i + 97ULL * (seed + 5)) & 0xFFFFFFFFULL;
      asi[i] = (unsigned char)si; aco[i] = ones ? (1u << si) - 1 : (unsigned)(c1 & ((1ULL << si) - 1));
      dsi[i] = (unsigned char)sj; dco[i] = ones ? (1u << sj) - 1 : (unsigned)(c2 & ((1ULL << sj) - 1));
    }
    for (s = 1; s >= 0; s--) {
      unsigned long long b = b0; int fb = fb0, n; memset(B[2], 0x55, 2048);
      n = c05_huff(s, blk, (int)last_dc, dco, dsi, aco, asi, &b, &fb, B[2]);
      printf(s ? "S" : " | C"); pr_bytes(B[2], n); printf(" ; %llu %d", b, fb);
    }
    putchar('\n');
  } else if (!strcmp(cmd, "rangelimit")) {
    JSAMPLE *rl = idc.sample_range_limit + CENTERJSAMPLE; int s;
    for (s = 1; s >= 0; s--) { printf(s ? "S" : " | C"); for (i = 0; i < 1024; i++) printf(" %d", rl[i]); }
    putchar('\n');
  } else if (!strcmp(cmd, "fdctfst")) {
    /* 64 level-shifted samples */
    int ok, s; short *d = (short *)B[0]; static short in[64];
    for (i = 0; i < 64; i++) in[i] = (short)nextnum(&p, &ok);
    for (s = 1; s >= 0; s--) {
      memcpy(d, in, 128);
      printf(s ? "S" : " | C");
      if (s) jsimd_fdct_ifast(d); else jpeg_fdct_ifast(d);
      for (i = 0; i < 64; i++) printf(" %d", d[i]);
    }
    putchar('\n');
  } else puts("?");
}

int main(int argc, char **argv)
{
  static char line[1 << 20];
  setvbuf(stdout, NULL, _IOLBF, 0);
  if (argc < 2) return 2;
  if (!strcmp(argv[1], "codec")) {
    while (fgets(line, sizeof(line), stdin)) { if (line[0] == 'p') patched_line(line); else if (line[0] == 'j') libjpeg_line(line); else if (line[0] == 's') history_line(line); else codec_line(line); }
    return 0;
  }
  if (!strcmp(argv[1], "kernel")) {
    unsigned long len; unsigned char *jpg = c05_tiny_jpeg(&len);
    rows_init(); c05_ccolor_init(); c05_dcolor_init(); c05_dmerge_init();
    idc.err = jpeg_std_error(&iderr); jpeg_create_decompress(&idc); jpeg_mem_src(&idc, jpg, len);
    jpeg_read_header(&idc, TRUE); jpeg_start_decompress(&idc);
    /* initialise the thread-local simd_support from the environment and report it */
    printf("simd rgb_ycc=%d ycc_rgb=%d h2v1_down=%d fancy=%d merged=%d quant=%d idct=%d\n", jsimd_can_rgb_ycc(), jsimd_can_ycc_rgb(),
           jsimd_can_h2v1_downsample(), jsimd_can_h2v1_fancy_upsample(), jsimd_can_h2v1_merged_upsample(), c05_can("q"), jsimd_can_idct_islow());
    while (fgets(line, sizeof(line), stdin)) kernel_line(line);
    return 0;
  }
  return 2;
}
