/* C05: C colour conversion of src/jccolor.c (static) vs the jsimd dispatcher */
#define jinit_color_converter c05_unused_jinit_color_converter
#include "jccolor.c"
#include "c05_k.h"
static struct jpeg_compress_struct cc;
static struct jpeg_error_mgr cerr;
void c05_ccolor_init(void)
{
  cc.err = jpeg_std_error(&cerr);
  jpeg_create_compress(&cc);
  cc.cconvert = (struct jpeg_color_converter *)
    (*cc.mem->alloc_small) ((j_common_ptr)&cc, JPOOL_PERMANENT, sizeof(my_color_converter));
  rgb_ycc_start(&cc);          /* builds rgb_ycc_tab exactly as the library does */
}
void c05_rgb_ycc(int simd, int cs, const u8 *rgb, u8 *y, u8 *cb, u8 *cr, unsigned width)
{
  JSAMPROW in[1]; JSAMPROW p0[1], p1[1], p2[1]; JSAMPARRAY planes[3];
  in[0] = (JSAMPROW)rgb; p0[0] = y; p1[0] = cb; p2[0] = cr;
  planes[0] = p0; planes[1] = p1; planes[2] = p2;
  cc.image_width = width; cc.in_color_space = (J_COLOR_SPACE)cs;
  if (simd) jsimd_rgb_ycc_convert(&cc, in, planes, 0, 1);
  else rgb_ycc_convert(&cc, in, planes, 0, 1);
}
void c05_rgb_gray(int simd, int cs, const u8 *rgb, u8 *y, unsigned width)
{
  JSAMPROW in[1]; JSAMPROW p0[1]; JSAMPARRAY planes[1];
  in[0] = (JSAMPROW)rgb; p0[0] = y; planes[0] = p0;
  cc.image_width = width; cc.in_color_space = (J_COLOR_SPACE)cs;
  if (simd) jsimd_rgb_gray_convert(&cc, in, planes, 0, 1);
  else rgb_gray_convert(&cc, in, planes, 0, 1);
}

void c05_rgb_ycc_rows(int simd, int cs, u8 **rgb, u8 **y, u8 **cb, u8 **cr, unsigned width, int nrows, int gray)
{
  JSAMPARRAY planes[3]; planes[0] = y; planes[1] = cb; planes[2] = cr;
  cc.image_width = width; cc.in_color_space = (J_COLOR_SPACE)cs;
  if (gray) { if (simd) jsimd_rgb_gray_convert(&cc, rgb, planes, 0, nrows); else rgb_gray_convert(&cc, rgb, planes, 0, nrows); }
  else      { if (simd) jsimd_rgb_ycc_convert(&cc, rgb, planes, 0, nrows); else rgb_ycc_convert(&cc, rgb, planes, 0, nrows); }
}
