/* C05: quantisation of src/jcdctmgr.c (static) vs the jsimd dispatcher */
#define jinit_forward_dct c05_unused_jinit_forward_dct
#include "jcdctmgr.c"
#include "c05_k.h"
int c05_recip(unsigned divisor, short *dtbl256, int pos)
{
  return compute_reciprocal((UINT16)divisor, dtbl256 + pos);
}
void c05_quant(int simd, short *coef, short *divisors, short *workspace)
{
  if (simd) jsimd_quantize(coef, divisors, workspace); else quantize(coef, divisors, workspace);
}
void c05_convsamp(int simd, u8 **rows, unsigned start_col, short *workspace)
{
  if (simd) jsimd_convsamp(rows, start_col, workspace); else convsamp(rows, start_col, workspace);
}
int c05_can(const char *what)
{
  switch (what[0]) {
  case 'q': return jsimd_can_quantize();
  case 'c': return jsimd_can_convsamp();
  case 'f': return jsimd_can_fdct_islow();
  default: return -1;
  }
}
