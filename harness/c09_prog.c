/* C09 unit harness: calls the REAL static decode_mcu_DC_first / decode_mcu_AC_first / decode_mcu_DC_refine of
 * jdphuff.c on fabricated states and bit streams through a suspending source.
 *   q <kind> <Ss> <Se> <Al> <eobrun> <nmcu> <blocks per MCU> | b1 .. b16 | v0 v1 .. | <initial DC values (kind 3)> | <hex> | s1 s2 ..
 *   kind 1 = DC first (one block per component, all on table 0), 2 = AC first (one block per MCU), 3 = DC refine
 * prints (same line as ml/C09_driver.ml `q`):
 *   Q done=<MCUs completed> eob=<EOBRUN> bl=<bits_left> gb=<get_buffer hex> um=<unread_marker> consumed=<n> last=<last_dc_val..> |
 *     <values written: kind 1/3: block[0] of every block; kind 2: the 64 coefficients (zigzag) of every block>
 */
#include <stdio.h>
#include <stdlib.h>
#include <string.h>
#include <setjmp.h>
#include <stdint.h>
#include "jdphuff.c"

static jmp_buf jb;
static long nwarn;
static void my_exit(j_common_ptr c) { (void)c; longjmp(jb, 1); }
static void my_emit(j_common_ptr c, int lvl) { (void)c; if (lvl < 0) nwarn++; }
static void my_output(j_common_ptr c) { (void)c; }

typedef struct { struct jpeg_source_mgr pub; } ssrc;
static void s_init(j_decompress_ptr c) { (void)c; }
static boolean s_fill(j_decompress_ptr c) { (void)c; return FALSE; }
static void s_skip(j_decompress_ptr c, long n) { (void)c; (void)n; }
static void s_term(j_decompress_ptr c) { (void)c; }

static int hexval(int ch) { return ch <= '9' ? ch - '0' : (ch | 32) - 'a' + 10; }

int main(void)
{
  size_t cap = 1 << 20; char *line = (char *)malloc(cap);
  setvbuf(stdout, NULL, _IOLBF, 0);
  while (fgets(line, (int)cap, stdin)) {
    struct jpeg_decompress_struct c; struct jpeg_error_mgr e; ssrc src; phuff_entropy_ptr ent;
    int kind, Ss, Se, Al, nm, bpm, i, k, off = 0, done = 0; long eob; char *p; JHUFF_TBL *ht;
    static JBLOCK blocks[256]; JBLOCKROW mcu[10]; static jpeg_component_info comps[10];
    static unsigned char data[1 << 16], work[1 << 16]; size_t total = 0, delivered = 0; long sizes[4096]; int ns = 0, nx = 0;
    if (sscanf(line, "q %d %d %d %d %ld %d %d |%n", &kind, &Ss, &Se, &Al, &eob, &nm, &bpm, &off) < 7 || nm * bpm > 256 || bpm > 4) { printf("?\n"); continue; }
    c.err = jpeg_std_error(&e); e.error_exit = my_exit; e.emit_message = my_emit; e.output_message = my_output; nwarn = 0;
    if (setjmp(jb)) { printf("Q err %d\n", e.msg_code); jpeg_destroy_decompress(&c); continue; }
    jpeg_create_decompress(&c);
    p = line + off;
    ht = jpeg_alloc_huff_table((j_common_ptr)&c);
    memset(ht->bits, 0, sizeof(ht->bits)); memset(ht->huffval, 0, sizeof(ht->huffval));
    for (i = 1; i <= 16; i++) { ht->bits[i] = (UINT8)strtol(p, &p, 10); }
    while (*p == ' ') p++; if (*p == '|') p++;
    for (i = 0; i < 256; i++) { char *q; long v = strtol(p, &q, 10); if (q == p) break; ht->huffval[i] = (UINT8)v; p = q; }
    while (*p == ' ') p++; if (*p == '|') p++;
    memset(blocks, 0, sizeof(blocks));
    for (i = 0; i < nm * bpm; i++) { char *q; long v = strtol(p, &q, 10); if (q == p) break; blocks[i][0] = (JCOEF)v; p = q; }
    while (*p == ' ') p++; if (*p == '|') p++; while (*p == ' ') p++;
    while (p[0] && p[1] && p[0] != ' ' && p[0] != '|' && p[0] != '\n') { data[total++] = (unsigned char)(hexval(p[0]) * 16 + hexval(p[1])); p += 2; }
    while (*p == ' ') p++; if (*p == '|') p++;
    for (;;) { char *q; long v = strtol(p, &q, 10); if (q == p) break; sizes[ns++] = v; p = q; }
    c.ac_huff_tbl_ptrs[0] = ht; c.dc_huff_tbl_ptrs[0] = ht;
    src.pub.init_source = s_init; src.pub.fill_input_buffer = s_fill; src.pub.skip_input_data = s_skip;
    src.pub.resync_to_restart = jpeg_resync_to_restart; src.pub.term_source = s_term;
    src.pub.next_input_byte = work; src.pub.bytes_in_buffer = 0; c.src = &src.pub;
    ent = (phuff_entropy_ptr)(*c.mem->alloc_small)((j_common_ptr)&c, JPOOL_PERMANENT, sizeof(phuff_entropy_decoder));
    memset(ent, 0, sizeof(*ent));
    c.entropy = (struct jpeg_entropy_decoder *)ent;
    jpeg_make_d_derived_tbl(&c, kind == 1, 0, &ent->derived_tbls[0]);
    ent->ac_derived_tbl = ent->derived_tbls[0];
    ent->saved.EOBRUN = (unsigned int)eob; ent->pub.insufficient_data = FALSE;
    c.Ss = Ss; c.Se = Se; c.Ah = kind == 3 ? Al + 1 : 0; c.Al = Al; c.restart_interval = 0; c.unread_marker = 0;
    c.blocks_in_MCU = bpm; c.comps_in_scan = bpm;
    memset(comps, 0, sizeof(comps));
    for (i = 0; i < bpm; i++) { c.MCU_membership[i] = i; c.cur_comp_info[i] = &comps[i]; comps[i].dc_tbl_no = 0; comps[i].ac_tbl_no = 0; }
    for (;;) {
      boolean ok;
      if (done >= nm) break;
      for (i = 0; i < bpm; i++) mcu[i] = &blocks[done * bpm + i];
      ok = kind == 1 ? decode_mcu_DC_first(&c, mcu) : kind == 2 ? decode_mcu_AC_first(&c, mcu) : decode_mcu_DC_refine(&c, mcu);
      if (ok) { done++; continue; }
      {
        size_t keep = src.pub.bytes_in_buffer, want;
        if (delivered >= total && nx >= ns) break;
        if (keep && src.pub.next_input_byte != work) memmove(work, src.pub.next_input_byte, keep);
        want = nx < ns ? (size_t)sizes[nx++] : total;
        if (want > total - delivered) want = total - delivered;
        memcpy(work + keep, data + delivered, want); delivered += want;
        src.pub.next_input_byte = work; src.pub.bytes_in_buffer = keep + want;
      }
    }
    printf("Q done=%d eob=%u bl=%d gb=%llx um=%d consumed=%lu last=", done, ent->saved.EOBRUN, ent->bitstate.bits_left,
           (unsigned long long)ent->bitstate.get_buffer, c.unread_marker, (unsigned long)(delivered - src.pub.bytes_in_buffer));
    for (i = 0; i < bpm; i++) printf("%s%d", i ? "," : "", ent->saved.last_dc_val[i]);
    printf(" |");
    if (kind == 2) { for (i = 0; i < done; i++) for (k = 0; k < 64; k++) printf(" %d", blocks[i][jpeg_natural_order[k]]); }
    else for (i = 0; i < (kind == 3 ? nm : done) * bpm; i++) printf(" %d", blocks[i][0]);
    printf("\n");
    jpeg_destroy_decompress(&c);
  }
  free(line);
  return 0;
}
