/* included by harness/c19.c: real-codec families
 *   tn <seed> <mode> <optimize> : table-number selection.  Random coefficient planes (mode 0 sequential,
 *        1 progressive) written with jpeg_write_coefficients, or random samples (mode 2 lossless); every
 *        component draws dc_tbl_no / ac_tbl_no independently from 0..3; optimize=0 installs a DISTINCT
 *        valid table in every slot (standard bits, huffval permuted per slot), optimize=1 lets the
 *        statistics passes generate them.  Read back with jpeg_read_coefficients / jpeg_read_scanlines:
 *        must be exact, no warnings.
 *   tw <seed> <mode> : twin scans.  Two components share an AC slot (and, mode 1, successive sequential
 *        scans); their histograms are identical except for ONE rare symbol that sorts after >= 17 other
 *        symbols.  Optimized tables, progressive (mode 0) or sequential multi-scan (mode 1).  Exact round
 *        trip required; the stream and the written coefficients are printed for the stream-level oracle.
 * Public API only. */
static unsigned tn_rs;
static unsigned tn_rnd(void) { tn_rs = tn_rs * 1103515245u + 12345u; return (tn_rs >> 16) & 0x7FFF; }
static const int tn_zz[64] = {
   0,  1,  8, 16,  9,  2,  3, 10, 17, 24, 32, 25, 18, 11,  4,  5,
  12, 19, 26, 33, 40, 48, 41, 34, 27, 20, 13,  6,  7, 14, 21, 28,
  35, 42, 49, 56, 57, 50, 43, 36, 29, 22, 15, 23, 30, 37, 44, 51,
  58, 59, 52, 45, 38, 31, 39, 46, 53, 60, 61, 54, 47, 55, 62, 63 };
#define TN_MAXB 64
static JCOEF tn_want[4][TN_MAXB][64];   /* natural order */
static JCOEF tn_got[4][TN_MAXB][64];
static const UINT8 tn_dc_bits[17] = { 0, 0, 1, 5, 1, 1, 1, 1, 1, 1, 0, 0, 0, 0, 0, 0, 0 };
static const UINT8 tn_ac_bits[17] = { 0, 0, 2, 1, 3, 3, 2, 4, 3, 5, 5, 4, 4, 0, 0, 1, 0x7d };

static void tn_install_tables(j_compress_ptr c)
{
  int s, i, j, n;
  for (s = 0; s < NUM_HUFF_TBLS; s++) {
    JHUFF_TBL *t;
    UINT8 ac[162]; UINT8 dcv[12];
    /* all 8-bit AC symbols: 0x00, 0xF0, RRRRSSSS with SSSS 1..10 */
    n = 0; ac[n++] = 0; ac[n++] = 0xF0;
    for (i = 0; i < 16; i++) for (j = 1; j <= 10; j++) ac[n++] = (UINT8)((i << 4) + j);
    for (i = n - 1; i > 0; i--) { UINT8 x; j = tn_rnd() % (i + 1); x = ac[i]; ac[i] = ac[j]; ac[j] = x; }
    for (i = 0; i < 12; i++) dcv[i] = (UINT8)i;
    for (i = 11; i > 0; i--) { UINT8 x; j = tn_rnd() % (i + 1); x = dcv[i]; dcv[i] = dcv[j]; dcv[j] = x; }
    if (!c->dc_huff_tbl_ptrs[s]) c->dc_huff_tbl_ptrs[s] = jpeg_alloc_huff_table((j_common_ptr)c);
    t = c->dc_huff_tbl_ptrs[s]; memcpy(t->bits, tn_dc_bits, 17); memset(t->huffval, 0, 256); memcpy(t->huffval, dcv, 12); t->sent_table = FALSE;
    if (!c->ac_huff_tbl_ptrs[s]) c->ac_huff_tbl_ptrs[s] = jpeg_alloc_huff_table((j_common_ptr)c);
    t = c->ac_huff_tbl_ptrs[s]; memcpy(t->bits, tn_ac_bits, 17); memset(t->huffval, 0, 256); memcpy(t->huffval, ac, 162); t->sent_table = FALSE;
  }
}

/* write tn_want (nc comps, wb x hb blocks each); nscans = 0: default single scan */
static int tn_write_coefs(int nc, int wb, int hb, const int *dctn, const int *actn, int optimize,
                          jpeg_scan_info *scans, int nscans, unsigned char **out, unsigned long *n)
{
  struct jpeg_compress_struct c; struct jpeg_error_mgr e; jvirt_barray_ptr carr[4]; int ci, by, bx;
  c.err = jpeg_std_error(&e); e.error_exit = my_exit; e.emit_message = my_emit;
  if (setjmp(jb)) { jpeg_destroy_compress(&c); return -1; }
  jpeg_create_compress(&c); jpeg_mem_dest(&c, out, n);
  c.image_width = wb * 8; c.image_height = hb * 8; c.input_components = nc;
  c.in_color_space = nc == 1 ? JCS_GRAYSCALE : nc == 3 ? JCS_YCbCr : JCS_CMYK;
  jpeg_set_defaults(&c);
  for (ci = 0; ci < nc; ci++) {
    c.comp_info[ci].h_samp_factor = c.comp_info[ci].v_samp_factor = 1;
    c.comp_info[ci].dc_tbl_no = dctn[ci]; c.comp_info[ci].ac_tbl_no = actn[ci];
  }
  c.optimize_coding = optimize ? TRUE : FALSE;
  if (!optimize) tn_install_tables(&c);
  if (nscans) { c.scan_info = scans; c.num_scans = nscans; }
  for (ci = 0; ci < nc; ci++)
    carr[ci] = (*c.mem->request_virt_barray) ((j_common_ptr)&c, JPOOL_IMAGE, TRUE, wb, hb, 1);
  jpeg_write_coefficients(&c, carr);
  for (ci = 0; ci < nc; ci++)
    for (by = 0; by < hb; by++) {
      JBLOCKARRAY ba = (*c.mem->access_virt_barray) ((j_common_ptr)&c, carr[ci], by, 1, TRUE);
      for (bx = 0; bx < wb; bx++) memcpy(ba[0][bx], tn_want[ci][by * wb + bx], sizeof(JBLOCK));
    }
  jpeg_finish_compress(&c); jpeg_destroy_compress(&c);
  return 0;
}

static int tn_read_coefs(unsigned char *jpg, unsigned long n, int nc, int wb, int hb, int *warn)
{
  struct jpeg_decompress_struct d; struct jpeg_error_mgr e; jvirt_barray_ptr *coefs; int ci, by, bx;
  d.err = jpeg_std_error(&e); e.error_exit = my_exit; e.emit_message = my_emit;
  if (setjmp(jb)) { jpeg_destroy_decompress(&d); return -1; }
  jpeg_create_decompress(&d); jpeg_mem_src(&d, jpg, n); jpeg_read_header(&d, TRUE);
  coefs = jpeg_read_coefficients(&d);
  if (d.num_components != nc) { jpeg_destroy_decompress(&d); return -2; }
  for (ci = 0; ci < nc; ci++)
    for (by = 0; by < hb; by++) {
      JBLOCKARRAY ba = (*d.mem->access_virt_barray) ((j_common_ptr)&d, coefs[ci], by, 1, FALSE);
      for (bx = 0; bx < wb; bx++) memcpy(tn_got[ci][by * wb + bx], ba[0][bx], sizeof(JBLOCK));
    }
  *warn = (int)d.err->num_warnings;
  jpeg_finish_decompress(&d); jpeg_destroy_decompress(&d);
  return 0;
}

static void tn_compare(int nc, int nb, int rc, int warn)
{
  int ci, b, k, bad = 0, fc = 0, fb = 0, fk = 0;
  if (rc) { printf("decode-error %d", rc == -1 ? last_err : rc); return; }
  for (ci = 0; ci < nc; ci++) for (b = 0; b < nb; b++) for (k = 0; k < 64; k++)
    if (tn_got[ci][b][tn_zz[k]] != tn_want[ci][b][tn_zz[k]]) { if (!bad) { fc = ci; fb = b; fk = k; } bad++; }
  if (!bad && !warn) printf("same warn=0");
  else if (!bad) printf("DIFF warn=%d (coefficients equal)", warn);
  else printf("DIFF %d coefficients differ, first: comp %d block %d zigzag %d wrote %d read %d warn=%d", bad, fc, fb, fk,
              tn_want[fc][fb][tn_zz[fk]], tn_got[fc][fb][tn_zz[fk]], warn);
}

static void tn_random_planes(int nc, int nb)
{
  int ci, b, k, m;
  memset(tn_want, 0, sizeof(tn_want));
  for (ci = 0; ci < nc; ci++) for (b = 0; b < nb; b++) {
    JCOEF *blk = tn_want[ci][b];
    blk[0] = (JCOEF)((int)(tn_rnd() % 1001) - 500);
    m = tn_rnd() % 4 == 0 ? 0 : tn_rnd() % 12;
    for (k = 0; k < m; k++) {
      int pos = 1 + tn_rnd() % 63, mag = 1 + (tn_rnd() % (1 << (1 + tn_rnd() % 9)));
      if (mag > 1023) mag = 1023;
      blk[tn_zz[pos]] = (JCOEF)((tn_rnd() & 1) ? mag : -mag);
    }
  }
}

static void tn_lossless(int nc, int wb, int hb, const int *dctn, int optimize)
{
  struct jpeg_compress_struct c; struct jpeg_decompress_struct d; struct jpeg_error_mgr e;
  int w = wb * 5 + 3, h = hb * 3 + 2, y, i, bad = 0, warn; unsigned char *jpg = NULL; unsigned long n = 0;
  static unsigned char img[64 * 64 * 4], back[64 * 64 * 4]; JSAMPROW rp; int ci;
  J_COLOR_SPACE cs = nc == 1 ? JCS_GRAYSCALE : nc == 3 ? JCS_RGB : JCS_CMYK;
  for (i = 0; i < w * h * nc; i++) img[i] = (unsigned char)((tn_rnd() % 5 == 0) ? tn_rnd() : 100 + tn_rnd() % 9);
  memset(back, 0, sizeof(back));
  c.err = jpeg_std_error(&e); e.error_exit = my_exit; e.emit_message = my_emit;
  if (setjmp(jb)) { jpeg_destroy_compress(&c); printf("encode-error %d\n", last_err); free(jpg); return; }
  jpeg_create_compress(&c); jpeg_mem_dest(&c, &jpg, &n);
  c.image_width = w; c.image_height = h; c.input_components = nc; c.in_color_space = cs;
  jpeg_set_defaults(&c); jpeg_set_colorspace(&c, cs);
  jpeg_enable_lossless(&c, 1 + tn_rnd() % 7, 0);
  for (ci = 0; ci < nc; ci++) c.comp_info[ci].dc_tbl_no = dctn[ci];
  c.optimize_coding = optimize ? TRUE : FALSE;
  if (!optimize) tn_install_tables(&c);
  jpeg_start_compress(&c, TRUE);
  for (y = 0; y < h; y++) { rp = img + (size_t)y * w * nc; jpeg_write_scanlines(&c, &rp, 1); }
  jpeg_finish_compress(&c); jpeg_destroy_compress(&c);
  d.err = jpeg_std_error(&e); e.error_exit = my_exit; e.emit_message = my_emit;
  if (setjmp(jb)) { jpeg_destroy_decompress(&d); printf("decode-error %d\n", last_err); free(jpg); return; }
  jpeg_create_decompress(&d); jpeg_mem_src(&d, jpg, n); jpeg_read_header(&d, TRUE);
  d.out_color_space = d.jpeg_color_space;
  jpeg_start_decompress(&d);
  while (d.output_scanline < d.output_height) { rp = back + (size_t)d.output_scanline * w * nc; jpeg_read_scanlines(&d, &rp, 1); }
  warn = (int)d.err->num_warnings;
  jpeg_finish_decompress(&d); jpeg_destroy_decompress(&d);
  for (i = 0; i < w * h * nc; i++) if (img[i] != back[i]) bad++;
  if (!bad && !warn) printf("same warn=0\n"); else printf("DIFF %d samples differ warn=%d\n", bad, warn);
  free(jpg);
}

static void tn_line(unsigned seed, int mode, int optimize)
{
  int nc, wb, hb, ci, dctn[4], actn[4], warn = 0, rc; unsigned char *jpg = NULL; unsigned long n = 0;
  static jpeg_scan_info si[16]; int ns = 0;
  tn_rs = seed * 2654435761u + 17;
  nc = (tn_rnd() % 3 == 0) ? 4 : (tn_rnd() % 4 == 0 ? 1 : 3);
  wb = 1 + tn_rnd() % 4; hb = 1 + tn_rnd() % 4;
  for (ci = 0; ci < nc; ci++) { dctn[ci] = tn_rnd() % 4; actn[ci] = tn_rnd() % 4; }
  if (tn_rnd() % 3 == 0) for (ci = 0; ci < nc; ci++) actn[ci] = (dctn[ci] + 1 + tn_rnd() % 3) % 4;   /* dc != ac everywhere */
  printf("tn nc=%d tbl=", nc); for (ci = 0; ci < nc; ci++) printf("%d/%d%s", dctn[ci], actn[ci], ci + 1 < nc ? "," : " ");
  if (mode == 2) { tn_lossless(nc, wb, hb, dctn, optimize); return; }
  tn_random_planes(nc, wb * hb);
  memset(si, 0, sizeof(si));
  if (mode == 1) {                       /* progressive: DC (interleaved or per component), AC bands per component */
    int split = 1 + tn_rnd() % 63;
    if (tn_rnd() & 1) { si[ns].comps_in_scan = nc; for (ci = 0; ci < nc; ci++) si[ns].component_index[ci] = ci; ns++; }
    else for (ci = 0; ci < nc; ci++) { si[ns].comps_in_scan = 1; si[ns].component_index[0] = ci; ns++; }
    for (ci = 0; ci < nc; ci++) {
      si[ns].comps_in_scan = 1; si[ns].component_index[0] = ci; si[ns].Ss = 1; si[ns].Se = split; ns++;
      if (split < 63) { si[ns].comps_in_scan = 1; si[ns].component_index[0] = ci; si[ns].Ss = split + 1; si[ns].Se = 63; ns++; }
    }
  } else if (tn_rnd() & 1) {              /* sequential, one scan per component */
    for (ci = 0; ci < nc; ci++) { si[ns].comps_in_scan = 1; si[ns].component_index[0] = ci; si[ns].Ss = 0; si[ns].Se = 63; ns++; }
  }
  if (tn_write_coefs(nc, wb, hb, dctn, actn, optimize, si, ns, &jpg, &n)) { printf("encode-error %d\n", last_err); free(jpg); return; }
  rc = tn_read_coefs(jpg, n, nc, wb, hb, &warn);
  tn_compare(nc, wb * hb, rc, warn); printf("\n");
  free(jpg);
}

static void tw_line(unsigned seed, int mode)
{
  int wb, hb, nb, ci, b, t, K1, K2, dctn[3], actn[3], warn = 0, rc, rare, twinA, twinB, k;
  unsigned char *jpg = NULL; unsigned long n = 0, i; static jpeg_scan_info si[8]; int ns = 0;
  tn_rs = seed * 2246822519u + 3;
  wb = 4 + tn_rnd() % 5; hb = 4 + tn_rnd() % 4; nb = wb * hb; if (nb > TN_MAXB) { hb = TN_MAXB / wb; nb = wb * hb; }
  K1 = 13;                                /* symbols 0x01 .. 0xC1 */
  K2 = 3 + tn_rnd() % 9;                  /* symbols 0x02, 0x12, ..: K1 + K2 + EOB >= 17 frequent symbols */
  rare = 15 + tn_rnd() % 2;               /* twin A: extra coefficient at zigzag rare+1, twin B at zigzag rare */
  twinA = 1 + (tn_rnd() & 1); twinB = 3 - twinA;
  dctn[0] = tn_rnd() % 4; actn[0] = tn_rnd() % 4;
  dctn[1] = dctn[2] = tn_rnd() % 4; actn[1] = actn[2] = tn_rnd() % 4;       /* the twins share their slots */
  memset(tn_want, 0, sizeof(tn_want));
  for (b = 0; b < nb; b++) {
    tn_want[0][b][0] = (JCOEF)(b % 7 - 3);
    if (tn_rnd() & 1) tn_want[0][b][tn_zz[1 + tn_rnd() % 20]] = (JCOEF)(1 + tn_rnd() % 30);
    for (ci = 1; ci <= 2; ci++) {
      JCOEF *blk = tn_want[ci][b];
      blk[0] = (JCOEF)((b * 5) % 11 - 5);
      t = b % (K1 + K2);
      if (t < K1) blk[tn_zz[1 + t]] = (JCOEF)((b & 16) ? -1 : 1);
      else blk[tn_zz[1 + (t - K1)]] = (JCOEF)((b & 16) ? -2 : 3);
    }
  }
  tn_want[twinA][0][tn_zz[rare + 1]] = 1;   /* block 0 has its frequent coefficient at zigzag 1 */
  tn_want[twinB][0][tn_zz[rare]] = 1;
  memset(si, 0, sizeof(si));
  if (mode == 0) {
    si[ns].comps_in_scan = 3; si[ns].component_index[0] = 0; si[ns].component_index[1] = 1; si[ns].component_index[2] = 2; ns++;
    for (ci = 0; ci < 3; ci++) { si[ns].comps_in_scan = 1; si[ns].component_index[0] = ci; si[ns].Ss = 1; si[ns].Se = 63; ns++; }
  } else {
    for (ci = 0; ci < 3; ci++) { si[ns].comps_in_scan = 1; si[ns].component_index[0] = ci; si[ns].Ss = 0; si[ns].Se = 63; ns++; }
  }
  printf("tw tbl=%d/%d,%d/%d,%d/%d ", dctn[0], actn[0], dctn[1], actn[1], dctn[2], actn[2]);
  if (tn_write_coefs(3, wb, hb, dctn, actn, 1, si, ns, &jpg, &n)) { printf("encode-error %d\n", last_err); free(jpg); return; }
  rc = tn_read_coefs(jpg, n, 3, wb, hb, &warn);
  tn_compare(3, nb, rc, warn);
  printf(" ; wb %d hb %d ; jpg ", wb, hb);
  for (i = 0; i < n; i++) printf("%02x", jpg[i]);
  printf(" ; coef");
  for (ci = 0; ci < 3; ci++) for (b = 0; b < nb; b++) for (k = 0; k < 64; k++)
    if (tn_want[ci][b][tn_zz[k]]) printf(" %d:%d:%d:%d", ci, b, k, tn_want[ci][b][tn_zz[k]]);
  printf("\n");
  free(jpg);
}
