/* C11 harness: runs the REAL TurboJPEG entry points (and, in the "kern" stream, the SIMD
 * colour-conversion kernels themselves) of the working tree on caller buffers that are
 * placed flush against PROT_NONE guard pages, with canaries in the slack, and reports
 * for every caller buffer its size and the exact set of bytes the call modified
 * (union of "differs from the pre-fill" over two different pre-fill values).
 *
 * One case per input line, one result line per case:
 *   ok [ow=.. oh=..] b<id>=<size>:<ivs|-|r> ... ; canary=ok|bad:.. det=same|diff
 *   err crop | err tj:<message>
 *   segv buf=<id> off=<offset relative to the buffer start> pass=<n>
 * The part before " ; " is what the extracted model prints too. */
#define _GNU_SOURCE
#include <stdio.h>
#include <stdlib.h>
#include <string.h>
#include <stdint.h>
#include <signal.h>
#include <setjmp.h>
#include <unistd.h>
#include <sys/mman.h>
#include <sys/time.h>
#include <malloc.h>
#include <turbojpeg.h>
#include "jconfig.h"
#include <jpeglib.h>
#include <jerror.h>

#define PG 4096
#define CANARY 0xC3
static const unsigned char FILL[2] = { 0x5A, 0xA5 };

/* Heap blocks handed to the library get a fixed byte pattern (malloc interposed on top of
   glibc's __libc_malloc): tj3DecompressToYUVPlanes8 copies rows of a not fully written
   temporary buffer into the padding rows of the planes at small scaling factors (see
   design/C11.md); with a deterministic heap that is the same in both passes, so that
   "det" reports dependence on CALLER memory only. */
#ifndef __SANITIZE_ADDRESS__
extern void *__libc_malloc(size_t);
extern void *__libc_realloc(void *, size_t);
void *malloc(size_t n)
{
  void *p = __libc_malloc(n);
  if (p) memset(p, 0xA0, n);
  return p;
}
void *realloc(void *p, size_t n)
{
  size_t old = p ? malloc_usable_size(p) : 0;
  void *q = __libc_realloc(p, n);
  if (q && n > old) memset((char *)q + old, 0xA0, n - old);
  return q;
}
#endif

/* ------------------------------------------------------------ guarded buffers */
typedef struct {
  uint8_t *map; size_t maplen;
  uint8_t *data; size_t datalen;     /* accessible pages between the two guard pages */
  uint8_t *buf; size_t size;         /* the caller buffer */
} gbuf;

#define MAXG 24
static gbuf *active[MAXG];
static int nactive;

static int galloc(gbuf *g, size_t size, int side)
{
  size_t np = (size + PG - 1) / PG;
  if (np == 0) np = 1;
  g->maplen = (np + 2) * PG;
  g->map = mmap(NULL, g->maplen, PROT_READ | PROT_WRITE, MAP_PRIVATE | MAP_ANONYMOUS, -1, 0);
  if (g->map == MAP_FAILED) { g->map = NULL; return -1; }
  mprotect(g->map, PG, PROT_NONE);
  mprotect(g->map + (np + 1) * PG, PG, PROT_NONE);
  g->data = g->map + PG; g->datalen = np * PG;
  g->size = size;
  g->buf = side ? g->data + g->datalen - size : g->data;
  if (nactive < MAXG) active[nactive++] = g;
  return 0;
}
static void gfree_all(void)
{
  for (int i = 0; i < nactive; i++)
    if (active[i]->map) { munmap(active[i]->map, active[i]->maplen); active[i]->map = NULL; }
  nactive = 0;
}
static void grw(gbuf *g) { mprotect(g->data, g->datalen, PROT_READ | PROT_WRITE); }
static void gro(gbuf *g) { mprotect(g->data, g->datalen, PROT_READ); }
static void gslack_fill(gbuf *g)
{
  memset(g->data, CANARY, g->buf - g->data);
  memset(g->buf + g->size, CANARY, g->data + g->datalen - (g->buf + g->size));
}
/* returns 1 and *off (relative to buf) when a slack byte changed */
static int gslack_bad(gbuf *g, long *off)
{
  for (uint8_t *p = g->data; p < g->buf; p++) if (*p != CANARY) { *off = p - g->buf; return 1; }
  for (uint8_t *p = g->buf + g->size; p < g->data + g->datalen; p++) if (*p != CANARY) { *off = p - g->buf; return 1; }
  return 0;
}

/* ------------------------------------------------------------ fault handling */
static sigjmp_buf jb;
static volatile sig_atomic_t in_call;
static volatile uintptr_t fault_addr;
static void on_fault(int sig, siginfo_t *si, void *uc)
{
  (void)uc;
  if (!in_call) {
    static const char m[] = "harness: fault outside a guarded call\n";
    if (write(2, m, sizeof(m) - 1)) {}
    _exit(70 + sig);
  }
  fault_addr = (uintptr_t)si->si_addr;
  siglongjmp(jb, 1);
}

static void on_alarm(int sig)
{
  (void)sig;
  if (in_call) siglongjmp(jb, 3);
}
static void arm(long ms)
{
  struct itimerval it;
  memset(&it, 0, sizeof it);
  it.it_value.tv_sec = ms / 1000; it.it_value.tv_usec = (ms % 1000) * 1000;
  setitimer(ITIMER_REAL, &it, NULL);
}

/* ------------------------------------------------------------ small helpers */
static long geti(const char *line, const char *key, long dflt)
{
  char pat[32];
  snprintf(pat, sizeof pat, " %s=", key);
  const char *p = strstr(line, pat);
  return p ? strtol(p + strlen(pat), NULL, 10) : dflt;
}
static void gets_(const char *line, const char *key, char *out, size_t n)
{
  char pat[32];
  snprintf(pat, sizeof pat, " %s=", key);
  const char *p = strstr(line, pat);
  size_t i = 0;
  if (p) for (p += strlen(pat); *p && *p != ' ' && *p != '\n' && i + 1 < n; p++) out[i++] = *p;
  out[i] = 0;
}
static uint64_t rs;
static uint32_t rnd(void)
{
  rs += 0x9E3779B97F4A7C15ull;
  uint64_t z = rs;
  z = (z ^ (z >> 30)) * 0xBF58476D1CE4E5B9ull;
  z = (z ^ (z >> 27)) * 0x94D049BB133111EBull;
  return (uint32_t)((z ^ (z >> 31)) >> 16);
}

/* One caller buffer of a case: rows of rowbytes at stride (bytes), mode 'R' or 'W'. */
typedef struct {
  int id; char mode;
  size_t size, nrows, stride, rowbytes;
  int ssize, maxval;             /* sample size in bytes and largest sample value (R content) */
  gbuf g;
  uint8_t *mod;                  /* W: bytes seen modified */
  uint8_t *first;                /* W: content after pass 0 */
  int det_diff;
} cbuf;

static void cbuf_geom(cbuf *b, int id, char mode, size_t nrows, size_t stride, size_t rowbytes, int ssize, int maxval)
{
  memset(b, 0, sizeof *b);
  b->id = id; b->mode = mode; b->nrows = nrows; b->stride = stride; b->rowbytes = rowbytes;
  b->ssize = ssize; b->maxval = maxval;
  b->size = (nrows - 1) * stride + rowbytes;
}
/* unified YUV buffer: size given, rows described by up to 3 planes */
typedef struct { size_t off, nrows, stride, rowbytes; } plane_geom;

static void fill_rows(uint8_t *base, size_t nrows, size_t stride, size_t rowbytes, int ssize, int maxval, uint64_t seed)
{
  rs = seed;
  for (size_t r = 0; r < nrows; r++) {
    uint8_t *p = base + r * stride;
    if (ssize == 1) {
      for (size_t i = 0; i < rowbytes; i++) p[i] = (uint8_t)((rnd() & 0xFF) * (unsigned)(maxval + 1) >> 8);
    } else {
      for (size_t i = 0; i + 1 < rowbytes; i += 2) {
        unsigned v = rnd() % (unsigned)(maxval + 1);
        p[i] = v & 0xFF; p[i + 1] = v >> 8;
      }
    }
  }
}

static void print_ivs(const uint8_t *mod, size_t n)
{
  int any = 0;
  for (size_t i = 0; i < n;) {
    if (!mod[i]) { i++; continue; }
    size_t j = i;
    while (j < n && mod[j]) j++;
    printf("%s%zu+%zu", any ? "," : "", i, j - i);
    any = 1; i = j;
  }
  if (!any) printf("-");
}

/* ------------------------------------------------------------ the case */
#define MAXB 4
typedef struct {
  char kind[8], api[8];
  int bits, w, h, ss, pf, pad, bu, num, den, cx, cy, cw, ch, side, ll, fast, align, sx[3];
  int ow, oh, nb;
  int wA, hA, ssA, n1, d1, same;                       /* hist: first image and first scaling factor */
  int rgbcs;                                           /* source JPEG in RGB colorspace */
  int sx_, sy_, sw_, sh_;                              /* hist: region as stored by tj3SetCroppingRegion */
  unsigned char *jpegA; size_t jpegASize;
  cbuf b[MAXB];
  plane_geom pg[3]; int npg;       /* unified buffer planes (buffer id 1) */
  unsigned char *jpeg; size_t jpegSize;                 /* source JPEG of decompression cases */
  unsigned char *out[2]; size_t outSize[2];             /* JPEG produced by compression cases */
  char err[96];
} kase;

static int ps_of(int pf) { return tjPixelSize[pf]; }

static tjhandle mk(int init) { return tj3Init(init); }

/* source JPEG for decompression cases, built with ordinary heap buffers */
static int make_jpeg(kase *k)
{
  tjhandle h = mk(TJINIT_COMPRESS);
  int cmyk = (k->pf == TJPF_CMYK), gray = (k->ss == TJSAMP_GRAY);
  int pf = cmyk ? TJPF_CMYK : (gray ? TJPF_GRAY : TJPF_RGB);
  int ps = ps_of(pf), ssz = k->bits > 8 ? 2 : 1, rc;
  size_t n = (size_t)k->w * k->h * ps * ssz;
  uint8_t *src = malloc(n + 8);
  int maxval = (1 << k->bits) - 1;
  fill_rows(src, k->h, (size_t)k->w * ps * ssz, (size_t)k->w * ps * ssz, ssz, maxval, 0x1234 + k->w * 131 + k->h);
  /* make it less noisy so that scaled decodes are not saturated: smooth the rows a bit */
  tj3Set(h, TJPARAM_SUBSAMP, k->ss);
  tj3Set(h, TJPARAM_QUALITY, 90);
  if (k->rgbcs) tj3Set(h, TJPARAM_COLORSPACE, TJCS_RGB);
  if (k->ll) { tj3Set(h, TJPARAM_LOSSLESS, 1); tj3Set(h, TJPARAM_PRECISION, k->bits); }
  k->jpeg = NULL; k->jpegSize = 0;
  if (k->bits <= 8) rc = tj3Compress8(h, src, k->w, 0, k->h, pf, &k->jpeg, &k->jpegSize);
  else if (k->bits <= 12) rc = tj3Compress12(h, (short *)src, k->w, 0, k->h, pf, &k->jpeg, &k->jpegSize);
  else rc = tj3Compress16(h, (unsigned short *)src, k->w, 0, k->h, pf, &k->jpeg, &k->jpegSize);
  if (rc) snprintf(k->err, sizeof k->err, "setup:%s", tj3GetErrorStr(h));
  free(src);
  tj3Destroy(h);
  return rc;
}

/* the guarded call itself; returns 0 ok, -1 TurboJPEG error (k->err), -2 crop rejected */
static int do_call(kase *k, int pass)
{
  int rc = 0;
  tjhandle h = NULL;
  if (!strcmp(k->kind, "pk") && !strcmp(k->api, "cmp")) {
    h = mk(TJINIT_COMPRESS);
    tj3Set(h, TJPARAM_SUBSAMP, k->ss); tj3Set(h, TJPARAM_QUALITY, 85); tj3Set(h, TJPARAM_BOTTOMUP, k->bu);
    if (k->ll) { tj3Set(h, TJPARAM_LOSSLESS, 1); tj3Set(h, TJPARAM_PRECISION, k->bits); }
    int pitch = k->pad < 0 ? 0 : k->w * ps_of(k->pf) + k->pad;
    k->out[pass] = NULL; k->outSize[pass] = 0;
    if (k->bits <= 8) rc = tj3Compress8(h, k->b[0].g.buf, k->w, pitch, k->h, k->pf, &k->out[pass], &k->outSize[pass]);
    else if (k->bits <= 12) rc = tj3Compress12(h, (short *)k->b[0].g.buf, k->w, pitch, k->h, k->pf, &k->out[pass], &k->outSize[pass]);
    else rc = tj3Compress16(h, (unsigned short *)k->b[0].g.buf, k->w, pitch, k->h, k->pf, &k->out[pass], &k->outSize[pass]);
  } else if (!strcmp(k->kind, "hist")) {
    /* header(A), scale 1, region, scale 2, [header(F)], decompress(F) -- all on one handle */
    h = mk(TJINIT_DECOMPRESS);
    tj3Set(h, TJPARAM_BOTTOMUP, k->bu); tj3Set(h, TJPARAM_FASTUPSAMPLE, k->fast);
    int pitch = k->pad < 0 ? 0 : k->ow * ps_of(k->pf) + k->pad;
    tjscalingfactor s1 = { k->n1, k->d1 }, s2 = { k->num, k->den };
    tjregion r = { k->cx, k->cy, k->cw, k->ch };
    rc = tj3DecompressHeader(h, k->jpegA, k->jpegASize);
    if (!rc) rc = tj3SetScalingFactor(h, s1);
    if (!rc) (void)tj3SetCroppingRegion(h, r);
    if (!rc) rc = tj3SetScalingFactor(h, s2);
    if (!rc && !k->same) rc = tj3DecompressHeader(h, k->jpeg, k->jpegSize);
    if (!rc) {
      const unsigned char *jb_ = k->same ? k->jpegA : k->jpeg; size_t js_ = k->same ? k->jpegASize : k->jpegSize;
      if (k->bits <= 8) rc = tj3Decompress8(h, jb_, js_, k->b[0].g.buf, pitch, k->pf);
      else rc = tj3Decompress12(h, jb_, js_, (short *)k->b[0].g.buf, pitch, k->pf);
    }
    if (rc) { if (h) tj3Destroy(h); return -3; }
  } else if (!strcmp(k->kind, "pk")) {
    h = mk(TJINIT_DECOMPRESS);
    tj3Set(h, TJPARAM_BOTTOMUP, k->bu); tj3Set(h, TJPARAM_FASTUPSAMPLE, k->fast);
    int pitch = k->pad < 0 ? 0 : k->ow * ps_of(k->pf) + k->pad;
    rc = tj3DecompressHeader(h, k->jpeg, k->jpegSize);
    if (!rc) { tjscalingfactor sf = { k->num, k->den }; rc = tj3SetScalingFactor(h, sf); }
    if (!rc) { tjregion r = { k->cx, k->cy, k->cw, k->ch }; rc = tj3SetCroppingRegion(h, r); }
    if (!rc) {
      if (k->bits <= 8) rc = tj3Decompress8(h, k->jpeg, k->jpegSize, k->b[0].g.buf, pitch, k->pf);
      else if (k->bits <= 12) rc = tj3Decompress12(h, k->jpeg, k->jpegSize, (short *)k->b[0].g.buf, pitch, k->pf);
      else rc = tj3Decompress16(h, k->jpeg, k->jpegSize, (unsigned short *)k->b[0].g.buf, pitch, k->pf);
    }
  } else {
    int unified = k->api[strlen(k->api) - 1] == 'u';
    int pitch = k->pad < 0 ? 0 : k->w * ps_of(k->pf) + k->pad;
    unsigned char *planes[3] = { NULL, NULL, NULL };
    int strides[3] = { 0, 0, 0 };
    if (!unified)
      for (int c = 0; c < k->nb; c++)
        if (k->b[c].id >= 1) { planes[k->b[c].id - 1] = k->b[c].g.buf; strides[k->b[c].id - 1] = k->sx[k->b[c].id - 1] < 0 ? 0 : (int)k->b[c].stride; }
    cbuf *yb = NULL, *pb = NULL;
    for (int c = 0; c < k->nb; c++) { if (k->b[c].id == 1) yb = &k->b[c]; if (k->b[c].id == 0) pb = &k->b[c]; }
    if (!strncmp(k->api, "d2", 2)) {
      h = mk(TJINIT_DECOMPRESS);
      tj3Set(h, TJPARAM_FASTUPSAMPLE, k->fast);
      rc = tj3DecompressHeader(h, k->jpeg, k->jpegSize);
      if (!rc) { tjscalingfactor sf = { k->num, k->den }; rc = tj3SetScalingFactor(h, sf); }
      if (!rc) rc = unified ? tj3DecompressToYUV8(h, k->jpeg, k->jpegSize, yb->g.buf, k->align)
                            : tj3DecompressToYUVPlanes8(h, k->jpeg, k->jpegSize, planes, strides);
    } else if (!strncmp(k->api, "enc", 3)) {
      h = mk(TJINIT_COMPRESS);
      tj3Set(h, TJPARAM_SUBSAMP, k->ss); tj3Set(h, TJPARAM_BOTTOMUP, k->bu);
      rc = unified ? tj3EncodeYUV8(h, pb->g.buf, k->w, pitch, k->h, k->pf, yb->g.buf, k->align)
                   : tj3EncodeYUVPlanes8(h, pb->g.buf, k->w, pitch, k->h, k->pf, planes, strides);
    } else if (!strncmp(k->api, "dec", 3)) {
      h = mk(TJINIT_DECOMPRESS);
      tj3Set(h, TJPARAM_SUBSAMP, k->ss); tj3Set(h, TJPARAM_BOTTOMUP, k->bu);
      rc = unified ? tj3DecodeYUV8(h, yb->g.buf, k->align, pb->g.buf, k->w, pitch, k->h, k->pf)
                   : tj3DecodeYUVPlanes8(h, (const unsigned char * const *)planes, strides, pb->g.buf, k->w, pitch, k->h, k->pf);
    } else {   /* cf */
      h = mk(TJINIT_COMPRESS);
      tj3Set(h, TJPARAM_SUBSAMP, k->ss); tj3Set(h, TJPARAM_QUALITY, 85);
      k->out[pass] = NULL; k->outSize[pass] = 0;
      rc = unified ? tj3CompressFromYUV8(h, yb->g.buf, k->w, k->align, k->h, &k->out[pass], &k->outSize[pass])
                   : tj3CompressFromYUVPlanes8(h, (const unsigned char * const *)planes, k->w, strides, k->h, &k->out[pass], &k->outSize[pass]);
    }
  }
  if (rc) {
    const char *m = tj3GetErrorStr(h);
    if (strstr(m, "cropping region") || strstr(m, "Cannot partially")) rc = -2;
    else { snprintf(k->err, sizeof k->err, "tj:%.60s", m); for (char *p = k->err; *p; p++) if (*p == '\n') *p = ' '; rc = -1; }
  }
  if (h) tj3Destroy(h);
  return rc;
}

/* geometry of the caller buffers, computed here independently of the model (and through
   the library's own tj3YUVPlaneWidth/Height/Size, tj3YUVBufSize for planes) */
static int setup(kase *k)
{
  int ssz = k->bits > 8 ? 2 : 1, ps = ps_of(k->pf);
  k->nb = 0; k->npg = 0;
  if (!strcmp(k->kind, "hist")) {
    /* which region does tj3SetCroppingRegion store?  ask the library (accept / reject), normalise here */
    tjhandle p = mk(TJINIT_DECOMPRESS);
    tjscalingfactor s1 = { k->n1, k->d1 };
    tjregion r = { k->cx, k->cy, k->cw, k->ch };
    int ok = !tj3DecompressHeader(p, k->jpegA, k->jpegASize) && !tj3SetScalingFactor(p, s1) && !tj3SetCroppingRegion(p, r);
    tj3Destroy(p);
    int swA = (k->wA * k->n1 + k->d1 - 1) / k->d1, shA = (k->hA * k->n1 + k->d1 - 1) / k->d1;
    k->sx_ = k->sy_ = k->sw_ = k->sh_ = 0;
    if (ok && (k->cx || k->cy || k->cw || k->ch)) {
      k->sx_ = k->cx; k->sy_ = k->cy; k->sw_ = k->cw ? k->cw : swA - k->cx; k->sh_ = k->ch ? k->ch : shA - k->cy;
    }
    int fw = k->same ? k->wA : k->w, fh = k->same ? k->hA : k->h;
    int sw = (fw * k->num + k->den - 1) / k->den, sh = (fh * k->num + k->den - 1) / k->den;
    if (k->sx_ || k->sy_ || k->sw_ || k->sh_) { k->ow = k->sw_; k->oh = k->sh_; } else { k->ow = sw; k->oh = sh; }
    int pitch = k->pad < 0 ? k->ow * ps : k->ow * ps + k->pad;
    cbuf_geom(&k->b[k->nb++], 0, 'W', k->oh, (size_t)pitch * ssz, (size_t)k->ow * ps * ssz, ssz, (1 << k->bits) - 1);
    return 0;
  }
  if (!strcmp(k->kind, "pk")) {
    if (!strcmp(k->api, "cmp")) { k->ow = k->w; k->oh = k->h; }
    else {
      int sw = (k->w * k->num + k->den - 1) / k->den, sh = (k->h * k->num + k->den - 1) / k->den;
      if (k->cx || k->cy || k->cw || k->ch) { k->ow = k->cw ? k->cw : sw - k->cx; k->oh = k->ch ? k->ch : sh - k->cy; }
      else { k->ow = sw; k->oh = sh; }
      if (k->ow < 1 || k->oh < 1) { k->ow = k->oh = 1; }   /* rejected by tj3SetCroppingRegion anyway */
    }
    int pitch = k->pad < 0 ? k->ow * ps : k->ow * ps + k->pad;
    cbuf_geom(&k->b[k->nb++], 0, strcmp(k->api, "cmp") ? 'W' : 'R', k->oh, (size_t)pitch * ssz, (size_t)k->ow * ps * ssz, ssz, (1 << k->bits) - 1);
    return 0;
  }
  int unified = k->api[strlen(k->api) - 1] == 'u';
  int isd2 = !strncmp(k->api, "d2", 2), isenc = !strncmp(k->api, "enc", 3), isdec = !strncmp(k->api, "dec", 3);
  int width = k->w, height = k->h;
  if (isd2) { width = (k->w * k->num + k->den - 1) / k->den; height = (k->h * k->num + k->den - 1) / k->den; }
  k->ow = width; k->oh = height;
  if (isenc || isdec) {
    int pitch = k->pad < 0 ? k->w * ps : k->w * ps + k->pad;
    cbuf_geom(&k->b[k->nb++], 0, isenc ? 'R' : 'W', k->h, pitch, (size_t)k->w * ps, 1, 255);
  }
  char pmode = (isd2 || isenc) ? 'W' : 'R';
  int nc = k->ss == TJSAMP_GRAY ? 1 : 3;
  if (unified) {
    size_t total = tj3YUVBufSize(width, k->align, height, k->ss), off = 0;
    cbuf *b = &k->b[k->nb++];
    memset(b, 0, sizeof *b);
    b->id = 1; b->mode = pmode; b->size = total; b->ssize = 1; b->maxval = 255;
    for (int c = 0; c < nc; c++) {
      int pw = tj3YUVPlaneWidth(c, width, k->ss), ph = tj3YUVPlaneHeight(c, height, k->ss);
      size_t st = ((size_t)pw + k->align - 1) & ~((size_t)k->align - 1);
      k->pg[k->npg].off = off; k->pg[k->npg].nrows = ph; k->pg[k->npg].stride = st; k->pg[k->npg].rowbytes = pw; k->npg++;
      off += st * ph;
    }
    if (off != total) { snprintf(k->err, sizeof k->err, "setup:bufsize"); return -1; }
  } else {
    for (int c = 0; c < nc; c++) {
      int pw = tj3YUVPlaneWidth(c, width, k->ss), ph = tj3YUVPlaneHeight(c, height, k->ss);
      int st = k->sx[c] < 0 ? pw : pw + k->sx[c];
      cbuf_geom(&k->b[k->nb], c + 1, pmode, ph, st, pw, 1, 255);
      if (k->b[k->nb].size != tj3YUVPlaneSize(c, width, k->sx[c] < 0 ? 0 : st, height, k->ss)) {
        snprintf(k->err, sizeof k->err, "setup:planesize"); return -1;
      }
      k->nb++;
    }
  }
  return 0;
}

static void load_content(kase *k, cbuf *b, int pass, uint64_t seed)
{
  grw(&b->g);
  memset(b->g.buf, FILL[pass], b->size);
  if (b->mode == 'R') {
    if (b->id == 1 && k->npg) {
      for (int p = 0; p < k->npg; p++)
        fill_rows(b->g.buf + k->pg[p].off, k->pg[p].nrows, k->pg[p].stride, k->pg[p].rowbytes, 1, 255, seed + 77 * p);
    } else
      fill_rows(b->g.buf, b->nrows, b->stride, b->rowbytes, b->ssize, b->maxval, seed + 1000 * b->id);
    gslack_fill(&b->g);
    gro(&b->g);
  } else
    gslack_fill(&b->g);
}

static void run_api_case(const char *line)
{
  kase K, *k = &K;
  memset(k, 0, sizeof *k);
  sscanf(line, "%7s", k->kind);
  gets_(line, "api", k->api, sizeof k->api);
  k->bits = geti(line, "bits", 8); k->w = geti(line, "w", 1); k->h = geti(line, "h", 1);
  k->ss = geti(line, "ss", 0); k->pf = geti(line, "pf", 0); k->pad = geti(line, "pad", 0);
  k->bu = geti(line, "bu", 0); k->num = geti(line, "num", 1); k->den = geti(line, "den", 1);
  k->cx = geti(line, "cx", 0); k->cy = geti(line, "cy", 0); k->cw = geti(line, "cw", 0); k->ch = geti(line, "ch", 0);
  k->side = geti(line, "side", 1); k->ll = geti(line, "ll", 0); k->fast = geti(line, "fast", 0);
  k->align = geti(line, "align", 1);
  k->sx[0] = geti(line, "s0", 0); k->sx[1] = geti(line, "s1", 0); k->sx[2] = geti(line, "s2", 0);
  if (k->pf < 0 || k->pf >= TJ_NUMPF || k->ss < 0 || k->ss >= TJ_NUMSAMP || k->w < 1 || k->h < 1 || k->den < 1) { printf("?\n"); return; }

  int hist = !strcmp(k->kind, "hist");
  if (hist) {
    strcpy(k->api, "dec");
    k->wA = geti(line, "wA", 1); k->hA = geti(line, "hA", 1); k->ssA = geti(line, "ssA", 0);
    k->n1 = geti(line, "n1", 1); k->d1 = geti(line, "d1", 1); k->same = geti(line, "same", 0);
    if (k->wA < 1 || k->hA < 1 || k->ssA < 0 || k->ssA >= TJ_NUMSAMP || k->d1 < 1 || k->bits > 12 || k->pf == TJPF_CMYK) { printf("?\n"); return; }
    int w = k->w, hh = k->h, ss = k->ss;
    k->w = k->wA; k->h = k->hA; k->ss = k->ssA;
    if (make_jpeg(k)) { printf("err %s\n", k->err); return; }
    k->jpegA = k->jpeg; k->jpegASize = k->jpegSize; k->jpeg = NULL;
    k->w = w; k->h = hh; k->ss = ss;
  }
  int needjpeg = hist || (!strcmp(k->kind, "pk") && strcmp(k->api, "cmp")) || !strncmp(k->api, "d2", 2);
  if (needjpeg && make_jpeg(k)) { printf("err %s\n", k->err); return; }
  if (setup(k)) { printf("err %s\n", k->err); tj3Free(k->jpeg); return; }
  for (int i = 0; i < k->nb; i++) {
    cbuf *b = &k->b[i];
    if (galloc(&b->g, b->size, k->side)) { printf("err setup:mmap\n"); gfree_all(); tj3Free(k->jpeg); return; }
    if (b->mode == 'W') { b->mod = calloc(b->size, 1); b->first = malloc(b->size); }
  }
  uint64_t seed = 0xC11 + k->w * 7919 + k->h * 104729 + k->pf;
  int outcome = 0, segv_buf = -1, segv_pass = 0; long segv_off = 0;
  int canary_bad = 0, canary_buf = 0; long canary_off = 0;
  for (int pass = 0; pass < 2 && !outcome; pass++) {
    for (int i = 0; i < k->nb; i++) load_content(k, &k->b[i], pass, seed);
    int rc, sj;
    in_call = 1;
    sj = sigsetjmp(jb, 1);
    if (sj == 0) { arm(hist ? 500 : 5000); rc = do_call(k, pass); }
    else rc = (sj == 3) ? -8 : -9;
    in_call = 0;
    arm(0);
    if (rc == -8) { outcome = 4; break; }
    if (rc == -3) {
      /* rejected: nothing may have been written */
      outcome = 5;
      for (int i = 0; i < k->nb; i++) {
        cbuf *b = &k->b[i]; long off;
        if (gslack_bad(&b->g, &off)) { canary_bad = 1; canary_buf = b->id; canary_off = off; }
        for (size_t j = 0; j < b->size && !canary_bad; j++) if (b->g.buf[j] != FILL[pass]) { canary_bad = 2; canary_buf = b->id; canary_off = (long)j; }
      }
      break;
    }
    if (rc == -9) {
      outcome = 3; segv_pass = pass;
      for (int i = 0; i < k->nb; i++) {
        gbuf *g = &k->b[i].g;
        if (fault_addr >= (uintptr_t)g->map && fault_addr < (uintptr_t)g->map + g->maplen) {
          segv_buf = k->b[i].id; segv_off = (long)(fault_addr - (uintptr_t)g->buf);
        }
      }
      break;
    }
    if (rc == -2) { outcome = 2; break; }
    if (rc == -1) { outcome = 1; break; }
    for (int i = 0; i < k->nb; i++) {
      cbuf *b = &k->b[i];
      long off;
      if (!canary_bad && gslack_bad(&b->g, &off)) { canary_bad = 1; canary_buf = b->id; canary_off = off; }
      if (b->mode == 'W') {
        for (size_t j = 0; j < b->size; j++) if (b->g.buf[j] != FILL[pass]) b->mod[j] = 1;
        if (pass == 0) memcpy(b->first, b->g.buf, b->size);
      }
    }
  }
  if (outcome == 4) printf("hang\n");
  else if (outcome == 5) {
    if (canary_bad) printf("err rej-wrote b%d@%ld\n", canary_buf, canary_off); else printf("err rej\n");
  } else if (outcome == 3) printf("segv buf=%d off=%ld pass=%d\n", segv_buf, segv_off, segv_pass);
  else if (outcome == 2) printf("err crop\n");
  else if (outcome == 1) printf("err %s\n", k->err);
  else {
    int det = 1;
    printf("ok");
    if (!strcmp(k->kind, "pk") || hist) printf(" ow=%d oh=%d", k->ow, k->oh);
    for (int i = 0; i < k->nb; i++) {
      cbuf *b = &k->b[i];
      printf(" b%d=%zu:", b->id, b->size);
      if (b->mode == 'R') printf("r");
      else {
        print_ivs(b->mod, b->size);
        /* what the call wrote must not depend on what the destination / the padding held */
        for (size_t j = 0; j < b->size; j++) if (b->mod[j] && b->first[j] != b->g.buf[j]) det = 0;
      }
    }
    if (k->out[0] || k->out[1])
      if (k->outSize[0] != k->outSize[1] || !k->out[0] || !k->out[1] || memcmp(k->out[0], k->out[1], k->outSize[0])) det = 0;
    printf(" ; canary=");
    if (canary_bad) printf("bad:b%d@%ld", canary_buf, canary_off); else printf("ok");
    /* FNV-1a of everything the call produced: compared across the SIMD dispatch levels by the check */
    uint32_t hv = 2166136261u;
    for (int i = 0; i < k->nb; i++) {
      cbuf *b = &k->b[i];
      if (b->mode == 'W') for (size_t j = 0; j < b->size; j++) if (b->mod[j]) { hv ^= b->g.buf[j]; hv *= 16777619u; }
    }
    if (k->out[1]) for (size_t j = 0; j < k->outSize[1]; j++) { hv ^= k->out[1][j]; hv *= 16777619u; }
    printf(" det=%s h=%08x\n", det ? "same" : "diff", hv);
  }
  for (int i = 0; i < k->nb; i++) { free(k->b[i].mod); free(k->b[i].first); }
  gfree_all();
  tj3Free(k->jpeg); tj3Free(k->jpegA); tj3Free(k->out[0]); tj3Free(k->out[1]);
}

/* ------------------------------------------------------------ huge pitches: sparse buffers */
/* A caller buffer whose rows are far apart (pitch * (height-1) >= 2^31): the whole extent plus 2 GiB
   in front of it is reserved PROT_NONE (MAP_NORESERVE) and only the pages holding a documented row are
   made accessible.  Slack inside those pages carries canaries. */
typedef struct {
  int id; char mode;
  uint8_t *map; size_t maplen; uint8_t *buf;
  size_t nrows, stride, rowbytes;
  uint8_t *seen;                 /* W: nrows*rowbytes flags "modified in some pass" */
} sbuf;
#define PFLOOR(p) ((uint8_t *)((uintptr_t)(p) & ~(uintptr_t)(PG - 1)))
#define PCEIL(p)  ((uint8_t *)(((uintptr_t)(p) + PG - 1) & ~(uintptr_t)(PG - 1)))

static int salloc(sbuf *s, int id, char mode, size_t nrows, size_t stride, size_t rowbytes)
{
  size_t ext = (nrows - 1) * stride + rowbytes;
  size_t before = (((size_t)1 << 31) + 2 * PG);
  memset(s, 0, sizeof *s);
  s->id = id; s->mode = mode; s->nrows = nrows; s->stride = stride; s->rowbytes = rowbytes;
  if (nrows > 1 && stride < rowbytes + 2 * PG) return -1;
  s->maplen = before + ((ext + PG - 1) & ~(size_t)(PG - 1)) + 2 * PG;
  s->map = mmap(NULL, s->maplen, PROT_NONE, MAP_PRIVATE | MAP_ANONYMOUS | MAP_NORESERVE, -1, 0);
  if (s->map == MAP_FAILED) { s->map = NULL; return -1; }
  s->buf = s->map + before + 16 * (id + 1);        /* not page aligned */
  if (mode == 'W') s->seen = calloc(nrows, rowbytes);
  return 0;
}
static void sfree(sbuf *s) { if (s->map) munmap(s->map, s->maplen); free(s->seen); s->map = NULL; s->seen = NULL; }
static void sload(sbuf *s, int pass, uint64_t seed)
{
  for (size_t r = 0; r < s->nrows; r++) {
    uint8_t *row = s->buf + r * s->stride, *lo = PFLOOR(row), *hi = PCEIL(row + s->rowbytes);
    mprotect(lo, hi - lo, PROT_READ | PROT_WRITE);
    memset(lo, CANARY, hi - lo);
    if (s->mode == 'W') memset(row, FILL[pass], s->rowbytes);
    else { fill_rows(row, 1, s->rowbytes, s->rowbytes, 1, 255, seed + r * 131 + s->id); mprotect(lo, hi - lo, PROT_READ); }
  }
}
/* returns 0 ok, else 1 and *off = first stray byte (relative to buf) */
static int scheck(sbuf *s, int pass, long long *off)
{
  for (size_t r = 0; r < s->nrows; r++) {
    uint8_t *row = s->buf + r * s->stride, *lo = PFLOOR(row), *hi = PCEIL(row + s->rowbytes);
    for (uint8_t *p = lo; p < row; p++) if (*p != CANARY) { *off = p - s->buf; return 1; }
    for (uint8_t *p = row + s->rowbytes; p < hi; p++) if (*p != CANARY) { *off = p - s->buf; return 1; }
    if (s->mode == 'W') for (size_t j = 0; j < s->rowbytes; j++) if (row[j] != FILL[pass]) s->seen[r * s->rowbytes + j] = 1;
  }
  return 0;
}

static void run_big_case(const char *line)
{
  char api[8];
  gets_(line, "api", api, sizeof api);
  int w = geti(line, "w", 8), h = geti(line, "h", 2), ss = geti(line, "ss", 0), pf = geti(line, "pf", 0);
  int pad = geti(line, "pad", 0), bu = geti(line, "bu", 0);
  int sx[3] = { (int)geti(line, "s0", 0), (int)geti(line, "s1", 0), (int)geti(line, "s2", 0) };
  if (pf < 0 || pf >= TJ_NUMPF || pf == TJPF_CMYK || ss < 0 || ss >= TJ_NUMSAMP || w < 1 || h < 1 || pad < 0) { printf("?\n"); return; }
  int ps = ps_of(pf), pitch = w * ps + pad;
  int iscmp = !strcmp(api, "cmp"), isdec = !strcmp(api, "dec"), isenc = !strcmp(api, "encp"), isdcp = !strcmp(api, "decp");
  if (!iscmp && !isdec && !isenc && !isdcp) { printf("?\n"); return; }
  sbuf sb[4]; int nsb = 0;
  kase K; memset(&K, 0, sizeof K);
  K.bits = 8; K.w = w; K.h = h; K.ss = ss; K.pf = pf;
  if (isdec && make_jpeg(&K)) { printf("err %s\n", K.err); return; }
  int bad = 0;
  if (salloc(&sb[nsb++], 0, (iscmp || isenc) ? 'R' : 'W', h, pitch, (size_t)w * ps)) bad = 1;
  int strides[3] = { 0, 0, 0 };
  if (isenc || isdcp) {
    int nc = ss == TJSAMP_GRAY ? 1 : 3;
    for (int c = 0; c < nc && !bad; c++) {
      int pw = tj3YUVPlaneWidth(c, w, ss), ph = tj3YUVPlaneHeight(c, h, ss);
      strides[c] = pw + sx[c];
      if (salloc(&sb[nsb++], c + 1, isenc ? 'W' : 'R', ph, strides[c], pw)) bad = 1;
    }
  }
  if (bad) { printf("err setup:sparse-map\n"); for (int i = 0; i < nsb; i++) sfree(&sb[i]); tj3Free(K.jpeg); return; }
  int outcome = 0, fb = -1; long long foff = 0, stray_off = 0; int stray_buf = -1;
  unsigned char *out[2] = { NULL, NULL }; size_t outSize[2] = { 0, 0 };
  for (int pass = 0; pass < 2 && !outcome; pass++) {
    for (int i = 0; i < nsb; i++) sload(&sb[i], pass, 4242 + w);
    unsigned char *planes[3] = { NULL, NULL, NULL };
    for (int i = 0; i < nsb; i++) if (sb[i].id >= 1) planes[sb[i].id - 1] = sb[i].buf;
    int rc = 0, sj;
    in_call = 1;
    sj = sigsetjmp(jb, 1);
    if (sj == 0) {
      arm(20000);
      tjhandle hd = mk((iscmp || isenc) ? TJINIT_COMPRESS : TJINIT_DECOMPRESS);
      tj3Set(hd, TJPARAM_BOTTOMUP, bu); tj3Set(hd, TJPARAM_SUBSAMP, ss); tj3Set(hd, TJPARAM_QUALITY, 80);
      if (iscmp) rc = tj3Compress8(hd, sb[0].buf, w, pitch, h, pf, &out[pass], &outSize[pass]);
      else if (isdec) rc = tj3Decompress8(hd, K.jpeg, K.jpegSize, sb[0].buf, pitch, pf);
      else if (isenc) rc = tj3EncodeYUVPlanes8(hd, sb[0].buf, w, pitch, h, pf, planes, strides);
      else rc = tj3DecodeYUVPlanes8(hd, (const unsigned char * const *)planes, strides, sb[0].buf, w, pitch, h, pf);
      if (rc) snprintf(K.err, sizeof K.err, "tj:%.60s", tj3GetErrorStr(hd));
      tj3Destroy(hd);
    }
    in_call = 0;
    arm(0);
    if (sj == 3) { outcome = 4; break; }
    if (sj == 1) {
      outcome = 3;
      for (int i = 0; i < nsb; i++)
        if (fault_addr >= (uintptr_t)sb[i].map && fault_addr < (uintptr_t)sb[i].map + sb[i].maplen) {
          fb = sb[i].id; foff = (long long)fault_addr - (long long)(uintptr_t)sb[i].buf;
        }
      break;
    }
    if (rc) { outcome = 1; break; }
    for (int i = 0; i < nsb; i++) {
      long long o;
      if (scheck(&sb[i], pass, &o) && stray_buf < 0) { stray_buf = sb[i].id; stray_off = o; }
    }
  }
  if (outcome == 4) printf("hang\n");
  else if (outcome == 3) printf("segv buf=%d off=%lld pass=0\n", fb, foff);
  else if (outcome == 1) printf("err %s\n", K.err);
  else {
    printf("ok");
    for (int i = 0; i < nsb; i++) {
      sbuf *b = &sb[i];
      printf(" b%d=%zu:", b->id, (b->nrows - 1) * b->stride + b->rowbytes);
      if (b->mode == 'R') printf("r");
      else {
        size_t miss = 0;
        for (size_t j = 0; j < b->nrows * b->rowbytes; j++) if (!b->seen[j]) miss++;
        if (miss) printf("partial%zu", miss); else printf("full");
      }
    }
    int det = 1;
    if (iscmp && (outSize[0] != outSize[1] || !out[0] || !out[1] || memcmp(out[0], out[1], outSize[0]))) det = 0;
    printf(" ; canary=");
    if (stray_buf >= 0) printf("bad:b%d@%lld", stray_buf, stray_off); else printf("ok");
    printf(" det=%s\n", det ? "same" : "diff");
  }
  for (int i = 0; i < nsb; i++) sfree(&sb[i]);
  tj3Free(K.jpeg); tj3Free(out[0]); tj3Free(out[1]);
}

/* ------------------------------------------------------------ libjpeg API: rows per read call */
/* jpeg_read_scanlines(cinfo, rows, max_lines) in a loop over the whole image.  rows[0..max_lines-1]
   are the rows of a buffer flush against a guard page; rows[max_lines..max_lines+XR-1] point to
   canary rows that no call may touch (only max_lines rows were handed over). */
#define XR 4
static void rs_error_exit(j_common_ptr cinfo) { (void)cinfo; siglongjmp(jb, 2); }
static void rs_output_message(j_common_ptr cinfo) { (void)cinfo; }

static void run_rs_case(const char *line)
{
  kase K, *k = &K;
  memset(k, 0, sizeof *k);
  strcpy(k->kind, "pk"); strcpy(k->api, "dec");
  k->bits = 8; k->w = geti(line, "w", 1); k->h = geti(line, "h", 1); k->ss = geti(line, "ss", 0);
  k->pf = geti(line, "pf", 0); k->num = geti(line, "num", 1); k->den = geti(line, "den", 1);
  k->side = geti(line, "side", 1); k->fast = geti(line, "fast", 0);
  int maxl = geti(line, "max", 1);
  if (k->pf < 0 || k->pf >= TJ_NUMPF || k->pf == TJPF_CMYK || k->ss < 0 || k->ss >= TJ_NUMSAMP || k->w < 1 || k->h < 1 ||
      k->den < 1 || maxl < 1 || maxl > 64) { printf("?\n"); return; }
  static const J_COLOR_SPACE cs[TJ_NUMPF] = { JCS_EXT_RGB, JCS_EXT_BGR, JCS_EXT_RGBX, JCS_EXT_BGRX, JCS_EXT_XBGR, JCS_EXT_XRGB,
    JCS_GRAYSCALE, JCS_EXT_RGBA, JCS_EXT_BGRA, JCS_EXT_ABGR, JCS_EXT_ARGB, JCS_CMYK };
  if (make_jpeg(k)) { printf("err %s\n", k->err); return; }
  struct jpeg_decompress_struct cinfo;
  struct jpeg_error_mgr jerr;
  volatile int created = 0;
  gbuf g; memset(&g, 0, sizeof g);
  uint8_t *volatile extra = NULL;
  JSAMPROW rows[64 + XR];
  volatile long total = 0, calls = 0, over_at = -1, over_ret = 0, over_row = -1;
  volatile int canary_bad = 0; volatile long coff = 0;
  int rc;
  in_call = 1;
  rc = sigsetjmp(jb, 1);
  if (rc == 0) {
    cinfo.err = jpeg_std_error(&jerr);
    jerr.error_exit = rs_error_exit; jerr.output_message = rs_output_message;
    jpeg_create_decompress(&cinfo); created = 1;
    jpeg_mem_src(&cinfo, k->jpeg, (unsigned long)k->jpegSize);
    jpeg_read_header(&cinfo, TRUE);
    cinfo.scale_num = k->num; cinfo.scale_denom = k->den;
    cinfo.do_fancy_upsampling = !k->fast;
    cinfo.out_color_space = cs[k->pf];
    jpeg_start_decompress(&cinfo);
    size_t rowbytes = (size_t)cinfo.output_width * cinfo.output_components;
    if (galloc(&g, rowbytes * maxl, k->side)) siglongjmp(jb, 2);
    extra = malloc(rowbytes * XR);
    for (int i = 0; i < maxl; i++) rows[i] = g.buf + (size_t)i * rowbytes;
    for (int i = 0; i < XR; i++) rows[maxl + i] = extra + (size_t)i * rowbytes;
    while (cinfo.output_scanline < cinfo.output_height && over_at < 0) {
      JDIMENSION at = cinfo.output_scanline, n;
      memset(g.buf, FILL[0], rowbytes * maxl);
      memset(extra, CANARY, rowbytes * XR);
      gslack_fill(&g);
      n = jpeg_read_scanlines(&cinfo, rows, maxl);
      calls++; total += n;
      long o;
      if (!canary_bad && gslack_bad(&g, &o)) { canary_bad = 1; coff = o; }
      for (size_t j = 0; j < rowbytes * XR; j++)
        if (extra[j] != CANARY) { over_at = at; over_ret = n; over_row = maxl + (long)(j / rowbytes); break; }
      if ((int)n > maxl && over_at < 0) { over_at = at; over_ret = n; over_row = -1; }
      if (n == 0) break;
    }
    if (over_at < 0) jpeg_finish_decompress(&cinfo);
  }
  in_call = 0;
  if (rc == 1) {
    long off = 0; int fb = -1;
    if (g.map && fault_addr >= (uintptr_t)g.map && fault_addr < (uintptr_t)g.map + g.maplen) { fb = 0; off = (long)(fault_addr - (uintptr_t)g.buf); }
    printf("segv buf=%d off=%ld pass=0\n", fb, off);
  } else if (rc == 2) printf("err jpeg\n");
  else if (over_at >= 0)
    printf("over at=%ld max=%d ret=%ld row=%ld\n", (long)over_at, maxl, (long)over_ret, (long)over_row);
  else {
    printf("ok total=%ld ; canary=", (long)total);
    if (canary_bad) printf("bad:b0@%ld", (long)coff); else printf("ok");
    printf(" det=same calls=%ld\n", (long)calls);
  }
  if (created && rc != 1) jpeg_destroy_decompress(&cinfo);
  free((void *)extra);
  gfree_all();
  tj3Free(k->jpeg);
}

/* ------------------------------------------------------------ RGB565 output through the libjpeg API */
/* out_color_space = JCS_RGB565 (ycc / rgb / gray source, ordered dither or none), max_lines >= 2 rows per
   jpeg_read_scanlines call, every row in its own guarded buffer that ENDS at a PROT_NONE page and starts at
   an address = al (mod 4): al = 2 takes the PACK_NEED_ALIGNMENT branch of jdcol565.c for every row. */
static void run_r565_case(const char *line)
{
  kase K, *k = &K;
  char src[8];
  memset(k, 0, sizeof *k);
  gets_(line, "src", src, sizeof src);
  strcpy(k->kind, "pk"); strcpy(k->api, "dec");
  k->bits = 8; k->w = geti(line, "w", 1); k->h = geti(line, "h", 1); k->ss = geti(line, "ss", 0);
  k->fast = geti(line, "fast", 0);
  int maxl = geti(line, "max", 2), dither = geti(line, "dither", 0), al = geti(line, "al", 2);
  if (k->ss < 0 || k->ss >= TJ_NUMSAMP || k->w < 1 || k->h < 1 || maxl < 1 || maxl > 16 || (al != 0 && al != 2)) { printf("?\n"); return; }
  k->pf = TJPF_RGB;
  if (!strcmp(src, "gray")) k->ss = TJSAMP_GRAY;
  if (!strcmp(src, "rgb")) k->rgbcs = 1;
  if (make_jpeg(k)) { printf("err %s\n", k->err); return; }
  size_t rowbytes = (size_t)k->w * 2, e = ((rowbytes + (size_t)al) % 4) ? 2 : 0;   /* size = -al (mod 4) */
  if (al == 2) e = (rowbytes % 4 == 2) ? 0 : 2; else e = (rowbytes % 4 == 0) ? 0 : 2;
  gbuf g[16]; uint8_t *extra = malloc(rowbytes * XR);
  uint8_t *mask = calloc((size_t)k->h, rowbytes);
  JSAMPROW rows[16 + XR];
  for (int i = 0; i < maxl; i++) { galloc(&g[i], rowbytes + e, 1); rows[i] = g[i].buf; }
  for (int i = 0; i < XR; i++) rows[maxl + i] = extra + (size_t)i * rowbytes;
  volatile long total = 0, over_at = -1, over_ret = 0, over_row = -1;
  volatile int canary_bad = 0, outcome = 0, fb = -1; volatile long coff = 0, foff = 0;
  for (int pass = 0; pass < 2 && !outcome && over_at < 0; pass++) {
    struct jpeg_decompress_struct cinfo;
    struct jpeg_error_mgr jerr;
    volatile int created = 0;
    int rc;
    total = 0;
    in_call = 1;
    rc = sigsetjmp(jb, 1);
    if (rc == 0) {
      arm(5000);
      cinfo.err = jpeg_std_error(&jerr);
      jerr.error_exit = rs_error_exit; jerr.output_message = rs_output_message;
      jpeg_create_decompress(&cinfo); created = 1;
      jpeg_mem_src(&cinfo, k->jpeg, (unsigned long)k->jpegSize);
      jpeg_read_header(&cinfo, TRUE);
      cinfo.do_fancy_upsampling = !k->fast;
      cinfo.out_color_space = JCS_RGB565;
      cinfo.dither_mode = dither ? JDITHER_ORDERED : JDITHER_NONE;
      jpeg_start_decompress(&cinfo);
      while (cinfo.output_scanline < cinfo.output_height && over_at < 0) {
        JDIMENSION at = cinfo.output_scanline, n;
        for (int i = 0; i < maxl; i++) { memset(g[i].buf, FILL[pass], rowbytes); memset(g[i].buf + rowbytes, CANARY, e); gslack_fill(&g[i]); }
        memset(extra, CANARY, rowbytes * XR);
        n = jpeg_read_scanlines(&cinfo, rows, maxl);
        total += n;
        for (int i = 0; i < maxl; i++) {
          long o;
          if (!canary_bad && gslack_bad(&g[i], &o)) { canary_bad = 1; coff = o; }
          for (size_t j = 0; j < e; j++) if (!canary_bad && g[i].buf[rowbytes + j] != CANARY) { canary_bad = 1; coff = (long)(rowbytes + j); }
          if (i < (int)n && at + i < (JDIMENSION)k->h)
            for (size_t j = 0; j < rowbytes; j++) if (g[i].buf[j] != FILL[pass]) mask[(at + i) * rowbytes + j] = 1;
        }
        for (size_t j = 0; j < rowbytes * XR; j++)
          if (extra[j] != CANARY) { over_at = at; over_ret = n; over_row = maxl + (long)(j / rowbytes); break; }
        if ((int)n > maxl && over_at < 0) { over_at = at; over_ret = n; over_row = -1; }
        if (n == 0) break;
      }
      if (over_at < 0) jpeg_finish_decompress(&cinfo);
    }
    in_call = 0; arm(0);
    if (rc == 1) {
      outcome = 3;
      for (int i = 0; i < maxl; i++)
        if (fault_addr >= (uintptr_t)g[i].map && fault_addr < (uintptr_t)g[i].map + g[i].maplen) { fb = i; foff = (long)(fault_addr - (uintptr_t)g[i].buf); }
    } else if (rc == 2) outcome = 1;
    else if (rc == 3) outcome = 4;
    if (created && rc != 1 && rc != 3) jpeg_destroy_decompress(&cinfo);
  }
  if (outcome == 3) printf("segv buf=%d off=%ld pass=0\n", (int)fb, (long)foff);
  else if (outcome == 4) printf("hang\n");
  else if (outcome == 1) printf("err jpeg\n");
  else if (over_at >= 0) printf("over at=%ld max=%d ret=%ld row=%ld\n", (long)over_at, maxl, (long)over_ret, (long)over_row);
  else {
    size_t miss = 0;
    for (size_t j = 0; j < (size_t)k->h * rowbytes; j++) if (!mask[j]) miss++;
    printf("ok total=%ld rowbytes=%zu ", (long)total, rowbytes);
    if (miss) printf("partial%zu", miss); else printf("full");
    printf(" ; canary=");
    if (canary_bad) printf("bad:b0@%ld", (long)coff); else printf("ok");
    printf(" det=same\n");
  }
  free(extra); free(mask);
  gfree_all();
  tj3Free(k->jpeg);
}

/* source JPEG with arbitrary luma sampling factors hs x vs (chroma 1x1), e.g. 4x2 = 4:1:0, 3x1, 1x3, 2x4:
   makes the decompressor use int_upsample with h_expand / v_expand 1..4 */
static int make_jpeg_api(kase *k, int hs, int vs)
{
  struct jpeg_compress_struct c;
  struct jpeg_error_mgr jerr;
  unsigned char *out = NULL; unsigned long outsize = 0;
  size_t rb = (size_t)k->w * 3;
  uint8_t *src = malloc(rb * (size_t)k->h + 8);
  volatile int ok = 0;
  fill_rows(src, k->h, rb, rb, 1, 255, 0x777 + k->w * 31 + k->h);
  in_call = 1;
  if (sigsetjmp(jb, 1) == 0) {
    c.err = jpeg_std_error(&jerr);
    jerr.error_exit = rs_error_exit; jerr.output_message = rs_output_message;
    jpeg_create_compress(&c);
    jpeg_mem_dest(&c, &out, &outsize);
    c.image_width = k->w; c.image_height = k->h; c.input_components = 3; c.in_color_space = JCS_RGB;
    jpeg_set_defaults(&c);
    jpeg_set_quality(&c, 90, TRUE);
    c.comp_info[0].h_samp_factor = hs; c.comp_info[0].v_samp_factor = vs;
    c.comp_info[1].h_samp_factor = c.comp_info[1].v_samp_factor = 1;
    c.comp_info[2].h_samp_factor = c.comp_info[2].v_samp_factor = 1;
    jpeg_start_compress(&c, TRUE);
    while (c.next_scanline < c.image_height) { JSAMPROW r = src + (size_t)c.next_scanline * rb; jpeg_write_scanlines(&c, &r, 1); }
    jpeg_finish_compress(&c);
    jpeg_destroy_compress(&c);
    ok = 1;
  }
  in_call = 0;
  free(src);
  if (!ok) { snprintf(k->err, sizeof k->err, "setup:jpeg-api"); return -1; }
  k->jpeg = tj3Alloc(outsize); memcpy(k->jpeg, out, outsize); k->jpegSize = outsize; free(out);
  return 0;
}

/* ------------------------------------------------------------ every post-processing configuration */
/* libjpeg API decode with quantize_colors (1-pass / 2-pass, dither none/ordered/FS) or without, any
   out_color_space incl. JCS_RGB565, merged or separate upsampling, scale, optional jpeg_crop_scanline and
   jpeg_skip_scanlines; max_lines rows per jpeg_read_scanlines call.  Every row buffer has EXACTLY the
   documented row size and ends at a guard page; the row-pointer ARRAY has min(max_lines, rows remaining)
   entries and ends at a guard page too, so a call that delivers more than output_height - output_scanline
   rows faults on it. */
static void run_pp_case(const char *line)
{
  kase K, *k = &K;
  char src[8];
  memset(k, 0, sizeof *k);
  gets_(line, "src", src, sizeof src);
  strcpy(k->kind, "pk"); strcpy(k->api, "dec");
  k->bits = 8; k->w = geti(line, "w", 1); k->h = geti(line, "h", 1); k->ss = geti(line, "ss", 0);
  k->fast = geti(line, "fast", 0); k->num = geti(line, "num", 1); k->den = geti(line, "den", 1);
  int maxl = geti(line, "max", 2), dither = geti(line, "dither", 0), quant = geti(line, "quant", 0);
  int cs = geti(line, "cs", 0), cx = geti(line, "cx", 0), cw = geti(line, "cw", 0), sk = geti(line, "sk", 0);
  int ncol = geti(line, "ncol", 64);
  if (k->ss < 0 || k->ss >= TJ_NUMSAMP || k->w < 1 || k->h < 1 || maxl < 1 || maxl > 16 || k->den < 1 || quant < 0 || quant > 2) { printf("?\n"); return; }
  k->pf = TJPF_RGB;
  if (!strcmp(src, "gray")) k->ss = TJSAMP_GRAY;
  if (!strcmp(src, "rgb")) k->rgbcs = 1;
  { int hs = geti(line, "hs", 0), vs = geti(line, "vs", 0);
    if (hs >= 1 && hs <= 4 && vs >= 1 && vs <= 4) { if (make_jpeg_api(k, hs, vs)) { printf("err %s\n", k->err); return; } }
    else if (make_jpeg(k)) { printf("err %s\n", k->err); return; } }
  static const J_COLOR_SPACE css[4] = { JCS_RGB, JCS_RGB565, JCS_EXT_RGBX, JCS_GRAYSCALE };
  gbuf g[16], ga; int ng = 0;
  uint8_t *mask = NULL;
  volatile size_t rowbytes = 0; volatile long H = 0;
  volatile long total = 0, over_at = -1, over_ret = 0, over_max = 0;
  volatile int canary_bad = 0, outcome = 0, fb = -1; volatile long coff = 0, foff = 0;
  memset(&ga, 0, sizeof ga);
  for (int pass = 0; pass < 2 && !outcome && over_at < 0; pass++) {
    struct jpeg_decompress_struct cinfo;
    struct jpeg_error_mgr jerr;
    volatile int created = 0;
    int rc;
    total = 0;
    in_call = 1;
    rc = sigsetjmp(jb, 1);
    if (rc == 0) {
      arm(8000);
      cinfo.err = jpeg_std_error(&jerr);
      jerr.error_exit = rs_error_exit; jerr.output_message = rs_output_message;
      jpeg_create_decompress(&cinfo); created = 1;
      jpeg_mem_src(&cinfo, k->jpeg, (unsigned long)k->jpegSize);
      jpeg_read_header(&cinfo, TRUE);
      cinfo.scale_num = k->num; cinfo.scale_denom = k->den;
      cinfo.do_fancy_upsampling = !k->fast;
      cinfo.out_color_space = css[cs & 3];
      cinfo.dither_mode = dither == 2 ? JDITHER_FS : (dither == 1 ? JDITHER_ORDERED : JDITHER_NONE);
      if (quant) { cinfo.quantize_colors = TRUE; cinfo.two_pass_quantize = (quant == 2); cinfo.desired_number_of_colors = ncol; }
      jpeg_start_decompress(&cinfo);
      if (cw > 0) { JDIMENSION xo = (JDIMENSION)cx, wd = (JDIMENSION)cw; jpeg_crop_scanline(&cinfo, &xo, &wd); }
      size_t bpp = quant ? 1 : (cinfo.out_color_space == JCS_RGB565 ? 2 : (size_t)cinfo.out_color_components);
      rowbytes = (size_t)cinfo.output_width * bpp; H = cinfo.output_height;
      if (pass == 0) {
        for (int i = 0; i < maxl; i++) { if (galloc(&g[i], rowbytes, 1)) siglongjmp(jb, 2); ng++; }
        if (galloc(&ga, sizeof(JSAMPROW) * (size_t)maxl, 1)) siglongjmp(jb, 2);
        mask = calloc((size_t)H + 1, rowbytes + 1);
      }
      if (sk > 0 && sk < H) jpeg_skip_scanlines(&cinfo, (JDIMENSION)sk);
      while (cinfo.output_scanline < cinfo.output_height && over_at < 0) {
        JDIMENSION at = cinfo.output_scanline, n;
        long remaining = (long)cinfo.output_height - (long)at;
        int nvalid = remaining < maxl ? (int)remaining : maxl;
        JSAMPROW *arr = (JSAMPROW *)(ga.buf + ga.size) - nvalid;       /* array ends at the guard page */
        gslack_fill(&ga);
        for (int i = 0; i < maxl; i++) { memset(g[i].buf, FILL[pass], rowbytes); gslack_fill(&g[i]); }
        memset(ga.buf, CANARY, ga.size);
        for (int i = 0; i < nvalid; i++) arr[i] = g[i].buf;
        n = jpeg_read_scanlines(&cinfo, arr, (JDIMENSION)maxl);
        total += n;
        if ((long)n > nvalid) { over_at = at; over_ret = n; over_max = nvalid; break; }
        for (int i = 0; i < maxl; i++) {
          long o;
          if (!canary_bad && gslack_bad(&g[i], &o)) { canary_bad = 1; coff = o; }
          if (i < (int)n)
            for (size_t j = 0; j < rowbytes; j++) if (g[i].buf[j] != FILL[pass]) mask[(at + i) * rowbytes + j] = 1;
        }
        if (n == 0) break;
      }
      if (over_at < 0) jpeg_finish_decompress(&cinfo);
    }
    in_call = 0; arm(0);
    if (rc == 1) {
      outcome = 3;
      if (ga.map && fault_addr >= (uintptr_t)ga.map && fault_addr < (uintptr_t)ga.map + ga.maplen) { fb = 99; foff = (long)(fault_addr - (uintptr_t)(ga.buf + ga.size)); }
      for (int i = 0; i < ng; i++)
        if (fault_addr >= (uintptr_t)g[i].map && fault_addr < (uintptr_t)g[i].map + g[i].maplen) { fb = i; foff = (long)(fault_addr - (uintptr_t)g[i].buf); }
    } else if (rc == 2) outcome = 1;
    else if (rc == 3) outcome = 4;
    if (created && rc != 1 && rc != 3) jpeg_destroy_decompress(&cinfo);
  }
  if (outcome == 3) {
    if (fb == 99) printf("segv buf=99 off=%ld pass=0 (row-pointer array: entry %ld past the rows that remain)\n", (long)foff, (long)foff / 8);
    else printf("segv buf=%d off=%ld pass=0\n", (int)fb, (long)foff);
  } else if (outcome == 4) printf("hang\n");
  else if (outcome == 1) printf("err jpeg\n");
  else if (over_at >= 0) printf("over at=%ld max=%ld ret=%ld row=%ld\n", (long)over_at, (long)over_max, (long)over_ret, (long)over_max);
  else {
    size_t miss = 0; long first = (sk > 0 && sk < H) ? sk : 0;
    for (size_t j = (size_t)first * rowbytes; j < (size_t)H * rowbytes; j++) if (!mask[j]) miss++;
    printf("ok total=%ld rowbytes=%zu ", (long)total, (size_t)rowbytes);
    /* colormapped output may legitimately equal a fill byte in both passes only if index 0x5A and 0xA5 coincide: never */
    if (miss) printf("partial%zu", miss); else printf("full");
    printf(" ; canary=");
    if (canary_bad) printf("bad:b0@%ld", (long)coff); else printf("ok");
    printf(" det=same\n");
  }
  free(mask);
  gfree_all();
  tj3Free(k->jpeg);
}

/* ------------------------------------------------------------ SIMD kernels directly */
#ifdef WITH_SIMD
typedef unsigned char **SARR;
typedef void (*dcol_fn)(unsigned int, SARR *, unsigned int, SARR, int);          /* ycc -> rgb */
typedef void (*mrg_fn)(unsigned int, SARR *, unsigned int, SARR);                /* merged upsample */
typedef void (*ccol_fn)(unsigned int, SARR, SARR *, unsigned int, int);          /* rgb -> ycc / gray */
#define D(n) extern void n(unsigned int, SARR *, unsigned int, SARR, int);
#define M(n) extern void n(unsigned int, SARR *, unsigned int, SARR);
#define C(n) extern void n(unsigned int, SARR, SARR *, unsigned int, int);
D(jsimd_ycc_extrgb_convert_sse2) D(jsimd_ycc_extrgbx_convert_sse2) D(jsimd_ycc_extrgb_convert_avx2) D(jsimd_ycc_extrgbx_convert_avx2)
M(jsimd_h2v1_extrgb_merged_upsample_sse2) M(jsimd_h2v1_extrgbx_merged_upsample_sse2) M(jsimd_h2v1_extrgb_merged_upsample_avx2) M(jsimd_h2v1_extrgbx_merged_upsample_avx2)
M(jsimd_h2v2_extrgb_merged_upsample_sse2) M(jsimd_h2v2_extrgbx_merged_upsample_sse2) M(jsimd_h2v2_extrgb_merged_upsample_avx2) M(jsimd_h2v2_extrgbx_merged_upsample_avx2)
C(jsimd_extrgb_ycc_convert_sse2) C(jsimd_extrgbx_ycc_convert_sse2) C(jsimd_extrgb_ycc_convert_avx2) C(jsimd_extrgbx_ycc_convert_avx2)
C(jsimd_extrgb_gray_convert_sse2) C(jsimd_extrgbx_gray_convert_sse2) C(jsimd_extrgb_gray_convert_avx2) C(jsimd_extrgbx_gray_convert_avx2)

static void run_kern_case(const char *line)
{
  char kn[16], fn[8];
  gets_(line, "k", kn, sizeof kn); gets_(line, "fn", fn, sizeof fn);
  int n = geti(line, "n", 1), side = geti(line, "side", 1);
  int avx2 = !strncmp(kn, "avx2", 4), ps = kn[strlen(kn) - 1] - '0', isst = strstr(kn, "_st") != NULL;
  if (n < 1 || n > 4096 || (ps != 3 && ps != 4)) { printf("?\n"); return; }
  /* internal rows: generously sized and aligned, like alloc_sarray rows */
  size_t iw = ((size_t)n + 63) / 64 * 64 + 128;
  uint8_t *ibuf = aligned_alloc(64, iw * 4);
  uint8_t *irow[4] = { ibuf, ibuf + iw, ibuf + 2 * iw, ibuf + 3 * iw };
  rs = 99 + n; for (size_t i = 0; i < iw * 4; i++) ibuf[i] = rnd();
  uint8_t *y0[2] = { irow[0], irow[3] }, *cb[1] = { irow[1] }, *cr[1] = { irow[2] };
  SARR img[3] = { y0, cb, cr };
  int h2v2 = !strcmp(fn, "h2v2");
  size_t rowbytes = (size_t)n * ps;
  gbuf g[2]; uint8_t *mod[2] = { NULL, NULL };
  int nrows = h2v2 ? 2 : 1, outcome = 0; long off = 0; int fb = -1;
  for (int r = 0; r < nrows; r++) { galloc(&g[r], rowbytes, side); mod[r] = calloc(rowbytes, 1); }
  int canary_bad = 0; long coff = 0;
  for (int pass = 0; pass < 2 && !outcome; pass++) {
    for (int r = 0; r < nrows; r++) {
      grw(&g[r]);
      if (isst) memset(g[r].buf, FILL[pass], rowbytes);
      else { rs = 5 + n; for (size_t i = 0; i < rowbytes; i++) g[r].buf[i] = rnd(); }
      gslack_fill(&g[r]);
      if (!isst) gro(&g[r]);
    }
    uint8_t *orow[2] = { g[0].buf, nrows > 1 ? g[1].buf : NULL };
    in_call = 1;
    if (sigsetjmp(jb, 1) == 0) {
      if (isst && !strcmp(fn, "ycc")) {
        dcol_fn f = avx2 ? (ps == 3 ? jsimd_ycc_extrgb_convert_avx2 : jsimd_ycc_extrgbx_convert_avx2)
                         : (ps == 3 ? jsimd_ycc_extrgb_convert_sse2 : jsimd_ycc_extrgbx_convert_sse2);
        f(n, img, 0, orow, 1);
      } else if (isst) {
        mrg_fn f = h2v2 ? (avx2 ? (ps == 3 ? jsimd_h2v2_extrgb_merged_upsample_avx2 : jsimd_h2v2_extrgbx_merged_upsample_avx2)
                                : (ps == 3 ? jsimd_h2v2_extrgb_merged_upsample_sse2 : jsimd_h2v2_extrgbx_merged_upsample_sse2))
                        : (avx2 ? (ps == 3 ? jsimd_h2v1_extrgb_merged_upsample_avx2 : jsimd_h2v1_extrgbx_merged_upsample_avx2)
                                : (ps == 3 ? jsimd_h2v1_extrgb_merged_upsample_sse2 : jsimd_h2v1_extrgbx_merged_upsample_sse2));
        f(n, img, 0, orow);
      } else {
        int gray = !strcmp(fn, "gray");
        ccol_fn f = gray ? (avx2 ? (ps == 3 ? jsimd_extrgb_gray_convert_avx2 : jsimd_extrgbx_gray_convert_avx2)
                                 : (ps == 3 ? jsimd_extrgb_gray_convert_sse2 : jsimd_extrgbx_gray_convert_sse2))
                         : (avx2 ? (ps == 3 ? jsimd_extrgb_ycc_convert_avx2 : jsimd_extrgbx_ycc_convert_avx2)
                                 : (ps == 3 ? jsimd_extrgb_ycc_convert_sse2 : jsimd_extrgbx_ycc_convert_sse2));
        f(n, orow, img, 0, 1);
      }
    } else {
      outcome = 3;
      for (int r = 0; r < nrows; r++)
        if (fault_addr >= (uintptr_t)g[r].map && fault_addr < (uintptr_t)g[r].map + g[r].maplen) { fb = r; off = (long)(fault_addr - (uintptr_t)g[r].buf); }
    }
    in_call = 0;
    if (outcome) break;
    for (int r = 0; r < nrows; r++) {
      long o;
      if (!canary_bad && gslack_bad(&g[r], &o)) { canary_bad = 1; coff = o; }
      if (isst) for (size_t j = 0; j < rowbytes; j++) if (g[r].buf[j] != FILL[pass]) mod[r][j] = 1;
    }
  }
  if (outcome == 3) printf("segv buf=%d off=%ld pass=0\n", fb, off);
  else {
    printf("ok b0=%zu:", rowbytes);
    if (!isst) printf("r");
    else {
      if (nrows > 1) for (size_t j = 0; j < rowbytes; j++) mod[0][j] &= mod[1][j];   /* both rows must be full */
      print_ivs(mod[0], rowbytes);
    }
    printf(" ; canary=");
    if (canary_bad) printf("bad:b0@%ld", coff); else printf("ok");
    printf(" det=same\n");
  }
  for (int r = 0; r < nrows; r++) free(mod[r]);
  gfree_all();
  free(ibuf);
}

/* value-level calls of the down/up-sampling kernels: rows are exactly as long as alloc_sarray makes them
   (padded to a multiple of 64 samples) and end at a PROT_NONE page */
typedef void (*ds_fn)(unsigned int, int, unsigned int, unsigned int, SARR, SARR);
typedef void (*fu_fn)(int, unsigned int, SARR, SARR *);
extern void jsimd_h2v1_downsample_sse2(unsigned int, int, unsigned int, unsigned int, SARR, SARR);
extern void jsimd_h2v2_downsample_sse2(unsigned int, int, unsigned int, unsigned int, SARR, SARR);
extern void jsimd_h2v1_downsample_avx2(unsigned int, int, unsigned int, unsigned int, SARR, SARR);
extern void jsimd_h2v2_downsample_avx2(unsigned int, int, unsigned int, unsigned int, SARR, SARR);
extern void jsimd_h2v1_fancy_upsample_sse2(int, unsigned int, SARR, SARR *);
extern void jsimd_h2v2_fancy_upsample_sse2(int, unsigned int, SARR, SARR *);
extern void jsimd_h2v1_fancy_upsample_avx2(int, unsigned int, SARR, SARR *);
extern void jsimd_h2v2_fancy_upsample_avx2(int, unsigned int, SARR, SARR *);

static size_t unhex(const char *line, const char *key, uint8_t *dst, size_t cap)
{
  char pat[16]; snprintf(pat, sizeof pat, " %s=", key);
  const char *p = strstr(line, pat); size_t n = 0;
  if (!p) return 0;
  for (p += strlen(pat); p[0] && p[1] && p[0] != ' ' && p[0] != '\n' && n < cap; p += 2) {
    unsigned v; if (sscanf(p, "%2x", &v) != 1) break; dst[n++] = (uint8_t)v;
  }
  return n;
}

static void run_kv_case(const char *line)
{
  char kn[8], isa[8];
  gets_(line, "k", kn, sizeof kn); gets_(line, "isa", isa, sizeof isa);
  int n = geti(line, "n", 1), avx2 = !strcmp(isa, "avx2");
  int isds = kn[0] == 'd', two = kn[2] == '2';
  if (n < 1 || n > 2000) { printf("?\n"); return; }
  size_t oc = isds ? (size_t)((n + 15) / 16) * 8 : 0;
  size_t inw = isds ? 2 * oc : (size_t)n, outw = isds ? oc : 2 * (size_t)n;
  size_t pin = (inw + 63) / 64 * 64, pout = (outw + 63) / 64 * 64;
  gbuf gi[3], go[2]; uint8_t *ir[3], *orow[2];
  static const char *keys[3] = { "r0", "r1", "r2" };
  int nin = isds ? (two ? 2 : 1) : (two ? 3 : 1), nout = (!isds && two) ? 2 : 1;
  for (int i = 0; i < nin; i++) {
    galloc(&gi[i], pin, 1); memset(gi[i].buf, 0xEE, pin); gslack_fill(&gi[i]);
    unhex(line, keys[i], gi[i].buf, (size_t)n); ir[i] = gi[i].buf;
  }
  for (int i = 0; i < nout; i++) { galloc(&go[i], pout, 1); memset(go[i].buf, 0x5A, pout); gslack_fill(&go[i]); orow[i] = go[i].buf; }
  int sj;
  in_call = 1;
  sj = sigsetjmp(jb, 1);
  if (sj == 0) {
    arm(5000);
    if (isds) {
      ds_fn f = two ? (avx2 ? jsimd_h2v2_downsample_avx2 : jsimd_h2v2_downsample_sse2) : (avx2 ? jsimd_h2v1_downsample_avx2 : jsimd_h2v1_downsample_sse2);
      f((unsigned)n, two ? 2 : 1, 1, (unsigned)(oc / 8), ir, orow);
    } else if (!two) {
      SARR od = orow;
      (avx2 ? jsimd_h2v1_fancy_upsample_avx2 : jsimd_h2v1_fancy_upsample_sse2)(1, (unsigned)n, ir, &od);
    } else {
      /* input_data[-1], [0], [1]: row above, current, below; max_v_samp_factor 2 -> two output rows */
      SARR od = orow;
      (avx2 ? jsimd_h2v2_fancy_upsample_avx2 : jsimd_h2v2_fancy_upsample_sse2)(2, (unsigned)n, ir + 1, &od);
    }
  }
  in_call = 0; arm(0);
  if (sj == 3) printf("hang\n");
  else if (sj == 1) {
    int fb = -1; long off = 0;
    for (int i = 0; i < nactive; i++)
      if (fault_addr >= (uintptr_t)active[i]->map && fault_addr < (uintptr_t)active[i]->map + active[i]->maplen) { fb = i; off = (long)(fault_addr - (uintptr_t)active[i]->buf); }
    printf("segv buf=%d off=%ld pass=0\n", fb, off);
  } else {
    printf("ok");
    for (int r = 0; r < nout; r++) { printf(" "); for (size_t j = 0; j < outw; j++) printf("%02x", orow[r][j]); }
    long o; int bad = 0;
    for (int i = 0; i < nactive; i++) if (gslack_bad(active[i], &o)) bad = 1;
    printf(" ; canary=%s det=same\n", bad ? "bad:b0@0" : "ok");
  }
  gfree_all();
}
#else
static void run_kern_case(const char *line) { (void)line; printf("nosimd\n"); }
static void run_kv_case(const char *line) { (void)line; printf("nosimd\n"); }
#endif

int main(void)
{
  static char line[65536];
  struct sigaction sa;
  setvbuf(stdout, NULL, _IOLBF, 0);
  memset(&sa, 0, sizeof sa);
  sa.sa_sigaction = on_fault;
  sa.sa_flags = SA_SIGINFO | SA_NODEFER;
  sigemptyset(&sa.sa_mask);
  sigaction(SIGSEGV, &sa, NULL);
  sigaction(SIGBUS, &sa, NULL);
  { struct sigaction sb; memset(&sb, 0, sizeof sb); sb.sa_handler = on_alarm; sb.sa_flags = SA_NODEFER; sigemptyset(&sb.sa_mask); sigaction(SIGALRM, &sb, NULL); }
  while (fgets(line, sizeof line, stdin)) {
    if (!strncmp(line, "pk ", 3) || !strncmp(line, "yuv ", 4) || !strncmp(line, "hist ", 5)) run_api_case(line);
    else if (!strncmp(line, "kern ", 5)) run_kern_case(line);
    else if (!strncmp(line, "rs ", 3)) run_rs_case(line);
    else if (!strncmp(line, "kv ", 3)) run_kv_case(line);
    else if (!strncmp(line, "r565 ", 5)) run_r565_case(line);
    else if (!strncmp(line, "pp ", 3)) run_pp_case(line);
    else if (!strncmp(line, "big ", 4)) run_big_case(line);
    else if (!strncmp(line, "simd", 4)) {
#ifdef WITH_SIMD
      printf("simd=1\n");
#else
      printf("simd=0\n");
#endif
    } else printf("?\n");
  }
  return 0;
}
