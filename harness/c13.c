/* C13 correspondence/oracle harness.
 *
 * Runs the REAL destination managers of the working tree (src/jdatadst-tj.c is
 * compiled right here, src/jdatadst.c in c13_ijg.c, both with malloc/free/memcpy
 * routed to the traced heap below) under histories read from stdin, one per line,
 * and prints one canonical result line per history (same format as
 * ml/C13_driver.ml).
 *
 *   hist <tj|ijg|tjx> ; op ; op ; ...
 *     A n rc        buf = alloc(n) (rc=1: at the address most recently freed); size = n
 *     Z z           size = z
 *     N             buf = NULL
 *     S             remember buf
 *     T k           buf = k-th remembered pointer
 *     F             free(buf); buf = NULL
 *     G k           free(k-th remembered pointer)
 *     C alloc seed c1 c2 ...   one compression with the HARNESS as producer on the real
 *                   destination manager: ci>0 chunk of ci bytes through the jchuff.c
 *                   LOAD_BUFFER/STORE_BUFFER protocol, ci<0 -ci single emit_byte()s, 0 = error exit
 *     J alloc N kind w h pf subsamp quality seed icc xop mode
 *                   one REAL tj3Compress8 (xop<0) / tj3Transform (xop>=0) on a persistent handle
 *   size kind w h pf subsamp quality seed icc xop mode     -> "size N dec=ok"
 *   wc kind w h pf subsamp quality seed icc prec           -> worst-case size probe
 *   blk p0 .. p63                                          -> coefficients + scan bytes of one gray block at Q100
 *   icc len                                                -> bytes added by an ICC profile of len bytes
 */
#include <stdio.h>
#include <stdlib.h>
#include <string.h>
#include <setjmp.h>
#include <stdarg.h>
#include <signal.h>
#include <stdint.h>
#include <unistd.h>
#include <sys/mman.h>
#include "c13_heap.h"
#define JPEG_INTERNALS
#include "jinclude.h"
#include "jpeglib.h"
#include "jerror.h"
#include "turbojpeg.h"

#if defined(__SANITIZE_ADDRESS__)
#include <sanitizer/asan_interface.h>
#define LIBC_HEAP 1
#else
#define LIBC_HEAP 0
#endif

/* ------------------------------------------------------------------ log */
static char *lg; static size_t lgn, lgcap;
static void lg_add(const char *fmt, ...)
{
  va_list ap; int n;
  if (lgn + 256 > lgcap) { lgcap = lgcap ? lgcap * 2 : 1 << 16; lg = realloc(lg, lgcap); }
  va_start(ap, fmt); n = vsnprintf(lg + lgn, lgcap - lgn, fmt, ap); va_end(ap);
  lgn += n;
}
static jmp_buf stop_jb;         /* first overrun/over-read ends the history */
static int stop_armed;

/* ----------------------------------------------------------- traced heap */
typedef struct {
  int id; unsigned char *addr; size_t size; int owner /* 0 lib 1 caller */; int freed, handed;
  unsigned char *map; size_t maplen; size_t room;   /* bytes available from addr up to the guard page */
} blk_t;
#define MAXBLK 8192
static blk_t blks[MAXBLK]; static int nblk;
static unsigned char *lastfreed;
static unsigned char *cur_passed;       /* pointer the caller passed to the current call */
static long pagesz;

static blk_t *blk_live(unsigned char *p)
{ int i; for (i = nblk - 1; i >= 0; i--) if (blks[i].addr == p && !blks[i].freed) return &blks[i]; return NULL; }
static blk_t *blk_last(unsigned char *p)
{ int i; for (i = nblk - 1; i >= 0; i--) if (blks[i].addr == p) return &blks[i]; return NULL; }
static int id_of(unsigned char *p) { blk_t *b = blk_last(p); return b ? b->id : 0; }

static void *dm_alloc(size_t n, int owner, int recycle, int *recycled)
{
  blk_t *b; unsigned char *a = NULL;
  if (nblk >= MAXBLK) { fprintf(stderr, "block table full\n"); exit(9); }
  b = &blks[nblk];
  memset(b, 0, sizeof(*b));
  if (recycled) *recycled = 0;
  if (recycle && lastfreed && !blk_live(lastfreed)) {
    blk_t *o = blk_last(lastfreed);
#if LIBC_HEAP
    /* freed blocks are only poisoned (see dm_release), so the address can be handed out again:
       the first n bytes become addressable, the rest stays poisoned */
    if (o && n <= o->room) {
      a = o->addr; b->map = o->map; b->room = o->room;
      ASAN_UNPOISON_MEMORY_REGION(a, n);
      if (recycled) *recycled = 1;
    } else lg_add("norecycle ");
#else
    if (o && n <= o->room) {
      mprotect(o->map, o->maplen - pagesz, PROT_READ | PROT_WRITE);
      a = o->addr; b->map = o->map; b->maplen = o->maplen; b->room = o->room;
      memset(a, 0xA5, o->room);         /* canary behind the smaller block */
      if (recycled) *recycled = 1;
    } else lg_add("norecycle ");
#endif
  }
  if (!a) {
#if LIBC_HEAP
    a = malloc(n ? n : 1); b->room = n; b->map = a;
#else
    size_t body = (n + pagesz - 1) / pagesz * pagesz;
    b->maplen = body + pagesz;
    b->map = mmap(NULL, b->maplen, PROT_READ | PROT_WRITE, MAP_PRIVATE | MAP_ANONYMOUS, -1, 0);
    if (b->map == MAP_FAILED) { fprintf(stderr, "mmap failed\n"); exit(9); }
    mprotect(b->map + body, pagesz, PROT_NONE);
    a = b->map + body - n; b->room = n;
#endif
    memset(a, 0xCD, n);
  }
  b->id = nblk + 1; b->addr = a; b->size = n; b->owner = owner;
  nblk++;
  lg_add("m%d:%zu:%c ", b->id, n, owner ? 'C' : 'L');
  return a;
}

static void dm_release(blk_t *b)
{
  b->freed = 1; lastfreed = b->addr;
#if LIBC_HEAP
  ASAN_POISON_MEMORY_REGION(b->addr, b->room ? b->room : 1);     /* any later access is reported */
#else
  mprotect(b->map, b->maplen, PROT_NONE);       /* any later access faults */
#endif
}

static void dm_free(void *pv, int by)
{
  unsigned char *p = pv; blk_t *b;
  if (!p) return;
  b = blk_live(p);
  if (!b) {
    if (by == 0) lg_add("!df%d ", id_of(p)); else lg_add("?free ");
    return;
  }
  lg_add("f%d:%c ", b->id, by ? 'C' : 'L');
  if (by == 0) {
    if (b->owner == 1) lg_add("!ff%d ", b->id);
    else if (b->handed && p != cur_passed) lg_add("!fh%d ", b->id);
  } else if (b->owner == 0 && !b->handed) lg_add("?free ");
  dm_release(b);
}

void *dm_malloc_lib(size_t n) { return dm_alloc(n, 0, 0, NULL); }
void dm_free_lib(void *p) { dm_free(p, 0); }

static void stop_now(void)
{
  lg_add("STOP");
  if (stop_armed) longjmp(stop_jb, 1);
  printf("%s\n", lg); exit(0);
}

void *dm_memcpy_lib(void *d, const void *s, size_t n)
{
  blk_t *b = blk_live((unsigned char *)s);
  if (!b) { lg_add("!or%d:%zu ", id_of((unsigned char *)s), n); stop_now(); }
  if (n > b->size) { lg_add("!or%d:%zu ", b->id, n); stop_now(); }
  return memcpy(d, s, n);
}

/* block whose start is the greatest one <= p (live one preferred among equals) */
static blk_t *blk_containing(unsigned char *p)
{
  int i; blk_t *best = NULL;
  for (i = 0; i < nblk; i++) {
    blk_t *b = &blks[i];
    if (b->addr > p) continue;
    if (!best || b->addr > best->addr || (b->addr == best->addr && (!b->freed || best->freed))) best = b;
  }
  return best;
}

/* capacity the caller granted for the buffer it passed to the current call: *outsize, except that a
   TurboJPEG buffer reused from the previous successful call with reallocation enabled is granted whole */
static blk_t *granted_blk; static size_t granted;
static void grant(unsigned char *buf, size_t size, int whole)
{
  granted_blk = buf ? blk_live(buf) : NULL;
  if (granted_blk) granted = (whole || size > granted_blk->size) ? granted_blk->size : size;
}
/* before a real-library call: canary between the granted capacity and the end of the block */
static void grant_canary(void)
{ if (granted_blk && granted < granted_blk->size) memset(granted_blk->addr + granted, 0xA5, granted_blk->size - granted); }
static void grant_check(void)
{
  size_t k;
  if (!granted_blk || granted_blk->freed) return;
  for (k = granted; k < granted_blk->size; k++)
    if (granted_blk->addr[k] != 0xA5) { lg_add("!ov%d@%zu ", granted_blk->id, k); granted_blk = NULL; stop_now(); }
}

/* the harness is the producer: every write is checked against the real block first */
static void check_write(unsigned char *p, size_t n)
{
  blk_t *b; size_t off;
  if (n == 0) return;
  b = blk_containing(p);
  if (b && b == granted_blk && !b->freed && (size_t)(p - b->addr) + n > granted) {
    size_t o = (size_t)(p - b->addr); lg_add("!ov%d@%zu ", b->id, o > granted ? o : granted); stop_now(); }
  if (!b) { lg_add("!ov0@0 "); stop_now(); }
  off = (size_t)(p - b->addr);
  if (b->freed) { lg_add("!ov%d@%zu ", b->id, off); stop_now(); }
  if (off + n > b->size) { lg_add("!ov%d@%zu ", b->id, off > b->size ? off : b->size); stop_now(); }
}

/* recycled (smaller) blocks carry a canary up to the guard page: the library wrote there? */
static void canary_check(void)
{
#if !LIBC_HEAP
  int i; size_t k;
  for (i = 0; i < nblk; i++) {
    blk_t *b = &blks[i];
    if (b->freed || b->room <= b->size) continue;
    for (k = b->size; k < b->room; k++)
      if (b->addr[k] != 0xA5) { lg_add("!ov%d@%zu ", b->id, k); stop_now(); }
  }
#endif
}

static void heap_reset(void)
{
  int i;
  for (i = 0; i < nblk; i++) {
    int j, shared = 0;
    for (j = i + 1; j < nblk; j++) if (blks[j].map == blks[i].map) shared = 1;
    if (shared) continue;
#if LIBC_HEAP
    ASAN_UNPOISON_MEMORY_REGION(blks[i].map, blks[i].room ? blks[i].room : 1);
    free(blks[i].map);
#else
    munmap(blks[i].map, blks[i].maplen);
#endif
  }
  nblk = 0; lastfreed = NULL; cur_passed = NULL; granted_blk = NULL;
}

/* a fault inside a guard page / freed block of the traced heap = overrun by the library */
static void on_segv(int sig, siginfo_t *si, void *ctx)
{
  unsigned char *p = si->si_addr; int i; char tmp[128];
  for (i = nblk - 1; i >= 0; i--)
    if (blks[i].map && p >= blks[i].map && p < blks[i].map + blks[i].maplen) {
      int n = snprintf(tmp, sizeof tmp, "!ov%d@%ld STOP SEGV\n", blks[i].id, (long)(p - blks[i].addr));
      if (lg) write(1, lg, lgn);
      write(1, tmp, n);
      _exit(3);
    }
  if (lg) write(1, lg, lgn);
  write(1, "SEGV-ELSEWHERE\n", 15);
  _exit(4);
}

/* -------------------------------- the TurboJPEG destination manager itself */
#define malloc(n) dm_malloc_lib(n)
#define free(p) dm_free_lib(p)
#define memcpy(d, s, n) dm_memcpy_lib(d, s, n)
#include "jdatadst-tj.c"
#undef malloc
#undef free
#undef memcpy

/* ------------------------------------------------------------ utilities */
static uint32_t adler(const unsigned char *p, size_t n)
{ uint32_t a = 1, b = 0; size_t i; for (i = 0; i < n; i++) { a = (a + p[i]) % 65521; b = (b + a) % 65521; } return b * 65536 + a; }
static unsigned char gen_byte(long seed, long j) { return (unsigned char)((seed + j * 131 + (j >> 8) * 7) & 255); }

static uint64_t rs;
static uint32_t rnd(void) { rs ^= rs << 13; rs ^= rs >> 7; rs ^= rs << 17; return (uint32_t)(rs >> 11); }

static const unsigned char adv_block[64] = {
  0, 3, 250, 255, 255, 255, 13, 4,      255, 255, 255, 0, 255, 250, 0, 0,
  15, 1, 252, 255, 255, 0, 4, 0,        0, 246, 0, 0, 0, 3, 251, 255,
  255, 0, 0, 0, 2, 255, 6, 0,           223, 255, 9, 14, 255, 247, 0, 255,
  250, 4, 0, 255, 10, 252, 0, 0,        255, 255, 0, 255, 0, 0, 15, 255 };

/* kind: 0 flat 1 gradient 2 uniform noise 3 binary noise 4 tiled adversarial block 5 smooth+noise */
static unsigned char *make_image(int kind, int w, int h, int ps, long seed)
{
  unsigned char *img = malloc((size_t)w * h * ps + 16); int x, y, c;
  rs = 88172645463325252ULL ^ ((uint64_t)seed * 0x9E3779B97F4A7C15ULL); if (!rs) rs = 1;
  for (y = 0; y < h; y++) for (x = 0; x < w; x++) for (c = 0; c < ps; c++) {
    int v;
    switch (kind) {
    case 0: v = (int)(seed & 255); break;
    case 1: v = (x * 3 + y * 5 + c * 40 + (int)seed) & 255; break;
    case 2: v = rnd() & 255; break;
    case 3: v = (rnd() & 1) ? 255 : 0; break;
    case 4: v = adv_block[(y & 7) * 8 + (x & 7)]; break;
    default: v = ((x * 2 + y) & 255) ^ ((rnd() & 3) == 0 ? (int)(rnd() & 63) : 0); break;
    }
    img[((size_t)y * w + x) * ps + c] = (unsigned char)v;
  }
  return img;
}

/* ------------------------------------------------ real TurboJPEG compress */
typedef struct { int kind, w, h, pf, subsamp, quality; long seed; long icc; int xop, mode; } spec_t;

static int parse_spec(char **pp, spec_t *s)
{
  char *p = *pp;
  s->kind = strtol(p, &p, 10); s->w = strtol(p, &p, 10); s->h = strtol(p, &p, 10); s->pf = strtol(p, &p, 10);
  s->subsamp = strtol(p, &p, 10); s->quality = strtol(p, &p, 10); s->seed = strtol(p, &p, 10);
  s->icc = strtol(p, &p, 10); s->xop = strtol(p, &p, 10); s->mode = strtol(p, &p, 10);
  *pp = p; return 0;
}

static void set_params(tjhandle tj, const spec_t *s, int with_mode)
{
  tj3Set(tj, TJPARAM_QUALITY, s->quality);
  tj3Set(tj, TJPARAM_SUBSAMP, s->subsamp);
  tj3Set(tj, TJPARAM_PROGRESSIVE, with_mode && (s->mode & 1) ? 1 : 0);
  tj3Set(tj, TJPARAM_OPTIMIZE, with_mode && (s->mode & 2) ? 1 : 0);
  tj3Set(tj, TJPARAM_ARITHMETIC, with_mode && (s->mode & 4) ? 1 : 0);
  tj3Set(tj, TJPARAM_LOSSLESS, with_mode && (s->mode & 8) ? 1 : 0);
  if (with_mode && (s->mode & 8)) { tj3Set(tj, TJPARAM_LOSSLESSPSV, 1 + (int)(s->seed % 7)); tj3Set(tj, TJPARAM_LOSSLESSPT, 0); }
  tj3Set(tj, TJPARAM_RESTARTROWS, 0);
  tj3Set(tj, TJPARAM_RESTARTBLOCKS, with_mode && (s->mode & 16) ? 3 : 0);
  if (with_mode && (s->mode & 512)) tj3Set(tj, TJPARAM_RESTARTROWS, 1);
}

static unsigned char *make_icc(long n)
{ unsigned char *b = malloc(n + 1); long i; for (i = 0; i < n; i++) b[i] = (unsigned char)(i * 7 + 3); return b; }

/* custom filter of tj3Transform: coefficients of maximal magnitude (8-bit data: |v| <= 1023), which
   take the longest codes of the standard tables (16 bits beginning with 0xFF => byte stuffing) */
static int hostile_pattern, hostile_max = 1023;
static int hostile_filter(short *coeffs, tjregion arrayRegion, tjregion planeRegion, int componentID,
                          int transformID, tjtransform *transform)
{
  int i, n = (arrayRegion.w / 8) * (arrayRegion.h / 8) * 64;
  uint64_t r = 0x9E3779B97F4A7C15ULL ^ (uint64_t)(hostile_pattern * 1315423911u + componentID);
  for (i = 0; i < n; i++) {
    int v;
    r ^= r << 13; r ^= r >> 7; r ^= r << 17;
    switch (hostile_pattern & 3) {
    case 0: v = hostile_max; break;
    case 1: v = -hostile_max; break;
    case 2: v = (i & 1) ? hostile_max : -hostile_max; break;
    default: v = (hostile_max + 1) / 2 + (int)((r >> 20) % ((hostile_max + 1) / 2)); if (r & 1) v = -v;
             if (hostile_max > 1023 && (r & 6) == 0) v >>= (int)((r >> 8) % 13);   /* many categories: long optimal codes */
             if (v == 0) v = 1; break;
    }
    coeffs[i] = (short)((i % 64 == 0) ? ((hostile_pattern & 4) ? 1016 : 0) : v);
  }
  return 0;
}

/* run the operation described by s on handle tj into (*buf,*size); returns tj rc */
static int do_op(tjhandle tj, const spec_t *s, unsigned char **buf, size_t *size)
{
  int rc, ps = tjPixelSize[s->pf];
  unsigned char *img = make_image(s->kind, s->w, s->h, ps, s->seed);
  unsigned char *icc = NULL;
  if (s->icc > 0) { icc = make_icc(s->icc); tj3SetICCProfile(tj, icc, (size_t)s->icc); }
  else tj3SetICCProfile(tj, NULL, 0);
  if (s->xop < 0) {
    set_params(tj, s, 1);
    rc = tj3Compress8(tj, img, s->w, 0, s->h, s->pf, buf, size);
  } else {
    /* source JPEG: baseline compression of the image on a separate handle */
    tjhandle c = tj3Init(TJINIT_COMPRESS);
    size_t srccap = (size_t)s->w * s->h * ps * 4 + 65536, srcsize = srccap;
    unsigned char *src = malloc(srccap), *src0 = src; tjtransform xf;
    set_params(c, s, 0);
    if (s->mode & 256) {          /* 12-bit source: coefficients up to 2^14 - 1 */
      short *im12 = malloc((size_t)s->w * s->h * ps * 2 + 16); size_t q;
      for (q = 0; q < (size_t)s->w * s->h * ps; q++) im12[q] = (short)(img[q] << 4);
      rc = tj3Compress12(c, im12, s->w, 0, s->h, s->pf, &src, &srcsize);
      free(im12);
    } else
      rc = tj3Compress8(c, img, s->w, 0, s->h, s->pf, &src, &srcsize);
    tj3Destroy(c);
    if (src != src0) { fprintf(stderr, "source buffer grew\n"); exit(9); }
    if (rc == 0) {
      memset(&xf, 0, sizeof xf);
      xf.op = s->xop;
      xf.options = TJXOPT_TRIM | ((s->mode & 1) ? TJXOPT_PROGRESSIVE : 0) | ((s->mode & 2) ? TJXOPT_OPTIMIZE : 0) |
                   ((s->mode & 4) ? TJXOPT_ARITHMETIC : 0) | ((s->mode & 32) ? TJXOPT_GRAY : 0) | ((s->mode & 64) ? TJXOPT_COPYNONE : 0);
      tj3Set(tj, TJPARAM_PROGRESSIVE, (s->mode & 1) ? 1 : 0);
      tj3Set(tj, TJPARAM_OPTIMIZE, (s->mode & 2) ? 1 : 0);
      tj3Set(tj, TJPARAM_ARITHMETIC, (s->mode & 4) ? 1 : 0);
      tj3Set(tj, TJPARAM_LOSSLESS, 0);
      tj3Set(tj, TJPARAM_RESTARTROWS, 0);
      tj3Set(tj, TJPARAM_RESTARTBLOCKS, (s->mode & 16) ? 3 : 0);
      if (s->mode & 512) tj3Set(tj, TJPARAM_RESTARTROWS, 1);
      if (s->mode & 128) { hostile_pattern = (int)(s->seed & 7); hostile_max = (s->mode & 256) ? 16383 : 1023; xf.customFilter = hostile_filter; }
      rc = tj3Transform(tj, src, srcsize, 1, buf, size, &xf);
    }
    free(src0);
  }
  free(icc); free(img);
  return rc;
}

/* reference result of a spec (fresh handle, library-allocated buffer via the traced heap
   is avoided: the reference run uses its own untraced log section) */
typedef struct { char key[160]; unsigned char *data; size_t size; int dec; } ref_t;
static ref_t refs[256]; static int nrefs;

static ref_t *reference(const spec_t *s)
{
  char key[160]; int i; ref_t *r; tjhandle tj; unsigned char *buf = NULL; size_t size = 0; int rc;
  size_t save_lgn = lgn; int save_nblk = nblk; unsigned char *save_last = lastfreed, *save_cur = cur_passed;
  snprintf(key, sizeof key, "%d %d %d %d %d %d %ld %ld %d %d", s->kind, s->w, s->h, s->pf, s->subsamp, s->quality, s->seed, s->icc, s->xop, s->mode);
  for (i = 0; i < nrefs; i++) if (!strcmp(refs[i].key, key)) return &refs[i];
  if (nrefs >= 256) { for (i = 0; i < nrefs; i++) free(refs[i].data); nrefs = 0; }
  r = &refs[nrefs++];
  strcpy(r->key, key);
  tj = tj3Init(TJINIT_TRANSFORM);
  rc = do_op(tj, s, &buf, &size);
  r->size = rc == 0 ? size : 0;
  r->data = malloc(r->size + 1);
  if (rc == 0) memcpy(r->data, buf, size);
  r->dec = 0;
  if (rc == 0) {     /* the reference decodes */
    tjhandle d = tj3Init(TJINIT_DECOMPRESS);
    if (tj3DecompressHeader(d, buf, size) == 0) {
      int w = tj3Get(d, TJPARAM_JPEGWIDTH), h = tj3Get(d, TJPARAM_JPEGHEIGHT);
      int pf = tj3Get(d, TJPARAM_COLORSPACE) == TJCS_CMYK || tj3Get(d, TJPARAM_COLORSPACE) == TJCS_YCCK ? TJPF_CMYK :
               tj3Get(d, TJPARAM_COLORSPACE) == TJCS_GRAY ? TJPF_GRAY : TJPF_RGB;
      unsigned char *out = malloc((size_t)w * h * tjPixelSize[pf] + 16);
      if (tj3Get(d, TJPARAM_PRECISION) > 8) {
        short *o12 = malloc((size_t)w * h * tjPixelSize[pf] * 2 + 16);
        if (tj3Decompress12(d, buf, size, o12, 0, pf) == 0) r->dec = 1;
        free(o12);
      } else if (tj3Decompress8(d, buf, size, out, 0, pf) == 0) r->dec = 1;
      free(out);
    }
    tj3Destroy(d);
  }
  tj3Destroy(tj);
  /* forget the heap events of the reference run */
  { int k; for (k = save_nblk; k < nblk; k++) if (!blks[k].freed) dm_release(&blks[k]);
#if !LIBC_HEAP
    for (k = save_nblk; k < nblk; k++) munmap(blks[k].map, blks[k].maplen);
#else
    for (k = save_nblk; k < nblk; k++) { ASAN_UNPOISON_MEMORY_REGION(blks[k].map, blks[k].room ? blks[k].room : 1); free(blks[k].map); }
#endif
    nblk = save_nblk; lgn = save_lgn; if (lg) lg[lgn] = 0; lastfreed = save_last; cur_passed = save_cur; }
  return r;
}

/* ------------------------------------------- direct producer on a cinfo */
static struct jpeg_compress_struct cinfo;
static struct jpeg_error_mgr jerr;
static jmp_buf err_jb; static int err_code;
static void my_error_exit(j_common_ptr c) { err_code = c->err->msg_code; if (getenv("C13_DEBUG")) { char b[JMSG_LENGTH_MAX]; (*c->err->format_message) (c, b); fprintf(stderr, "libjpeg: %s\n", b); } longjmp(err_jb, 1); }
static void my_output(j_common_ptr c) { }
#define HUFF_BUFSIZE (DCTSIZE2 * 8)     /* jchuff.c BUFSIZE (checked by tools/gen_Dest.py) */

static void emit_byte(unsigned char x)
{
  struct jpeg_destination_mgr *dest = cinfo.dest;
  check_write(dest->next_output_byte, 1);
  *(dest->next_output_byte)++ = x;
  if (--dest->free_in_buffer == 0) {
    if (!(*dest->empty_output_buffer) (&cinfo)) ERREXIT(&cinfo, JERR_CANT_SUSPEND);
  }
}

static void put_chunk(const unsigned char *data, size_t n)
{
  struct jpeg_destination_mgr *dest = cinfo.dest;
  if (dest->free_in_buffer < HUFF_BUFSIZE) {   /* LOAD_BUFFER: localbuf = 1; STORE_BUFFER: copy loop */
    size_t bytes = n, bytestocopy; const unsigned char *buffer = data;
    while (bytes > 0) {
      bytestocopy = bytes < dest->free_in_buffer ? bytes : dest->free_in_buffer;
      check_write(dest->next_output_byte, bytestocopy);
      memcpy(dest->next_output_byte, buffer, bytestocopy);
      dest->next_output_byte += bytestocopy;
      buffer += bytestocopy;
      dest->free_in_buffer -= bytestocopy;
      if (dest->free_in_buffer == 0)
        if (!(*dest->empty_output_buffer) (&cinfo)) ERREXIT(&cinfo, JERR_CANT_SUSPEND);
      bytes -= bytestocopy;
    }
  } else {                                      /* direct: buffer = next_output_byte */
    check_write(dest->next_output_byte, n);
    memcpy(dest->next_output_byte, data, n);
    dest->free_in_buffer -= n;
    dest->next_output_byte += n;
  }
}

/* ------------------------------------------------------------ histories */
/* the caller's records (pointer variable, size variable); all caller actions use the current one */
#define NPAIR 8
static unsigned char *p_buf[NPAIR]; static size_t p_size[NPAIR]; static unsigned long p_ul[NPAIR]; static int p_cur;
#define c_buf p_buf[p_cur]
#define c_size p_size[p_cur]
#define c_ulsize p_ul[p_cur]
static unsigned char *prev_buf; static int prev_id;   /* buffer (and block) the previous call on this object ended with */
static int reused_by_doc(unsigned char *b) { blk_t *k = b ? blk_live(b) : NULL; return k && b == prev_buf && k->id == prev_id; }
/* the buffer the TurboJPEG destination object remembers (it is the buffer "of a previous call") */
static void note_dest(struct jpeg_compress_struct *ci)
{
  unsigned char *b = ci && ci->dest ? ((my_mem_dest_ptr)ci->dest)->buffer : NULL;
  if (b != prev_buf) { prev_buf = b; prev_id = id_of(b); }
}
static unsigned char *snap_buf[NPAIR]; static size_t snap_size[NPAIR]; static unsigned long snap_ul[NPAIR];
static void pairs_snapshot(void) { memcpy(snap_buf, p_buf, sizeof p_buf); memcpy(snap_size, p_size, sizeof p_size); memcpy(snap_ul, p_ul, sizeof p_ul); }
/* no record other than the one passed to this call may change */
static void pairs_check(void)
{
  int i;
  for (i = 0; i < NPAIR; i++)
    if (i != p_cur && (p_buf[i] != snap_buf[i] || p_size[i] != snap_size[i] || p_ul[i] != snap_ul[i])) { lg_add("!pair%d ", i); stop_now(); }
}
static unsigned char *held[256]; static int nheld;

static void hand_over(void)
{ blk_t *b = blk_live(c_buf); if (b && b->owner == 0) b->handed = 1; }

static tjhandle tj; static int have_cinfo;
static long cs[1 << 16];

static void run_hist(char *p)
{
  char mgr[16]; int n = 0, is_ijg;
  tj = NULL; have_cinfo = 0;
  sscanf(p, "%15s%n", mgr, &n); p += n;
  is_ijg = !strcmp(mgr, "ijg");
  memset(p_buf, 0, sizeof p_buf); memset(p_size, 0, sizeof p_size); memset(p_ul, 0, sizeof p_ul); p_cur = 0; prev_buf = NULL; prev_id = 0; nheld = 0;
  stop_armed = 1;
  if (setjmp(stop_jb)) goto done;
  while ((p = strchr(p, ';')) != NULL) {
    char op;
    p++; while (*p == ' ') p++;
    op = *p; if (!op || op == '\n') break;
    p++;
    if (op == 'A') {
      long sz = strtol(p, &p, 10); int rc = strtol(p, &p, 10);
      c_buf = dm_alloc((size_t)sz, 1, rc, NULL); c_size = (size_t)sz;
    } else if (op == 'Z') { c_size = (size_t)strtol(p, &p, 10);
    } else if (op == 'V' || op == 'P') {
      int k = strtol(p, &p, 10) & (NPAIR - 1);
      if (op == 'V') { p_buf[k] = c_buf; p_size[k] = c_size; }
      p_cur = k;
    } else if (op == 'N') { c_buf = NULL;
    } else if (op == 'S') { if (nheld < 256) held[nheld++] = c_buf;
    } else if (op == 'T' || op == 'G') {
      int k = strtol(p, &p, 10), i;
      /* remembered pointers are kept newest first in the model */
      int idx = nheld - 1 - k;
      if (k < 0 || idx < 0) { lg_add("?idx "); continue; }
      if (op == 'T') c_buf = held[idx]; else dm_free(held[idx], 1);
      for (i = idx; i < nheld - 1; i++) held[i] = held[i + 1];
      nheld--;
    } else if (op == 'F') { dm_free(c_buf, 1); c_buf = NULL;
    } else if (op == 'C') {
      int alloc = strtol(p, &p, 10); long seed = strtol(p, &p, 10), j = 0; int st, ncs = 0, k;
      static unsigned char tmp[1 << 16];
      for (;;) {
        long c; char *q;
        while (*p == ' ') p++;
        if (*p == ';' || *p == 0 || *p == '\n') break;
        c = strtol(p, &q, 10); if (q == p) break; p = q;
        if (ncs < (int)(sizeof cs / sizeof cs[0])) cs[ncs++] = c;
      }
      if (!have_cinfo) {
        cinfo.err = jpeg_std_error(&jerr);
        jerr.error_exit = my_error_exit; jerr.output_message = my_output;
        jpeg_create_compress(&cinfo); have_cinfo = 1;
      }
      cur_passed = c_buf;
      grant(c_buf, c_size, !is_ijg && alloc && reused_by_doc(c_buf));
      pairs_snapshot();
      if (setjmp(err_jb)) {
        st = err_code == JERR_BUFFER_SIZE ? 1 : 9;
        /* TurboJPEG bailout: term_destination only when started and alloc */
        if (cinfo.global_state > CSTATE_START && alloc && !is_ijg) (*cinfo.dest->term_destination) (&cinfo);
      } else {
        st = 0;
        c_ulsize = (unsigned long)c_size;
        cinfo.global_state = CSTATE_START;
        if (is_ijg) jpeg_mem_dest(&cinfo, &c_buf, &c_ulsize);
        else jpeg_mem_dest_tj(&cinfo, &c_buf, &c_size, alloc);
        cinfo.global_state = CSTATE_SCANNING;           /* "jpeg_start_compress" */
        for (k = 0; k < ncs; k++) {
          long c = cs[k], i;
          if (c > 0) { if (c > (long)sizeof tmp) c = sizeof tmp; for (i = 0; i < c; i++) tmp[i] = gen_byte(seed, j + i); j += c; put_chunk(tmp, (size_t)c); }
          else if (c < 0) { for (i = 0; i < -c; i++) emit_byte(gen_byte(seed, j + i)); j += -c; }
          else { st = 2; break; }
        }
        if (st == 2) { if (alloc || is_ijg) (*cinfo.dest->term_destination) (&cinfo); }
        else (*cinfo.dest->term_destination) (&cinfo);  /* jpeg_finish_compress */
        if (is_ijg) c_size = (size_t)c_ulsize;
      }
      cinfo.global_state = CSTATE_START;
      granted_blk = NULL;
      pairs_check();
      if (!is_ijg) note_dest(&cinfo);
      if (!alloc && !is_ijg && c_buf != cur_passed) lg_add("!moved ");
      hand_over();
      if (st == 0) {
        blk_t *b = blk_live(c_buf);
        if (b && c_size <= b->size) {
          /* oracle independent of the model: the returned bytes are the produced bytes, in order */
          size_t q; int same = (long)c_size == j;
          for (q = 0; same && q < c_size; q++) if (c_buf[q] != gen_byte(seed, (long)q)) same = 0;
          if (same) lg_add("rok:%d:%zu:%u ", id_of(c_buf), c_size, adler(c_buf, c_size));
          else lg_add("rok:%d:%zu:DIFF ", id_of(c_buf), c_size);
        } else lg_add("rok:%d:%zu:unreadable ", id_of(c_buf), c_size);
      } else lg_add("r%s:%d:%zu:0 ", st == 1 ? "bufsize" : st == 2 ? "abort" : "other", id_of(c_buf), c_size);
    } else if (op == 'J') {
      int alloc = strtol(p, &p, 10); long N = strtol(p, &p, 10); spec_t s; int rc; ref_t *r; size_t size_before;
      parse_spec(&p, &s);
      r = reference(&s);
      if (!tj) tj = tj3Init(TJINIT_TRANSFORM);
      tj3Set(tj, TJPARAM_NOREALLOC, alloc ? 0 : 1);
      cur_passed = c_buf;
      size_before = c_size;
      grant(c_buf, c_size, alloc && reused_by_doc(c_buf));
      grant_canary();
      pairs_snapshot();
      rc = do_op(tj, &s, &c_buf, &c_size);
      grant_check(); granted_blk = NULL;
      pairs_check();
      note_dest((struct jpeg_compress_struct *)tj);    /* cinfo is the first member of the TurboJPEG instance */
      /* *jpegSize after a failed call is unspecified (at -O2 the bailout of tj3Compress8 sees a stale
         `alloc` after longjmp and lets term_destination overwrite it): the caller does not rely on it */
      if (rc != 0 && !alloc) c_size = size_before;
      canary_check();
      if (!alloc && c_buf != cur_passed) lg_add("!moved ");
      hand_over();
      if ((long)r->size != N) lg_add("refsize=%zu ", r->size);
      if (rc == 0) {
        blk_t *b = blk_live(c_buf);
        if (b && c_size <= b->size)
          lg_add("rok:%d:%zu:%s ", id_of(c_buf), c_size, (c_size == r->size && !memcmp(c_buf, r->data, c_size) && r->dec) ? "ref" : "DIFF");
        else lg_add("rok:%d:%zu:unreadable ", id_of(c_buf), c_size);
      } else {
        const char *e = tj3GetErrorStr(tj);
        if (strstr(e, "Buffer passed to JPEG library is too small")) lg_add("rbufsize:%d:-:0 ", id_of(c_buf));   /* *jpegSize after a failure is unspecified */
        else lg_add("rerr[%s]:%d:-:0 ", e, id_of(c_buf));
      }
    }
  }
done:
  stop_armed = 0;
  if (tj) tj3Destroy(tj);
  if (have_cinfo) jpeg_destroy_compress(&cinfo);
  printf("%s\n", lg ? lg : "");
  heap_reset();
}

/* ------------------------------------------------------ worst-case probe */
static void run_wc(char *p)
{
  int kind = strtol(p, &p, 10), w = strtol(p, &p, 10), h = strtol(p, &p, 10), pf = strtol(p, &p, 10);
  int subsamp = strtol(p, &p, 10), quality = strtol(p, &p, 10); long seed = strtol(p, &p, 10), icc = strtol(p, &p, 10);
  int prec = strtol(p, &p, 10), ps = tjPixelSize[pf], rc, rc2;
  size_t bs = tj3JPEGBufSize(w, h, subsamp) + (icc > 0 ? (size_t)icc : 0), size = 0, s2;
  unsigned char *buf = NULL, *b2; unsigned char *iccb = icc > 0 ? make_icc(icc) : NULL;
  tjhandle tj = tj3Init(TJINIT_COMPRESS);
  void *img; char err[200] = "-";
  if (iccb) tj3SetICCProfile(tj, iccb, (size_t)icc);
  if (prec <= 8) {
    img = make_image(kind, w, h, ps, seed);
    tj3Set(tj, TJPARAM_QUALITY, quality); tj3Set(tj, TJPARAM_SUBSAMP, subsamp);
    rc = tj3Compress8(tj, img, w, 0, h, pf, &buf, &size);
  } else {
    unsigned short *im = malloc((size_t)w * h * ps * 2 + 16); size_t i;
    rs = 88172645463325252ULL ^ ((uint64_t)seed * 0x9E3779B97F4A7C15ULL); if (!rs) rs = 1;
    for (i = 0; i < (size_t)w * h * ps; i++) im[i] = kind == 0 ? 77 : (unsigned short)(rnd() & ((1u << prec) - 1));
    img = im;
    tj3Set(tj, TJPARAM_LOSSLESS, 1); tj3Set(tj, TJPARAM_PRECISION, prec); tj3Set(tj, TJPARAM_LOSSLESSPSV, 1 + (int)(seed % 7));
    rc = prec <= 12 ? tj3Compress12(tj, img, w, 0, h, pf, &buf, &size) : tj3Compress16(tj, img, w, 0, h, pf, &buf, &size);
  }
  tj3Set(tj, TJPARAM_NOREALLOC, 1);
  b2 = malloc(bs + 64); memset(b2 + bs, 0x5A, 64); s2 = bs;
  if (prec <= 8) rc2 = tj3Compress8(tj, img, w, 0, h, pf, &b2, &s2);
  else rc2 = prec <= 12 ? tj3Compress12(tj, img, w, 0, h, pf, &b2, &s2) : tj3Compress16(tj, img, w, 0, h, pf, &b2, &s2);
  if (rc2) snprintf(err, sizeof err, "%s", tj3GetErrorStr(tj));
  { int i, can = 1; for (i = 0; i < 64; i++) if (b2[bs + i] != 0x5A) can = 0;
    printf("wc bufsize=%zu rc=%d size=%zu norealloc=%s canary=%s err=[%s]\n", bs, rc, size,
           rc2 == 0 ? "ok" : strstr(err, "too small") ? "bufsize" : "other", can ? "ok" : "SMASHED", err); }
  dm_free(buf, 1); free(b2); free(img); free(iccb); tj3Destroy(tj);
  heap_reset();
}

/* one 8x8 gray block at quality 100: quantised coefficients (natural order) and the
   size of the entropy-coded segment when the block is tiled 2x1 */
static void run_blk(char *p)
{
  unsigned char img[8 * 8]; int i; unsigned char *buf = NULL; size_t size = 0;
  tjhandle tj = tj3Init(TJINIT_COMPRESS);
  struct jpeg_decompress_struct d; struct jpeg_error_mgr e; jvirt_barray_ptr *coefs;
  for (i = 0; i < 64; i++) img[i] = (unsigned char)strtol(p, &p, 10);
  tj3Set(tj, TJPARAM_QUALITY, 100); tj3Set(tj, TJPARAM_SUBSAMP, TJSAMP_GRAY);
  if (tj3Compress8(tj, img, 8, 0, 8, TJPF_GRAY, &buf, &size)) { printf("blk err %s\n", tj3GetErrorStr(tj)); return; }
  d.err = jpeg_std_error(&e);
  jpeg_create_decompress(&d);
  jpeg_mem_src(&d, buf, (unsigned long)size);
  jpeg_read_header(&d, TRUE);
  coefs = jpeg_read_coefficients(&d);
  {
    JBLOCKARRAY rows = (*d.mem->access_virt_barray) ((j_common_ptr)&d, coefs[0], 0, 1, FALSE);
    size_t sos = 0, k;
    printf("blk");
    for (i = 0; i < 64; i++) printf(" %d", rows[0][0][i]);
    for (k = 0; k + 1 < size; k++) if (buf[k] == 0xFF && buf[k + 1] == 0xDA) sos = k;
    /* scan data = everything behind the SOS segment up to EOI */
    printf(" | %zu\n", size - 2 - (sos + 2 + ((size_t)buf[sos + 2] << 8 | buf[sos + 3])));
  }
  jpeg_destroy_decompress(&d);
  dm_free(buf, 1); tj3Destroy(tj);
  heap_reset();
}

/* worst-case size of a transform with ICC profiles:
   xicc srcicc insticc savemarkers copynone getbefore op seed
   source = 24x16 4:4:4 Q100 noise JPEG carrying an ICC profile of srcicc bytes (0 = none) and no other extra
   marker; the transform instance has TJPARAM_SAVEMARKERS = savemarkers, tj3SetICCProfile(insticc bytes);
   tj3DecompressHeader; [tj3GetICCProfile]; cap = tj3TransformBufSize; NOREALLOC transform into exactly cap bytes
   (guard page behind).  Prints the ICC term of the size function and the ICC payload actually written. */
static void run_xicc(char *p)
{
  long srcicc = strtol(p, &p, 10), inst = strtol(p, &p, 10); int sm = strtol(p, &p, 10), cn = strtol(p, &p, 10);
  int getb = strtol(p, &p, 10), op = strtol(p, &p, 10); long seed = strtol(p, &p, 10);
  int w = 24, h = 16, rc, rc2; unsigned char *img = make_image(2, w, h, 3, seed);
  tjhandle c = tj3Init(TJINIT_COMPRESS), x = tj3Init(TJINIT_TRANSFORM), d = tj3Init(TJINIT_DECOMPRESS);
  size_t srccap = 1 << 20, srcsize, cap, base, size, wsize = 0, outicc = 0; unsigned char *src, *src0, *icc1 = NULL, *icc2 = NULL;
  unsigned char *buf, *ref = NULL, *chk = NULL; tjtransform xf; int dw, dh, dss; const char *st;
  srccap += (size_t)srcicc; srcsize = srccap; src = src0 = malloc(srccap);
  tj3Set(c, TJPARAM_QUALITY, 100); tj3Set(c, TJPARAM_SUBSAMP, TJSAMP_444);
  if (srcicc > 0) { icc1 = make_icc(srcicc); tj3SetICCProfile(c, icc1, (size_t)srcicc); }
  rc = tj3Compress8(c, img, w, 0, h, TJPF_RGB, &src, &srcsize);
  if (rc || src != src0) { printf("xicc setup-failed\n"); goto done; }
  memset(&xf, 0, sizeof xf); xf.op = op; xf.options = TJXOPT_TRIM | (cn ? TJXOPT_COPYNONE : 0);
  tj3Set(x, TJPARAM_SAVEMARKERS, sm);
  if (inst > 0) { icc2 = make_icc(inst); icc2[0] ^= 0x55; tj3SetICCProfile(x, icc2, (size_t)inst); }
  if (tj3DecompressHeader(x, src, srcsize)) { printf("xicc header-failed %s\n", tj3GetErrorStr(x)); goto done; }
  if (getb) { unsigned char *g = NULL; size_t gs = 0; tj3GetICCProfile(x, &g, &gs); tj3Free(g); }
  cap = tj3TransformBufSize(x, &xf);
  dw = (op == TJXOP_TRANSPOSE || op == TJXOP_TRANSVERSE || op == TJXOP_ROT90 || op == TJXOP_ROT270) ? h : w;
  dh = (dw == w) ? h : w; dss = TJSAMP_444;
  base = tj3JPEGBufSize(dw, dh, dss);
  /* what the transform really writes: library-allocated run */
  size = 0; rc = tj3Transform(x, src, srcsize, 1, &ref, &size, &xf);
  if (rc == 0) {
    wsize = size;
    tj3Set(d, TJPARAM_SAVEMARKERS, 4);
    if (tj3DecompressHeader(d, ref, size) == 0) tj3GetICCProfile(d, &chk, &outicc); else outicc = (size_t)-1;
  }
  if (ref) dm_free(ref, 1);
  /* NOREALLOC into exactly cap bytes; header state as the caller left it */
  tj3Set(x, TJPARAM_NOREALLOC, 1);
  buf = dm_alloc(cap, 1, 0, NULL); size = cap;
  { unsigned char *b0 = buf;
    rc2 = tj3Transform(x, src, srcsize, 1, &buf, &size, &xf);
    st = rc2 == 0 ? (size <= cap && buf == b0 ? "ok" : "BADSIZE") : strstr(tj3GetErrorStr(x), "too small") ? "bufsize" : "other"; }
  printf("xicc term=%ld written=%ld total=%zu cap=%zu norealloc=%s\n", (long)cap - (long)base, (long)outicc, wsize, cap, st);
done:
  tj3Free(chk); free(icc1); free(icc2); free(src0); free(img);
  tj3Destroy(c); tj3Destroy(x); tj3Destroy(d);
  heap_reset();
}

/* xmk kind k payload save copynone w seed: transform of a source that carries extra markers inserted behind its
   JFIF segment: kind 0 = an ICC profile of `payload` bytes split into k APP2 chunks (any chunking is legal),
   kind 1 = a COM marker, kind 2 = an APP1 (EXIF-like) marker of `payload` bytes (k ignored).  NOREALLOC transform
   into exactly tj3TransformBufSize() bytes, no instance profile. */
static void run_xmk(char *p)
{
  int kind = strtol(p, &p, 10), k = strtol(p, &p, 10); long payload = strtol(p, &p, 10); int sm = strtol(p, &p, 10), cn = strtol(p, &p, 10);
  int w = strtol(p, &p, 10); long seed = strtol(p, &p, 10); int h = w, rc, rc2, i;
  unsigned char *img = make_image(2, w, h, 3, seed), *src = NULL, *s2, *q, *ref = NULL, *buf; size_t srcsize = 0, n2, cap, base, size, total = 0;
  tjhandle c = tj3Init(TJINIT_COMPRESS), x = tj3Init(TJINIT_TRANSFORM); tjtransform xf; const char *st;
  size_t save_lgn = lgn; int save_nblk = nblk;
  tj3Set(c, TJPARAM_QUALITY, 75); tj3Set(c, TJPARAM_SUBSAMP, TJSAMP_444);
  { size_t cap0 = 1 << 20; unsigned char *b0 = malloc(cap0); src = b0; srcsize = cap0;
    rc = tj3Compress8(c, img, w, 0, h, TJPF_RGB, &src, &srcsize); if (rc || src != b0) { printf("xmk setup-failed\n"); return; } }
  s2 = malloc(srcsize + (size_t)payload + 32 * (size_t)(k > 0 ? k : 1) + 64);
  memcpy(s2, src, 20); q = s2 + 20;                    /* SOI + JFIF APP0 (2 + 2 + 16) */
  if (kind == 0) {
    long done = 0;
    for (i = 1; i <= k; i++) {
      long nch = payload / k + (i <= payload % k ? 1 : 0), j;
      *q++ = 0xFF; *q++ = 0xE2; *q++ = (unsigned char)((nch + 16) >> 8); *q++ = (unsigned char)((nch + 16) & 255);
      memcpy(q, "ICC_PROFILE", 12); q += 12; *q++ = (unsigned char)i; *q++ = (unsigned char)k;
      for (j = 0; j < nch; j++) *q++ = (unsigned char)((done + j) * 7 + 3);
      done += nch;
    }
  } else {
    long j; *q++ = 0xFF; *q++ = kind == 1 ? 0xFE : 0xE1; *q++ = (unsigned char)((payload + 2) >> 8); *q++ = (unsigned char)((payload + 2) & 255);
    if (kind == 2 && payload >= 6) { memcpy(q, "Exif\0\0", 6); q += 6; j = 6; } else j = 0;
    for (; j < payload; j++) *q++ = (unsigned char)(j * 5 + 1);
  }
  memcpy(q, src + 20, srcsize - 20); n2 = (size_t)(q - s2) + srcsize - 20;
  memset(&xf, 0, sizeof xf); xf.op = TJXOP_NONE; xf.options = TJXOPT_TRIM | (cn ? TJXOPT_COPYNONE : 0);
  tj3Set(x, TJPARAM_SAVEMARKERS, sm);
  if (tj3DecompressHeader(x, s2, n2)) { printf("xmk header-failed %s\n", tj3GetErrorStr(x)); goto done; }
  cap = tj3TransformBufSize(x, &xf); base = tj3JPEGBufSize(w, h, TJSAMP_444);
  size = 0; rc = tj3Transform(x, s2, n2, 1, &ref, &size, &xf);
  if (rc == 0) total = size;
  if (ref) dm_free(ref, 1);
  tj3Set(x, TJPARAM_NOREALLOC, 1);
  buf = dm_alloc(cap, 1, 0, NULL); size = cap;
  { unsigned char *b0 = buf; rc2 = tj3Transform(x, s2, n2, 1, &buf, &size, &xf);
    st = rc2 == 0 ? (size <= cap && buf == b0 ? "ok" : "BADSIZE") : strstr(tj3GetErrorStr(x), "too small") ? "bufsize" : "other"; }
  printf("xmk term=%ld total=%zu cap=%zu norealloc=%s\n", (long)cap - (long)base, total, cap, st);
done:
  free(s2); free(src); free(img); tj3Destroy(c); tj3Destroy(x);
  (void)save_lgn; (void)save_nblk;
  heap_reset();
}

/* xcrop op w h subsamp rx ry rw rh quality seed: tj3TransformBufSize() against tj3Transform() for a cropped transform
   (rw / rh = 0 means "to the edge" of the DESTINATION image): accept/reject agreement and bound >= actual output;
   then NOREALLOC into exactly the returned size.  High-entropy source (uniform noise). */
static void run_xcrop(char *p)
{
  int op = strtol(p, &p, 10), w = strtol(p, &p, 10), h = strtol(p, &p, 10), ss = strtol(p, &p, 10);
  int rx = strtol(p, &p, 10), ry = strtol(p, &p, 10), rw = strtol(p, &p, 10), rh = strtol(p, &p, 10), q = strtol(p, &p, 10);
  long seed = strtol(p, &p, 10); int gray = ss == TJSAMP_GRAY, ps = gray ? 1 : 3, rc, rc2 = -1;
  unsigned char *img = make_image(2, w, h, ps, seed), *src, *src0, *ref = NULL, *buf; size_t srccap = (size_t)w * h * 4 + 65536, srcsize = srccap;
  size_t cap, size = 0, total = 0; tjhandle c = tj3Init(TJINIT_COMPRESS), x = tj3Init(TJINIT_TRANSFORM); tjtransform xf; const char *st = "skipped";
  src = src0 = malloc(srccap);
  tj3Set(c, TJPARAM_QUALITY, q); tj3Set(c, TJPARAM_SUBSAMP, ss);
  rc = tj3Compress8(c, img, w, 0, h, gray ? TJPF_GRAY : TJPF_RGB, &src, &srcsize);
  if (rc || src != src0) { printf("xcrop setup-failed\n"); goto done; }
  memset(&xf, 0, sizeof xf); xf.op = op; xf.options = TJXOPT_CROP | TJXOPT_COPYNONE; xf.r.x = rx; xf.r.y = ry; xf.r.w = rw; xf.r.h = rh;
  if (tj3DecompressHeader(x, src, srcsize)) { printf("xcrop header-failed\n"); goto done; }
  cap = tj3TransformBufSize(x, &xf);
  rc = tj3Transform(x, src, srcsize, 1, &ref, &size, &xf);
  if (rc == 0) total = size;
  if (ref) dm_free(ref, 1);
  if (cap > 0 && rc == 0) {
    unsigned char *b0;
    tj3Set(x, TJPARAM_NOREALLOC, 1);
    buf = b0 = dm_alloc(cap, 1, 0, NULL); size = cap;
    rc2 = tj3Transform(x, src, srcsize, 1, &buf, &size, &xf);
    st = rc2 == 0 ? (size <= cap && buf == b0 && size == total ? "ok" : "BADSIZE") : strstr(tj3GetErrorStr(x), "too small") ? "bufsize" : "other";
  }
  printf("xcrop cap=%zu sizefn=%s transform=%s total=%zu norealloc=%s\n", cap, cap ? "accept" : "reject", rc == 0 ? "accept" : "reject", total, st);
done:
  free(src0); free(img); tj3Destroy(c); tj3Destroy(x);
  heap_reset();
}

/* hk prec pat nbw leave alloc: the longest codes a Huffman table can have (lengths 1..16, the 16-bit code
   1111111111111110 for the largest magnitude category) on coefficients of maximal magnitude, written with the
   libjpeg coefficient API (jpeg_write_coefficients) at data precision prec (8 or 12) into the TurboJPEG
   destination manager; capacity = start of scan data + leave.  Prints block size and the outcome. */
static int hk_once(int prec, int pat, int nbw, unsigned char **buf, size_t *size, int alloc)
{
  struct jpeg_compress_struct ci; struct jpeg_error_mgr je; jvirt_barray_ptr arr[1]; JHUFF_TBL *t; int i, rc = 0, P = prec + 2;
  ci.err = jpeg_std_error(&je); je.error_exit = my_error_exit; je.output_message = my_output;
  jpeg_create_compress(&ci);
  if (setjmp(err_jb)) { rc = err_code == JERR_BUFFER_SIZE ? 1 : 100 + err_code; jpeg_destroy_compress(&ci); return rc; }
  jpeg_mem_dest_tj(&ci, buf, size, alloc);
  ci.image_width = 8 * nbw; ci.image_height = 8; ci.input_components = 1; ci.in_color_space = JCS_GRAYSCALE;
  jpeg_set_defaults(&ci);
  ci.data_precision = prec;
  jpeg_set_quality(&ci, 100, TRUE);
  t = ci.dc_huff_tbl_ptrs[0]; memset(t->bits, 0, sizeof t->bits); t->bits[5] = 16;
  for (i = 0; i < 16; i++) t->huffval[i] = (UINT8)i;
  t->sent_table = FALSE;
  t = ci.ac_huff_tbl_ptrs[0]; memset(t->bits, 0, sizeof t->bits);
  for (i = 1; i <= 16; i++) t->bits[i] = 1;
  t->huffval[0] = 0x00; t->huffval[1] = 0xF0;
  { int k = 2, sz; for (sz = 1; sz <= 15 && k < 15; sz++) if (sz != P) t->huffval[k++] = (UINT8)sz; t->huffval[15] = (UINT8)P; }
  t->sent_table = FALSE;
  arr[0] = (*ci.mem->request_virt_barray) ((j_common_ptr)&ci, JPOOL_IMAGE, FALSE, (JDIMENSION)nbw, 1, 1);
  jpeg_write_coefficients(&ci, arr);
  { JBLOCKARRAY rows = (*ci.mem->access_virt_barray) ((j_common_ptr)&ci, arr[0], 0, 1, TRUE); int b, maxv = (1 << P) - 1;
    for (b = 0; b < nbw; b++) for (i = 0; i < 64; i++)
      rows[0][b][i] = (JCOEF)(i == 0 ? ((pat & 4) ? maxv : 0) : (pat & 3) == 0 ? maxv : (pat & 3) == 1 ? -maxv : (i & 1) ? maxv : -maxv); }
  jpeg_finish_compress(&ci);
  jpeg_destroy_compress(&ci);
  return 0;
}

static void run_hk(char *p)
{
  int prec = strtol(p, &p, 10), pat = strtol(p, &p, 10), nbw = strtol(p, &p, 10), leave = strtol(p, &p, 10), alloc = strtol(p, &p, 10);
  static unsigned char big[1 << 16]; unsigned char *buf = big; size_t size = sizeof big, n, k, sos = 0, cap; int rc;
  unsigned char *cb, *cb0;
  rc = hk_once(prec, pat, nbw, &buf, &size, 0);
  if (rc || buf != big) { printf("hk setup rc=%d\n", rc); heap_reset(); return; }
  n = size;
  for (k = 0; k + 3 < n; k++) if (big[k] == 0xFF && big[k + 1] == 0xDA) { sos = k + 2 + ((size_t)big[k + 2] << 8 | big[k + 3]); break; }
  cap = sos + (size_t)leave;
  lgn = 0; lg_add("");
  cb = cb0 = dm_alloc(cap, 1, 0, NULL); size = cap;
  stop_armed = 0;
  rc = hk_once(prec, pat, nbw, &cb, &size, alloc);
  printf("hk n=%zu sos=%zu blk=%zu cap=%zu %s %s same=%d\n", n, sos, (n - sos - 2) / (size_t)nbw, cap,
         rc == 0 ? "ok" : rc == 1 ? "bufsize" : "other", (rc == 0 && size == n && !memcmp(cb, big, n)) ? "ref" : rc == 0 ? "DIFF" : "-", cb == cb0);
  heap_reset();
}

static char line[1 << 20];

int main(void)
{
  struct sigaction sa; static char altstack[1 << 16]; stack_t ss;
  setvbuf(stdout, NULL, _IOLBF, 0);
  pagesz = sysconf(_SC_PAGESIZE);
#if !LIBC_HEAP
  ss.ss_sp = altstack; ss.ss_size = sizeof altstack; ss.ss_flags = 0; sigaltstack(&ss, NULL);
  memset(&sa, 0, sizeof sa); sa.sa_sigaction = on_segv; sa.sa_flags = SA_SIGINFO | SA_ONSTACK;
  sigaction(SIGSEGV, &sa, NULL); sigaction(SIGBUS, &sa, NULL);
#endif
  while (fgets(line, sizeof line, stdin)) {
    lgn = 0; if (lg) lg[0] = 0; else lg_add("");
    if (!strncmp(line, "hist ", 5)) run_hist(line + 5);
    else if (!strncmp(line, "size ", 5)) {
      spec_t s; char *p = line + 5; ref_t *r;
      parse_spec(&p, &s); r = reference(&s);
      { size_t k, sos = 0;
        for (k = 0; k + 3 < r->size; k++) if (r->data[k] == 0xFF && r->data[k + 1] == 0xDA) { sos = k + 2 + ((size_t)r->data[k + 2] << 8 | r->data[k + 3]); break; }
        printf("size %zu dec=%s sos=%zu rst=", r->size, r->dec ? "ok" : "fail", sos);
        { int cnt = 0; for (k = sos; k + 1 < r->size && cnt < 200; k++)
            if (r->data[k] == 0xFF && r->data[k + 1] >= 0xD0 && r->data[k + 1] <= 0xD7) { printf("%s%zu", cnt ? "," : "", k); cnt++; } }
        /* ends of the header segments (SOI, APPn incl. every ICC chunk, DQT, SOF, DHT, SOS header) */
        printf(" seg=2");
        { size_t q = 2; int cnt = 0;
          while (q + 3 < r->size && r->data[q] == 0xFF && cnt < 300) {
            size_t e = q + 2 + ((size_t)r->data[q + 2] << 8 | r->data[q + 3]);
            printf(",%zu", e); cnt++;
            if (r->data[q + 1] == 0xDA) break;
            q = e;
          } }
        printf("\n"); }
      heap_reset();
    } else if (!strncmp(line, "wc ", 3)) run_wc(line + 3);
    else if (!strncmp(line, "bufsize ", 8)) {
      char *p = line + 8; int w = strtol(p, &p, 10), h = strtol(p, &p, 10), ss = strtol(p, &p, 10);
      printf("bufsize %zu\n", tj3JPEGBufSize(w, h, ss));
    }
    else if (!strncmp(line, "blk ", 4)) run_blk(line + 4);
    else if (!strncmp(line, "xicc ", 5)) { lgn = 0; run_xicc(line + 5); }
    else if (!strncmp(line, "hk ", 3)) run_hk(line + 3);
    else if (!strncmp(line, "xmk ", 4)) { lgn = 0; run_xmk(line + 4); }
    else if (!strncmp(line, "xcrop ", 6)) { lgn = 0; run_xcrop(line + 6); }
    else if (!strncmp(line, "icc ", 4)) {
      long n = strtol(line + 4, NULL, 10); spec_t s = { 1, 16, 16, TJPF_RGB, TJSAMP_420, 75, 1, 0, -1, 0 }; size_t a, b;
      a = reference(&s)->size; s.icc = n; b = reference(&s)->size;
      printf("icc %ld\n", (long)b - (long)a);
      heap_reset();
    } else printf("?\n");
  }
  return 0;
}
