/* C05: progressive Huffman "prepare" functions of src/jcphuff.c (static) vs the jsimd dispatchers */
#define jinit_phuff_encoder c05_unused_jinit_phuff_encoder
#include "jcphuff.c"
#include "c05_k.h"
void c05_phuff_first(int simd, const short *block, const int *lut, int Sl, int Al, unsigned short *values, size_t *bits)
{
  if (simd) jsimd_encode_mcu_AC_first_prepare(block, lut, Sl, Al, (UJCOEF *)values, bits);
  else encode_mcu_AC_first_prepare(block, lut, Sl, Al, (UJCOEF *)values, bits);
}
int c05_phuff_refine(int simd, const short *block, const int *lut, int Sl, int Al, unsigned short *absvalues, size_t *bits)
{
  if (simd) return jsimd_encode_mcu_AC_refine_prepare(block, lut, Sl, Al, (UJCOEF *)absvalues, bits);
  return encode_mcu_AC_refine_prepare(block, lut, Sl, Al, (UJCOEF *)absvalues, bits);
}
int c05_can_phuff(void) { return jsimd_can_encode_mcu_AC_first_prepare() * 2 + jsimd_can_encode_mcu_AC_refine_prepare(); }
