/* C06 harness: runs the REAL lossless-transform code of the working tree.
 * transupp.c is #included (resolved through -I$REPO/src) so that the very same
 * text serves tj3Transform (libturbojpeg.a takes these definitions instead of
 * its own transupp.o) and the jpegtran-style jtransform_* sequence below.
 *
 * One case per input line:
 *   case W H PREC CS NC {hs vs}*NC KIND MODE AMP SEED NSTAGES { PATH N {op perfect trim gray crop
 *        cw cwset ch chset cx cxset cy cyset eopt}*N }*NSTAGES
 *   KIND 0: source made by the real compressor from random pixels (AMP = quality)
 *        1: source made by jpeg_write_coefficients from random blocks (|coef| <= AMP)
 *        2: as 0, multi-scan (one scan per component, or simple progression), component ci on
 *           quantization slot tq[ci], and DQT segments spliced in BETWEEN the scans; the tokens
 *             tq*NC ORDER NSPLICE {AFTER_SCAN SLOT DELTA}*NSPLICE
 *           follow SEED (slot SLOT := clip(initial table + DELTA) after scan AFTER_SCAN)
 *   MODE 0 baseline Huffman 1 optimised Huffman 2 progressive 3 arithmetic 4 arithmetic progressive
 *   PATH 0: tj3Transform  1: jtransform_* sequence as in jpegtran.c
 *        2: as 1, but the source coefficient arrays are overwritten with random
 *           full-range JCOEF values (padding blocks = 7777) and the destination
 *           arrays are dumped directly (no entropy coding)
 *   eopt bit 1 progressive, 2 arithmetic, 4 optimize, 8 copynone
 * A stage takes output 0 of the previous stage as its source.
 * One output line per case:
 *   S <image> ; ok | <image> | ...   or   S <image> ; err <Name>      stages joined by " # "
 *   <image> = W H CS NC { 0 | 1 q*64 }*4 { hs vs wb hb tq q*64 coef*(wb*hb*64) }*NC
 *             (final content of the referenced slots; per component the LATCHED table)
 */
#include "transupp.c"
#include <setjmp.h>
#include <stdio.h>
#include <stdlib.h>
#include <string.h>
#include "turbojpeg.h"

typedef struct { int op, perfect, trim, gray, crop, cw, cwset, ch, chset, cx, cxset, cy, cyset, eopt; } xf_t;

struct my_err { struct jpeg_error_mgr pub; jmp_buf jb; int code; };
static void my_exit(j_common_ptr c) { struct my_err *e = (struct my_err *)c->err; e->code = c->err->msg_code; longjmp(e->jb, 1); }
static void my_emit(j_common_ptr c, int lvl) { if (lvl < 0) c->err->num_warnings++; }
static void my_output(j_common_ptr c) { }
static void set_err(struct my_err *e) { jpeg_std_error(&e->pub); e->pub.error_exit = my_exit; e->pub.emit_message = my_emit; e->pub.output_message = my_output; e->code = 0; }

static unsigned long long rs;
static unsigned long long rnd(void) { rs += 0x9E3779B97F4A7C15ULL; unsigned long long z = rs; z = (z ^ (z >> 30)) * 0xBF58476D1CE4E5B9ULL; z = (z ^ (z >> 27)) * 0x94D049BB133111EBULL; return z ^ (z >> 31); }

static int rup(int a, int b) { return (a + b - 1) / b * b; }

/* ------------------------------------------------------------------ source */
typedef struct { int tq[MAX_COMPONENTS], order, nsplice, after[8], slot[8], delta[8]; } reslot_t;

/* splice DQT segments between the scans of a finished file */
static void splice_dqts(unsigned char **buf, unsigned long *size, reslot_t *rs_, unsigned int base[4][64])
{
  size_t ends[64]; int nscan = 0, i, k; size_t pos = 2; unsigned char *b = *buf; unsigned long n = *size;
  while (pos + 4 <= n && nscan < 64) {
    unsigned m, len;
    if (b[pos] != 0xFF) return;
    m = b[pos + 1]; if (m == 0xD9) break;
    len = (b[pos + 2] << 8) | b[pos + 3]; pos += 2 + len;
    if (m == 0xDA) {
      while (pos + 1 < n && !(b[pos] == 0xFF && b[pos + 1] != 0x00 && !(b[pos + 1] >= 0xD0 && b[pos + 1] <= 0xD7))) pos++;
      ends[nscan++] = pos;
    }
  }
  if (!nscan) return;
  /* insert from the last position backwards so that earlier offsets stay valid */
  for (k = nscan; k >= 1; k--)
    for (i = rs_->nsplice - 1; i >= 0; i--) {
      int after = rs_->after[i] > nscan ? nscan : (rs_->after[i] < 1 ? 1 : rs_->after[i]);
      unsigned char dqt[69]; int j; unsigned char *nb;
      if (after != k) continue;
      dqt[0] = 0xFF; dqt[1] = 0xDB; dqt[2] = 0; dqt[3] = 67; dqt[4] = (unsigned char)(rs_->slot[i] & 3);
      for (j = 0; j < 64; j++) { int v = (int)base[rs_->slot[i] & 3][jpeg_natural_order[j]] + rs_->delta[i]; dqt[5 + j] = (unsigned char)(v > 255 ? 255 : v < 1 ? 1 : v); }
      nb = malloc(n + 69); memcpy(nb, b, ends[k - 1]); memcpy(nb + ends[k - 1], dqt, 69); memcpy(nb + ends[k - 1] + 69, b + ends[k - 1], n - ends[k - 1]);
      free(b); b = nb; n += 69;
    }
  *buf = b; *size = n;
}

static int make_source(int w, int h, int prec, int cs, int nc, int *hs, int *vs, int kind, int mode, int amp,
                       unsigned long long seed, reslot_t *rs_, unsigned char **out, unsigned long *outsize)
{
  unsigned int base[4][64]; jpeg_scan_info scans[MAX_COMPONENTS];
  struct jpeg_compress_struct c; struct my_err e; int ci, k; JDIMENSION y, x;
  void *rowbuf = NULL;
  *out = NULL; *outsize = 0;
  c.err = &e.pub; set_err(&e);
  if (setjmp(e.jb)) { jpeg_destroy_compress(&c); free(rowbuf); free(*out); *out = NULL; return e.code ? e.code : -1; }
  jpeg_create_compress(&c);
  jpeg_mem_dest(&c, out, outsize);
  rs = seed;
  c.image_width = w; c.image_height = h; c.input_components = nc;
  c.in_color_space = cs == 1 ? JCS_GRAYSCALE : cs == 2 ? JCS_RGB : cs == 3 ? JCS_YCbCr : cs == 4 ? JCS_CMYK : JCS_YCCK;
  c.data_precision = prec;
  jpeg_set_defaults(&c);
  jpeg_set_colorspace(&c, c.in_color_space);
  for (ci = 0; ci < nc; ci++) {
    c.comp_info[ci].h_samp_factor = hs[ci]; c.comp_info[ci].v_samp_factor = vs[ci];
    c.comp_info[ci].quant_tbl_no = ci == 0 ? 0 : (ci == 3 ? 0 : 1);
  }
  if (kind == 0) jpeg_set_quality(&c, amp, TRUE);
  else if (kind == 2) {
    int t;
    for (t = 0; t < 4; t++) { for (k = 0; k < 64; k++) base[t][k] = 1 + (unsigned)(rnd() % 60) + 20 * t; jpeg_add_quant_table(&c, t, base[t], 100, TRUE); }
    for (ci = 0; ci < nc; ci++) c.comp_info[ci].quant_tbl_no = rs_->tq[ci] & 3;
  } else {
    unsigned int tbl[64]; int t;
    for (t = 0; t < 2; t++) { for (k = 0; k < 64; k++) tbl[k] = 1 + (unsigned)(rnd() % 255); jpeg_add_quant_table(&c, t, tbl, 100, TRUE); }
  }
  if (mode == 1) c.optimize_coding = TRUE;
  if (mode == 2 || mode == 4) jpeg_simple_progression(&c);
  else if (kind == 2 && nc > 1) {
    memset(scans, 0, sizeof scans);
    for (ci = 0; ci < nc; ci++) { scans[ci].comps_in_scan = 1; scans[ci].component_index[0] = rs_->order ? nc - 1 - ci : ci; scans[ci].Ss = 0; scans[ci].Se = 63; }
    c.scan_info = scans; c.num_scans = nc;
  }
  if (mode == 3 || mode == 4) { c.arith_code = TRUE; c.optimize_coding = FALSE; }
  if (kind == 0 || kind == 2) {
    jpeg_start_compress(&c, TRUE);
    if (prec == 8) {
      JSAMPLE *row = malloc((size_t)w * nc); rowbuf = row;
      for (y = 0; y < (JDIMENSION)h; y++) { for (x = 0; x < (JDIMENSION)(w * nc); x++) row[x] = (JSAMPLE)(rnd() & 255); JSAMPROW rp = row; jpeg_write_scanlines(&c, &rp, 1); }
    } else {
      J12SAMPLE *row = malloc((size_t)w * nc * sizeof(J12SAMPLE)); rowbuf = row;
      for (y = 0; y < (JDIMENSION)h; y++) { for (x = 0; x < (JDIMENSION)(w * nc); x++) row[x] = (J12SAMPLE)(rnd() & 4095); J12SAMPROW rp = row; jpeg12_write_scanlines(&c, &rp, 1); }
    }
    jpeg_finish_compress(&c);
    if (kind == 2) { jpeg_destroy_compress(&c); free(rowbuf); rowbuf = NULL; splice_dqts(out, outsize, rs_, base); return 0; }
  } else {
    jvirt_barray_ptr arr[MAX_COMPONENTS]; int maxh = 1, maxv = 1, wb[MAX_COMPONENTS], hb[MAX_COMPONENTS];
    for (ci = 0; ci < nc; ci++) { if (hs[ci] > maxh) maxh = hs[ci]; if (vs[ci] > maxv) maxv = vs[ci]; }
    for (ci = 0; ci < nc; ci++) {
      wb[ci] = (w * hs[ci] + maxh * 8 - 1) / (maxh * 8); hb[ci] = (h * vs[ci] + maxv * 8 - 1) / (maxv * 8);
      arr[ci] = (*c.mem->request_virt_barray) ((j_common_ptr)&c, JPOOL_IMAGE, TRUE, rup(wb[ci], hs[ci]), rup(hb[ci], vs[ci]), vs[ci]);
    }
    if (mode != 3 && mode != 4) c.optimize_coding = TRUE;
    jpeg_write_coefficients(&c, arr);
    for (ci = 0; ci < nc; ci++) {
      if ((int)c.comp_info[ci].width_in_blocks != wb[ci] || (int)c.comp_info[ci].height_in_blocks != hb[ci]) { e.code = -2; longjmp(e.jb, 1); }
      for (y = 0; y < (JDIMENSION)hb[ci]; y++) {
        JBLOCKARRAY ba = (*c.mem->access_virt_barray) ((j_common_ptr)&c, arr[ci], y, 1, TRUE);
        for (x = 0; x < (JDIMENSION)wb[ci]; x++)
          for (k = 0; k < 64; k++) {
            int a = (k == 0) ? (amp > 1000 ? 1000 : amp) : amp;
            unsigned long long r = rnd();
            int v = (int)(r % (unsigned)(2 * a + 1)) - a;
            if ((r >> 40) % 5 == 0) v = 0;
            ba[0][x][k] = (JCOEF)v;
          }
      }
    }
    jpeg_finish_compress(&c);
  }
  jpeg_destroy_compress(&c);
  free(rowbuf);
  return 0;
}

/* ------------------------------------------------------------------- dumps */
static void dump_q(JQUANT_TBL *q) { int k; for (k = 0; k < 64; k++) printf(" %u", q ? (unsigned)q->quantval[k] : 0u); }

static void dump_arrays(j_common_ptr mem_owner, jvirt_barray_ptr *arr, int nc, jpeg_component_info *ci0, JQUANT_TBL **slots,
                        int w, int h, int cs, int use_latched)
{
  int ci, k; JDIMENSION x, y;
  int t;
  printf("%d %d %d %d", w, h, cs, nc);
  for (t = 0; t < NUM_QUANT_TBLS; t++) {
    int used = 0;
    for (ci = 0; ci < nc; ci++) if (ci0[ci].quant_tbl_no == t) used = 1;
    if (used && slots[t]) { printf(" 1"); dump_q(slots[t]); } else printf(" 0");
  }
  for (ci = 0; ci < nc; ci++) {
    jpeg_component_info *cp = ci0 + ci;
    printf(" %d %d %u %u %d", cp->h_samp_factor, cp->v_samp_factor, cp->width_in_blocks, cp->height_in_blocks, cp->quant_tbl_no);
    dump_q(use_latched && cp->quant_table ? cp->quant_table : slots[cp->quant_tbl_no]);
    for (y = 0; y < cp->height_in_blocks; y++) {
      JBLOCKARRAY ba = (*mem_owner->mem->access_virt_barray) (mem_owner, arr[ci], y, 1, FALSE);
      for (x = 0; x < cp->width_in_blocks; x++) for (k = 0; k < 64; k++) printf(" %d", ba[0][x][k]);
    }
  }
}

/* dump a JPEG file image; returns 0 / error code */
static int dump_jpeg(unsigned char *buf, unsigned long size)
{
  struct jpeg_decompress_struct d; struct my_err e; jvirt_barray_ptr *arr;
  d.err = &e.pub; set_err(&e);
  if (setjmp(e.jb)) { jpeg_destroy_decompress(&d); printf("DUMPERR %d", e.code); return e.code ? e.code : -1; }
  jpeg_create_decompress(&d);
  jpeg_mem_src(&d, buf, size);
  jpeg_read_header(&d, TRUE);
  arr = jpeg_read_coefficients(&d);
  dump_arrays((j_common_ptr)&d, arr, d.num_components, d.comp_info, d.quant_tbl_ptrs, d.image_width, d.image_height, (int)d.jpeg_color_space, 1);
  if (e.pub.num_warnings) printf(" WARN");
  jpeg_finish_decompress(&d);
  jpeg_destroy_decompress(&d);
  return 0;
}

static const char *err_name_code(int code)
{
  static char b[64];
  if (code == JERR_BAD_CROP_SPEC) return "BadCrop";
  if (code == JERR_CONVERSION_NOTIMPL) return "NoGray";
  if (code == JERR_MISMATCHED_QUANT_TABLE) return "QuantReuse";
  snprintf(b, sizeof b, "Other%d", code); return b;
}

/* ------------------------------------------------------------ tj3Transform */
static void stage_tj(unsigned char *src, unsigned long size, int n, xf_t *xf, unsigned char **next, unsigned long *nextsize)
{
  tjhandle h = tj3Init(TJINIT_TRANSFORM); tjtransform t[8]; unsigned char *bufs[8]; size_t sizes[8]; int i, rc;
  memset(t, 0, sizeof t); memset(bufs, 0, sizeof bufs); memset(sizes, 0, sizeof sizes);
  for (i = 0; i < n; i++) {
    t[i].op = xf[i].op;
    t[i].options = (xf[i].perfect ? TJXOPT_PERFECT : 0) | (xf[i].trim ? TJXOPT_TRIM : 0) | (xf[i].gray ? TJXOPT_GRAY : 0) |
                   (xf[i].crop ? TJXOPT_CROP : 0) | ((xf[i].eopt & 1) ? TJXOPT_PROGRESSIVE : 0) | ((xf[i].eopt & 2) ? TJXOPT_ARITHMETIC : 0) |
                   ((xf[i].eopt & 4) ? TJXOPT_OPTIMIZE : 0) | ((xf[i].eopt & 8) ? TJXOPT_COPYNONE : 0);
    t[i].r.x = xf[i].cx; t[i].r.y = xf[i].cy; t[i].r.w = xf[i].cw; t[i].r.h = xf[i].ch;
  }
  { /* what tj3TransformBufSize promises for each request (separate instance, header only) */
    tjhandle hb = tj3Init(TJINIT_TRANSFORM);
    printf("bs");
    if (tj3DecompressHeader(hb, src, size) < 0) for (i = 0; i < n; i++) printf(" -1");
    else for (i = 0; i < n; i++) printf(" %lu", (unsigned long)tj3TransformBufSize(hb, &t[i]));
    printf(" ; ");
    tj3Destroy(hb);
  }
  rc = tj3Transform(h, src, size, n, bufs, sizes, t);
  if (rc != 0) {
    const char *m = tj3GetErrorStr(h);
    const char *nm = strstr(m, "not perfect") ? "NotPerfect" : strstr(m, "Invalid crop request") ? "BadCrop" :
                     strstr(m, "To crop this JPEG") ? "Align" : strstr(m, "Unsupported color conversion") ? "NoGray" :
                     strstr(m, "multiple use of quantization table") ? "QuantReuse" :
                     strstr(m, "Could not determine subsampling level") ? "UnknownSubsamp" : NULL;
    if (nm) printf("err %s", nm); else { char mm[80]; int j; snprintf(mm, sizeof mm, "%s", m); for (j = 0; mm[j]; j++) if (mm[j] == ' ' || mm[j] == '\n' || mm[j] == '|' || mm[j] == '#' || mm[j] == ';') mm[j] = '_'; printf("err Other:%s", mm); }
  } else {
    printf("ok");
    for (i = 0; i < n; i++) { printf(" | "); dump_jpeg(bufs[i], (unsigned long)sizes[i]); }
    if (next && bufs[0]) { *next = malloc(sizes[0]); memcpy(*next, bufs[0], sizes[0]); *nextsize = (unsigned long)sizes[0]; }
  }
  for (i = 0; i < n; i++) tj3Free(bufs[i]);
  tj3Destroy(h);
}

/* ------------------------------------------- jtransform_* (jpegtran.c order) */
static void stage_jt(unsigned char *src, unsigned long size, xf_t *x, int inject, unsigned long long seed,
                     unsigned char **next, unsigned long *nextsize)
{
  struct jpeg_decompress_struct d; struct jpeg_compress_struct c; struct my_err de;
  jpeg_transform_info info; jvirt_barray_ptr *sarr, *darr; unsigned char *out = NULL; unsigned long outsize = 0;
  volatile int have_src_dump = 0;
  d.err = &de.pub; set_err(&de); c.err = &de.pub;
  if (setjmp(de.jb)) {
    int code = de.code;
    if (!have_src_dump) { printf("S "); dump_jpeg(src, size); printf(" ; "); }
    printf("err %s", err_name_code(code));
    jpeg_destroy_compress(&c); jpeg_destroy_decompress(&d); free(out); return;
  }
  jpeg_create_decompress(&d); jpeg_create_compress(&c);
  memset(&info, 0, sizeof info);
  info.transform = (JXFORM_CODE)x->op; info.perfect = x->perfect; info.trim = x->trim; info.force_grayscale = x->gray;
  if (x->crop) {
    char spec[128], *p = spec; *p = 0;
    if (x->cwset) p += sprintf(p, "%d", x->cw);
    if (x->chset) p += sprintf(p, "x%d", x->ch);
    if (x->cxset) p += sprintf(p, "%c%d", x->cxset == 2 ? '-' : '+', x->cx);
    if (x->cyset) p += sprintf(p, "%c%d", x->cyset == 2 ? '-' : '+', x->cy);
    if (!jtransform_parse_crop_spec(&info, spec)) { printf("S "); dump_jpeg(src, size); printf(" ; err BadSpec"); jpeg_destroy_compress(&c); jpeg_destroy_decompress(&d); return; }
  }
  jpeg_mem_src(&d, src, size);
  jcopy_markers_setup(&d, (x->eopt & 8) ? JCOPYOPT_NONE : JCOPYOPT_ALL);
  jpeg_read_header(&d, TRUE);
  if (!jtransform_request_workspace(&d, &info)) {
    printf("S "); dump_jpeg(src, size); printf(" ; err NotPerfect");
    jpeg_destroy_compress(&c); jpeg_destroy_decompress(&d); return;
  }
  sarr = jpeg_read_coefficients(&d);
  if (inject) {
    int ci, k; JDIMENSION xx, yy;
    rs = seed;
    for (ci = 0; ci < d.num_components; ci++) {
      jpeg_component_info *cp = d.comp_info + ci;
      JDIMENSION pw = rup(cp->width_in_blocks, cp->h_samp_factor), ph = rup(cp->height_in_blocks, cp->v_samp_factor);
      for (yy = 0; yy < ph; yy++) {
        JBLOCKARRAY ba = (*d.mem->access_virt_barray) ((j_common_ptr)&d, sarr[ci], yy, 1, TRUE);
        for (xx = 0; xx < pw; xx++) for (k = 0; k < 64; k++) {
          if (xx >= cp->width_in_blocks || yy >= cp->height_in_blocks) ba[0][xx][k] = 7777;
          else { unsigned long long r = rnd(); int sel = (int)((r >> 32) % 8);
                 ba[0][xx][k] = sel == 0 ? (JCOEF)-32768 : sel == 1 ? (JCOEF)32767 : sel == 2 ? 0 : (JCOEF)(r & 0xFFFF); }
        }
      }
    }
    printf("S "); dump_arrays((j_common_ptr)&d, sarr, d.num_components, d.comp_info, d.quant_tbl_ptrs, d.image_width, d.image_height, (int)d.jpeg_color_space, 1);
    printf(" ; "); have_src_dump = 1;
  }
  jpeg_copy_critical_parameters(&d, &c);
  darr = jtransform_adjust_parameters(&d, &c, sarr, &info);
  if (x->eopt & 4) c.optimize_coding = TRUE;
  if (x->eopt & 1) jpeg_simple_progression(&c);
  if (x->eopt & 2) { c.arith_code = TRUE; c.optimize_coding = FALSE; }
  if (!inject) {
    jpeg_mem_dest(&c, &out, &outsize);
    jpeg_write_coefficients(&c, darr);
    jcopy_markers_execute(&d, &c, (x->eopt & 8) ? JCOPYOPT_NONE : JCOPYOPT_ALL);
    jtransform_execute_transformation(&d, &c, sarr, &info);
    jpeg_finish_compress(&c);
    jpeg_finish_decompress(&d);
    printf("S "); dump_jpeg(src, size); printf(" ; "); have_src_dump = 1;
    printf("ok | "); dump_jpeg(out, outsize);
    if (next) { *next = out; *nextsize = outsize; out = NULL; }
  } else {
    c.input_components = 1;
    jinit_c_master_control(&c, TRUE);
    jtransform_execute_transformation(&d, &c, sarr, &info);
    printf("ok | ");
    dump_arrays((j_common_ptr)&d, darr, c.num_components, c.comp_info, c.quant_tbl_ptrs, c.image_width, c.image_height, (int)c.jpeg_color_space, 0);
    /* whole workspace arrays: everything the loop nests write, padding strips included */
    printf(" | pad");
    if (info.workspace_coef_arrays != NULL) {
      int ci, k; JDIMENSION xx, yy;
      int tr = (x->op == 3 || x->op == 4 || x->op == 5 || x->op == 7);
      for (ci = 0; ci < c.num_components; ci++) {
        jpeg_component_info *cp = c.comp_info + ci;
        JDIMENSION wit = tr ? rup(cp->width_in_blocks, cp->h_samp_factor) : cp->width_in_blocks;
        JDIMENSION hit = rup(cp->height_in_blocks, cp->v_samp_factor);
        printf(" %u %u", wit, hit);
        for (yy = 0; yy < hit; yy++) {
          JBLOCKARRAY ba = (*d.mem->access_virt_barray) ((j_common_ptr)&d, darr[ci], yy, 1, FALSE);
          for (xx = 0; xx < wit; xx++) for (k = 0; k < 64; k++) printf(" %d", ba[0][xx][k]);
        }
      }
    }
  }
  jpeg_destroy_compress(&c); jpeg_destroy_decompress(&d); free(out);
}

/* ------------------------------------------------ two-step histories on one instance */
static const char *tj_err_name(tjhandle h)
{
  static char mm[96]; const char *m = tj3GetErrorStr(h); int j;
  const char *nm = strstr(m, "not perfect") ? "NotPerfect" : strstr(m, "Invalid crop request") ? "BadCrop" :
                   strstr(m, "To crop this JPEG") ? "Align" : strstr(m, "Unsupported color conversion") ? "NoGray" :
                   strstr(m, "multiple use of quantization table") ? "QuantReuse" :
                   strstr(m, "Could not determine subsampling level") ? "UnknownSubsamp" :
                   strstr(m, "exceeds the destination image") ? "Exceeds" : strstr(m, "too small") ? "TooSmall" : NULL;
  if (nm) return nm;
  snprintf(mm, sizeof mm, "Other:%s", m);
  for (j = 0; mm[j]; j++) if (mm[j] == ' ' || mm[j] == '\n' || mm[j] == '|' || mm[j] == '#' || mm[j] == ';') mm[j] = '_';
  return mm;
}

static void fill_tjt(tjtransform *t, xf_t *x)
{
  memset(t, 0, sizeof *t);
  t->op = x->op;
  t->options = (x->perfect ? TJXOPT_PERFECT : 0) | (x->trim ? TJXOPT_TRIM : 0) | (x->gray ? TJXOPT_GRAY : 0) |
               (x->crop ? TJXOPT_CROP : 0) | ((x->eopt & 1) ? TJXOPT_PROGRESSIVE : 0) | ((x->eopt & 2) ? TJXOPT_ARITHMETIC : 0) |
               ((x->eopt & 4) ? TJXOPT_OPTIMIZE : 0) | ((x->eopt & 8) ? TJXOPT_COPYNONE : 0);
  t->r.x = x->cx; t->r.y = x->cy; t->r.w = x->cw; t->r.h = x->ch;
}

#define HBUF (4u << 20)
/* one transform through the chosen entry point; api 0 = tj3Transform, 1 = legacy tjTransform;
   norealloc: caller-owned buffers (small = 1: deliberately too small, tj3 only).  Prints "ok | image" / "err Name" when show. */
static int hist_call(tjhandle h, int api, int norealloc, int small, unsigned char *src, unsigned long size, xf_t *x, int show)
{
  tjtransform t; unsigned char *buf = NULL; int rc;
  fill_tjt(&t, x);
  if (norealloc) buf = malloc(HBUF);
  if (api == 0) {
    size_t sz = norealloc ? (small ? 64 : HBUF) : 0;
    tj3Set(h, TJPARAM_NOREALLOC, norealloc);
    rc = tj3Transform(h, src, size, 1, &buf, &sz, &t);
    if (show) { if (rc) printf("err %s", tj_err_name(h)); else { printf("ok | "); dump_jpeg(buf, (unsigned long)sz); } }
  } else {
    unsigned long sz = norealloc ? HBUF : 0;
    rc = tjTransform(h, src, size, 1, &buf, &sz, &t, norealloc ? TJFLAG_NOREALLOC : 0);
    if (show) { if (rc) printf("err %s", tj_err_name(h)); else { printf("ok | "); dump_jpeg(buf, sz); } }
  }
  if (norealloc) free(buf); else tj3Free(buf);
  return rc;
}

/* -------------------------------------------------------------------- main */
static char *line; static size_t cap;
static long tok(char **p) { return strtol(*p, p, 10); }

int main(void)
{
  setvbuf(stdout, NULL, _IOFBF, 1 << 20);
  while (getline(&line, &cap, stdin) > 0) {
    char *p = line; int w, h, prec, cs, nc, hs[MAX_COMPONENTS], vs[MAX_COMPONENTS], kind, mode, amp, nst, i, s, rc;
    unsigned long long seed; unsigned char *cur = NULL; unsigned long cursize = 0; reslot_t rsl;
    if (!strncmp(p, "ss ", 3)) {
      /* ss CS NC {hs vs}*NC : getSubsamp() of a real 16x16 file with these factors, through tj3DecompressHeader */
      int cs2, nc2, hs2[MAX_COMPONENTS], vs2[MAX_COMPONENTS], k2; reslot_t r0; unsigned char *b2 = NULL; unsigned long n2 = 0;
      p += 3; cs2 = tok(&p); nc2 = tok(&p);
      for (k2 = 0; k2 < nc2 && k2 < MAX_COMPONENTS; k2++) { hs2[k2] = tok(&p); vs2[k2] = tok(&p); }
      memset(&r0, 0, sizeof r0);
      if (make_source(16, 16, 8, cs2, nc2, hs2, vs2, 1, 1, 5, 99, &r0, &b2, &n2)) printf("srcerr\n");
      else {
        tjhandle h2 = tj3Init(TJINIT_DECOMPRESS);
        if (tj3DecompressHeader(h2, b2, n2) < 0) printf("hdrerr\n"); else printf("ss %d\n", tj3Get(h2, TJPARAM_SUBSAMP));
        tj3Destroy(h2); free(b2);
      }
      fflush(stdout); continue;
    }
    if (!strncmp(p, "hist ", 5)) {
      /* hist API1 NR1 SMALL1 API2 NR2 <source A> <xf A> <source B> <xf B>
         step 1: transform A (expected to fail or not) on instance h; step 2: transform B on the SAME instance;
         reference: transform B on a fresh instance.  Output: H <rc1-class> ; <step 2> ; <fresh> */
      int api1, nr1, small1, api2, nr2, k2; unsigned char *sb[2] = { NULL, NULL }; unsigned long sn[2] = { 0, 0 }; xf_t hx[2]; int bad = 0;
      p += 5; api1 = tok(&p); nr1 = tok(&p); small1 = tok(&p); api2 = tok(&p); nr2 = tok(&p);
      for (k2 = 0; k2 < 2; k2++) {
        int w2 = tok(&p), h2 = tok(&p), pr2 = tok(&p), cs2 = tok(&p), nc2 = tok(&p), hs2[MAX_COMPONENTS], vs2[MAX_COMPONENTS], kd, md, am, q;
        unsigned long long sd; reslot_t r0;
        for (q = 0; q < nc2 && q < MAX_COMPONENTS; q++) { hs2[q] = tok(&p); vs2[q] = tok(&p); }
        kd = tok(&p); md = tok(&p); am = tok(&p); sd = strtoull(p, &p, 10);
        memset(&r0, 0, sizeof r0);
        if (make_source(w2, h2, pr2, cs2, nc2, hs2, vs2, kd, md, am, sd, &r0, &sb[k2], &sn[k2])) bad = 1;
        hx[k2].op = tok(&p); hx[k2].perfect = tok(&p); hx[k2].trim = tok(&p); hx[k2].gray = tok(&p); hx[k2].crop = tok(&p);
        hx[k2].cw = tok(&p); hx[k2].cwset = tok(&p); hx[k2].ch = tok(&p); hx[k2].chset = tok(&p);
        hx[k2].cx = tok(&p); hx[k2].cxset = tok(&p); hx[k2].cy = tok(&p); hx[k2].cyset = tok(&p); hx[k2].eopt = tok(&p);
      }
      if (bad) printf("srcerr");
      else {
        tjhandle h1 = tj3Init(TJINIT_TRANSFORM), h2 = tj3Init(TJINIT_TRANSFORM); int rc1;
        rc1 = hist_call(h1, api1, nr1, small1, sb[0], sn[0], &hx[0], 0);
        printf("H %s ; ", rc1 ? tj_err_name(h1) : "ok");
        hist_call(h1, api2, nr2, 0, sb[1], sn[1], &hx[1], 1);
        printf(" ; ");
        hist_call(h2, api2, nr2, 0, sb[1], sn[1], &hx[1], 1);
        tj3Destroy(h1); tj3Destroy(h2);
      }
      free(sb[0]); free(sb[1]);
      printf("\n"); fflush(stdout); continue;
    }
    if (strncmp(p, "case ", 5)) { printf("?\n"); fflush(stdout); continue; }
    p += 5;
    w = tok(&p); h = tok(&p); prec = tok(&p); cs = tok(&p); nc = tok(&p);
    for (i = 0; i < nc && i < MAX_COMPONENTS; i++) { hs[i] = tok(&p); vs[i] = tok(&p); }
    kind = tok(&p); mode = tok(&p); amp = tok(&p); seed = strtoull(p, &p, 10);
    memset(&rsl, 0, sizeof rsl);
    if (kind == 2) {
      for (i = 0; i < nc && i < MAX_COMPONENTS; i++) rsl.tq[i] = tok(&p);
      rsl.order = tok(&p); rsl.nsplice = tok(&p); if (rsl.nsplice > 8) rsl.nsplice = 8;
      for (i = 0; i < rsl.nsplice; i++) { rsl.after[i] = tok(&p); rsl.slot[i] = tok(&p); rsl.delta[i] = tok(&p); }
    }
    nst = tok(&p);
    rc = make_source(w, h, prec, cs, nc, hs, vs, kind, mode, amp, seed, &rsl, &cur, &cursize);
    if (rc) { printf("srcerr %d\n", rc); fflush(stdout); continue; }
    for (s = 0; s < nst; s++) {
      int path = tok(&p), n = tok(&p); xf_t xf[8]; unsigned char *next = NULL; unsigned long nextsize = 0;
      for (i = 0; i < n && i < 8; i++) {
        xf[i].op = tok(&p); xf[i].perfect = tok(&p); xf[i].trim = tok(&p); xf[i].gray = tok(&p); xf[i].crop = tok(&p);
        xf[i].cw = tok(&p); xf[i].cwset = tok(&p); xf[i].ch = tok(&p); xf[i].chset = tok(&p);
        xf[i].cx = tok(&p); xf[i].cxset = tok(&p); xf[i].cy = tok(&p); xf[i].cyset = tok(&p); xf[i].eopt = tok(&p);
      }
      if (s) printf(" # ");
      if (!cur) { printf("S nosrc ; err NoSource"); continue; }
      if (path == 0) { printf("S "); dump_jpeg(cur, cursize); printf(" ; "); stage_tj(cur, cursize, n, xf, &next, &nextsize); }
      else stage_jt(cur, cursize, &xf[0], path == 2, seed + 977 * (s + 1), path == 2 ? NULL : &next, &nextsize);
      free(cur); cur = next; cursize = nextsize;
    }
    free(cur);
    printf("\n"); fflush(stdout);
  }
  return 0;
}
