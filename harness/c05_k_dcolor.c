/* C05: C colour deconversion of src/jdcolor.c (static) vs the jsimd dispatcher */
#define jinit_color_deconverter c05_unused_jinit_color_deconverter
#include "jdcolor.c"
#include "c05_k.h"
#include <stdlib.h>
#include <string.h>
static struct jpeg_decompress_struct dc;
static struct jpeg_error_mgr derr;
/* a real, started decompressor gives us the library's own sample_range_limit table */
extern unsigned char *c05_tiny_jpeg(unsigned long *len);
void c05_dcolor_init(void)
{
  unsigned long len; unsigned char *jpg = c05_tiny_jpeg(&len);
  dc.err = jpeg_std_error(&derr);
  jpeg_create_decompress(&dc);
  jpeg_mem_src(&dc, jpg, len);
  jpeg_read_header(&dc, TRUE);
  jpeg_start_decompress(&dc);
  dc.cconvert = (struct jpeg_color_deconverter *)
    (*dc.mem->alloc_small) ((j_common_ptr)&dc, JPOOL_PERMANENT, sizeof(my_color_deconverter));
  memset(dc.cconvert, 0, sizeof(my_color_deconverter));
  build_ycc_rgb_table(&dc);
}
void c05_ycc_rgb(int simd, int cs, u8 *y, u8 *cb, u8 *cr, u8 *rgb, unsigned width)
{
  JSAMPROW out[1]; JSAMPROW p0[1], p1[1], p2[1]; JSAMPARRAY planes[3];
  out[0] = rgb; p0[0] = y; p1[0] = cb; p2[0] = cr;
  planes[0] = p0; planes[1] = p1; planes[2] = p2;
  dc.output_width = width; dc.out_color_space = (J_COLOR_SPACE)cs;
  if (simd) jsimd_ycc_rgb_convert(&dc, planes, 0, out, 1);
  else ycc_rgb_convert(&dc, planes, 0, out, 1);
}

void c05_ycc_rgb_rows(int simd, int cs, u8 **y, u8 **cb, u8 **cr, u8 **rgb, unsigned width, int nrows)
{
  JSAMPARRAY planes[3]; planes[0] = y; planes[1] = cb; planes[2] = cr;
  dc.output_width = width; dc.out_color_space = (J_COLOR_SPACE)cs;
  if (simd) jsimd_ycc_rgb_convert(&dc, planes, 0, rgb, nrows); else ycc_rgb_convert(&dc, planes, 0, rgb, nrows);
}
