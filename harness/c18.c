/* C18 correspondence / oracle harness: runs the REAL tj3LoadImage8/12/16,
 * tj3SaveImage8/12/16 and the cjpeg front-end readers (rdppm.c, rdbmp.c,
 * rdgif.c, rdtarga.c) of the current working tree.
 *
 * argv[1] = scratch directory (under /verif/build); one case per stdin line,
 * one result line per case.
 *
 *   load <prec> <pf> <bottomup> <align> <maxpixels> <hex>
 *        -> ok <w> <h> <pf> | s0 s1 ...      rows in BUFFER order, never-written
 *                                            X samples printed as 0
 *           err <CLASS>
 *   save <prec> <pf> <bottomup> <padsamples> <ext> <w> <h> | s0 s1 ...
 *        -> bytes <hex>  |  err <CLASS>
 *   rt   <prec> <pf> <bottomup> <align> <padsamples> <ext> <w> <h> <seed>
 *        -> rt ok <checksum>  |  rt MISMATCH ...  |  rt err ...
 *           (random in-range image; save; load; compare; every sample <= 2^prec-1)
 *   loadx <bits> <prec> <pf> <bottomup> <align> <maxpixels> <hex>
 *        same through tj3LoadImage<bits> (8/12/16) with TJPARAM_PRECISION=<prec>, whatever the file is
 *   cjx  <maxpixels> <is_targa> <precision> <hex>
 *        cjpeg -precision N: reader variant by N, precision re-applied after start_input (cjpeg
 *        re-parses its switches), -lossless 1 when N is not 8 or 12, rows passed on through
 *        buffer / buffer12 / buffer16 by N;  BAD_PRECISION is printed as  cj err BADPREC
 *   rd   <maxpixels> <is_targa> <hex>
 *        the reader alone, driven like cjpeg does (8-bit): select_file_type, start_input, get_pixel_rows
 *        until image_height rows ->  rd ok <w> <h> <comps> <warnings> | s0 s1 ...   |  rd err <NAME>
 *   cmykrt <prec> <w> <h> <seed> <nprint>
 *        random RGB image (bright-biased) written as raw P6 with maxval 2^prec-1; load as TJPF_CMYK (cmyk1); save
 *        cmyk1 as CMYK; reload as RGB and as CMYK: RGB must equal the original, CMYK must equal cmyk1
 *        ->  cmykrt ok <pixels> | r g b c m y k  (first nprint pixels)   |  cmykrt MISMATCH ...
 *   argv[2] = "fork": every case runs in a forked child; a child that dies prints nothing and the
 *        parent prints  CRASH <how> <first sanitizer line>
 *   cj   <maxpixels> <is_targa> <hex>
 *        -> cj ok <w> <h> <comps> <sum>  |  cj err <code>
 *           (what cjpeg's main() does: select_file_type, start_input,
 *            get_pixel_rows + jpeg_write_scanlines, finish)
 */
#include <stdio.h>
#include <stdlib.h>
#include <string.h>
#include <setjmp.h>
#include <signal.h>
#include <unistd.h>
#include <sys/wait.h>
#include <fcntl.h>
#include "cdjpeg.h"
#include "turbojpeg.h"

static char *line;
static size_t linecap;
static char tmpname[4096], tmpbmp[4096];

static void on_alarm(int sig) { printf("TIMEOUT\n"); fflush(stdout); _exit(3); }

static unsigned char *unhex(const char *p, size_t *n)
{
  size_t len = strlen(p), i, k = 0;
  unsigned char *b = malloc(len / 2 + 1);
  for (i = 0; i + 1 < len; i += 2) {
    int hi = p[i], lo = p[i + 1];
    if (hi == '\n' || hi == ' ') break;
    hi = hi <= '9' ? hi - '0' : (hi | 32) - 'a' + 10;
    lo = lo <= '9' ? lo - '0' : (lo | 32) - 'a' + 10;
    b[k++] = (unsigned char)(hi * 16 + lo);
  }
  *n = k;
  return b;
}

static void write_file(const char *fn, const unsigned char *b, size_t n)
{
  FILE *f = fopen(fn, "wb");
  if (!f) { perror(fn); exit(2); }
  fwrite(b, 1, n, f);
  fclose(f);
}

static const char *err_class(const char *m)
{
  if (strstr(m, "Premature end of input")) return "EOF";
  if (strstr(m, "Nonnumeric data")) return "NONNUM";
  if (strstr(m, "Numeric value out of range in BMP")) return "BMP_RANGE";
  if (strstr(m, "Numeric value out of range")) return "RANGE";
  if (strstr(m, "Not a PPM/PGM")) return "NOTPPM";
  if (strstr(m, "Maximum supported image dimension")) return "TOOBIG";
  if (strstr(m, "Bogus input colorspace")) return "BADCS";
  if (strstr(m, "Unsupported JPEG data precision")) return "BADPREC";
  if (strstr(m, "no data") || strstr(m, "Could not read input file")) return "EMPTY";
  if (strstr(m, "Unsupported file type")) return "UNSUPPORTED";
  if (strstr(m, "Memory allocation failure") || strstr(m, "Insufficient memory")) return "NOMEM";
  if (strstr(m, "Invalid BMP file: bad header length") || strstr(m, "bad header")) return "BMP_BADHEADER";
  if (strstr(m, "BMP file isn't") || strstr(m, "Not a BMP file")) return "BMP_NOT";
  if (strstr(m, "Only 8-, 24-, and 32-bit") || strstr(m, "Only 8-bit and 24-bit")) return "BMP_BADDEPTH";
  if (strstr(m, "compressed BMP")) return "BMP_COMPRESSED";
  if (strstr(m, "Empty BMP")) return "BMP_EMPTY";
  if (strstr(m, "biPlanes")) return "BMP_BADPLANES";
  if (strstr(m, "Unsupported BMP colormap")) return "BMP_BADCMAP";
  if (strstr(m, "Image width too large") || strstr(m, "too wide")) return "WIDTH_OVERFLOW";
  if (strstr(m, "BMP")) return "BMP_OTHER";
  {
    static char clean[256];
    size_t i;
    for (i = 0; m[i] && i < sizeof(clean) - 1; i++) clean[i] = (m[i] == '\n' || m[i] == '\r') ? ' ' : m[i];
    clean[i] = 0;
    return clean;
  }
}

/* which sample of a pixel does the loader never write? */
static int x_offset(int pf)
{
  int i;
  if (tjPixelSize[pf] != 4 || pf == TJPF_CMYK || tjAlphaOffset[pf] >= 0) return -1;
  for (i = 0; i < 4; i++)
    if (i != tjRedOffset[pf] && i != tjGreenOffset[pf] && i != tjBlueOffset[pf]) return i;
  return -1;
}

static int get_sample(void *buf, int prec, size_t i)
{
  if (prec <= 8) return ((unsigned char *)buf)[i];
  if (prec <= 12) return ((unsigned short *)buf)[i];   /* J12SAMPLE is short: show it unsigned */
  return ((unsigned short *)buf)[i];
}
static void set_sample(void *buf, int prec, size_t i, int v)
{
  if (prec <= 8) ((unsigned char *)buf)[i] = (unsigned char)v;
  else ((unsigned short *)buf)[i] = (unsigned short)v;
}

static void *do_load(tjhandle h, int prec, const char *fn, int *w, int align, int *hh, int *pf)
{
  if (prec <= 8) return tj3LoadImage8(h, fn, w, align, hh, pf);
  if (prec <= 12) return tj3LoadImage12(h, fn, w, align, hh, pf);
  return tj3LoadImage16(h, fn, w, align, hh, pf);
}
static int do_save(tjhandle h, int prec, const char *fn, void *buf, int w, int pitch, int hh, int pf)
{
  if (prec <= 8) return tj3SaveImage8(h, fn, buf, w, pitch, hh, pf);
  if (prec <= 12) return tj3SaveImage12(h, fn, buf, w, pitch, hh, pf);
  return tj3SaveImage16(h, fn, buf, w, pitch, hh, pf);
}

static void cmd_load(char *p, int explicit_bits)
{
  int bits = 0, prec, pf, bottomup, align, n = 0, w = 0, hh = 0, xo, ps, pitch, r, c;
  long maxpixels;
  size_t len;
  unsigned char *bytes;
  void *buf;
  tjhandle h;
  if (explicit_bits) {
    if (sscanf(p, "%d %n", &bits, &n) < 1 || (bits != 8 && bits != 12 && bits != 16)) { printf("bad case\n"); return; }
    p += n;
  }
  if (sscanf(p, "%d %d %d %d %ld %n", &prec, &pf, &bottomup, &align, &maxpixels, &n) < 5) { printf("bad case\n"); return; }
  if (!explicit_bits) bits = prec <= 8 ? 8 : prec <= 12 ? 12 : 16;
  bytes = unhex(p + n, &len);
  write_file(tmpname, bytes, len);
  free(bytes);
  h = tj3Init(TJINIT_COMPRESS);
  tj3Set(h, TJPARAM_PRECISION, prec);
  tj3Set(h, TJPARAM_BOTTOMUP, bottomup);
  tj3Set(h, TJPARAM_MAXPIXELS, (int)maxpixels);
  buf = do_load(h, bits, tmpname, &w, align, &hh, &pf);   /* do_load selects the entry point by sample width */
  if (!buf) {
    printf("err %s\n", err_class(tj3GetErrorStr(h)));
    tj3Destroy(h);
    return;
  }
  ps = tjPixelSize[pf];
  xo = x_offset(pf);
  pitch = (w * ps + align - 1) & ~(align - 1);
  printf("ok %d %d %d |", w, hh, pf);
  for (r = 0; r < hh; r++)
    for (c = 0; c < w * ps; c++)
      printf(" %d", (xo >= 0 && c % ps == xo) ? 0 : get_sample(buf, bits, (size_t)r * pitch + c));
  printf("\n");
  tj3Free(buf);
  tj3Destroy(h);
}

static unsigned char *read_file(const char *fn, size_t *n)
{
  FILE *f = fopen(fn, "rb");
  unsigned char *b;
  long sz;
  if (!f) { *n = 0; return NULL; }
  fseek(f, 0, SEEK_END); sz = ftell(f); fseek(f, 0, SEEK_SET);
  b = malloc(sz + 1);
  *n = fread(b, 1, sz, f);
  fclose(f);
  return b;
}

static void cmd_save(char *p)
{
  int prec, pf, bottomup, pad, w, hh, n = 0, ps, pitch, r, c;
  char ext[16];
  void *buf;
  unsigned char *out;
  size_t len, i;
  tjhandle h;
  const char *fn;
  if (sscanf(p, "%d %d %d %d %15s %d %d | %n", &prec, &pf, &bottomup, &pad, ext, &w, &hh, &n) < 7) { printf("bad case\n"); return; }
  p += n;
  ps = tjPixelSize[pf];
  pitch = w * ps + pad;
  buf = calloc((size_t)pitch * hh + 1, prec <= 8 ? 1 : 2);
  /* poison the padding so that a writer reading it is noticed */
  for (i = 0; i < (size_t)pitch * hh; i++) set_sample(buf, prec, i, prec <= 8 ? 0xA5 : 0xA5A5);
  for (r = 0; r < hh; r++)
    for (c = 0; c < w * ps; c++)
      set_sample(buf, prec, (size_t)r * pitch + c, (int)strtol(p, &p, 10));
  h = tj3Init(TJINIT_DECOMPRESS);
  tj3Set(h, TJPARAM_PRECISION, prec);
  tj3Set(h, TJPARAM_BOTTOMUP, bottomup);
  fn = strcmp(ext, "bmp") ? tmpname : tmpbmp;
  if (do_save(h, prec, fn, buf, w, pad ? pitch : 0, hh, pf) < 0) {
    printf("err %s\n", err_class(tj3GetErrorStr(h)));
  } else {
    out = read_file(fn, &len);
    printf("bytes ");
    for (i = 0; i < len; i++) printf("%02x", out[i]);
    printf("\n");
    free(out);
  }
  free(buf);
  tj3Destroy(h);
}

static unsigned long long rs;
static unsigned rnd(void) { rs ^= rs << 13; rs ^= rs >> 7; rs ^= rs << 17; return (unsigned)(rs >> 11); }

static void cmd_rt(char *p)
{
  int prec, pf, bottomup, align, pad, w, hh, ps, pitch, pitch2, r, c, w2 = 0, h2 = 0, pf2, maxs, xo, ao;
  unsigned long long seed, sum = 0;
  char ext[16];
  void *buf, *got;
  tjhandle h;
  const char *fn;
  if (sscanf(p, "%d %d %d %d %d %15s %d %d %llu", &prec, &pf, &bottomup, &align, &pad, ext, &w, &hh, &seed) < 9) { printf("bad case\n"); return; }
  rs = seed * 2654435761ULL + 88172645463325252ULL;
  ps = tjPixelSize[pf];
  pitch = w * ps + pad;
  maxs = (1 << prec) - 1;
  buf = calloc((size_t)pitch * hh + 1, prec <= 8 ? 1 : 2);
  for (r = 0; r < hh; r++)
    for (c = 0; c < pitch; c++) {
      int v;
      switch (rnd() % 8) { case 0: v = 0; break; case 1: v = maxs; break; default: v = (int)(rnd() % (unsigned)(maxs + 1)); }
      set_sample(buf, prec, (size_t)r * pitch + c, c < w * ps ? v : (prec <= 8 ? 0xA5 : 0xA5A5));
    }
  h = tj3Init(TJINIT_COMPRESS);
  tj3Set(h, TJPARAM_PRECISION, prec);
  tj3Set(h, TJPARAM_BOTTOMUP, bottomup);
  fn = strcmp(ext, "bmp") ? tmpname : tmpbmp;
  if (do_save(h, prec, fn, buf, w, pad ? pitch : 0, hh, pf) < 0) {
    printf("rt err save %s\n", err_class(tj3GetErrorStr(h)));
    free(buf); tj3Destroy(h); return;
  }
  pf2 = pf;
  got = do_load(h, prec, fn, &w2, align, &h2, &pf2);
  if (!got) {
    printf("rt err load %s\n", err_class(tj3GetErrorStr(h)));
    free(buf); tj3Destroy(h); return;
  }
  if (w2 != w || h2 != hh || pf2 != pf) {
    printf("rt MISMATCH geometry %d %d %d\n", w2, h2, pf2);
  } else {
    int bad = 0;
    pitch2 = (w * ps + align - 1) & ~(align - 1);
    xo = x_offset(pf);
    ao = tjAlphaOffset[pf];
    for (r = 0; r < hh && !bad; r++)
      for (c = 0; c < w * ps; c++) {
        int a = get_sample(buf, prec, (size_t)r * pitch + c), b = get_sample(got, prec, (size_t)r * pitch2 + c);
        if (xo >= 0 && c % ps == xo) continue;
        if (b > maxs) { printf("rt RANGE row %d col %d got %d\n", r, c, b); bad = 1; break; }
        if (ao >= 0 && c % ps == ao) {   /* alpha is not stored in the file: loader sets it opaque */
          if (b != maxs) { printf("rt MISMATCH alpha row %d col %d got %d\n", r, c, b); bad = 1; break; }
          continue;
        }
        if (a != b) { printf("rt MISMATCH row %d col %d saved %d loaded %d\n", r, c, a, b); bad = 1; break; }
        sum = sum * 31 + (unsigned)b;
      }
    if (!bad) printf("rt ok %llu\n", sum);
  }
  tj3Free(got);
  free(buf);
  tj3Destroy(h);
}

/* ------------------------------------------------------------------ cjpeg */
static jmp_buf cjb;
static int cj_code;
static void cj_exit(j_common_ptr c) { cj_code = c->err->msg_code; longjmp(cjb, 1); }
static void cj_emit(j_common_ptr c, int lvl) { if (lvl < 0) c->err->num_warnings++; }

static void cmd_cj(char *p, int with_prec)
{
  struct jpeg_compress_struct cinfo;
  struct jpeg_error_mgr jerr;
  cjpeg_source_ptr src = NULL;
  FILE *volatile f = NULL;
  unsigned char *volatile outbuf = NULL;
  unsigned long outsize = 0;
  long maxpixels;
  int n = 0, c, is_targa = 0, prec = 8;
  size_t len;
  unsigned char *bytes;
  unsigned long long sum = 0;
  if (with_prec) {
    if (sscanf(p, "%ld %d %d %n", &maxpixels, &is_targa, &prec, &n) < 3 || prec < 2 || prec > 16) { printf("bad case\n"); return; }
  } else if (sscanf(p, "%ld %d %n", &maxpixels, &is_targa, &n) < 2) { printf("bad case\n"); return; }
  bytes = unhex(p + n, &len);
  write_file(tmpname, bytes, len);
  free(bytes);
  cinfo.err = jpeg_std_error(&jerr);
  jerr.error_exit = cj_exit;
  jerr.emit_message = cj_emit;
  jpeg_create_compress(&cinfo);
  if (setjmp(cjb)) {
    if (cj_code == JERR_BAD_PRECISION) printf("cj err BADPREC\n");
    else printf("cj err %d\n", cj_code);
    jpeg_destroy_compress(&cinfo);
    if (f) fclose(f);
    free(outbuf);
    return;
  }
  cinfo.in_color_space = JCS_RGB;
  jpeg_set_defaults(&cinfo);
  cinfo.data_precision = prec;          /* first parse_switches() pass */
  f = fopen(tmpname, "rb");
  if (is_targa) c = 0x00;       /* cjpeg -targa: select_file_type() does not look at the file */
  else {
    if ((c = getc(f)) == EOF) ERREXIT(&cinfo, JERR_INPUT_EMPTY);
    ungetc(c, f);
  }
  switch (c) {
  case 'B': src = jinit_read_bmp(&cinfo, TRUE); break;
  case 'G': src = jinit_read_gif(&cinfo); break;
  case 'P':
    if (cinfo.data_precision <= 8) src = jinit_read_ppm(&cinfo);
    else if (cinfo.data_precision <= 12) src = j12init_read_ppm(&cinfo);
    else src = j16init_read_ppm(&cinfo);
    break;
  case 0x00: src = jinit_read_targa(&cinfo); break;
  default: ERREXIT(&cinfo, JERR_UNKNOWN_FORMAT);
  }
  src->input_file = f;
  src->max_pixels = (JDIMENSION)maxpixels;
  (*src->start_input) (&cinfo, src);
  jpeg_default_colorspace(&cinfo);
  cinfo.data_precision = prec;          /* second parse_switches() pass (for_real) */
  if (prec != 8 && prec != 12) jpeg_enable_lossless(&cinfo, 1, 0);   /* -lossless 1 */
  jpeg_mem_dest(&cinfo, (unsigned char **)&outbuf, &outsize);
  jpeg_start_compress(&cinfo, TRUE);
  while (cinfo.next_scanline < cinfo.image_height) {
    JDIMENSION nl = (*src->get_pixel_rows) (&cinfo, src), i, j;
    JDIMENSION rowlen = cinfo.image_width * (JDIMENSION)cinfo.input_components;
    if (cinfo.data_precision <= 8) {
      for (i = 0; i < nl; i++) for (j = 0; j < rowlen; j++) sum = sum * 31 + src->buffer[i][j];
      jpeg_write_scanlines(&cinfo, src->buffer, nl);
    } else if (cinfo.data_precision <= 12) {
      for (i = 0; i < nl; i++) for (j = 0; j < rowlen; j++) sum = sum * 31 + (unsigned short)src->buffer12[i][j];
      jpeg12_write_scanlines(&cinfo, src->buffer12, nl);
    } else {
      for (i = 0; i < nl; i++) for (j = 0; j < rowlen; j++) sum = sum * 31 + src->buffer16[i][j];
      jpeg16_write_scanlines(&cinfo, src->buffer16, nl);
    }
  }
  (*src->finish_input) (&cinfo, src);
  jpeg_finish_compress(&cinfo);
  printf("cj ok %u %u %d %llu\n", cinfo.image_width, cinfo.image_height, cinfo.input_components, sum);
  jpeg_destroy_compress(&cinfo);
  fclose(f);
  free(outbuf);
}

static const char *rd_err_name(int code)
{
  static char num[32];
  switch (code) {
  case JERR_INPUT_EOF: return "EOF";
  case JERR_INPUT_EMPTY: return "EMPTY";
  case JERR_GIF_NOT: return "GIF_NOT";
  case JERR_GIF_EMPTY: return "GIF_EMPTY";
  case JERR_IMAGE_TOO_BIG: return "TOOBIG";
  case JERR_GIF_IMAGENOTFOUND: return "GIF_NOIMAGE";
  case JERR_GIF_CODESIZE: return "GIF_CODESIZE";
  case JERR_TGA_BADPARMS: return "TGA_BADPARMS";
  case JERR_TGA_BADCMAP: return "TGA_BADCMAP";
  case JERR_BMP_NOT: return "BMP_NOT";
  case JERR_BMP_BADHEADER: return "BMP_BADHEADER";
  case JERR_BMP_BADDEPTH: return "BMP_BADDEPTH";
  case JERR_BMP_COMPRESSED: return "BMP_COMPRESSED";
  case JERR_BMP_EMPTY: return "BMP_EMPTY";
  case JERR_BMP_BADPLANES: return "BMP_BADPLANES";
  case JERR_BMP_BADCMAP: return "BMP_BADCMAP";
  case JERR_BMP_OUTOFRANGE: return "BMP_RANGE";
  case JERR_BAD_IN_COLORSPACE: return "BADCS";
  case JERR_WIDTH_OVERFLOW: return "WIDTH_OVERFLOW";
  case JERR_UNKNOWN_FORMAT: return "UNKNOWN";
  case JERR_BAD_PRECISION: return "BADPREC";
  }
  snprintf(num, sizeof(num), "%d", code);
  return num;
}

static void cmd_rd(char *p)
{
  struct jpeg_compress_struct cinfo;
  struct jpeg_error_mgr jerr;
  cjpeg_source_ptr src = NULL;
  FILE *volatile f = NULL;
  int *volatile samples = NULL;
  long maxpixels;
  int n = 0, c, is_targa = 0;
  size_t len, ns = 0, cap = 0, k;
  unsigned char *bytes;
  JDIMENSION row = 0;
  if (sscanf(p, "%ld %d %n", &maxpixels, &is_targa, &n) < 2) { printf("bad case\n"); return; }
  bytes = unhex(p + n, &len);
  write_file(tmpname, bytes, len);
  free(bytes);
  cinfo.err = jpeg_std_error(&jerr);
  jerr.error_exit = cj_exit;
  jerr.emit_message = cj_emit;
  jpeg_create_compress(&cinfo);
  if (setjmp(cjb)) {
    printf("rd err %s\n", rd_err_name(cj_code));
    jpeg_destroy_compress(&cinfo);
    if (f) fclose(f);
    free(samples);
    return;
  }
  cinfo.in_color_space = JCS_RGB;
  jpeg_set_defaults(&cinfo);
  f = fopen(tmpname, "rb");
  if (is_targa) c = 0x00;
  else {
    if ((c = getc(f)) == EOF) ERREXIT(&cinfo, JERR_INPUT_EMPTY);
    ungetc(c, f);
  }
  switch (c) {
  case 'B': src = jinit_read_bmp(&cinfo, TRUE); break;     /* cjpeg: inversion array */
  case 'G': src = jinit_read_gif(&cinfo); break;
  case 0x00: src = jinit_read_targa(&cinfo); break;
  default: ERREXIT(&cinfo, JERR_UNKNOWN_FORMAT);
  }
  src->input_file = f;
  src->max_pixels = (JDIMENSION)maxpixels;
  (*src->start_input) (&cinfo, src);
  (*cinfo.mem->realize_virt_arrays) ((j_common_ptr)&cinfo);
  while (row < cinfo.image_height) {
    JDIMENSION nl = (*src->get_pixel_rows) (&cinfo, src), i, j;
    JDIMENSION rowlen = cinfo.image_width * (JDIMENSION)cinfo.input_components;
    for (i = 0; i < nl; i++)
      for (j = 0; j < rowlen; j++) {
        if (ns == cap) { cap = cap ? cap * 2 : 1024; samples = realloc((void *)samples, cap * sizeof(int)); }
        samples[ns++] = src->buffer[i][j];
      }
    row += nl;
  }
  (*src->finish_input) (&cinfo, src);
  printf("rd ok %u %u %d %ld |", cinfo.image_width, cinfo.image_height, cinfo.input_components, jerr.num_warnings);
  for (k = 0; k < ns; k++) printf(" %d", samples[k]);
  printf("\n");
  jpeg_destroy_compress(&cinfo);
  fclose(f);
  free(samples);
}

static void cmd_cmykrt(char *p)
{
  int prec, w, h, nprint, maxs, pf, w2 = 0, h2 = 0, i, n, bad = 0;
  unsigned long long seed;
  int *rgb;
  void *c1 = NULL, *rgb2 = NULL, *c2 = NULL;
  FILE *f;
  tjhandle hnd;
  if (sscanf(p, "%d %d %d %llu %d", &prec, &w, &h, &seed, &nprint) < 5) { printf("bad case\n"); return; }
  maxs = (1 << prec) - 1;
  n = w * h;
  rs = seed * 2654435761ULL + 88172645463325252ULL;
  rgb = malloc(sizeof(int) * 3 * (size_t)n);
  for (i = 0; i < n; i++) {
    int k, mode = rnd() % 8;
    for (k = 0; k < 3; k++) rgb[3 * i + k] = (int)(rnd() % (unsigned)(maxs + 1));
    if (mode < 3) rgb[3 * i + rnd() % 3] = maxs - (int)(rnd() % 8 % (unsigned)(maxs + 1));      /* bright: max near full scale */
    else if (mode == 3) rgb[3 * i + rnd() % 3] = maxs;
    else if (mode == 4) { int v = rgb[3 * i]; rgb[3 * i + 1] = v; if (rnd() & 1) rgb[3 * i + 2] = v; }
    else if (mode == 5) for (k = 0; k < 3; k++) rgb[3 * i + k] = (int)(rnd() % 4);                  /* dark */
    for (k = 0; k < 3; k++) if (rgb[3 * i + k] < 0) rgb[3 * i + k] = 0;
  }
  f = fopen(tmpname, "wb");
  fprintf(f, "P6\n%d %d\n%d\n", w, h, maxs);
  for (i = 0; i < 3 * n; i++) {
    if (prec > 8) fputc(rgb[i] >> 8, f);
    fputc(rgb[i] & 255, f);
  }
  fclose(f);
  hnd = tj3Init(TJINIT_COMPRESS);
  tj3Set(hnd, TJPARAM_PRECISION, prec);
  pf = TJPF_CMYK;
  c1 = do_load(hnd, prec, tmpname, &w2, 1, &h2, &pf);
  if (!c1 || w2 != w || h2 != h || pf != TJPF_CMYK) { printf("cmykrt err load-cmyk %s\n", c1 ? "geometry" : err_class(tj3GetErrorStr(hnd))); goto done; }
  if (do_save(hnd, prec, tmpname, c1, w, 0, h, TJPF_CMYK) < 0) { printf("cmykrt err save-cmyk %s\n", err_class(tj3GetErrorStr(hnd))); goto done; }
  pf = TJPF_RGB;
  rgb2 = do_load(hnd, prec, tmpname, &w2, 1, &h2, &pf);
  pf = TJPF_CMYK;
  c2 = do_load(hnd, prec, tmpname, &w2, 1, &h2, &pf);
  if (!rgb2 || !c2) { printf("cmykrt err reload %s\n", err_class(tj3GetErrorStr(hnd))); goto done; }
  for (i = 0; i < n && !bad; i++) {
    int k;
    for (k = 0; k < 3; k++)
      if (get_sample(rgb2, prec, 3 * (size_t)i + k) != rgb[3 * i + k]) bad = 1;
    for (k = 0; k < 4; k++) {
      if (get_sample(c2, prec, 4 * (size_t)i + k) != get_sample(c1, prec, 4 * (size_t)i + k)) bad = 1;
      if (get_sample(c1, prec, 4 * (size_t)i + k) > maxs) bad = 1;
    }
    if (bad)
      printf("cmykrt MISMATCH precision %d pixel %d: RGB %d %d %d -> CMYK %d %d %d %d -> saved, reloaded CMYK %d %d %d %d RGB %d %d %d\n",
             prec, i, rgb[3 * i], rgb[3 * i + 1], rgb[3 * i + 2],
             get_sample(c1, prec, 4 * (size_t)i), get_sample(c1, prec, 4 * (size_t)i + 1), get_sample(c1, prec, 4 * (size_t)i + 2), get_sample(c1, prec, 4 * (size_t)i + 3),
             get_sample(c2, prec, 4 * (size_t)i), get_sample(c2, prec, 4 * (size_t)i + 1), get_sample(c2, prec, 4 * (size_t)i + 2), get_sample(c2, prec, 4 * (size_t)i + 3),
             get_sample(rgb2, prec, 3 * (size_t)i), get_sample(rgb2, prec, 3 * (size_t)i + 1), get_sample(rgb2, prec, 3 * (size_t)i + 2));
  }
  if (!bad) {
    printf("cmykrt ok %d |", n);
    for (i = 0; i < n && i < nprint; i++)
      printf(" %d %d %d %d %d %d %d", rgb[3 * i], rgb[3 * i + 1], rgb[3 * i + 2],
             get_sample(c1, prec, 4 * (size_t)i), get_sample(c1, prec, 4 * (size_t)i + 1), get_sample(c1, prec, 4 * (size_t)i + 2), get_sample(c1, prec, 4 * (size_t)i + 3));
    printf("\n");
  }
done:
  if (c1) tj3Free(c1);
  if (rgb2) tj3Free(rgb2);
  if (c2) tj3Free(c2);
  free(rgb);
  tj3Destroy(hnd);
}

static void run_case(char *p)
{
  if (!strncmp(p, "load ", 5)) cmd_load(p + 5, 0);
  else if (!strncmp(p, "loadx ", 6)) cmd_load(p + 6, 1);
  else if (!strncmp(p, "save ", 5)) cmd_save(p + 5);
  else if (!strncmp(p, "rt ", 3)) cmd_rt(p + 3);
  else if (!strncmp(p, "cj ", 3)) cmd_cj(p + 3, 0);
  else if (!strncmp(p, "cjx ", 4)) cmd_cj(p + 4, 1);
  else if (!strncmp(p, "rd ", 3)) cmd_rd(p + 3);
  else if (!strncmp(p, "cmykrt ", 7)) cmd_cmykrt(p + 7);
  else printf("bad command\n");
}

/* first line of a sanitizer report (or the last line of stderr) left by a dead child */
static void report_child_stderr(const char *fn)
{
  FILE *f = fopen(fn, "r");
  char buf[512], keep[512] = "";
  if (!f) return;
  while (fgets(buf, sizeof(buf), f)) {
    size_t k = strlen(buf);
    while (k && (buf[k - 1] == '\n' || buf[k - 1] == '\r')) buf[--k] = 0;
    if (!k) continue;
    if (strstr(buf, "ERROR: ") || strstr(buf, "runtime error")) { strcpy(keep, buf); break; }
    if (!keep[0]) strcpy(keep, buf);
  }
  fclose(f);
  printf(" %s", keep);
}

int main(int argc, char **argv)
{
  ssize_t n;
  int forking = argc > 2 && !strcmp(argv[2], "fork");
  char errname[4200];
  setvbuf(stdout, NULL, _IOFBF, 1 << 16);
  if (argc < 2) { fprintf(stderr, "usage: c18 <scratch-dir> [fork]\n"); return 2; }
  snprintf(tmpname, sizeof(tmpname), "%s/c18_%ld.img", argv[1], (long)getpid());
  snprintf(tmpbmp, sizeof(tmpbmp), "%s/c18_%ld.bmp", argv[1], (long)getpid());
  snprintf(errname, sizeof(errname), "%s/c18_%ld.err", argv[1], (long)getpid());
  signal(SIGALRM, on_alarm);
  while ((n = getline(&line, &linecap, stdin)) > 0) {
    char *p = line;
    if (n && p[n - 1] == '\n') p[n - 1] = 0;
    if (forking) {
      pid_t pid;
      int st = 0;
      fflush(stdout);
      pid = fork();
      if (pid == 0) {
        int fd = open(errname, O_WRONLY | O_CREAT | O_TRUNC, 0600);
        if (fd >= 0) { dup2(fd, 2); close(fd); }
        alarm(20);
        run_case(p);
        fflush(stdout);
        _exit(0);
      }
      if (pid < 0) { perror("fork"); return 2; }
      while (waitpid(pid, &st, 0) < 0) ;
      if (WIFSIGNALED(st)) { printf("CRASH signal %d", WTERMSIG(st)); report_child_stderr(errname); printf("\n"); }
      else if (WEXITSTATUS(st) == 3) ;                      /* TIMEOUT line already printed by the child */
      else if (WEXITSTATUS(st) != 0) { printf("CRASH exit %d", WEXITSTATUS(st)); report_child_stderr(errname); printf("\n"); }
      fflush(stdout);
      continue;
    }
    alarm(20);
    run_case(p);
    alarm(0);
    fflush(stdout);     /* one flush per case: output survives a crash */
  }
  unlink(tmpname);
  unlink(tmpbmp);
  unlink(errname);
  return 0;
}
