/* C19 correspondence harness: runs the REAL jpeg_gen_optimal_table,
 * jpeg_make_c_derived_tbl, jpeg_make_d_derived_tbl, HUFF_DECODE/jpeg_huff_decode
 * and JPEG_NBITS of the current working tree on the cases read from stdin and
 * prints one canonical result line per case (same format as ml/C19_driver.ml).
 *   gen f0 .. f255
 *   tbl <isDC> <lossless> b1 .. b16 | v0 v1 ...
 *   rt  <isDC> <lossless> b1 .. b16 | v0 v1 ... | s0 s1 ...   (encode+decode)
 *   nbits <lo> <hi>
 *   tn <seed> <mode> <optimize> / tw <seed> <mode>   real-codec families, see harness/c19tn.inc.c
 */
#include <stdio.h>
#include <stdlib.h>
#include <string.h>
#include <setjmp.h>
#define JPEG_INTERNALS
#include "jinclude.h"
#include "jpeglib.h"
#include "jchuff.h"
#include "jdhuff.h"
#include "jpeg_nbits.h"

static jmp_buf jb;
static int last_err;
static void my_exit(j_common_ptr c) { last_err = c->err->msg_code; longjmp(jb, 1); }
static void my_emit(j_common_ptr c, int lvl) { if (lvl < 0) c->err->num_warnings++; }

static struct jpeg_compress_struct cc;
static struct jpeg_decompress_struct dc;
static struct jpeg_error_mgr ce, de;
static struct jpeg_comp_master cmaster;
static struct jpeg_decomp_master dmaster;

static char line[1 << 16];

static int parse_tbl(char **pp, JHUFF_TBL *t, int *nvals)
{
  char *p = *pp; int i;
  memset(t, 0, sizeof(*t));
  for (i = 1; i <= 16; i++) t->bits[i] = (UINT8)strtol(p, &p, 10);
  while (*p == ' ') p++;
  if (*p == '|') p++;
  *nvals = 0;
  for (;;) {
    while (*p == ' ') p++;
    if (*p == '|' || *p == 0 || *p == '\n') break;
    long v = strtol(p, &p, 10);
    if (*nvals < 256) t->huffval[(*nvals)++] = (UINT8)v;
  }
  *pp = p;
  return 0;
}

/* decode n symbols from buf with the real HUFF_DECODE macro */
static int decode_syms(d_derived_tbl *dt, unsigned char *buf, size_t len, int n, int *out)
{
  bitread_perm_state bitstate; BITREAD_STATE_VARS; int i; j_decompress_ptr cinfo = &dc;
  jpeg_mem_src(&dc, buf, (unsigned long)len);
  (*dc.src->init_source) (&dc);
  dc.unread_marker = 0;
  bitstate.get_buffer = 0; bitstate.bits_left = 0;
  BITREAD_LOAD_STATE(cinfo, bitstate);
  for (i = 0; i < n; i++) {
    register int s;
    HUFF_DECODE(s, br_state, dt, return -1, label1);
    out[i] = s;
  }
  return 0;
}


/* ms <seed> <w> <h>: the derived decoder tables must follow a DHT that REDEFINES a slot between
 * scans: encode noise with all components on Huffman slot 0, optimised tables, three
 * non-interleaved sequential scans (=> three different tables in slot 0), and compare the
 * coefficients read back with those of the single-scan encoding. */
static unsigned long ms_hash(unsigned char *jpg, unsigned long n, int *warn)
{
  struct jpeg_decompress_struct d; struct jpeg_error_mgr e; unsigned long hsh = 1469598103UL; int ci;
  jvirt_barray_ptr *coefs;
  d.err = jpeg_std_error(&e); e.error_exit = my_exit; e.emit_message = my_emit;
  if (setjmp(jb)) { jpeg_destroy_decompress(&d); *warn = -1; return 0; }
  jpeg_create_decompress(&d); jpeg_mem_src(&d, jpg, n); jpeg_read_header(&d, TRUE);
  coefs = jpeg_read_coefficients(&d);
  for (ci = 0; ci < d.num_components; ci++) {
    JDIMENSION r, b; int k; jpeg_component_info *c = &d.comp_info[ci];
    for (r = 0; r < c->height_in_blocks; r++) {
      JBLOCKARRAY ba = (*d.mem->access_virt_barray) ((j_common_ptr)&d, coefs[ci], r, 1, FALSE);
      for (b = 0; b < c->width_in_blocks; b++) for (k = 0; k < 64; k++) hsh = (hsh ^ (unsigned short)ba[0][b][k]) * 1099511UL + 7;
    }
  }
  *warn = (int)d.err->num_warnings;
  jpeg_finish_decompress(&d); jpeg_destroy_decompress(&d);
  return hsh;
}
static int ms_encode(unsigned seed, int w, int h, int multiscan, unsigned char **out, unsigned long *n)
{
  struct jpeg_compress_struct c; struct jpeg_error_mgr e; static jpeg_scan_info si[3]; int i, y;
  unsigned char *row = (unsigned char *)malloc(w * 3); JSAMPROW rp = row;
  c.err = jpeg_std_error(&e); e.error_exit = my_exit; e.emit_message = my_emit;
  if (setjmp(jb)) { jpeg_destroy_compress(&c); free(row); return -1; }
  jpeg_create_compress(&c); jpeg_mem_dest(&c, out, n);
  c.image_width = w; c.image_height = h; c.input_components = 3; c.in_color_space = JCS_RGB;
  jpeg_set_defaults(&c); jpeg_set_quality(&c, 90, TRUE);
  for (i = 0; i < 3; i++) { c.comp_info[i].dc_tbl_no = 0; c.comp_info[i].ac_tbl_no = 0; c.comp_info[i].h_samp_factor = c.comp_info[i].v_samp_factor = 1; }
  c.optimize_coding = TRUE;
  if (multiscan) {
    for (i = 0; i < 3; i++) { si[i].comps_in_scan = 1; si[i].component_index[0] = i; si[i].Ss = 0; si[i].Se = 63; si[i].Ah = 0; si[i].Al = 0; }
    c.scan_info = si; c.num_scans = 3;
  }
  jpeg_start_compress(&c, TRUE);
  for (y = 0; y < h; y++) {
    for (i = 0; i < w * 3; i++) { seed = seed * 1103515245u + 12345u; row[i] = (unsigned char)((i % 3 == 0) ? (seed >> 16) : (i % 3 == 1 ? (seed >> 20) & 0x3F : (seed >> 9) & 0x0F)); }
    jpeg_write_scanlines(&c, &rp, 1);
  }
  jpeg_finish_compress(&c); jpeg_destroy_compress(&c); free(row); return 0;
}

#include "c19tn.inc.c"

int main(void)
{
  setvbuf(stdout, NULL, _IOLBF, 0);
  cc.err = jpeg_std_error(&ce); ce.error_exit = my_exit; ce.emit_message = my_emit;
  dc.err = jpeg_std_error(&de); de.error_exit = my_exit; de.emit_message = my_emit;
  jpeg_create_compress(&cc); jpeg_create_decompress(&dc);
  memset(&cmaster, 0, sizeof(cmaster)); memset(&dmaster, 0, sizeof(dmaster));
  cc.master = &cmaster; dc.master = &dmaster;

  while (fgets(line, sizeof(line), stdin)) {
    char *p = line; char cmd[16]; int k = 0;
    while (*p && *p != ' ' && *p != '\n' && k < 15) cmd[k++] = *p++;
    cmd[k] = 0;
    if (!strcmp(cmd, "gen")) {
      long freq[257]; JHUFF_TBL t; int i, n = 0;
      for (i = 0; i < 256; i++) freq[i] = strtol(p, &p, 10);
      freq[256] = 0;
      memset(&t, 0xEE, sizeof(t));
      if (setjmp(jb)) { printf("err %s\n", last_err == JERR_HUFF_CLEN_OVERFLOW ? "ClenOverflow" : "Other"); continue; }
      jpeg_gen_optimal_table(&cc, &t, freq);
      printf("ok");
      for (i = 0; i <= 16; i++) { printf(" %d", t.bits[i]); if (i) n += t.bits[i]; }
      printf(" |");
      for (i = 0; i < n && i < 256; i++) printf(" %d", t.huffval[i]);
      printf("\n");
    } else if (!strcmp(cmd, "tbl") || !strcmp(cmd, "rt")) {
      int isDC = (int)strtol(p, &p, 10), lossless = (int)strtol(p, &p, 10);
      JHUFF_TBL t; int nvals, i; c_derived_tbl *ct = NULL; d_derived_tbl *dt = NULL;
      int cok = 1, dok = 1;
      parse_tbl(&p, &t, &nvals);
      cmaster.lossless = lossless; dmaster.lossless = lossless;
      cc.dc_huff_tbl_ptrs[0] = cc.ac_huff_tbl_ptrs[0] = &t;
      dc.dc_huff_tbl_ptrs[0] = dc.ac_huff_tbl_ptrs[0] = &t;
      if (setjmp(jb)) cok = 0; else jpeg_make_c_derived_tbl(&cc, isDC, 0, &ct);
      if (setjmp(jb)) dok = 0; else jpeg_make_d_derived_tbl(&dc, isDC, 0, &dt);
      if (!strcmp(cmd, "tbl")) {
        printf("c %s", cok ? "ok" : "bad");
        if (cok) { for (i = 0; i < 256; i++) printf(" %u:%d", ct->ehufco[i], ct->ehufsi[i]); }
        printf(" ; d %s", dok ? "ok" : "bad");
        if (dok) {
          for (i = 1; i <= 17; i++) printf(" %ld", (long)dt->maxcode[i]);
          printf(" /");
          /* valoffset[l] is left unset by the C when no code has length l: canonicalise to 0 */
          for (i = 1; i <= 17; i++) printf(" %ld", dt->maxcode[i] == -1 ? 0L : (long)dt->valoffset[i]);
          printf(" /");
          for (i = 0; i < 256; i++) printf(" %d", dt->lookup[i]);
        }
        printf("\n");
      } else {
        /* symbols */
        static int syms[4096], outs[4096]; int ns = 0; static unsigned char buf[4096 * 4 + 64];
        size_t bl = 0; unsigned long acc = 0; int nb = 0; int bad = 0;
        if (*p == '|') p++;
        for (;;) { while (*p == ' ') p++; if (*p == 0 || *p == '\n') break; syms[ns++] = (int)strtol(p, &p, 10); if (ns >= 4096) break; }
        if (!cok || !dok) { printf("bad\n"); jpeg_abort_compress(&cc); jpeg_abort_decompress(&dc); continue; }
        printf("bits ");
        for (i = 0; i < ns; i++) {
          int s = syms[i]; int sz = ct->ehufsi[s]; unsigned int co = ct->ehufco[s]; int b;
          if (sz == 0) { bad = 1; break; }
          for (b = sz - 1; b >= 0; b--) {
            int bit = (co >> b) & 1; putchar('0' + bit);
            acc = (acc << 1) | bit; nb++;
            if (nb == 8) { buf[bl++] = (unsigned char)acc; if ((acc & 0xFF) == 0xFF) buf[bl++] = 0; acc = 0; nb = 0; }
          }
        }
        if (bad) { printf(" nocode\n"); jpeg_abort_compress(&cc); jpeg_abort_decompress(&dc); continue; }
        /* pad with zero bits then zero bytes so the reader never meets the end */
        if (nb) { acc <<= (8 - nb); buf[bl++] = (unsigned char)acc; if ((acc & 0xFF) == 0xFF) buf[bl++] = 0; }
        memset(buf + bl, 0, 32); bl += 32;
        if (setjmp(jb)) { printf(" ; decode-error\n"); jpeg_abort_decompress(&dc); continue; }
        if (decode_syms(dt, buf, bl, ns, outs) < 0) { printf(" ; suspended\n"); }
        else { printf(" ; dec"); for (i = 0; i < ns; i++) printf(" %d", outs[i]); printf("\n"); }
      }
      /* release the JPOOL_IMAGE tables */
      jpeg_abort_compress(&cc); jpeg_abort_decompress(&dc);
    } else if (!strcmp(cmd, "ms")) {
      unsigned seed = (unsigned)strtoul(p, &p, 10); int w = (int)strtol(p, &p, 10), h = (int)strtol(p, &p, 10);
      unsigned char *a = NULL, *b = NULL; unsigned long na = 0, nb = 0, ha, hb; int wa = 0, wb = 0;
      if (ms_encode(seed, w, h, 0, &a, &na) || ms_encode(seed, w, h, 1, &b, &nb)) { printf("ms encode-error\n"); free(a); free(b); continue; }
      ha = ms_hash(a, na, &wa); hb = ms_hash(b, nb, &wb);
      printf("ms %s warn=%d,%d\n", (ha == hb && wa == 0 && wb == 0) ? "same" : "DIFF", wa, wb);
      free(a); free(b);
    } else if (!strcmp(cmd, "tn")) {
      unsigned seed = (unsigned)strtoul(p, &p, 10); int mode = (int)strtol(p, &p, 10), opt = (int)strtol(p, &p, 10);
      tn_line(seed, mode, opt);
    } else if (!strcmp(cmd, "tw")) {
      unsigned seed = (unsigned)strtoul(p, &p, 10); int mode = (int)strtol(p, &p, 10);
      tw_line(seed, mode);
    } else if (!strcmp(cmd, "nbits")) {
      long lo = strtol(p, &p, 10), hi = strtol(p, &p, 10), x;
      printf("nb");
      for (x = lo; x <= hi; x++) printf(" %d", (int)JPEG_NBITS(x));
      printf("\n");
    } else {
      printf("?\n");
    }
  }
  return 0;
}
