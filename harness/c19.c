/* C19 correspondence harness: runs the REAL jpeg_gen_optimal_table,
 * jpeg_make_c_derived_tbl, jpeg_make_d_derived_tbl, HUFF_DECODE/jpeg_huff_decode
 * and JPEG_NBITS of the current working tree on the cases read from stdin and
 * prints one canonical result line per case (same format as ml/C19_driver.ml).
 *   gen f0 .. f255
 *   tbl <isDC> <lossless> b1 .. b16 | v0 v1 ...
 *   rt  <isDC> <lossless> b1 .. b16 | v0 v1 ... | s0 s1 ...   (encode+decode)
 *   nbits <lo> <hi>
 */
#include <stdio.h>
#include <stdlib.h>
#include <string.h>
#include <setjmp.h>
#define JPEG_INTERNALS
#include "jinclude.h"
#include "jpeglib.h"
#include "jchuff.h"
#include "jdhuff.h"
#include "jpeg_nbits.h"

static jmp_buf jb;
static int last_err;
static void my_exit(j_common_ptr c) { last_err = c->err->msg_code; longjmp(jb, 1); }
static void my_emit(j_common_ptr c, int lvl) { if (lvl < 0) c->err->num_warnings++; }

static struct jpeg_compress_struct cc;
static struct jpeg_decompress_struct dc;
static struct jpeg_error_mgr ce, de;
static struct jpeg_comp_master cmaster;
static struct jpeg_decomp_master dmaster;

static char line[1 << 16];

static int parse_tbl(char **pp, JHUFF_TBL *t, int *nvals)
{
  char *p = *pp; int i;
  memset(t, 0, sizeof(*t));
  for (i = 1; i <= 16; i++) t->bits[i] = (UINT8)strtol(p, &p, 10);
  while (*p == ' ') p++;
  if (*p == '|') p++;
  *nvals = 0;
  for (;;) {
    while (*p == ' ') p++;
    if (*p == '|' || *p == 0 || *p == '\n') break;
    long v = strtol(p, &p, 10);
    if (*nvals < 256) t->huffval[(*nvals)++] = (UINT8)v;
  }
  *pp = p;
  return 0;
}

/* decode n symbols from buf with the real HUFF_DECODE macro */
static int decode_syms(d_derived_tbl *dt, unsigned char *buf, size_t len, int n, int *out)
{
  bitread_perm_state bitstate; BITREAD_STATE_VARS; int i; j_decompress_ptr cinfo = &dc;
  jpeg_mem_src(&dc, buf, (unsigned long)len);
  (*dc.src->init_source) (&dc);
  dc.unread_marker = 0;
  bitstate.get_buffer = 0; bitstate.bits_left = 0;
  BITREAD_LOAD_STATE(cinfo, bitstate);
  for (i = 0; i < n; i++) {
    register int s;
    HUFF_DECODE(s, br_state, dt, return -1, label1);
    out[i] = s;
  }
  return 0;
}

int main(void)
{
  setvbuf(stdout, NULL, _IOLBF, 0);
  cc.err = jpeg_std_error(&ce); ce.error_exit = my_exit; ce.emit_message = my_emit;
  dc.err = jpeg_std_error(&de); de.error_exit = my_exit; de.emit_message = my_emit;
  jpeg_create_compress(&cc); jpeg_create_decompress(&dc);
  memset(&cmaster, 0, sizeof(cmaster)); memset(&dmaster, 0, sizeof(dmaster));
  cc.master = &cmaster; dc.master = &dmaster;

  while (fgets(line, sizeof(line), stdin)) {
    char *p = line; char cmd[16]; int k = 0;
    while (*p && *p != ' ' && *p != '\n' && k < 15) cmd[k++] = *p++;
    cmd[k] = 0;
    if (!strcmp(cmd, "gen")) {
      long freq[257]; JHUFF_TBL t; int i, n = 0;
      for (i = 0; i < 256; i++) freq[i] = strtol(p, &p, 10);
      freq[256] = 0;
      memset(&t, 0xEE, sizeof(t));
      if (setjmp(jb)) { printf("err %s\n", last_err == JERR_HUFF_CLEN_OVERFLOW ? "ClenOverflow" : "Other"); continue; }
      jpeg_gen_optimal_table(&cc, &t, freq);
      printf("ok");
      for (i = 0; i <= 16; i++) { printf(" %d", t.bits[i]); if (i) n += t.bits[i]; }
      printf(" |");
      for (i = 0; i < n && i < 256; i++) printf(" %d", t.huffval[i]);
      printf("\n");
    } else if (!strcmp(cmd, "tbl") || !strcmp(cmd, "rt")) {
      int isDC = (int)strtol(p, &p, 10), lossless = (int)strtol(p, &p, 10);
      JHUFF_TBL t; int nvals, i; c_derived_tbl *ct = NULL; d_derived_tbl *dt = NULL;
      int cok = 1, dok = 1;
      parse_tbl(&p, &t, &nvals);
      cmaster.lossless = lossless; dmaster.lossless = lossless;
      cc.dc_huff_tbl_ptrs[0] = cc.ac_huff_tbl_ptrs[0] = &t;
      dc.dc_huff_tbl_ptrs[0] = dc.ac_huff_tbl_ptrs[0] = &t;
      if (setjmp(jb)) cok = 0; else jpeg_make_c_derived_tbl(&cc, isDC, 0, &ct);
      if (setjmp(jb)) dok = 0; else jpeg_make_d_derived_tbl(&dc, isDC, 0, &dt);
      if (!strcmp(cmd, "tbl")) {
        printf("c %s", cok ? "ok" : "bad");
        if (cok) { for (i = 0; i < 256; i++) printf(" %u:%d", ct->ehufco[i], ct->ehufsi[i]); }
        printf(" ; d %s", dok ? "ok" : "bad");
        if (dok) {
          for (i = 1; i <= 17; i++) printf(" %ld", (long)dt->maxcode[i]);
          printf(" /");
          /* valoffset[l] is left unset by the C when no code has length l: canonicalise to 0 */
          for (i = 1; i <= 17; i++) printf(" %ld", dt->maxcode[i] == -1 ? 0L : (long)dt->valoffset[i]);
          printf(" /");
          for (i = 0; i < 256; i++) printf(" %d", dt->lookup[i]);
        }
        printf("\n");
      } else {
        /* symbols */
        static int syms[4096], outs[4096]; int ns = 0; static unsigned char buf[4096 * 4 + 64];
        size_t bl = 0; unsigned long acc = 0; int nb = 0; int bad = 0;
        if (*p == '|') p++;
        for (;;) { while (*p == ' ') p++; if (*p == 0 || *p == '\n') break; syms[ns++] = (int)strtol(p, &p, 10); if (ns >= 4096) break; }
        if (!cok || !dok) { printf("bad\n"); jpeg_abort_compress(&cc); jpeg_abort_decompress(&dc); continue; }
        printf("bits ");
        for (i = 0; i < ns; i++) {
          int s = syms[i]; int sz = ct->ehufsi[s]; unsigned int co = ct->ehufco[s]; int b;
          if (sz == 0) { bad = 1; break; }
          for (b = sz - 1; b >= 0; b--) {
            int bit = (co >> b) & 1; putchar('0' + bit);
            acc = (acc << 1) | bit; nb++;
            if (nb == 8) { buf[bl++] = (unsigned char)acc; if ((acc & 0xFF) == 0xFF) buf[bl++] = 0; acc = 0; nb = 0; }
          }
        }
        if (bad) { printf(" nocode\n"); jpeg_abort_compress(&cc); jpeg_abort_decompress(&dc); continue; }
        /* pad with zero bits then zero bytes so the reader never meets the end */
        if (nb) { acc <<= (8 - nb); buf[bl++] = (unsigned char)acc; if ((acc & 0xFF) == 0xFF) buf[bl++] = 0; }
        memset(buf + bl, 0, 32); bl += 32;
        if (setjmp(jb)) { printf(" ; decode-error\n"); jpeg_abort_decompress(&dc); continue; }
        if (decode_syms(dt, buf, bl, ns, outs) < 0) { printf(" ; suspended\n"); }
        else { printf(" ; dec"); for (i = 0; i < ns; i++) printf(" %d", outs[i]); printf("\n"); }
      }
      /* release the JPOOL_IMAGE tables */
      jpeg_abort_compress(&cc); jpeg_abort_decompress(&dc);
    } else if (!strcmp(cmd, "nbits")) {
      long lo = strtol(p, &p, 10), hi = strtol(p, &p, 10), x;
      printf("nb");
      for (x = lo; x <= hi; x++) printf(" %d", (int)JPEG_NBITS(x));
      printf("\n");
    } else {
      printf("?\n");
    }
  }
  return 0;
}
