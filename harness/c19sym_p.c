/* hp: the real progressive statistics pass (jcphuff.c) -- see harness/c19sym.c */
#include "c19sym.h"
#include "jcphuff.c"

static jmp_buf jbp;
static int p_err;
static void p_exit(j_common_ptr c) { p_err = c->err->msg_code; longjmp(jbp, 1); }
static void p_emit(j_common_ptr c, int lvl) { }

void c19_hp_line(char *p)
{
  struct jpeg_compress_struct c; struct jpeg_error_mgr e; static jpeg_component_info comp;
  unsigned char *ob = NULL; unsigned long on = 0;
  long v[80], rep; int n; phuff_entropy_ptr ent;
  c.err = jpeg_std_error(&e); e.error_exit = p_exit; e.emit_message = p_emit;
  jpeg_create_compress(&c);
  if (setjmp(jbp)) { if (p_err == JERR_BAD_DCT_COEF) printf("hp err\n"); else printf("hp err code=%d\n", p_err); jpeg_destroy_compress(&c); free(ob); return; }
  jpeg_mem_dest(&c, &ob, &on);
  n = c19_group(&p, v, 80, &rep);
  if (n != 6) { printf("?\n"); jpeg_destroy_compress(&c); return; }
  c.data_precision = (int)v[0]; c.Ss = (int)v[1]; c.Se = (int)v[2]; c.Ah = (int)v[3]; c.Al = (int)v[4];
  c.restart_interval = (unsigned int)v[5];
  memset(&comp, 0, sizeof(comp));
  comp.component_index = 0; comp.dc_tbl_no = 0; comp.ac_tbl_no = 0;
  comp.h_samp_factor = comp.v_samp_factor = 1; comp.MCU_width = comp.MCU_height = comp.MCU_blocks = 1;
  c.num_components = 1; c.comp_info = &comp; c.comps_in_scan = 1; c.cur_comp_info[0] = &comp;
  c.blocks_in_MCU = 1; c.MCU_membership[0] = 0; c.progressive_mode = TRUE;
  jinit_phuff_encoder(&c);
  (*c.entropy->start_pass) (&c, TRUE);
  ent = (phuff_entropy_ptr)c.entropy;
  for (;;) {
    JBLOCK blk; JBLOCKROW mcu[1]; int i; long r;
    n = c19_group(&p, v, 80, &rep);
    if (n == 0) break;
    if (n != 64) { printf("?\n"); jpeg_destroy_compress(&c); free(ob); return; }
    for (i = 0; i < 64; i++) blk[jpeg_natural_order[i]] = (JCOEF)v[i];
    mcu[0] = (JBLOCKROW)&blk;
    for (r = 0; r < rep; r++) (*c.entropy->encode_mcu) (&c, mcu);
  }
  printf("hp eobrun %u be %u |", ent->EOBRUN, ent->BE);
  emit_eobrun(ent);             /* exactly what finish_pass_gather_phuff does first */
  c19_print_counts(ent->count_ptrs[0]);
  printf("\n");
  jpeg_destroy_compress(&c); free(ob);
}
