/* C05 kernel-level wrappers: each c05_k_*.c includes ONE C source file of the tree under
 * test (to reach its static functions) and exposes the C implementation and the
 * jsimd_* dispatcher of simd/x86_64/jsimd.c (which selects SSE2 or AVX2 from the
 * thread-local simd_support, i.e. from the JSIMD_FORCE* environment) with the same
 * signature.  `simd` = 0: C code, 1: SIMD dispatcher. */
#ifndef C05_K_H
#define C05_K_H
#include <stddef.h>
typedef unsigned char u8;
/* colour: cs = J_COLOR_SPACE value (JCS_EXT_RGB ...); planes must be 32-byte aligned */
void c05_ccolor_init(void);
void c05_rgb_ycc(int simd, int cs, const u8 *rgb, u8 *y, u8 *cb, u8 *cr, unsigned width);
void c05_rgb_gray(int simd, int cs, const u8 *rgb, u8 *y, unsigned width);
void c05_dcolor_init(void);
void c05_ycc_rgb(int simd, int cs, u8 *y, u8 *cb, u8 *cr, u8 *rgb, unsigned width);
void c05_dmerge_init(void);
void c05_merged(int simd, int v2, int cs, u8 *y0, u8 *y1, u8 *cb, u8 *cr, u8 *out0, u8 *out1, unsigned width);
/* sampling */
void c05_down(int simd, int v2, unsigned image_width, unsigned width_in_blocks, u8 *row0, u8 *row1, u8 *out);
void c05_fancy(int simd, int v2, unsigned w, u8 *above, u8 *cur, u8 *below, u8 *out0, u8 *out1);
void c05_plain(int simd, int v2, unsigned outw, u8 *in, u8 *out0, u8 *out1);
/* whole row groups: max_v = max_v_samp_factor (upsampling) / vs = v_samp_factor (downsampling) rows per call.
   fancy: in[-1] and in[n] (context rows) must be valid pointers */
void c05_down_rows(int simd, int v2, unsigned image_width, unsigned width_in_blocks, int vs, u8 **in, u8 **out);
void c05_fancy_rows(int simd, int v2, unsigned w, int max_v, u8 **in, u8 **out);
void c05_plain_rows(int simd, int v2, unsigned outw, int max_v, u8 **in, u8 **out);
void c05_rgb_ycc_rows(int simd, int cs, u8 **rgb, u8 **y, u8 **cb, u8 **cr, unsigned width, int nrows, int gray);
void c05_ycc_rgb_rows(int simd, int cs, u8 **y, u8 **cb, u8 **cr, u8 **rgb, unsigned width, int nrows);
/* quantisation: divisors table built by the real compute_reciprocal for all 64 positions */
int c05_recip(unsigned divisor, short *dtbl256, int pos);
void c05_quant(int simd, short *coef, short *divisors, short *workspace);
void c05_convsamp(int simd, u8 **rows, unsigned start_col, short *workspace);
int c05_can(const char *what);
int c05_huff(int simd, short *block, int last_dc, const unsigned *dc_co, const unsigned char *dc_si,
             const unsigned *ac_co, const unsigned char *ac_si, unsigned long long *buf, int *free_bits, u8 *out);
int c05_can_huff(void);
void c05_phuff_first(int simd, const short *block, const int *lut, int Sl, int Al, unsigned short *values, size_t *bits);
int c05_phuff_refine(int simd, const short *block, const int *lut, int Sl, int Al, unsigned short *absvalues, size_t *bits);
int c05_can_phuff(void);
#endif
