/* C01 arithmetic-decoder harness: runs the REAL jdarith.c decode_mcu (sequential) of the working tree with every
 * arith_decode() call site observed: the statistics-bin pointer passed (reported as offset from the start of the
 * dc_stats[] / ac_stats[] area it lies in, or F for fixed_bin) and the decision returned.
 *   ari <hex JPEG>   -> one line per MCU (first 12 MCUs): "ari K=<arith_ac_K per block> | D<off>:<bit> A<off>:<bit> F0:<bit> ..."
 * The call sites are intercepted with the preprocessor only (jdarith.c is included unmodified): the macro below
 * renames the DEFINITION of arith_decode (second argument starts with the token `unsigned`) to arith_decode_real
 * and every CALL to ad_hook.
 */
#include <stdio.h>
#include <stdlib.h>
#include <string.h>
#include <setjmp.h>
#define JPEG_INTERNALS
#include "jinclude.h"
#include "jpeglib.h"

static int ad_hook(j_decompress_ptr cinfo, unsigned char *st);
#define AD_CAT_(a, ...) a ## __VA_ARGS__
#define AD_CAT(a, ...) AD_CAT_(a, __VA_ARGS__)
#define AD_SECOND(a, b, ...) b
#define AD_PROBE(...) AD_SECOND(__VA_ARGS__, 0, ~)
#define AD_T_unsigned ~, 1,
#define AD_IS_DECL(b) AD_PROBE(AD_CAT(AD_T_, b))
#define AD_SEL_1(a, b) arith_decode_real(a, b)
#define AD_SEL_0(a, b) ad_hook(a, b)
#define arith_decode(a, b) AD_CAT(AD_SEL_, AD_IS_DECL(b))(a, b)
#include "jdarith.c"
#undef arith_decode

#define MAXLOG 20000
static struct { char kind; int off; int bit; } lg[MAXLOG];
static int nlog, logging;

static int ad_hook(j_decompress_ptr cinfo, unsigned char *st)
{
  arith_entropy_ptr e = (arith_entropy_ptr)cinfo->entropy;
  int r = arith_decode_real(cinfo, st), t;
  if (logging && nlog < MAXLOG) {
    char kind = '?'; int off = -1;
    if (st >= e->fixed_bin && st < e->fixed_bin + 4) { kind = 'F'; off = (int)(st - e->fixed_bin); }
    for (t = 0; t < NUM_ARITH_TBLS && kind == '?'; t++) {
      if (e->dc_stats[t] && st >= e->dc_stats[t] && st < e->dc_stats[t] + DC_STAT_BINS) { kind = 'D'; off = (int)(st - e->dc_stats[t]); }
      else if (e->ac_stats[t] && st >= e->ac_stats[t] && st < e->ac_stats[t] + AC_STAT_BINS) { kind = 'A'; off = (int)(st - e->ac_stats[t]); }
    }
    lg[nlog].kind = kind; lg[nlog].off = off; lg[nlog].bit = r; nlog++;
  }
  return r;
}

static boolean (*real_decode_mcu) (j_decompress_ptr cinfo, JBLOCKROW *MCU_data);
static int mcus_logged;
static boolean my_decode_mcu(j_decompress_ptr cinfo, JBLOCKROW *MCU_data)
{
  boolean ok; int i, b;
  if (mcus_logged >= 12) return real_decode_mcu(cinfo, MCU_data);
  nlog = 0; logging = 1;
  ok = real_decode_mcu(cinfo, MCU_data);
  logging = 0; mcus_logged++;
  printf("ari K=");
  for (b = 0; b < cinfo->blocks_in_MCU; b++)
    printf("%s%d", b ? "," : "", cinfo->arith_ac_K[cinfo->cur_comp_info[cinfo->MCU_membership[b]]->ac_tbl_no]);
  printf(" |");
  for (i = 0; i < nlog; i++) printf(" %c%d:%d", lg[i].kind, lg[i].off, lg[i].bit);
  printf("\n");
  return ok;
}

struct my_err { struct jpeg_error_mgr pub; jmp_buf jb; };
static void my_exit(j_common_ptr c) { longjmp(((struct my_err *)c->err)->jb, 1); }
static void my_emit(j_common_ptr c, int lvl) { if (lvl < 0) c->err->num_warnings++; }
static int hexv(int c) { return c >= '0' && c <= '9' ? c - '0' : c >= 'a' && c <= 'f' ? c - 'a' + 10 : -1; }
static char line[1 << 20];

int main(void)
{
  setvbuf(stdout, NULL, _IOLBF, 0);
  while (fgets(line, sizeof(line), stdin)) {
    struct jpeg_decompress_struct c; struct my_err e; char *p = line + 4; size_t n = 0, i; unsigned char *buf; unsigned char *row = NULL;
    if (strncmp(line, "ari ", 4)) { puts("?"); continue; }
    while (hexv(p[2 * n]) >= 0 && hexv(p[2 * n + 1]) >= 0) n++;
    buf = (unsigned char *)malloc(n ? n : 1);
    for (i = 0; i < n; i++) buf[i] = (unsigned char)(hexv(p[2 * i]) * 16 + hexv(p[2 * i + 1]));
    memset(&c, 0, sizeof(c));
    c.err = jpeg_std_error(&e.pub); e.pub.error_exit = my_exit; e.pub.emit_message = my_emit;
    mcus_logged = 0; logging = 0;
    if (setjmp(e.jb)) { puts("ari end error"); jpeg_destroy_decompress(&c); free(buf); free(row); continue; }
    jpeg_create_decompress(&c);
    c.mem->max_memory_to_use = 128L * 1024 * 1024;
    jpeg_mem_src(&c, buf, (unsigned long)n);
    if (jpeg_read_header(&c, TRUE) != JPEG_HEADER_OK || !c.arith_code || c.progressive_mode || c.master->lossless ||
        (unsigned long long)c.image_width * c.image_height > (1 << 18) || c.data_precision != 8) {
      puts("ari end skip"); jpeg_destroy_decompress(&c); free(buf); continue;
    }
    c.out_color_space = c.jpeg_color_space;
    jpeg_start_decompress(&c);
    real_decode_mcu = c.entropy->decode_mcu; c.entropy->decode_mcu = my_decode_mcu;
    row = (unsigned char *)malloc((size_t)c.output_width * c.output_components + 1);
    while (c.output_scanline < c.output_height && mcus_logged < 12) { JSAMPROW r = row; if (!jpeg_read_scanlines(&c, &r, 1)) break; }
    puts("ari end ok");
    jpeg_abort_decompress(&c); jpeg_destroy_decompress(&c); free(buf); free(row); row = NULL;
  }
  return 0;
}
