/* C01 harness: runs the REAL decoder of the working tree on byte strings.
 * One case per input line, one result line per case (setvbuf line-buffered, so
 * the lines printed before a crash / sanitizer abort survive).
 *
 *   hdr <hex>      jpeg_mem_src + jpeg_read_header(require_image=FALSE), then (when a
 *                  header was accepted) jpeg_start_decompress in a mode that decodes no
 *                  entropy-coded data (buffered-image for multi-scan files).  Same line
 *                  format as ml/C01_driver.ml; error codes are mapped to a small enum.
 *   mk <proc> <prec> <subsamp> <w> <h> <restart> <optimize> <seed> <psv> <pt>
 *                  make a valid JPEG with the real compressor (prints "jpg <hex>")
 *   dec <kind> <a> <b> <c> <d> <hex>
 *                  property-level oracle runs (TurboJPEG + libjpeg API entry points under
 *                  option combinations); prints what was reported, whether two runs into
 *                  differently pre-filled buffers agree, and the CPU time used.
 */
#include <stdio.h>
#include <stdlib.h>
#include <string.h>
#include <setjmp.h>
#include <time.h>
#define JPEG_INTERNALS
#include "jinclude.h"
#include "jpeglib.h"
#include "jerror.h"
#include "turbojpeg.h"

#define MAXLINE (1 << 22)
static char *line;

/* ------------------------------------------------------------------ helpers */
static int hexv(int c) { return c >= '0' && c <= '9' ? c - '0' : c >= 'a' && c <= 'f' ? c - 'a' + 10 : c >= 'A' && c <= 'F' ? c - 'A' + 10 : -1; }
/* returns an exact-size malloc'ed copy so that ASan sees any over-read */
static unsigned char *unhex(const char *p, size_t *len)
{
  size_t n = 0; const char *q = p; unsigned char *b; size_t i;
  while (hexv(q[0]) >= 0 && hexv(q[1]) >= 0) { q += 2; n++; }
  b = (unsigned char *)malloc(n ? n : 1);
  for (i = 0; i < n; i++) b[i] = (unsigned char)(hexv(p[2 * i]) * 16 + hexv(p[2 * i + 1]));
  *len = n;
  return b;
}
static long hash_upd(long h, long x) { return (h * 131 + x + 1) % 1000000007L; }
static unsigned long fnv(const unsigned char *p, size_t n) { unsigned long h = 1469598103934665603UL; size_t i; for (i = 0; i < n; i++) { h ^= p[i]; h *= 1099511628211UL; } return h; }
static double cpu_us(void) { return (double)clock() * 1e6 / CLOCKS_PER_SEC; }

/* ------------------------------------------------------------ error manager */
struct my_err { struct jpeg_error_mgr pub; jmp_buf jb; int code; long eofw; };
static void my_exit(j_common_ptr c) { struct my_err *e = (struct my_err *)c->err; e->code = c->err->msg_code; longjmp(e->jb, 1); }
static void my_emit(j_common_ptr c, int lvl)
{
  if (lvl < 0) { c->err->num_warnings++; if (c->err->msg_code == JWRN_JPEG_EOF) ((struct my_err *)c->err)->eofw++; }
}
static void my_output(j_common_ptr c) { (void)c; }

static const char *err_class(int code)
{
  switch (code) {
  case JERR_INPUT_EMPTY: return "INPUT_EMPTY";
  case JERR_NO_SOI: return "NO_SOI";
  case JERR_SOI_DUPLICATE: return "SOI_DUPLICATE";
  case JERR_SOF_DUPLICATE: return "SOF_DUPLICATE";
  case JERR_SOF_UNSUPPORTED: return "SOF_UNSUPPORTED";
  case JERR_SOS_NO_SOF: return "SOS_NO_SOF";
  case JERR_SOF_NO_SOS: return "SOF_NO_SOS";
  case JERR_BAD_LENGTH: return "BAD_LENGTH";
  case JERR_EMPTY_IMAGE: return "EMPTY_IMAGE";
  case JERR_BAD_COMPONENT_ID: return "BAD_COMPONENT_ID";
  case JERR_DHT_INDEX: return "DHT_INDEX";
  case JERR_BAD_HUFF_TABLE: return "BAD_HUFF_TABLE";
  case JERR_DQT_INDEX: return "DQT_INDEX";
  case JERR_DAC_INDEX: return "DAC_INDEX";
  case JERR_DAC_VALUE: return "DAC_VALUE";
  case JERR_UNKNOWN_MARKER: return "UNKNOWN_MARKER";
  case JERR_IMAGE_TOO_BIG: return "IMAGE_TOO_BIG";
  case JERR_BAD_PRECISION: return "BAD_PRECISION";
  case JERR_COMPONENT_COUNT: return "COMPONENT_COUNT";
  case JERR_BAD_SAMPLING: return "BAD_SAMPLING";
  case JERR_BAD_MCU_SIZE: return "BAD_MCU_SIZE";
  case JERR_NO_QUANT_TABLE: return "NO_QUANT_TABLE";
  case JERR_NO_HUFF_TABLE: return "NO_HUFF_TABLE";
  case JERR_NO_ARITH_TABLE: return "NO_ARITH_TABLE";
  case JERR_BAD_PROGRESSION: return "BAD_PROGRESSION";
  case JERR_ARITH_NOTIMPL: return "ARITH_NOTIMPL";
  case JERR_BAD_RESTART: return "BAD_RESTART";
  default: return NULL;
  }
}

/* ---------------------------------------------------------------- hdr mode */
static char out[1 << 20];
static size_t outn;
#define OUT(...) (outn += (size_t)snprintf(out + outn, sizeof(out) - outn, __VA_ARGS__))

static void put_tables(j_decompress_ptr c)
{
  int i, k; long h;
  OUT("dc=");
  for (i = 0; i < NUM_HUFF_TBLS; i++) {
    JHUFF_TBL *t = c->dc_huff_tbl_ptrs[i];
    if (!t) OUT("%s-", i ? "," : "");
    else { h = 7; for (k = 0; k < 17; k++) h = hash_upd(h, t->bits[k]); for (k = 0; k < 256; k++) h = hash_upd(h, t->huffval[k]); OUT("%s%ld", i ? "," : "", h); }
  }
  OUT(" ac=");
  for (i = 0; i < NUM_HUFF_TBLS; i++) {
    JHUFF_TBL *t = c->ac_huff_tbl_ptrs[i];
    if (!t) OUT("%s-", i ? "," : "");
    else { h = 7; for (k = 0; k < 17; k++) h = hash_upd(h, t->bits[k]); for (k = 0; k < 256; k++) h = hash_upd(h, t->huffval[k]); OUT("%s%ld", i ? "," : "", h); }
  }
  OUT(" q=");
  for (i = 0; i < NUM_QUANT_TBLS; i++) {
    JQUANT_TBL *t = c->quant_tbl_ptrs[i];
    if (!t) OUT("%s-", i ? "," : "");
    else { h = 7; for (k = 0; k < DCTSIZE2; k++) h = hash_upd(h, t->quantval[k]); OUT("%s%ld", i ? "," : "", h); }
  }
  h = 7;
  for (k = 0; k < NUM_ARITH_TBLS; k++) h = hash_upd(h, c->arith_dc_L[k]);
  for (k = 0; k < NUM_ARITH_TBLS; k++) h = hash_upd(h, c->arith_dc_U[k]);
  for (k = 0; k < NUM_ARITH_TBLS; k++) h = hash_upd(h, c->arith_ac_K[k]);
  OUT(" ar=%ld", h);
}

static void put_tail(j_decompress_ptr c, struct my_err *e, const unsigned char *buf, size_t len)
{
  const unsigned char *p = c->src->next_input_byte;
  long rem = 0, ph = 0;
  if (p >= buf && p <= buf + len && e->eofw == 0) rem = (long)c->src->bytes_in_buffer;
  else ph = (long)c->src->bytes_in_buffer;
  OUT("w=%ld eof=%ld rem=%ld ph=%ld", c->err->num_warnings, e->eofw, rem, ph);
}

static void run_hdr(const char *hex)
{
  struct jpeg_decompress_struct c; struct my_err e; size_t len; unsigned char *buf = unhex(hex, &len);
  volatile int stage = 0; int rc, i;
  outn = 0; out[0] = 0;
  memset(&c, 0, sizeof(c));
  c.err = jpeg_std_error(&e.pub); e.pub.error_exit = my_exit; e.pub.emit_message = my_emit; e.pub.output_message = my_output;
  e.code = 0; e.eofw = 0;
  if (setjmp(e.jb)) {
    const char *cl = err_class(e.code);
    if (stage == 0) { outn = 0; if (cl) OUT("E %s w=%ld", cl, c.err->num_warnings); else OUT("E OTHER(%d) w=%ld", e.code, c.err->num_warnings); }
    else { if (cl) OUT(" ## E %s w=%ld", cl, c.err->num_warnings); else OUT(" ## E OTHER(%d)", e.code); }
    puts(out);
    jpeg_destroy_decompress(&c); free(buf);
    return;
  }
  jpeg_create_decompress(&c);
  c.mem->max_memory_to_use = 96L * 1024 * 1024;
  jpeg_mem_src(&c, buf, (unsigned long)len);
  rc = jpeg_read_header(&c, FALSE);
  if (rc == JPEG_HEADER_TABLES_ONLY) {
    OUT("T "); put_tables(&c); OUT(" "); put_tail(&c, &e, buf, len);
    puts(out); jpeg_destroy_decompress(&c); free(buf); return;
  }
  if (rc != JPEG_HEADER_OK) { printf("SUSP\n"); jpeg_destroy_decompress(&c); free(buf); return; }
  OUT("OK fr=%d%d%d,%d,%u,%u,%d cs=", c.progressive_mode ? 1 : 0, c.master->lossless ? 1 : 0, c.arith_code ? 1 : 0,
      c.data_precision, c.image_height, c.image_width, c.num_components);
  for (i = 0; i < c.num_components; i++)
    OUT("%s%d:%d:%d:%d", i ? "," : "", c.comp_info[i].component_id, c.comp_info[i].h_samp_factor, c.comp_info[i].v_samp_factor, c.comp_info[i].quant_tbl_no);
  OUT(" sc=%d;", c.comps_in_scan);
  for (i = 0; i < c.comps_in_scan; i++)
    OUT("%s%d:%d:%d", i ? "," : "", c.cur_comp_info[i]->component_index, c.cur_comp_info[i]->dc_tbl_no, c.cur_comp_info[i]->ac_tbl_no);
  OUT(";%d,%d,%d,%d ri=%u su=%d,%d,%u,%d;", c.Ss, c.Se, c.Ah, c.Al, c.restart_interval, c.max_h_samp_factor, c.max_v_samp_factor,
      c.total_iMCU_rows, jpeg_has_multiple_scans(&c) ? 1 : 0);
  for (i = 0; i < c.num_components; i++)
    OUT("%s%u:%u", i ? "," : "", c.comp_info[i].width_in_blocks, c.comp_info[i].height_in_blocks);
  OUT(" "); put_tables(&c);
  OUT(" jf=%d,%d,%d,%d,%d,%d ad=%d,%d ", c.saw_JFIF_marker ? 1 : 0, c.JFIF_major_version, c.JFIF_minor_version, c.density_unit,
      c.X_density, c.Y_density, c.saw_Adobe_marker ? 1 : 0, c.Adobe_transform);
  put_tail(&c, &e, buf, len);
  {
    int lossless = c.master->lossless;
    stage = 1;
    /* start_decompress without consuming entropy-coded data */
    c.out_color_space = c.jpeg_color_space;
    if (!lossless) c.raw_data_out = TRUE;
    c.buffered_image = jpeg_has_multiple_scans(&c);
    jpeg_start_decompress(&c);
    OUT(" ## ok %u,%u,%d;", c.MCUs_per_row, c.MCU_rows_in_scan, c.blocks_in_MCU);
    for (i = 0; i < c.blocks_in_MCU; i++) OUT("%s%d", i ? "," : "", c.MCU_membership[i]);
    OUT(" w=%ld", c.err->num_warnings);
  }
  puts(out);
  jpeg_destroy_decompress(&c); free(buf);
}

/* ----------------------------------------------------------------- mk mode */
static unsigned long long rs;
static unsigned rnd(void) { rs = rs * 6364136223846793005ULL + 1442695040888963407ULL; return (unsigned)(rs >> 33); }

static void run_mk(const char *args)
{
  int proc, prec, subsamp, w, h, restart, optimize, seed, psv, pt, x, y, k, ps, pf, rc = -1;
  tjhandle tj; unsigned char *jpg = NULL; size_t jsz = 0, i;
  if (sscanf(args, "%d %d %d %d %d %d %d %d %d %d", &proc, &prec, &subsamp, &w, &h, &restart, &optimize, &seed, &psv, &pt) != 10) { puts("mk ?"); return; }
  rs = (unsigned long long)seed * 77 + 5;
  tj = tj3Init(TJINIT_COMPRESS);
  pf = subsamp == TJSAMP_GRAY ? TJPF_GRAY : (subsamp < 0 ? TJPF_CMYK : TJPF_RGB);
  if (subsamp < 0) subsamp = -subsamp - 1;        /* CMYK: -1 => 444, -2 => 422 ... */
  ps = tjPixelSize[pf];
  tj3Set(tj, TJPARAM_SUBSAMP, subsamp);
  tj3Set(tj, TJPARAM_QUALITY, 50 + seed % 50);
  if (pf == TJPF_CMYK) tj3Set(tj, TJPARAM_COLORSPACE, (seed & 1) ? TJCS_YCCK : TJCS_CMYK);
  if (proc == 2 || proc == 4) tj3Set(tj, TJPARAM_PROGRESSIVE, 1);
  if (proc == 3 || proc == 4) tj3Set(tj, TJPARAM_ARITHMETIC, 1);
  if (proc == 5) { tj3Set(tj, TJPARAM_LOSSLESS, 1); tj3Set(tj, TJPARAM_LOSSLESSPSV, psv); tj3Set(tj, TJPARAM_LOSSLESSPT, pt); }
  tj3Set(tj, TJPARAM_PRECISION, prec);
  if (optimize) tj3Set(tj, TJPARAM_OPTIMIZE, 1);
  if (restart > 0) tj3Set(tj, proc == 5 ? TJPARAM_RESTARTROWS : TJPARAM_RESTARTBLOCKS, restart);
  {
    int maxv = (1 << prec) - 1;
    size_t n = (size_t)w * h * ps;
    if (prec <= 8) {
      unsigned char *img = (unsigned char *)malloc(n);
      for (y = 0; y < h; y++) for (x = 0; x < w; x++) for (k = 0; k < ps; k++)
        img[((size_t)y * w + x) * ps + k] = (unsigned char)(((x * 7 + y * 13 + k * 50 + (rnd() % 24)) * maxv / 255) & maxv);
      rc = tj3Compress8(tj, img, w, 0, h, pf, &jpg, &jsz); free(img);
    } else if (prec <= 12) {
      short *img = (short *)malloc(n * 2);
      for (y = 0; y < h; y++) for (x = 0; x < w; x++) for (k = 0; k < ps; k++)
        img[((size_t)y * w + x) * ps + k] = (short)((((x * 37 + y * 91 + k * 700) & 0xFFF) + (rnd() % 64)) & maxv);
      rc = tj3Compress12(tj, img, w, 0, h, pf, &jpg, &jsz); free(img);
    } else {
      unsigned short *img = (unsigned short *)malloc(n * 2);
      for (y = 0; y < h; y++) for (x = 0; x < w; x++) for (k = 0; k < ps; k++)
        img[((size_t)y * w + x) * ps + k] = (unsigned short)((((x * 517 + y * 911 + k * 7000) & 0xFFFF) + (rnd() % 512)) & maxv);
      rc = tj3Compress16(tj, img, w, 0, h, pf, &jpg, &jsz); free(img);
    }
  }
  if (rc != 0) { printf("mk fail %s\n", tj3GetErrorStr(tj)); tj3Destroy(tj); return; }
  fputs("jpg ", stdout);
  for (i = 0; i < jsz; i++) printf("%02x", jpg[i]);
  putchar('\n');
  tj3Free(jpg); tj3Destroy(tj);
}

/* ---------------------------------------------------------------- dec mode */
#define SCANLIMIT 6
#define MAXPIXELS (1 << 18)

static int sane_hdr(tjhandle tj, int *w, int *h, int *ss, int *prec, int *ll, int *cs)
{
  *w = tj3Get(tj, TJPARAM_JPEGWIDTH); *h = tj3Get(tj, TJPARAM_JPEGHEIGHT); *ss = tj3Get(tj, TJPARAM_SUBSAMP);
  *prec = tj3Get(tj, TJPARAM_PRECISION); *ll = tj3Get(tj, TJPARAM_LOSSLESS); *cs = tj3Get(tj, TJPARAM_COLORSPACE);
  return *w >= 1 && *w <= 65500 && *h >= 1 && *h <= 65500 && *ss >= -1 && *ss < TJ_NUMSAMP && *prec >= 2 && *prec <= 16 &&
         (*ll == 0 || *ll == 1) && *cs >= 0 && *cs < TJ_NUMCS && (*ll || *prec == 8 || *prec == 12);
}

static tjhandle tj_dec(void)
{
  tjhandle tj = tj3Init(TJINIT_DECOMPRESS);
  tj3Set(tj, TJPARAM_SCANLIMIT, SCANLIMIT);
  tj3Set(tj, TJPARAM_MAXPIXELS, MAXPIXELS);
  tj3Set(tj, TJPARAM_MAXMEMORY, 256);
  return tj;
}

/* kinds 0 (header), 1 (packed pixels), 2 (planar YUV) */
static void dec_tj(int kind, int a, int b, int cflags, int d, const unsigned char *buf, size_t len)
{
  tjhandle tj = tj_dec(); int w, h, ss, prec, ll, cs, sane, nsf, run, rcs[2] = { 0, 0 }, ecs[2] = { 0, 0 };
  tjscalingfactor *sfs = tj3GetScalingFactors(&nsf), sf = { 1, 1 };
  unsigned long hs[2] = { 0, 0 }; int same = 1, ow = 0, oh = 0, pf = a % TJ_NUMPF, cropped = 0, untouched = 0, thr = 0;
  tjregion cr = { 0, 0, 0, 0 };
  double t0 = cpu_us();
  int hr = tj3DecompressHeader(tj, buf, len);
  if (hr != 0 && tj3GetErrorCode(tj) != TJERR_WARNING) { printf("dec k=%d hdr=-1 t=%.0f\n", kind, cpu_us() - t0); tj3Destroy(tj); return; }
  sane = sane_hdr(tj, &w, &h, &ss, &prec, &ll, &cs);
  if (kind == 0 || !sane) { printf("dec k=%d hdr=%d sane=%d w=%d h=%d ss=%d prec=%d ll=%d cs=%d t=%.0f\n", kind, hr, sane, w, h, ss, prec, ll, cs, cpu_us() - t0); tj3Destroy(tj); return; }
  tj3Destroy(tj);
  if (!ll) sf = sfs[b % nsf];
  ow = TJSCALED(w, sf); oh = TJSCALED(h, sf);
  for (run = 0; run < 2; run++) {
    size_t nbytes; unsigned char *dst; int rc, pitch;
    tj = tj_dec();
    tj3Set(tj, TJPARAM_FASTUPSAMPLE, cflags & 1); tj3Set(tj, TJPARAM_FASTDCT, (cflags >> 1) & 1);
    tj3Set(tj, TJPARAM_BOTTOMUP, (cflags >> 3) & 1);
    if (tj3DecompressHeader(tj, buf, len) != 0 && tj3GetErrorCode(tj) != TJERR_WARNING) { rcs[run] = -2; tj3Destroy(tj); continue; }
    if (!ll) tj3SetScalingFactor(tj, sf);
    ow = TJSCALED(w, sf); oh = TJSCALED(h, sf);
    if (kind == 1 && (cflags & 4) && !ll && ss >= 0) {
      int mw = TJSCALED(tjMCUWidth[ss], sf), nx = mw > 0 ? (ow - 1) / mw : 0;
      cr.x = mw * (nx > 0 ? d % (nx + 1) : 0); cr.y = oh > 1 ? (d / 7) % oh : 0;
      cr.w = ow - cr.x > 1 ? 1 + (d / 3) % (ow - cr.x) : ow - cr.x; cr.h = oh - cr.y > 1 ? 1 + (d / 5) % (oh - cr.y) : oh - cr.y;
      if (tj3SetCroppingRegion(tj, cr) == 0) { cropped = 1; ow = cr.w; oh = cr.h; }
    }
    if (kind == 1) {
      int ps = tjPixelSize[pf], ssz = prec <= 8 ? 1 : 2, extra = (cflags & 16) ? 5 : 0;
      pitch = ow * ps + extra;
      nbytes = (size_t)pitch * oh * ssz;
      /* above TJPARAM_MAXPIXELS the library must refuse before writing anything: give it a
         tiny buffer (a write would be an ASan report) instead of gigabytes */
      if ((unsigned long long)w * h > MAXPIXELS) nbytes = 64;
      dst = (unsigned char *)malloc(nbytes ? nbytes : 1);
      memset(dst, run ? 0xA5 : 0x5A, nbytes);
      if (prec <= 8) rc = tj3Decompress8(tj, buf, len, dst, pitch, pf);
      else if (prec <= 12) rc = tj3Decompress12(tj, buf, len, (short *)dst, pitch, pf);
      else rc = tj3Decompress16(tj, buf, len, (unsigned short *)dst, pitch, pf);
      rcs[run] = rc; ecs[run] = rc ? tj3GetErrorCode(tj) : 0;
      if (rc) thr = strstr(tj3GetErrorStr(tj), "(): ") != NULL;
      { /* hash the documented extent only: ow*ps samples of each row */
        unsigned long hh = 1469598103934665603UL; int y;
        if ((unsigned long long)w * h > MAXPIXELS) hh = fnv(dst, nbytes);
        else for (y = 0; y < oh; y++) hh = hh * 31 + fnv(dst + (size_t)y * pitch * ssz, (size_t)ow * ps * ssz);
        hs[run] = hh;
        if (run == 1) { size_t q; untouched = 1; for (q = 0; q < nbytes; q++) if (dst[q] != 0xA5) { untouched = 0; break; } }
      }
      free(dst);
    } else {
      int align = 1 << (a % 4);
      size_t ysz = ss >= 0 ? tj3YUVBufSize(ow, align, oh, ss) : 0;
      int toobig = (unsigned long long)w * h > MAXPIXELS;
      if (ysz == 0) { rcs[run] = -3; tj3Destroy(tj); continue; }
      if (toobig) ysz = 64;
      dst = (unsigned char *)malloc(ysz);
      memset(dst, run ? 0xA5 : 0x5A, ysz);
      rc = tj3DecompressToYUV8(tj, buf, len, dst, align);
      rcs[run] = rc; ecs[run] = rc ? tj3GetErrorCode(tj) : 0;
      if (rc) thr = strstr(tj3GetErrorStr(tj), "(): ") != NULL;
      { /* row padding of the planes is not "produced output": hash the plane extents only */
        unsigned long hh = 7; int pl, np = ss == TJSAMP_GRAY ? 1 : 3; size_t off = 0;
        if (toobig) { hh = fnv(dst, ysz); np = 0; }
        for (pl = 0; pl < np; pl++) {
          int pw = tj3YUVPlaneWidth(pl, ow, ss), phh = tj3YUVPlaneHeight(pl, oh, ss), y;
          int stride = (pw + align - 1) & ~(align - 1);
          for (y = 0; y < phh; y++) hh = hh * 31 + fnv(dst + off + (size_t)y * stride, (size_t)pw);
          off += (size_t)stride * phh;
        }
        hs[run] = hh;
        if (run == 1) { size_t q; untouched = 1; for (q = 0; q < ysz; q++) if (dst[q] != 0xA5) { untouched = 0; break; } }
      }
      free(dst);
    }
    tj3Destroy(tj);
  }
  {
    int ok0 = rcs[0] == 0 || (rcs[0] == -1 && ecs[0] == TJERR_WARNING);
    int ok1 = rcs[1] == 0 || (rcs[1] == -1 && ecs[1] == TJERR_WARNING);
    same = (ok0 == ok1) && (!ok0 || hs[0] == hs[1]);
    printf("dec k=%d hdr=%d sane=1 w=%d h=%d ss=%d prec=%d ll=%d cs=%d pf=%d sf=%d/%d crop=%d ow=%d oh=%d rc=%d,%d ec=%d,%d done=%d same=%d untouched=%d thr=%d oh=%lx t=%.0f\n",
           kind, hr, w, h, ss, prec, ll, cs, pf, sf.num, sf.denom, cropped, ow, oh, rcs[0], rcs[1], ecs[0], ecs[1], ok0, same, untouched, thr, hs[0], cpu_us() - t0);
  }
}

/* kind 3: lossless transform */
static void dec_xform(int a, int b, int c, const unsigned char *buf, size_t len)
{
  tjhandle tj = tj3Init(TJINIT_TRANSFORM); tjtransform xf; unsigned char *dst = NULL; size_t dsz = 0; int rc, ec = 0, reparse = -9;
  double t0 = cpu_us();
  tj3Set(tj, TJPARAM_SCANLIMIT, SCANLIMIT); tj3Set(tj, TJPARAM_MAXPIXELS, MAXPIXELS); tj3Set(tj, TJPARAM_MAXMEMORY, 256);
  memset(&xf, 0, sizeof(xf));
  xf.op = a % TJ_NUMXOP;
  xf.options = b & (TJXOPT_TRIM | TJXOPT_CROP | TJXOPT_GRAY | TJXOPT_PROGRESSIVE | TJXOPT_COPYNONE | TJXOPT_ARITHMETIC | TJXOPT_OPTIMIZE | TJXOPT_PERFECT);
  if (xf.options & TJXOPT_CROP) { xf.r.x = 16 * (c % 3); xf.r.y = 16 * ((c / 3) % 3); xf.r.w = (c / 9) % 40; xf.r.h = (c / 360) % 40; }
  rc = tj3Transform(tj, buf, len, 1, &dst, &dsz, &xf);
  if (rc) ec = tj3GetErrorCode(tj);
  if ((rc == 0 || ec == TJERR_WARNING) && dst && dsz) {
    tjhandle t2 = tj3Init(TJINIT_DECOMPRESS);
    reparse = tj3DecompressHeader(t2, dst, dsz);
    if (reparse != 0 && tj3GetErrorCode(t2) == TJERR_WARNING) reparse = 0;
    tj3Destroy(t2);
  }
  printf("dec k=3 op=%d opt=%d rc=%d ec=%d osz=%lu reparse=%d t=%.0f\n", xf.op, xf.options, rc, ec, (unsigned long)dsz, reparse, cpu_us() - t0);
  tj3Free(dst); tj3Destroy(tj);
}

/* kinds 4/5: libjpeg API: buffered-image mode / colour quantisation / skip+crop */
static int max_scans;
static void prog_mon(j_common_ptr c)
{
  if (c->is_decompressor && ((j_decompress_ptr)c)->input_scan_number > max_scans) {
    ((struct my_err *)c->err)->code = -77; longjmp(((struct my_err *)c->err)->jb, 1);
  }
}

static unsigned long lj_run(int kind, int a, int b, const unsigned char *buf, size_t len, int fill, long *rows_out, int *errcode, long *warnings,
                            int *ow, int *oh)
{
  struct jpeg_decompress_struct c; struct my_err e; struct jpeg_progress_mgr pm; unsigned long hh = 7; volatile long rows = 0;
  unsigned char *volatile rowbuf = NULL; volatile int created = 0;
  *errcode = 0; *ow = *oh = 0;
  memset(&c, 0, sizeof(c));
  c.err = jpeg_std_error(&e.pub); e.pub.error_exit = my_exit; e.pub.emit_message = my_emit; e.pub.output_message = my_output; e.code = 0; e.eofw = 0;
  if (setjmp(e.jb)) { *errcode = e.code ? e.code : -1; goto done; }
  jpeg_create_decompress(&c); created = 1;
  c.mem->max_memory_to_use = 256L * 1024 * 1024;
  memset(&pm, 0, sizeof(pm)); pm.progress_monitor = prog_mon; c.progress = &pm; max_scans = SCANLIMIT;
  jpeg_mem_src(&c, buf, (unsigned long)len);
  if (jpeg_read_header(&c, TRUE) != JPEG_HEADER_OK) { *errcode = -2; goto done; }
  if ((unsigned long long)c.image_width * c.image_height > MAXPIXELS) { *errcode = -3; goto done; }
  {
    int prec = c.data_precision, ssz = prec <= 8 ? 1 : 2, lossless = c.master->lossless;
    if (!lossless) { c.scale_num = 1; c.scale_denom = 1 << (b % 4); }
    c.do_fancy_upsampling = (a >> 5) & 1; c.do_block_smoothing = (a >> 6) & 1;
    c.dct_method = ((a >> 7) & 1) ? JDCT_IFAST : JDCT_ISLOW;
    if ((a & 1) && prec <= 12 && !lossless) {
      c.quantize_colors = TRUE; c.two_pass_quantize = (a >> 1) & 1; c.dither_mode = (J_DITHER_MODE)((a >> 2) % 3);
      c.desired_number_of_colors = 8 + (a >> 8) % 200;
      if (c.num_components == 1 || c.jpeg_color_space == JCS_GRAYSCALE) c.two_pass_quantize = FALSE;
    }
    if ((b >> 2) & 1) { if (c.jpeg_color_space == JCS_YCbCr) c.out_color_space = JCS_GRAYSCALE; }
    if (kind == 4) c.buffered_image = TRUE;
    jpeg_start_decompress(&c);
    *ow = (int)c.output_width; *oh = (int)c.output_height;
    {
      size_t rowbytes = (size_t)c.output_width * c.output_components * ssz;
      rowbuf = (unsigned char *)malloc(rowbytes ? rowbytes : 1);
      if (kind == 4) {
        int passes = 0;
        for (;;) {
          jpeg_start_output(&c, c.input_scan_number);
          while (c.output_scanline < c.output_height) {
            JDIMENSION n;
            memset(rowbuf, fill, rowbytes);
            if (prec <= 8) { JSAMPROW r = (JSAMPROW)rowbuf; n = jpeg_read_scanlines(&c, &r, 1); }
            else if (prec <= 12) { J12SAMPROW r = (J12SAMPROW)rowbuf; n = jpeg12_read_scanlines(&c, &r, 1); }
            else { J16SAMPROW r = (J16SAMPROW)rowbuf; n = jpeg16_read_scanlines(&c, &r, 1); }
            if (n) { hh = hh * 31 + fnv(rowbuf, rowbytes); rows++; }
          }
          jpeg_finish_output(&c);
          if (jpeg_input_complete(&c) || ++passes > SCANLIMIT + 2) break;
        }
      } else {
        /* kind 5: plain scan-line loop with jpeg_crop_scanline / jpeg_skip_scanlines */
        JDIMENSION xo = 0, cw = c.output_width;
        if ((b >> 3) & 1 && !lossless && !c.quantize_colors && c.output_width > 8) {
          xo = (a >> 9) % (c.output_width / 2); cw = 1 + (a >> 3) % (c.output_width - xo);
          if (prec <= 8) jpeg_crop_scanline(&c, &xo, &cw); else if (prec <= 12) jpeg12_crop_scanline(&c, &xo, &cw);
          rowbytes = (size_t)c.output_width * c.output_components * ssz;
        }
        while (c.output_scanline < c.output_height) {
          JDIMENSION n;
          if (((b >> 4) & 1) && !lossless && !c.quantize_colors && c.output_scanline == c.output_height / 3 && c.output_height > 6) {
            if (prec <= 8) jpeg_skip_scanlines(&c, c.output_height / 4); else if (prec <= 12) jpeg12_skip_scanlines(&c, c.output_height / 4);
            if (c.output_scanline >= c.output_height) break;
          }
          memset(rowbuf, fill, rowbytes);
          if (prec <= 8) { JSAMPROW r = (JSAMPROW)rowbuf; n = jpeg_read_scanlines(&c, &r, 1); }
          else if (prec <= 12) { J12SAMPROW r = (J12SAMPROW)rowbuf; n = jpeg12_read_scanlines(&c, &r, 1); }
          else { J16SAMPROW r = (J16SAMPROW)rowbuf; n = jpeg16_read_scanlines(&c, &r, 1); }
          if (n) { hh = hh * 31 + fnv(rowbuf, rowbytes); rows++; }
        }
      }
    }
    jpeg_finish_decompress(&c);
  }
done:
  *warnings = created ? c.err->num_warnings : 0;
  *rows_out = rows;
  if (created) jpeg_destroy_decompress(&c);
  free(rowbuf);
  return hh;
}

static void dec_lj(int kind, int a, int b, const unsigned char *buf, size_t len)
{
  long r0, r1, w0, w1; int e0, e1, ow, oh; unsigned long h0, h1; double t0 = cpu_us();
  h0 = lj_run(kind, a, b, buf, len, 0x5A, &r0, &e0, &w0, &ow, &oh);
  h1 = lj_run(kind, a, b, buf, len, 0xA5, &r1, &e1, &w1, &ow, &oh);
  printf("dec k=%d a=%d b=%d ow=%d oh=%d rows=%ld,%ld err=%d,%d warn=%ld same=%d oh=%lx t=%.0f\n", kind, a, b, ow, oh, r0, r1, e0, e1, w0,
         (r0 == r1 && e0 == e1 && h0 == h1) ? 1 : 0, h0, cpu_us() - t0);
}

static void run_dec(const char *args)
{
  int kind, a, b, c, d, n = 0; size_t len; unsigned char *buf;
  if (sscanf(args, "%d %d %d %d %d %n", &kind, &a, &b, &c, &d, &n) < 5) { puts("dec ?"); return; }
  buf = unhex(args + n, &len);
  if (kind <= 2) dec_tj(kind, a, b, c, d, buf, len);
  else if (kind == 3) dec_xform(a, b, c, buf, len);
  else dec_lj(kind, a, b, buf, len);
  free(buf);
}


/* ---------------------------------------------------------------- hist mode */
/* hist <flags> <cutA> <hexA> <hexB>
 * One decompress object, a SUSPENDING source manager.  Stream A is delivered only up to cutA
 * bytes; whatever state the library is in when it suspends (or errors), the application gives
 * up with jpeg_abort_decompress() and re-uses the object for the complete valid stream B.
 * flags: 1 = jpeg_save_markers(COM + APP0..15, 0xFFFF), 2 = go on into jpeg_start_decompress /
 * jpeg_read_scanlines on A, 4 = buffered-image mode on A, 8 = decode B's scan lines too.
 * The result on B (header fields, saved markers, sample hash) must equal that of a fresh object. */
struct ssrc { struct jpeg_source_mgr pub; };
static void ss_init(j_decompress_ptr c) { (void)c; }
static boolean ss_fill(j_decompress_ptr c) { (void)c; return FALSE; }      /* nothing more right now */
static void ss_skip(j_decompress_ptr c, long n)
{
  if (n <= 0) return;
  if ((size_t)n > c->src->bytes_in_buffer) { c->src->next_input_byte += c->src->bytes_in_buffer; c->src->bytes_in_buffer = 0; }
  else { c->src->next_input_byte += n; c->src->bytes_in_buffer -= (size_t)n; }
}
static void ss_term(j_decompress_ptr c) { (void)c; }

static void hist_setup(j_decompress_ptr c, int flags)
{
  int m;
  if (flags & 1) { jpeg_save_markers(c, JPEG_COM, 0xFFFF); for (m = 0; m < 16; m++) jpeg_save_markers(c, JPEG_APP0 + m, 0xFFFF); }
}

/* decode B on object c (already created, source installed); returns a summary string */
static void hist_B(j_decompress_ptr c, struct my_err *e, struct ssrc *src, const unsigned char *b, size_t blen, int flags, char *sum, size_t sumsz)
{
  unsigned char *volatile row = NULL; volatile unsigned long hh = 7; volatile long rows = 0; int rc; jpeg_saved_marker_ptr m; long nm = 0; unsigned long mh = 7;
  if (setjmp(e->jb)) { snprintf(sum, sumsz, "err%d", e->code); free(row); jpeg_abort_decompress(c); return; }
  src->pub.next_input_byte = b; src->pub.bytes_in_buffer = blen;
  rc = jpeg_read_header(c, TRUE);
  if (rc != JPEG_HEADER_OK) { snprintf(sum, sumsz, "hdr%d,left%lu", rc, (unsigned long)src->pub.bytes_in_buffer); jpeg_abort_decompress(c); return; }
  for (m = c->marker_list; m && nm < 1000; m = m->next) { nm++; mh = mh * 31 + m->marker; mh = mh * 31 + m->original_length; mh = mh * 31 + fnv(m->data, m->data_length); }
  if ((flags & 8) && c->data_precision <= 8 && (unsigned long long)c->image_width * c->image_height <= MAXPIXELS) {
    if (jpeg_start_decompress(c)) {
      size_t rb = (size_t)c->output_width * c->output_components;
      row = (unsigned char *)malloc(rb ? rb : 1);
      while (c->output_scanline < c->output_height) {
        JSAMPROW r = (JSAMPROW)row; memset(row, 0x5A, rb);
        if (jpeg_read_scanlines(c, &r, 1) == 0) break;
        hh = hh * 31 + fnv(row, rb); rows++;
      }
    }
  }
  snprintf(sum, sumsz, "ok,%ux%u,nc%d,p%d,nm%ld,mh%lx,rows%ld,h%lx,w%ld", c->image_width, c->image_height, c->num_components, c->data_precision,
           nm, mh, (long)rows, (unsigned long)hh, c->err->num_warnings);
  free(row);
  jpeg_abort_decompress(c);
}

static void run_hist(const char *args)
{
  int flags, cut, n = 0; size_t alen, blen; unsigned char *a, *b, *acut; const char *p;
  struct jpeg_decompress_struct c, f; struct my_err e, ef; struct ssrc src, srcf; char sumB[256], sumF[256]; volatile int ra = -9;
  double t0 = cpu_us();
  if (sscanf(args, "%d %d %n", &flags, &cut, &n) < 2) { puts("hist ?"); return; }
  p = args + n; a = unhex(p, &alen); while (*p && *p != ' ') p++; while (*p == ' ') p++; b = unhex(p, &blen);
  if (cut < 0) cut = 0; if ((size_t)cut > alen) cut = (int)alen;
  acut = (unsigned char *)malloc(cut ? cut : 1); memcpy(acut, a, cut); free(a);
  memset(&c, 0, sizeof(c)); memset(&src, 0, sizeof(src));
  c.err = jpeg_std_error(&e.pub); e.pub.error_exit = my_exit; e.pub.emit_message = my_emit; e.pub.output_message = my_output; e.code = 0; e.eofw = 0;
  jpeg_create_decompress(&c);
  c.mem->max_memory_to_use = 256L * 1024 * 1024;
  hist_setup(&c, flags);
  src.pub.init_source = ss_init; src.pub.fill_input_buffer = ss_fill; src.pub.skip_input_data = ss_skip;
  src.pub.resync_to_restart = jpeg_resync_to_restart; src.pub.term_source = ss_term;
  c.src = &src.pub;
  /* ---- stream A, abandoned */
  if (setjmp(e.jb)) { ra = -100 - e.code; }
  else {
    src.pub.next_input_byte = acut; src.pub.bytes_in_buffer = (size_t)cut;
    ra = jpeg_read_header(&c, TRUE);
    if (ra == JPEG_HEADER_OK && (flags & 2) && (unsigned long long)c.image_width * c.image_height <= MAXPIXELS) {
      if (flags & 4) c.buffered_image = TRUE;
      if (jpeg_start_decompress(&c)) {
        ra = 10;
        if (!(flags & 4) && c.data_precision <= 8) {
          size_t rb = (size_t)c.output_width * c.output_components; unsigned char *row = (unsigned char *)malloc(rb ? rb : 1); JSAMPROW r = row; int k;
          for (k = 0; k < 4 && c.output_scanline < c.output_height; k++) if (jpeg_read_scanlines(&c, &r, 1) == 0) { ra = 11; break; }
          free(row);
        } else if (flags & 4) { while (jpeg_consume_input(&c) != JPEG_SUSPENDED && !jpeg_input_complete(&c)) ; ra = 12; }
      } else ra = 9;
    }
  }
  jpeg_abort_decompress(&c);
  free(acut);                      /* the application's buffer for A is gone too */
  /* ---- stream B on the same object */
  hist_B(&c, &e, &src, b, blen, flags, sumB, sizeof(sumB));
  jpeg_destroy_decompress(&c);
  /* ---- stream B on a fresh object */
  memset(&f, 0, sizeof(f)); memset(&srcf, 0, sizeof(srcf));
  f.err = jpeg_std_error(&ef.pub); ef.pub.error_exit = my_exit; ef.pub.emit_message = my_emit; ef.pub.output_message = my_output; ef.code = 0; ef.eofw = 0;
  jpeg_create_decompress(&f);
  f.mem->max_memory_to_use = 256L * 1024 * 1024;
  hist_setup(&f, flags);
  srcf.pub.init_source = ss_init; srcf.pub.fill_input_buffer = ss_fill; srcf.pub.skip_input_data = ss_skip;
  srcf.pub.resync_to_restart = jpeg_resync_to_restart; srcf.pub.term_source = ss_term;
  f.src = &srcf.pub;
  hist_B(&f, &ef, &srcf, b, blen, flags, sumF, sizeof(sumF));
  jpeg_destroy_decompress(&f);
  printf("hist flags=%d cut=%d a=%d b=%s fresh=%s same=%d t=%.0f\n", flags, cut, (int)ra, sumB, sumF, strcmp(sumB, sumF) == 0, cpu_us() - t0);
  free(b);
}

/* ---------------------------------------------------------------- crop mode */
/* crop <flags> <seed> <hex>
 * jpeg_crop_scanline sweep on one (valid or mildly damaged) stream: for a set of xoffsets covering
 * all residues modulo the iMCU width and several widths, decode the region twice into row buffers
 * pre-filled with 0x5A / 0xA5, reading <rows> scan lines per call; every sample of every row
 * reported as produced must be the same in both runs (i.e. was written by the library).
 * flags: bit0 do_fancy_upsampling, bit1 JDCT_IFAST, bits2-3 rows per call - 1, bit4 out colour space
 * variant, bit5 scale 1/2, bit6 do_block_smoothing off, bit7 skip_scanlines in the middle, bit8 RGB565 output,
 * bit9 RGB565 stride +2 (rows alternate 4-byte alignment), bit10 RGB565 rows start at base+2 */
static unsigned long crop_once(const unsigned char *buf, size_t len, int flags, JDIMENSION xo, JDIMENSION cw, int fill, long *rows_out, int *err)
{
  struct jpeg_decompress_struct c; struct my_err e; unsigned long hh = 7; volatile long rows = 0; unsigned char *volatile rowbuf = NULL;
  int nper = ((flags >> 2) & 3) + 1;
  *err = 0;
  memset(&c, 0, sizeof(c));
  c.err = jpeg_std_error(&e.pub); e.pub.error_exit = my_exit; e.pub.emit_message = my_emit; e.pub.output_message = my_output; e.code = 0; e.eofw = 0;
  if (setjmp(e.jb)) { *err = e.code ? e.code : -1; goto done; }
  jpeg_create_decompress(&c);
  c.mem->max_memory_to_use = 256L * 1024 * 1024;
  jpeg_mem_src(&c, buf, (unsigned long)len);
  if (jpeg_read_header(&c, TRUE) != JPEG_HEADER_OK) { *err = -2; goto done; }
  if ((unsigned long long)c.image_width * c.image_height > MAXPIXELS || c.master->lossless || c.data_precision > 12) { *err = -3; goto done; }
  {
    int prec = c.data_precision, ssz = prec <= 8 ? 1 : 2, k; JSAMPROW rp[4]; size_t rowbytes, rowstride = 0, rowalloc = 0; unsigned char *rowbase = NULL;
    c.do_fancy_upsampling = flags & 1; c.dct_method = (flags & 2) ? JDCT_IFAST : JDCT_ISLOW;
    c.do_block_smoothing = (flags & 64) ? FALSE : TRUE;
    if (flags & 32) { c.scale_num = 1; c.scale_denom = 2; }
    if ((flags & 16) && c.jpeg_color_space == JCS_YCbCr) c.out_color_space = prec <= 8 ? JCS_EXT_BGRX : JCS_GRAYSCALE;
    /* bit8: RGB565 output (2 bytes per pixel, ordered dither on odd seeds), exact-size rows under ASan */
    if ((flags & 256) && prec == 8 && (c.jpeg_color_space == JCS_YCbCr || c.jpeg_color_space == JCS_GRAYSCALE || c.jpeg_color_space == JCS_RGB)) {
      c.out_color_space = JCS_RGB565; c.dither_mode = (flags & 2) ? JDITHER_ORDERED : JDITHER_NONE; }
    jpeg_start_decompress(&c);
    if (xo >= c.output_width) xo = c.output_width - 1;
    if (cw == 0 || xo + cw > c.output_width) cw = c.output_width - xo;
    if (prec <= 8) jpeg_crop_scanline(&c, &xo, &cw); else jpeg12_crop_scanline(&c, &xo, &cw);
    /* RGB565: 2 bytes per pixel are produced (out_color_components is 3).  Rows of 16-bit pixels are 2-byte
       aligned but need NOT be 4-byte aligned: odd seeds start the rows at base+2 and use a 2-byte-granular
       stride, so that consecutive rows alternate between the two alignments; the allocation ends exactly at
       the end of the last row (any overrun is an ASan report). */
    rowbytes = (size_t)c.output_width * (c.out_color_space == JCS_RGB565 ? 2 : c.output_components) * ssz;
    { size_t stride = c.out_color_space == JCS_RGB565 ? ((rowbytes + 1) & ~(size_t)1) + ((flags & 512) ? 2 : 0) : rowbytes;
      size_t off = (c.out_color_space == JCS_RGB565 && (flags & 1024)) ? 2 : 0;
      if (stride == 0) stride = 1;
      rowalloc = off + stride * (nper - 1) + rowbytes;
      rowbase = (unsigned char *)malloc(rowalloc ? rowalloc : 1);
      rowbuf = rowbase;
      for (k = 0; k < nper; k++) rp[k] = rowbase + off + k * stride;
      rowstride = stride; }
    while (c.output_scanline < c.output_height) {
      JDIMENSION n, want = nper;
      if ((flags & 128) && c.output_scanline == c.output_height / 3 && c.output_height > 9) {
        if (prec <= 8) jpeg_skip_scanlines(&c, c.output_height / 4); else jpeg12_skip_scanlines(&c, c.output_height / 4);
        if (c.output_scanline >= c.output_height) break;
      }
      memset(rowbase, fill, rowalloc);
      if (prec <= 8) n = jpeg_read_scanlines(&c, rp, want); else n = jpeg12_read_scanlines(&c, (J12SAMPARRAY)rp, want);
      if (n == 0) break;
      for (k = 0; k < (int)n; k++) hh = hh * 31 + fnv(rp[k], rowbytes);
      rows += n;
    }
    jpeg_finish_decompress(&c);
  }
done:
  *rows_out = rows;
  jpeg_destroy_decompress(&c);
  free(rowbuf);
  return hh;
}

static void run_crop(const char *args)
{
  int flags, seed, n = 0, cases = 0, bad = 0, fx = -1, fw = -1, errs = 0, i; size_t len; unsigned char *buf; double t0 = cpu_us();
  unsigned long acc = 7;
  if (sscanf(args, "%d %d %n", &flags, &seed, &n) < 2) { puts("crop ?"); return; }
  buf = unhex(args + n, &len);
  rs = (unsigned long long)seed * 1315423911ULL + 7;
  for (i = 0; i < 20; i++) {
    /* xoffsets: i-th residue class of a random base, so that 20 cases span all residues mod 16 and most mod 32 */
    JDIMENSION xo = (JDIMENSION)((seed * 7 + i * 5) % 48 + (rnd() % 2) * 48), cw;
    long r0, r1; int e0, e1; unsigned long h0, h1;
    switch (rnd() % 5) { case 0: cw = 1; break; case 1: cw = 2 + rnd() % 3; break; case 2: cw = 0; break; default: cw = 1 + rnd() % 64; }
    h0 = crop_once(buf, len, flags, xo, cw, 0x5A, &r0, &e0);
    if (e0 == -2 || e0 == -3) { errs++; break; }
    h1 = crop_once(buf, len, flags, xo, cw, 0xA5, &r1, &e1);
    cases++;
    if (e0 || e1) errs++;
    if (r0 != r1 || e0 != e1 || h0 != h1) { bad++; if (fx < 0) { fx = (int)xo; fw = (int)cw; } }
    acc = acc * 31 + h0;
  }
  printf("crop flags=%d cases=%d errs=%d bad=%d first=%d,%d oh=%lx t=%.0f\n", flags, cases, errs, bad, fx, fw, acc, cpu_us() - t0);
  free(buf);
}

/* ------------------------------------------------------------------ bq mode */
/* bq <seed> <hex>
 * libjpeg buffered-image mode with colour-quantisation mode changes between output passes, legal
 * and illegal alike (quantize_colors, two_pass_quantize, enable_1pass/2pass/external_quant, colormap
 * NULL / external, jpeg_new_colormap, dither mode, desired_number_of_colors, block smoothing).
 * Every library call is made under the error manager: a pass ends "ok" or "err<code>"; anything
 * else (crash, sanitizer report, hang) is a violation.  Two runs (different row pre-fill) must agree. */
static void bq_once(const unsigned char *buf, size_t len, int seed, int fill, char *sum, size_t sumsz)
{
  struct jpeg_decompress_struct c; struct my_err e; struct jpeg_progress_mgr pm; unsigned char *volatile rowbuf = NULL;
  volatile int pass = 0; volatile unsigned long hh = 7; size_t o = 0; volatile int phase = 0;
  sum[0] = 0;
  rs = (unsigned long long)seed * 2654435761ULL + 11;
  memset(&c, 0, sizeof(c));
  c.err = jpeg_std_error(&e.pub); e.pub.error_exit = my_exit; e.pub.emit_message = my_emit; e.pub.output_message = my_output; e.code = 0; e.eofw = 0;
  jpeg_create_decompress(&c);
  c.mem->max_memory_to_use = 256L * 1024 * 1024;
  memset(&pm, 0, sizeof(pm)); pm.progress_monitor = prog_mon; c.progress = &pm; max_scans = SCANLIMIT + 4;
  if (setjmp(e.jb)) {
    o = strlen(sum); snprintf(sum + o, sumsz - o, "|p%d.%d:err%d", (int)pass, (int)phase, e.code);
    if (phase == 0 || pass > 6) goto done;
    /* an error inside a pass: the object is still usable for jpeg_abort; stop the history here */
    goto done;
  }
  jpeg_mem_src(&c, buf, (unsigned long)len);
  if (jpeg_read_header(&c, TRUE) != JPEG_HEADER_OK) { snprintf(sum, sumsz, "nohdr"); goto done; }
  if ((unsigned long long)c.image_width * c.image_height > MAXPIXELS || c.master->lossless || c.data_precision > 12) { snprintf(sum, sumsz, "skip"); goto done; }
  c.buffered_image = TRUE;
  c.quantize_colors = rnd() % 2; c.two_pass_quantize = rnd() % 2;
  c.enable_1pass_quant = rnd() % 2; c.enable_2pass_quant = rnd() % 2; c.enable_external_quant = rnd() % 2;
  c.desired_number_of_colors = (int[]){ 2, 8, 64, 256, 257, 1, 255, 16 }[rnd() % 8];
  c.dither_mode = (J_DITHER_MODE)(rnd() % 3);
  c.do_fancy_upsampling = rnd() % 2; c.do_block_smoothing = rnd() % 2;
  if (rnd() % 4 == 0 && c.jpeg_color_space == JCS_YCbCr) c.out_color_space = JCS_GRAYSCALE;
  phase = 1;
  jpeg_start_decompress(&c);
  {
    int prec = c.data_precision, ssz = prec <= 8 ? 1 : 2;
    size_t rowbytes = (size_t)c.output_width * 4 * ssz + 16;
    rowbuf = (unsigned char *)malloc(rowbytes);
    for (pass = 1; pass <= 5; pass++) {
      int act = rnd() % 8, nrows = 0; JDIMENSION n;
      phase = 2;
      /* mode change before the pass */
      if (act == 1) c.quantize_colors = !c.quantize_colors;
      if (act == 2) { c.quantize_colors = TRUE; c.two_pass_quantize = !c.two_pass_quantize; c.colormap = NULL; }
      if (act == 3 || act == 4) {   /* external colormap */
        int nc = 2 + rnd() % 200, i, k, comps = c.out_color_components > 0 ? c.out_color_components : 3;
        c.quantize_colors = TRUE;
        /* capacity 512 entries, all initialised: if the application "forgets" jpeg_new_colormap the
           quantizer's stale indices (< 257 here) still address memory the application owns */
        c.colormap = (*c.mem->alloc_sarray) ((j_common_ptr)&c, JPOOL_IMAGE, (JDIMENSION)512, (JDIMENSION)comps);
        for (k = 0; k < comps; k++) for (i = 0; i < 512; i++) {
          if (prec <= 8) c.colormap[k][i] = (JSAMPLE)(rnd() & 255); else ((J12SAMPARRAY)c.colormap)[k][i] = (J12SAMPLE)(rnd() & 4095);
        }
        c.actual_number_of_colors = nc;
        if (act == 4) { phase = 3; jpeg_new_colormap(&c); }
      }
      if (act == 5) { c.quantize_colors = TRUE; c.colormap = NULL; c.desired_number_of_colors = 4 + rnd() % 250; }
      if (act == 6) c.dither_mode = (J_DITHER_MODE)(rnd() % 3);
      if (act == 7) { c.do_block_smoothing = !c.do_block_smoothing; }
      phase = 4;
      jpeg_start_output(&c, c.input_scan_number);
      phase = 5;
      if (act == 0 && (rnd() & 1)) { phase = 6; if (c.quantize_colors && c.colormap) jpeg_new_colormap(&c); phase = 5; }
      while (c.output_scanline < c.output_height) {
        memset(rowbuf, fill, rowbytes);
        if (prec <= 8) { JSAMPROW r = (JSAMPROW)rowbuf; n = jpeg_read_scanlines(&c, &r, 1); }
        else { J12SAMPROW r = (J12SAMPROW)rowbuf; n = jpeg12_read_scanlines(&c, &r, 1); }
        if (!n) break;
        hh = hh * 31 + fnv(rowbuf, (size_t)c.output_width * c.output_components * ssz); nrows++;
      }
      phase = 7;
      jpeg_finish_output(&c);
      o = strlen(sum); snprintf(sum + o, sumsz - o, "|p%d:a%d,q%d,r%d", (int)pass, act, c.quantize_colors ? 1 : 0, nrows);
      if (jpeg_input_complete(&c) && pass >= 3) break;
    }
    phase = 8;
    jpeg_finish_decompress(&c);
  }
done:
  o = strlen(sum); snprintf(sum + o, sumsz - o, "|h%lx", (unsigned long)hh);
  jpeg_destroy_decompress(&c);
  free(rowbuf);
}

static void run_bq(const char *args)
{
  int seed, n = 0; size_t len; unsigned char *buf; char s0[600], s1[600]; double t0 = cpu_us();
  if (sscanf(args, "%d %n", &seed, &n) < 1) { puts("bq ?"); return; }
  buf = unhex(args + n, &len);
  bq_once(buf, len, seed, 0x5A, s0, sizeof(s0));
  bq_once(buf, len, seed, 0xA5, s1, sizeof(s1));
  printf("bq seed=%d same=%d r=%s t=%.0f\n", seed, strcmp(s0, s1) == 0, s0, cpu_us() - t0);
  free(buf);
}

/* ------------------------------------------------------------------ ll mode */
/* ll <hex>: full libjpeg decode (no colour conversion) of a crafted stream whose samples are all equal by
 * construction; prints the extreme sample values of every row reported as produced. */
static void run_ll(const char *hex)
{
  struct jpeg_decompress_struct c; struct my_err e; size_t len; unsigned char *buf = unhex(hex, &len);
  unsigned char *volatile row = NULL; volatile long rows = 0; volatile int mn = 1 << 30, mx = -1; double t0 = cpu_us();
  memset(&c, 0, sizeof(c));
  c.err = jpeg_std_error(&e.pub); e.pub.error_exit = my_exit; e.pub.emit_message = my_emit; e.pub.output_message = my_output; e.code = 0; e.eofw = 0;
  if (setjmp(e.jb)) { printf("ll err%d rows=%ld min=%d max=%d\n", e.code, (long)rows, (int)mn, (int)mx); jpeg_destroy_decompress(&c); free(row); free(buf); return; }
  jpeg_create_decompress(&c);
  c.mem->max_memory_to_use = 256L * 1024 * 1024;
  jpeg_mem_src(&c, buf, (unsigned long)len);
  if (jpeg_read_header(&c, TRUE) != JPEG_HEADER_OK || (unsigned long long)c.image_width * c.image_height > MAXPIXELS) { puts("ll nohdr"); jpeg_destroy_decompress(&c); free(buf); return; }
  c.out_color_space = c.jpeg_color_space;
  jpeg_start_decompress(&c);
  {
    int prec = c.data_precision, ssz = prec <= 8 ? 1 : 2; size_t n = (size_t)c.output_width * c.output_components, i;
    row = (unsigned char *)malloc(n * ssz ? n * ssz : 1);
    while (c.output_scanline < c.output_height) {
      JDIMENSION got;
      memset(row, 0x5A, n * ssz);
      if (prec <= 8) { JSAMPROW r = (JSAMPROW)row; got = jpeg_read_scanlines(&c, &r, 1); }
      else if (prec <= 12) { J12SAMPROW r = (J12SAMPROW)row; got = jpeg12_read_scanlines(&c, &r, 1); }
      else { J16SAMPROW r = (J16SAMPROW)row; got = jpeg16_read_scanlines(&c, &r, 1); }
      if (!got) break;
      for (i = 0; i < n; i++) { int v = ssz == 1 ? row[i] : ((unsigned short *)row)[i]; if (v < mn) mn = v; if (v > mx) mx = v; }
      rows++;
    }
    jpeg_finish_decompress(&c);
  }
  printf("ll ok %ux%u nc=%d rows=%ld min=%d max=%d warn=%ld t=%.0f\n", c.image_width, c.image_height, c.num_components, (long)rows, (int)mn, (int)mx, c.err->num_warnings, cpu_us() - t0);
  jpeg_destroy_decompress(&c); free(row); free(buf);
}

/* ---------------------------------------------------------------- watchdog */
#include <signal.h>
#include <unistd.h>
#include <sys/time.h>
static void on_alarm(int sig)
{
  static const char m[] = "TIMEOUT\n";
  (void)sig;
  if (write(1, m, sizeof(m) - 1)) {}
  _exit(3);
}
static void arm_watchdog(void)
{
  struct itimerval it; memset(&it, 0, sizeof(it));
  it.it_value.tv_sec = 10; setitimer(ITIMER_VIRTUAL, &it, NULL);      /* 10 s of CPU per case */
  alarm(45);                                                           /* wall-clock backstop */
}

int main(void)
{
  setvbuf(stdout, NULL, _IOLBF, 0);
  line = (char *)malloc(MAXLINE);
  signal(SIGVTALRM, on_alarm); signal(SIGALRM, on_alarm);
  while (fgets(line, MAXLINE, stdin)) {
    size_t l = strlen(line);
    arm_watchdog();
    while (l && (line[l - 1] == '\n' || line[l - 1] == '\r')) line[--l] = 0;
    if (!strncmp(line, "hdr", 3)) run_hdr(line[3] ? line + 4 : "");
    else if (!strncmp(line, "mk ", 3)) run_mk(line + 3);
    else if (!strncmp(line, "dec ", 4)) run_dec(line + 4);
    else if (!strncmp(line, "hist ", 5)) run_hist(line + 5);
    else if (!strncmp(line, "crop ", 5)) run_crop(line + 5);
    else if (!strncmp(line, "bq ", 3)) run_bq(line + 3);
    else if (!strncmp(line, "ll ", 3)) run_ll(line + 3);
    else puts("?");
  }
  return 0;
}
