/* C15 harness: N threads, each running its own operation list on its OWN TurboJPEG
 * instances, first all threads concurrently (barrier start; instance creation and
 * first-use initialisation race), then every list once more alone in a fresh
 * thread.  Oracle inside the harness: the per-operation result log of the
 * concurrent run equals the log of the solo run, and an error string retrieved
 * for an instance contains the marker bytes of that instance's own last failure.
 * Built with the `tsan` flavour the same binary makes ThreadSanitizer the oracle
 * for conflicting accesses.
 *
 * stdin: one operation per line:  <tid> <op> <int args...>
 * stdout: one line per thread:  T<tid> OK n=<ops> h=<log hash>   |  T<tid> DIFF ... | T<tid> OWN ...
 *         with argv[1]=="-v" the solo logs are printed as well.
 */
#include <stdio.h>
#include <stdlib.h>
#include <string.h>
#include <stdarg.h>
#include <stdint.h>
#include <pthread.h>
#include <sched.h>
#include <unistd.h>
#include <setjmp.h>
#include <sys/stat.h>
#include "turbojpeg.h"
#include "jpeglib.h"
#include "jerror.h"

#define MAXT 32
#define MAXOPS 512
#define NH 4
#define NS 4

typedef struct { char name[12]; int a[14]; int na; } op_t;

typedef struct { unsigned long seq; char kind; int H; int code; char *msg; } ev_t;

typedef struct {
  int tid, nops;
  ev_t *ev; int nev, capev, lastc;   /* error-state events of the concurrent phase (for the model correspondence) */
  op_t ops[MAXOPS];
  /* per run state */
  tjhandle h[NH];
  int htype[NH];
  unsigned char *slot[NS];
  size_t slotsize[NS];
  char *log;
  size_t loglen, logcap;
  int ownfail;
  char ownmsg[300];
  tjhandle pre;            /* instance created by the main thread, used only by this thread */
  char mark[NH][48];       /* text that identifies instance H's own most recent failure ("" = none/unknown) */
} thr_t;

static thr_t T[MAXT];
static int nthreads;
static pthread_barrier_t bar;
static int done_count;

/* ---- write-watch: static-storage objects of the LIBRARY (addresses from nm of this executable, given by the check)
   must keep their load-time bytes while library code runs */
#define MAXW 256
static struct { char name[64]; unsigned char *addr; size_t size; unsigned char *snap; int reported; } W[MAXW];
static int nwatch;

static void watch_load(void)
{
  const char *fn = getenv("C15_WATCH");
  FILE *f = fn ? fopen(fn, "r") : NULL;
  char name[64]; unsigned long long addr; unsigned long size;
  if (!f) return;
  while (nwatch < MAXW && fscanf(f, "%63s %llx %lu", name, &addr, &size) == 3) {
    if (!size || size > (1u << 24)) continue;
    snprintf(W[nwatch].name, sizeof(W[nwatch].name), "%s", name);
    W[nwatch].addr = (unsigned char *)(uintptr_t)addr; W[nwatch].size = size;
    W[nwatch].snap = (unsigned char *)malloc(size);
    memcpy(W[nwatch].snap, W[nwatch].addr, size);
    nwatch++;
  }
  fclose(f);
}

static int watch_check(const char *when)
{
  int bad = 0;
  for (int i = 0; i < nwatch; i++) {
    if (W[i].reported || !memcmp(W[i].snap, W[i].addr, W[i].size)) continue;
    size_t off = 0;
    while (off < W[i].size && W[i].snap[off] == W[i].addr[off]) off++;
    printf("WATCH %s size=%zu first-changed-byte=%zu when=%s\n", W[i].name, W[i].size, off, when);
    W[i].reported = 1; bad = 1;
  }
  return bad;
}



/* ---- error-state events: (global sequence number taken when the call has completed, kind, instance, message)
   N new instance | C call completed without failure | F call failed with message | T thread-local string set |
   G tj3GetErrorStr(instance) returned message | Q tj3GetErrorStr(NULL) returned message.
   The sequence counter is a relaxed atomic (no happens-before edge that could hide a race from ThreadSanitizer). */
static unsigned long ev_seq;
static int ev_on;

static int hidx(thr_t *t, tjhandle h)
{
  for (int i = 0; i < NH; i++) if (t->h[i] == h && h) return i;
  return -1;
}

static void ev_add2(thr_t *t, char kind, int H, const char *msg, int code);
static void ev_add(thr_t *t, char kind, int H, const char *msg) { ev_add2(t, kind, H, msg, -1); }
static void ev_add2(thr_t *t, char kind, int H, const char *msg, int code)
{
  if (!ev_on || (H < 0 && kind != 'T' && kind != 'Q')) return;
  if (kind == 'C') { if (t->lastc == H) return; t->lastc = H; } else t->lastc = -1;
  if (t->nev == t->capev) { t->capev = t->capev ? t->capev * 2 : 256; t->ev = (ev_t *)realloc(t->ev, t->capev * sizeof(ev_t)); }
  ev_t *e = &t->ev[t->nev++];
  e->seq = __atomic_fetch_add(&ev_seq, 1, __ATOMIC_RELAXED);
  e->kind = kind; e->H = H; e->code = code; e->msg = msg ? strdup(msg) : NULL;
  if (e->msg) for (char *q = e->msg; *q; q++) if (*q == '\n') *q = '|';
}

/* ---- heap isolation (un-instrumented build linked with --wrap=malloc,...): while C15_ISOLATE is active (single-threaded
   third phase) every allocation made during an API call on instance X comes from X's own page-granular arena, and all
   arenas of OTHER instances (alive or destroyed) are PROT_NONE while a call on X runs: a call that touches another
   instance's heap memory faults and is reported. */
#include <sys/mman.h>
#include <signal.h>
static int iso_on;
static __thread int in_lib;
static __thread int cur_owner;        /* 0 = harness / no instance */
static int n_owner;
static int cur_tid = -1, cur_op = -1; static const char *cur_name = "";
#define MAXREG 8192
#define CHUNK (256u * 1024u)
static struct { char *base; size_t size, used; int owner, open; } REG[MAXREG];
static int nreg;
#define MAXBIND 4096
static struct { void *h; int owner; } BIND[MAXBIND];
static int nbind;

static int reg_of(const void *p)
{
  for (int i = 0; i < nreg; i++) if ((const char *)p >= REG[i].base && (const char *)p < REG[i].base + REG[i].size) return i;
  return -1;
}

#ifdef C15_WRAP
void *__real_malloc(size_t); void __real_free(void *); void *__real_calloc(size_t, size_t); void *__real_realloc(void *, size_t);

static void *arena_alloc(int owner, size_t n)
{
  size_t need = ((n + 15) & ~(size_t)15) + 16;
  int r = -1;
  if (need <= CHUNK / 2)
    for (int i = nreg - 1; i >= 0; i--) if (REG[i].owner == owner && REG[i].size - REG[i].used >= need && REG[i].size == CHUNK) { r = i; break; }
  if (r < 0) {
    size_t sz = need <= CHUNK / 2 ? CHUNK : ((need + 4095) & ~(size_t)4095);
    if (nreg == MAXREG) return NULL;
    void *m = mmap(NULL, sz, PROT_READ | PROT_WRITE, MAP_PRIVATE | MAP_ANONYMOUS, -1, 0);
    if (m == MAP_FAILED) return NULL;
    r = nreg++; REG[r].base = (char *)m; REG[r].size = sz; REG[r].used = 0; REG[r].owner = owner; REG[r].open = 1;
  }
  char *p = REG[r].base + REG[r].used;
  REG[r].used += need;
  *(size_t *)p = n;
  return p + 16;
}
void *__wrap_malloc(size_t n) { return (in_lib && cur_owner) ? arena_alloc(cur_owner, n) : __real_malloc(n); }
void *__wrap_calloc(size_t a, size_t b)
{
  if (!(in_lib && cur_owner)) return __real_calloc(a, b);
  void *p = arena_alloc(cur_owner, a * b); if (p) memset(p, 0, a * b); return p;
}
void __wrap_free(void *p) { if (p && nreg && reg_of(p) >= 0) return; __real_free(p); }
void *__wrap_realloc(void *p, size_t n)
{
  if (p && nreg && reg_of(p) >= 0) {
    size_t old = *(size_t *)((char *)p - 16);
    void *q = (in_lib && cur_owner) ? arena_alloc(cur_owner, n) : __real_malloc(n);
    if (q) memcpy(q, p, old < n ? old : n);
    return q;
  }
  if (in_lib && cur_owner && !p) return arena_alloc(cur_owner, n);
  return __real_realloc(p, n);
}
static void *rehome(void *p, size_t n)
{
  if (!p || !nreg || reg_of(p) < 0) return p;
  void *q = __real_malloc(n ? n : 1); memcpy(q, p, n); return q;
}
#else
static void *rehome(void *p, size_t n) { (void)n; return p; }
#endif

static void iso_switch(int owner)
{
  cur_owner = owner;
  if (!iso_on || !owner) return;
  for (int i = 0; i < nreg; i++) {
    int want = REG[i].owner == owner;
    if (want != REG[i].open) { mprotect(REG[i].base, REG[i].size, want ? PROT_READ | PROT_WRITE : PROT_NONE); REG[i].open = want; }
  }
}
static int owner_of(void *h) { for (int i = nbind - 1; i >= 0; i--) if (BIND[i].h == h) return BIND[i].owner; return 0; }
static void own_set(void *h) { if (iso_on) iso_switch(owner_of(h)); }
static void own_new(void) { if (iso_on) iso_switch(++n_owner); }
static void own_bind(void *h) { if (iso_on && h && nbind < MAXBIND) { BIND[nbind].h = h; BIND[nbind].owner = cur_owner; nbind++; } }
static void own_none(void) { if (iso_on) cur_owner = 0; }

static void iso_fault(int sig, siginfo_t *si, void *ctx)
{
  (void)ctx;
  int r = reg_of(si->si_addr);
  char buf[300];
  if (r >= 0 && iso_on) {
    int n = snprintf(buf, sizeof(buf), "ISOLATION tid=%d op=%d name=%s call-on-owner=%d touched-owner=%d offset=%ld\n", cur_tid, cur_op,
                     cur_name, cur_owner, REG[r].owner, (long)((char *)si->si_addr - REG[r].base));
    if (write(1, buf, n) < 0) {}
    _exit(77);
  }
  signal(sig, SIG_DFL);
}

static tjhandle tj_init(int type) { own_new(); in_lib = iso_on; tjhandle h = tj3Init(type); in_lib = 0; own_bind(h); return h; }

/* in_lib: allocations are charged to the instance only while library code runs (harness allocations stay outside) */
#define CK(h, e)  ({ own_set(h); in_lib = iso_on; int r_ = (e); in_lib = 0; ev_rc(t, (h), r_); })
#define CKP(h, e) ({ own_set(h); in_lib = iso_on; void *r_ = (void *)(e); in_lib = 0; ev_ptr(t, (h), r_); })
#define CKZ(h, e) ({ own_set(h); in_lib = iso_on; size_t r_ = (e); in_lib = 0; ev_sz(t, (h), r_); })
static int ev_rc(thr_t *t, tjhandle h, int rc)
{
  if (rc < 0) ev_add2(t, 'F', hidx(t, h), tj3GetErrorStr(h), tj3GetErrorCode(h)); else ev_add(t, 'C', hidx(t, h), NULL);
  return rc;
}
static void *ev_ptr(thr_t *t, tjhandle h, void *p) { ev_rc(t, h, p ? 0 : -1); return p; }
static size_t ev_sz(thr_t *t, tjhandle h, size_t z) { ev_rc(t, h, z ? 0 : -1); return z; }

static uint64_t fnv(const void *p, size_t n)
{
  const unsigned char *b = (const unsigned char *)p;
  uint64_t h = 1469598103934665603ULL;
  for (size_t i = 0; i < n; i++) { h ^= b[i]; h *= 1099511628211ULL; }
  return h;
}

static void logf_(thr_t *t, const char *fmt, ...)
{
  char buf[700];
  va_list ap;
  va_start(ap, fmt);
  int n = vsnprintf(buf, sizeof(buf), fmt, ap);
  va_end(ap);
  if (n < 0) return;
  if (n >= (int)sizeof(buf)) n = sizeof(buf) - 1;
  for (int i = 0; i < n; i++) if (buf[i] == '\n') buf[i] = '|';
  if (t->loglen + n + 2 > t->logcap) {
    t->logcap = (t->logcap + n + 2) * 2;
    t->log = (char *)realloc(t->log, t->logcap);
  }
  memcpy(t->log + t->loglen, buf, n);
  t->loglen += n;
  t->log[t->loglen++] = '\n';
  t->log[t->loglen] = 0;
}

static uint32_t lcg(uint32_t *s) { *s = *s * 1664525u + 1013904223u; return *s >> 8; }

/* synthetic image: gradients + noise; sample range by precision */
static void *mkimage(int prec, int w, int h, int ps, uint32_t seed)
{
  size_t n = (size_t)w * h * ps;
  int maxv = (1 << prec) - 1;
  if (prec <= 8) {
    unsigned char *p = (unsigned char *)malloc(n ? n : 1);
    for (int y = 0; y < h; y++) for (int x = 0; x < w; x++) for (int c = 0; c < ps; c++) {
      int v = (x * (c + 3) * 5 + y * (7 - c) * 3 + (int)(lcg(&seed) % 23)) & 0xFFFF;
      p[((size_t)y * w + x) * ps + c] = (unsigned char)(v % (maxv + 1));
    }
    return p;
  } else {
    unsigned short *p = (unsigned short *)malloc((n ? n : 1) * 2);
    for (int y = 0; y < h; y++) for (int x = 0; x < w; x++) for (int c = 0; c < ps; c++) {
      int v = (x * (c + 3) * 37 + y * (7 - c) * 29 + (int)(lcg(&seed) % 301)) & 0xFFFFF;
      p[((size_t)y * w + x) * ps + c] = (unsigned short)(v % (maxv + 1));
    }
    return p;
  }
}


/* ---- raw libjpeg API (the same objects are inside libturbojpeg.a) */
struct lj_err { struct jpeg_error_mgr pub; jmp_buf jb; char msg[JMSG_LENGTH_MAX]; };
static void lj_error_exit(j_common_ptr cinfo)
{
  struct lj_err *e = (struct lj_err *)cinfo->err;
  (*cinfo->err->format_message) (cinfo, e->msg);
  longjmp(e->jb, 1);
}
static void lj_output_message(j_common_ptr cinfo) { (void)cinfo; }

static void free_slot(thr_t *t, int s);

static void lj_decompress(thr_t *t, int k, int S, int mode, int colors, int dither)
{
  struct jpeg_decompress_struct d;
  struct lj_err e;
  unsigned char *volatile out = NULL;
  if (!t->slot[S]) { logf_(t, "%d ljdec skip", k); return; }
  d.err = jpeg_std_error(&e.pub);
  e.pub.error_exit = lj_error_exit; e.pub.output_message = lj_output_message; e.msg[0] = 0;
  if (setjmp(e.jb)) {
    logf_(t, "%d ljdec -> error \"%s\"", k, e.msg);
    jpeg_destroy_decompress(&d);
    free((void *)out);
    return;
  }
  jpeg_create_decompress(&d);
  jpeg_mem_src(&d, t->slot[S], (unsigned long)t->slotsize[S]);
  jpeg_read_header(&d, TRUE);
  if (d.data_precision != 8) { logf_(t, "%d ljdec n/a", k); jpeg_destroy_decompress(&d); return; }
  if (d.jpeg_color_space == JCS_CMYK || d.jpeg_color_space == JCS_YCCK) { logf_(t, "%d ljdec cmyk n/a", k); jpeg_destroy_decompress(&d); return; }
  d.quantize_colors = TRUE;
  d.desired_number_of_colors = 2 + colors % 255;
  d.two_pass_quantize = (mode & 1) ? TRUE : FALSE;
  d.dither_mode = dither % 3 == 0 ? JDITHER_NONE : dither % 3 == 1 ? JDITHER_ORDERED : JDITHER_FS;
  if (mode & 2) d.out_color_space = JCS_GRAYSCALE;
  jpeg_start_decompress(&d);
  size_t row = (size_t)d.output_width * d.output_components;
  out = (unsigned char *)calloc(row * d.output_height + 1, 1);
  while (d.output_scanline < d.output_height) {
    JSAMPROW r = (JSAMPROW)out + row * d.output_scanline;
    jpeg_read_scanlines(&d, &r, 1);
  }
  uint64_t hc = 0;
  if (d.colormap)
    for (int c = 0; c < d.out_color_components; c++) hc ^= fnv(d.colormap[c], d.actual_number_of_colors) * (c + 1);
  logf_(t, "%d ljdec %ux%u mode%d colors%d/%d dither%d -> h=%016llx cmap=%016llx", k, d.output_width, d.output_height, mode & 3,
        d.actual_number_of_colors, d.desired_number_of_colors, dither % 3, (unsigned long long)fnv((void *)out, row * d.output_height),
        (unsigned long long)hc);
  jpeg_finish_decompress(&d);
  jpeg_destroy_decompress(&d);
  free((void *)out);
}

static void lj_compress(thr_t *t, int k, int S, int w, int h, int q, int opt, uint32_t seed)
{
  struct jpeg_compress_struct c;
  struct lj_err e;
  unsigned char *volatile img = NULL;
  unsigned char *buf = NULL; unsigned long len = 0;
  c.err = jpeg_std_error(&e.pub);
  e.pub.error_exit = lj_error_exit; e.pub.output_message = lj_output_message; e.msg[0] = 0;
  if (setjmp(e.jb)) {
    logf_(t, "%d ljcomp -> error \"%s\"", k, e.msg);
    jpeg_destroy_compress(&c);
    free((void *)img); free(buf);
    return;
  }
  jpeg_create_compress(&c);
  jpeg_mem_dest(&c, &buf, &len);
  c.image_width = w; c.image_height = h; c.input_components = 3; c.in_color_space = JCS_RGB;
  jpeg_set_defaults(&c);
  jpeg_set_quality(&c, 1 + q % 100, TRUE);
  c.optimize_coding = (opt & 1) ? TRUE : FALSE;
  if (opt & 2) jpeg_simple_progression(&c);
  if (opt & 4) c.arith_code = TRUE;
  if (opt & 8) { c.comp_info[0].h_samp_factor = 1; c.comp_info[0].v_samp_factor = 1; }
  if (opt & 16) c.dct_method = JDCT_FLOAT;
  if (opt & 32) c.restart_interval = 3;
  img = (unsigned char *)mkimage(8, w, h, 3, seed);
  jpeg_start_compress(&c, TRUE);
  while (c.next_scanline < c.image_height) {
    JSAMPROW r = (JSAMPROW)img + (size_t)c.next_scanline * w * 3;
    jpeg_write_scanlines(&c, &r, 1);
  }
  jpeg_finish_compress(&c);
  jpeg_destroy_compress(&c);
  free((void *)img);
  free_slot(t, S);
  t->slot[S] = buf; t->slotsize[S] = len;
  logf_(t, "%d ljcomp %dx%d q%d opt%x -> size=%lu h=%016llx", k, w, h, 1 + q % 100, opt, len, (unsigned long long)fnv(buf, len));
}

static void errinfo(thr_t *t, tjhandle h, const char *tag)
{
  own_set(h);
  const char *m = tj3GetErrorStr(h);
  int code = tj3GetErrorCode(h);
  logf_(t, "  %s err=\"%s\" code=%d", tag, m, code);
  ev_add(t, 'G', hidx(t, h), m);
  ev_add2(t, 'K', hidx(t, h), NULL, code);
}

static void free_slot(thr_t *t, int s)
{
  if (t->slot[s]) tj3Free(t->slot[s]);
  t->slot[s] = NULL; t->slotsize[s] = 0;
}

static void own(thr_t *t, int k, const char *what, const char *got, const char *want)
{
  if (!strstr(got, want) && !t->ownfail) {
    t->ownfail = 1;
    snprintf(t->ownmsg, sizeof(t->ownmsg), "op=%d %s: got \"%.120s\" expected to contain \"%.60s\"", k, what, got, want);
  }
}


/* ---- nested use: a tj3Transform custom filter that calls TurboJPEG functions on ANOTHER instance of the same thread */
typedef struct { thr_t *t; tjhandle outer, inner; int kind, calls; } nest_t;

static int nest_filter(short *coeffs, tjregion arrayRegion, tjregion planeRegion, int componentID, int transformID,
                       tjtransform *transform)
{
  nest_t *n = (nest_t *)transform->data;
  thr_t *t = n->t;
  (void)planeRegion; (void)transformID;
  if (componentID != 0 || arrayRegion.y != 0 || n->calls) return 0;
  n->calls++;
  int save_lib = in_lib;
  switch (n->kind % 3) {
  case 0: CK(n->inner, tj3Set(n->inner, TJPARAM_BOTTOMUP, 0)); break;                 /* succeeds */
  case 1: CK(n->inner, tj3Set(n->inner, TJPARAM_SUBSAMP, 1000 + n->kind)); break;     /* fails: TurboJPEG-level message on the inner instance */
  default: {                                                                             /* compress a preview / fail if the inner instance cannot */
    unsigned char preview[64], *buf = NULL; size_t size = 0;
    for (int i = 0; i < 64; i++) { int v = 128 + coeffs[i] / 8; preview[i] = (unsigned char)(v < 0 ? 0 : v > 255 ? 255 : v); }
    CK(n->inner, tj3Set(n->inner, TJPARAM_NOREALLOC, 0));
    CK(n->inner, tj3Compress8(n->inner, preview, 8, 0, 8, TJPF_GRAY, &buf, &size));
    if (buf) tj3Free(buf);
    break; }
  }
  own_set(n->outer); in_lib = save_lib;      /* back inside the outer call */
  return 0;
}

static void run_op(thr_t *t, int k)
{
  op_t *o = &t->ops[k];
  int *a = o->a;
  const char *n = o->name;
  if (iso_on) { own_none(); cur_tid = t->tid; cur_op = k; cur_name = n; }
  if (strcmp(n, "ownerr") && strcmp(n, "geterr") && strcmp(n, "gerr") && strcmp(n, "helper") && strcmp(n, "yield") &&
      strcmp(n, "legacy") && strcmp(n, "icc") && strcmp(n, "planes") && strcmp(n, "ljdec") && strcmp(n, "ljcomp"))
    t->mark[a[0] % NH][0] = 0;        /* any other call on instance H may replace or clear its error state */
  if (!strcmp(n, "icc") || !strcmp(n, "planes")) t->mark[0][0] = t->mark[1][0] = 0;
  if (!strcmp(n, "init")) {           /* init H type */
    int H = a[0] % NH;
    if (t->h[H]) { own_set(t->h[H]); tj3Destroy(t->h[H]); }
    t->h[H] = tj_init(a[1]);
    if (t->h[H]) ev_add(t, 'N', H, NULL);
    t->htype[H] = a[1];
    logf_(t, "%d init %d %d -> %s", k, H, a[1], t->h[H] ? "ok" : "NULL");
  } else if (!strcmp(n, "usepre")) {  /* adopt the instance the main thread created for us */
    int H = a[0] % NH;
    if (t->h[H]) { own_set(t->h[H]); tj3Destroy(t->h[H]); }
    t->h[H] = t->pre; t->pre = NULL; t->htype[H] = a[1];
    if (t->h[H]) ev_add(t, 'N', H, NULL);
    logf_(t, "%d usepre %d -> %s", k, H, t->h[H] ? "ok" : "NULL");
  } else if (!strcmp(n, "destroy")) {
    int H = a[0] % NH;
    if (t->h[H]) { own_set(t->h[H]); tj3Destroy(t->h[H]); }
    t->h[H] = NULL;
    logf_(t, "%d destroy %d", k, H);
  } else if (!strcmp(n, "set")) {     /* set H param value */
    int H = a[0] % NH;
    if (!t->h[H]) { logf_(t, "%d set skip", k); return; }
    int rc = CK(t->h[H], tj3Set(t->h[H], a[1], a[2]));
    logf_(t, "%d set %d %d -> %d get=%d", k, a[1], a[2], rc, tj3Get(t->h[H], a[1]));
    if (rc < 0) { errinfo(t, t->h[H], "set"); own(t, k, "tj3Set", tj3GetErrorStr(t->h[H]), "tj3Set"); }
  } else if (!strcmp(n, "comp")) {    /* comp H slot prec w h pf subsamp qual flags seed */
    int H = a[0] % NH, S = a[1] % NS, prec = a[2], w = a[3], h = a[4], pf = a[5], ss = a[6], q = a[7], fl = a[8];
    tjhandle hd = t->h[H];
    if (!hd || !(t->htype[H] == TJINIT_COMPRESS)) { logf_(t, "%d comp skip", k); return; }
    int lossless = (fl & 8) != 0 || prec == 16;
    CK(hd, tj3Set(hd, TJPARAM_PRECISION, prec));
    CK(hd, tj3Set(hd, TJPARAM_LOSSLESS, lossless));
    if (lossless) { CK(hd, tj3Set(hd, TJPARAM_LOSSLESSPSV, 1 + (fl >> 8) % 7)); CK(hd, tj3Set(hd, TJPARAM_LOSSLESSPT, (fl >> 12) % 3)); }
    else { CK(hd, tj3Set(hd, TJPARAM_SUBSAMP, ss)); CK(hd, tj3Set(hd, TJPARAM_QUALITY, q)); }
    CK(hd, tj3Set(hd, TJPARAM_OPTIMIZE, (fl & 1) != 0));
    CK(hd, tj3Set(hd, TJPARAM_PROGRESSIVE, (fl & 2) != 0));
    CK(hd, tj3Set(hd, TJPARAM_ARITHMETIC, (fl & 4) != 0));
    CK(hd, tj3Set(hd, TJPARAM_FASTDCT, (fl & 16) != 0));
    CK(hd, tj3Set(hd, TJPARAM_RESTARTROWS, (fl & 32) ? 1 : 0));
    CK(hd, tj3Set(hd, TJPARAM_NOREALLOC, 0));
    CK(hd, tj3Set(hd, TJPARAM_MAXMEMORY, a[10] > 0 ? a[10] : 0));
    void *img = mkimage(prec, w, h, tjPixelSize[pf], (uint32_t)a[9]);
    free_slot(t, S);
    int rc;
    if (prec <= 8) rc = CK(hd, tj3Compress8(hd, (unsigned char *)img, w, 0, h, pf, &t->slot[S], &t->slotsize[S]));
    else if (prec <= 12) rc = CK(hd, tj3Compress12(hd, (short *)img, w, 0, h, pf, &t->slot[S], &t->slotsize[S]));
    else rc = CK(hd, tj3Compress16(hd, (unsigned short *)img, w, 0, h, pf, &t->slot[S], &t->slotsize[S]));
    free(img);
    logf_(t, "%d comp p%d %dx%d pf%d ss%d q%d fl%x -> %d size=%zu h=%016llx", k, prec, w, h, pf, ss, q, fl, rc,
          rc == 0 ? t->slotsize[S] : 0, rc == 0 ? (unsigned long long)fnv(t->slot[S], t->slotsize[S]) : 0ULL);
    if (rc < 0) { errinfo(t, hd, "comp"); free_slot(t, S); }
    else t->slot[S] = (unsigned char *)rehome(t->slot[S], t->slotsize[S]);
  } else if (!strcmp(n, "decomp")) {  /* decomp H slot pf sfidx flags */
    int H = a[0] % NH, S = a[1] % NS, pf = a[2], fl = a[4];
    tjhandle hd = t->h[H];
    if (!hd || t->htype[H] == TJINIT_COMPRESS || !t->slot[S]) { logf_(t, "%d decomp skip", k); return; }
    CK(hd, tj3Set(hd, TJPARAM_SCANLIMIT, a[5] > 0 ? a[5] : 0));      /* extra args: scan limit, memory limit (MB) */
    CK(hd, tj3Set(hd, TJPARAM_MAXMEMORY, a[6] > 0 ? a[6] : 0));
    int rc = CK(hd, tj3DecompressHeader(hd, t->slot[S], t->slotsize[S]));
    if (rc < 0) { logf_(t, "%d decomp header -> %d", k, rc); errinfo(t, hd, "hdr"); return; }
    int w = tj3Get(hd, TJPARAM_JPEGWIDTH), h = tj3Get(hd, TJPARAM_JPEGHEIGHT), prec = tj3Get(hd, TJPARAM_PRECISION);
    int ll = tj3Get(hd, TJPARAM_LOSSLESS);
    int nsf = 0; tjscalingfactor *sfs = tj3GetScalingFactors(&nsf);
    tjscalingfactor sf = { 1, 1 };
    if (!ll && nsf > 0) sf = sfs[a[3] % nsf];
    CK(hd, tj3SetScalingFactor(hd, sf));
    CK(hd, tj3Set(hd, TJPARAM_FASTUPSAMPLE, (fl & 1) != 0));
    CK(hd, tj3Set(hd, TJPARAM_FASTDCT, (fl & 2) != 0));
    CK(hd, tj3Set(hd, TJPARAM_BOTTOMUP, (fl & 4) != 0));
    int sw = TJSCALED(w, sf), sh = TJSCALED(h, sf), ps = tjPixelSize[pf];
    size_t nsamp = (size_t)sw * sh * ps;
    void *out = calloc(nsamp ? nsamp : 1, prec <= 8 ? 1 : 2);
    if (prec <= 8) rc = CK(hd, tj3Decompress8(hd, t->slot[S], t->slotsize[S], (unsigned char *)out, 0, pf));
    else if (prec <= 12) rc = CK(hd, tj3Decompress12(hd, t->slot[S], t->slotsize[S], (short *)out, 0, pf));
    else rc = CK(hd, tj3Decompress16(hd, t->slot[S], t->slotsize[S], (unsigned short *)out, 0, pf));
    logf_(t, "%d decomp %dx%d p%d pf%d sf%d/%d fl%x sl%d mm%d -> %d h=%016llx", k, w, h, prec, pf, sf.num, sf.denom, fl,
          a[5] > 0 ? a[5] : 0, a[6] > 0 ? a[6] : 0, rc, (unsigned long long)fnv(out, nsamp * (prec <= 8 ? 1 : 2)));
    if (rc < 0) errinfo(t, hd, "decomp");
    free(out);
    sf.num = sf.denom = 1; CK(hd, tj3SetScalingFactor(hd, sf));
  } else if (!strcmp(n, "xform")) {   /* xform H slot dst op options */
    int H = a[0] % NH, S = a[1] % NS, D = a[2] % NS;
    tjhandle hd = t->h[H];
    if (!hd || t->htype[H] != TJINIT_TRANSFORM || !t->slot[S] || S == D) { logf_(t, "%d xform skip", k); return; }
    tjtransform xf; memset(&xf, 0, sizeof(xf));
    xf.op = a[3]; xf.options = a[4];
    free_slot(t, D);
    CK(hd, tj3Set(hd, TJPARAM_NOREALLOC, 0));
    CK(hd, tj3Set(hd, TJPARAM_SCANLIMIT, a[5] > 0 ? a[5] : 0));
    CK(hd, tj3Set(hd, TJPARAM_MAXMEMORY, a[6] > 0 ? a[6] : 0));
    logf_(t, "  xformbufsize %zu", CKZ(hd, tj3TransformBufSize(hd, &xf)));
    int rc = CK(hd, tj3Transform(hd, t->slot[S], t->slotsize[S], 1, &t->slot[D], &t->slotsize[D], &xf));
    logf_(t, "%d xform op%d opt%x -> %d size=%zu h=%016llx", k, a[3], a[4], rc, rc == 0 ? t->slotsize[D] : 0,
          rc == 0 ? (unsigned long long)fnv(t->slot[D], t->slotsize[D]) : 0ULL);
    if (rc < 0) { errinfo(t, hd, "xform"); free_slot(t, D); }
    else t->slot[D] = (unsigned char *)rehome(t->slot[D], t->slotsize[D]);
  } else if (!strcmp(n, "yuvenc")) {  /* yuvenc H w h pf subsamp seed */
    int H = a[0] % NH, w = a[1], h = a[2], pf = a[3], ss = a[4];
    tjhandle hd = t->h[H];
    if (!hd || t->htype[H] != TJINIT_COMPRESS) { logf_(t, "%d yuvenc skip", k); return; }
    CK(hd, tj3Set(hd, TJPARAM_PRECISION, 8)); CK(hd, tj3Set(hd, TJPARAM_LOSSLESS, 0));
    CK(hd, tj3Set(hd, TJPARAM_SUBSAMP, ss));
    size_t ys = tj3YUVBufSize(w, 4, h, ss);
    unsigned char *img = (unsigned char *)mkimage(8, w, h, tjPixelSize[pf], (uint32_t)a[5]);
    unsigned char *yuv = (unsigned char *)calloc(ys ? ys : 1, 1);
    int rc = CK(hd, tj3EncodeYUV8(hd, img, w, 0, h, pf, yuv, 4));
    logf_(t, "%d yuvenc %dx%d pf%d ss%d -> %d h=%016llx", k, w, h, pf, ss, rc, (unsigned long long)fnv(yuv, ys));
    if (rc < 0) errinfo(t, hd, "yuvenc");
    else {
      int S = a[5] % NS;
      free_slot(t, S);
      CK(hd, tj3Set(hd, TJPARAM_QUALITY, 80)); CK(hd, tj3Set(hd, TJPARAM_NOREALLOC, 0));
      rc = CK(hd, tj3CompressFromYUV8(hd, yuv, w, 4, h, &t->slot[S], &t->slotsize[S]));
      logf_(t, "  yuvcomp -> %d size=%zu h=%016llx", rc, rc == 0 ? t->slotsize[S] : 0,
            rc == 0 ? (unsigned long long)fnv(t->slot[S], t->slotsize[S]) : 0ULL);
      if (rc < 0) { errinfo(t, hd, "yuvcomp"); free_slot(t, S); }
      else t->slot[S] = (unsigned char *)rehome(t->slot[S], t->slotsize[S]);
    }
    free(img); free(yuv);
  } else if (!strcmp(n, "yuvdec")) {  /* yuvdec H slot pf */
    int H = a[0] % NH, S = a[1] % NS, pf = a[2];
    tjhandle hd = t->h[H];
    if (!hd || t->htype[H] == TJINIT_COMPRESS || !t->slot[S]) { logf_(t, "%d yuvdec skip", k); return; }
    int rc = CK(hd, tj3DecompressHeader(hd, t->slot[S], t->slotsize[S]));
    if (rc < 0) { logf_(t, "%d yuvdec header -> %d", k, rc); errinfo(t, hd, "hdr"); return; }
    int w = tj3Get(hd, TJPARAM_JPEGWIDTH), h = tj3Get(hd, TJPARAM_JPEGHEIGHT), ss = tj3Get(hd, TJPARAM_SUBSAMP);
    if (tj3Get(hd, TJPARAM_PRECISION) != 8 || tj3Get(hd, TJPARAM_LOSSLESS) || ss < 0) { logf_(t, "%d yuvdec n/a", k); return; }
    size_t ys = tj3YUVBufSize(w, 4, h, ss);
    unsigned char *yuv = (unsigned char *)calloc(ys ? ys : 1, 1);
    rc = CK(hd, tj3DecompressToYUV8(hd, t->slot[S], t->slotsize[S], yuv, 4));
    logf_(t, "%d yuvdec %dx%d ss%d -> %d h=%016llx", k, w, h, ss, rc, (unsigned long long)fnv(yuv, ys));
    if (rc < 0) errinfo(t, hd, "yuvdec");
    else {
      size_t nb = (size_t)w * h * tjPixelSize[pf];
      unsigned char *rgb = (unsigned char *)calloc(nb ? nb : 1, 1);
      rc = CK(hd, tj3DecodeYUV8(hd, yuv, 4, rgb, w, 0, h, pf));
      logf_(t, "  decodeyuv pf%d -> %d h=%016llx", pf, rc, (unsigned long long)fnv(rgb, nb));
      if (rc < 0) errinfo(t, hd, "decodeyuv");
      free(rgb);
    }
    free(yuv);
  } else if (!strcmp(n, "badhdr")) {  /* badhdr H b0 b1 : failing header parse with a per-op marker in the message */
    int H = a[0] % NH;
    tjhandle hd = t->h[H];
    if (!hd || t->htype[H] == TJINIT_COMPRESS) { logf_(t, "%d badhdr skip", k); return; }
    unsigned char junk[64];
    for (int i = 0; i < 64; i++) junk[i] = (unsigned char)(i * 7 + a[1]);
    junk[0] = (unsigned char)a[1]; junk[1] = (unsigned char)a[2];
    int rc = CK(hd, tj3DecompressHeader(hd, junk, sizeof(junk)));
    char want[40];
    snprintf(want, sizeof(want), "0x%02x 0x%02x", a[1] & 255, a[2] & 255);
    logf_(t, "%d badhdr %s -> %d", k, want, rc);
    errinfo(t, hd, "badhdr");
    if (rc == 0) { t->ownfail = 1; snprintf(t->ownmsg, sizeof(t->ownmsg), "op=%d badhdr unexpectedly succeeded", k); }
    own(t, k, "instance error string right after the failure", tj3GetErrorStr(hd), want);
    own(t, k, "thread-local error string right after the failure", tj3GetErrorStr(NULL), want);
    sched_yield(); usleep(200); sched_yield();           /* let the other threads fail in between */
    own(t, k, "instance error string after yielding", tj3GetErrorStr(hd), want);
    own(t, k, "thread-local error string after yielding", tj3GetErrorStr(NULL), want);
    if (tj3GetErrorCode(hd) != TJERR_FATAL) own(t, k, "error code", "not-fatal", "fatal");
    snprintf(t->mark[H], sizeof(t->mark[H]), "%s", want);
  } else if (!strcmp(n, "trunc")) {   /* trunc H slot cut pf : decode a truncated copy */
    int H = a[0] % NH, S = a[1] % NS, pf = a[3];
    tjhandle hd = t->h[H];
    if (!hd || t->htype[H] == TJINIT_COMPRESS || !t->slot[S] || t->slotsize[S] < 200) { logf_(t, "%d trunc skip", k); return; }
    size_t cut = t->slotsize[S] * (size_t)(20 + a[2] % 75) / 100;
    int rc = CK(hd, tj3DecompressHeader(hd, t->slot[S], cut));
    if (rc < 0) { logf_(t, "%d trunc header -> %d", k, rc); errinfo(t, hd, "hdr"); return; }
    int w = tj3Get(hd, TJPARAM_JPEGWIDTH), h = tj3Get(hd, TJPARAM_JPEGHEIGHT), prec = tj3Get(hd, TJPARAM_PRECISION);
    size_t nsamp = (size_t)w * h * tjPixelSize[pf];
    void *out = calloc(nsamp ? nsamp : 1, prec <= 8 ? 1 : 2);
    if (prec <= 8) rc = CK(hd, tj3Decompress8(hd, t->slot[S], cut, (unsigned char *)out, 0, pf));
    else if (prec <= 12) rc = CK(hd, tj3Decompress12(hd, t->slot[S], cut, (short *)out, 0, pf));
    else rc = CK(hd, tj3Decompress16(hd, t->slot[S], cut, (unsigned short *)out, 0, pf));
    logf_(t, "%d trunc cut=%zu -> %d h=%016llx", k, cut, rc, (unsigned long long)fnv(out, nsamp * (prec <= 8 ? 1 : 2)));
    errinfo(t, hd, "trunc");
    free(out);
  } else if (!strcmp(n, "badarg")) {  /* badarg H kind */
    int H = a[0] % NH;
    tjhandle hd = t->h[H];
    if (!hd) { logf_(t, "%d badarg skip", k); return; }
    int rc = 0; const char *fn = "";
    unsigned char px[16] = { 0 }; unsigned char *jb = NULL; size_t js = 0;
    switch (a[1] % 4) {
    case 0: rc = CK(hd, tj3Compress8(hd, px, 0, 0, 1, TJPF_RGB, &jb, &js)); fn = "tj3Compress8"; break;
    case 1: rc = CK(hd, tj3Set(hd, TJPARAM_QUALITY, 1000 + a[1])); fn = "tj3Set"; break;
    case 2: rc = CK(hd, tj3DecompressHeader(hd, NULL, 10)); fn = "tj3DecompressHeader"; break;
    default: rc = CK(hd, tj3Decompress8(hd, px, 16, NULL, 0, TJPF_RGB)); fn = "tj3Decompress8"; break;
    }
    logf_(t, "%d badarg %d -> %d", k, a[1] % 4, rc);
    errinfo(t, hd, "badarg");
    if (rc < 0) {
      own(t, k, "instance error string names the failing function", tj3GetErrorStr(hd), fn);
      sched_yield();
      own(t, k, "instance error string after yielding", tj3GetErrorStr(hd), fn);
      snprintf(t->mark[H], sizeof(t->mark[H]), "%s", fn);
    }
    if (jb) tj3Free(jb);
  } else if (!strcmp(n, "ownerr")) {  /* ownerr H : the string retrieved for instance H must still be H's own last failure,
                                         whatever failed on OTHER instances (of this or any thread) since */
    int H = a[0] % NH;
    tjhandle hd = t->h[H];
    if (!hd || !t->mark[H][0]) { logf_(t, "%d ownerr skip", k); return; }
    own_set(hd);
    const char *s1 = tj3GetErrorStr(hd);
    logf_(t, "%d ownerr %d \"%s\"", k, H, s1);
    ev_add(t, 'G', H, s1);
    own(t, k, "cross-instance: error string retrieved for an instance after another instance failed", s1, t->mark[H]);

  } else if (!strcmp(n, "icc")) {     /* icc n seed w h : ICC profile set on the compressor, read back by the decompressor */
    tjhandle hc = t->h[0], hd = t->h[1];
    if (!hc || !hd || t->htype[0] != TJINIT_COMPRESS || t->htype[1] != TJINIT_DECOMPRESS) { logf_(t, "%d icc skip", k); return; }
    size_t nb = 1 + (size_t)(a[0] % 70000);
    unsigned char *prof = (unsigned char *)malloc(nb);
    uint32_t sd = (uint32_t)a[1];
    for (size_t i = 0; i < nb; i++) prof[i] = (unsigned char)lcg(&sd);
    int rc = CK(hc, tj3SetICCProfile(hc, prof, nb));
    CK(hc, tj3Set(hc, TJPARAM_PRECISION, 8)); CK(hc, tj3Set(hc, TJPARAM_LOSSLESS, 0)); CK(hc, tj3Set(hc, TJPARAM_SUBSAMP, TJSAMP_420));
    CK(hc, tj3Set(hc, TJPARAM_QUALITY, 70)); CK(hc, tj3Set(hc, TJPARAM_NOREALLOC, 0)); CK(hc, tj3Set(hc, TJPARAM_MAXMEMORY, 0));
    unsigned char *img = (unsigned char *)mkimage(8, a[2], a[3], 3, sd);
    unsigned char *jb = NULL; size_t js = 0;
    int rc2 = CK(hc, tj3Compress8(hc, img, a[2], 0, a[3], TJPF_RGB, &jb, &js));
    free(img);
    logf_(t, "%d icc set %zu -> %d comp -> %d size=%zu", k, nb, rc, rc2, rc2 == 0 ? js : 0);
    if (rc2 == 0) jb = (unsigned char *)rehome(jb, js);
    if (rc2 == 0) {
      CK(hd, tj3Set(hd, TJPARAM_SAVEMARKERS, 2)); CK(hd, tj3Set(hd, TJPARAM_SCANLIMIT, 0)); CK(hd, tj3Set(hd, TJPARAM_MAXMEMORY, 0));
      int rc3 = CK(hd, tj3DecompressHeader(hd, jb, js));
      unsigned char *got = NULL; size_t gs = 0;
      int rc4 = rc3 == 0 ? CK(hd, tj3GetICCProfile(hd, &got, &gs)) : -1;
      int same = rc4 == 0 && gs == nb && !memcmp(got, prof, nb);
      logf_(t, "  icc get -> %d %d size=%zu same=%d", rc3, rc4, gs, same);
      if (rc4 < 0) errinfo(t, hd, "icc");
      if (got) tj3Free(got);
    } else errinfo(t, hc, "icc");
    CK(hc, tj3SetICCProfile(hc, NULL, 0));
    if (jb) tj3Free(jb);
    free(prof);
  } else if (!strcmp(n, "crop")) {    /* crop H slot pf xi yi wi hi sfidx : partial decompression (8-bit lossy) */
    int H = a[0] % NH, S = a[1] % NS, pf = a[2];
    tjhandle hd = t->h[H];
    if (!hd || t->htype[H] == TJINIT_COMPRESS || !t->slot[S]) { logf_(t, "%d crop skip", k); return; }
    CK(hd, tj3Set(hd, TJPARAM_SCANLIMIT, 0)); CK(hd, tj3Set(hd, TJPARAM_MAXMEMORY, 0));
    int rc = CK(hd, tj3DecompressHeader(hd, t->slot[S], t->slotsize[S]));
    if (rc < 0) { logf_(t, "%d crop header -> %d", k, rc); errinfo(t, hd, "hdr"); return; }
    int w = tj3Get(hd, TJPARAM_JPEGWIDTH), h = tj3Get(hd, TJPARAM_JPEGHEIGHT), ss = tj3Get(hd, TJPARAM_SUBSAMP);
    if (tj3Get(hd, TJPARAM_PRECISION) != 8 || tj3Get(hd, TJPARAM_LOSSLESS) || ss < 0 || ss >= TJ_NUMSAMP) { logf_(t, "%d crop n/a", k); return; }
    int nsf = 0; tjscalingfactor *sfs = tj3GetScalingFactors(&nsf);
    tjscalingfactor sf = sfs[a[7] % nsf];
    CK(hd, tj3SetScalingFactor(hd, sf));
    int sw = TJSCALED(w, sf), sh = TJSCALED(h, sf);
    int mw = TJSCALED(tjMCUWidth[ss], sf);
    tjregion r;
    r.x = mw > 0 ? (a[3] % (sw / mw + 1)) * mw : 0;
    r.y = a[4] % (sh > 0 ? sh : 1);
    if (r.x >= sw) r.x = 0;
    r.w = 1 + a[5] % (sw - r.x); r.h = 1 + a[6] % (sh - r.y);
    rc = CK(hd, tj3SetCroppingRegion(hd, r));
    if (rc < 0) { logf_(t, "%d crop region %d,%d %dx%d of %dx%d -> %d", k, r.x, r.y, r.w, r.h, sw, sh, rc); errinfo(t, hd, "crop"); }
    else {
      size_t nb = (size_t)r.w * r.h * tjPixelSize[pf];
      unsigned char *out = (unsigned char *)calloc(nb ? nb : 1, 1);
      rc = CK(hd, tj3Decompress8(hd, t->slot[S], t->slotsize[S], out, 0, pf));
      logf_(t, "%d crop %d,%d %dx%d of %dx%d pf%d -> %d h=%016llx", k, r.x, r.y, r.w, r.h, sw, sh, pf, rc, (unsigned long long)fnv(out, nb));
      if (rc < 0) errinfo(t, hd, "crop");
      free(out);
    }
    r.x = r.y = r.w = r.h = 0; CK(hd, tj3SetCroppingRegion(hd, r));
    sf.num = sf.denom = 1; CK(hd, tj3SetScalingFactor(hd, sf));
  } else if (!strcmp(n, "planes")) {  /* planes w h pf ss seed slot : EncodeYUVPlanes8 + CompressFromYUVPlanes8 + DecompressToYUVPlanes8 + DecodeYUVPlanes8 */
    tjhandle hc = t->h[0], hd = t->h[1];
    int w = a[0], h = a[1], pf = a[2], ss = a[3], S = a[5] % NS;
    if (!hc || !hd || t->htype[0] != TJINIT_COMPRESS || t->htype[1] != TJINIT_DECOMPRESS) { logf_(t, "%d planes skip", k); return; }
    CK(hc, tj3Set(hc, TJPARAM_PRECISION, 8)); CK(hc, tj3Set(hc, TJPARAM_LOSSLESS, 0)); CK(hc, tj3Set(hc, TJPARAM_SUBSAMP, ss));
    CK(hc, tj3Set(hc, TJPARAM_QUALITY, 85)); CK(hc, tj3Set(hc, TJPARAM_NOREALLOC, 0)); CK(hc, tj3Set(hc, TJPARAM_MAXMEMORY, 0));
    unsigned char *img = (unsigned char *)mkimage(8, w, h, tjPixelSize[pf], (uint32_t)a[4]);
    unsigned char *pl[3] = { NULL, NULL, NULL }; int st[3] = { 0, 0, 0 };
    int np = ss == TJSAMP_GRAY ? 1 : 3;
    uint64_t hh = 0;
    for (int i = 0; i < np; i++) {
      st[i] = tj3YUVPlaneWidth(i, w, ss) + (a[4] & 7);
      pl[i] = (unsigned char *)calloc(tj3YUVPlaneSize(i, w, st[i], h, ss) + 1, 1);
    }
    int rc = CK(hc, tj3EncodeYUVPlanes8(hc, img, w, 0, h, pf, pl, st));
    for (int i = 0; i < np; i++) hh ^= fnv(pl[i], tj3YUVPlaneSize(i, w, st[i], h, ss)) * (i + 1);
    logf_(t, "%d planes enc %dx%d pf%d ss%d -> %d h=%016llx", k, w, h, pf, ss, rc, (unsigned long long)hh);
    if (rc < 0) errinfo(t, hc, "planes");
    else {
      free_slot(t, S);
      rc = CK(hc, tj3CompressFromYUVPlanes8(hc, (const unsigned char * const *)pl, w, st, h, &t->slot[S], &t->slotsize[S]));
      logf_(t, "  planes comp -> %d size=%zu h=%016llx", rc, rc == 0 ? t->slotsize[S] : 0, rc == 0 ? (unsigned long long)fnv(t->slot[S], t->slotsize[S]) : 0ULL);
      if (rc < 0) { errinfo(t, hc, "planes"); free_slot(t, S); }
      else {
        t->slot[S] = (unsigned char *)rehome(t->slot[S], t->slotsize[S]);
        for (int i = 0; i < np; i++) memset(pl[i], 0, tj3YUVPlaneSize(i, w, st[i], h, ss));
        CK(hd, tj3Set(hd, TJPARAM_SCANLIMIT, 0)); CK(hd, tj3Set(hd, TJPARAM_MAXMEMORY, 0));
        rc = CK(hd, tj3DecompressHeader(hd, t->slot[S], t->slotsize[S]));
        if (rc == 0) rc = CK(hd, tj3DecompressToYUVPlanes8(hd, t->slot[S], t->slotsize[S], pl, st));
        hh = 0; for (int i = 0; i < np; i++) hh ^= fnv(pl[i], tj3YUVPlaneSize(i, w, st[i], h, ss)) * (i + 1);
        logf_(t, "  planes dec -> %d h=%016llx", rc, (unsigned long long)hh);
        if (rc < 0) errinfo(t, hd, "planes");
        size_t nb = (size_t)w * h * tjPixelSize[pf];
        unsigned char *rgb = (unsigned char *)calloc(nb ? nb : 1, 1);
        rc = CK(hd, tj3DecodeYUVPlanes8(hd, (const unsigned char * const *)pl, st, rgb, w, 0, h, pf));
        logf_(t, "  planes decode -> %d h=%016llx", rc, (unsigned long long)fnv(rgb, nb));
        if (rc < 0) errinfo(t, hd, "planes");
        free(rgb);
      }
    }
    for (int i = 0; i < np; i++) free(pl[i]);
    free(img);
  } else if (!strcmp(n, "file")) {    /* file H prec w h pf seed bmp : tj3SaveImage + tj3LoadImage round trip in $C15_TMP */
    int H = a[0] % NH, prec = a[1], w = a[2], h = a[3], pf = a[4];
    tjhandle hd = t->h[H];
    const char *dir = getenv("C15_TMP");
    if (!hd || !dir) { logf_(t, "%d file skip", k); return; }
    char fn[600];
    int bmp = a[6] && prec == 8;
    snprintf(fn, sizeof(fn), "%s/c15_%d_%d_%d.%s", dir, (int)getpid(), t->tid, k, bmp ? "bmp" : "ppm");
    void *img = mkimage(prec, w, h, tjPixelSize[pf], (uint32_t)a[5]);
    CK(hd, tj3Set(hd, TJPARAM_PRECISION, prec));
    int rc;
    if (prec <= 8) rc = CK(hd, tj3SaveImage8(hd, fn, (unsigned char *)img, w, 0, h, pf));
    else if (prec <= 12) rc = CK(hd, tj3SaveImage12(hd, fn, (short *)img, w, 0, h, pf));
    else rc = CK(hd, tj3SaveImage16(hd, fn, (unsigned short *)img, w, 0, h, pf));
    logf_(t, "%d file save p%d %dx%d pf%d %s -> %d", k, prec, w, h, pf, bmp ? "bmp" : "ppm", rc);
    if (rc < 0) errinfo(t, hd, "save");
    else {
      int lw = 0, lh = 0, lpf = pf;
      void *ld;
      if (prec <= 8) ld = CKP(hd, tj3LoadImage8(hd, fn, &lw, 1, &lh, &lpf));
      else if (prec <= 12) ld = CKP(hd, tj3LoadImage12(hd, fn, &lw, 1, &lh, &lpf));
      else ld = CKP(hd, tj3LoadImage16(hd, fn, &lw, 1, &lh, &lpf));
      size_t nb = ld ? (size_t)lw * lh * tjPixelSize[lpf] * (prec <= 8 ? 1 : 2) : 0;
      logf_(t, "  file load -> %s %dx%d pf%d h=%016llx", ld ? "ok" : "NULL", lw, lh, lpf, (unsigned long long)fnv(ld, nb));
      if (!ld) errinfo(t, hd, "load");
      else tj3Free(ld);
    }
    /* a failing load: sets the instance and the thread-local error strings (strerror path) */
    snprintf(fn + strlen(fn), sizeof(fn) - strlen(fn), ".missing");
    { int lw, lh, lpf = TJPF_UNKNOWN; void *ld = CKP(hd, tj3LoadImage8(hd, fn, &lw, 1, &lh, &lpf));
      logf_(t, "  file missing -> %s", ld ? "ok?" : "NULL"); errinfo(t, hd, "missing"); if (ld) tj3Free(ld); }
    fn[strlen(fn) - 8] = 0;
    unlink(fn);
    free(img);
    CK(hd, tj3Set(hd, TJPARAM_PRECISION, 8));
  } else if (!strcmp(n, "ljdec")) {   /* ljdec slot mode colors dither : raw libjpeg API decompression with colour quantisation */
    lj_decompress(t, k, a[0] % NS, a[1], a[2], a[3]);
  } else if (!strcmp(n, "ljcomp")) {  /* ljcomp slot w h q opt seed : raw libjpeg API compression into a slot */
    lj_compress(t, k, a[0] % NS, a[1], a[2], a[3], a[4], (uint32_t)a[5]);

  } else if (!strcmp(n, "nested")) {  /* nested H slot Hin kind small op : tj3Transform whose custom filter uses instance Hin */
    int H = a[0] % NH, S = a[1] % NS, Hin = a[2] % NH;
    tjhandle hd = t->h[H], hin = t->h[Hin];
    if (!hd || t->htype[H] != TJINIT_TRANSFORM || !t->slot[S] || !hin || Hin == H) { logf_(t, "%d nested skip", k); return; }
    t->mark[Hin][0] = 0;
    nest_t ctx = { t, hd, hin, a[3], 0 };
    tjtransform xf; memset(&xf, 0, sizeof(xf));
    xf.op = a[5] % 8; xf.customFilter = nest_filter; xf.data = &ctx;
    size_t cap = a[4] % 3 == 0 ? 0 : a[4] % 3 == 1 ? 1500 : 4096;
    unsigned char *dst = cap ? (unsigned char *)malloc(cap) : NULL; size_t dsz = cap;
    CK(hd, tj3Set(hd, TJPARAM_NOREALLOC, cap ? 1 : 0));
    CK(hd, tj3Set(hd, TJPARAM_SCANLIMIT, 0)); CK(hd, tj3Set(hd, TJPARAM_MAXMEMORY, 0));
    int rc = CK(hd, tj3Transform(hd, t->slot[S], t->slotsize[S], 1, &dst, &dsz, &xf));
    char outer_msg[JMSG_LENGTH_MAX]; snprintf(outer_msg, sizeof(outer_msg), "%s", tj3GetErrorStr(hd));
    logf_(t, "%d nested op%d kind%d cap%zu -> %d filter-calls=%d size=%zu", k, a[5] % 8, a[3] % 3, cap, rc, ctx.calls, rc == 0 ? dsz : 0);
    /* an instance-less failure in between, so that the thread-local fallback cannot supply the right text by accident */
    size_t z = tj3JPEGBufSize(-1, 1, 0);
    ev_add(t, 'T', -1, tj3GetErrorStr(NULL));
    logf_(t, "  nested helper %zu", z);
    char s_hd[JMSG_LENGTH_MAX], s_hin[JMSG_LENGTH_MAX];
    errinfo(t, hd, "nested-outer"); snprintf(s_hd, sizeof(s_hd), "%s", tj3GetErrorStr(hd));
    errinfo(t, hin, "nested-inner"); snprintf(s_hin, sizeof(s_hin), "%s", tj3GetErrorStr(hin));
    if (rc < 0) own(t, k, "cross-instance: message of the failing outer transform instance after a nested call", s_hd, outer_msg);
    if (rc < 0 && strcmp(outer_msg, "tj3JPEGBufSize(): Invalid argument") && ctx.kind % 3 != 1 && !strcmp(s_hin, outer_msg))
      own(t, k, "cross-instance: the inner instance (which did not fail) reports the outer instance's failure", s_hin, "<own>");
    own_set(hd);
    CK(hd, tj3Set(hd, TJPARAM_NOREALLOC, 0));
    if (rc == 0 && !cap) tj3Free(dst); else free(dst);
  } else if (!strcmp(n, "geterr")) {
    int H = a[0] % NH;
    if (t->h[H]) errinfo(t, t->h[H], "geterr"); else logf_(t, "%d geterr skip", k);
  } else if (!strcmp(n, "gerr")) {
    logf_(t, "%d gerr \"%s\" code=%d", k, tj3GetErrorStr(NULL), tj3GetErrorCode(NULL));
    ev_add(t, 'Q', -1, tj3GetErrorStr(NULL));
  } else if (!strcmp(n, "helper")) {  /* helper kind a b c */
    char before[JMSG_LENGTH_MAX]; snprintf(before, sizeof(before), "%s", tj3GetErrorStr(NULL));
    int hk = a[0] % 7;
    if (hk < 5) {   /* normally succeeding helpers: a failure (e.g. chroma plane of a grayscale image) sets the thread-local string */
      size_t z = hk == 0 ? tj3JPEGBufSize(a[1], a[2], a[3] % 7) : hk == 1 ? tj3YUVBufSize(a[1], 1 << (a[3] % 4), a[2], a[3] % 6) :
                 hk == 2 ? tj3YUVPlaneSize(a[3] % 3, a[1], 0, a[2], a[3] % 6) : 1;
      if (hk == 2 && (tj3YUVPlaneWidth(a[3] % 3, a[1], a[3] % 6) <= 0 || tj3YUVPlaneHeight(a[3] % 3, a[2], a[3] % 6) <= 0)) z = 0;
      if (z == 0 || strcmp(before, tj3GetErrorStr(NULL))) ev_add(t, 'T', -1, tj3GetErrorStr(NULL));
    }
    switch (a[0] % 7) {
    case 0: logf_(t, "%d jpegbufsize %zu", k, tj3JPEGBufSize(a[1], a[2], a[3] % 7)); break;
    case 1: logf_(t, "%d yuvbufsize %zu", k, tj3YUVBufSize(a[1], 1 << (a[3] % 4), a[2], a[3] % 6)); break;
    case 2: logf_(t, "%d yuvplane %zu %d %d", k, tj3YUVPlaneSize(a[3] % 3, a[1], 0, a[2], a[3] % 6),
                  tj3YUVPlaneWidth(a[3] % 3, a[1], a[3] % 6), tj3YUVPlaneHeight(a[3] % 3, a[2], a[3] % 6)); break;
    case 3: {
      int nsf = 0; tjscalingfactor *sf = tj3GetScalingFactors(&nsf);
      logf_(t, "%d scalingfactors %d h=%016llx", k, nsf, (unsigned long long)fnv(sf, sizeof(*sf) * (nsf > 0 ? nsf : 0)));
      break; }
    case 4: {
      size_t nb = 1 + (size_t)(a[1] % 5000);
      unsigned char *p = (unsigned char *)tj3Alloc(nb);
      if (p) { memset(p, a[2] & 255, nb); logf_(t, "%d alloc %zu h=%016llx", k, nb, (unsigned long long)fnv(p, nb)); tj3Free(p); }
      else logf_(t, "%d alloc NULL", k);
      break; }
    case 5: {   /* failing helper: sets only the thread-local error string */
      size_t r = tj3JPEGBufSize(-(1 + a[1] % 100), a[2], 0);
      logf_(t, "%d jpegbufsize-bad %zu gerr=\"%s\"", k, r, tj3GetErrorStr(NULL));
      ev_add(t, 'T', -1, "tj3JPEGBufSize(): Invalid argument"); ev_add(t, 'Q', -1, tj3GetErrorStr(NULL));
      own(t, k, "thread-local error string of a failing helper", tj3GetErrorStr(NULL), "tj3JPEGBufSize");
      sched_yield();
      own(t, k, "thread-local error string of a failing helper after yielding", tj3GetErrorStr(NULL), "tj3JPEGBufSize");
      break; }
    default: {
      size_t r = tj3YUVBufSize(a[1], 3, a[2], 0);   /* align 3: invalid */
      logf_(t, "%d yuvbufsize-bad %zu gerr=\"%s\"", k, r, tj3GetErrorStr(NULL));
      ev_add(t, 'T', -1, "tj3YUVBufSize(): Invalid argument"); ev_add(t, 'Q', -1, tj3GetErrorStr(NULL));
      own(t, k, "thread-local error string of a failing helper", tj3GetErrorStr(NULL), "tj3YUVBufSize");
      break; }
    }
  } else if (!strcmp(n, "legacy") && strcmp(n, "icc") && strcmp(n, "planes") && strcmp(n, "ljdec") && strcmp(n, "ljcomp")) {  /* legacy w h pf subsamp qual seed : 2.x API with flags=0 (no env write) */
    int w = a[0], h = a[1], pf = a[2], ss = a[3], q = a[4];
    own_new(); in_lib = iso_on; tjhandle c = tjInitCompress(); in_lib = 0; own_bind(c);
    unsigned char *img = (unsigned char *)mkimage(8, w, h, tjPixelSize[pf], (uint32_t)a[5]);
    unsigned char *jb = NULL; unsigned long js = 0;
    own_set(c); in_lib = iso_on;
    int rc = c ? tjCompress2(c, img, w, 0, h, pf, &jb, &js, ss, q, 0) : -1;
    in_lib = 0;
    if (rc == 0) jb = (unsigned char *)rehome(jb, js);
    logf_(t, "%d legacy comp -> %d size=%lu h=%016llx", k, rc, rc == 0 ? js : 0, rc == 0 ? (unsigned long long)fnv(jb, js) : 0ULL);
    if (rc == 0) {
      own_new(); in_lib = iso_on; tjhandle d = tjInitDecompress(); in_lib = 0; own_bind(d);
      unsigned char *out = (unsigned char *)calloc((size_t)w * h * tjPixelSize[pf] + 1, 1);
      own_set(d); in_lib = iso_on;
      rc = d ? tjDecompress2(d, jb, js, out, w, 0, h, pf, 0) : -1;
      in_lib = 0;
      logf_(t, "  legacy decomp -> %d h=%016llx", rc, (unsigned long long)fnv(out, (size_t)w * h * tjPixelSize[pf]));
      if (rc < 0 && d) logf_(t, "  legacy err=\"%s\"", tjGetErrorStr2(d));
      /* failing legacy call: tjGetErrorStr() reads the thread-local string */
      rc = d ? tjDecompress2(d, jb, 1, out, w, 0, h, pf, 0) : -1;
      logf_(t, "  legacy short -> %d err=\"%s\" g=\"%s\"", rc, d ? tjGetErrorStr2(d) : "", tjGetErrorStr());
      free(out);
      if (d) tjDestroy(d);
    }
    if (jb) tjFree(jb);
    free(img);
    if (c) { own_set(c); tjDestroy(c); }
    own_none();
    ev_add(t, 'T', -1, tjGetErrorStr());      /* the legacy calls above went through their own instances */
  } else if (!strcmp(n, "yield")) {
    sched_yield(); if (a[0] > 0) usleep(a[0] % 300);
  } else {
    logf_(t, "%d ?%s", k, n);
  }
}

static void reset_state(thr_t *t)
{
  memset(t->h, 0, sizeof(t->h)); memset(t->htype, 0, sizeof(t->htype));
  memset(t->slot, 0, sizeof(t->slot)); memset(t->slotsize, 0, sizeof(t->slotsize));
  memset(t->mark, 0, sizeof(t->mark));
  t->lastc = -1;
  t->log = NULL; t->loglen = t->logcap = 0;
}

static void *worker(void *arg)
{
  thr_t *t = (thr_t *)arg;
  if (nthreads > 1 && t->tid >= 0) pthread_barrier_wait(&bar);
  for (int k = 0; k < t->nops; k++) run_op(t, k);
  for (int i = 0; i < NH; i++) if (t->h[i]) { own_set(t->h[i]); tj3Destroy(t->h[i]); t->h[i] = NULL; }
  for (int i = 0; i < NS; i++) free_slot(t, i);
  if (t->pre) { own_set(t->pre); tj3Destroy(t->pre); t->pre = NULL; }
  own_none();
  __atomic_add_fetch(&done_count, 1, __ATOMIC_SEQ_CST);
  return NULL;
}

static int pre_type(thr_t *t)
{
  for (int k = 0; k < t->nops; k++) if (!strcmp(t->ops[k].name, "usepre")) return t->ops[k].a[1];
  return -1;
}

int main(int argc, char **argv)
{
  int verbose = argc > 1 && !strcmp(argv[1], "-v");
  setvbuf(stdout, NULL, _IOLBF, 0);
  char line[1024];
  int maxtid = -1;
  while (fgets(line, sizeof(line), stdin)) {
    int tid; char name[32]; int off = 0;
    if (sscanf(line, "%d %31s%n", &tid, name, &off) < 2) continue;
    if (tid < 0 || tid >= MAXT) continue;
    thr_t *t = &T[tid];
    if (t->nops >= MAXOPS) continue;
    op_t *o = &t->ops[t->nops++];
    memset(o, 0, sizeof(*o));
    strncpy(o->name, name, sizeof(o->name) - 1);
    char *p = line + off;
    while (o->na < 14) {
      char *e; long v = strtol(p, &e, 10);
      if (e == p) break;
      o->a[o->na++] = (int)v; p = e;
    }
    if (tid > maxtid) maxtid = tid;
  }
  nthreads = maxtid + 1;
  if (nthreads <= 0) return 0;

  /* ---------------- phase 1: all threads concurrently (first use of everything races here) */
  char *clog[MAXT]; size_t clen[MAXT]; int cown[MAXT]; char cmsg[MAXT][300];
  pthread_t th[MAXT];
  pthread_barrier_init(&bar, NULL, nthreads);
  watch_load();
  for (int i = 0; i < nthreads; i++) {
    T[i].tid = i; reset_state(&T[i]); T[i].ownfail = 0;
    int pt = pre_type(&T[i]);
    T[i].pre = pt >= 0 ? tj_init(pt) : NULL; own_none();
  }
  ev_on = 1;
  for (int i = 0; i < nthreads; i++) pthread_create(&th[i], NULL, worker, &T[i]);
  if (nwatch && getenv("C15_WATCH_POLL"))     /* un-instrumented build only: sample while the workers run */
    while (__atomic_load_n(&done_count, __ATOMIC_SEQ_CST) < nthreads) { watch_check("while-threads-run"); usleep(50); }
  for (int i = 0; i < nthreads; i++) pthread_join(th[i], NULL);
  ev_on = 0;
  int wbad = watch_check("after-concurrent-phase");
  if (getenv("C15_EVENTS"))
    for (int i = 0; i < nthreads; i++)
      for (int j = 0; j < T[i].nev; j++)
        printf("EV %lu %d %c %d %d %s\n", T[i].ev[j].seq, i, T[i].ev[j].kind, T[i].ev[j].H, T[i].ev[j].code, T[i].ev[j].msg ? T[i].ev[j].msg : "");
  for (int i = 0; i < nthreads; i++) {
    clog[i] = T[i].log ? T[i].log : strdup(""); clen[i] = T[i].loglen; cown[i] = T[i].ownfail;
    memcpy(cmsg[i], T[i].ownmsg, sizeof(cmsg[i]));
  }
  /* ---------------- phase 2: each list alone, in a fresh thread */
  int saved = nthreads;
  nthreads = 1;
  for (int i = 0; i < saved; i++) {
    reset_state(&T[i]); T[i].ownfail = 0;
    int pt = pre_type(&T[i]);
    T[i].pre = pt >= 0 ? tj_init(pt) : NULL; own_none();
    pthread_create(&th[i], NULL, worker, &T[i]);
    pthread_join(th[i], NULL);
  }
  nthreads = saved;
  wbad |= watch_check("after-solo-phase");
  int bad = wbad;
#ifdef C15_WRAP
  /* ---------------- phase 3: each list alone once more with heap isolation between instances */
  if (getenv("C15_ISOLATE")) {
    char *slog[MAXT];
    struct sigaction sa; memset(&sa, 0, sizeof(sa)); sa.sa_sigaction = iso_fault; sa.sa_flags = SA_SIGINFO;
    sigaction(SIGSEGV, &sa, NULL);
    nthreads = 1;
    iso_on = 1;
    for (int i = 0; i < saved; i++) {
      slog[i] = T[i].log;
      reset_state(&T[i]); T[i].ownfail = 0;
      int pt = pre_type(&T[i]);
      T[i].pre = pt >= 0 ? tj_init(pt) : NULL; own_none();
      pthread_create(&th[i], NULL, worker, &T[i]);
      pthread_join(th[i], NULL);
      int same = !strcmp(T[i].log ? T[i].log : "", slog[i] ? slog[i] : "");
      printf("T%d ISO %s owners=%d regions=%d\n", i, same ? "OK" : "DIFF", n_owner, nreg);
      if (!same) bad = 1;
      T[i].log = slog[i];
    }
    iso_on = 0;
    nthreads = saved;
  }
#endif
  for (int i = 0; i < nthreads; i++) {
    const char *sl = T[i].log ? T[i].log : "";
    if (cown[i]) { printf("T%d OWN %s\n", i, cmsg[i]); bad = 1; }
    else if (T[i].ownfail) { printf("T%d OWNSOLO %s\n", i, T[i].ownmsg); bad = 1; }
    else if (strcmp(sl, clog[i])) {
      /* first differing line */
      const char *a = sl, *b = clog[i]; int ln = 0;
      while (*a && *b) {
        const char *ea = strchr(a, '\n'), *eb = strchr(b, '\n');
        size_t la = ea ? (size_t)(ea - a) : strlen(a), lb = eb ? (size_t)(eb - b) : strlen(b);
        if (la != lb || memcmp(a, b, la)) break;
        a += la + (ea ? 1 : 0); b += lb + (eb ? 1 : 0); ln++;
      }
      const char *ea = strchr(a, '\n'), *eb = strchr(b, '\n');
      printf("T%d DIFF line=%d solo=[%.*s] conc=[%.*s]\n", i, ln, (int)(ea ? ea - a : (long)strlen(a)), a,
             (int)(eb ? eb - b : (long)strlen(b)), b);
      bad = 1;
    } else
      printf("T%d OK n=%d h=%016llx\n", i, T[i].nops, (unsigned long long)fnv(sl, strlen(sl)));
    if (verbose) printf("%s", sl);
  }
  printf("DONE %d\n", bad);
  return 0;
}
