/* C01 progressive-block harness: runs the REAL decode_mcu_AC_first / decode_mcu_AC_refine of the working
 * tree (reached by including jdphuff.c) on one block.
 *   pfirst  <Ss> <Se> <Al> <ac bits1..16> | <ac vals> | <hex entropy bytes (no FF)>
 *   prefine <Ss> <Se> <Al> <eobrun> <ac bits1..16> | <ac vals> | <c0 .. c63> | <hex entropy bytes (no FF)>
 * prints "<mode> c0 .. c63 eob=<EOBRUN>".  The block is an exact-size heap allocation (ASan).
 */
#include <stdio.h>
#include <stdlib.h>
#include <string.h>
#include <setjmp.h>
#include "jdphuff.c"

static jmp_buf jb;
static void my_exit(j_common_ptr c) { longjmp(jb, 1); }
static void my_emit(j_common_ptr c, int lvl) { if (lvl < 0) c->err->num_warnings++; }
static char line[1 << 16];
static int hexv(int c) { return c >= '0' && c <= '9' ? c - '0' : c >= 'a' && c <= 'f' ? c - 'a' + 10 : -1; }

int main(void)
{
  setvbuf(stdout, NULL, _IOLBF, 0);
  while (fgets(line, sizeof(line), stdin)) {
    struct jpeg_decompress_struct c; struct jpeg_error_mgr e; JHUFF_TBL act; jpeg_component_info comp;
    char *p; unsigned char *data; size_t n = 0; JBLOCK *blk; JBLOCKROW rows[1]; int i, refine, Ss, Se, Al, ok; long eob = 0; const char *tag;
    if (!strncmp(line, "pfirst ", 7)) { refine = 0; p = line + 7; tag = "pfirst"; }
    else if (!strncmp(line, "prefine ", 8)) { refine = 1; p = line + 8; tag = "prefine"; }
    else { puts("?"); continue; }
    Ss = (int)strtol(p, &p, 10); Se = (int)strtol(p, &p, 10); Al = (int)strtol(p, &p, 10);
    if (refine) eob = strtol(p, &p, 10);
    memset(&act, 0, sizeof(act));
    for (i = 1; i <= 16; i++) act.bits[i] = (UINT8)strtol(p, &p, 10);
    while (*p == ' ') p++; if (*p == '|') p++;
    for (i = 0;;) { while (*p == ' ') p++; if (*p == '|' || !*p || *p == '\n') break; { long v = strtol(p, &p, 10); if (i < 256) act.huffval[i++] = (UINT8)v; } }
    if (*p == '|') p++;
    blk = (JBLOCK *)malloc(sizeof(JBLOCK)); memset(blk, 0, sizeof(JBLOCK));
    if (refine) { for (i = 0; i < DCTSIZE2; i++) (*blk)[i] = (JCOEF)strtol(p, &p, 10); while (*p == ' ') p++; if (*p == '|') p++; }
    while (*p == ' ') p++;
    data = (unsigned char *)malloc(strlen(p) / 2 + 1);
    while (hexv(p[0]) >= 0 && hexv(p[1]) >= 0) { data[n++] = (unsigned char)(hexv(p[0]) * 16 + hexv(p[1])); p += 2; }
    { unsigned char *d2 = (unsigned char *)malloc(n ? n : 1); memcpy(d2, data, n); free(data); data = d2; }
    memset(&c, 0, sizeof(c));
    c.err = jpeg_std_error(&e); e.error_exit = my_exit; e.emit_message = my_emit;
    if (setjmp(jb)) { printf("%s error\n", tag); c.ac_huff_tbl_ptrs[0] = NULL; c.comp_info = NULL; jpeg_destroy_decompress(&c); free(data); free(blk); continue; }
    jpeg_create_decompress(&c);
    c.ac_huff_tbl_ptrs[0] = &act;
    memset(&comp, 0, sizeof(comp));
    comp.component_index = 0; comp.ac_tbl_no = 0; comp.dc_tbl_no = 0; comp.component_needed = TRUE; comp.h_samp_factor = comp.v_samp_factor = 1;
    c.comp_info = &comp; c.num_components = 1; c.comps_in_scan = 1; c.cur_comp_info[0] = &comp; c.progressive_mode = TRUE;
    c.blocks_in_MCU = 1; c.MCU_membership[0] = 0; c.Ss = Ss; c.Se = Se; c.Al = Al; c.Ah = refine ? Al + 1 : 0; c.restart_interval = 0;
    c.input_scan_number = 2;
    if (n) jpeg_mem_src(&c, data, (unsigned long)n); else { static unsigned char z[1] = { 0 }; jpeg_mem_src(&c, z, 1); c.src->bytes_in_buffer = 0; }
    jinit_phuff_decoder(&c);
    (*c.entropy->start_pass) (&c);
    ((phuff_entropy_ptr)c.entropy)->saved.EOBRUN = (unsigned int)eob;
    rows[0] = blk;
    ok = (*c.entropy->decode_mcu) (&c, rows);
    if (!ok) printf("%s susp\n", tag);
    else { printf("%s", tag); for (i = 0; i < DCTSIZE2; i++) printf(" %d", (int)(*blk)[i]); printf(" eob=%u\n", ((phuff_entropy_ptr)c.entropy)->saved.EOBRUN); }
    c.ac_huff_tbl_ptrs[0] = NULL; c.comp_info = NULL;
    jpeg_destroy_decompress(&c); free(data); free(blk);
  }
  return 0;
}
